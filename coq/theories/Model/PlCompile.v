(* Model/PlCompile.v — transcription of the Polars backend's compile_ast (backend/polars.py) for
   single-source pipelines.  Definitions only.
   compile_ast threads (df, name_in_df, select, partition_by).  The frame's columns carry NAMES; a
   column that is hidden and whose name is taken by a new visible column is renamed to
   "<name>:<hex of a fresh uuid>" (rename_overwritten_cols).  The model keeps the two kinds of names
   apart - User n is a name written by the user, Hidden n c a suffixed one (c: a counter standing for the
   fresh uuid) - which is the assumption that a suffixed name never equals a user name or another
   suffixed name.  An expression reads column u through name_in_df (compile_col_expr: pl.col(name_in_df[uuid])). *)
From Coq Require Import List String NArith ZArith Bool Arith.
From PDT Require Import Base.StableSort Model.Dtype Model.Value Model.Ops Model.Expr Model.RefSem.
From PDTGen Require Import Catalogue.
Import ListNotations.
Open Scope list_scope.

Inductive dname := User (n : string) | Hidden (n : string) (c : nat).

Definition dname_eqb (a b : dname) : bool :=
  match a, b with
  | User n, User m => String.eqb n m
  | Hidden n c, Hidden m k => String.eqb n m && Nat.eqb c k
  | _, _ => false
  end.

Definition show (dn : dname) : string :=
  match dn with User n => n | Hidden n _ => n ++ ":hidden" end.
Definition is_user (dn : dname) : bool := match dn with User _ => true | Hidden _ _ => false end.

Definition nrow := list (dname * value).
Fixpoint nget (f : nrow) (n : dname) : value :=
  match f with
  | [] => VNull
  | (k, v) :: f' => if dname_eqb k n then v else nget f' n
  end.

Definition names := list (uid * dname).          (* name_in_df *)
Definition pname (ns : names) (u : uid) : dname :=
  match assoc_u u ns with Some n => n | None => User EmptyString end.

(* the uid-keyed row an expression sees *)
Definition view (ns : names) (f : nrow) : row := map (fun un => (fst un, nget f (snd un))) ns.

Record pstate := {
  p_rows : list nrow; p_ns : names; p_select : list uid; p_part : list uid;
  p_ctr : nat;                (* number of suffixed names handed out so far *)
  p_keys : list dname         (* the frame's schema: every key of every row is listed here *)
}.

Definition pctx (ns : names) (rs : list nrow) : list irow := index_rows (map (view ns) rs).

(* ---------- rename_overwritten_cols ---------- *)
Fixpoint index_s (n : string) (l : list string) : nat :=
  match l with [] => O | x :: l' => if String.eqb x n then O else S (index_s n l') end.
Definition mem_d (x : dname) (l : list dname) : bool := existsb (dname_eqb x) l.

(* the new name of a frame column when the names [news] are about to be taken and the columns in
   [consider] are the ones that may be renamed *)
Definition ren_over (news : list string) (consider : list dname) (ctr : nat) (dn : dname) : dname :=
  match dn with
  | User n => if mem_s n news && mem_d dn consider then Hidden n (ctr + index_s n news) else dn
  | Hidden _ _ => dn
  end.

Definition map_keys (g : dname -> dname) (f : nrow) : nrow := map (fun kv => (g (fst kv), snd kv)) f.

Definition rename_over (news : list string) (consider : list dname) (st : pstate) : pstate :=
  let g := ren_over news consider (p_ctr st) in
  {| p_rows := map (map_keys g) (p_rows st);
     p_ns := map (fun un => (fst un, g (snd un))) (p_ns st);
     p_select := p_select st; p_part := p_part st;
     p_ctr := p_ctr st + List.length news; p_keys := map g (p_keys st) |}.

(* ---------- the verbs ---------- *)
Definition uname (dn : dname) : string := match dn with User n => n | Hidden n _ => n end.
(* is the frame name one of the (user) names nms?  A suffixed name never is. *)
Definition user_in (dn : dname) (nms : list string) : bool := match dn with User n => mem_s n nms | Hidden _ _ => false end.

Definition pl_mutate (st : pstate) (defs : list def) : pstate :=
  let nms := map (fun d => fst (fst d)) defs in
  let sel' := filter (fun u => negb (user_in (pname (p_ns st) u) nms)) (p_select st) ++ map (fun d => snd (fst d)) defs in
  let st1 := rename_over nms (map snd (p_ns st)) st in
  let ctx := pctx (p_ns st1) (p_rows st1) in
  let rows2 := map (fun ifr =>
                 map (fun d => (User (fst (fst d)), eval ctx (fst ifr, view (p_ns st1) (snd ifr)) (snd d))) defs
                 ++ snd ifr)
               (combine (seq 0 (List.length (p_rows st1))) (p_rows st1)) in
  {| p_rows := rows2;
     p_ns := map (fun d => (snd (fst d), User (fst (fst d)))) defs ++ p_ns st1;
     p_select := sel'; p_part := p_part st1; p_ctr := p_ctr st1;
     p_keys := map (fun d => User (fst (fst d))) defs ++ p_keys st1 |}.

Definition pl_filter (st : pstate) (ps : list expr) : pstate :=
  let ctx := pctx (p_ns st) (p_rows st) in
  {| p_rows := map snd (filter (fun ifr => forallb (fun p => value_eqb (eval ctx (fst ifr, view (p_ns st) (snd ifr)) p) (VBool true)) ps)
                               (combine (seq 0 (List.length (p_rows st))) (p_rows st)));
     p_ns := p_ns st; p_select := p_select st; p_part := p_part st; p_ctr := p_ctr st; p_keys := p_keys st |}.

Definition pl_arrange (st : pstate) (os : list (expr * omark)) : pstate :=
  let ctx := pctx (p_ns st) (p_rows st) in
  let keyed := map (fun ifr => (map (fun o => eval ctx (fst ifr, view (p_ns st) (snd ifr)) (fst o)) os, ifr))
                   (combine (seq 0 (List.length (p_rows st))) (p_rows st)) in
  {| p_rows := map (fun k => snd (snd k))
                   (ssort (fun a b => match cmp_keys (map snd os) (fst a) (fst b) with Gt => false | _ => true end) keyed);
     p_ns := p_ns st; p_select := p_select st; p_part := p_part st; p_ctr := p_ctr st; p_keys := p_keys st |}.

Definition pl_slice (st : pstate) (n k : Z) : pstate :=
  {| p_rows := firstn (Z.to_nat n) (skipn (Z.to_nat k) (p_rows st));
     p_ns := p_ns st; p_select := p_select st; p_part := p_part st; p_ctr := p_ctr st; p_keys := p_keys st |}.

Definition ren_user (m : list (string * string)) (dn : dname) : dname :=
  match dn with
  | User n => User (match assoc_s n m with Some x => x | None => n end)
  | Hidden _ _ => dn
  end.

Definition pl_rename (st : pstate) (m : list (string * string)) : pstate :=
  let hidden := map snd (filter (fun un => negb (mem_u (fst un) (p_select st))) (p_ns st)) in
  let st1 := rename_over (map snd m) hidden st in
  {| p_rows := map (map_keys (ren_user m)) (p_rows st1);
     p_ns := map (fun un => (fst un, ren_user m (snd un))) (p_ns st1);
     p_select := p_select st1; p_part := p_part st1; p_ctr := p_ctr st1;
     p_keys := map (ren_user m) (p_keys st1) |}.

(* group_by(...).agg(...): one row per group, holding the grouping columns (under their frame names) and
   the aggregates *)
Definition pl_summarize (st : pstate) (defs : list def) : pstate :=
  let nms := map (fun d => fst (fst d)) defs in
  let part := p_part st in
  let sel' := filter (fun u => negb (user_in (pname (p_ns st) u) nms)) part ++ map (fun d => snd (fst d)) defs in
  let st1 := rename_over nms (map (pname (p_ns st)) part) st in
  let ns1 := p_ns st1 in
  let gnames := map (pname ns1) part in
  let groups := match part with
                | [] => [([], p_rows st1)]
                | _ => group_rows (fun f => map (nget f) gnames) (p_rows st1) []
                end in
  let rows2 := map (fun kg =>
                 let ctx := pctx ns1 (snd kg) in
                 let cur := match ctx with ir :: _ => ir | [] => (O, []) end in
                 map (fun d => (User (fst (fst d)), eval ctx cur (snd d))) defs ++ combine gnames (fst kg)) groups in
  {| p_rows := rows2;
     p_ns := map (fun d => (snd (fst d), User (fst (fst d)))) defs
             ++ filter (fun un => mem_u (fst un) part) ns1;
     p_select := sel'; p_part := []; p_ctr := p_ctr st1;
     p_keys := map (fun d => User (fst (fst d))) defs ++ gnames |}.

Definition with_select (st : pstate) (s : list uid) : pstate :=
  {| p_rows := p_rows st; p_ns := p_ns st; p_select := s; p_part := p_part st; p_ctr := p_ctr st; p_keys := p_keys st |}.
Definition with_part (st : pstate) (p : list uid) : pstate :=
  {| p_rows := p_rows st; p_ns := p_ns st; p_select := p_select st; p_part := p; p_ctr := p_ctr st; p_keys := p_keys st |}.

(* union: both frames are projected onto the LEFT operand's visible column names (df.select of the names picks
   the right frame's columns by name), stacked, and deduplicated for distinct=True; the hidden columns are
   dropped from the frame and from name_in_df *)
Fixpoint pl_dedup (seen : list (list value)) (rs : list nrow) : list nrow :=
  match rs with
  | [] => []
  | f :: rs' => if existsb (values_eqb (map snd f)) seen then pl_dedup seen rs'
                else f :: pl_dedup (map snd f :: seen) rs'
  end.
Definition pl_union (sl sr : pstate) (distinct : bool) : pstate :=
  let lnames := map (pname (p_ns sl)) (p_select sl) in
  let proj := fun f : nrow => map (fun n => (n, nget f n)) lnames in
  let all := map proj (p_rows sl) ++ map proj (p_rows sr) in
  {| p_rows := if distinct then pl_dedup [] all else all;
     p_ns := map (fun u => (u, pname (p_ns sl) u)) (p_select sl);
     p_select := p_select sl; p_part := []; p_ctr := p_ctr sl; p_keys := lnames |}.

(* inner / cross join.  Three passes of rename_overwritten_cols resolve name collisions among HIDDEN columns
   (visible ones were suffixed by the join verb): (1) right columns named like a visible left column, (2) left
   columns named like a visible right column, (3) right columns named like ANY left column.  The suffixes
   are fresh uuids; the model numbers them so that all suffixes of the left frame are below
   M = p_ctr left + |right select| and all suffixes of the right frame are at or above M (shift_names).
   Columns that may be renamed: the frame's columns (p_keys) - in the code set(name_in_df.values()), the
   same set since every frame column has an entry.  Then df.join / join_where: the pairs of rows for which
   every predicate of the condition is true, columns of both frames side by side. *)
Definition shift_dn (k : nat) (dn : dname) : dname :=
  match dn with Hidden n c => Hidden n (c + k)%nat | User _ => dn end.
Definition shift_names (k : nat) (st : pstate) : pstate :=
  {| p_rows := map (map_keys (shift_dn k)) (p_rows st);
     p_ns := map (fun un => (fst un, shift_dn k (snd un))) (p_ns st);
     p_select := p_select st; p_part := p_part st; p_ctr := (p_ctr st + k)%nat;
     p_keys := map (shift_dn k) (p_keys st) |}.
Definition user_names (l : list dname) : list string := map uname (filter is_user l).

Definition pl_join (sl sr0 : pstate) (on : expr) : pstate :=
  let M := (p_ctr sl + List.length (p_select sr0))%nat in
  let sr := shift_names M sr0 in
  let news1 := map (fun u => uname (pname (p_ns sl) u)) (p_select sl) in
  let sr1 := rename_over news1 (p_keys sr) sr in
  let news2 := map (fun u => uname (pname (p_ns sr1) u)) (p_select sr1) in
  let sl2 := rename_over news2 (p_keys sl) sl in
  let news3 := user_names (p_keys sl2) in
  let sr3 := rename_over news3 (p_keys sr1) sr1 in
  let ns := p_ns sl2 ++ p_ns sr3 in
  {| p_rows := flat_map (fun fl => map (fun fr => fl ++ fr)
                                      (filter (fun fr => value_eqb (eval [] (O, view ns (fl ++ fr)) on) (VBool true)) (p_rows sr3)))
                        (p_rows sl2);
     p_ns := ns; p_select := p_select sl ++ p_select sr0; p_part := []; p_ctr := p_ctr sr3;
     p_keys := p_keys sl2 ++ p_keys sr3 |}.

(* left join: the same passes; a left row without partner appears once (its right columns read null) *)
Definition pl_left_join (sl sr0 : pstate) (on : expr) : pstate :=
  let M := (p_ctr sl + List.length (p_select sr0))%nat in
  let sr := shift_names M sr0 in
  let news1 := map (fun u => uname (pname (p_ns sl) u)) (p_select sl) in
  let sr1 := rename_over news1 (p_keys sr) sr in
  let news2 := map (fun u => uname (pname (p_ns sr1) u)) (p_select sr1) in
  let sl2 := rename_over news2 (p_keys sl) sl in
  let news3 := user_names (p_keys sl2) in
  let sr3 := rename_over news3 (p_keys sr1) sr1 in
  let ns := p_ns sl2 ++ p_ns sr3 in
  {| p_rows := flat_map (fun fl =>
                  match filter (fun fr => value_eqb (eval [] (O, view ns (fl ++ fr)) on) (VBool true)) (p_rows sr3) with
                  | [] => [fl]
                  | ms => map (fun fr => fl ++ fr) ms
                  end) (p_rows sl2);
     p_ns := ns; p_select := p_select sl ++ p_select sr0; p_part := []; p_ctr := p_ctr sr3;
     p_keys := p_keys sl2 ++ p_keys sr3 |}.

(* full join: rows of either frame without partner appear once *)
Definition pl_full_join (sl sr0 : pstate) (on : expr) : pstate :=
  let M := (p_ctr sl + List.length (p_select sr0))%nat in
  let sr := shift_names M sr0 in
  let news1 := map (fun u => uname (pname (p_ns sl) u)) (p_select sl) in
  let sr1 := rename_over news1 (p_keys sr) sr in
  let news2 := map (fun u => uname (pname (p_ns sr1) u)) (p_select sr1) in
  let sl2 := rename_over news2 (p_keys sl) sl in
  let news3 := user_names (p_keys sl2) in
  let sr3 := rename_over news3 (p_keys sr1) sr1 in
  let ns := p_ns sl2 ++ p_ns sr3 in
  let holds := fun fl fr => value_eqb (eval [] (O, view ns (fl ++ fr)) on) (VBool true) in
  {| p_rows := flat_map (fun fl =>
                  match filter (holds fl) (p_rows sr3) with
                  | [] => [fl]
                  | ms => map (fun fr => fl ++ fr) ms
                  end) (p_rows sl2)
               ++ filter (fun fr => negb (existsb (fun fl => holds fl fr) (p_rows sl2))) (p_rows sr3);
     p_ns := ns; p_select := p_select sl ++ p_select sr0; p_part := []; p_ctr := p_ctr sr3;
     p_keys := p_keys sl2 ++ p_keys sr3 |}.

Fixpoint pl_compile (d : db) (a : ast) : option pstate :=
  match a with
  | Source t cols =>
      Some {| p_rows := map (fun vs => combine (map (fun c => User (fst c)) cols) vs) (db_get d t);
              p_ns := map (fun c => (snd c, User (fst c))) cols;
              p_select := map snd cols; p_part := []; p_ctr := O;
              p_keys := map (fun c => User (fst c)) cols |}
  | Select c us => match pl_compile d c with Some st => Some (with_select st us) | None => None end
  | Rename c m => match pl_compile d c with Some st => Some (pl_rename st m) | None => None end
  | Mutate c defs => match pl_compile d c with Some st => Some (pl_mutate st defs) | None => None end
  | Filter c ps => match pl_compile d c with Some st => Some (pl_filter st ps) | None => None end
  | Arrange c os => match pl_compile d c with Some st => Some (pl_arrange st os) | None => None end
  | SliceHead c n k => match pl_compile d c with Some st => Some (pl_slice st n k) | None => None end
  | GroupBy c us add =>
      match pl_compile d c with Some st => Some (with_part st (if add then p_part st ++ us else us)) | None => None end
  | Ungroup c => match pl_compile d c with Some st => Some (with_part st []) | None => None end
  | Summarize c defs => match pl_compile d c with Some st => Some (pl_summarize st defs) | None => None end
  | Alias c None => pl_compile d c
  | Alias c (Some m) =>
      (* alias(): the columns get new identities; the frame is untouched (the code re-numbers all identities
         when the tree is cloned for export; the model renames the keys of name_in_df) *)
      match pl_compile d c with
      | Some st =>
          Some {| p_rows := p_rows st;
                  p_ns := map (fun un => (remap_uid m (fst un), snd un)) (p_ns st);
                  p_select := map (remap_uid m) (p_select st); p_part := map (remap_uid m) (p_part st);
                  p_ctr := p_ctr st; p_keys := p_keys st |}
      | None => None
      end
  | Union l r distinct =>
      match pl_compile d l, pl_compile d r with
      | Some sl, Some sr => Some (pl_union sl sr distinct)
      | _, _ => None
      end
  | Join l r on JInner =>
      match pl_compile d l, pl_compile d r with
      | Some sl, Some sr => Some (pl_join sl sr on)
      | _, _ => None
      end
  | Join l r on JLeft =>
      match pl_compile d l, pl_compile d r with
      | Some sl, Some sr => Some (pl_left_join sl sr on)
      | _, _ => None
      end
  | Join l r on JFull =>
      match pl_compile d l, pl_compile d r with
      | Some sl, Some sr => Some (pl_full_join sl sr on)
      | _, _ => None
      end
  | _ => None
  end.

(* PolarsImpl.export: the selected columns under their frame names *)
Definition pl_export (st : pstate) : frame :=
  {| f_names := map (fun u => show (pname (p_ns st) u)) (p_select st);
     f_rows := map (fun f => map (fun u => nget f (pname (p_ns st) u)) (p_select st)) (p_rows st) |}.

(* ---------- the pipelines for which compile correctness is proved: every expression form (element-wise,
   aggregate, window with partition_by / arrange=) is allowed ---------- *)
From PDT Require Import Model.SqlCompile.     (* cols, nodup_u *)

Fixpoint nodup_s (l : list string) : bool :=
  match l with [] => true | x :: l' => negb (mem_s x l') && nodup_s l' end.

Definition dom (ns : names) : list uid := map fst ns.
Definition pscoped (ns : names) (e : expr) : bool := forallb (fun x => mem_u x (dom ns)) (cols e).
Definition pfresh (ns : names) (defs : list def) : bool :=
  nodup_u (map (fun d => snd (fst d)) defs) && nodup_s (map (fun d => fst (fst d)) defs)
  && forallb (fun d => negb (mem_u (snd (fst d)) (dom ns))) defs.
Definition inj_on (g : dname -> dname) (ks : list dname) : bool :=
  forallb (fun a => forallb (fun b => implb (dname_eqb (g a) (g b)) (dname_eqb a b)) ks) ks.

Fixpoint pflat_ok (d : db) (a : ast) : bool :=
  match a with
  | Source _ cols => nodup_u (map snd cols) && nodup_s (map fst cols)
  | Select c us =>
      pflat_ok d c && match pl_compile d c with Some st => forallb (fun u => mem_u u (p_select st)) us | None => false end
  | Alias c (Some m) =>
      pflat_ok d c
      && match pl_compile d c with
         | Some st =>
             let U := ast_uids c ++ dom (p_ns st) in
             forallb (fun a => forallb (fun b => implb (N.eqb (remap_uid m a) (remap_uid m b)) (N.eqb a b)) U) U
         | None => false
         end
  | Ungroup c | Alias c None | SliceHead c _ _ => pflat_ok d c
  | GroupBy c us _ =>
      pflat_ok d c && match pl_compile d c with Some st => forallb (fun u => mem_u u (p_select st)) us | None => false end
  | Rename c m =>
      pflat_ok d c
      && match pl_compile d c with
         | Some st =>
             let hidden := map snd (filter (fun un => negb (mem_u (fst un) (p_select st))) (p_ns st)) in
             let news := map snd m in
             forallb (fun u => negb (mem_d (pname (p_ns st) u) hidden && user_in (pname (p_ns st) u) news)) (p_select st)
             && inj_on (ren_user m) (p_keys (rename_over news hidden st))
         | None => false
         end
  | Mutate c defs =>
      pflat_ok d c
      && match pl_compile d c with
         | Some st => pfresh (p_ns st) defs && forallb (fun dd => pscoped (p_ns st) (snd dd)) defs
         | None => false end
  | Filter c ps =>
      pflat_ok d c
      && match pl_compile d c with Some st => forallb (pscoped (p_ns st)) ps | None => false end
  | Arrange c os =>
      pflat_ok d c
      && match pl_compile d c with Some st => forallb (fun o => pscoped (p_ns st) (fst o)) os | None => false end
  | Summarize c defs =>
      pflat_ok d c
      && match pl_compile d c with
         | Some st =>
             pfresh (p_ns st) defs && forallb (fun dd => pscoped (p_ns st) (snd dd)) defs
             && forallb (fun u => mem_u u (p_select st)) (p_part st)
             && forallb (fun u => negb (user_in (pname (p_ns st) u) (map (fun dd => fst (fst dd)) defs))) (p_part st)
         | None => false
         end
  | Join l r on _ =>
      (* the operands share no column identity, the visible column names differ (the join verb suffixes them),
         the condition mentions columns in scope *)
      pflat_ok d l && pflat_ok d r
      && match pl_compile d l, pl_compile d r with
         | Some sl, Some sr =>
             forallb (fun x => mem_u x (dom (p_ns sl) ++ dom (p_ns sr))) (cols on)
             && disjointb (dom (p_ns sl)) (dom (p_ns sr))
             && disjointb (dom (p_ns sl)) (ast_uids r) && disjointb (dom (p_ns sr)) (ast_uids l)
             && forallb (fun u => negb (mem_s (uname (pname (p_ns sl) u))
                                              (map (fun x => uname (pname (p_ns sr) x)) (p_select sr)))) (p_select sl)
         | _, _ => false
         end
  | Union l r _ =>
      (* every visible column name of the left operand is a visible column name of the right one (the
         union verb checks it), visible uids are not repeated *)
      pflat_ok d l && pflat_ok d r
      && match pl_compile d l, pl_compile d r with
         | Some sl, Some sr =>
             nodup_u (p_select sl)
             && forallb (fun u => mem_s (uname (pname (p_ns sl) u))
                                        (map (fun x => uname (pname (p_ns sr) x)) (p_select sr))) (p_select sl)
         | _, _ => false
         end
  | _ => false
  end.
