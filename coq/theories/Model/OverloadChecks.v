(* Model/OverloadChecks.v — boolean forms of the C13 statements over the finite enumeration
   (Model/Enum.v), so that they can be decided inside the kernel by vm_compute. *)
From Coq Require Import List String NArith Bool.
From PDT Require Import Model.Dtype Model.Universe Model.Signature Model.Resolve Model.Enum.
From PDTGen Require Import Catalogue.
Import ListNotations.

Definition accepted (o : opname) (args : list dtype) : option dtype :=
  match resolve o args with Unique _ r => Some r | _ => None end.

(* (a) totality: one overload or a clean rejection.  [exc] says which tuples are exempt. *)
Definition total_ok (exc : opname -> list dtype -> bool) (o : opname) (args : list dtype) : bool :=
  match op_outcome o args with
  | OType _ | ODataTypeError => true
  | OAssertion | OInternal => exc o args
  end.

Definition has_null_arg (_ : opname) (args : list dtype) : bool := existsb mentions_null args.
Definition no_exception (_ : opname) (_ : list dtype) : bool := false.

(* (b) uniformity in the sized numeric types *)
Definition sized_variants (t : dtype) : list dtype :=
  match t with
  | TS SInt => [TS SInt8; TS SInt16; TS SInt32; TS SInt64; TS SUInt8; TS SUInt16; TS SUInt32; TS SUInt64]
  | TS SFloat => [TS SFloat32; TS SFloat64; TDec 31 11; TDec 10 2; TDec 38 20]
  | _ => []
  end.
Definition variants_keep_const (t : dtype) : list dtype :=
  match t with
  | TConst b => map TConst (sized_variants b)
  | _ => sized_variants t
  end.

Fixpoint replace_nth {A} (n : nat) (l : list A) (x : A) : list A :=
  match l, n with
  | [], _ => []
  | _ :: t, O => x :: t
  | h :: t, S n' => h :: replace_nth n' t x
  end.

Definition uniform_at (o : opname) (args : list dtype) (r : dtype) (i : nat) : bool :=
  forallb (fun v =>
      match accepted o (replace_nth i args v) with
      | Some r' => family_eqb (family_of r) (family_of r')
      | None => false
      end)
    (variants_keep_const (nth i args (TS SNull))).

Definition uniform_ok (o : opname) (args : list dtype) : bool :=
  match accepted o args with
  | None => true
  | Some r => forallb (uniform_at o args r) (seq 0 (List.length args))
  end.

(* (c) a constant argument is accepted wherever a column argument is *)
Definition const_ok (o : opname) (args : list dtype) : bool :=
  match accepted o args with
  | None => true
  | Some _ =>
      forallb (fun i =>
          let a := nth i args (TS SNull) in
          if is_const a then true
          else match accepted o (replace_nth i args (TConst a)) with Some _ => true | None => false end)
        (seq 0 (List.length args))
  end.

(* (d) parameters declared constant reject column arguments *)
Definition param_at (s : signature) (i : nat) : option dtype :=
  match nth_error (sig_params s) i with
  | Some p => Some p
  | None => if sig_vararg s then last (map Some (sig_params s)) None else None
  end.
Definition const_position (o : opname) (i : nat) : bool :=
  forallb (fun s => match param_at s i with Some p => is_const p | None => false end) (op_sigs o).

Definition constparam_ok (exc : opname -> nat -> bool) (o : opname) (args : list dtype) : bool :=
  forallb (fun i =>
      if const_position o i && negb (is_const (nth i args (TS SNull))) && negb (exc o i)
      then match resolve o args with NoMatch => true | _ => false end
      else true)
    (seq 0 (List.length args)).

Definition forall_enum (p : opname -> list dtype -> bool) : bool :=
  forallb (fun o => forallb (p o) (enum_args o)) all_ops.

(* the tuples on which a check fails, for reporting *)
Definition failures (p : opname -> list dtype -> bool) : list (opname * list dtype) :=
  flat_map (fun o => map (fun a => (o, a)) (filter (fun a => negb (p o a)) (enum_args o))) all_ops.

Lemma forall_enum_spec p :
  forall_enum p = true -> forall o args, In o all_ops -> In args (enum_args o) -> p o args = true.
Proof.
  unfold forall_enum. intros H o args Ho Ha.
  rewrite forallb_forall in H. specialize (H o Ho).
  rewrite forallb_forall in H. exact (H args Ha).
Qed.
