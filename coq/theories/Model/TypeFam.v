(* Model/TypeFam.v — value families and the family-level typing of the modelled element-wise operators (C12).
   [fam_of t] is the family of values a column of static type t holds; [ret_fam o fs] is the family of the
   result of operator o on arguments of families fs, read off the documented meaning (Model/Ops.v) - None
   where that meaning makes no single claim (mixed Int / Float operands of the polymorphic operators, operands
   outside the modelled value domain).  Definitions only. *)
From Coq Require Import List String NArith ZArith Bool.
From PDT Require Import Model.Dtype Model.Value Model.Ops Model.Universe Model.Signature Model.Resolve Model.Enum
     Model.OverloadChecks.
From PDTGen Require Import Catalogue.
Import ListNotations.

Inductive fam := FInt | FFloat | FBool | FStr | FDate | FDatetime | FNull | FOther.

Definition fam_eqb (a b : fam) : bool :=
  match a, b with
  | FInt, FInt | FFloat, FFloat | FBool, FBool | FStr, FStr | FDate, FDate | FDatetime, FDatetime
  | FNull, FNull | FOther, FOther => true
  | _, _ => false
  end.

Fixpoint fam_of (t : dtype) : fam :=
  match t with
  | TConst b => fam_of b
  | TS (SInt | SInt8 | SInt16 | SInt32 | SInt64 | SUInt8 | SUInt16 | SUInt32 | SUInt64) => FInt
  | TS (SFloat | SFloat32 | SFloat64) | TDec _ _ => FFloat
  | TS SBool => FBool
  | TStr _ | TEnum _ => FStr
  | TS SDate => FDate
  | TS SDatetime => FDatetime
  | TS SNull => FNull
  | _ => FOther
  end.

(* null and "no backend-independent value" belong to every family *)
Definition in_fam (v : value) (f : fam) : bool :=
  match v, f with
  | (VNull | VErr), _ => true
  | VInt _, FInt | VFloat _, FFloat | VBool _, FBool | VStr _, FStr | VDate _, FDate | VDatetime _, FDatetime => true
  | _, _ => false
  end.

Definition is_num (f : fam) : bool := match f with FInt | FFloat => true | _ => false end.
Definition join_num (a b : fam) : fam := match a, b with FInt, FInt => FInt | _, _ => FFloat end.

(* all families equal to one (non-null) family *)
Definition all_same (fs : list fam) : option fam :=
  match fs with
  | [] => None
  | f :: rest => if forallb (fam_eqb f) rest then Some f else None
  end.

(* the modelled operators, as an enumeration of this file (the generated [opname] may change its order) *)
Inductive oclass :=
| CAdd | CSub | CMul | CTruediv | CFloordiv | CMod | CNeg | CPos | CAbs
| CEq | CNe | CLt | CLe | CGt | CGe | CAnd | COr | CXor | CNot | CIsNull | CIsNotNull
| CFillNull | CIsIn | CCoalesce | CHMax | CHMin | CHSum | CHAny | CHAll | CClip | CFloor | CCeil
| CStrLen | CUpper | CLower | CStrip | CStarts | CEnds | CContains | CReplace | CMarker.

Definition classify (o : opname) : option oclass :=
  match o with
  | Op_add => Some CAdd | Op_sub => Some CSub | Op_mul => Some CMul | Op_truediv => Some CTruediv
  | Op_floordiv => Some CFloordiv | Op_mod => Some CMod | Op_neg => Some CNeg | Op_pos => Some CPos | Op_abs => Some CAbs
  | Op_equal => Some CEq | Op_not_equal => Some CNe | Op_less_than => Some CLt | Op_less_equal => Some CLe
  | Op_greater_than => Some CGt | Op_greater_equal => Some CGe
  | Op_bool_and => Some CAnd | Op_bool_or => Some COr | Op_bool_xor => Some CXor | Op_bool_invert => Some CNot
  | Op_is_null => Some CIsNull | Op_is_not_null => Some CIsNotNull | Op_fill_null => Some CFillNull
  | Op_is_in => Some CIsIn | Op_coalesce => Some CCoalesce
  | Op_horizontal_max => Some CHMax | Op_horizontal_min => Some CHMin | Op_horizontal_sum => Some CHSum
  | Op_horizontal_any => Some CHAny | Op_horizontal_all => Some CHAll | Op_clip => Some CClip
  | Op_floor => Some CFloor | Op_ceil => Some CCeil
  | Op_str_len => Some CStrLen | Op_str_upper => Some CUpper | Op_str_lower => Some CLower | Op_str_strip => Some CStrip
  | Op_str_starts_with => Some CStarts | Op_str_ends_with => Some CEnds | Op_str_contains => Some CContains
  | Op_str_replace_all => Some CReplace
  | Op_nulls_first | Op_nulls_last | Op_ascending | Op_descending => Some CMarker
  | _ => None
  end.

(* the body of Model/Ops.ewise for each class (Proofs/TypeFamLemmas.ewise_classify: ewise o = cbody of its class) *)
Definition cbody (c : oclass) (vs : list value) : value :=
  match c with
  | CAdd => bin v_add vs | CSub => bin v_sub vs | CMul => bin v_mul vs | CTruediv => bin v_truediv vs
  | CFloordiv => bin v_floordiv vs | CMod => bin v_mod vs
  | CNeg => un v_neg vs | CPos => un (fun a => a) vs | CAbs => un v_abs vs
  | CEq => bin v_eq vs | CNe => bin v_ne vs | CLt => bin v_lt vs | CLe => bin v_le vs | CGt => bin v_gt vs | CGe => bin v_ge vs
  | CAnd => bin k_and vs | COr => bin k_or vs | CXor => bin k_xor vs | CNot => un k_not vs
  | CIsNull => un (fun a => match a with VErr => VErr | VNull => VBool true | _ => VBool false end) vs
  | CIsNotNull => un (fun a => match a with VErr => VErr | VNull => VBool false | _ => VBool true end) vs
  | CFillNull => bin (fun a b => match a with VNull => b | _ => a end) vs
  | CIsIn => match vs with [] => VErr | x :: rest => fold_left (fun acc v => k_or acc (v_eq x v)) rest (VBool false) end
  | CCoalesce => if any_err vs then VErr else fold_left (fun acc v => match acc with VNull => v | _ => acc end) vs VNull
  | CHMax => skipnull_fold v_max2 vs | CHMin => skipnull_fold v_min2 vs
  | CHSum => fold1 v_add vs | CHAny => fold1 k_or vs | CHAll => fold1 k_and vs
  | CClip =>
      match vs with
      | [x; lo; hi] =>
          if any_err vs then VErr else
          match x with
          | VNull => VNull
          | _ => skipnull_fold v_max2 [skipnull_fold v_min2 [x; hi]; lo]
          end
      | _ => VErr
      end
  | CFloor => un (fun a => match a with VFloat f => VFloat (Z_to_float (float_floor_Z f)) | VNull => VNull | _ => VErr end) vs
  | CCeil => un (fun a => match a with VFloat f => VFloat (Z_to_float (float_ceil_Z f)) | VNull => VNull | _ => VErr end) vs
  | CStrLen => un (str1 (fun s => VInt (utf8_len s))) vs
  | CUpper => un (str1 (fun s => VStr (smap ascii_upper s))) vs
  | CLower => un (str1 (fun s => VStr (smap ascii_lower s))) vs
  | CStrip => un (str1 (fun s => VStr (strip s))) vs
  | CStarts => bin (str_lit (fun s p => VBool (is_prefix p s))) vs
  | CEnds => bin (str_lit (fun s p => VBool (is_suffix p s))) vs
  | CContains => match vs with x :: p :: _ => str_lit (fun s q => VBool (contains q s)) x p | _ => VErr end
  | CReplace =>
      match vs with
      | [x; VStr p; VStr r] => match p with EmptyString => VErr | _ => str1 (fun s => VStr (replace_all p r s)) x end
      | _ => VErr
      end
  | CMarker => un (fun a => a) vs
  end.

Definition crf (c : oclass) (fs : list fam) : option fam :=
  match c, fs with
  | CAdd, [a; b] =>
      if is_num a && is_num b then Some (join_num a b)
      else match a, b with FStr, FStr => Some FStr | _, _ => None end
  | (CSub | CMul), [a; b] => if is_num a && is_num b then Some (join_num a b) else None
  | CTruediv, [a; b] => if is_num a && is_num b then Some FFloat else None
  | (CFloordiv | CMod), [FInt; FInt] => Some FInt
  | (CNeg | CAbs), [a] => if is_num a then Some a else None
  | (CPos | CMarker), [a] => Some a
  | (CEq | CNe | CLt | CLe | CGt | CGe | CAnd | COr | CXor), [_; _] => Some FBool
  | (CNot | CIsNull | CIsNotNull), [_] => Some FBool
  | CFillNull, [a; b] => if fam_eqb a b then Some a else None
  | CIsIn, _ :: _ => Some FBool
  | (CCoalesce | CHMax | CHMin), fs => all_same fs
  | CHSum, fs =>
      match all_same fs with Some FInt => Some FInt | Some FFloat => Some FFloat | Some FStr => Some FStr | _ => None end
  | (CHAny | CHAll), fs => match all_same fs with Some FBool => Some FBool | _ => None end
  | CClip, [a; b; c] => all_same [a; b; c]
  | (CFloor | CCeil), [FFloat] => Some FFloat
  | CStrLen, [FStr] => Some FInt
  | (CUpper | CLower | CStrip), [FStr] => Some FStr
  | (CStarts | CEnds), [FStr; FStr] => Some FBool
  | CContains, FStr :: FStr :: _ => Some FBool
  | CReplace, [FStr; FStr; FStr] => Some FStr
  | _, _ => None
  end.

Definition ret_fam (o : opname) (fs : list fam) : option fam :=
  match classify o with Some c => crf c fs | None => None end.

(* the catalogue side: the declared return type of an accepted overload is in the family the meaning gives *)
Definition ret_fam_ok (o : opname) (args : list dtype) : bool :=
  match accepted o args with
  | None => true
  | Some r =>
      match ret_fam o (map fam_of args) with
      | None => true
      | Some f => fam_eqb f (fam_of r)
      end
  end.
(* the overloads for which a claim is made *)
Definition ret_fam_claims (o : opname) (args : list dtype) : bool :=
  match accepted o args, ret_fam o (map fam_of args) with Some _, Some _ => true | _, _ => false end.

(* ---------- expressions: the side condition of the expression-level statement ---------- *)
From PDT Require Import Model.Expr Model.Typing.

Definition tys_of (env : tenv) (args : list expr) : option (list dtype) :=
  (fix go (l : list expr) : option (list dtype) :=
     match l with
     | [] => Some []
     | a :: l' => match dtype_of env a, go l' with TOk t, Some ts => Some (t :: ts) | _, _ => None end
     end) args.

(* element-wise expressions over columns, literals, casts and the modelled operators whose applications lie in the
   enumeration and carry a family claim *)
Fixpoint tsound (env : tenv) (e : expr) {struct e} : bool :=
  match e with
  | ECol _ | ELit _ => true
  | ECast e' _ => tsound env e'
  | ECase _ _ => false
  | EFn o args hp part arr =>
      negb hp && match part with [] => true | _ => false end && match arr with [] => true | _ => false end
      && match op_kind o with KElem => true | _ => false end
      && match classify o with Some _ => true | None => false end
      && (fix go (l : list expr) : bool := match l with [] => true | a :: l' => tsound env a && go l' end) args
      && match tys_of env args with
         | Some ats =>
             existsb (dtypes_eqb ats) (enum_args o)
             && match ret_fam o (map fam_of ats) with Some _ => true | None => false end
         | None => false
         end
  end.
