(* Model/Universe.v — the representative type universe U of property C13 (and C17/C19):
   8 integer widths, Int, 2 float widths, Float, Decimal(), two parametrised decimals, String(),
   two bounded strings, two enums, Bool, Date, Datetime, Time, Duration, NullType, List of three
   of these; each plain and const.  U3 is the reduced universe (one representative per class)
   used for argument positions >= 3. *)
From Coq Require Import List String NArith Bool.
From PDT Require Import Model.Dtype.
Import ListNotations.
Open Scope string_scope.

Definition U_base : list dtype := [
  TS SInt8; TS SInt16; TS SInt32; TS SInt64; TS SUInt8; TS SUInt16; TS SUInt32; TS SUInt64;
  TS SInt; TS SFloat32; TS SFloat64; TS SFloat;
  TDec 31 11; TDec 10 2; TDec 38 20;
  TStr None; TStr (Some 5%N); TStr (Some 20%N);
  TEnum ["a"; "bcd"]; TEnum ["x"; "yz"; "a-long-category"];
  TS SBool; TS SDate; TS SDatetime; TS STime; TS SDuration; TS SNull;
  TList (TS SInt64); TList (TStr None); TList (TS SNull)
].
Definition U : list dtype := U_base ++ map TConst U_base.

Definition U3_base : list dtype := [
  TS SInt64; TS SInt; TS SFloat64; TS SFloat; TDec 10 2; TStr None; TStr (Some 5%N);
  TEnum ["a"; "bcd"]; TS SBool; TS SDate; TS SDatetime; TS SDuration; TS SNull; TList (TS SInt64)
].
Definition U3 : list dtype := U3_base ++ map TConst U3_base.

(* all tuples: first two positions range over U, later ones over U3 *)
Fixpoint tuples_over (doms : list (list dtype)) : list (list dtype) :=
  match doms with
  | [] => [[]]
  | d :: ds => flat_map (fun x => map (cons x) (tuples_over ds)) d
  end.
Fixpoint doms_for (k : nat) (pos : nat) : list (list dtype) :=
  match k with
  | O => []
  | S k' => (if Nat.ltb pos 2 then U else U3) :: doms_for k' (S pos)
  end.
Definition tuples (k : nat) : list (list dtype) := tuples_over (doms_for k 0).

(* U_narrow: used for every position when an operator takes >= 3 arguments, so that no operator
   exceeds 10^6 tuples *)
Definition tuples_narrow (k : nat) : list (list dtype) := tuples_over (repeat U3 k).

Fixpoint mentions_null (t : dtype) : bool :=
  match t with
  | TS SNull => true
  | TConst b => mentions_null b
  | _ => false
  end.

Fixpoint dtypes_eqb (a b : list dtype) : bool :=
  match a, b with
  | [], [] => true
  | x :: a', y :: b' => dtype_eqb x y && dtypes_eqb a' b'
  | _, _ => false
  end.
