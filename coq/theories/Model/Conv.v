(* Model/Conv.v — tree/types.py: converts_to, conversion_cost, implicit_conversions, lca_type.
   The functions are parametric in the conversion table (IMPLICIT_CONVS after its closure loop),
   which the translator regenerates from the running code (generated/ConvTable.v). *)
From Coq Require Import List String NArith ZArith Bool.
From PDT Require Import Model.Dtype.
Import ListNotations.

Definition cost := (N * N)%type.
Definition conv_table_t := list (dtype * list (dtype * cost)).

Fixpoint assoc {A} (k : dtype) (l : list (dtype * A)) : option A :=
  match l with
  | [] => None
  | (k', v) :: l' => if dtype_eqb k k' then Some v else assoc k l'
  end.

Definition mem_dtype (t : dtype) (l : list dtype) : bool := existsb (dtype_eqb t) l.

Section WithTable.
Variable tbl : conv_table_t.
Variable float_subtypes : list dtype.        (* FLOAT_SUBTYPES *)

Definition table_row (s : dtype) : list (dtype * cost) :=
  match assoc s tbl with Some r => r | None => [] end.

(* converts_to(source, target).  A source that is not a key of the table (KeyError in Python)
   is reported as [false]; the translator checks that every simple type is a key. *)
Fixpoint converts_to_nc (source target : dtype) : bool :=
  (* source already stripped of const, target not const *)
  match source with
  | TList si => match target with TList ti => converts_to_nc si ti | _ => false end
  | TStr _ | TEnum _ =>
      dtype_eqb target source
      || dtype_eqb target (TStr None)
      || match target, str_max_length source with
         | TStr (Some tl), Some sl => N.ltb sl tl
         | _, _ => false
         end
  | TDec p s =>
      dtype_eqb target source
      || mem_dtype target float_subtypes
      || dtype_eqb target (TS SFloat)
      || dtype_eqb target TDecimalDefault
      || match target with
         | TDec p' s' => N.leb s s' && Z.leb (Z.of_N p - Z.of_N s) (Z.of_N p' - Z.of_N s')
         | _ => false
         end
  | _ => match assoc target (table_row source) with Some _ => true | None => false end
  end.

Definition converts_to (source target : dtype) : bool :=
  match target with
  | TConst tb => is_const source && converts_to_nc (without_const source) tb
  | _ => converts_to_nc (without_const source) target
  end.

(* conversion_cost(dtype, target): None models the assert / KeyError of the Python *)
Fixpoint conversion_cost_nc (s t : dtype) : option cost :=
  match s with
  | TList si => match t with TList ti => conversion_cost_nc si ti | _ => None end
  | TStr _ | TEnum _ | TDec _ _ =>
      if dtype_eqb s t then Some (0, 0)%N
      else match s, t with
           | TStr _, TStr _ | TEnum _, TEnum _ | TDec _ _, TDec _ _ => Some (0, 1)%N
           | _, _ => Some (0, 2)%N
           end
  | _ => assoc t (table_row s)
  end.

Definition conversion_cost (s t : dtype) : option cost :=
  match t with
  | TConst tb => if is_const s then conversion_cost_nc (without_const s) tb else None
  | _ => conversion_cost_nc (without_const s) t
  end.

Fixpoint implicit_conversions (t : dtype) : list dtype :=
  match t with
  | TList i => map TList (implicit_conversions i)
  | TStr _ | TEnum _ =>
      TStr None :: match str_max_length t with Some _ => [t] | None => [] end
  | TDec _ _ =>
      float_subtypes ++ [TS SFloat] ++ (if dtype_eqb t TDecimalDefault then [] else [t])
  | _ => map fst (table_row t)
  end.

End WithTable.

Definition cost_add (a b : cost) : cost := (fst a + fst b, snd a + snd b)%N.
Definition cost_lt (a b : cost) : bool :=
  N.ltb (fst a) (fst b) || (N.eqb (fst a) (fst b) && N.ltb (snd a) (snd b)).
Definition cost_eqb (a b : cost) : bool := N.eqb (fst a) (fst b) && N.eqb (snd a) (snd b).
