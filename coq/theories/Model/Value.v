(* Model/Value.v — values, rows, frames (DESIGN 3.1).  Definitions only. *)
From Coq Require Import List String Ascii NArith ZArith Bool PrimFloat.
Import ListNotations.
Open Scope Z_scope.

Definition uid := N.

Inductive value :=
| VNull
| VInt (z : Z)
| VBool (b : bool)
| VStr (s : string)              (* bytes, UTF-8 *)
| VFloat (f : float)
| VDate (days : Z)
| VDatetime (us : Z)
| VErr.                          (* "no backend-independent value" (DESIGN section 4): division by
                                    zero, overflow, ... ; a case whose result contains VErr is
                                    discarded and counted, never compared *)

Definition row := list (uid * value).     (* newest binding first *)

Fixpoint get (r : row) (u : uid) : value :=
  match r with
  | [] => VNull
  | (k, v) :: r' => if N.eqb k u then v else get r' u
  end.
Definition upd (r : row) (u : uid) (v : value) : row := (u, v) :: r.

Definition is_null (v : value) : bool := match v with VNull => true | _ => false end.
Definition is_err (v : value) : bool := match v with VErr => true | _ => false end.

(* float helpers: all comparisons via the primitive total-on-non-NaN operations *)
Definition feqb (a b : float) : bool := PrimFloat.eqb a b.
Definition fltb (a b : float) : bool := PrimFloat.ltb a b.
Definition f_is_finite (a : float) : bool :=
  PrimFloat.eqb a a && negb (PrimFloat.eqb (PrimFloat.abs a) PrimFloat.infinity).

Definition value_eqb (a b : value) : bool :=
  match a, b with
  | VNull, VNull => true
  | VInt x, VInt y => Z.eqb x y
  | VBool x, VBool y => Bool.eqb x y
  | VStr x, VStr y => String.eqb x y
  | VFloat x, VFloat y => feqb x y
  | VDate x, VDate y => Z.eqb x y
  | VDatetime x, VDatetime y => Z.eqb x y
  | VErr, VErr => true
  | _, _ => false
  end.

(* total preorder on non-null values of one type; values of different types never meet in a
   well-typed pipeline (Lt is returned to stay total) *)
Definition cmp_value (a b : value) : comparison :=
  match a, b with
  | VInt x, VInt y => Z.compare x y
  | VBool x, VBool y =>
      match x, y with false, true => Lt | true, false => Gt | _, _ => Eq end
  | VStr x, VStr y => String.compare x y
  | VFloat x, VFloat y => if fltb x y then Lt else if fltb y x then Gt else Eq
  | VDate x, VDate y => Z.compare x y
  | VDatetime x, VDatetime y => Z.compare x y
  | _, _ => Lt
  end.

(* sort key comparison with the ordering markers (DESIGN 3.1):
   nulls are placed by [nulls_last] independently of [desc] *)
Definition cmp_key (desc : bool) (nulls_last : bool) (a b : value) : comparison :=
  match is_null a, is_null b with
  | true, true => Eq
  | true, false => if nulls_last then Gt else Lt
  | false, true => if nulls_last then Lt else Gt
  | false, false => if desc then cmp_value b a else cmp_value a b
  end.

Fixpoint values_eqb (a b : list value) : bool :=
  match a, b with
  | [], [] => true
  | x :: a', y :: b' => value_eqb x y && values_eqb a' b'
  | _, _ => false
  end.

(* lexicographic comparison of value lists (for canonical sorting of row multisets);
   null first, then by cmp_value *)
Fixpoint cmp_values (a b : list value) : comparison :=
  match a, b with
  | [], [] => Eq
  | [], _ => Lt
  | _, [] => Gt
  | x :: a', y :: b' =>
      match cmp_key false false x y with
      | Eq => cmp_values a' b'
      | c => c
      end
  end.

(* exported frames *)
Record frame := { f_names : list string; f_rows : list (list value) }.

Definition in_i64 (z : Z) : bool := Z.leb (-9223372036854775808) z && Z.ltb z 9223372036854775808.
