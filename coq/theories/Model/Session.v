(* Model/Session.v — C10: a session is any interleaving of verb calls (each binds a NEW table to the
   tree it returned), exports and query builds over the tables bound so far.  Definitions only.
   Tables are identified by the order of their creation; a verb call never rebinds an existing
   identifier (Python: a verb returns a new object). *)
From Coq Require Import List NArith Bool.
From PDT Require Import Model.Value Model.Expr Model.RefSem.
Import ListNotations.

Inductive action :=
| ABind (n : nat) (a : ast)        (* a verb call returned table n, whose tree is a *)
| AExport (n : nat)                (* tbl_n >> export(...) *)
| AOther (n : nat).                (* build_query, printing, columns(): no result in the value model *)

Definition store := list (nat * ast).

Fixpoint lookup (n : nat) (s : store) : option ast :=
  match s with
  | [] => None
  | (k, a) :: s' => if Nat.eqb k n then Some a else lookup n s'
  end.

(* the value of a table: what export returns (header, rows in reference order, whether the order is
   determined, whether the documented value domain was left) *)
Definition result (d : db) (a : ast) : frame * bool * bool :=
  let s := sem_ref d a in (export_ref s, ord_defined s, bad s).

Definition bound (n : nat) (s : store) : bool := match lookup n s with Some _ => true | None => false end.

(* a session is well formed when every verb call binds an identifier that is not bound yet *)
Fixpoint fresh_binds (s : store) (acts : list action) : bool :=
  match acts with
  | [] => true
  | ABind n a :: r => negb (bound n s) && fresh_binds ((n, a) :: s) r
  | _ :: r => fresh_binds s r
  end.

(* the outputs of a session: one entry per export *)
Fixpoint run (d : db) (s : store) (acts : list action) : list (nat * option (frame * bool * bool)) :=
  match acts with
  | [] => []
  | ABind n a :: r => run d ((n, a) :: s) r
  | AExport n :: r => (n, option_map (result d) (lookup n s)) :: run d s r
  | AOther _ :: r => run d s r
  end.

Fixpoint final_store (s : store) (acts : list action) : store :=
  match acts with
  | [] => s
  | ABind n a :: r => final_store ((n, a) :: s) r
  | _ :: r => final_store s r
  end.
