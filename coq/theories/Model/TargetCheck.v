(* Model/TargetCheck.v — executable comparison of the model's target encoders with what the
   implementation returned (C20 correspondence).  Definitions only. *)
From Coq Require Import List String Bool Arith.
From PDT Require Import Model.Value Model.Targets.
Import ListNotations.

Fixpoint list_eqb {X} (eq : X -> X -> bool) (a b : list X) : bool :=
  match a, b with
  | [], [] => true
  | x :: a', y :: b' => eq x y && list_eqb eq a' b'
  | _, _ => false
  end.
Definition cell_eqb (a b : string * value) := String.eqb (fst a) (fst b) && value_eqb (snd a) (snd b).
Definition pyrow_eqb := list_eqb cell_eqb.
Definition col_eqb (a b : string * list value) := String.eqb (fst a) (fst b) && list_eqb value_eqb (snd a) (snd b).
Definition frame_eqb := list_eqb col_eqb.

Fixpoint nodupb (l : list string) : bool :=
  match l with [] => true | x :: l' => negb (existsb (String.eqb x) l') && nodupb l' end.
Definition wf_b (f : frame value) : bool :=
  nodupb (names f) && forallb (fun nc => Nat.eqb (List.length (snd nc)) (height f)) f.

(* observed Dict / Scalar: OVal = returned, OTypeError = raised TypeError *)
Inductive obs (X : Type) := OVal (x : X) | OTypeError.
Arguments OVal {X}. Arguments OTypeError {X}.

Definition dict_ok (f : frame value) (o : obs (pyrow value)) : bool :=
  match enc_dict f, o with
  | Some r, OVal r' => pyrow_eqb r r'
  | None, OTypeError => true
  | _, _ => false
  end.
Definition scalar_ok (f : frame value) (o : obs value) : bool :=
  match enc_scalar f, o with
  | Some v, OVal v' => value_eqb v v'
  | None, OTypeError => true
  | _, _ => false
  end.

(* codes of the targets whose observed value differs from the model's encoding of [f] *)
Definition check_targets (f : frame value) (dol : frame value) (lod : list (pyrow value))
           (d : obs (pyrow value)) (s : obs value) : list nat :=
  (if frame_eqb (enc_dol f) dol then [] else [1]) ++
  (if list_eqb pyrow_eqb (enc_lod f) lod then [] else [2]) ++
  (if dict_ok f d then [] else [3]) ++
  (if scalar_ok f s then [] else [4]) ++
  (if frame_eqb (frame_of_rows (names f) lod) f then [] else [5]).

(* the same comparison up to the order of rows, for pipelines whose row order the engine does not
   fix (Polars group_by / join without a total arrange): rows as multisets *)
Definition count_row (r : pyrow value) (l : list (pyrow value)) : nat :=
  List.length (filter (pyrow_eqb r) l).
Definition perm_rows (a b : list (pyrow value)) : bool :=
  Nat.eqb (List.length a) (List.length b) && forallb (fun r => Nat.eqb (count_row r a) (count_row r b)) a.
Definition frame_rows (f : frame value) : list (pyrow value) := rows_n (height f) f.

Definition check_targets_unordered (f : frame value) (dol : frame value) (lod : list (pyrow value))
           (d : obs (pyrow value)) (s : obs value) : list nat :=
  (if list_eqb String.eqb (names (enc_dol f)) (names dol) && perm_rows (frame_rows (enc_dol f)) (frame_rows dol)
   then [] else [1]) ++
  (if perm_rows (enc_lod f) lod then [] else [2]) ++
  (if dict_ok f d then [] else [3]) ++
  (if scalar_ok f s then [] else [4]) ++
  (if forallb (fun r => list_eqb String.eqb (map fst r) (names f)) lod then [] else [5]).
