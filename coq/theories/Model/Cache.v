(* Model/Cache.v — field-for-field transcription of pipe/cache.py: Cache, Cache.from_ast,
   Cache.update, Cache.requires_subquery, on the resolved AST of Model/RefSem.v.  Python dicts are
   association lists in insertion order (name_to_uuid, cols); sets are lists used through
   membership only.  Definitions only. *)
From Coq Require Import List String NArith ZArith Bool.
From PDT Require Import Model.Dtype Model.Conv Model.Signature Model.Resolve Model.Value Model.Ops
     Model.Expr Model.RefSem Model.Typing.
From PDTGen Require Import Catalogue.
Import ListNotations.
Open Scope list_scope.

Record cache := {
  name_to_uuid : list (string * uid);      (* the selected columns, in order *)
  partition_by : list uid;
  cols : tenv;                             (* all columns in scope (hidden ones included) *)
  limit : Z;
  group_by : list uid;                     (* a set *)
  is_filtered : bool
}.

(* ---------- Python dict helpers ---------- *)
(* d1 | d2 on ordered dicts: keys of d1 keep their position (value replaced), new keys appended *)
Fixpoint dict_set_s {A} (k : string) (v : A) (d : list (string * A)) : list (string * A) :=
  match d with
  | [] => [(k, v)]
  | (k', v') :: d' => if String.eqb k k' then (k, v) :: d' else (k', v') :: dict_set_s k v d'
  end.
Definition dict_union_s {A} (d1 d2 : list (string * A)) : list (string * A) :=
  fold_left (fun d kv => dict_set_s (fst kv) (snd kv) d) d2 d1.
Fixpoint dict_set_u {A} (k : uid) (v : A) (d : list (uid * A)) : list (uid * A) :=
  match d with
  | [] => [(k, v)]
  | (k', v') :: d' => if N.eqb k k' then (k, v) :: d' else (k', v') :: dict_set_u k v d'
  end.
Definition dict_union_u {A} (d1 d2 : list (uid * A)) : list (uid * A) :=
  fold_left (fun d kv => dict_set_u (fst kv) (snd kv) d) d2 d1.

Definition uuid_to_name (c : cache) (u : uid) : option string :=
  match find (fun p => N.eqb (snd p) u) (name_to_uuid c) with Some p => Some (fst p) | None => None end.
Definition visible_uids (c : cache) : list uid := map snd (name_to_uuid c).
Definition set_eqb (a b : list uid) : bool :=
  forallb (fun x => mem_u x b) a && forallb (fun x => mem_u x a) b.

(* ---------- expression traversal ---------- *)
Fixpoint cols_in (e : expr) {struct e} : list uid :=
  match e with
  | ECol u => [u]
  | ELit _ => []
  | ECast e' _ => cols_in e'
  | ECase cases dflt =>
      (fix go (cs : list (expr * expr)) : list uid :=
         match cs with [] => [] | (c, v) :: cs' => cols_in c ++ cols_in v ++ go cs' end) cases
      ++ match dflt with Some d => cols_in d | None => [] end
  | EFn _ args _ part arr =>
      (fix go (l : list expr) : list uid := match l with [] => [] | a :: l' => cols_in a ++ go l' end) args
      ++ (fix go (l : list expr) : list uid := match l with [] => [] | a :: l' => cols_in a ++ go l' end) part
      ++ (fix go (l : list (expr * omark)) : list uid :=
            match l with [] => [] | (a, _) :: l' => cols_in a ++ go l' end) arr
  end.

(* the column sets of the sub-trees rooted at aggregate / window ColFn nodes *)
Fixpoint aggwin_fn_cols (e : expr) {struct e} : list (list uid) :=
  match e with
  | ECol _ | ELit _ => []
  | ECast e' _ => aggwin_fn_cols e'
  | ECase cases dflt =>
      (fix go (cs : list (expr * expr)) : list (list uid) :=
         match cs with [] => [] | (c, v) :: cs' => aggwin_fn_cols c ++ aggwin_fn_cols v ++ go cs' end) cases
      ++ match dflt with Some d => aggwin_fn_cols d | None => [] end
  | EFn o args _ part arr =>
      (if ftype_eqb (op_ftype o) ElementWise then [] else [cols_in e])
      ++ (fix go (l : list expr) : list (list uid) :=
            match l with [] => [] | a :: l' => aggwin_fn_cols a ++ go l' end) args
      ++ (fix go (l : list expr) : list (list uid) :=
            match l with [] => [] | a :: l' => aggwin_fn_cols a ++ go l' end) part
      ++ (fix go (l : list (expr * omark)) : list (list uid) :=
            match l with [] => [] | (a, _) :: l' => aggwin_fn_cols a ++ go l' end) arr
  end.

Definition col_ftype (c : cache) (u : uid) : option ftype :=
  match env_get (cols c) u with Some ci => Some (c_ftype ci) | None => None end.
Definition col_is (c : cache) (fts : list ftype) (u : uid) : bool :=
  match col_ftype c u with Some f => existsb (ftype_eqb f) fts | None => false end.
Definition col_is_const (c : cache) (u : uid) : bool :=
  match env_get (cols c) u with Some ci => is_const (c_dtype ci) | None => false end.

(* ---------- Cache.update ---------- *)
Definition new_cols (aiw : bool) (env : tenv) (defs : list def) : tres tenv :=
  (fix go (ds : list def) : tres tenv :=
     match ds with
     | [] => TOk []
     | (n, u, e) :: ds' =>
         tbind (dtype_of env e) (fun t =>
         tbind (ftype_of aiw env e) (fun f =>
         tbind (go ds') (fun rest => TOk ((u, {| c_name := n; c_dtype := t; c_ftype := f |}) :: rest))))
     end) defs.

Definition upd_select (c : cache) (us : list uid) : cache :=
  {| name_to_uuid := map (fun u => (match uuid_to_name c u with Some n => n | None => EmptyString end, u)) us;
     partition_by := partition_by c; cols := cols c; limit := limit c; group_by := group_by c;
     is_filtered := is_filtered c |}.

Definition upd_rename (c : cache) (m : list (string * string)) : cache :=
  {| name_to_uuid := map (fun p => (match assoc_s (fst p) m with Some n => n | None => fst p end, snd p))
                         (name_to_uuid c);
     partition_by := partition_by c; cols := cols c; limit := limit c; group_by := group_by c;
     is_filtered := is_filtered c |}.

Definition upd_mutate (c : cache) (defs : list def) : tres cache :=
  tbind (new_cols true (cols c) defs) (fun nc =>
    let names := map (fun d => fst (fst d)) defs in
    TOk {| name_to_uuid := filter (fun p => negb (mem_s (fst p) names)) (name_to_uuid c)
                           ++ map (fun d => (fst (fst d), snd (fst d))) defs;
           partition_by := partition_by c;
           cols := dict_union_u (cols c) nc;
           limit := limit c; group_by := group_by c; is_filtered := is_filtered c |}).

Definition upd_summarize (c : cache) (defs : list def) : tres cache :=
  tbind (new_cols false (cols c) defs) (fun nc =>
    let names := map (fun d => fst (fst d)) defs in
    (* cols = {name: col for grouping columns not overwritten} | {name: new col}: a dict keyed by NAME *)
    let gcols := flat_map (fun u =>
                   match uuid_to_name c u, env_get (cols c) u with
                   | Some n, Some ci => if mem_s n names then [] else [(n, (u, ci))]
                   | _, _ => []        (* KeyError in Python (finding F29) *)
                   end) (partition_by c) in
    let byname := dict_union_s gcols (map (fun p => (c_name (snd p), p)) nc) in
    TOk {| name_to_uuid := map (fun p => (fst p, fst (snd p))) byname;
           partition_by := [];
           cols := map snd byname;
           limit := limit c;
           group_by := group_by c ++ partition_by c;
           is_filtered := is_filtered c |}).

Definition upd_alias (c : cache) (m : option (list (uid * uid))) : cache :=
  match m with
  | None => c
  | Some m =>
      {| name_to_uuid := map (fun p => (fst p, remap_uid m (snd p))) (name_to_uuid c);
         partition_by := map (remap_uid m) (partition_by c);
         cols := map (fun p => (remap_uid m (fst p), snd p)) (cols c);
         limit := limit c; group_by := group_by c; is_filtered := is_filtered c |}
  end.

Definition upd_marker (c : cache) : cache :=
  {| name_to_uuid := name_to_uuid c; partition_by := partition_by c;
     cols := map (fun p => (fst p, {| c_name := c_name (snd p); c_dtype := without_const (c_dtype (snd p));
                                      c_ftype := ElementWise |})) (cols c);
     limit := 0; group_by := []; is_filtered := false |}.

Definition upd_join (l r : cache) : cache :=
  {| name_to_uuid := dict_union_s (name_to_uuid l) (name_to_uuid r);
     partition_by := partition_by l;
     cols := dict_union_u (cols l) (cols r);
     limit := 0; group_by := []; is_filtered := is_filtered l || is_filtered r |}.

Definition upd_union (l : cache) : cache :=
  {| name_to_uuid := name_to_uuid l; partition_by := partition_by l;
     cols := filter (fun p => mem_u (fst p) (visible_uids l)) (cols l);
     limit := 0; group_by := []; is_filtered := is_filtered l |}.

Definition with_partition (c : cache) (pb : list uid) : cache :=
  {| name_to_uuid := name_to_uuid c; partition_by := pb; cols := cols c; limit := limit c;
     group_by := group_by c; is_filtered := is_filtered c |}.
Definition with_limit (c : cache) (n : Z) : cache :=
  {| name_to_uuid := name_to_uuid c; partition_by := partition_by c; cols := cols c; limit := n;
     group_by := group_by c; is_filtered := is_filtered c |}.
Definition with_filtered (c : cache) : cache :=
  {| name_to_uuid := name_to_uuid c; partition_by := partition_by c; cols := cols c; limit := limit c;
     group_by := group_by c; is_filtered := true |}.

(* source schema: dtype of every source column *)
Definition schema := list (uid * dtype).

(* Cache.from_ast *)
Fixpoint cache_of_ast (sch : schema) (a : ast) : tres cache :=
  match a with
  | Source _ cs =>
      TOk {| name_to_uuid := cs; partition_by := [];
             cols := map (fun p => (snd p, {| c_name := fst p;
                                              c_dtype := match assoc_u (snd p) sch with Some t => t | None => TS SNull end;
                                              c_ftype := ElementWise |})) cs;
             limit := 0; group_by := []; is_filtered := false |}
  | Select c us => tbind (cache_of_ast sch c) (fun cc => TOk (upd_select cc us))
  | Rename c m => tbind (cache_of_ast sch c) (fun cc => TOk (upd_rename cc m))
  | Mutate c defs => tbind (cache_of_ast sch c) (fun cc => upd_mutate cc defs)
  | Filter c _ => tbind (cache_of_ast sch c) (fun cc => TOk (with_filtered cc))
  | Arrange c _ => cache_of_ast sch c
  | SliceHead c n _ => tbind (cache_of_ast sch c) (fun cc => TOk (with_limit cc n))
  | GroupBy c us add =>
      tbind (cache_of_ast sch c) (fun cc => TOk (with_partition cc (if add then partition_by cc ++ us else us)))
  | Ungroup c => tbind (cache_of_ast sch c) (fun cc => TOk (with_partition cc []))
  | Summarize c defs => tbind (cache_of_ast sch c) (fun cc => upd_summarize cc defs)
  | Alias c m => tbind (cache_of_ast sch c) (fun cc => TOk (upd_alias cc m))
  | SubqueryMarker c => tbind (cache_of_ast sch c) (fun cc => TOk (upd_marker cc))
  | Join l r _ _ =>
      tbind (cache_of_ast sch l) (fun cl => tbind (cache_of_ast sch r) (fun cr => TOk (upd_join cl cr)))
  | Union l r _ => tbind (cache_of_ast sch l) (fun cl => tbind (cache_of_ast sch r) (fun _ => TOk (upd_union cl)))
  end.

(* ---------- Cache.requires_subquery ----------
   [v] is the new verb node; its child sub-tree is irrelevant here, only the verb's own fields are
   read.  [is_right]: this cache belongs to the right operand of the join. *)
Inductive reason :=
| RAfterSlice | RNestedInMutate | RWindowInFilter | RFilterAfterWindow | RWindowAfterSlice
| RNestedSummarize | RNestedAggInSummarize | RWindowGroupCol
| RJoinGrouped | RJoinConst | RJoinWindow | RJoinOnAgg | RJoinFullFiltered
| RUnionGrouped | RUnionWindow.

Definition verb_exprs (v : ast) : list expr :=
  match v with
  | Mutate _ defs | Summarize _ defs => map snd defs
  | Filter _ ps => ps
  | Arrange _ os => map fst os
  | Select _ us | GroupBy _ us _ => map ECol us
  | Join _ _ on _ => [on]
  | _ => []
  end.

Definition requires_subquery (is_polars : bool) (c : cache) (v : ast) (is_right : bool) : option reason :=
  if is_polars then None else
  let exprs := verb_exprs v in
  let all_cols := flat_map cols_in exprs in
  let after_slice := match v with
                     | Filter _ _ | Summarize _ _ | Arrange _ _ | GroupBy _ _ _ | Join _ _ _ _ | Union _ _ _ => true
                     | _ => false end in
  if after_slice && negb (Z.eqb (limit c) 0) then Some RAfterSlice else
  let is_mutate := match v with Mutate _ _ => true | _ => false end in
  let is_filter := match v with Filter _ _ => true | _ => false end in
  if is_mutate && existsb (fun us => existsb (col_is c [Window; Aggregate]) us) (flat_map aggwin_fn_cols exprs)
  then Some RNestedInMutate else
  if is_filter && existsb (col_is c [Window]) all_cols then Some RWindowInFilter else
  if is_filter && existsb (fun p => ftype_eqb (c_ftype (snd p)) Window) (cols c) then Some RFilterAfterWindow else
  if is_mutate && negb (Z.eqb (limit c) 0) && existsb has_aggwin_fn exprs then Some RWindowAfterSlice else
  match v with
  | Summarize _ _ =>
      if negb (match group_by c with [] => true | _ => false end) && negb (set_eqb (group_by c) (partition_by c))
      then Some RNestedSummarize
      else if existsb (col_is c [Window; Aggregate]) all_cols then Some RNestedAggInSummarize
      else if existsb (col_is c [Window]) (partition_by c) then Some RWindowGroupCol
      else None
  | Join _ _ on how =>
      if negb (match group_by c with [] => true | _ => false end) then Some RJoinGrouped
      else if (match how with JFull => true | JLeft => is_right | JInner => false end)
              && existsb (col_is_const c) (visible_uids c) then Some RJoinConst
      else if existsb (col_is c [Window]) (visible_uids c) then Some RJoinWindow
      else if existsb (fun u => col_is c [Window; Aggregate] u) (cols_in on) then Some RJoinOnAgg
      else if is_filtered c && (match how with JFull => true | _ => false end) then Some RJoinFullFiltered
      else None
  | Union _ _ _ =>
      if negb (match group_by c with [] => true | _ => false end) then Some RUnionGrouped
      else if existsb (col_is c [Window]) (visible_uids c) then Some RUnionWindow
      else None
  | _ => None
  end.

(* ---------- decidable comparison with an observed cache (L2 correspondence) ---------- *)
Definition colinfo_eqb (a b : colinfo) : bool :=
  String.eqb (c_name a) (c_name b) && dtype_eqb (c_dtype a) (c_dtype b) && ftype_eqb (c_ftype a) (c_ftype b).
Fixpoint tenv_eqb (a b : tenv) : bool :=
  match a, b with
  | [], [] => true
  | (u, x) :: a', (v, y) :: b' => N.eqb u v && colinfo_eqb x y && tenv_eqb a' b'
  | _, _ => false
  end.
Fixpoint names_uids_eqb (a b : list (string * uid)) : bool :=
  match a, b with
  | [], [] => true
  | (n, u) :: a', (m, v) :: b' => String.eqb n m && N.eqb u v && names_uids_eqb a' b'
  | _, _ => false
  end.
Fixpoint uids_eqb (a b : list uid) : bool :=
  match a, b with
  | [], [] => true
  | u :: a', v :: b' => N.eqb u v && uids_eqb a' b'
  | _, _ => false
  end.

(* which field differs first: 0 = equal, 1 name_to_uuid, 2 partition_by, 3 cols, 4 limit, 5 group_by,
   6 is_filtered, 9 = the model could not type the pipeline *)
Definition cache_diff (m : tres cache) (o : cache) : nat :=
  match m with
  | TErr _ => 9
  | TOk c =>
      if negb (names_uids_eqb (name_to_uuid c) (name_to_uuid o)) then 1
      else if negb (uids_eqb (partition_by c) (partition_by o)) then 2
      else if negb (tenv_eqb (cols c) (cols o)) then 3
      else if negb (Z.eqb (limit c) (limit o)) then 4
      else if negb (set_eqb (group_by c) (group_by o)) then 5
      else if negb (Bool.eqb (is_filtered c) (is_filtered o)) then 6
      else 0
  end.
