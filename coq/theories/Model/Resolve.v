(* Model/Resolve.v — the resolution functions instantiated with the tables and catalogue that the
   translator regenerated from /repo (generated/ConvTable.v, generated/Catalogue.v). *)
From Coq Require Import List String NArith Bool.
From PDT Require Import Model.Dtype Model.Conv Model.Signature.
From PDTGen Require Import ConvTable Catalogue.
Import ListNotations.

Definition converts_to := Conv.converts_to conv_table float_subtypes.
Definition conversion_cost := Conv.conversion_cost conv_table.
Definition implicit_conversions := Conv.implicit_conversions conv_table float_subtypes.
Definition best_match := Signature.best_match conv_table float_subtypes.
Definition all_matches := Signature.all_matches conv_table float_subtypes.

Definition resolve (o : opname) (args : list dtype) : resolution := best_match (op_sigs o) args.
Definition op_outcome (o : opname) (args : list dtype) : outcome :=
  outcome_of (op_ftype o) args (resolve o args).

(* Decidable equality of outcomes, used by the correspondence cases. *)
Definition outcome_eqb (a b : outcome) : bool :=
  match a, b with
  | OType t, OType t' => dtype_eqb t t'
  | ODataTypeError, ODataTypeError | OAssertion, OAssertion | OInternal, OInternal => true
  | _, _ => false
  end.

(* indices (0-based) of the cases whose model outcome differs from the observed one *)
Fixpoint failing_from (i : nat) (cases : list (opname * list dtype * outcome)) : list nat :=
  match cases with
  | [] => []
  | (o, args, obs) :: cs =>
      if outcome_eqb (op_outcome o args) obs then failing_from (S i) cs
      else i :: failing_from (S i) cs
  end.
Definition failing := failing_from 0.
