(* Model/HeapProg.v — C10: structured programs over the heap statements of Model/Heap.v (sequence, choice,
   loops with break / continue, return / raise), their big-step semantics and the static check that a
   program only writes objects it allocated itself.  Definitions only.
   A Python function body is translated statement by statement (harness/translate.py):
     if / elif / else, a conditional with side effects    PIf  (either branch; the test is not interpreted)
     for / while                                         PLoop (the body any number of times)
     try: s except: h                                    PIf s (PIf h (s; h))
     break / continue / return / raise                   PBreak / PCont / PRet
   The check analyses a loop body ONCE, from a loop-head state that keeps only the facts every
   iteration preserves (which variables hold objects allocated by this call), and verifies that the
   body re-establishes it. *)
From Coq Require Import List Arith Bool.
From PDT Require Import Model.Heap.
Import ListNotations.

Inductive prog :=
| PSkip
| PStmt (s : stmt)
| PSeq (p q : prog)
| PIf (p q : prog)
| PLoop (body : prog)
| PBreak
| PCont
| PRet
| PCalls (fs : list nat).   (* any number of calls of functions of the table named in fs, each in an environment of its own *)

Inductive out := ONormal | OBreak | OCont | ORet.

(* funs: the bodies of the functions that can be called.  A callee starts in ANY environment (whatever the
   arguments are) on the caller's heap; when it is done the caller goes on with its own environment and the heap
   the callee left - or stops as well, if the callee raised. *)
Inductive pexec (funs : list prog) : prog -> env * heap -> out -> env * heap -> Prop :=
| PX_skip : forall s, pexec funs PSkip s ONormal s
| PX_stmt : forall st s s', cstep s st s' -> pexec funs (PStmt st) s ONormal s'
| PX_seq : forall p q s s1 s2 o, pexec funs p s ONormal s1 -> pexec funs q s1 o s2 -> pexec funs (PSeq p q) s o s2
| PX_seq_exit : forall p q s s1 o, o <> ONormal -> pexec funs p s o s1 -> pexec funs (PSeq p q) s o s1
| PX_if_l : forall p q s o s', pexec funs p s o s' -> pexec funs (PIf p q) s o s'
| PX_if_r : forall p q s o s', pexec funs q s o s' -> pexec funs (PIf p q) s o s'
| PX_loop_done : forall b s, pexec funs (PLoop b) s ONormal s
| PX_loop_iter : forall b s s1 s2 o o',
    pexec funs b s o s1 -> o = ONormal \/ o = OCont -> pexec funs (PLoop b) s1 o' s2 -> pexec funs (PLoop b) s o' s2
| PX_loop_break : forall b s s1, pexec funs b s OBreak s1 -> pexec funs (PLoop b) s ONormal s1
| PX_loop_ret : forall b s s1, pexec funs b s ORet s1 -> pexec funs (PLoop b) s ORet s1
| PX_break : forall s, pexec funs PBreak s OBreak s
| PX_cont : forall s, pexec funs PCont s OCont s
| PX_ret : forall s, pexec funs PRet s ORet s
| PX_calls_done : forall fs s, pexec funs (PCalls fs) s ONormal s
| PX_calls_step : forall fs f body e h ec oc ec' h' o h'',
    In f fs -> nth_error funs f = Some body -> pexec funs body (ec, h) oc (ec', h') ->
    pexec funs (PCalls fs) (e, h') o (e, h'') ->
    pexec funs (PCalls fs) (e, h) o (e, h'')
| PX_calls_raise : forall fs f body e h ec ec' h',
    In f fs -> nth_error funs f = Some body -> pexec funs body (ec, h) ORet (ec', h') ->
    pexec funs (PCalls fs) (e, h) ORet (e, h').

(* ---------- the static check ---------- *)
(* abstract states a program can leave in, per way of leaving *)
Record ares := { r_norm : list astate; r_brk : list astate; r_cont : list astate }.
Definition ares_empty : ares := {| r_norm := []; r_brk := []; r_cont := [] |}.
Definition ares_app (r1 r2 : ares) : ares :=
  {| r_norm := r_norm r1 ++ r_norm r2; r_brk := r_brk r1 ++ r_brk r2; r_cont := r_cont r1 ++ r_cont r2 |}.

Definition all_res (f : astate -> option ares) : list astate -> option ares :=
  fix go l := match l with
              | [] => Some ares_empty
              | a :: l' => match f a, go l' with
                           | Some r1, Some r2 => Some (ares_app r1 r2)
                           | _, _ => None
                           end
              end.

Definition aval_eqb (u v : aval) : bool :=
  match u, v with
  | AOld, AOld => true
  | ANew i, ANew j => Nat.eqb i j
  | _, _ => false
  end.

(* the loop-head state: of the variables, only those the body never rebinds keep their status; of the
   facts, only "is a list of objects allocated by this call".  The translator does not choose it: it is
   computed from the body. *)
Fixpoint assigned (p : prog) : list var :=
  match p with
  | PStmt (SLet x _) => [x]
  | PStmt (SCopy x _) => [x]
  | PSeq p q | PIf p q => assigned p ++ assigned q
  | PLoop b => assigned b
  | _ => []
  end.

Definition head_state (kill : list var) (a : astate) : astate :=
  {| aenv := filter (fun xv => negb (existsb (Nat.eqb (fst xv)) kill)) (aenv a); afld := coll_facts (afld a); anext := anext a |}.

(* everything hd claims about a variable, a claims too *)
Definition subenv (hd a : astate) : bool :=
  forallb (fun xv => match lookup_a (fst xv) hd with
                     | ANew id => aval_eqb (lookup_a (fst xv) a) (ANew id)
                     | AOld => true
                     end) (aenv hd)
  && forallb (fun e => match lookup_f (fst e) coll_fld (afld hd) with
                       | ANew _ => is_coll (fst e) a
                       | AOld => true
                       end) (afld hd).

(* the identities hd mentions were handed out before it *)
Definition head_wf (hd : astate) : bool :=
  forallb (fun xv => match snd xv with ANew id => Nat.ltb id (anext hd) | AOld => true end) (aenv hd)
  && forallb (fun e => Nat.eqb (fst (snd e)) coll_fld && Nat.ltb (fst e) (anext hd)) (afld hd).

Fixpoint acheck (p : prog) (a : astate) : option ares :=
  match p with
  | PSkip => Some {| r_norm := [a]; r_brk := []; r_cont := [] |}
  | PStmt s => match astep a s with
               | Some a' => Some {| r_norm := [a']; r_brk := []; r_cont := [] |}
               | None => None
               end
  | PSeq p q => match acheck p a with
                | None => None
                | Some r => match all_res (acheck q) (r_norm r) with
                            | None => None
                            | Some r2 => Some {| r_norm := r_norm r2; r_brk := r_brk r ++ r_brk r2;
                                                 r_cont := r_cont r ++ r_cont r2 |}
                            end
                end
  | PIf p q => match acheck p a, acheck q a with
               | Some r1, Some r2 => Some (ares_app r1 r2)
               | _, _ => None
               end
  | PLoop b => let hd := head_state (assigned b) a in
               if subenv hd a && head_wf hd then
                 match acheck b hd with
                 | None => None
                 | Some r => if forallb (subenv hd) (r_norm r ++ r_cont r)
                             then Some {| r_norm := hd :: r_brk r; r_brk := []; r_cont := [] |}
                             else None
                 end
               else None
  | PBreak => Some {| r_norm := []; r_brk := [a]; r_cont := [] |}
  | PCont => Some {| r_norm := []; r_brk := []; r_cont := [a] |}
  | PRet => Some ares_empty
  | PCalls _ => Some {| r_norm := [a]; r_brk := []; r_cont := [] |}    (* the callees are checked on their own *)
  end.

Definition safe_prog (p : prog) : bool :=
  match acheck p init_astate with Some _ => true | None => false end.

(* a table of functions: every body passes the check, and every call names a function of the table *)
Fixpoint calls_below (n : nat) (p : prog) : bool :=
  match p with
  | PCalls fs => forallb (fun f => Nat.ltb f n) fs
  | PSeq p q | PIf p q => calls_below n p && calls_below n q
  | PLoop b => calls_below n b
  | _ => true
  end.
Definition safe_table (funs : list prog) : bool :=
  forallb (fun p => safe_prog p && calls_below (List.length funs) p) funs.

Definition pseq (l : list prog) : prog := fold_right PSeq PSkip l.
