(* Model/Typing.v — static semantics of resolved expressions: transcriptions of ColFn.dtype/ftype,
   CaseExpr.dtype/ftype, Cast.dtype/is_valid_cast, LiteralCol and types.lca_type (tree/col_expr.py,
   tree/types.py).  Definitions only. *)
From Coq Require Import List String NArith ZArith Bool.
From PDT Require Import Model.Dtype Model.Conv Model.Signature Model.Resolve Model.Value Model.Ops
     Model.Expr.
From PDTGen Require Import Catalogue ConvTable.
Import ListNotations.
Open Scope list_scope.

Inductive terr := EDataType | EFunctionType | EColumnNotFound | EInternalT.
Inductive tres (A : Type) := TOk (a : A) | TErr (e : terr).
Arguments TOk {A} a.
Arguments TErr {A} e.

Definition tbind {A B} (r : tres A) (f : A -> tres B) : tres B :=
  match r with TOk a => f a | TErr e => TErr e end.

Record colinfo := { c_name : string; c_dtype : dtype; c_ftype : ftype }.
Definition tenv := list (uid * colinfo).
Fixpoint env_get (env : tenv) (u : uid) : option colinfo :=
  match env with
  | [] => None
  | (k, c) :: env' => if N.eqb k u then Some c else env_get env' u
  end.

(* LiteralCol: types.from_python + with_const *)
Definition lit_dtype (v : value) : dtype :=
  TConst (match v with
          | VNull | VErr => TS SNull
          | VInt _ => TS SInt64
          | VBool _ => TS SBool
          | VStr _ => TStr None
          | VFloat _ => TS SFloat64
          | VDate _ => TS SDate
          | VDatetime _ => TS SDatetime
          end).

(* ---------- types.lca_type (without List) ---------- *)
Definition is_strlike (t : dtype) : bool := match t with TStr _ | TEnum _ => true | _ => false end.
Definition is_dec (t : dtype) : bool := match t with TDec _ _ => true | _ => false end.
Definition is_nulltype (t : dtype) : bool := match t with TS SNull => true | _ => false end.

Definition common_ancestors (ts : list dtype) : list dtype :=
  match ts with
  | [] => []
  | t0 :: rest =>
      filter (fun a => forallb (fun t => mem_dtype a (map fst (table_row conv_table t))) rest)
             (map fst (table_row conv_table t0))
  end.

Definition lca_type (ts : list dtype) : tres dtype :=
  let ts := filter (fun t => negb (is_nulltype t)) (map without_const ts) in
  match ts with
  | [] => TOk (TS SNull)
  | t0 :: _ =>
      if existsb is_strlike ts then
        if forallb (dtype_eqb t0) ts then TOk t0
        else if forallb is_strlike ts then TOk (TStr None)
        else TErr EDataType
      else if existsb is_dec ts then
        if forallb (dtype_eqb t0) ts then TOk t0
        else if forallb is_dec ts then
          let pd := fold_left (fun m t => match t with TDec p s => Z.max m (Z.of_N p - Z.of_N s) | _ => m end) ts 0%Z in
          let sc := fold_left (fun m t => match t with TDec _ s => N.max m s | _ => m end) ts 0%N in
          TOk (TDec (Z.to_N pd + sc) sc)
        else TErr EDataType
      else if existsb (fun t => match t with TList _ | TVar _ | TConst _ => true | _ => false end) ts
      then TErr EInternalT
      else
        match common_ancestors ts with
        | [] => TErr EDataType
        | anc =>
            (* best_signature_match(dtypes, [[a]*n for a in common_ancestors]) *)
            let sigs := map (fun a => {| sig_params := repeat a (List.length ts); sig_vararg := false;
                                         sig_ret := a |}) anc in
            match best_match sigs ts with
            | Unique _ r => TOk r
            | NoMatch => TErr EDataType
            | _ => TErr EInternalT
            end
        end
  end.

(* ---------- Cast.is_valid_cast ---------- *)
Definition is_int_sub (t : dtype) : bool := mem_dtype t int_subtypes.
Definition is_float_sub (t : dtype) : bool := mem_dtype t float_subtypes.
Definition is_valid_cast (source target : dtype) : bool :=
  let s := match without_const source with
           | TStr _ | TEnum _ => TStr None
           | TDec _ _ => TDecimalDefault
           | t => t end in
  match s, target with
  | TStr None, TEnum _ => true
  | _, _ =>
      let num_target := is_int_sub target || is_float_sub target in
      (dtype_eqb s (TStr None) && num_target)
      || (is_float_sub s && is_int_sub target)
      || (dtype_eqb s (TS SDatetime) && dtype_eqb target (TS SDate))
      || (dtype_eqb s (TS SDate) && dtype_eqb target (TS SDatetime))
      || (dtype_eqb target (TStr None)
          && (dtype_eqb s (TS SInt) || is_int_sub s || dtype_eqb s (TS SFloat) || is_float_sub s
              || dtype_eqb s (TS SDatetime) || dtype_eqb s (TS SDate)))
      || ((dtype_eqb s (TS SInt) || is_int_sub s || dtype_eqb s (TS SFloat) || is_float_sub s) && num_target)
      || (dtype_eqb s (TS SBool) && num_target)
  end.

(* ---------- dtype ---------- *)
Fixpoint dtype_of (env : tenv) (e : expr) {struct e} : tres dtype :=
  match e with
  | ECol u => match env_get env u with Some c => TOk (c_dtype c) | None => TErr EColumnNotFound end
  | ELit v => TOk (lit_dtype v)
  | ECast e' t =>
      tbind (dtype_of env e') (fun s =>
        if converts_to s t || is_valid_cast s t
        then TOk (if is_const s then with_const t else t)
        else TErr EDataType)
  | ECase cases dflt =>
      let conds := (fix go (cs : list (expr * expr)) : tres (list dtype) :=
                      match cs with
                      | [] => TOk []
                      | (c, _) :: cs' => tbind (dtype_of env c) (fun t => tbind (go cs') (fun ts => TOk (t :: ts)))
                      end) cases in
      let vals := (fix go (cs : list (expr * expr)) : tres (list dtype) :=
                      match cs with
                      | [] => match dflt with
                              | Some d => tbind (dtype_of env d) (fun t => TOk [t])
                              | None => TOk []
                              end
                      | (_, v) :: cs' => tbind (dtype_of env v) (fun t => tbind (go cs') (fun ts => TOk (t :: ts)))
                      end) cases in
      tbind conds (fun cts =>
        if negb (forallb (fun t => dtype_eqb (without_const t) (TS SBool)) cts) then TErr EDataType else
        tbind vals (fun vts =>
          tbind (lca_type vts) (fun t =>
            TOk (if forallb is_const cts && forallb is_const vts then with_const t else t))))
  | EFn o args has_part part arr =>
      let tys := (fix go (l : list expr) : tres (list dtype) :=
                    match l with
                    | [] => TOk []
                    | a :: l' => tbind (dtype_of env a) (fun t => tbind (go l') (fun ts => TOk (t :: ts)))
                    end) in
      let arr_tys := (fix go (l : list (expr * omark)) : tres (list dtype) :=
                    match l with
                    | [] => TOk []
                    | (a, _) :: l' => tbind (dtype_of env a) (fun t => tbind (go l') (fun ts => TOk (t :: ts)))
                    end) arr in
      tbind (tys args) (fun ats =>
      tbind (tys part) (fun pts =>
      tbind arr_tys (fun rts =>
        match resolve o ats with
        | NoMatch => TErr EDataType
        | Unique _ ret =>
            if ftype_eqb (op_ftype o) ElementWise && forallb is_const (ats ++ pts ++ rts)
            then (if is_const ret then TErr EInternalT else TOk (TConst ret))
            else TOk ret
        | Ambiguous | Internal => TErr EInternalT
        end)))
  end.

(* ---------- ftype ---------- *)
(* does a ColFn with an aggregate / window operator occur in e (args and context kwargs)? *)
Fixpoint has_aggwin_fn (e : expr) {struct e} : bool :=
  match e with
  | ECol _ | ELit _ => false
  | ECast e' _ => has_aggwin_fn e'
  | ECase cases dflt =>
      (fix go (cs : list (expr * expr)) : bool :=
         match cs with [] => false | (c, v) :: cs' => has_aggwin_fn c || has_aggwin_fn v || go cs' end) cases
      || match dflt with Some d => has_aggwin_fn d | None => false end
  | EFn o args _ part arr =>
      negb (ftype_eqb (op_ftype o) ElementWise)
      || (fix go (l : list expr) : bool :=
            match l with [] => false | a :: l' => has_aggwin_fn a || go l' end) args
      || (fix go (l : list expr) : bool :=
            match l with [] => false | a :: l' => has_aggwin_fn a || go l' end) part
      || (fix go (l : list (expr * omark)) : bool :=
            match l with [] => false | (a, _) :: l' => has_aggwin_fn a || go l' end) arr
  end.

Definition children_have_aggwin (args part : list expr) (arr : list (expr * omark)) : bool :=
  existsb has_aggwin_fn args || existsb has_aggwin_fn part || existsb (fun p => has_aggwin_fn (fst p)) arr.

Definition is_const_typed (env : tenv) (e : expr) : bool :=
  match dtype_of env e with TOk t => is_const t | TErr _ => false end.

Fixpoint ftype_of (aiw : bool) (env : tenv) (e : expr) {struct e} : tres ftype :=
  match e with
  | ECol u => match env_get env u with Some c => TOk (c_ftype c) | None => TErr EColumnNotFound end
  | ELit _ => TOk ElementWise
  | ECast e' _ => ftype_of aiw env e'
  | EFn o args _ part arr =>
      let fts := (fix go (l : list expr) : tres (list ftype) :=
                    match l with
                    | [] => TOk []
                    | a :: l' => tbind (ftype_of aiw env a) (fun t => tbind (go l') (fun ts => TOk (t :: ts)))
                    end) args in
      tbind fts (fun ats =>
        let actual := match op_ftype o with Aggregate => if aiw then Window else Aggregate | f => f end in
        match actual with
        | ElementWise =>
            TOk (if existsb (ftype_eqb Window) ats then Window
                 else if existsb (ftype_eqb Aggregate) ats then Aggregate else ElementWise)
        | _ => if children_have_aggwin args part arr then TErr EFunctionType else TOk actual
        end)
  | ECase cases dflt =>
      (* conditions are visited (their errors surface) but their function type is ignored *)
      let conds := (fix go (cs : list (expr * expr)) : tres unit :=
                      match cs with
                      | [] => TOk tt
                      | (c, _) :: cs' => tbind (ftype_of aiw env c) (fun _ => go cs')
                      end) cases in
      let vals := (fix go (cs : list (expr * expr)) : tres (list ftype) :=
                      match cs with
                      | [] => TOk []
                      | (_, v) :: cs' =>
                          tbind (go cs') (fun ts =>
                            if is_const_typed env v then TOk ts
                            else tbind (ftype_of aiw env v) (fun t => TOk (t :: ts)))
                      end) cases in
      let dv := match dflt with
                | Some d => if is_const_typed env d then TOk [] else tbind (ftype_of aiw env d) (fun t => TOk [t])
                | None => TOk []
                end in
      tbind dv (fun dts => tbind conds (fun _ => tbind vals (fun vts =>
        let all := dts ++ vts in
        let hasW := existsb (ftype_eqb Window) all in
        let hasA := existsb (ftype_eqb Aggregate) all in
        let hasE := existsb (ftype_eqb ElementWise) all in
        if hasW then TOk Window
        else if hasA && hasE then TErr EFunctionType
        else if hasA then TOk Aggregate else TOk ElementWise)))
  end.
