(* Model/Enum.v — the finite enumeration of argument-type tuples used by the in-kernel theorems
   of C13 and by its correspondence check (mirror: harness/impl_c13.py domains/arg_counts).
   k <= 2 arguments: U^k;  k = 3: U3^3;  k >= 4: U4^k.  Fixed-arity operators are enumerated at
   their arity, vararg operators at arity-1 .. arity+2 arguments. *)
From Coq Require Import List String NArith Bool.
From PDT Require Import Model.Dtype Model.Universe Model.Signature Model.Resolve.
From PDTGen Require Import Catalogue.
Import ListNotations.

Definition U4_base : list dtype := [TS SInt64; TS SInt; TS SFloat64; TStr None; TS SBool; TS SNull].
Definition U4 : list dtype := U4_base ++ map TConst U4_base.

Definition doms (k : nat) : list (list dtype) :=
  match k with
  | 0 | 1 | 2 => repeat U k
  | 3 => repeat U3 3
  | _ => repeat U4 k
  end.
Definition enum_k (k : nat) : list (list dtype) := tuples_over (doms k).

Definition arg_counts (o : opname) : list nat :=
  let a := op_arity o in
  if op_is_vararg o then [a - 1; a; a + 1; a + 2] else [a].

Definition enum_args (o : opname) : list (list dtype) := flat_map enum_k (arg_counts o).
