(* Model/Heap.v — C10: a small object-heap language for the write effects of a Python function, its
   concrete semantics, and a static check that the function only writes objects it allocated itself.
   Definitions only.
   Objects live at heap locations.  A "shell" is an object with named fields holding references (a
   dataclass instance such as Cache); every other object is a blob with opaque content.
   A function body is a set of straight-line paths (one per choice of if / elif branches) of:
     SCopy dst src     dst = copy.copy(src)        new shell with the SAME field references
     SSet x f e        x.f = e                     writes the shell x
     SMutF x f         x.f += .. | x.f[k] = .. | x.f.append(..) | .update(..) | del x.f[k]
                                                   writes the object that x.f refers to
     SMutV x           the same on a variable
     SLet x e          x = e
     SLetCopies x      x = [copy.copy(c) for c in ..]   a new list of new objects
     SAppend x e       x.append(e)                 on such a list
     SSetElem x f e    x[i].f = e                  writes an element of such a list
     SMutElem x        x[i].method(..)             the same, any in-place change of an element
   with right-hand sides  RNew (any expression that builds a new object: comprehension, display,
   a | b, a + b, x.copy(), set(), constructor call), RField x f (the object x.f refers to: aliasing),
   RVar x, and RAny (the result of any other call or subscript: some object, old or new, unknown). *)
From Coq Require Import List Arith Bool.
Import ListNotations.

Definition var := nat.
Definition fld := nat.
Definition loc := nat.

(* Coll: a list object whose elements the model tracks (the locations it holds) *)
Inductive cell := Blob (k : nat) | Shell (fs : list (fld * loc)) | Coll (ls : list loc).
Definition heap := list cell.
Definition env := list (var * loc).

Inductive rhs := RNew | RField (x : var) (f : fld) | RVar (x : var) | RAny.
Inductive stmt :=
| SCopy (dst src : var)
| SSet (x : var) (f : fld) (e : rhs)
| SMutF (x : var) (f : fld)
| SMutV (x : var)
| SLet (x : var) (e : rhs)
| SLetCopies (x : var)
| SAppend (x : var) (e : rhs)
| SSetElem (x : var) (f : fld) (e : rhs)
| SMutElem (x : var).

Fixpoint assoc {V} (k : nat) (l : list (nat * V)) : option V :=
  match l with
  | [] => None
  | (k', v) :: l' => if Nat.eqb k' k then Some v else assoc k l'
  end.

Fixpoint update (h : heap) (l : loc) (c : cell) : heap :=
  match h, l with
  | [], _ => []
  | _ :: h', O => c :: h'
  | x :: h', S l' => x :: update h' l' c
  end.

(* ---------- concrete semantics (contents of new / mutated objects are arbitrary) ---------- *)
Inductive ceval : rhs -> env -> heap -> loc -> heap -> Prop :=
| CE_new : forall e h c, ceval RNew e h (List.length h) (h ++ [c])
| CE_field : forall e h x f lx fs l,
    assoc x e = Some lx -> nth_error h lx = Some (Shell fs) -> assoc f fs = Some l ->
    ceval (RField x f) e h l h
| CE_var : forall e h x l, assoc x e = Some l -> ceval (RVar x) e h l h
| CE_any : forall e h l, l < List.length h -> ceval RAny e h l h.

Inductive cstep : env * heap -> stmt -> env * heap -> Prop :=
| CS_copy : forall e h dst src ls c,
    assoc src e = Some ls -> nth_error h ls = Some c ->
    cstep (e, h) (SCopy dst src) ((dst, List.length h) :: e, h ++ [c])
| CS_set : forall e h x f r l h1 lx fs,
    ceval r e h l h1 -> assoc x e = Some lx -> nth_error h1 lx = Some (Shell fs) ->
    cstep (e, h) (SSet x f r) (e, update h1 lx (Shell ((f, l) :: fs)))
| CS_mutf : forall e h x f lx fs l c,
    assoc x e = Some lx -> nth_error h lx = Some (Shell fs) -> assoc f fs = Some l ->
    cstep (e, h) (SMutF x f) (e, update h l c)
| CS_mutv : forall e h x l c,
    assoc x e = Some l -> cstep (e, h) (SMutV x) (e, update h l c)
| CS_let : forall e h x r l h1,
    ceval r e h l h1 -> cstep (e, h) (SLet x r) ((x, l) :: e, h1)
| CS_copies : forall e h x cs,
    cstep (e, h) (SLetCopies x)
          ((x, List.length h + List.length cs) :: e,
           (h ++ cs) ++ [Coll (seq (List.length h) (List.length cs))])
| CS_append : forall e h x r l h1 lx ls,
    ceval r e h l h1 -> assoc x e = Some lx -> nth_error h1 lx = Some (Coll ls) ->
    cstep (e, h) (SAppend x r) (e, update h1 lx (Coll (ls ++ [l])))
| CS_setelem : forall e h x f r l h1 lx ls le fs,
    ceval r e h l h1 -> assoc x e = Some lx -> nth_error h1 lx = Some (Coll ls) -> In le ls ->
    nth_error h1 le = Some (Shell fs) ->
    cstep (e, h) (SSetElem x f r) (e, update h1 le (Shell ((f, l) :: fs)))
| CS_mutelem : forall e h x lx ls le c,
    assoc x e = Some lx -> nth_error h lx = Some (Coll ls) -> In le ls ->
    cstep (e, h) (SMutElem x) (e, update h le c).

Inductive cexec : env * heap -> list stmt -> env * heap -> Prop :=
| CX_nil : forall s, cexec s [] s
| CX_cons : forall s1 s2 s3 st p, cstep s1 st s2 -> cexec s2 p s3 -> cexec s1 (st :: p) s3.

(* ---------- the static check ---------- *)
Inductive aval := AOld | ANew (id : nat).

Record astate := { aenv : list (var * aval); afld : list (nat * (fld * aval)); anext : nat }.

Definition lookup_a (x : var) (a : astate) : aval :=
  match assoc x (aenv a) with Some v => v | None => AOld end.

Fixpoint lookup_f (id : nat) (f : fld) (l : list (nat * (fld * aval))) : aval :=
  match l with
  | [] => AOld
  | (i, (g, v)) :: l' => if Nat.eqb i id && Nat.eqb g f then v else lookup_f id f l'
  end.

Definition drop_facts (id : nat) (l : list (nat * (fld * aval))) :=
  filter (fun e => negb (Nat.eqb (fst e) id)) l.

Definition copy_facts (src dst : nat) (l : list (nat * (fld * aval))) :=
  map (fun e => (dst, snd e)) (filter (fun e => Nat.eqb (fst e) src) l).

(* value of a right-hand side, and the state after evaluating it (RNew consumes an id) *)
Definition aeval (r : rhs) (a : astate) : aval * astate :=
  match r with
  | RNew => (ANew (anext a), {| aenv := aenv a; afld := afld a; anext := S (anext a) |})
  | RField x f => (match lookup_a x a with ANew id => lookup_f id f (afld a) | AOld => AOld end, a)
  | RVar x => (lookup_a x a, a)
  | RAny => (AOld, a)
  end.

(* "the object id is a list all of whose elements were allocated by this call" is recorded as a fact
   on the reserved field 0 (which SSet therefore refuses) *)
Definition coll_fld : fld := 0.
Definition is_coll (id : nat) (a : astate) : bool :=
  match lookup_f id coll_fld (afld a) with ANew _ => true | AOld => false end.
Definition coll_facts (l : list (nat * (fld * aval))) :=
  filter (fun e => Nat.eqb (fst (snd e)) coll_fld) l.

Definition astep (a : astate) (s : stmt) : option astate :=
  match s with
  | SCopy dst src =>
      let n := anext a in
      let facts := match lookup_a src a with ANew ids => copy_facts ids n (afld a) | AOld => [] end in
      Some {| aenv := (dst, ANew n) :: aenv a; afld := facts ++ afld a; anext := S n |}
  | SSet x f r =>
      match lookup_a x a with
      | ANew id => if Nat.eqb f coll_fld then None else
                   let (v, a1) := aeval r a in
                   Some {| aenv := aenv a1; afld := (id, (f, v)) :: afld a1; anext := anext a1 |}
      | AOld => None
      end
  | SMutF x f =>
      match lookup_a x a with
      | ANew id => match lookup_f id f (afld a) with
                   | ANew id' => Some {| aenv := aenv a; afld := drop_facts id' (afld a); anext := anext a |}
                   | AOld => None
                   end
      | AOld => None
      end
  | SMutV x =>
      match lookup_a x a with
      | ANew id => Some {| aenv := aenv a; afld := drop_facts id (afld a); anext := anext a |}
      | AOld => None
      end
  | SLet x r => let (v, a1) := aeval r a in
                Some {| aenv := (x, v) :: aenv a1; afld := afld a1; anext := anext a1 |}
  | SLetCopies x =>
      let n := anext a in
      Some {| aenv := (x, ANew n) :: aenv a; afld := (n, (coll_fld, ANew n)) :: afld a; anext := S n |}
  | SAppend x r =>
      match lookup_a x a with
      | ANew id => if is_coll id a then
                     let (v, a1) := aeval r a in
                     match v with ANew _ => Some a1 | AOld => None end
                   else None
      | AOld => None
      end
  | SSetElem x f r =>
      match lookup_a x a with
      | ANew id => if is_coll id a then
                     let (v, a1) := aeval r a in
                     Some {| aenv := aenv a1; afld := coll_facts (afld a1); anext := anext a1 |}
                   else None
      | AOld => None
      end
  | SMutElem x =>
      match lookup_a x a with
      | ANew id => if is_coll id a then Some {| aenv := aenv a; afld := []; anext := anext a |} else None
      | AOld => None
      end
  end.

Fixpoint safe_from (a : astate) (p : list stmt) : bool :=
  match p with
  | [] => true
  | s :: p' => match astep a s with Some a' => safe_from a' p' | None => false end
  end.

Definition init_astate : astate := {| aenv := []; afld := []; anext := 0 |}.
Definition safe_path (p : list stmt) : bool := safe_from init_astate p.
