(* Model/SqlCompileCheck.v — executable comparison of the transcribed compile_ast (Model/SqlCompile.v)
   with the Query record, the labels and the scope that the real SqlImpl.compile_ast / Cache produce
   for the same AST (L3 correspondence).  Definitions only. *)
From Coq Require Import List String NArith ZArith Bool.
From PDT Require Import Model.Dtype Model.Value Model.Ops Model.Expr Model.RefSem Model.SqlCompile.
From PDTGen Require Import Catalogue.
Import ListNotations.

Fixpoint list_eqb2 {X} (eq : X -> X -> bool) (a b : list X) : bool :=
  match a, b with
  | [], [] => true
  | x :: a', y :: b' => eq x y && list_eqb2 eq a' b'
  | _, _ => false
  end.

Definition omark_eqb (a b : omark) : bool :=
  Bool.eqb (fst a) (fst b) &&
  match snd a, snd b with
  | None, None => true
  | Some x, Some y => Bool.eqb x y
  | _, _ => false
  end.

Fixpoint expr_eqb (a b : expr) {struct a} : bool :=
  match a, b with
  | ECol u, ECol v => N.eqb u v
  | ELit x, ELit y => value_eqb x y
  | ECast e t, ECast e' t' => expr_eqb e e' && dtype_eqb t t'
  | ECase cs d, ECase cs' d' =>
      (fix go (l : list (expr * expr)) (l' : list (expr * expr)) : bool :=
         match l, l' with
         | [], [] => true
         | (c, v) :: r, (c', v') :: r' => expr_eqb c c' && expr_eqb v v' && go r r'
         | _, _ => false
         end) cs cs'
      && match d, d' with Some x, Some y => expr_eqb x y | None, None => true | _, _ => false end
  | EFn o args hp part arr, EFn o' args' hp' part' arr' =>
      opname_eqb o o' && Bool.eqb hp hp'
      && (fix go (l l' : list expr) : bool :=
            match l, l' with [], [] => true | x :: r, y :: r' => expr_eqb x y && go r r' | _, _ => false end) args args'
      && (fix go (l l' : list expr) : bool :=
            match l, l' with [], [] => true | x :: r, y :: r' => expr_eqb x y && go r r' | _, _ => false end) part part'
      && (fix go (l l' : list (expr * omark)) : bool :=
            match l, l' with
            | [], [] => true
            | (x, m) :: r, (y, m') :: r' => expr_eqb x y && omark_eqb m m' && go r r'
            | _, _ => false
            end) arr arr'
  | _, _ => false
  end.

Definition optZ_eqb (a b : option Z) : bool :=
  match a, b with Some x, Some y => Z.eqb x y | None, None => true | _, _ => false end.

(* plain alias() hands out new column identities; export compiles a clone in which an identity and the alias-new
   identities of the same column are merged.  The harness reports the clone's identities as the OUTERMOST original
   one; the model's uids are brought to the same form: every alias map of the tree is applied, inner ones first *)
Fixpoint alias_maps (a : ast) : list (list (uid * uid)) :=
  match a with
  | Source _ _ => []
  | Alias c (Some m) => alias_maps c ++ [m]
  | Select c _ | Rename c _ | Mutate c _ | Filter c _ | Arrange c _ | SliceHead c _ _
  | GroupBy c _ _ | Ungroup c | Summarize c _ | Alias c None | SubqueryMarker c => alias_maps c
  | Join l r _ _ | Union l r _ => alias_maps l ++ alias_maps r
  end.
Definition canon_uid (ms : list (list (uid * uid))) (u : uid) : uid := fold_left (fun x m => remap_uid m x) ms u.
Fixpoint canon_expr (f : uid -> uid) (e : expr) {struct e} : expr :=
  match e with
  | ECol u => ECol (f u)
  | ELit v => ELit v
  | ECast e' t => ECast (canon_expr f e') t
  | ECase cs d =>
      ECase ((fix go (l : list (expr * expr)) : list (expr * expr) :=
                match l with [] => [] | (c, v) :: r => (canon_expr f c, canon_expr f v) :: go r end) cs)
            (match d with Some x => Some (canon_expr f x) | None => None end)
  | EFn o args hp part arr =>
      EFn o ((fix go (l : list expr) : list expr := match l with [] => [] | x :: r => canon_expr f x :: go r end) args) hp
          ((fix go (l : list expr) : list expr := match l with [] => [] | x :: r => canon_expr f x :: go r end) part)
          ((fix go (l : list (expr * omark)) : list (expr * omark) :=
              match l with [] => [] | (x, m) :: r => (canon_expr f x, m) :: go r end) arr)
  end.
Definition canon_query (f : uid -> uid) (q : query) : query :=
  {| q_select := map f (q_select q); q_part := map f (q_part q); q_group := map f (q_group q);
     q_where := map (canon_expr f) (q_where q); q_having := map (canon_expr f) (q_having q);
     q_order := map (fun o => (canon_expr f (fst o), snd o)) (q_order q);
     q_limit := q_limit q; q_offset := q_offset q; q_summ := q_summ q |}.

(* codes of the Query fields that differ: 1 select, 2 partition_by, 3 group_by, 4 where, 5 having,
   6 order_by, 7 limit, 8 offset, 9 is_summarized *)
Definition query_diff (m r : query) : list nat :=
  (if list_eqb2 N.eqb (q_select m) (q_select r) then [] else [1%nat]) ++
  (if list_eqb2 N.eqb (q_part m) (q_part r) then [] else [2%nat]) ++
  (if list_eqb2 N.eqb (q_group m) (q_group r) then [] else [3%nat]) ++
  (if list_eqb2 expr_eqb (q_where m) (q_where r) then [] else [4%nat]) ++
  (if list_eqb2 expr_eqb (q_having m) (q_having r) then [] else [5%nat]) ++
  (if list_eqb2 (fun a b => expr_eqb (fst a) (fst b) && omark_eqb (snd a) (snd b)) (q_order m) (q_order r) then [] else [6%nat]) ++
  (if optZ_eqb (q_limit m) (q_limit r) then [] else [7%nat]) ++
  (if Z.eqb (q_offset m) (q_offset r) || (match q_limit m with None => true | Some _ => false end) then [] else [8%nat]) ++
  (if Bool.eqb (q_summ m) (q_summ r) then [] else [9%nat]).

Definition subset_u (a b : list uid) : bool := forallb (fun x => mem_u x b) a.

(* 10: a selected column's label differs; 11: the scope (Cache.cols) differs as a set *)
Definition compiled_diff (f : uid -> uid) (c : compiled) (rq : query) (rlabels : list (uid * string)) (rscope : list uid) : list nat :=
  query_diff (canon_query f (c_q c)) rq ++
  (if forallb (fun u => String.eqb (label (c_labels c) u) (label rlabels u)) (q_select (c_q c)) then [] else [10%nat]) ++
  (if subset_u (c_scope c) rscope && subset_u rscope (c_scope c) then [] else [11%nat]).

(* the select lists that the real compile_ast hands to sqlalchemy.union / union_all, two per union: the left
   list is the left operand's select list (possibly pruned to the columns needed later when the operand is
   a subquery) and the right list is the left list's column NAMES looked up among the right operand's
   visible columns *)
Fixpoint subseq_p (a b : list (uid * uid)) : bool :=
  match a, b with
  | [], _ => true
  | _ :: _, [] => false
  | x :: a', y :: b' => if N.eqb (fst x) (fst y) && N.eqb (snd x) (snd y) then subseq_p a' b' else subseq_p a b'
  end.
(* every (left column, right column) pair that the real union stacks is a pair the model stacks, in order *)
Fixpoint unions_ok (f : uid -> uid) (info : list (compiled * compiled)) (rlog : list (list uid)) : bool :=
  match info, rlog with
  | [], [] => true
  | (cl, cr) :: info', rl :: rr :: rlog' =>
      Nat.eqb (List.length rl) (List.length rr)
      && match union_right_select cl cr with
         | Some rsel => subseq_p (combine rl rr) (combine (map f (q_select (c_q cl))) (map f rsel))
         | None => false
         end
      && unions_ok f info' rlog'
  | _, _ => false
  end.

(* outcome for one real AST: (in the model's domain?, differences, satisfies flat_ok?)
   12: the select lists of the operands of the unions differ *)
Definition l3_check (a : ast) (rq : query) (rlabels : list (uid * string)) (rscope : list uid)
           (rlog : list (list uid)) : nat * list nat * nat :=
  match compile a with
  | Some c => (1%nat,
               (compiled_diff (canon_uid (alias_maps a)) c rq rlabels rscope
                ++ (if unions_ok (canon_uid (alias_maps a)) (union_info a) rlog then [] else [12%nat]))%list,
               if flat_ok a then 1%nat else 0%nat)
  | None => (0%nat, [], 0%nat)
  end.
