(* Model/Dtype.v — data types of pydiverse.transform (tree/types.py + pydiverse.common.dtypes).
   Definitions only.  Equality is structural, which is what the Python __eq__/__hash__ pairs
   amount to wherever the code uses them (DESIGN 3.8). *)
From Coq Require Import List String NArith ZArith Bool.
Import ListNotations.
Open Scope string_scope.

Inductive simple :=
| SInt | SInt8 | SInt16 | SInt32 | SInt64 | SUInt8 | SUInt16 | SUInt32 | SUInt64
| SFloat | SFloat32 | SFloat64
| SBool | SDate | SDatetime | STime | SDuration | SNull.

Inductive dtype :=
| TS (s : simple)
| TDec (p s : N)                      (* Decimal(precision, scale); Decimal() = Decimal(31,11) *)
| TStr (ml : option N)                (* String(max_length) *)
| TEnum (cats : list string)
| TList (t : dtype)
| TConst (t : dtype)
| TVar (n : string).

Definition simple_eqb (a b : simple) : bool :=
  match a, b with
  | SInt, SInt | SInt8, SInt8 | SInt16, SInt16 | SInt32, SInt32 | SInt64, SInt64
  | SUInt8, SUInt8 | SUInt16, SUInt16 | SUInt32, SUInt32 | SUInt64, SUInt64
  | SFloat, SFloat | SFloat32, SFloat32 | SFloat64, SFloat64
  | SBool, SBool | SDate, SDate | SDatetime, SDatetime | STime, STime
  | SDuration, SDuration | SNull, SNull => true
  | _, _ => false
  end.

Definition optN_eqb (a b : option N) : bool :=
  match a, b with
  | None, None => true
  | Some x, Some y => N.eqb x y
  | _, _ => false
  end.

Fixpoint strs_eqb (a b : list string) : bool :=
  match a, b with
  | [], [] => true
  | x :: a', y :: b' => String.eqb x y && strs_eqb a' b'
  | _, _ => false
  end.

Fixpoint dtype_eqb (a b : dtype) : bool :=
  match a, b with
  | TS x, TS y => simple_eqb x y
  | TDec p s, TDec p' s' => N.eqb p p' && N.eqb s s'
  | TStr m, TStr m' => optN_eqb m m'
  | TEnum c, TEnum c' => strs_eqb c c'
  | TList t, TList t' => dtype_eqb t t'
  | TConst t, TConst t' => dtype_eqb t t'
  | TVar n, TVar n' => String.eqb n n'
  | _, _ => false
  end.

Definition TDecimalDefault : dtype := TDec 31 11.   (* precision or 31, scale or p//3+1 *)

Definition is_const (t : dtype) : bool := match t with TConst _ => true | _ => false end.
(* Const(Const(_)) cannot be constructed (Const.__init__ raises TypeError), so stripping every layer
   is the same function on all constructible types *)
Fixpoint without_const (t : dtype) : dtype := match t with TConst b => without_const b | _ => t end.
Definition with_const (t : dtype) : dtype := match t with TConst _ => t | _ => TConst t end.
Definition is_tyvar (t : dtype) : bool := match t with TVar _ => true | _ => false end.
Definition var_name (t : dtype) : string :=
  match without_const t with TVar n => n | _ => "" end.

Definition simple_is_int (s : simple) : bool :=
  match s with
  | SInt | SInt8 | SInt16 | SInt32 | SInt64 | SUInt8 | SUInt16 | SUInt32 | SUInt64 => true
  | _ => false end.
Definition simple_is_float (s : simple) : bool :=
  match s with SFloat | SFloat32 | SFloat64 => true | _ => false end.

(* Dtype.is_int / is_float (classmethods; Const delegates to its base; Decimal is a Float) *)
Fixpoint is_int (t : dtype) : bool :=
  match t with TS s => simple_is_int s | TConst b => is_int b | _ => false end.
Fixpoint is_float (t : dtype) : bool :=
  match t with TS s => simple_is_float s | TDec _ _ => true | TConst b => is_float b | _ => false end.

(* "family" used by the uniformity statements of C13: generic numeric kind of a type *)
Inductive family := FamInt | FamFloat | FamOther.
Definition family_of (t : dtype) : family :=
  if is_int t then FamInt else if is_float t then FamFloat else FamOther.
Definition family_eqb (a b : family) : bool :=
  match a, b with FamInt, FamInt | FamFloat, FamFloat | FamOther, FamOther => true | _, _ => false end.

(* max_length of String / Enum *)
Fixpoint max_len (cats : list string) : option N :=
  match cats with
  | [] => None
  | c :: cs => let l := N.of_nat (String.length c) in
               match max_len cs with None => Some l | Some m => Some (N.max l m) end
  end.
Definition str_max_length (t : dtype) : option N :=
  match t with TStr ml => ml | TEnum cats => max_len cats | _ => None end.

Inductive ftype := ElementWise | Aggregate | Window.
Definition ftype_eqb (a b : ftype) : bool :=
  match a, b with
  | ElementWise, ElementWise | Aggregate, Aggregate | Window, Window => true
  | _, _ => false end.

Record signature := { sig_params : list dtype; sig_vararg : bool; sig_ret : dtype }.

(* the type a column has after export(Polars()) and re-import with Table(frame): generic Int / Float
   are stored as Int64 / Float64, String loses its max_length, const is a compile-time notion *)
Fixpoint storage_type (t : dtype) : dtype :=
  match t with
  | TS SInt => TS SInt64
  | TS SFloat => TS SFloat64
  | TStr _ => TStr None
  | TList b => TList (storage_type b)
  | TConst b => storage_type b
  | _ => t
  end.
