(* Model/SqlText.v — the fragment of SQL text that matters for literal safety (DESIGN 3.10): the string
   literal renderer used with literal_binds, a reader for string literals, and LIKE with an escape
   character together with SQLAlchemy's autoescape.  Definitions only. *)
From Coq Require Import List String Ascii Bool.
Import ListNotations.
Open Scope string_scope.

Definition sq : ascii := "'"%char.

(* rendering of a Python str as a SQL string literal: every quote doubled, wrapped in quotes *)
Fixpoint double_quotes (s : string) : string :=
  match s with
  | EmptyString => EmptyString
  | String c s' => if Ascii.eqb c sq then String sq (String sq (double_quotes s')) else String c (double_quotes s')
  end.
Definition quote (s : string) : string := String sq (double_quotes s ++ String sq EmptyString).

(* reading a string literal that starts at the first character: content and remaining text *)
Fixpoint read_body (s : string) : option (string * string) :=
  match s with
  | EmptyString => None                                   (* unterminated *)
  | String c s' =>
      if Ascii.eqb c sq then
        match s' with
        | String c' s'' => if Ascii.eqb c' sq
                           then option_map (fun p => (String sq (fst p), snd p)) (read_body s'')
                           else Some (EmptyString, s')
        | EmptyString => Some (EmptyString, EmptyString)
        end
      else option_map (fun p => (String c (fst p), snd p)) (read_body s')
  end.
Definition read_literal (s : string) : option (string * string) :=
  match s with
  | String c s' => if Ascii.eqb c sq then read_body s' else None
  | EmptyString => None
  end.

(* ---------- LIKE ---------- *)
Inductive ltok := LChar (c : ascii) | LAny | LOne.        (* literal character, %, _ *)

Definition pct : ascii := "%"%char.
Definition und : ascii := "_"%char.

(* pattern text -> tokens, with escape character e (an escape followed by any character is that
   character taken literally) *)
Fixpoint parse_like (e : ascii) (p : string) : list ltok :=
  match p with
  | EmptyString => []
  | String c p' =>
      if Ascii.eqb c e then
        match p' with
        | String c' p'' => LChar c' :: parse_like e p''
        | EmptyString => []
        end
      else if Ascii.eqb c pct then LAny :: parse_like e p'
      else if Ascii.eqb c und then LOne :: parse_like e p'
      else LChar c :: parse_like e p'
  end.

Fixpoint match_toks (ts : list ltok) (x : string) {struct ts} : bool :=
  match ts with
  | [] => match x with EmptyString => true | _ => false end
  | LChar c :: ts' => match x with String d x' => Ascii.eqb c d && match_toks ts' x' | EmptyString => false end
  | LOne :: ts' => match x with String _ x' => match_toks ts' x' | EmptyString => false end
  | LAny :: ts' =>
      (fix skip (y : string) : bool :=
         match_toks ts' y || match y with String _ y' => skip y' | EmptyString => false end) x
  end.

Definition like (p : string) (e : ascii) (x : string) : bool := match_toks (parse_like e p) x.

(* SQLAlchemy's autoescape: the escape character and the two wildcards are prefixed by the escape *)
Fixpoint autoescape (e : ascii) (s : string) : string :=
  match s with
  | EmptyString => EmptyString
  | String c s' =>
      if Ascii.eqb c e || Ascii.eqb c pct || Ascii.eqb c und
      then String e (String c (autoescape e s')) else String c (autoescape e s')
  end.

Definition esc : ascii := "/"%char.

Fixpoint is_prefix (p s : string) : bool :=
  match p, s with
  | EmptyString, _ => true
  | String a p', String b s' => Ascii.eqb a b && is_prefix p' s'
  | _, EmptyString => false
  end.
Fixpoint contains (p s : string) : bool :=
  is_prefix p s || match s with EmptyString => false | String _ s' => contains p s' end.
Fixpoint is_suffix_of (p s : string) : bool :=
  String.eqb p s || match s with EmptyString => false | String _ s' => is_suffix_of p s' end.
