(* Model/Lca.v — types.lca_type INCLUDING List types (tree/types.py lca_type): a List type anywhere among the
   non-null arguments requires every argument to be a List (DataTypeError otherwise) and the result is the List of
   the element types' least common ancestor, recursively; everything else is Typing.lca_type.  The recursion is on
   explicit fuel (nesting depth); running out of fuel is an error value that the theorems exclude.  Definitions only. *)
From Coq Require Import List String NArith ZArith Bool.
From PDT Require Import Model.Dtype Model.Conv Model.Typing Model.Universe.
Import ListNotations.
Open Scope list_scope.

Definition is_list (t : dtype) : bool := match t with TList _ => true | _ => false end.
Definition list_inner (t : dtype) : dtype := match t with TList a => a | _ => t end.

Fixpoint lca_l (fuel : nat) (ts : list dtype) : tres dtype :=
  let ts' := filter (fun t => negb (is_nulltype t)) (map without_const ts) in
  if existsb is_list ts' then
    if forallb is_list ts' then
      match fuel with
      | O => TErr EInternalT
      | S f => tbind (lca_l f (map list_inner ts')) (fun t => TOk (TList t))
      end
    else TErr EDataType
  else lca_type ts.

(* nesting depth of a type: fuel [S (depth)] always suffices *)
Fixpoint depth (t : dtype) : nat :=
  match t with TList a => S (depth a) | TConst a => depth a | _ => O end.

(* the universe of the lca correspondence and of the finite theorems: scalars, lists and lists of lists *)
Definition LB : list dtype :=
  [TS SInt8; TS SUInt8; TS SInt16; TS SInt64; TS SInt; TS SFloat32; TS SFloat64; TS SFloat;
   TDec 10 2; TDec 31 11; TStr None; TStr (Some 5%N); TStr (Some 20%N); TEnum ["a"%string; "bcd"%string];
   TS SBool; TS SDate; TS SDatetime; TS SNull].
Definition LB2 : list dtype :=
  [TS SUInt8; TS SInt16; TS SInt64; TS SFloat64; TStr (Some 5%N); TStr (Some 20%N); TDec 10 2; TS SNull].
Definition LU : list dtype :=
  LB ++ map TList LB ++ map (fun t => TList (TList t)) LB2
     ++ [TConst (TS SInt8); TConst (TList (TS SInt64)); TConst (TList (TList (TS SUInt8))); TConst (TStr (Some 5%N))].

Definition tres_dtype_eqb (a b : tres dtype) : bool :=
  match a, b with
  | TOk x, TOk y => dtype_eqb x y
  | TErr EDataType, TErr EDataType => true
  | TErr EFunctionType, TErr EFunctionType => true
  | TErr EColumnNotFound, TErr EColumnNotFound => true
  | TErr EInternalT, TErr EInternalT => true
  | _, _ => false
  end.
Definition not_internal (r : tres dtype) : bool := match r with TErr EInternalT => false | _ => true end.
