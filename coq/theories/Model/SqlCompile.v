(* Model/SqlCompile.v — transcription of SqlImpl.compile_ast (backend/sql.py) for single-source
   pipelines, and the meaning of the SELECT statement it produces.  Definitions only.
   compile_ast keeps three things: the FROM table, a Query record (select list, partition_by, group_by,
   where, having, order_by, limit, offset, is_summarized) and sqa_expr: uid -> labelled expression over
   the FROM columns.  A mutate / summarize compiles its expressions with the current sqa_expr, i.e. it
   INLINES the definitions of the columns it mentions (subst). *)
From Coq Require Import List String NArith ZArith Bool.
From PDT Require Import Base.StableSort Model.Dtype Model.Value Model.Ops Model.Expr Model.RefSem.
From PDTGen Require Import Catalogue.
Import ListNotations.
Open Scope Z_scope.
Open Scope list_scope.

Record query := {
  q_select : list uid;
  q_part : list uid;                 (* partition_by: the grouping state of the table *)
  q_group : list uid;                (* GROUP BY *)
  q_where : list expr;               (* as written in the verbs: compiled with the final sqa_expr *)
  q_having : list expr;
  q_order : list (expr * omark);
  q_limit : option Z;
  q_offset : Z;
  q_summ : bool
}.

(* sqa_expr: uid -> label, uid -> expression over the FROM columns (kept apart: rename only relabels) *)
Definition sdefs := list (uid * expr).
Definition slabels := list (uid * string).

(* FROM: a database table, or the rows of a compound (UNION) / a join of operands compiled before *)
Inductive from_ := FTable (t : string) | FRows (f : db -> list row).

Record compiled := {
  c_from : from_; c_cols : list uid; c_q : query;
  c_labels : slabels; c_defs : sdefs;
  c_scope : list uid        (* the columns that can be referenced (Cache.cols): not used by compile_ast itself *)
}.

Definition label (ls : slabels) (u : uid) : string :=
  match assoc_u u ls with Some n => n | None => EmptyString end.
Definition def_of (ds : sdefs) (u : uid) : expr :=
  match assoc_u u ds with Some e => e | None => ELit VNull end.

(* compile_col_expr on a Col leaf looks the column up in sqa_expr *)
Fixpoint subst (ds : sdefs) (e : expr) : expr :=
  match e with
  | ECol u => def_of ds u
  | ELit v => ELit v
  | ECast e' t => ECast (subst ds e') t
  | ECase cs d =>
      ECase (map (fun ce => (subst ds (fst ce), subst ds (snd ce))) cs)
            (match d with Some x => Some (subst ds x) | None => None end)
  | EFn o args hp part arr =>
      EFn o (map (subst ds) args) hp (map (subst ds) part) (map (fun ka => (subst ds (fst ka), snd ka)) arr)
  end.

Definition set_select (q : query) (s : list uid) : query :=
  {| q_select := s; q_part := q_part q; q_group := q_group q; q_where := q_where q; q_having := q_having q;
     q_order := q_order q; q_limit := q_limit q; q_offset := q_offset q; q_summ := q_summ q |}.
Definition set_part (q : query) (p : list uid) : query :=
  {| q_select := q_select q; q_part := p; q_group := q_group q; q_where := q_where q; q_having := q_having q;
     q_order := q_order q; q_limit := q_limit q; q_offset := q_offset q; q_summ := q_summ q |}.

Definition q0 (us : list uid) : query :=
  {| q_select := us; q_part := []; q_group := []; q_where := []; q_having := []; q_order := [];
     q_limit := None; q_offset := 0; q_summ := false |}.

Definition new_defs (ds : sdefs) (defs : list def) : sdefs :=
  map (fun d => (snd (fst d), subst ds (snd d))) defs.
Definition new_labels (defs : list def) : slabels := map (fun d => (snd (fst d), fst (fst d))) defs.
Definition def_names (defs : list def) : list string := map (fun d => fst (fst d)) defs.
Definition def_uids (defs : list def) : list uid := map (fun d => snd (fst d)) defs.

Definition with_q (c : compiled) (q : query) : compiled :=
  {| c_from := c_from c; c_cols := c_cols c; c_q := q; c_labels := c_labels c; c_defs := c_defs c;
     c_scope := c_scope c |}.

(* ---------- the meaning of the SELECT ----------
   A "unit" is what one output row is computed from: for a summarized query a group of FROM rows
   (aggregates range over the group, other columns are read from its first row), otherwise one FROM
   row together with all FROM rows that pass WHERE (what a window function ranges over).  Expressions
   are evaluated with Model/Expr.eval: ctx = the group / the rows passing WHERE, cur = the row. *)
Definition unit_ := (list irow * irow)%type.

Definition ev (ds : sdefs) (u : unit_) (e : expr) : value := eval (fst u) (snd u) (subst ds e).
Definition evd (ds : sdefs) (u : unit_) (x : uid) : value := eval (fst u) (snd u) (def_of ds x).
Definition all_true (ds : sdefs) (ps : list expr) (u : unit_) : bool :=
  forallb (fun p => value_eqb (ev ds u p) (VBool true)) ps.

Definition base_rows (d : db) (c : compiled) : list row :=
  match c_from c with FTable t => map (zip_row (c_cols c)) (db_get d t) | FRows f => f d end.

Definition mk1 (r : row) : unit_ := ([], (O, r)).
Definition mkg (kg : list value * list row) : unit_ :=
  let ctx := index_rows (snd kg) in (ctx, match ctx with ir :: _ => ir | [] => (O, []) end).

Definition units_of (base : list row) (ds : sdefs) (wh hv : list expr) (grp : list uid) (summ : bool) : list unit_ :=
  let w := filter (fun r => all_true ds wh (mk1 r)) base in
  let us0 :=
      if summ then
        map mkg (match grp with
                 | [] => [([], w)]
                 | g => group_rows (fun r => map (fun x => evd ds (mk1 r) x) g) w []
                 end)
      else let iw := index_rows w in map (fun ir => (iw, ir)) iw in      (* window functions range over all rows that pass WHERE *)
  filter (all_true ds hv) us0.

Definition units (d : db) (c : compiled) : list unit_ :=
  let q := c_q c in units_of (base_rows d c) (c_defs c) (q_where q) (q_having q) (q_group q) (q_summ q).

Definition le_keys (ms : list omark) (a b : list value * unit_) : bool :=
  match cmp_keys ms (fst a) (fst b) with Gt => false | _ => true end.

Definition order_units (ds : sdefs) (os : list (expr * omark)) (us : list unit_) : list unit_ :=
  match os with
  | [] => us
  | _ => map snd (ssort (le_keys (map snd os)) (map (fun u => (map (fun o => ev ds u (fst o)) os, u)) us))
  end.

Definition cut {X} (lim : option Z) (off : Z) (l : list X) : list X :=
  match lim with
  | None => l
  | Some n => firstn (Z.to_nat n) (skipn (Z.to_nat off) l)
  end.

Definition final_units (d : db) (c : compiled) : list unit_ :=
  let q := c_q c in cut (q_limit q) (q_offset q) (order_units (c_defs c) (q_order q) (units d c)).

Definition sem_query (d : db) (c : compiled) : frame :=
  let ds := c_defs c in
  {| f_names := map (label (c_labels c)) (q_select (c_q c));
     f_rows := map (fun u => map (evd ds u) (q_select (c_q c))) (final_units d c) |}.

(* ---------- compile_ast ---------- *)
Definition on_holds (ds : sdefs) (on : expr) (b : row) : bool :=
  value_eqb (eval [] (O, b) (subst ds on)) (VBool true).

(* UNION: both operands are compiled to complete SELECTs; the right select list is put into the order of
   the left column names (looked up by name among the right operand's visible columns); the compound
   becomes the FROM of a fresh query that selects the left operand's columns *)
Fixpoint dedup_vals (seen : list (list value)) (rs : list (list value)) : list (list value) :=
  match rs with
  | [] => []
  | r :: rs' => if existsb (values_eqb r) seen then dedup_vals seen rs' else r :: dedup_vals (r :: seen) rs'
  end.
Fixpoint map_opt {X Y} (f : X -> option Y) (l : list X) : option (list Y) :=
  match l with
  | [] => Some []
  | x :: l' => match f x, map_opt f l' with Some y, Some ys => Some (y :: ys) | _, _ => None end
  end.
Definition by_name (c : compiled) (n : string) : option uid :=
  find (fun u => String.eqb (label (c_labels c) u) n) (q_select (c_q c)).
Definition union_right_select (cl cr : compiled) : option (list uid) :=
  map_opt (by_name cr) (map (label (c_labels cl)) (q_select (c_q cl))).

Fixpoint compile (a : ast) : option compiled :=
  match a with
  | Source t cols =>
      Some {| c_from := FTable t; c_cols := map snd cols; c_q := q0 (map snd cols);
              c_labels := map (fun p => (snd p, fst p)) cols;
              c_defs := map (fun p => (snd p, ECol (snd p))) cols;
              c_scope := map snd cols |}
  | Select c us => match compile c with Some cc => Some (with_q cc (set_select (c_q cc) us)) | None => None end
  | Rename c m =>
      match compile c with
      | Some cc => Some {| c_from := c_from cc; c_cols := c_cols cc; c_q := c_q cc;
                           c_labels := map (fun ul => (fst ul, match assoc_s (snd ul) m with Some n => n | None => snd ul end))
                                           (c_labels cc);
                           c_defs := c_defs cc; c_scope := c_scope cc |}
      | None => None
      end
  | Mutate c defs =>
      match compile c with
      | Some cc =>
          let q := c_q cc in let ds := c_defs cc in
          let kept := filter (fun u => negb (mem_s (label (c_labels cc) u) (def_names defs))) (q_select q) in
          Some {| c_from := c_from cc; c_cols := c_cols cc;
                  c_q := set_select q (kept ++ def_uids defs);
                  c_labels := new_labels defs ++ c_labels cc;
                  c_defs := new_defs ds defs ++ ds;
                  c_scope := def_uids defs ++ c_scope cc |}
      | None => None
      end
  | Filter c ps =>
      match compile c with
      | Some cc =>
          let q := c_q cc in
          Some (with_q cc
            (if negb (match q_group q with [] => true | _ => false end) || q_summ q
             then {| q_select := q_select q; q_part := q_part q; q_group := q_group q; q_where := q_where q;
                     q_having := q_having q ++ ps; q_order := q_order q; q_limit := q_limit q;
                     q_offset := q_offset q; q_summ := q_summ q |}
             else {| q_select := q_select q; q_part := q_part q; q_group := q_group q; q_where := q_where q ++ ps;
                     q_having := q_having q; q_order := q_order q; q_limit := q_limit q;
                     q_offset := q_offset q; q_summ := q_summ q |}))
      | None => None
      end
  | Arrange c os =>
      match compile c with
      | Some cc =>
          let q := c_q cc in
          Some (with_q cc {| q_select := q_select q; q_part := q_part q; q_group := q_group q; q_where := q_where q;
                             q_having := q_having q; q_order := os ++ q_order q; q_limit := q_limit q;
                             q_offset := q_offset q; q_summ := q_summ q |})
      | None => None
      end
  | Summarize c defs =>
      match compile c with
      | Some cc =>
          let q := c_q cc in let ds := c_defs cc in
          Some {| c_from := c_from cc; c_cols := c_cols cc;
                  c_q := {| q_select := q_part q ++ def_uids defs; q_part := []; q_group := q_group q ++ q_part q;
                            q_where := q_where q; q_having := q_having q; q_order := []; q_limit := q_limit q;
                            q_offset := q_offset q; q_summ := true |};
                  c_labels := new_labels defs ++ c_labels cc;
                  c_defs := new_defs ds defs ++ ds;
                  c_scope := def_uids defs
                             ++ filter (fun u => negb (mem_s (label (c_labels cc) u) (def_names defs))) (q_part q) |}
      | None => None
      end
  | SliceHead c n k =>
      match compile c with
      | Some cc =>
          let q := c_q cc in
          let lo := match q_limit q with
                    | None => (Some n, k)
                    | Some l => (Some (Z.min (Z.max (l - k) 0) n), q_offset q + k)
                    end in
          Some (with_q cc {| q_select := q_select q; q_part := q_part q; q_group := q_group q; q_where := q_where q;
                             q_having := q_having q; q_order := q_order q; q_limit := fst lo;
                             q_offset := snd lo; q_summ := q_summ q |})
      | None => None
      end
  | GroupBy c us add =>
      match compile c with
      | Some cc => Some (with_q cc (set_part (c_q cc) (if add then q_part (c_q cc) ++ us else us)))
      | None => None
      end
  | Ungroup c => match compile c with Some cc => Some (with_q cc (set_part (c_q cc) [])) | None => None end
  | Alias c None => compile c
  | Union l r distinct =>
      match compile l, compile r with
      | Some cl, Some cr =>
          let lsel := q_select (c_q cl) in
          match union_right_select cl cr with
          | Some rsel =>
              let cr' := with_q cr (set_select (c_q cr) rsel) in
              Some {| c_from := FRows (fun d =>
                                  let all := f_rows (sem_query d cl) ++ f_rows (sem_query d cr') in
                                  map (zip_row lsel) (if distinct then dedup_vals [] all else all));
                      c_cols := lsel; c_q := q0 lsel;
                      c_labels := map (fun u => (u, label (c_labels cl) u)) lsel;
                      c_defs := map (fun u => (u, ECol u)) lsel;
                      c_scope := lsel |}
          | None => None             (* ValueError: a left column name is missing on the right *)
          end
      | _, _ => None
      end
  | Join l r on JInner =>
      (* table.join(right_table, onclause): the ON clause is compiled with the definitions of both operands
         inlined; the WHERE predicates of the right operand are appended to the left ones; everything else
         of the right query (it has no grouping; order / limit need a subquery) is dropped *)
      match compile l, compile r with
      | Some cl, Some cr =>
          let ds := c_defs cr ++ c_defs cl in                (* sqa_expr.update(right_sqa_expr) *)
          let q := c_q cl in
          Some {| c_from := FRows (fun d =>
                              flat_map (fun bl => map (fun br => (bl ++ br)%list)
                                                      (filter (fun br => on_holds ds on (bl ++ br)%list) (base_rows d cr)))
                                       (base_rows d cl));
                  c_cols := c_cols cl ++ c_cols cr;
                  c_q := {| q_select := q_select q ++ q_select (c_q cr); q_part := q_part q; q_group := q_group q;
                            q_where := q_where q ++ q_where (c_q cr); q_having := q_having q;
                            q_order := q_order q; q_limit := q_limit q; q_offset := q_offset q;
                            q_summ := q_summ q |};
                  c_labels := c_labels cr ++ c_labels cl;
                  c_defs := ds;
                  c_scope := c_scope cl ++ c_scope cr |}
      | _, _ => None
      end
  | Join l r on JLeft =>
      (* LEFT OUTER JOIN: the WHERE predicates of the right operand go into the ON clause (compiled with the
         right operand's definitions); a left row without partner appears once, its right columns read NULL *)
      match compile l, compile r with
      | Some cl, Some cr =>
          let ds := c_defs cr ++ c_defs cl in
          let q := c_q cl in
          Some {| c_from := FRows (fun d =>
                              flat_map (fun bl =>
                                          match filter (fun br => on_holds ds on (bl ++ br)%list
                                                                  && all_true (c_defs cr) (q_where (c_q cr)) (mk1 (bl ++ br)%list))
                                                       (base_rows d cr) with
                                          | [] => [bl]
                                          | ms => map (fun br => (bl ++ br)%list) ms
                                          end)
                                       (base_rows d cl));
                  c_cols := c_cols cl ++ c_cols cr;
                  c_q := {| q_select := q_select q ++ q_select (c_q cr); q_part := q_part q; q_group := q_group q;
                            q_where := q_where q; q_having := q_having q;
                            q_order := q_order q; q_limit := q_limit q; q_offset := q_offset q;
                            q_summ := q_summ q |};
                  c_labels := c_labels cr ++ c_labels cl;
                  c_defs := ds;
                  c_scope := c_scope cl ++ c_scope cr |}
      | _, _ => None
      end
  | Join l r on JFull =>
      (* FULL OUTER JOIN: compile_ast asserts that neither operand carries a WHERE predicate; rows of either
         side without partner appear once, the other side's columns read NULL *)
      match compile l, compile r with
      | Some cl, Some cr =>
          match q_where (c_q cl), q_where (c_q cr) with
          | [], [] =>
              let ds := c_defs cr ++ c_defs cl in
              let q := c_q cl in
              Some {| c_from := FRows (fun d =>
                                  flat_map (fun bl =>
                                              match filter (fun br => on_holds ds on (bl ++ br)%list) (base_rows d cr) with
                                              | [] => [bl]
                                              | ms => map (fun br => (bl ++ br)%list) ms
                                              end)
                                           (base_rows d cl)
                                  ++ filter (fun br => negb (existsb (fun bl => on_holds ds on (bl ++ br)%list) (base_rows d cl)))
                                            (base_rows d cr));
                      c_cols := c_cols cl ++ c_cols cr;
                      c_q := {| q_select := q_select q ++ q_select (c_q cr); q_part := q_part q; q_group := q_group q;
                                q_where := []; q_having := q_having q;
                                q_order := q_order q; q_limit := q_limit q; q_offset := q_offset q;
                                q_summ := q_summ q |};
                      c_labels := c_labels cr ++ c_labels cl;
                      c_defs := ds;
                      c_scope := c_scope cl ++ c_scope cr |}
          | _, _ => None               (* AssertionError in compile_ast *)
          end
      | _, _ => None
      end
  | SubqueryMarker (Alias c0 (Some m)) =>
      (* alias() followed by a verb that needs a subquery: as below, and the columns of the outer query carry
         the identities that alias() handed out (the code re-numbers all identities when the tree is cloned
         for export; the model renames the columns of the subquery) *)
      match compile c0 with
      | Some cc =>
          let sc := c_scope cc in
          let q := c_q cc in
          Some {| c_from := FRows (fun d => map (fun u => map (fun x => (remap_uid m x, evd (c_defs cc) u x)) sc) (final_units d cc));
                  c_cols := map (remap_uid m) sc;
                  c_q := {| q_select := map (remap_uid m) (q_select q); q_part := map (remap_uid m) (q_part q);
                            q_group := []; q_where := []; q_having := [];
                            q_order := []; q_limit := None; q_offset := 0; q_summ := false |};
                  c_labels := map (fun ul => (remap_uid m (fst ul), snd ul)) (c_labels cc);
                  c_defs := map (fun x => (remap_uid m x, ECol (remap_uid m x))) sc;
                  c_scope := map (remap_uid m) sc |}
      | None => None
      end
  | SubqueryMarker c =>
      (* the query built so far becomes a subquery: every column in scope is selected in it (compile_ast
         selects the ones that are needed later - a subset with the same meaning), the outer query starts
         afresh over these columns and keeps the select list, the labels and the grouping state *)
      match compile c with
      | Some cc =>
          let sc := c_scope cc in
          let q := c_q cc in
          Some {| c_from := FRows (fun d => map (fun u => map (fun x => (x, evd (c_defs cc) u x)) sc) (final_units d cc));
                  c_cols := sc;
                  c_q := {| q_select := q_select q; q_part := q_part q; q_group := []; q_where := []; q_having := [];
                            q_order := []; q_limit := None; q_offset := 0; q_summ := false |};
                  c_labels := c_labels cc;
                  c_defs := map (fun x => (x, ECol x)) sc;
                  c_scope := sc |}
      | None => None
      end
  | Alias c (Some m) =>
      (* plain alias(): compile_ast has no branch for it - the query is unchanged; the new identities denote
         the same columns (the code merges them with the old ones when it clones the tree for export; the model
         lets a new identity share the definition and the label of the old one) *)
      match compile c with
      | Some cc =>
          let q := c_q cc in
          Some {| c_from := c_from cc; c_cols := c_cols cc;
                  c_q := set_part (set_select q (map (remap_uid m) (q_select q))) (map (remap_uid m) (q_part q));
                  c_labels := map (fun on => (snd on, label (c_labels cc) (fst on))) m ++ c_labels cc;
                  c_defs := map (fun on => (snd on, def_of (c_defs cc) (fst on))) m ++ c_defs cc;
                  c_scope := map (remap_uid m) (c_scope cc) |}
      | None => None
      end
  end.


(* ---------- the fragment for which compile correctness is proved ---------- *)
Fixpoint elem (e : expr) : bool :=          (* no aggregate / window function anywhere *)
  match e with
  | ECol _ | ELit _ => true
  | ECast e' _ => elem e'
  | ECase cs d =>
      forallb (fun ce => elem (fst ce) && elem (snd ce)) cs && match d with Some x => elem x | None => true end
  | EFn o args _ _ _ => match op_kind o with KElem => forallb elem args | _ => false end
  end.

(* group-level expressions: element-wise combinations of columns and of aggregates (no partition_by,
   no arrange=) of element-wise arguments *)
Fixpoint agg1 (e : expr) : bool :=
  match e with
  | ECol _ | ELit _ => true
  | ECast e' _ => agg1 e'
  | ECase cs d =>
      forallb (fun ce => agg1 (fst ce) && agg1 (snd ce)) cs && match d with Some x => agg1 x | None => true end
  | EFn o args hp part arr =>
      match op_kind o with
      | KElem => forallb agg1 args
      | KAgg => negb hp && (match arr with [] => true | _ => false end) && forallb elem args
      | KWin => false
      end
  end.

(* the columns an expression mentions *)
Fixpoint cols (e : expr) : list uid :=
  match e with
  | ECol u => [u]
  | ELit _ => []
  | ECast e' _ => cols e'
  | ECase cs d => flat_map (fun ce => cols (fst ce) ++ cols (snd ce)) cs ++ match d with Some x => cols x | None => [] end
  | EFn _ args _ part arr => flat_map cols args ++ flat_map cols part ++ flat_map (fun ka => cols (fst ka)) arr
  end.
(* the columns read at group level (outside every aggregate) *)
Fixpoint gcols (e : expr) : list uid :=
  match e with
  | ECol u => [u]
  | ELit _ => []
  | ECast e' _ => gcols e'
  | ECase cs d => flat_map (fun ce => gcols (fst ce) ++ gcols (snd ce)) cs ++ match d with Some x => gcols x | None => [] end
  | EFn o args _ _ _ => match op_kind o with KElem => flat_map gcols args | _ => [] end
  end.
Definition scoped (sc : list uid) (e : expr) : bool := forallb (fun x => mem_u x sc) (cols e).
Fixpoint nodup_u (l : list uid) : bool :=
  match l with [] => true | x :: l' => negb (mem_u x l') && nodup_u l' end.
(* the uids a mutate / summarize introduces are new and pairwise different *)
Definition fresh (cc : compiled) (defs : list def) : bool :=
  nodup_u (def_uids defs) && forallb (fun u => negb (mem_u u (map fst (c_defs cc)))) (def_uids defs).

(* every definition in scope is element-wise (no window column anywhere, hidden ones included) *)
Definition ds_elem_b (ds : sdefs) : bool := forallb (fun d => elem (snd d)) ds.
(* window / aggregate function nodes in a mutate: once the definitions are inlined, their arguments,
   partition_by and arrange= expressions are element-wise (SQL has no nested window functions) *)
Fixpoint win_ok (ds : sdefs) (e : expr) : bool :=
  match e with
  | ECol _ | ELit _ => true
  | ECast e' _ => win_ok ds e'
  | ECase cs d =>
      forallb (fun ce => win_ok ds (fst ce) && win_ok ds (snd ce)) cs
      && match d with Some x => win_ok ds x | None => true end
  | EFn o args _ part arr =>
      match op_kind o with
      | KElem => forallb (win_ok ds) args
      | _ => forallb elem args && forallb elem part && forallb (fun ka => elem (fst ka)) arr
             && forallb (fun x => elem (def_of ds x))
                        (flat_map cols args ++ flat_map cols part ++ flat_map (fun ka => cols (fst ka)) arr)
      end
  end.

(* every uid a pipeline mentions as a column identity (the keys of its reference rows are among them) *)
Fixpoint ast_uids (a : ast) : list uid :=
  match a with
  | Source _ cols => map snd cols
  | Select c us | GroupBy c us _ => ast_uids c ++ us
  | Rename c _ | Filter c _ | Arrange c _ | SliceHead c _ _ | Ungroup c | SubqueryMarker c | Alias c None => ast_uids c
  | Mutate c defs | Summarize c defs => ast_uids c ++ def_uids defs
  | Alias c (Some m) => ast_uids c ++ map snd m
  | Join l r _ _ | Union l r _ => ast_uids l ++ ast_uids r
  end.
Definition disjointb (a b : list uid) : bool := forallb (fun x => negb (mem_u x b)) a.

Definition is_nil {X} (l : list X) : bool := match l with [] => true | _ => false end.
Definition no_limit (q : query) : bool := match q_limit q with None => true | Some _ => false end.

Fixpoint flat_ok (a : ast) : bool :=
  match a with
  | Source _ cols => nodup_u (map snd cols)
  | Select c us =>
      flat_ok c && match compile c with Some cc => forallb (fun u => mem_u u (q_select (c_q cc))) us | None => false end
  | Rename c _ | Ungroup c | Alias c None => flat_ok c
  | GroupBy c us _ =>
      flat_ok c && match compile c with
                   | Some cc => forallb (fun u => mem_u u (q_select (c_q cc))) us
                   | None => false end
  | Mutate c defs =>
      (* element-wise definitions anywhere; window / aggregate functions (over the rows that pass WHERE)
         while the query is neither summarized, ordered nor limited *)
      flat_ok c
      && match compile c with
         | Some cc =>
             fresh cc defs && forallb (fun d => scoped (c_scope cc) (snd d)) defs
             && (forallb (fun d => elem (snd d)) defs
                 || (negb (q_summ (c_q cc)) && no_limit (c_q cc) && is_nil (q_order (c_q cc))
                     && forallb (fun d => win_ok (c_defs cc) (snd d)) defs))
         | None => false end
  | Filter c ps =>
      (* WHERE is applied before window functions: no window column may be in scope *)
      flat_ok c && forallb elem ps
      && match compile c with
         | Some cc => no_limit (c_q cc) && is_nil (q_order (c_q cc)) && forallb (scoped (c_scope cc)) ps
                      && (q_summ (c_q cc) || ds_elem_b (c_defs cc))
         | None => false end
  | Arrange c os =>
      flat_ok c && forallb (fun o => elem (fst o)) os && negb (is_nil os)
      && match compile c with
         | Some cc => no_limit (c_q cc) && is_nil (q_order (c_q cc)) && forallb (fun o => scoped (c_scope cc) (fst o)) os
         | None => false end
  | Summarize c defs =>
      flat_ok c && forallb (fun d => agg1 (snd d)) defs
      && match compile c with
         | Some cc =>
             let q := c_q cc in
             no_limit q && is_nil (q_order q) && negb (q_summ q) && ds_elem_b (c_defs cc)
             && fresh cc defs && forallb (fun d => scoped (c_scope cc) (snd d)) defs
             && forallb (fun d => forallb (fun x => mem_u x (q_part q)) (gcols (snd d))) defs
             && forallb (fun u => mem_u u (q_select q)) (q_part q)
             && forallb (fun u => negb (mem_s (label (c_labels cc) u) (def_names defs))) (q_part q)
         | None => false
         end
  | SliceHead c n k => flat_ok c && Z.leb 0 n && Z.leb 0 k
  | SubqueryMarker (Alias c0 (Some m)) =>
      (* the renaming keeps different identities different *)
      flat_ok c0
      && match compile c0 with
         | Some cc =>
             let U := ast_uids c0 ++ c_scope cc ++ map fst (c_labels cc) in
             forallb (fun a => forallb (fun b => implb (N.eqb (remap_uid m a) (remap_uid m b)) (N.eqb a b)) U) U
         | None => false
         end
  | SubqueryMarker c => flat_ok c
  | Alias c (Some m) =>
      (* the renaming keeps different identities different; the new identities are new *)
      flat_ok c
      && match compile c with
         | Some cc =>
             let U := ast_uids c ++ c_scope cc ++ map fst (c_labels cc) ++ map fst (c_defs cc) in
             forallb (fun a => forallb (fun b => implb (N.eqb (remap_uid m a) (remap_uid m b)) (N.eqb a b)) U) U
             && nodup_u (map snd m) && nodup_u (map fst m)
             && disjointb (map snd m) (map fst (c_defs cc)) && disjointb (map snd m) (map fst (c_labels cc))
             && forallb (fun x => mem_u x (map fst m)) (c_scope cc)
         | None => false
         end
  | Join l r on JInner =>
      (* both operands: plain SELECT ... FROM ... WHERE (not summarized, ordered, limited or grouped, no
         window column), an element-wise condition, and the two operands share no column identity *)
      flat_ok l && flat_ok r && elem on
      && match compile l, compile r with
         | Some cl, Some cr =>
             let plain := fun c : compiled =>
                 negb (q_summ (c_q c)) && no_limit (c_q c) && is_nil (q_order (c_q c)) && is_nil (q_part (c_q c))
                 && ds_elem_b (c_defs c) in
             plain cl && plain cr
             && scoped (c_scope cl ++ c_scope cr) on
             && disjointb (c_scope cl) (ast_uids r) && disjointb (c_scope cr) (ast_uids l)
             && disjointb (c_cols cl) (c_cols cr)
             && disjointb (map fst (c_defs cl)) (map fst (c_defs cr))
             && disjointb (q_select (c_q cl)) (map fst (c_labels cr))
         | _, _ => false
         end
  | Join l r on JLeft =>
      (* as for the inner join; in addition the right operand has no computed column: an inlined definition
         would be evaluated on the NULL padding of a left row without partner (finding F37) *)
      flat_ok l && flat_ok r && elem on
      && match compile l, compile r with
         | Some cl, Some cr =>
             let plain := fun c : compiled =>
                 negb (q_summ (c_q c)) && no_limit (c_q c) && is_nil (q_order (c_q c)) && is_nil (q_part (c_q c))
                 && ds_elem_b (c_defs c) in
             plain cl && plain cr
             && forallb (fun d => match snd d with ECol _ => true | _ => false end) (c_defs cr)
             && scoped (c_scope cl ++ c_scope cr) on
             && disjointb (c_scope cl) (ast_uids r) && disjointb (c_scope cr) (ast_uids l)
             && disjointb (c_cols cl) (c_cols cr)
             && disjointb (map fst (c_defs cl)) (map fst (c_defs cr))
             && disjointb (q_select (c_q cl)) (map fst (c_labels cr))
         | _, _ => false
         end
  | Join l r on JFull =>
      (* as for the left join, and no computed column on the left either *)
      flat_ok l && flat_ok r && elem on
      && match compile l, compile r with
         | Some cl, Some cr =>
             let plain := fun c : compiled =>
                 negb (q_summ (c_q c)) && no_limit (c_q c) && is_nil (q_order (c_q c)) && is_nil (q_part (c_q c))
                 && ds_elem_b (c_defs c) in
             plain cl && plain cr
             && forallb (fun d => match snd d with ECol _ => true | _ => false end) (c_defs cl)
             && forallb (fun d => match snd d with ECol _ => true | _ => false end) (c_defs cr)
             && scoped (c_scope cl ++ c_scope cr) on
             && disjointb (c_scope cl) (ast_uids r) && disjointb (c_scope cr) (ast_uids l)
             && disjointb (c_cols cl) (c_cols cr)
             && disjointb (map fst (c_defs cl)) (map fst (c_defs cr))
             && disjointb (q_select (c_q cl)) (map fst (c_labels cr))
         | _, _ => false
         end
  | Union l r _ =>                              (* compile = Some: every left column name exists on the right *)
      flat_ok l && flat_ok r && match compile l with Some cl => nodup_u (q_select (c_q cl)) | None => false end
  end.

(* the compiled operands of the unions of a pipeline, in the order the unions are built (a right operand
   whose column names are not already in the left order is compiled a second time, wrapped in a Select: its
   inner unions are built twice) *)
Fixpoint names_eqb2 (a b : list string) : bool :=
  match a, b with
  | [], [] => true
  | x :: a', y :: b' => String.eqb x y && names_eqb2 a' b'
  | _, _ => false
  end.
Fixpoint union_info (a : ast) : list (compiled * compiled) :=
  match a with
  | Source _ _ => []
  | Select c _ | Rename c _ | Mutate c _ | Filter c _ | Arrange c _ | SliceHead c _ _
  | GroupBy c _ _ | Ungroup c | Summarize c _ | Alias c _ | SubqueryMarker c => union_info c
  | Join l r _ _ => union_info l ++ union_info r
  | Union l r _ =>
      union_info l ++ union_info r ++
      match compile l, compile r with
      | Some cl, Some cr =>
          let lnames := map (label (c_labels cl)) (q_select (c_q cl)) in
          let rnames := map (label (c_labels cr)) (q_select (c_q cr)) in
          (if names_eqb2 lnames rnames then [] else union_info r) ++ [(cl, cr)]
      | _, _ => []
      end
  end.
