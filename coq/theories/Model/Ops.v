(* Model/Ops.v — documented meaning of the operators (DESIGN 3.2), written from the operator
   docstrings: null propagation, Kleene logic, truncating // and %, null-skipping horizontal
   min/max and coalesce, aggregates ignoring nulls.  [VErr] = no backend-independent value.
   Definitions only. *)
From Coq Require Import List String Ascii NArith ZArith Bool PrimFloat Uint63.
From PDT Require Import Model.Dtype Model.Value.
From PDTGen Require Import Catalogue.
Import ListNotations.
Open Scope Z_scope.

(* ---------- numeric helpers ---------- *)

Definition Z_to_float (z : Z) : float :=
  (* exact for |z| < 2^53 (DESIGN 4.3); the generator keeps values in that range *)
  let m := PrimFloat.of_uint63 (Uint63.of_Z (Z.abs z)) in
  if Z.ltb z 0 then PrimFloat.opp m else m.

Definition chk_int (z : Z) : value := if in_i64 z then VInt z else VErr.
Definition chk_float (f : float) : value := if f_is_finite f then VFloat f else VErr.

(* truncation toward zero of a finite float with |f| < 2^62 *)
Definition float_trunc_Z (f : float) : Z :=
  let a := PrimFloat.abs f in
  let '(m, e) := PrimFloat.frshiftexp a in      (* a = m * 2^(e - shift), m in [0.5,1) *)
  let ez := Uint63.to_Z e - 2101 in   (* FloatOps.shift = 2*emax + prec *)
  (* mantissa as integer: m * 2^53 *)
  let mi := Uint63.to_Z (PrimFloat.normfr_mantissa m) in
  let z := if Z.leb 53 ez then Z.shiftl mi (ez - 53) else Z.shiftr mi (53 - ez) in
  if PrimFloat.ltb f PrimFloat.zero then Z.opp z else z.

Definition float_is_integral (f : float) : bool := PrimFloat.eqb (Z_to_float (float_trunc_Z f)) f.
Definition float_floor_Z (f : float) : Z :=
  let t := float_trunc_Z f in
  if float_is_integral f then t else if PrimFloat.ltb f PrimFloat.zero then t - 1 else t.
Definition float_ceil_Z (f : float) : Z :=
  let t := float_trunc_Z f in
  if float_is_integral f then t else if PrimFloat.ltb f PrimFloat.zero then t else t + 1.

(* numeric promotion: Int op Float is computed in Float (implicit conversion Int -> Float) *)
Inductive num2 := NI (x y : Z) | NF (x y : float) | NNull | NErr | NBad.
Definition num2_of (a b : value) : num2 :=
  match a, b with
  | VErr, _ | _, VErr => NErr
  | VNull, (VNull | VInt _ | VFloat _) | (VInt _ | VFloat _), VNull => NNull
  | VInt x, VInt y => NI x y
  | VFloat x, VFloat y => NF x y
  | VInt x, VFloat y => NF (Z_to_float x) y
  | VFloat x, VInt y => NF x (Z_to_float y)
  | _, _ => NBad
  end.

Definition any_err (vs : list value) : bool := existsb is_err vs.

(* ---------- three-valued logic ---------- *)
Definition k_and (a b : value) : value :=
  match a, b with
  | VErr, _ | _, VErr => VErr
  | VBool false, _ | _, VBool false => VBool false
  | VBool true, VBool true => VBool true
  | _, _ => VNull
  end.
Definition k_or (a b : value) : value :=
  match a, b with
  | VErr, _ | _, VErr => VErr
  | VBool true, _ | _, VBool true => VBool true
  | VBool false, VBool false => VBool false
  | _, _ => VNull
  end.
Definition k_xor (a b : value) : value :=
  match a, b with
  | VErr, _ | _, VErr => VErr
  | VBool x, VBool y => VBool (xorb x y)
  | _, _ => VNull
  end.
Definition k_not (a : value) : value :=
  match a with VErr => VErr | VBool x => VBool (negb x) | _ => VNull end.

(* ---------- comparisons ---------- *)
Definition promote (a b : value) : value * value :=
  match a, b with
  | VInt x, VFloat _ => (VFloat (Z_to_float x), b)
  | VFloat _, VInt y => (a, VFloat (Z_to_float y))
  | _, _ => (a, b)
  end.
Definition cmp_op (f : comparison -> bool) (a b : value) : value :=
  match a, b with
  | VErr, _ | _, VErr => VErr
  | VNull, _ | _, VNull => VNull
  | _, _ => let '(x, y) := promote a b in VBool (f (cmp_value x y))
  end.
Definition v_eq := cmp_op (fun c => match c with Eq => true | _ => false end).
Definition v_ne := cmp_op (fun c => match c with Eq => false | _ => true end).
Definition v_lt := cmp_op (fun c => match c with Lt => true | _ => false end).
Definition v_le := cmp_op (fun c => match c with Gt => false | _ => true end).
Definition v_gt := cmp_op (fun c => match c with Gt => true | _ => false end).
Definition v_ge := cmp_op (fun c => match c with Lt => false | _ => true end).

(* ---------- arithmetic ---------- *)
Definition v_add (a b : value) : value :=
  match a, b with
  | VErr, _ | _, VErr => VErr
  | VStr x, VStr y => VStr (x ++ y)
  | VStr _, VNull | VNull, VStr _ => VNull
  | _, _ =>
      match num2_of a b with
      | NI x y => chk_int (x + y)
      | NF x y => chk_float (PrimFloat.add x y)
      | NNull => VNull
      | NErr | NBad => VErr
      end
  end.
Definition v_sub (a b : value) : value :=
  match num2_of a b with
  | NI x y => chk_int (x - y)
  | NF x y => chk_float (PrimFloat.sub x y)
  | NNull => VNull
  | NErr | NBad => VErr
  end.
Definition v_mul (a b : value) : value :=
  match num2_of a b with
  | NI x y => chk_int (x * y)
  | NF x y => chk_float (PrimFloat.mul x y)
  | NNull => VNull
  | NErr | NBad => VErr
  end.
Definition v_truediv (a b : value) : value :=
  match num2_of a b with
  | NI x y => if Z.eqb y 0 then VErr else chk_float (PrimFloat.div (Z_to_float x) (Z_to_float y))
  | NF x y => if PrimFloat.eqb y PrimFloat.zero then VErr else chk_float (PrimFloat.div x y)
  | NNull => VNull
  | NErr | NBad => VErr
  end.
(* integer // truncates toward zero, % takes the sign of the dividend *)
Definition v_floordiv (a b : value) : value :=
  match num2_of a b with
  | NI x y => if Z.eqb y 0 then VErr else chk_int (Z.quot x y)
  | NNull => VNull
  | _ => VErr
  end.
Definition v_mod (a b : value) : value :=
  match num2_of a b with
  | NI x y => if Z.eqb y 0 then VErr else chk_int (Z.rem x y)
  | NNull => VNull
  | _ => VErr
  end.
Definition v_neg (a : value) : value :=
  match a with
  | VInt x => chk_int (- x) | VFloat x => VFloat (PrimFloat.opp x) | VNull => VNull | _ => VErr end.
Definition v_abs (a : value) : value :=
  match a with
  | VInt x => chk_int (Z.abs x) | VFloat x => VFloat (PrimFloat.abs x) | VNull => VNull | _ => VErr end.

Definition v_min2 (a b : value) : value :=
  let '(x, y) := promote a b in match cmp_value x y with Gt => y | _ => x end.
Definition v_max2 (a b : value) : value :=
  let '(x, y) := promote a b in match cmp_value x y with Lt => y | _ => x end.

(* null-skipping horizontal min/max *)
Definition skipnull_fold (f : value -> value -> value) (vs : list value) : value :=
  fold_left (fun acc v =>
      match acc, v with
      | VErr, _ | _, VErr => VErr
      | VNull, _ => v
      | _, VNull => acc
      | _, _ => f acc v
      end) vs VNull.

Definition fold1 (f : value -> value -> value) (vs : list value) : value :=
  match vs with [] => VNull | v :: vs' => fold_left f vs' v end.

(* ---------- strings ---------- *)
Definition ascii_upper (c : ascii) : ascii :=
  let n := nat_of_ascii c in
  if Nat.leb 97 n && Nat.leb n 122 then ascii_of_nat (n - 32) else c.
Definition ascii_lower (c : ascii) : ascii :=
  let n := nat_of_ascii c in
  if Nat.leb 65 n && Nat.leb n 90 then ascii_of_nat (n + 32) else c.
Fixpoint smap (f : ascii -> ascii) (s : string) : string :=
  match s with EmptyString => EmptyString | String c s' => String (f c) (smap f s') end.
(* number of UTF-8 characters: bytes that are not continuation bytes 10xxxxxx *)
Definition is_cont (c : ascii) : bool := let n := nat_of_ascii c in Nat.leb 128 n && Nat.ltb n 192.
Fixpoint utf8_len (s : string) : Z :=
  match s with
  | EmptyString => 0
  | String c s' => (if is_cont c then 0 else 1) + utf8_len s'
  end.
Fixpoint is_prefix (p s : string) : bool :=
  match p, s with
  | EmptyString, _ => true
  | String a p', String b s' => Ascii.eqb a b && is_prefix p' s'
  | _, EmptyString => false
  end.
Fixpoint contains (p s : string) : bool :=
  is_prefix p s || match s with EmptyString => false | String _ s' => contains p s' end.
Fixpoint srev_acc (s acc : string) : string :=
  match s with EmptyString => acc | String c s' => srev_acc s' (String c acc) end.
Definition srev (s : string) : string := srev_acc s EmptyString.
Definition is_suffix (p s : string) : bool := is_prefix (srev p) (srev s).
Fixpoint sdrop (n : nat) (s : string) : string :=
  match n, s with O, _ => s | S n', String _ s' => sdrop n' s' | _, EmptyString => EmptyString end.
(* replace every (left-to-right, non-overlapping) occurrence of [p] by [r]; p non-empty *)
Fixpoint replace_all_fuel (fuel : nat) (p r s : string) : string :=
  match fuel with
  | O => s
  | S fuel' =>
      match s with
      | EmptyString => EmptyString
      | String c s' =>
          if is_prefix p s then r ++ replace_all_fuel fuel' p r (sdrop (String.length p) s)
          else String c (replace_all_fuel fuel' p r s')
      end
  end.
Definition replace_all (p r s : string) : string := replace_all_fuel (S (String.length s)) p r s.
Definition is_space (c : ascii) : bool := Ascii.eqb c " "%char.
Fixpoint lstrip (s : string) : string :=
  match s with String c s' => if is_space c then lstrip s' else s | EmptyString => EmptyString end.
Definition strip (s : string) : string := srev (lstrip (srev (lstrip s))).

(* ---------- the element-wise table ---------- *)
Definition un (f : value -> value) (vs : list value) : value :=
  match vs with [a] => f a | _ => VErr end.
Definition bin (f : value -> value -> value) (vs : list value) : value :=
  match vs with [a; b] => f a b | _ => VErr end.
Definition str1 (f : string -> value) (a : value) : value :=
  match a with VStr s => f s | VNull => VNull | _ => VErr end.
Definition str_lit (f : string -> string -> value) (a p : value) : value :=
  match a, p with
  | VErr, _ | _, VErr => VErr
  | VNull, _ | _, VNull => VNull
  | VStr s, VStr q => f s q
  | _, _ => VErr
  end.

Definition ewise (o : opname) (vs : list value) : value :=
  if any_err vs then VErr else
  match o with
  | Op_add => bin v_add vs
  | Op_sub => bin v_sub vs
  | Op_mul => bin v_mul vs
  | Op_truediv => bin v_truediv vs
  | Op_floordiv => bin v_floordiv vs
  | Op_mod => bin v_mod vs
  | Op_neg => un v_neg vs
  | Op_pos => un (fun a => a) vs
  | Op_abs => un v_abs vs
  | Op_equal => bin v_eq vs
  | Op_not_equal => bin v_ne vs
  | Op_less_than => bin v_lt vs
  | Op_less_equal => bin v_le vs
  | Op_greater_than => bin v_gt vs
  | Op_greater_equal => bin v_ge vs
  | Op_bool_and => bin k_and vs
  | Op_bool_or => bin k_or vs
  | Op_bool_xor => bin k_xor vs
  | Op_bool_invert => un k_not vs
  | Op_is_null => un (fun a => match a with VErr => VErr | VNull => VBool true | _ => VBool false end) vs
  | Op_is_not_null => un (fun a => match a with VErr => VErr | VNull => VBool false | _ => VBool true end) vs
  | Op_fill_null => bin (fun a b => match a with VNull => b | _ => a end) vs
  | Op_is_in =>
      match vs with
      | [] => VErr
      | x :: rest => fold_left (fun acc v => k_or acc (v_eq x v)) rest (VBool false)
      end
  | Op_coalesce =>
      if any_err vs then VErr
      else fold_left (fun acc v => match acc with VNull => v | _ => acc end) vs VNull
  | Op_horizontal_max => skipnull_fold v_max2 vs
  | Op_horizontal_min => skipnull_fold v_min2 vs
  | Op_horizontal_sum => fold1 v_add vs
  | Op_horizontal_any => fold1 k_or vs
  | Op_horizontal_all => fold1 k_and vs
  | Op_clip =>
      match vs with
      | [x; lo; hi] =>
          if any_err vs then VErr else
          match x with
          | VNull => VNull
          | _ => skipnull_fold v_max2 [skipnull_fold v_min2 [x; hi]; lo]
          end
      | _ => VErr
      end
  | Op_floor => un (fun a => match a with
                             | VFloat f => VFloat (Z_to_float (float_floor_Z f))
                             | VNull => VNull | _ => VErr end) vs
  | Op_ceil => un (fun a => match a with
                            | VFloat f => VFloat (Z_to_float (float_ceil_Z f))
                            | VNull => VNull | _ => VErr end) vs
  | Op_str_len => un (str1 (fun s => VInt (utf8_len s))) vs
  | Op_str_upper => un (str1 (fun s => VStr (smap ascii_upper s))) vs
  | Op_str_lower => un (str1 (fun s => VStr (smap ascii_lower s))) vs
  | Op_str_strip => un (str1 (fun s => VStr (strip s))) vs
  | Op_str_starts_with => bin (str_lit (fun s p => VBool (is_prefix p s))) vs
  | Op_str_ends_with => bin (str_lit (fun s p => VBool (is_suffix p s))) vs
  | Op_str_contains =>
      match vs with
      | x :: p :: _ => str_lit (fun s q => VBool (contains q s)) x p   (* allow_regex = False only *)
      | _ => VErr
      end
  | Op_str_replace_all =>
      match vs with
      | [x; VStr p; VStr r] =>
          match p with
          | EmptyString => VErr
          | _ => str1 (fun s => VStr (replace_all p r s)) x
          end
      | _ => VErr
      end
  | Op_nulls_first | Op_nulls_last | Op_ascending | Op_descending => un (fun a => a) vs
  | _ => VErr        (* operators outside the modelled fragment: such cases are never generated *)
  end.

(* ---------- aggregates over the values of one group (nulls ignored) ---------- *)
Definition nonnull (vs : list value) : list value := filter (fun v => negb (is_null v)) vs.

Definition agg (o : opname) (vs : list value) (nrows : nat) : value :=
  if any_err vs then VErr else
  let nn := nonnull vs in
  match o with
  | Op_count_star => VInt (Z.of_nat nrows)
  | Op_count => VInt (Z.of_nat (List.length nn))
  | Op_sum => fold1 v_add nn
  | Op_min => fold1 v_min2 nn
  | Op_max => fold1 v_max2 nn
  | Op_any => fold1 k_or nn
  | Op_all => fold1 k_and nn
  | Op_mean =>
      match nn with
      | [] => VNull
      | _ => v_truediv (match fold1 v_add nn with VInt s => VFloat (Z_to_float s) | s => s end)
                       (VFloat (Z_to_float (Z.of_nat (List.length nn))))
      end
  | _ => VErr
  end.

Inductive okind := KElem | KAgg | KWin.
Definition op_kind (o : opname) : okind :=
  match op_ftype o with ElementWise => KElem | Aggregate => KAgg | Window => KWin end.

(* which operators the reference semantics defines (the generator draws only from these) *)
Definition modelled_ewise : list opname :=
  [Op_add; Op_sub; Op_mul; Op_truediv; Op_floordiv; Op_mod; Op_neg; Op_pos; Op_abs;
   Op_equal; Op_not_equal; Op_less_than; Op_less_equal; Op_greater_than; Op_greater_equal;
   Op_bool_and; Op_bool_or; Op_bool_xor; Op_bool_invert; Op_is_null; Op_is_not_null;
   Op_fill_null; Op_is_in; Op_coalesce; Op_horizontal_max; Op_horizontal_min; Op_horizontal_sum;
   Op_horizontal_any; Op_horizontal_all; Op_clip; Op_floor; Op_ceil;
   Op_str_len; Op_str_upper; Op_str_lower; Op_str_strip; Op_str_starts_with; Op_str_ends_with;
   Op_str_contains; Op_str_replace_all].
