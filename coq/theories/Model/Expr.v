(* Model/Expr.v — resolved column expressions and their row-by-row meaning (DESIGN 3.2).
   Definitions only. *)
From Coq Require Import List String Ascii NArith ZArith Bool PrimFloat.
From PDT Require Import Base.StableSort Model.Dtype Model.Value Model.Ops.
From PDTGen Require Import Catalogue.
Import ListNotations.
Open Scope Z_scope.

(* order spec of one key: descending?, nulls_last? (None = no marker: unspecified position) *)
Definition omark := (bool * option bool)%type.

Inductive expr :=
| ECol (u : uid)                                   (* Col: resolved reference *)
| ELit (v : value)                                 (* LiteralCol *)
| EFn (o : opname) (args : list expr)              (* ColFn *)
      (has_part : bool) (part : list expr)         (* partition_by given? / its columns *)
      (arr : list (expr * omark))                  (* arrange= *)
| ECase (cases : list (expr * expr)) (dflt : option expr)
| ECast (e : expr) (t : dtype).

(* rows carry their position in the table so that window functions can identify "this row" *)
Definition irow := (nat * row)%type.

(* ---------- casts (DESIGN 5.17; only the conversions whose result is backend-independent) ---------- *)
Fixpoint digits_of_pos (fuel : nat) (z : Z) (acc : string) : string :=
  match fuel with
  | O => acc
  | S f =>
      let d := Z.modulo z 10 in
      let acc' := String (Ascii.ascii_of_nat (48 + Z.to_nat d)) acc in
      if Z.ltb z 10 then acc' else digits_of_pos f (Z.div z 10) acc'
  end.
Definition Z_to_string (z : Z) : string :=
  if Z.ltb z 0 then String "-"%char (digits_of_pos 25 (Z.opp z) EmptyString)
  else digits_of_pos 25 z EmptyString.

(* plain decimal numerals: optional sign, at least one digit, nothing else *)
Fixpoint parse_digits (s : string) (acc : Z) : option Z :=
  match s with
  | EmptyString => Some acc
  | String c s' =>
      let n := Ascii.nat_of_ascii c in
      if Nat.leb 48 n && Nat.leb n 57 then parse_digits s' (acc * 10 + Z.of_nat (n - 48)) else None
  end.
Definition parse_Z (s : string) : option Z :=
  match s with
  | EmptyString => None
  | String c s' =>
      if Ascii.eqb c "-"%char then match s' with EmptyString => None | _ => option_map Z.opp (parse_digits s' 0) end
      else if Ascii.eqb c "+"%char then match s' with EmptyString => None | _ => parse_digits s' 0 end
      else parse_digits s 0
  end.

Definition us_per_day : Z := 86400000000.

Definition cast_value (v : value) (t : dtype) : value :=
  match v with
  | VNull => VNull
  | VErr => VErr
  | _ =>
      let t := without_const t in
      if is_int t then
        match v with
        | VInt z => chk_int z
        | VBool b => VInt (if b then 1 else 0)
        | VFloat f => if f_is_finite f then chk_int (float_trunc_Z f) else VErr
        | VStr s => match parse_Z s with Some z => chk_int z | None => VErr end
        | _ => VErr
        end
      else if is_float t then
        match v with
        | VInt z => if Z.ltb (Z.abs z) 9007199254740992 then VFloat (Z_to_float z) else VErr
        | VFloat f => VFloat f
        | VBool b => VFloat (Z_to_float (if b then 1 else 0))
        | _ => VErr
        end
      else match t, v with
           | TStr _, VInt z => VStr (Z_to_string z)
           | TStr _, VStr s => VStr s
           | TS SBool, VBool b => VBool b
           | TS SDate, VDatetime us => VDate (Z.div us us_per_day)       (* drops the time part *)
           | TS SDatetime, VDate d => VDatetime (d * us_per_day)         (* adds midnight *)
           | TS SDate, VDate d => VDate d
           | TS SDatetime, VDatetime us => VDatetime us
           | _, _ => VErr
           end
  end.

(* ---------- window helpers ---------- *)
Fixpoint cmp_keys (ms : list omark) (a b : list value) : comparison :=
  match ms, a, b with
  | (d, nl) :: ms', x :: a', y :: b' =>
      match cmp_key d (match nl with Some true => true | _ => false end) x y with
      | Eq => cmp_keys ms' a' b'
      | c => c
      end
  | _, _, _ => Eq
  end.

Definition keyed := (list value * irow)%type.
Definition le_keyed (ms : list omark) (a b : keyed) : bool :=
  match cmp_keys ms (fst a) (fst b) with Gt => false | _ => true end.

Fixpoint index_of (i : nat) (l : list keyed) (pos : nat) : option nat :=
  match l with
  | [] => None
  | k :: l' => if Nat.eqb (fst (snd k)) i then Some pos else index_of i l' (S pos)
  end.

Fixpoint dedup_keys (ms : list omark) (l : list (list value)) : list (list value) :=
  (* l sorted: drop neighbours with equal keys *)
  match l with
  | [] => []
  | k :: l' =>
      match l' with
      | [] => [k]
      | k' :: _ => match cmp_keys ms k k' with Eq => dedup_keys ms l' | _ => k :: dedup_keys ms l' end
      end
  end.

(* running sum with nulls carrying the previous sum forward (leading nulls stay null) *)
Fixpoint cum_sums (acc : value) (vs : list value) : list value :=
  match vs with
  | [] => []
  | v :: vs' =>
      let acc' := match v, acc with
                  | VNull, _ => acc
                  | _, VNull => v
                  | _, _ => v_add acc v
                  end in
      acc' :: cum_sums acc' vs'
  end.

(* ties among the (sorted) order keys of a partition: an order-sensitive window function has no
   backend-independent value then (DESIGN 4.5) *)
Fixpoint has_ties (ms : list omark) (ks : list (list value)) : bool :=
  match ks with
  | k :: ((k' :: _) as rest) =>
      match cmp_keys ms k k' with Eq => true | _ => has_ties ms rest end
  | _ => false
  end.

Definition lit_int (v : value) : option Z := match v with VInt z => Some z | _ => None end.

(* ---------- evaluation ----------
   [ctx]: all rows the expression can see (the table in mutate, the group in summarize);
   [cur]: the row the value is computed for. *)
Fixpoint eval (ctx : list irow) (cur : irow) (e : expr) {struct e} : value :=
  match e with
  | ECol u => get (snd cur) u
  | ELit v => v
  | ECast e' t => cast_value (eval ctx cur e') t
  | ECase cases dflt =>
      (fix go (cs : list (expr * expr)) : value :=
         match cs with
         | [] => match dflt with Some d => eval ctx cur d | None => VNull end
         | (c, v) :: cs' =>
             match eval ctx cur c with
             | VBool true => eval ctx cur v
             | VErr => VErr
             | _ => go cs'
             end
         end) cases
  | EFn o args has_part part arr =>
      let evs := fun (r : irow) => (fix go (l : list expr) : list value :=
                     match l with [] => [] | a :: l' => eval ctx r a :: go l' end) in
      match op_kind o with
      | KElem => ewise o (evs cur args)
      | k =>
          let P := if has_part
                   then filter (fun r => values_eqb (evs r part) (evs cur part)) ctx
                   else ctx in
          let keys := fun (r : irow) => (fix go (l : list (expr * omark)) : list value :=
                          match l with [] => [] | (a, _) :: l' => eval ctx r a :: go l' end) arr in
          let ms := map snd arr in
          let SP := ssort (le_keyed ms) (map (fun r => (keys r, r)) P) in
          match k with
          | KAgg =>
              match args with
              | [] => agg o [] (List.length P)
              | a :: _ => agg o (map (fun kr => eval ctx (snd kr) a) SP) (List.length P)
              end
          | _ =>
              if (match o with Op_row_number | Op_shift | Op_cum_sum => true | _ => false end)
                 && has_ties ms (map fst SP) then VErr else
              match o with
              | Op_row_number =>
                  match index_of (fst cur) SP 0 with Some p => VInt (Z.of_nat (S p)) | None => VErr end
              | Op_rank =>
                  let kc := keys cur in
                  VInt (1 + Z.of_nat (List.length
                          (filter (fun kr => match cmp_keys ms (fst kr) kc with Lt => true | _ => false end) SP)))
              | Op_dense_rank =>
                  let kc := keys cur in
                  VInt (1 + Z.of_nat (List.length
                          (filter (fun k' => match cmp_keys ms k' kc with Lt => true | _ => false end)
                                  (dedup_keys ms (map fst SP)))))
              | Op_shift =>
                  match args with
                  | x :: n :: rest =>
                      let fill := match rest with f :: _ => eval ctx cur f | [] => VNull end in
                      match lit_int (eval ctx cur n), index_of (fst cur) SP 0 with
                      | Some nz, Some p =>
                          let q := Z.of_nat p - nz in
                          if Z.ltb q 0 then fill else
                          match nth_error SP (Z.to_nat q) with
                          | Some kr => eval ctx (snd kr) x
                          | None => fill
                          end
                      | _, _ => VErr
                      end
                  | _ => VErr
                  end
              | Op_cum_sum =>
                  match args, index_of (fst cur) SP 0 with
                  | x :: _, Some p =>
                      nth p (cum_sums VNull (map (fun kr => eval ctx (snd kr) x) SP)) VErr
                  | _, _ => VErr
                  end
              | _ => VErr
              end
          end
      end
  end.

Definition eval_list (ctx : list irow) (cur : irow) (es : list expr) : list value :=
  map (eval ctx cur) es.
