(* Model/PlCompileCheck.v — executable comparison of the transcribed Polars compile_ast
   (Model/PlCompile.v) with what the real compile_ast returns for the same AST: select, partition_by,
   name_in_df (a frame name is compared by kind - written by the user or suffixed - and by its base
   name) and the frame's schema.  Definitions only. *)
From Coq Require Import List String NArith ZArith Bool.
From PDT Require Import Model.Dtype Model.Value Model.Ops Model.Expr Model.RefSem Model.SqlCompile Model.PlCompile
     Model.SqlCompileCheck.
Import ListNotations.

Definition kname := (bool * string)%type.          (* (written by the user?, base name) *)
Definition kname_of (dn : dname) : kname := (is_user dn, uname dn).
Definition kname_eqb (a b : kname) : bool := Bool.eqb (fst a) (fst b) && String.eqb (snd a) (snd b).

Definition sub_k (a b : list kname) : bool := forallb (fun x => existsb (kname_eqb x) b) a.

(* 1 select, 2 partition_by, 3 the uids of name_in_df, 4 a frame name, 5 the schema *)
Definition pl_diff (st : pstate) (rsel rpart : list uid) (rnames : list (uid * kname)) (rkeys : list kname) : list nat :=
  (if list_eqb2 N.eqb (p_select st) rsel then [] else [1%nat]) ++
  (if list_eqb2 N.eqb (p_part st) rpart then [] else [2%nat]) ++
  (if subset_u (dom (p_ns st)) (map fst rnames) && subset_u (map fst rnames) (dom (p_ns st)) then [] else [3%nat]) ++
  (if forallb (fun un => kname_eqb (kname_of (pname (p_ns st) (fst un))) (snd un)) rnames then [] else [4%nat]) ++
  (if sub_k (map kname_of (p_keys st)) rkeys && sub_k rkeys (map kname_of (p_keys st)) then [] else [5%nat]).

Definition pl3_check (d : db) (a : ast) (rsel rpart : list uid) (rnames : list (uid * kname)) (rkeys : list kname)
  : nat * list nat * nat :=
  match pl_compile d a with
  | Some st => (1%nat, pl_diff st rsel rpart rnames rkeys, if pflat_ok d a then 1%nat else 0%nat)
  | None => (0%nat, [], 0%nat)
  end.
