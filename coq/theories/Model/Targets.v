(* Model/Targets.v — the export targets of pipe/verbs.py export (C20) as encoders of one frame.
   Definitions only; polymorphic in the cell type.
   A frame is what export(Polars()) returns: named columns in order.
     DictOfLists  = df.to_dict(as_series=False): a Python dict name -> list (insertion ordered, a repeated
                    key overwrites in place)
     ListOfDicts  = df.to_dicts(): one dict per row
     Dict         = to_dicts()[0] if height = 1, TypeError otherwise
     Scalar       = df.item() if exactly one column and one row, TypeError otherwise *)
From Coq Require Import List String Bool Arith.
Import ListNotations.

Section Targets.
Variable A : Type.

Definition frame := list (string * list A).
Definition pyrow := list (string * A).

Definition height (f : frame) : nat := match f with [] => 0 | (_, c) :: _ => List.length c end.
Definition names (f : frame) : list string := map fst f.

Definition wf (f : frame) : Prop :=
  NoDup (names f) /\ Forall (fun nc => List.length (snd nc) = height f) f.

(* ---- Python dict built by inserting the pairs in order *)
Fixpoint dict_set {V} (d : list (string * V)) (k : string) (v : V) : list (string * V) :=
  match d with
  | [] => [(k, v)]
  | (k', v') :: d' => if String.eqb k' k then (k', v) :: d' else (k', v') :: dict_set d' k v
  end.
Definition pydict {V} (l : list (string * V)) : list (string * V) :=
  fold_left (fun d kv => dict_set d (fst kv) (snd kv)) l [].
Fixpoint assoc {V} (k : string) (d : list (string * V)) : option V :=
  match d with
  | [] => None
  | (k', v) :: d' => if String.eqb k' k then Some v else assoc k d'
  end.

Definition enc_dol (f : frame) : list (string * list A) := pydict f.

(* ---- rows *)
Fixpoint heads (f : frame) : option pyrow :=
  match f with
  | [] => Some []
  | (n, c) :: f' =>
      match c, heads f' with
      | v :: _, Some r => Some ((n, v) :: r)
      | _, _ => None
      end
  end.
Definition tails (f : frame) : frame := map (fun nc => (fst nc, tl (snd nc))) f.

Fixpoint rows_n (n : nat) (f : frame) : list pyrow :=
  match n with
  | O => []
  | S k => match heads f with
           | Some r => r :: rows_n k (tails f)
           | None => []
           end
  end.
Definition enc_lod (f : frame) : list pyrow := map pydict (rows_n (height f) f).

Definition enc_dict (f : frame) : option pyrow :=
  match enc_lod f with [r] => Some r | _ => None end.        (* None = TypeError *)

Definition enc_scalar (f : frame) : option A :=
  match f with [(_, [v])] => Some v | _ => None end.          (* None = TypeError *)

(* ---- reading a frame back from rows, given the column names (what pl.DataFrame(rows, schema) /
   Table(dict) do) *)
Definition col_of (n : string) (rows : list pyrow) : list A :=
  flat_map (fun r => match assoc n r with Some v => [v] | None => [] end) rows.
Definition frame_of_rows (ns : list string) (rows : list pyrow) : frame :=
  map (fun n => (n, col_of n rows)) ns.
End Targets.

Arguments height {A}. Arguments names {A}. Arguments wf {A}. Arguments enc_dol {A}. Arguments enc_lod {A}.
Arguments enc_dict {A}. Arguments enc_scalar {A}. Arguments heads {A}. Arguments tails {A}. Arguments rows_n {A}.
Arguments col_of {A}. Arguments frame_of_rows {A}.
