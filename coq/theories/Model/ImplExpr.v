(* Model/ImplExpr.v — the small expression languages in which the operator implementations of the
   backends are read back (generated/OpImpls.v, translator harness/translate.py gen_opimpls), and the
   meaning of the engine primitives they use (DESIGN 3.7).  The primitive semantics below is part of
   the trusted base; it is validated against the real engines by the C03 operand grid.
   Definitions only. *)
From Coq Require Import List String NArith ZArith Bool.
From PDT Require Import Model.Value Model.Ops.
Import ListNotations.
Open Scope Z_scope.

(* ---------- Polars expressions (expr.meta.serialize) ---------- *)
Inductive plop := PlPlus | PlMinus | PlMultiply | PlFloorDivide | PlModulus | PlTrueDivide
                | PlEq | PlNotEq | PlLt | PlLtEq | PlGt | PlGtEq | PlAnd | PlOr | PlXor.
Inductive plfn := PfAbs | PfNegate | PfNot | PfAnyHorizontal | PfAllHorizontal | PfMaxHorizontal
                | PfMinHorizontal | PfSumHorizontal | PfCoalesce | PfFillNull | PfClip | PfIsNull | PfIsNotNull.

Inductive pl_expr :=
| PCol (n : string)
| PLit (v : value)
| PBin (op : plop) (a b : pl_expr)
| PFn (f : plfn) (args : list pl_expr)
| PTernary (c a b : pl_expr).

Definition penv := string -> value.

(* Polars primitives: arithmetic and comparisons propagate null; // and % FLOOR (sign of the divisor)
   and give null for a zero divisor; & | are Kleene; when/then/otherwise takes `otherwise` for a null
   predicate; max/min_horizontal skip nulls; clip leaves null input null. *)
Definition pl_int2 (f : Z -> Z -> value) (a b : value) : value :=
  match a, b with
  | VErr, _ | _, VErr => VErr
  | VInt x, VInt y => f x y
  | VNull, (VNull | VInt _) | VInt _, VNull => VNull
  | _, _ => VErr
  end.

Definition pl_bin (op : plop) (a b : value) : value :=
  match op with
  | PlPlus => v_add a b
  | PlMinus => v_sub a b
  | PlMultiply => v_mul a b
  | PlFloorDivide => pl_int2 (fun x y => if Z.eqb y 0 then VNull else VInt (Z.div x y)) a b
  | PlModulus => pl_int2 (fun x y => if Z.eqb y 0 then VNull else VInt (Z.modulo x y)) a b
  | PlTrueDivide => v_truediv a b
  | PlEq => v_eq a b | PlNotEq => v_ne a b | PlLt => v_lt a b | PlLtEq => v_le a b
  | PlGt => v_gt a b | PlGtEq => v_ge a b
  | PlAnd => k_and a b | PlOr => k_or a b | PlXor => k_xor a b
  end.

Definition pl_fn (f : plfn) (vs : list value) : value :=
  match f, vs with
  | PfAbs, [a] => v_abs a
  | PfNegate, [a] => v_neg a
  | PfNot, [a] => k_not a
  | PfAnyHorizontal, _ => fold_left k_or vs (VBool false)
  | PfAllHorizontal, _ => fold_left k_and vs (VBool true)
  | PfMaxHorizontal, _ => skipnull_fold v_max2 vs
  | PfMinHorizontal, _ => skipnull_fold v_min2 vs
  | PfSumHorizontal, _ => fold1 v_add vs
  | PfCoalesce, _ => fold_left (fun acc v => match acc with VNull => v | _ => acc end) vs VNull
  | PfFillNull, [a; b] => match a with VNull => b | _ => a end
  | PfClip, [x; lo; hi] => match x with VNull => VNull | _ => skipnull_fold v_max2 [skipnull_fold v_min2 [x; hi]; lo] end
  | PfIsNull, [a] => VBool (is_null a)
  | PfIsNotNull, [a] => VBool (negb (is_null a))
  | _, _ => VErr
  end.

Fixpoint pl_eval (env : penv) (e : pl_expr) {struct e} : value :=
  match e with
  | PCol n => env n
  | PLit v => v
  | PBin op a b => pl_bin op (pl_eval env a) (pl_eval env b)
  | PFn f args => pl_fn f ((fix go (l : list pl_expr) : list value :=
                              match l with [] => [] | a :: l' => pl_eval env a :: go l' end) args)
  | PTernary c a b => match pl_eval env c with VBool true => pl_eval env a | VErr => VErr | _ => pl_eval env b end
  end.

(* ---------- SQL expressions (SQLAlchemy ColumnElement trees, SQLite semantics) ---------- *)
Inductive sqlop := SqAdd | SqSub | SqMul | SqDiv | SqMod | SqEq | SqNe | SqLt | SqLe | SqGt | SqGe
                 | SqAnd | SqOr | SqConcat.
Inductive sqlfn := SfMax | SfMin | SfCoalesce | SfAbs | SfIsTrue | SfIsFalse | SfNot | SfNeg | SfIsNull | SfIsNotNull.

Inductive sql_expr :=
| SCol (n : string)
| SLit (v : value)
| SBin (op : sqlop) (a b : sql_expr)
| SFn (f : sqlfn) (args : list sql_expr)
| SIn (x : sql_expr) (vals : list sql_expr)
| SCastReal (e : sql_expr).

(* SQLite: integer / truncates toward zero and % takes the sign of the dividend (NULL for a zero
   divisor); scalar MAX/MIN with several arguments return NULL if ANY argument is NULL; COALESCE takes
   the first non-null; comparisons and AND/OR/NOT are three-valued; x IN (...) is the three-valued
   disjunction of equalities *)
Definition sq_bin (op : sqlop) (a b : value) : value :=
  match op with
  | SqAdd => v_add a b | SqSub => v_sub a b | SqMul => v_mul a b
  | SqDiv => match a, b with
             | VFloat _, _ | _, VFloat _ => v_truediv a b
             | _, _ => pl_int2 (fun x y => if Z.eqb y 0 then VNull else VInt (Z.quot x y)) a b
             end
  | SqMod => pl_int2 (fun x y => if Z.eqb y 0 then VNull else VInt (Z.rem x y)) a b
  | SqEq => v_eq a b | SqNe => v_ne a b | SqLt => v_lt a b | SqLe => v_le a b | SqGt => v_gt a b | SqGe => v_ge a b
  | SqAnd => k_and a b | SqOr => k_or a b
  | SqConcat => v_add a b
  end.

Definition strict_fold (f : value -> value -> value) (vs : list value) : value :=
  if existsb is_err vs then VErr else if existsb is_null vs then VNull else fold1 f vs.

Definition sq_fn (f : sqlfn) (vs : list value) : value :=
  match f, vs with
  | SfMax, _ => strict_fold v_max2 vs
  | SfMin, _ => strict_fold v_min2 vs
  | SfCoalesce, _ => if existsb is_err vs then VErr
                     else fold_left (fun acc v => match acc with VNull => v | _ => acc end) vs VNull
  | SfAbs, [a] => v_abs a
  | SfNeg, [a] => v_neg a
  | SfIsTrue, [a] => a                 (* AsBoolean(is_true): `x = 1` / x as a predicate *)
  | SfIsFalse, [a] => k_not a          (* AsBoolean(is_false): `x = 0` *)
  | SfNot, [a] => k_not a
  | SfIsNull, [a] => VBool (is_null a)
  | SfIsNotNull, [a] => VBool (negb (is_null a))
  | _, _ => VErr
  end.

Fixpoint sql_eval (env : penv) (e : sql_expr) {struct e} : value :=
  match e with
  | SCol n => env n
  | SLit v => v
  | SBin op a b => sq_bin op (sql_eval env a) (sql_eval env b)
  | SFn f args => sq_fn f ((fix go (l : list sql_expr) : list value :=
                              match l with [] => [] | a :: l' => sql_eval env a :: go l' end) args)
  | SIn x vals =>
      let xv := sql_eval env x in
      fold_left (fun acc v => k_or acc (v_eq xv v))
                ((fix go (l : list sql_expr) : list value :=
                    match l with [] => [] | a :: l' => sql_eval env a :: go l' end) vals) (VBool false)
  | SCastReal e' => match sql_eval env e' with VInt z => VFloat (Z_to_float z) | v => v end
  end.

(* environments for operands named x, y, z, w, v, u *)
Definition env_of (vs : list value) : penv :=
  fun n => match n, vs with
           | "x"%string, a :: _ => a
           | "y"%string, _ :: b :: _ => b
           | "z"%string, _ :: _ :: c :: _ => c
           | "w"%string, _ :: _ :: _ :: d :: _ => d
           | "v"%string, _ :: _ :: _ :: _ :: e :: _ => e
           | "u"%string, _ :: _ :: _ :: _ :: _ :: f :: _ => f
           | _, _ => VErr
           end.
