(* Model/RefSem.v — reference semantics of the verbs: the "independent row-by-row evaluation"
   (DESIGN 3.3), written from the verb docstrings, not from either backend.  Definitions only. *)
From Coq Require Import List String NArith ZArith Bool.
From PDT Require Import Base.StableSort Model.Dtype Model.Value Model.Ops Model.Expr.
From PDTGen Require Import Catalogue.
Import ListNotations.
Open Scope Z_scope.
Open Scope list_scope.

Inductive jhow := JInner | JLeft | JFull.

Definition def := (string * uid * expr)%type.

Inductive ast :=
| Source (t : string) (cols : list (string * uid))
| Select (c : ast) (us : list uid)
| Rename (c : ast) (m : list (string * string))
| Mutate (c : ast) (defs : list def)
| Filter (c : ast) (ps : list expr)
| Arrange (c : ast) (os : list (expr * omark))
| SliceHead (c : ast) (n k : Z)
| GroupBy (c : ast) (us : list uid) (add : bool)
| Ungroup (c : ast)
| Summarize (c : ast) (defs : list def)
| Alias (c : ast) (uuid_map : option (list (uid * uid)))
| SubqueryMarker (c : ast)
| Join (l r : ast) (on : expr) (how : jhow)
| Union (l r : ast) (distinct : bool).

(* source data: table name -> rows (values in the column order of the Source node) *)
Definition db := list (string * list (list value)).
Fixpoint db_get (d : db) (t : string) : list (list value) :=
  match d with
  | [] => []
  | (k, v) :: d' => if String.eqb k t then v else db_get d' t
  end.

Record rstate := {
  rows : list row;                 (* in the current order *)
  sel : list (string * uid);       (* visible columns, in output order *)
  group : list uid;
  ord_defined : bool;              (* is the current row order determined by the pipeline? (4.4) *)
  bad : bool                       (* a value outside the documented domain was needed (section 4) *)
}.

Definition index_rows (rs : list row) : list irow := combine (seq 0 (List.length rs)) rs.

Fixpoint zip_row (us : list uid) (vs : list value) : row :=
  match us, vs with
  | u :: us', v :: vs' => (u, v) :: zip_row us' vs'
  | _, _ => []
  end.

Fixpoint assoc_s {A} (k : string) (l : list (string * A)) : option A :=
  match l with
  | [] => None
  | (k', v) :: l' => if String.eqb k k' then Some v else assoc_s k l'
  end.
Fixpoint assoc_u {A} (k : uid) (l : list (uid * A)) : option A :=
  match l with
  | [] => None
  | (k', v) :: l' => if N.eqb k k' then Some v else assoc_u k l'
  end.
Definition name_of (s : list (string * uid)) (u : uid) : string :=
  match find (fun p => N.eqb (snd p) u) s with Some p => fst p | None => EmptyString end.
Definition mem_s (k : string) (l : list string) : bool := existsb (String.eqb k) l.
Definition mem_u (k : uid) (l : list uid) : bool := existsb (N.eqb k) l.

Definition row_has_err (us : list uid) (r : row) : bool := existsb (fun u => is_err (get r u)) us.

(* are the key tuples pairwise different? (the order is then total on these rows) *)
Fixpoint keys_distinct (ms : list omark) (ks : list (list value)) : bool :=
  match ks with
  | [] => true
  | k :: ks' =>
      negb (existsb (fun k' => match cmp_keys ms k k' with Eq => true | _ => false end) ks')
      && keys_distinct ms ks'
  end.

(* ---------- the verbs ---------- *)

Definition do_mutate (s : rstate) (defs : list def) : rstate :=
  let ctx := index_rows (rows s) in
  let names := map (fun d => fst (fst d)) defs in
  let rows' := map (fun ir =>
                 fold_left (fun r d => upd r (snd (fst d)) (eval ctx ir (snd d))) defs (snd ir)) ctx in
  {| rows := rows';
     sel := filter (fun p => negb (mem_s (fst p) names)) (sel s)
            ++ map (fun d => (fst (fst d), snd (fst d))) defs;
     group := group s; ord_defined := ord_defined s;
     bad := bad s || existsb (row_has_err (map (fun d => snd (fst d)) defs)) rows' |}.

Definition do_filter (s : rstate) (ps : list expr) : rstate :=
  let ctx := index_rows (rows s) in
  let verdicts := map (fun ir => (snd ir, map (eval ctx ir) ps)) ctx in
  {| rows := map fst (filter (fun rv => forallb (fun v => value_eqb v (VBool true)) (snd rv)) verdicts);
     sel := sel s; group := group s; ord_defined := ord_defined s;
     bad := bad s || existsb (fun rv => existsb is_err (snd rv)) verdicts |}.

Definition do_arrange (s : rstate) (os : list (expr * omark)) : rstate :=
  let ctx := index_rows (rows s) in
  let ms := map snd os in
  let keyed := map (fun ir => (map (fun o => eval ctx ir (fst o)) os, ir)) ctx in
  let sorted := ssort (le_keyed ms) keyed in
  {| rows := map (fun k => snd (snd k)) sorted;
     sel := sel s; group := group s;
     ord_defined := ord_defined s || keys_distinct ms (map fst keyed);
     bad := bad s || existsb (fun k => existsb is_err (fst k)) keyed
            (* a nullable key without nulls_first/nulls_last has no specified position (4.6) *)
            || existsb (fun j => match snd (snd (nth j os (ELit VNull, (false, None)))) with
                                 | None => existsb (fun k => is_null (nth j (fst k) VNull)) keyed
                                 | Some _ => false end) (seq 0 (List.length os)) |}.

Definition do_slice (s : rstate) (n k : Z) : rstate :=
  {| rows := firstn (Z.to_nat n) (skipn (Z.to_nat k) (rows s));
     sel := sel s; group := group s; ord_defined := ord_defined s;
     (* cutting an order that the pipeline does not determine has no defined result, unless
        nothing is cut *)
     bad := bad s || (negb (ord_defined s)
                      && negb (Z.eqb k 0 && Z.leb (Z.of_nat (List.length (rows s))) n)) |}.

(* groups in order of first appearance *)
Fixpoint group_rows {A : Type} (key : A -> list value) (rs : list A) (acc : list (list value * list A))
  : list (list value * list A) :=
  match rs with
  | [] => map (fun g => (fst g, rev (snd g))) (rev acc)
  | r :: rs' =>
      let k := key r in
      let fix add (a : list (list value * list A)) :=
          match a with
          | [] => None
          | (k', g) :: a' =>
              if values_eqb k k' then Some ((k', r :: g) :: a')
              else match add a' with Some a'' => Some ((k', g) :: a'') | None => None end
          end in
      match add acc with
      | Some acc' => group_rows key rs' acc'
      | None => group_rows key rs' ((k, [r]) :: acc)
      end
  end.

Definition do_summarize (s : rstate) (defs : list def) : rstate :=
  let g := group s in
  let groups := match g with
                | [] => [([], rows s)]       (* exactly one row, also for empty input *)
                | _ => group_rows (fun r => map (get r) g) (rows s) []
                end in
  let names := map (fun d => fst (fst d)) defs in
  let rows' := map (fun kg =>
                 let ctx := index_rows (snd kg) in
                 let cur := match ctx with ir :: _ => ir | [] => (O, []) end in
                 fold_left (fun r d => upd r (snd (fst d)) (eval ctx cur (snd d))) defs
                           (zip_row g (fst kg))) groups in
  {| rows := rows';
     sel := filter (fun p => negb (mem_s (fst p) names)) (map (fun u => (name_of (sel s) u, u)) g)
            ++ map (fun d => (fst (fst d), snd (fst d))) defs;
     group := []; ord_defined := false;
     bad := bad s || existsb (row_has_err (map (fun d => snd (fst d)) defs)) rows' |}.

Definition remap_uid (m : list (uid * uid)) (u : uid) : uid :=
  match assoc_u u m with Some u' => u' | None => u end.

Definition do_alias (s : rstate) (m : option (list (uid * uid))) : rstate :=
  match m with
  | None => s
  | Some m =>
      {| rows := map (fun r => map (fun b => (remap_uid m (fst b), snd b)) r) (rows s);
         sel := map (fun p => (fst p, remap_uid m (snd p))) (sel s);
         group := map (remap_uid m) (group s);
         ord_defined := ord_defined s; bad := bad s |}
  end.

Definition on_true (on : expr) (lr rr : row) : bool :=
  value_eqb (eval [] (O, (lr ++ rr)%list) on) (VBool true).
Definition on_err (on : expr) (lr rr : row) : bool := is_err (eval [] (O, (lr ++ rr)%list) on).

Definition join_branch (how : jhow) (lr : row) (ms : list row) : list row :=
  match ms, how with
  | [], (JLeft | JFull) => [lr]                 (* padded: absent uids read as null *)
  | ms', _ => map (fun rr => (lr ++ rr)%list) ms'
  end.

Definition do_join (l r : rstate) (on : expr) (how : jhow) : rstate :=
  let matched := flat_map (fun lr => join_branch how lr (filter (on_true on lr) (rows r))) (rows l) in
  let unmatched_r :=
      match how with
      | JFull => filter (fun rr => negb (existsb (fun lr => on_true on lr rr) (rows l))) (rows r)
      | _ => []
      end in
  {| rows := matched ++ unmatched_r;
     sel := sel l ++ sel r; group := []; ord_defined := false;
     bad := bad l || bad r
            || existsb (fun lr => existsb (on_err on lr) (rows r)) (rows l) |}.

Fixpoint dedup_rows (seen : list (list value)) (vis : row -> list value) (rs : list row) : list row :=
  match rs with
  | [] => []
  | r :: rs' =>
      if existsb (values_eqb (vis r)) seen then dedup_rows seen vis rs'
      else r :: dedup_rows (vis r :: seen) vis rs'
  end.

Definition do_union (l r : rstate) (distinct : bool) : rstate :=
  let conv := fun (rr : row) =>
      map (fun p => (snd p, match assoc_s (fst p) (sel r) with Some ur => get rr ur | None => VErr end))
          (sel l) in
  let all := rows l ++ map conv (rows r) in
  let vis := fun (x : row) => map (fun p => get x (snd p)) (sel l) in
  {| rows := if distinct then dedup_rows [] vis all else all;
     sel := sel l; group := []; ord_defined := false; bad := bad l || bad r |}.

Fixpoint sem_ref (d : db) (a : ast) : rstate :=
  match a with
  | Source t cols =>
      {| rows := map (zip_row (map snd cols)) (db_get d t); sel := cols; group := [];
         ord_defined := false; bad := false |}
  | Select c us =>
      let s := sem_ref d c in
      {| rows := rows s; sel := map (fun u => (name_of (sel s) u, u)) us; group := group s;
         ord_defined := ord_defined s; bad := bad s |}
  | Rename c m =>
      let s := sem_ref d c in
      {| rows := rows s;
         sel := map (fun p => (match assoc_s (fst p) m with Some n => n | None => fst p end, snd p)) (sel s);
         group := group s; ord_defined := ord_defined s; bad := bad s |}
  | Mutate c defs => do_mutate (sem_ref d c) defs
  | Filter c ps => do_filter (sem_ref d c) ps
  | Arrange c os => do_arrange (sem_ref d c) os
  | SliceHead c n k => do_slice (sem_ref d c) n k
  | GroupBy c us add =>
      let s := sem_ref d c in
      {| rows := rows s; sel := sel s; group := if add then group s ++ us else us;
         ord_defined := ord_defined s; bad := bad s |}
  | Ungroup c =>
      let s := sem_ref d c in
      {| rows := rows s; sel := sel s; group := []; ord_defined := ord_defined s; bad := bad s |}
  | Summarize c defs => do_summarize (sem_ref d c) defs
  | Alias c m => do_alias (sem_ref d c) m
  | SubqueryMarker c =>
      (* SQL only: the outer query restarts without ORDER BY, so the order is not determined *)
      let s := sem_ref d c in
      {| rows := rows s; sel := sel s; group := group s; ord_defined := false; bad := bad s |}
  | Join l r on how => do_join (sem_ref d l) (sem_ref d r) on how
  | Union l r distinct => do_union (sem_ref d l) (sem_ref d r) distinct
  end.

Definition export_ref (s : rstate) : frame :=
  {| f_names := map fst (sel s);
     f_rows := map (fun r => map (fun p => get r (snd p)) (sel s)) (rows s) |}.

(* ---------- comparison of an observed frame with the reference ---------- *)
Definition sort_rows (rs : list (list value)) : list (list value) :=
  ssort (fun a b => match cmp_values a b with Gt => false | _ => true end) rs.

Fixpoint rows_eqb (a b : list (list value)) : bool :=
  match a, b with
  | [], [] => true
  | x :: a', y :: b' => values_eqb x y && rows_eqb a' b'
  | _, _ => false
  end.

Fixpoint names_eqb (a b : list string) : bool :=
  match a, b with
  | [], [] => true
  | x :: a', y :: b' => String.eqb x y && names_eqb a' b'
  | _, _ => false
  end.

Inductive verdict := VOk | VNames | VRows | VOutOfDomain.

(* [ordered]: compare as sequences (the pipeline fixes the order, and the backend is one that
   must honour it), otherwise as multisets *)
Definition frame_verdict (ordered : bool) (expected observed : frame) : verdict :=
  if negb (names_eqb (f_names expected) (f_names observed)) then VNames
  else if (if ordered then rows_eqb (f_rows expected) (f_rows observed)
           else rows_eqb (sort_rows (f_rows expected)) (sort_rows (f_rows observed)))
       then VOk else VRows.

Definition check_case (d : db) (a : ast) (force_unordered : bool) (observed : frame) : verdict :=
  let s := sem_ref d a in
  if bad s then VOutOfDomain
  else frame_verdict (ord_defined s && negb force_unordered) (export_ref s) observed.
