(* Model/Signature.v — ops/signature.py: SignatureTrie.all_matches / best_match,
   best_signature_match, sig_distance; ops/op.py Operator.return_type.

   The trie is replaced by the list of signatures.  This is equivalent as long as no trie node
   has a type-variable child next to other children (then the `already_matched` exclusion never
   fires and shared prefixes only merge identical work) and all signatures of an operator have
   the same number of parameters; the translator checks both on the running catalogue and fails
   closed otherwise (harness/translate.py, check_trie_shape). *)
From Coq Require Import List String NArith ZArith Bool.
From PDT Require Import Model.Dtype Model.Conv.
Import ListNotations.

Definition tyenv := list (string * dtype).
Fixpoint tlookup (n : string) (e : tyenv) : option dtype :=
  match e with
  | [] => None
  | (k, v) :: e' => if String.eqb n k then Some v else tlookup n e'
  end.

Section WithTable.
Variable tbl : conv_table_t.
Variable float_subtypes : list dtype.

Notation converts_to := (converts_to tbl float_subtypes).
Notation conversion_cost := (conversion_cost tbl).
Notation implicit_conversions := (implicit_conversions tbl float_subtypes).

(* One signature against the argument types.  Structural recursion on [args]; [params] is the
   remaining parameter list, where a vararg signature repeats its last parameter. *)
Fixpoint match_params (params : list dtype) (vararg : bool) (args : list dtype) (env : tyenv)
  : list (list dtype * tyenv) :=
  match args with
  | [] =>
      match params with
      | [] => [([], env)]
      | [_] => if vararg then [([], env)] else []    (* Signature(T, T, ...) means >= 1 T *)
      | _ => []
      end
  | a :: args' =>
      match params with
      | [] => []
      | p :: params' =>
          let rest := match params' with [] => if vararg then [p] else [] | _ => params' end in
          let bound := match without_const p with TVar n => tlookup n env | _ => None end in
          let match_dtype := match bound with Some t => t | None => p end in
          (* const-ness of p is lost when its variable is already bound *)
          if is_tyvar (without_const match_dtype) then
            flat_map (fun d =>
                let md := if is_const p then with_const d else d in
                if converts_to a md
                then map (fun r => (md :: fst r, snd r))
                         (match_params rest vararg args' ((var_name p, md) :: env))
                else [])
              (implicit_conversions (without_const a))
          else if converts_to a match_dtype
          then map (fun r => (match_dtype :: fst r, snd r)) (match_params rest vararg args' env)
          else []
      end
  end.

Definition resolve_ret (ret : dtype) (env : tyenv) : option dtype :=
  match ret with
  | TVar n => tlookup n env          (* tyvars[self.data.name]; KeyError -> None *)
  | TList (TVar n) => option_map TList (tlookup n env)      (* List(S): the element type is instantiated *)
  | _ => Some ret
  end.

Definition sig_matches (s : signature) (args : list dtype) : list (list dtype * option dtype) :=
  map (fun r => (fst r, resolve_ret (sig_ret s) (snd r)))
      (match_params (sig_params s) (sig_vararg s) args []).

Definition all_matches (sigs : list signature) (args : list dtype)
  : list (list dtype * option dtype) :=
  flat_map (fun s => sig_matches s args) sigs.

Fixpoint sig_distance (args target : list dtype) : option cost :=
  match args, target with
  | [], [] => Some (0, 0)%N
  | a :: args', t :: target' =>
      match conversion_cost a t, sig_distance args' target' with
      | Some c, Some d => Some (cost_add c d)
      | _, _ => None
      end
  | _, _ => None                        (* zip(strict=True) *)
  end.

Inductive resolution :=
| NoMatch                                   (* Operator.return_type -> None -> DataTypeError *)
| Unique (params : list dtype) (ret : dtype)
| Ambiguous                                 (* the uniqueness assertion fails: AssertionError *)
| Internal.                                 (* KeyError / strict zip inside the resolution *)

Definition dist (args : list dtype) (m : list dtype * option dtype) : cost :=
  match sig_distance args (fst m) with Some c => c | None => (0, 0)%N end.
Definition dist_defined (args : list dtype) (m : list dtype * option dtype) : bool :=
  match sig_distance args (fst m) with Some _ => true | None => false end.

Definition pick_best (args : list dtype) (m0 : list dtype * option dtype)
           (rest : list (list dtype * option dtype)) :=
  fold_left (fun b m => if cost_lt (dist args m) (dist args b) then m else b) rest m0.

Definition count_ties (args : list dtype) (best : list dtype * option dtype)
           (ms : list (list dtype * option dtype)) : nat :=
  List.length (filter (fun m => cost_eqb (dist args best) (dist args m)) ms).

Definition best_match (sigs : list signature) (args : list dtype) : resolution :=
  let ms := all_matches sigs args in
  match ms with
  | [] => NoMatch
  | m0 :: rest =>
      if negb (forallb (dist_defined args) ms) then Internal else
      let best := pick_best args m0 rest in
      if Nat.eqb (count_ties args best ms) 1
      then match snd best with Some r => Unique (fst best) r | None => Internal end
      else Ambiguous
  end.

End WithTable.

(* Observable outcome of [ColFn.dtype()] for an operator of ftype [ft] called with [args]:
   the resolved type with the const rule of ColFn.dtype (element-wise and all arguments const). *)
Inductive outcome :=
| OType (t : dtype) | ODataTypeError | OAssertion | OInternal.

Definition outcome_of (ft : ftype) (args : list dtype) (r : resolution) : outcome :=
  match r with
  | NoMatch => ODataTypeError
  | Unique _ ret =>
      if ftype_eqb ft ElementWise && forallb is_const args
      then (if is_const ret then OInternal   (* Const(Const _) raises TypeError *)
            else OType (TConst ret))
      else OType ret
  | Ambiguous => OAssertion
  | Internal => OInternal
  end.
