(* Model/Accept.v — "the verb front end accepts this pipeline on SQL": at every verb the transcribed
   catalogue (Model/Cache.requires_subquery on the metadata of the child, Cache.from_ast) demands no
   subquery.  [shape_ok] is the fragment of Model/SqlCompile.flat_ok WITHOUT its conditions on the LIMIT
   state of the query under construction: those are what the catalogue has to guarantee.  Definitions only. *)
From Coq Require Import List String NArith ZArith Bool.
From PDT Require Import Model.Dtype Model.Conv Model.Signature Model.Resolve Model.Value Model.Ops
     Model.Expr Model.RefSem Model.Typing Model.Cache Model.SqlCompile.
Import ListNotations.
Open Scope list_scope.

Definition passes (sch : schema) (c v : ast) (is_right : bool) : bool :=
  match cache_of_ast sch c with
  | TOk cc => match requires_subquery false cc v is_right with None => true | Some _ => false end
  | TErr _ => false
  end.

Fixpoint accepted (sch : schema) (a : ast) : bool :=
  match a with
  | Source _ _ => true
  | Select c _ | Rename c _ | Mutate c _ | Filter c _ | Arrange c _ | SliceHead c _ _
  | GroupBy c _ _ | Ungroup c | Summarize c _ | Alias c _ | SubqueryMarker c =>
      accepted sch c && passes sch c a false
  | Join l r _ _ | Union l r _ =>
      accepted sch l && accepted sch r && passes sch l a false && passes sch r a true
  end.

(* flat_ok without the [no_limit] conjuncts of filter / arrange / summarize (a window mutate keeps its own:
   the catalogue rule for it reads function types, which this link does not cover); every slice_head keeps at least one row
   (slice_head(0) is finding F16: the catalogue reads limit = 0 as "no limit") *)
Fixpoint shape_ok (a : ast) : bool :=
  match a with
  | Source _ cols => nodup_u (map snd cols)
  | Select c us =>
      shape_ok c && match compile c with Some cc => forallb (fun u => mem_u u (q_select (c_q cc))) us | None => false end
  | Rename c _ | Ungroup c | Alias c None => shape_ok c
  | GroupBy c us _ =>
      shape_ok c && match compile c with
                    | Some cc => forallb (fun u => mem_u u (q_select (c_q cc))) us
                    | None => false end
  | Mutate c defs =>
      shape_ok c
      && match compile c with
         | Some cc =>
             fresh cc defs && forallb (fun d => scoped (c_scope cc) (snd d)) defs
             && (forallb (fun d => elem (snd d)) defs
                 || (negb (q_summ (c_q cc)) && no_limit (c_q cc) && is_nil (q_order (c_q cc))
                     && forallb (fun d => win_ok (c_defs cc) (snd d)) defs))
         | None => false end
  | Filter c ps =>
      shape_ok c && forallb elem ps
      && match compile c with
         | Some cc => is_nil (q_order (c_q cc)) && forallb (scoped (c_scope cc)) ps
                      && (q_summ (c_q cc) || ds_elem_b (c_defs cc))
         | None => false end
  | Arrange c os =>
      shape_ok c && forallb (fun o => elem (fst o)) os && negb (is_nil os)
      && match compile c with
         | Some cc => is_nil (q_order (c_q cc)) && forallb (fun o => scoped (c_scope cc) (fst o)) os
         | None => false end
  | Summarize c defs =>
      shape_ok c && forallb (fun d => agg1 (snd d)) defs
      && match compile c with
         | Some cc =>
             let q := c_q cc in
             is_nil (q_order q) && negb (q_summ q) && ds_elem_b (c_defs cc)
             && fresh cc defs && forallb (fun d => scoped (c_scope cc) (snd d)) defs
             && forallb (fun d => forallb (fun x => mem_u x (q_part q)) (gcols (snd d))) defs
             && forallb (fun u => mem_u u (q_select q)) (q_part q)
             && forallb (fun u => negb (mem_s (label (c_labels cc) u) (def_names defs))) (q_part q)
         | None => false
         end
  | SliceHead c n k => shape_ok c && Z.ltb 0 n && Z.leb 0 k
  | SubqueryMarker (Alias c0 (Some m)) =>
      (* the renaming keeps different identities different *)
      shape_ok c0
      && match compile c0 with
         | Some cc =>
             let U := ast_uids c0 ++ c_scope cc ++ map fst (c_labels cc) in
             forallb (fun a => forallb (fun b => implb (N.eqb (remap_uid m a) (remap_uid m b)) (N.eqb a b)) U) U
         | None => false
         end
  | SubqueryMarker c => shape_ok c
  | Alias c (Some m) =>
      (* the renaming keeps different identities different; the new identities are new *)
      shape_ok c
      && match compile c with
         | Some cc =>
             let U := ast_uids c ++ c_scope cc ++ map fst (c_labels cc) ++ map fst (c_defs cc) in
             forallb (fun a => forallb (fun b => implb (N.eqb (remap_uid m a) (remap_uid m b)) (N.eqb a b)) U) U
             && nodup_u (map snd m) && nodup_u (map fst m)
             && disjointb (map snd m) (map fst (c_defs cc)) && disjointb (map snd m) (map fst (c_labels cc))
             && forallb (fun x => mem_u x (map fst m)) (c_scope cc)
         | None => false
         end
  | Join l r on JInner =>
      (* both operands: plain SELECT ... FROM ... WHERE (not summarized, ordered, limited or grouped, no
         window column), an element-wise condition, and the two operands share no column identity *)
      shape_ok l && shape_ok r && elem on
      && match compile l, compile r with
         | Some cl, Some cr =>
             let plain := fun c : compiled =>
                 negb (q_summ (c_q c)) && is_nil (q_order (c_q c)) && is_nil (q_part (c_q c))
                 && ds_elem_b (c_defs c) in
             plain cl && plain cr
             && scoped (c_scope cl ++ c_scope cr) on
             && disjointb (c_scope cl) (ast_uids r) && disjointb (c_scope cr) (ast_uids l)
             && disjointb (c_cols cl) (c_cols cr)
             && disjointb (map fst (c_defs cl)) (map fst (c_defs cr))
             && disjointb (q_select (c_q cl)) (map fst (c_labels cr))
         | _, _ => false
         end
  | Join l r on JLeft =>
      (* as for the inner join; in addition the right operand has no computed column: an inlined definition
         would be evaluated on the NULL padding of a left row without partner (finding F37) *)
      shape_ok l && shape_ok r && elem on
      && match compile l, compile r with
         | Some cl, Some cr =>
             let plain := fun c : compiled =>
                 negb (q_summ (c_q c)) && is_nil (q_order (c_q c)) && is_nil (q_part (c_q c))
                 && ds_elem_b (c_defs c) in
             plain cl && plain cr
             && forallb (fun d => match snd d with ECol _ => true | _ => false end) (c_defs cr)
             && scoped (c_scope cl ++ c_scope cr) on
             && disjointb (c_scope cl) (ast_uids r) && disjointb (c_scope cr) (ast_uids l)
             && disjointb (c_cols cl) (c_cols cr)
             && disjointb (map fst (c_defs cl)) (map fst (c_defs cr))
             && disjointb (q_select (c_q cl)) (map fst (c_labels cr))
         | _, _ => false
         end
  | Join l r on JFull =>
      (* as for the left join, and no computed column on the left either *)
      shape_ok l && shape_ok r && elem on
      && match compile l, compile r with
         | Some cl, Some cr =>
             let plain := fun c : compiled =>
                 negb (q_summ (c_q c)) && is_nil (q_order (c_q c)) && is_nil (q_part (c_q c))
                 && ds_elem_b (c_defs c) in
             plain cl && plain cr
             && forallb (fun d => match snd d with ECol _ => true | _ => false end) (c_defs cl)
             && forallb (fun d => match snd d with ECol _ => true | _ => false end) (c_defs cr)
             && scoped (c_scope cl ++ c_scope cr) on
             && disjointb (c_scope cl) (ast_uids r) && disjointb (c_scope cr) (ast_uids l)
             && disjointb (c_cols cl) (c_cols cr)
             && disjointb (map fst (c_defs cl)) (map fst (c_defs cr))
             && disjointb (q_select (c_q cl)) (map fst (c_labels cr))
         | _, _ => false
         end
  | Union l r _ =>                              (* compile = Some: every left column name exists on the right *)
      shape_ok l && shape_ok r && match compile l with Some cl => nodup_u (q_select (c_q cl)) | None => false end
  end.
