(* Properties/C18.v — Python literals and patterns reach SQL as data. *)
From Coq Require Import List String Ascii Bool.
From PDT Require Import Model.SqlText Proofs.SqlTextLemmas.
Import ListNotations.
Open Scope string_scope.

(* THE ONE-TOKEN THEOREM: whatever the Python string contains - quotes, backslashes, `--`, `/*`, `;`,
   newlines, any bytes - its rendering (every quote doubled, wrapped in quotes) followed by any text
   that does not start with a quote reads back as exactly that string and exactly that text: the
   statement keeps its structure. *)
Theorem quote_is_one_token : forall s rest,
  (match rest with String c _ => Ascii.eqb c sq = false | EmptyString => True end) ->
  read_literal (quote s ++ rest) = Some (s, rest).
Proof. exact quote_is_one_token_proof. Qed.
Print Assumptions quote_is_one_token.

Theorem quote_roundtrip : forall s, read_literal (quote s) = Some (s, EmptyString).
Proof. exact quote_roundtrip_proof. Qed.
Print Assumptions quote_roundtrip.

(* LIKE-based operators with autoescape ('/' as escape) are the literal prefix / suffix tests for
   every pattern - `%`, `_` and `/` included - and every subject *)
Theorem like_prefix : forall p x,
  like (autoescape esc p ++ String pct EmptyString) esc x = is_prefix p x.
Proof. exact like_prefix_proof. Qed.
Print Assumptions like_prefix.

Theorem like_suffix : forall p x,
  like (String pct (autoescape esc p)) esc x = is_suffix_of p x.
Proof. exact like_suffix_proof. Qed.
Print Assumptions like_suffix.

(* FULL STATEMENT for SQLite: str.starts_with / ends_with / contains agree with Polars.  False on the
   unchanged tree for mixed letter case (SQLite's LIKE is case-insensitive for ASCII letters, finding
   F13); the byte-exact LIKE above is what the autoescape construction guarantees. *)

Example nasty_literal :
  read_literal (quote "it's; -- /* x' */" ++ " AS z FROM t") = Some ("it's; -- /* x' */", " AS z FROM t")
  /\ like (autoescape esc "100%_/" ++ "%") esc "100%_/done" = true
  /\ like (autoescape esc "100%" ++ "%") esc "100x" = false.
Proof. vm_compute. repeat split; reflexivity. Qed.
