(* Properties/C11.v — Table metadata agrees with the exported frame.
   In the reference semantics the visible-name list `sel` IS the exported header; these theorems
   say how each verb transforms it (names, order, count), for every table.  The tie compares
   columns() / iteration / len / in / dir / Cache.from_ast with the exported frame of both backends
   and the frame with the reference (props/c11.py). *)
From Coq Require Import List String NArith ZArith Bool.
From PDT Require Import Base.StableSort Model.Dtype Model.Value Model.Ops Model.Expr Model.RefSem
     Model.Typing Model.Cache Proofs.RefLemmas Proofs.AggLemmas Proofs.JoinUnionLemmas Proofs.CacheLemmas.
Import ListNotations.
Open Scope list_scope.

(* MAIN THEOREM.  For every well-formed resolved AST (any verbs, any expressions) and ALL data: the
   names that the metadata model reports (Model/Cache.v = transcription of Cache.update/from_ast,
   tied to the real Cache by the L2 correspondence) are, in names, order and count, the header of the
   reference result.  [wf] collects what the verb front end establishes (join names made disjoint
   by suffixing, grouping columns visible, distinct new names); it is evaluated on every sampled
   case and the share of cases satisfying it is reported in the evidence. *)
Theorem metadata_names_are_export_header : forall sch d a c,
  wf sch a = true -> cache_of_ast sch a = TOk c ->
  map fst (name_to_uuid c) = f_names (export_ref (sem_ref d a))
  /\ List.length (name_to_uuid c) = List.length (f_names (export_ref (sem_ref d a)))
  /\ partition_by c = group (sem_ref d a).
Proof.
  intros sch d a c W H. destruct (cache_agrees_with_reference sch d a c W H) as [En Ep].
  unfold export_ref. cbn [f_names]. rewrite En, map_length. repeat split. exact Ep.
Qed.
Print Assumptions metadata_names_are_export_header.

(* the exported header is exactly the visible-name list, in its order, and every exported row has
   one cell per name *)
Theorem header_is_sel : forall s,
  f_names (export_ref s) = map fst (sel s)
  /\ Forall (fun r => List.length r = List.length (sel s)) (f_rows (export_ref s)).
Proof.
  intros s. split; [reflexivity|]. unfold export_ref. cbn [f_rows].
  apply Forall_forall. intros r H. apply in_map_iff in H. destruct H as [x [<- _]].
  apply map_length.
Qed.
Print Assumptions header_is_sel.

(* select: the new header lists the selected columns in the ORDER OF THE ARGUMENTS *)
Theorem select_header_in_argument_order : forall d c us,
  map snd (sel (sem_ref d (Select c us))) = us.
Proof. intros. apply select_only_hides. Qed.
Print Assumptions select_header_in_argument_order.

(* mutate: overwritten names leave their position, the new columns are appended in call order *)
Theorem mutate_header : forall s defs,
  sel (do_mutate s defs)
  = filter (fun p => negb (mem_s (fst p) (map (fun d => fst (fst d)) defs))) (sel s)
    ++ map (fun d => (fst (fst d), snd (fst d))) defs.
Proof. reflexivity. Qed.
Print Assumptions mutate_header.

Theorem summarize_header : forall s defs,
  map snd (sel (do_summarize s defs))
  = map snd (filter (fun p => negb (mem_s (fst p) (map (fun d => fst (fst d)) defs)))
                    (map (fun u => (name_of (sel s) u, u)) (group s)))
    ++ map (fun d => snd (fst d)) defs.
Proof. exact summarize_columns_proof. Qed.
Print Assumptions summarize_header.

Theorem rename_keeps_positions : forall d c m,
  map snd (sel (sem_ref d (Rename c m))) = map snd (sel (sem_ref d c)).
Proof. intros. apply rename_only_names. Qed.
Print Assumptions rename_keeps_positions.

Theorem join_header : forall l r on how, sel (do_join l r on how) = sel l ++ sel r.
Proof. intros. apply join_visible_columns_proof. Qed.
Print Assumptions join_header.

Theorem union_header : forall l r dist, sel (do_union l r dist) = sel l.
Proof. reflexivity. Qed.
Print Assumptions union_header.

Example reorder_and_overwrite :
  let d := [("t"%string, [[VInt 1; VInt 2; VInt 3]])] in
  let src := Source "t" [("a"%string, 1%N); ("b"%string, 2%N); ("c"%string, 3%N)] in
  f_names (export_ref (sem_ref d (Mutate (Select src [3%N; 1%N]) [("c"%string, 4%N, ECol 2%N)])))
  = ["a"%string; "c"%string].
Proof. vm_compute. reflexivity. Qed.
