(* Properties/C14.v — Ill-formed pipelines are rejected when built, with the documented error.
   Theorems about the transcribed type checker (Model/Typing.v); the verb-level rules are tied by the
   planted-defect stream of props/c14.py (every rule x every syntactic position x both backends),
   the converse (accepted => exports on Polars) by every pipeline check. *)
From Coq Require Import List String NArith ZArith Bool.
From PDT Require Import Model.Dtype Model.Value Model.Ops Model.Expr Model.Typing Proofs.RejectLemmas.
From PDTGen Require Import Catalogue.
Import ListNotations.

Theorem nested_aggwin_rejected_in_every_position : forall aiw env o args hp part arr fts,
  op_ftype o <> ElementWise ->
  (exists a, (In a args \/ In a part \/ exists m, In (a, m) arr) /\ occurs a) ->
  (fix go (l : list expr) : tres (list ftype) :=
     match l with
     | [] => TOk []
     | a :: l' => tbind (ftype_of aiw env a) (fun t => tbind (go l') (fun ts => TOk (t :: ts)))
     end) args = TOk fts ->
  ftype_of aiw env (EFn o args hp part arr) = TErr EFunctionType.
Proof. exact nested_aggwin_rejected_proof. Qed.
Print Assumptions nested_aggwin_rejected_in_every_position.

Theorem occurrence_is_found_everywhere : forall e, occurs e -> has_aggwin_fn e = true.
Proof. exact has_aggwin_complete. Qed.
Print Assumptions occurrence_is_found_everywhere.

Theorem unknown_column_rejected : forall env u, env_get env u = None ->
  dtype_of env (ECol u) = TErr EColumnNotFound /\ ftype_of true env (ECol u) = TErr EColumnNotFound.
Proof. exact unknown_column_rejected_proof. Qed.
Print Assumptions unknown_column_rejected.

Theorem case_condition_must_be_bool : forall env c v d t,
  dtype_of env c = TOk t -> dtype_eqb (without_const t) (TS SBool) = false ->
  dtype_of env (ECase [(c, v)] d) = TErr EDataType.
Proof. exact case_condition_must_be_bool_proof. Qed.
Print Assumptions case_condition_must_be_bool.

(* non-vacuity: a window function inside arrange= of another window function, inside a case branch *)
Example nested_in_arrange_example :
  let env := [(1%N, {| c_name := "a"; c_dtype := TS SInt64; c_ftype := ElementWise |})] in
  let inner := EFn Op_rank [] false [] [(ECol 1%N, (false, None))] in
  ftype_of true env (EFn Op_shift [ECol 1%N; ELit (VInt 1); ELit VNull] false []
                         [(ECase [(ELit (VBool true), inner)] None, (false, None))])
  = TErr EFunctionType.
Proof. vm_compute. reflexivity. Qed.
