(* Properties/C06.v — join: exact row combinations, collision-free names, all columns reachable. *)
From Coq Require Import List String NArith ZArith Bool.
From PDT Require Import Base.StableSort Model.Dtype Model.Value Model.Ops Model.Expr Model.RefSem
     Model.SqlCompile Model.PlCompile Proofs.JoinUnionLemmas Proofs.SqlCompileLemmas Proofs.PlCompileLemmas.
From PDTGen Require Import Catalogue.
Import ListNotations.
Open Scope list_scope.

Theorem inner_join_spec : forall l r on,
  rows (do_join l r on JInner)
  = flat_map (fun lr => map (fun rr => lr ++ rr) (filter (on_true on lr) (rows r))) (rows l).
Proof. exact inner_join_spec_proof. Qed.
Print Assumptions inner_join_spec.

Theorem null_never_equals : forall v,
  value_eqb (v_eq VNull v) (VBool true) = false /\ value_eqb (v_eq v VNull) (VBool true) = false.
Proof. exact null_never_equal_proof. Qed.
Print Assumptions null_never_equals.

Theorem cross_join_is_full_product : forall l r,
  List.length (rows (do_join l r (ELit (VBool true)) JInner))
  = (List.length (rows l) * List.length (rows r))%nat.
Proof. exact cross_join_count_proof. Qed.
Print Assumptions cross_join_is_full_product.

Theorem left_join_keeps_every_left_row : forall l r on lr,
  In lr (rows l) -> exists rr, In (lr ++ rr) (rows (do_join l r on JLeft)).
Proof. exact left_join_keeps_left_rows_proof. Qed.
Print Assumptions left_join_keeps_every_left_row.

Theorem unmatched_rows_are_null_padded : forall (lr : row) u,
  (forall v, ~ In (u, v) lr) -> get (lr ++ []) u = VNull.
Proof. exact padded_right_columns_are_null_proof. Qed.
Print Assumptions unmatched_rows_are_null_padded.

Theorem join_visible_columns : forall l r on how,
  sel (do_join l r on how) = sel l ++ sel r /\ group (do_join l r on how) = [].
Proof. exact join_visible_columns_proof. Qed.
Print Assumptions join_visible_columns.

(* SQL, inner and cross joins: the transcription of the Join branch of SqlImpl.compile_ast - FROM l JOIN r ON
   <the condition with the definitions of both operands inlined>, the WHERE predicates of the right operand
   appended to those of the left, select lists concatenated - denotes the reference table for all data.
   Operands: pipelines of the flat fragment that are plain SELECT .. FROM .. WHERE (computed columns,
   filters, renames, hidden columns, unions, earlier joins); any verb of the fragment may follow (filters,
   window functions, summarize, arrange, slice).  The proof needs that the operands share no column identity:
   rows of the reference semantics carry exactly the uids their pipeline mentions (Proofs/RefKeys.ref_keys) and
   a compiled query reads only its own FROM columns (compile_base), so neither side shadows the other. *)
Theorem sql_inner_join_is_the_reference : forall d l r on c,
  compile (Join l r on JInner) = Some c -> flat_ok (Join l r on JInner) = true ->
  sem_query d c = export_ref (do_join (sem_ref d l) (sem_ref d r) on JInner).
Proof. intros d l r on c C F. apply (sql_compile_correct_proof d (Join l r on JInner) c C F). Qed.
Print Assumptions sql_inner_join_is_the_reference.

(* Polars, inner and cross joins: the transcription of the Join branch of the Polars compile_ast - the three
   passes of rename_overwritten_cols that resolve name collisions among hidden columns (right columns named
   like a visible left column; left columns named like a visible right column; right columns named like ANY
   left column), name_in_df.update, the pairs of rows satisfying the condition with the columns of both
   frames side by side - exports the reference table for all data.  The proof shows that after the passes no
   column name occurs in both frames (user names: pass 3; suffixed names: fresh), so every column identity of
   either operand still reads its own column in the joined frame. *)
Theorem polars_inner_join_is_the_reference : forall d l r on st,
  pl_compile d (Join l r on JInner) = Some st -> pflat_ok d (Join l r on JInner) = true ->
  pl_export st = export_ref (do_join (sem_ref d l) (sem_ref d r) on JInner).
Proof. intros d l r on st C F. apply (pl_compile_correct_proof d (Join l r on JInner) st C F). Qed.
Print Assumptions polars_inner_join_is_the_reference.

(* LEFT joins.  SQL: the WHERE predicates of the right operand go into the ON clause, a left row without
   partner appears once and its right columns read NULL.  The theorem needs the right operand to have no
   computed column: an inlined definition is evaluated on the NULL padding (coalesce(x, 0) gives 0 where the
   reference pads NULL) - this is exactly the listed finding F37, and the catalogue's "constant column" rule
   covers only literals.  Polars pads computed columns correctly: no such condition there. *)
Theorem sql_left_join_is_the_reference : forall d l r on c,
  compile (Join l r on JLeft) = Some c -> flat_ok (Join l r on JLeft) = true ->
  sem_query d c = export_ref (do_join (sem_ref d l) (sem_ref d r) on JLeft).
Proof. intros d l r on c C F. apply (sql_compile_correct_proof d (Join l r on JLeft) c C F). Qed.
Print Assumptions sql_left_join_is_the_reference.

Theorem polars_left_join_is_the_reference : forall d l r on st,
  pl_compile d (Join l r on JLeft) = Some st -> pflat_ok d (Join l r on JLeft) = true ->
  pl_export st = export_ref (do_join (sem_ref d l) (sem_ref d r) on JLeft).
Proof. intros d l r on st C F. apply (pl_compile_correct_proof d (Join l r on JLeft) st C F). Qed.
Print Assumptions polars_left_join_is_the_reference.

(* FULL joins.  SQL: compile_ast asserts that neither operand carries a WHERE predicate; the theorem needs
   both operands without computed columns (either side can be padded).  Polars: unconditional. *)
Theorem sql_full_join_is_the_reference : forall d l r on c,
  compile (Join l r on JFull) = Some c -> flat_ok (Join l r on JFull) = true ->
  sem_query d c = export_ref (do_join (sem_ref d l) (sem_ref d r) on JFull).
Proof. intros d l r on c C F. apply (sql_compile_correct_proof d (Join l r on JFull) c C F). Qed.
Print Assumptions sql_full_join_is_the_reference.

Theorem polars_full_join_is_the_reference : forall d l r on st,
  pl_compile d (Join l r on JFull) = Some st -> pflat_ok d (Join l r on JFull) = true ->
  pl_export st = export_ref (do_join (sem_ref d l) (sem_ref d r) on JFull).
Proof. intros d l r on st C F. apply (pl_compile_correct_proof d (Join l r on JFull) st C F). Qed.
Print Assumptions polars_full_join_is_the_reference.

(* F37 in the model: with a computed column on the right of a left join the SELECT does NOT denote the
   reference table (the witness is replayed against the implementation by the probe of F37) *)
Theorem left_join_computed_right_refuted : exists d l r on c,
  compile (Join l r on JLeft) = Some c /\ sem_query d c <> export_ref (do_join (sem_ref d l) (sem_ref d r) on JLeft).
Proof.
  exists [("l"%string, [[VInt 1]; [VInt 2]]); ("r"%string, [[VInt 1]])],
         (Source "l" [("a"%string, 1%N)]),
         (Mutate (Source "r" [("b"%string, 2%N)]) [("y"%string, 3%N, EFn Op_coalesce [ECol 2%N; ELit (VInt 5)] false [] [])]),
         (EFn Op_equal [ECol 1%N; ECol 2%N] false [] []).
  eexists. split; [reflexivity|]. vm_compute. discriminate.
Qed.
Print Assumptions left_join_computed_right_refuted.

(* non-vacuity: computed columns and filters on both sides, an inequality in the condition, a summarize after *)
Example inner_join_example :
  let d := [("l"%string, [[VInt 1; VInt 10]; [VInt 2; VInt 20]; [VNull; VInt 30]; [VInt 2; VInt 40]]);
            ("r"%string, [[VInt 2; VInt 5]; [VInt 2; VInt 50]; [VInt 3; VInt 1]; [VNull; VInt 2]])] in
  let l := Filter (Mutate (Source "l" [("k"%string, 1%N); ("x"%string, 2%N)])
                          [("y"%string, 3%N, EFn Op_add [ECol 2%N; ELit (VInt 1)] false [] [])])
                  [EFn Op_greater_than [ECol 3%N; ELit (VInt 15)] false [] []] in
  let r := Mutate (Source "r" [("k2"%string, 4%N); ("z"%string, 5%N)])
                  [("w"%string, 6%N, EFn Op_mul [ECol 5%N; ELit (VInt 2)] false [] [])] in
  let j := Join l r (EFn Op_bool_and [EFn Op_equal [ECol 1%N; ECol 4%N] false [] [];
                                      EFn Op_less_than [ECol 6%N; ECol 3%N] false [] []] false [] []) JInner in
  flat_ok j = true /\ pflat_ok d j = true
  /\ flat_ok (Join l (Source "r" [("k2"%string, 4%N); ("z"%string, 5%N)]) (EFn Op_equal [ECol 1%N; ECol 4%N] false [] []) JLeft) = true
  /\ pflat_ok d (Join l r (EFn Op_equal [ECol 1%N; ECol 4%N] false [] []) JLeft) = true
  /\ flat_ok (Summarize (GroupBy j [1%N] false) [("n"%string, 9%N, EFn Op_count_star [] false [] [])]) = true
  /\ f_rows (export_ref (sem_ref d j)) = [[VInt 2; VInt 20; VInt 21; VInt 2; VInt 5; VInt 10]; [VInt 2; VInt 40; VInt 41; VInt 2; VInt 5; VInt 10]]
  /\ option_map (fun c => f_rows (sem_query d c)) (compile j) = Some (f_rows (export_ref (sem_ref d j))).
Proof. vm_compute. repeat split; reflexivity. Qed.

Example full_join_example :
  let d := [("l"%string, [[VInt 1]; [VNull]; [VInt 2]]); ("r"%string, [[VInt 2]; [VInt 2]; [VInt 3]; [VNull]])] in
  let a := Join (Source "l" [("a"%string, 1%N)]) (Source "r" [("b"%string, 2%N)])
                (EFn PDTGen.Catalogue.Op_equal [ECol 1%N; ECol 2%N] false [] []) JFull in
  f_rows (export_ref (sem_ref d a))
  = [[VInt 1; VNull]; [VNull; VNull]; [VInt 2; VInt 2]; [VInt 2; VInt 2]; [VNull; VInt 3]; [VNull; VNull]]
  /\ flat_ok a = true /\ pflat_ok d a = true.
Proof. vm_compute. repeat split; reflexivity. Qed.
