(* Properties/C06.v — join: exact row combinations, collision-free names, all columns reachable. *)
From Coq Require Import List String NArith ZArith Bool.
From PDT Require Import Base.StableSort Model.Dtype Model.Value Model.Ops Model.Expr Model.RefSem
     Proofs.JoinUnionLemmas.
Import ListNotations.
Open Scope list_scope.

Theorem inner_join_spec : forall l r on,
  rows (do_join l r on JInner)
  = flat_map (fun lr => map (fun rr => lr ++ rr) (filter (on_true on lr) (rows r))) (rows l).
Proof. exact inner_join_spec_proof. Qed.
Print Assumptions inner_join_spec.

Theorem null_never_equals : forall v,
  value_eqb (v_eq VNull v) (VBool true) = false /\ value_eqb (v_eq v VNull) (VBool true) = false.
Proof. exact null_never_equal_proof. Qed.
Print Assumptions null_never_equals.

Theorem cross_join_is_full_product : forall l r,
  List.length (rows (do_join l r (ELit (VBool true)) JInner))
  = (List.length (rows l) * List.length (rows r))%nat.
Proof. exact cross_join_count_proof. Qed.
Print Assumptions cross_join_is_full_product.

Theorem left_join_keeps_every_left_row : forall l r on lr,
  In lr (rows l) -> exists rr, In (lr ++ rr) (rows (do_join l r on JLeft)).
Proof. exact left_join_keeps_left_rows_proof. Qed.
Print Assumptions left_join_keeps_every_left_row.

Theorem unmatched_rows_are_null_padded : forall (lr : row) u,
  (forall v, ~ In (u, v) lr) -> get (lr ++ []) u = VNull.
Proof. exact padded_right_columns_are_null_proof. Qed.
Print Assumptions unmatched_rows_are_null_padded.

Theorem join_visible_columns : forall l r on how,
  sel (do_join l r on how) = sel l ++ sel r /\ group (do_join l r on how) = [].
Proof. exact join_visible_columns_proof. Qed.
Print Assumptions join_visible_columns.

Example full_join_example :
  let d := [("l"%string, [[VInt 1]; [VNull]; [VInt 2]]); ("r"%string, [[VInt 2]; [VInt 2]; [VInt 3]; [VNull]])] in
  let a := Join (Source "l" [("a"%string, 1%N)]) (Source "r" [("b"%string, 2%N)])
                (EFn PDTGen.Catalogue.Op_equal [ECol 1%N; ECol 2%N] false [] []) JFull in
  f_rows (export_ref (sem_ref d a))
  = [[VInt 1; VNull]; [VNull; VNull]; [VInt 2; VInt 2]; [VInt 2; VInt 2]; [VNull; VInt 3]; [VNull; VNull]].
Proof. vm_compute. reflexivity. Qed.
