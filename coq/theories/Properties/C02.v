(* Properties/C02.v — Single-table row-level verbs compute their documented meaning.
   The reference semantics (Model/RefSem.v) is the independent row-by-row evaluation; these theorems
   pin down what each verb changes and what it must leave alone, for every table and every
   expression.  The tie to the code is the L1 correspondence: export(Polars()) of the Polars- and
   SQLite-backed table = export_ref (sem_ref db ast) on the real resolved AST (props/c02.py). *)
From Coq Require Import List String NArith ZArith Bool Permutation.
From PDT Require Import Base.StableSort Model.Dtype Model.Value Model.Ops Model.Expr Model.RefSem
     Proofs.SortLemmas Proofs.RefLemmas.
Import ListNotations.

Theorem select_drop_only_hide : forall d c us,
  rows (sem_ref d (Select c us)) = rows (sem_ref d c)
  /\ group (sem_ref d (Select c us)) = group (sem_ref d c)
  /\ map snd (sel (sem_ref d (Select c us))) = us.
Proof. exact select_only_hides. Qed.
Print Assumptions select_drop_only_hide.

Theorem rename_changes_only_names : forall d c m,
  rows (sem_ref d (Rename c m)) = rows (sem_ref d c)
  /\ map snd (sel (sem_ref d (Rename c m))) = map snd (sel (sem_ref d c))
  /\ group (sem_ref d (Rename c m)) = group (sem_ref d c).
Proof. exact rename_only_names. Qed.
Print Assumptions rename_changes_only_names.

(* every expression of one mutate call is evaluated against the table as it was before the call *)
Theorem mutate_is_simultaneous : forall s defs i ir d,
  NoDup (map (fun d => snd (fst d)) defs) ->
  nth_error (index_rows (rows s)) i = Some ir -> In d defs ->
  exists r', nth_error (rows (do_mutate s defs)) i = Some r' /\
             get r' (snd (fst d)) = eval (index_rows (rows s)) ir (snd d).
Proof. exact mutate_simultaneous. Qed.
Print Assumptions mutate_is_simultaneous.

(* an overwritten column keeps its data under its old uid; no other column changes *)
Theorem mutate_overwrite_keeps_old : forall s defs i ir u,
  ~ In u (map (fun d => snd (fst d)) defs) ->
  nth_error (index_rows (rows s)) i = Some ir ->
  exists r', nth_error (rows (do_mutate s defs)) i = Some r' /\ get r' u = get (snd ir) u.
Proof. exact mutate_keeps_old. Qed.
Print Assumptions mutate_overwrite_keeps_old.

Theorem mutate_keeps_row_count : forall s defs,
  List.length (rows (do_mutate s defs)) = List.length (rows s).
Proof. exact mutate_preserves_length. Qed.
Print Assumptions mutate_keeps_row_count.

(* filter keeps exactly the rows where all predicates are true, in their order *)
Theorem filter_keeps_exactly_the_true_rows : forall s ps,
  rows (do_filter s ps)
  = map snd (filter (passes (index_rows (rows s)) ps) (index_rows (rows s))).
Proof. exact filter_keeps_exactly_true. Qed.
Print Assumptions filter_keeps_exactly_the_true_rows.

(* slice_head(n, offset=k) keeps rows k .. k+n-1; a chain of slices is one slice *)
Theorem slice_head_spec : forall s n k,
  rows (do_slice s n k) = firstn (Z.to_nat n) (skipn (Z.to_nat k) (rows s)).
Proof. exact slice_spec. Qed.
Print Assumptions slice_head_spec.

Theorem slice_head_chain : forall s n1 k1 n2 k2,
  (0 <= n1)%Z -> (0 <= k1)%Z -> (0 <= n2)%Z -> (0 <= k2)%Z ->
  rows (do_slice (do_slice s n1 k1) n2 k2)
  = rows (do_slice s (Z.min (Z.max (n1 - k2) 0) n2) (k1 + k2)).
Proof. exact slice_chain. Qed.
Print Assumptions slice_head_chain.

Theorem group_by_ungroup_alias_change_no_data : forall d c us add,
  rows (sem_ref d (GroupBy c us add)) = rows (sem_ref d c)
  /\ sel (sem_ref d (GroupBy c us add)) = sel (sem_ref d c)
  /\ rows (sem_ref d (Ungroup c)) = rows (sem_ref d c)
  /\ sel (sem_ref d (Ungroup c)) = sel (sem_ref d c)
  /\ export_ref (sem_ref d (Alias c None)) = export_ref (sem_ref d c)
  /\ export_ref (sem_ref d (SubqueryMarker c)) = export_ref (sem_ref d c).
Proof. exact group_alias_no_data_change. Qed.
Print Assumptions group_by_ungroup_alias_change_no_data.

(* non-vacuity: a concrete table on which a swap by simultaneous mutate is observable *)
Example swap_by_mutate :
  let d := [("t"%string, [[VInt 1; VInt 2]; [VInt 3; VInt 4]])] in
  let a := Mutate (Source "t" [("a"%string, 1%N); ("b"%string, 2%N)])
                  [("a"%string, 3%N, ECol 2%N); ("b"%string, 4%N, ECol 1%N)] in
  f_rows (export_ref (sem_ref d a)) = [[VInt 2; VInt 1]; [VInt 4; VInt 3]].
Proof. vm_compute. reflexivity. Qed.
