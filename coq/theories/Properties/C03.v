(* Properties/C03.v — Element-wise operators follow the documented null-aware semantics.
   The operator implementations are READ BACK from the running backends as expression trees
   (generated/OpImpls.v, translator harness/translate.py gen_opimpls, fail-closed) and proved equal to
   the documented operator (Model/Ops.ewise) under the engines' primitive semantics
   (Model/ImplExpr.v), for all operand values.  The primitive semantics and `ewise` itself are tied to
   the real engines by the operand grid (props/c03.py). *)
From Coq Require Import List String NArith ZArith Bool.
From PDT Require Import Model.Dtype Model.Value Model.Ops Model.ImplExpr Proofs.OpCorrect Proofs.Greatest.
From PDTGen Require Import Catalogue OpImpls.
Import ListNotations.
Open Scope Z_scope.

(* integer // truncates toward zero, % takes the sign of the dividend: Polars builds them from FLOOR
   division and modulo (abs / sign juggling), SQLite has them natively *)
Theorem polars_floordiv_ok : forall x y, y <> 0 -> small x -> small y ->
  pl_eval (env_of [VInt x; VInt y]) polars_floordiv = ewise Op_floordiv [VInt x; VInt y].
Proof. exact polars_floordiv_ok_proof. Qed.
Print Assumptions polars_floordiv_ok.

Theorem polars_mod_ok : forall x y, y <> 0 -> small x -> small y ->
  pl_eval (env_of [VInt x; VInt y]) polars_mod = ewise Op_mod [VInt x; VInt y].
Proof. exact polars_mod_ok_proof. Qed.
Print Assumptions polars_mod_ok.

Theorem sqlite_floordiv_mod_ok : forall x y, y <> 0 -> small x -> small y ->
  sql_eval (env_of [VInt x; VInt y]) sqlite_floordiv = ewise Op_floordiv [VInt x; VInt y]
  /\ sql_eval (env_of [VInt x; VInt y]) sqlite_mod = ewise Op_mod [VInt x; VInt y].
Proof. exact sqlite_floordiv_mod_ok_proof. Qed.
Print Assumptions sqlite_floordiv_mod_ok.

Theorem floordiv_mod_propagate_null : forall v,
  (v = VNull \/ exists z, small z /\ v = VInt z) ->
  pl_eval (env_of [VNull; v]) polars_floordiv = VNull /\ pl_eval (env_of [VNull; v]) polars_mod = VNull
  /\ sql_eval (env_of [VNull; v]) sqlite_floordiv = VNull /\ sql_eval (env_of [VNull; v]) sqlite_mod = VNull
  /\ ewise Op_floordiv [VNull; v] = VNull /\ ewise Op_mod [VNull; v] = VNull.
Proof. exact floordiv_mod_null_proof. Qed.
Print Assumptions floordiv_mod_propagate_null.

(* horizontal max / min skip nulls.  SQLite: for EVERY arity and all operands, the divide-and-conquer
   COALESCE(MAX(l, r), l, r) recursion is the null-skipping maximum ... *)
Theorem sqlite_greatest_any_arity : forall env fuel xs,
  (List.length xs <= fuel)%nat -> xs <> [] -> Forall ion (map (sql_eval env) xs) ->
  sql_eval env (dnc SfMax fuel xs) = ewise Op_horizontal_max (map (sql_eval env) xs).
Proof. exact sqlite_greatest_any_arity_proof. Qed.
Print Assumptions sqlite_greatest_any_arity.

Theorem sqlite_least_any_arity : forall env fuel xs,
  (List.length xs <= fuel)%nat -> xs <> [] -> Forall ion (map (sql_eval env) xs) ->
  sql_eval env (dnc SfMin fuel xs) = ewise Op_horizontal_min (map (sql_eval env) xs).
Proof. exact sqlite_least_any_arity_proof. Qed.
Print Assumptions sqlite_least_any_arity.

(* ... and the trees that the real _greatest / _least build for 2..6 arguments are that recursion *)
Theorem generated_trees_are_the_recursion :
  sqlite_hmax2 = dnc SfMax 6 (argcols 2) /\ sqlite_hmax3 = dnc SfMax 6 (argcols 3)
  /\ sqlite_hmax4 = dnc SfMax 6 (argcols 4) /\ sqlite_hmax5 = dnc SfMax 6 (argcols 5)
  /\ sqlite_hmax6 = dnc SfMax 6 (argcols 6)
  /\ sqlite_hmin2 = dnc SfMin 6 (argcols 2) /\ sqlite_hmin3 = dnc SfMin 6 (argcols 3)
  /\ sqlite_hmin4 = dnc SfMin 6 (argcols 4) /\ sqlite_hmin5 = dnc SfMin 6 (argcols 5)
  /\ sqlite_hmin6 = dnc SfMin 6 (argcols 6).
Proof. exact generated_trees_are_the_recursion_proof. Qed.
Print Assumptions generated_trees_are_the_recursion.

Theorem is_in_ok : forall x y z w, ion x -> ion y -> ion z -> ion w ->
  pl_eval (env_of [x]) polars_is_in1 = ewise Op_is_in [x]
  /\ sql_eval (env_of [x]) sqlite_is_in1 = ewise Op_is_in [x]
  /\ pl_eval (env_of [x; y]) polars_is_in2 = ewise Op_is_in [x; y]
  /\ sql_eval (env_of [x; y]) sqlite_is_in2 = ewise Op_is_in [x; y]
  /\ pl_eval (env_of [x; y; z]) polars_is_in3 = ewise Op_is_in [x; y; z]
  /\ sql_eval (env_of [x; y; z]) sqlite_is_in3 = ewise Op_is_in [x; y; z]
  /\ pl_eval (env_of [x; y; z; w]) polars_is_in4 = ewise Op_is_in [x; y; z; w]
  /\ sql_eval (env_of [x; y; z; w]) sqlite_is_in4 = ewise Op_is_in [x; y; z; w].
Proof. exact is_in_ok_proof. Qed.
Print Assumptions is_in_ok.

Theorem bool_ops_are_kleene : forall x y, bon x -> bon y ->
  pl_eval (env_of [x; y]) polars_bool_and = ewise Op_bool_and [x; y]
  /\ sql_eval (env_of [x; y]) sqlite_bool_and = ewise Op_bool_and [x; y]
  /\ pl_eval (env_of [x; y]) polars_bool_or = ewise Op_bool_or [x; y]
  /\ sql_eval (env_of [x; y]) sqlite_bool_or = ewise Op_bool_or [x; y]
  /\ pl_eval (env_of [x; y]) polars_bool_xor = ewise Op_bool_xor [x; y]
  /\ sql_eval (env_of [x; y]) sqlite_bool_xor = ewise Op_bool_xor [x; y]
  /\ pl_eval (env_of [x]) polars_bool_invert = ewise Op_bool_invert [x]
  /\ sql_eval (env_of [x]) sqlite_bool_invert = ewise Op_bool_invert [x].
Proof. exact bool_ops_ok_proof. Qed.
Print Assumptions bool_ops_are_kleene.

Theorem clip_ok : forall x lo hi, ion x ->
  pl_eval (env_of [x; VInt lo; VInt hi]) polars_clip = ewise Op_clip [x; VInt lo; VInt hi]
  /\ sql_eval (env_of [x; VInt lo; VInt hi]) sqlite_clip = ewise Op_clip [x; VInt lo; VInt hi].
Proof. exact clip_ok_proof. Qed.
Print Assumptions clip_ok.

Theorem fill_null_coalesce_ok : forall x y z, ion x -> ion y -> ion z ->
  pl_eval (env_of [x; y]) polars_fill_null = ewise Op_fill_null [x; y]
  /\ sql_eval (env_of [x; y]) sqlite_fill_null = ewise Op_fill_null [x; y]
  /\ pl_eval (env_of [x; y; z]) polars_coalesce3 = ewise Op_coalesce [x; y; z]
  /\ sql_eval (env_of [x; y; z]) sqlite_coalesce3 = ewise Op_coalesce [x; y; z].
Proof. exact fill_null_coalesce_ok_proof. Qed.
Print Assumptions fill_null_coalesce_ok.

Theorem horizontal_folds_ok : forall x y z p q r, ion x -> ion y -> ion z -> bon p -> bon q -> bon r ->
  pl_eval (env_of [x; y; z]) polars_hsum3 = ewise Op_horizontal_sum [x; y; z]
  /\ sql_eval (env_of [x; y; z]) sqlite_hsum3 = ewise Op_horizontal_sum [x; y; z]
  /\ pl_eval (env_of [p; q; r]) polars_hany3 = ewise Op_horizontal_any [p; q; r]
  /\ sql_eval (env_of [p; q; r]) sqlite_hany3 = ewise Op_horizontal_any [p; q; r]
  /\ pl_eval (env_of [p; q; r]) polars_hall3 = ewise Op_horizontal_all [p; q; r]
  /\ sql_eval (env_of [p; q; r]) sqlite_hall3 = ewise Op_horizontal_all [p; q; r].
Proof. exact horizontal_folds_ok_proof. Qed.
Print Assumptions horizontal_folds_ok.

(* the documented examples of the operator docstrings (arithmetic.py) *)
Example floordiv_docstring :
  map (fun p => ewise Op_floordiv [VInt (fst p); VInt (snd p)]) [(65, 7); (-65, 7); (65, -7); (-65, -7)]
  = [VInt 9; VInt (-9); VInt (-9); VInt 9]
  /\ map (fun p => ewise Op_mod [VInt (fst p); VInt (snd p)]) [(65, 7); (-65, 7); (65, -7); (-65, -7)]
  = [VInt 2; VInt (-2); VInt 2; VInt (-2)].
Proof. vm_compute. split; reflexivity. Qed.
