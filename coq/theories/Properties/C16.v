(* Properties/C16.v — alias / collect / transfer_col_references re-root a table without changing data. *)
From Coq Require Import List String NArith ZArith Bool.
From PDT Require Import Base.StableSort Model.Dtype Model.Value Model.Ops Model.Expr Model.RefSem
     Model.Typing Model.SqlCompile Model.PlCompile Model.Cache Proofs.RefLemmas Proofs.ScopeLemmas Proofs.CacheLemmas Proofs.SubqueryLemmas
     Proofs.SqlCompileLemmas Proofs.PlCompileLemmas.
From PDTGen Require Import Catalogue.
Import ListNotations.
Open Scope list_scope.

(* alias(keep_col_refs=True) and the subquery marker: nothing changes *)
Theorem alias_keep_changes_nothing : forall d c,
  export_ref (sem_ref d (Alias c None)) = export_ref (sem_ref d c)
  /\ rows (sem_ref d (Alias c None)) = rows (sem_ref d c).
Proof. intros. split; reflexivity. Qed.
Print Assumptions alias_keep_changes_nothing.

(* plain alias(): the uids are renamed by the alias map; names, order and grouping positions stay *)
Theorem alias_keeps_names_and_order : forall s m,
  map fst (sel (do_alias s (Some m))) = map fst (sel s)
  /\ List.length (rows (do_alias s (Some m))) = List.length (rows s)
  /\ List.length (group (do_alias s (Some m))) = List.length (group s).
Proof.
  intros. unfold do_alias. cbn [sel rows group]. rewrite !map_map, !map_length. repeat split.
Qed.
Print Assumptions alias_keeps_names_and_order.

(* ... and the data: reading the new uid in the new row = reading the old uid in the old row *)
Theorem alias_keeps_data : forall s m (r : row) u,
  In r (rows s) ->
  (forall k, (exists v, In (k, v) r) -> remap_uid m k = remap_uid m u -> k = u) ->
  exists r', In r' (rows (do_alias s (Some m))) /\ get r' (remap_uid m u) = get r u.
Proof. exact alias_map_keeps_data. Qed.
Print Assumptions alias_keeps_data.

(* the metadata follows: after alias the visible names map to the renamed uids, in the same order *)
Theorem alias_metadata : forall c m,
  name_to_uuid (upd_alias c (Some m)) = map (fun p => (fst p, remap_uid m (snd p))) (name_to_uuid c)
  /\ upd_alias c None = c.
Proof. intros. split; reflexivity. Qed.
Print Assumptions alias_metadata.

(* the re-rooted table is a fresh start for the SQL compiler: no verb needs a further subquery *)
Theorem rerooted_table_accepts_every_verb : forall c v r, requires_subquery false (upd_marker c) v r = None.
Proof. exact alias_unblocks_proof. Qed.
Print Assumptions rerooted_table_accepts_every_verb.

(* BOTH BACKENDS COMPILE THE RE-ROOTED TABLE CORRECTLY (all data).  Polars: alias() hands out new column identities
   and leaves the frame untouched (the keys of name_in_df are renamed); any pipeline of the fragment may precede
   and follow, the exported frame is the reference table.  SQL: alias() followed by a verb that needs a subquery
   (the marker) nests the query built so far, the outer columns carry the new identities. *)
Theorem polars_compiles_alias_correctly : forall d c m st,
  pl_compile d (Alias c (Some m)) = Some st -> pflat_ok d (Alias c (Some m)) = true ->
  pl_export st = export_ref (do_alias (sem_ref d c) (Some m)).
Proof. intros d c m st C F. apply (pl_compile_correct_proof d (Alias c (Some m)) st C F). Qed.
Print Assumptions polars_compiles_alias_correctly.

(* SQL, plain alias() without a subquery: compile_ast leaves the query unchanged; a new identity shares the
   definition and the label of the column it re-roots *)
Theorem sql_compiles_alias_correctly : forall d c m cq,
  compile (Alias c (Some m)) = Some cq -> flat_ok (Alias c (Some m)) = true ->
  sem_query d cq = export_ref (do_alias (sem_ref d c) (Some m)).
Proof. intros d c m cq C F. apply (sql_compile_correct_proof d (Alias c (Some m)) cq C F). Qed.
Print Assumptions sql_compiles_alias_correctly.

Theorem sql_compiles_alias_subquery_correctly : forall d c m cq,
  compile (SubqueryMarker (Alias c (Some m))) = Some cq -> flat_ok (SubqueryMarker (Alias c (Some m))) = true ->
  sem_query d cq = export_ref (do_alias (sem_ref d c) (Some m)).
Proof.
  intros d c m cq C F. rewrite (sql_compile_correct_proof d (SubqueryMarker (Alias c (Some m))) cq C F). reflexivity.
Qed.
Print Assumptions sql_compiles_alias_subquery_correctly.

(* non-vacuity: a window column, alias(), and a filter on the re-rooted window column *)
Example alias_pipeline_example :
  let d := [("t"%string, [[VInt 1; VInt 4]; [VInt 1; VInt 2]; [VInt 2; VInt (-7)]])] in
  let w := Mutate (Source "t" [("g"%string, 1%N); ("x"%string, 2%N)])
                  [("s"%string, 3%N, EFn Op_sum [ECol 2%N] true [ECol 1%N] [])] in
  let m := [(1%N, 11%N); (2%N, 12%N); (3%N, 13%N)] in
  let flt := fun c => Filter c [EFn Op_greater_than [ECol 13%N; ELit (VInt 0)] false [] []] in
  flat_ok (flt (SubqueryMarker (Alias w (Some m)))) = true
  /\ flat_ok (Mutate (Alias w (Some m)) [("y"%string, 20%N, EFn Op_add [ECol 13%N; ECol 12%N] false [] [])]) = true
  /\ pflat_ok d (flt (Alias w (Some m))) = true
  /\ f_rows (export_ref (sem_ref d (flt (Alias w (Some m))))) = [[VInt 1; VInt 4; VInt 6]; [VInt 1; VInt 2; VInt 6]].
Proof. vm_compute. repeat split; reflexivity. Qed.
