(* Properties/C16.v — alias / collect / transfer_col_references re-root a table without changing data. *)
From Coq Require Import List String NArith ZArith Bool.
From PDT Require Import Base.StableSort Model.Dtype Model.Value Model.Ops Model.Expr Model.RefSem
     Model.Typing Model.Cache Proofs.RefLemmas Proofs.ScopeLemmas Proofs.CacheLemmas Proofs.SubqueryLemmas.
Import ListNotations.
Open Scope list_scope.

(* alias(keep_col_refs=True) and the subquery marker: nothing changes *)
Theorem alias_keep_changes_nothing : forall d c,
  export_ref (sem_ref d (Alias c None)) = export_ref (sem_ref d c)
  /\ rows (sem_ref d (Alias c None)) = rows (sem_ref d c).
Proof. intros. split; reflexivity. Qed.
Print Assumptions alias_keep_changes_nothing.

(* plain alias(): the uids are renamed by the alias map; names, order and grouping positions stay *)
Theorem alias_keeps_names_and_order : forall s m,
  map fst (sel (do_alias s (Some m))) = map fst (sel s)
  /\ List.length (rows (do_alias s (Some m))) = List.length (rows s)
  /\ List.length (group (do_alias s (Some m))) = List.length (group s).
Proof.
  intros. unfold do_alias. cbn [sel rows group]. rewrite !map_map, !map_length. repeat split.
Qed.
Print Assumptions alias_keeps_names_and_order.

(* ... and the data: reading the new uid in the new row = reading the old uid in the old row *)
Theorem alias_keeps_data : forall s m (r : row) u,
  In r (rows s) ->
  (forall k, (exists v, In (k, v) r) -> remap_uid m k = remap_uid m u -> k = u) ->
  exists r', In r' (rows (do_alias s (Some m))) /\ get r' (remap_uid m u) = get r u.
Proof. exact alias_map_keeps_data. Qed.
Print Assumptions alias_keeps_data.

(* the metadata follows: after alias the visible names map to the renamed uids, in the same order *)
Theorem alias_metadata : forall c m,
  name_to_uuid (upd_alias c (Some m)) = map (fun p => (fst p, remap_uid m (snd p))) (name_to_uuid c)
  /\ upd_alias c None = c.
Proof. intros. split; reflexivity. Qed.
Print Assumptions alias_metadata.

(* the re-rooted table is a fresh start for the SQL compiler: no verb needs a further subquery *)
Theorem rerooted_table_accepts_every_verb : forall c v r, requires_subquery false (upd_marker c) v r = None.
Proof. exact alias_unblocks_proof. Qed.
Print Assumptions rerooted_table_accepts_every_verb.
