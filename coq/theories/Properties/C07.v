(* Properties/C07.v — union stacks rows by column name; distinct removes duplicates. *)
From Coq Require Import List String NArith ZArith Bool.
From PDT Require Import Base.StableSort Model.Dtype Model.Value Model.Ops Model.Expr Model.RefSem
     Model.SqlCompile Model.PlCompile Proofs.JoinUnionLemmas Proofs.SqlCompileLemmas Proofs.PlCompileLemmas.
From PDTGen Require Import Catalogue.
Import ListNotations.
Open Scope list_scope.

Theorem union_all_keeps_every_row : forall l r,
  List.length (rows (do_union l r false)) = (List.length (rows l) + List.length (rows r))%nat
  /\ sel (do_union l r false) = sel l.
Proof. exact union_all_count_proof. Qed.
Print Assumptions union_all_keeps_every_row.

Theorem union_matches_by_name : forall l r (rr : row) n ul ur,
  NoDup (map snd (sel l)) -> In (n, ul) (sel l) -> assoc_s n (sel r) = Some ur ->
  get (map (fun p => (snd p, match assoc_s (fst p) (sel r) with Some u => get rr u | None => VErr end))
           (sel l)) ul
  = get rr ur.
Proof. exact union_by_name_proof. Qed.
Print Assumptions union_matches_by_name.

Theorem union_distinct_has_no_duplicates : forall seen vis rs i j ri rj,
  (i < j)%nat ->
  nth_error (dedup_rows seen vis rs) i = Some ri ->
  nth_error (dedup_rows seen vis rs) j = Some rj ->
  values_eqb (vis rj) (vis ri) = false.
Proof. exact union_distinct_no_duplicates_proof. Qed.
Print Assumptions union_distinct_has_no_duplicates.

(* "each distinct row once", other half: distinct invents no row and loses none - every result row is one of
   the stacked rows, and every stacked row (whose visible values equal themselves: the value domain of
   DESIGN 4 has no NaN / error cell) has a result row with equal visible values (nulls compare equal) *)
Theorem union_distinct_invents_no_row : forall seen vis rs r,
  In r (dedup_rows seen vis rs) -> In r rs.
Proof. exact union_distinct_subset_proof. Qed.
Print Assumptions union_distinct_invents_no_row.

Theorem union_distinct_keeps_every_distinct_row : forall vis rs r,
  In r rs -> values_eqb (vis r) (vis r) = true ->
  exists r', In r' (dedup_rows [] vis rs) /\ values_eqb (vis r) (vis r') = true.
Proof. exact union_distinct_complete_nil_proof. Qed.
Print Assumptions union_distinct_keeps_every_distinct_row.

(* SQL: the transcription of the Union branch of SqlImpl.compile_ast - both operands compiled to complete
   SELECTs, the right select list put into the order of the left column NAMES (looked up among the right
   operand's visible columns), UNION [ALL], a fresh query over the compound selecting the left operand's
   columns - denotes the reference table, for all data: operands are any pipelines of the flat fragment
   (filters, mutates, window functions, summarize, arrange / slice, further unions), and any verb of the
   fragment may follow.  L3 compares the select lists of both operands (as column identities) with the
   ones the real compile_ast hands to compile_query. *)
Theorem sql_union_is_the_reference : forall d l r distinct c,
  compile (Union l r distinct) = Some c -> flat_ok (Union l r distinct) = true ->
  sem_query d c = export_ref (do_union (sem_ref d l) (sem_ref d r) distinct).
Proof. intros d l r distinct c C F. apply (sql_compile_correct_proof d (Union l r distinct) c C F). Qed.
Print Assumptions sql_union_is_the_reference.

(* Polars: the transcription of the Union branch of the Polars compile_ast - both frames projected onto the
   left operand's visible column names (the right frame's columns are picked BY NAME), stacked, deduplicated
   for distinct=True, hidden columns dropped from the frame and from name_in_df - exports the reference
   table, for all data and any operand pipelines of the fragment *)
Theorem polars_union_is_the_reference : forall d l r distinct st,
  pl_compile d (Union l r distinct) = Some st -> pflat_ok d (Union l r distinct) = true ->
  pl_export st = export_ref (do_union (sem_ref d l) (sem_ref d r) distinct).
Proof. intros d l r distinct st C F. apply (pl_compile_correct_proof d (Union l r distinct) st C F). Qed.
Print Assumptions polars_union_is_the_reference.

(* permuted column order on the right, nulls compare equal for distinct *)
Example union_example :
  let d := [("l"%string, [[VInt 1; VNull]; [VInt 1; VNull]]); ("r"%string, [[VNull; VInt 1]; [VInt 7; VInt 2]])] in
  let a := Union (Source "l" [("a"%string, 1%N); ("b"%string, 2%N)])
                 (Source "r" [("b"%string, 3%N); ("a"%string, 4%N)]) true in
  f_rows (export_ref (sem_ref d a)) = [[VInt 1; VNull]; [VInt 2; VInt 7]]
  /\ flat_ok a = true /\ pflat_ok d a = true
  /\ flat_ok (Summarize (Union (Filter (Source "l" [("a"%string, 1%N); ("b"%string, 2%N)])
                                       [EFn Op_is_not_null [ECol 1%N] false [] []])
                               (Union (Source "r" [("b"%string, 3%N); ("a"%string, 4%N)])
                                      (Source "l" [("a"%string, 5%N); ("b"%string, 6%N)]) false) true)
                        [("n"%string, 9%N, EFn Op_count_star [] false [] [])]) = true
  /\ option_map (fun c => f_rows (sem_query d c)) (compile a) = Some [[VInt 1; VNull]; [VInt 2; VInt 7]].
Proof. vm_compute. repeat split; reflexivity. Qed.
