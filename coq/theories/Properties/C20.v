(* Properties/C20.v — All export targets describe the same table.
   Model/Targets.v transcribes the target dispatch of pipe/verbs.py export: every target other than
   Polars / Pandas is computed from the frame of export(Polars()).  The theorems hold for every frame
   (any number of columns and rows, empty, single cell, any cell type) with distinct column names and
   columns of one length - what a polars.DataFrame is. *)
From Coq Require Import List String Bool Arith.
From PDT Require Import Model.Dtype Model.Value Model.Targets Model.TargetCheck Proofs.TargetLemmas Proofs.TypeReimport.
From PDTGen Require Import PolarsTypes.
Import ListNotations.

Section C20.
Variable A : Type.

(* DictOfLists is the frame itself: same names, same order, same values *)
Theorem dict_of_lists_is_the_frame : forall f : frame A, wf f -> enc_dol f = f.
Proof. exact (dol_is_the_frame_proof A). Qed.

(* ListOfDicts: one dict per row, every dict carries the column names in the frame's order, and the
   frame is recovered from the rows (so DictOfLists and ListOfDicts hold the same values at the same
   (row, name) positions) *)
Theorem list_of_dicts_height : forall f : frame A, wf f -> List.length (enc_lod f) = height f.
Proof. exact (lod_height_proof A). Qed.
Theorem list_of_dicts_names : forall f : frame A, wf f -> forall r, In r (enc_lod f) -> map fst r = names f.
Proof. exact (lod_names_proof A). Qed.
Theorem list_of_dicts_roundtrip : forall f : frame A, wf f -> frame_of_rows (names f) (enc_lod f) = f.
Proof. exact (lod_roundtrip_proof A). Qed.

(* Dict applies exactly to one-row tables and is that row *)
Theorem dict_iff_one_row : forall f : frame A, wf f -> (height f = 1 <-> exists r, enc_dict f = Some r).
Proof. exact (dict_iff_one_row_proof A). Qed.
Theorem dict_is_the_row : forall (f : frame A) r, wf f -> enc_dict f = Some r ->
  enc_lod f = [r] /\ frame_of_rows (names f) [r] = f.
Proof. exact (dict_is_the_row_proof A). Qed.

(* Scalar applies exactly to single-cell tables and is that cell *)
Theorem scalar_iff_single_cell : forall f : frame A, wf f ->
  ((exists n, names f = [n]) /\ height f = 1 <-> exists v, enc_scalar f = Some v).
Proof. exact (scalar_iff_single_cell_proof A). Qed.
Theorem scalar_is_the_cell : forall (f : frame A) v, enc_scalar f = Some v ->
  exists n, f = [(n, [v])] /\ enc_dict f = Some [(n, v)].
Proof. exact (scalar_is_the_cell_proof A). Qed.
End C20.
Print Assumptions dict_of_lists_is_the_frame.
Print Assumptions list_of_dicts_height.
Print Assumptions list_of_dicts_names.
Print Assumptions list_of_dicts_roundtrip.
Print Assumptions dict_iff_one_row.
Print Assumptions dict_is_the_row.
Print Assumptions scalar_iff_single_cell.
Print Assumptions scalar_is_the_cell.

(* the boolean well-formedness test evaluated on every real frame of the correspondence run is the
   hypothesis of the theorems above *)
Theorem wf_b_is_wf : forall f, wf_b f = true -> wf f.
Proof. exact wf_b_sound. Qed.
Print Assumptions wf_b_is_wf.

(* Table(<exported frame>) reproduces the column types: the type that comes back from
   Dtype.from_polars(t.to_polars()) (generated/PolarsTypes.v, re-read from the running package) is the
   storage type of t, and storage types are fixed points - a second export / import changes nothing *)
Theorem reimported_type_is_the_storage_type : forall t back,
  In (t, back) polars_reimport -> back = Some (storage_type t).
Proof. exact reimport_is_storage_proof. Qed.
Print Assumptions reimported_type_is_the_storage_type.

Theorem storage_type_is_a_fixed_point : forall t, storage_type (storage_type t) = storage_type t.
Proof. exact storage_idempotent_proof. Qed.
Print Assumptions storage_type_is_a_fixed_point.

(* PARTIAL: Polars(lazy=True), Pandas and ColExpr.export are produced by code paths of their own
   (PolarsImpl.export, get_expr_as_table) around third-party materialisation; their agreement with
   export(Polars()) is decided by the correspondence run (harness/props/c20.py), where the model's
   encoders above are also evaluated against the real DictOfLists / ListOfDicts / Dict / Scalar. *)

Example small_frame :
  let f := [("a", [1; 2]); ("b", [3; 4])] in
  enc_lod f = [[("a", 1); ("b", 3)]; [("a", 2); ("b", 4)]] /\ enc_dict f = None
  /\ enc_scalar [("a", [7])] = Some 7 /\ enc_lod (A := nat) [("a", []); ("b", [])] = [].
Proof. vm_compute. repeat split; reflexivity. Qed.
