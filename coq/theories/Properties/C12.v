(* Properties/C12.v — Static types predict the exported types.
   PARTIAL: full type soundness (dtype_of env e = TOk t -> has_type (eval .. e) t for every
   expression) is not proved; the theorems below cover literals, casts, comparisons, boolean
   operators, integer arithmetic, Int / Int and counts.  The oracle (props/c12.py) compares the static
   type of every exported column with the exported Polars dtype on both backends, and re-imports. *)
From Coq Require Import List String NArith ZArith Bool.
From PDT Require Import Model.Dtype Model.Conv Model.Value Model.Ops Model.Expr Model.Typing Proofs.TypeLemmas.
From PDTGen Require Import Catalogue.
Import ListNotations.

Theorem literal_has_its_type_partial : forall v, has_type v (lit_dtype v) = true.
Proof. exact literal_has_its_type_proof. Qed.
Print Assumptions literal_has_its_type_partial.

Theorem cast_has_target_type : forall v t, has_type (cast_value v t) t = true.
Proof. exact cast_has_target_type_proof. Qed.
Print Assumptions cast_has_target_type.

Theorem comparisons_are_boolean : forall a b,
  boolish (v_eq a b) = true /\ boolish (v_ne a b) = true /\ boolish (v_lt a b) = true
  /\ boolish (v_le a b) = true /\ boolish (v_gt a b) = true /\ boolish (v_ge a b) = true.
Proof. exact comparisons_are_boolean_proof. Qed.
Print Assumptions comparisons_are_boolean.

Theorem logic_is_boolean : forall a b,
  boolish (k_and a b) = true /\ boolish (k_or a b) = true /\ boolish (k_xor a b) = true /\ boolish (k_not a) = true.
Proof. exact logic_is_boolean_proof. Qed.
Print Assumptions logic_is_boolean.

Theorem int_arith_is_int : forall x y,
  intish (v_add (VInt x) (VInt y)) = true /\ intish (v_sub (VInt x) (VInt y)) = true
  /\ intish (v_mul (VInt x) (VInt y)) = true /\ intish (v_floordiv (VInt x) (VInt y)) = true
  /\ intish (v_mod (VInt x) (VInt y)) = true /\ intish (v_neg (VInt x)) = true /\ intish (v_abs (VInt x)) = true.
Proof. exact int_arith_is_int_proof. Qed.
Print Assumptions int_arith_is_int.

Theorem int_truediv_is_float : forall x y, floatish (v_truediv (VInt x) (VInt y)) = true.
Proof. exact int_truediv_is_float_proof. Qed.
Print Assumptions int_truediv_is_float.

Theorem counts_are_int : forall vs n, intish (agg Op_count vs n) = true /\ intish (agg Op_count_star vs n) = true.
Proof. exact counts_are_int_proof. Qed.
Print Assumptions counts_are_int.
