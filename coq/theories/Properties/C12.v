(* Properties/C12.v — Static types predict the exported types.
   Operator level (all values, all accepted overloads of the enumeration): the result of every modelled
   element-wise operator lies in the value family of the declared return type (operator_results_inhabit_their_family
   + declared_return_types_are_the_result_families, the latter decided in the kernel over the REGENERATED
   catalogue).  EXPRESSION LEVEL (expression_values_inhabit_the_family_of_their_static_type): for every
   element-wise expression over columns, literals, casts and modelled operators whose applications lie in the
   enumeration and carry a family claim, if dtype_of gives t then the value lies in the family of t, for all rows.
   PARTIAL: case expressions, window / aggregate functions and mixed Int / Float operands of the polymorphic
   operators are outside the claim.  The oracle (props/c12.py) compares the static
   type of every exported column with the exported Polars dtype on both backends, and re-imports. *)
From Coq Require Import List String NArith ZArith Bool.
From PDT Require Import Model.Dtype Model.Conv Model.Value Model.Ops Model.Expr Model.Typing Proofs.TypeLemmas
     Model.Universe Model.Signature Model.Resolve Model.Enum Model.OverloadChecks Model.TypeFam Proofs.TypeFamLemmas Proofs.TypeFamEnum.
From PDTGen Require Import Catalogue.
Import ListNotations.

Theorem literal_has_its_type_partial : forall v, has_type v (lit_dtype v) = true.
Proof. exact literal_has_its_type_proof. Qed.
Print Assumptions literal_has_its_type_partial.

Theorem cast_has_target_type : forall v t, has_type (cast_value v t) t = true.
Proof. exact cast_has_target_type_proof. Qed.
Print Assumptions cast_has_target_type.

Theorem comparisons_are_boolean : forall a b,
  boolish (v_eq a b) = true /\ boolish (v_ne a b) = true /\ boolish (v_lt a b) = true
  /\ boolish (v_le a b) = true /\ boolish (v_gt a b) = true /\ boolish (v_ge a b) = true.
Proof. exact comparisons_are_boolean_proof. Qed.
Print Assumptions comparisons_are_boolean.

Theorem logic_is_boolean : forall a b,
  boolish (k_and a b) = true /\ boolish (k_or a b) = true /\ boolish (k_xor a b) = true /\ boolish (k_not a) = true.
Proof. exact logic_is_boolean_proof. Qed.
Print Assumptions logic_is_boolean.

Theorem int_arith_is_int : forall x y,
  intish (v_add (VInt x) (VInt y)) = true /\ intish (v_sub (VInt x) (VInt y)) = true
  /\ intish (v_mul (VInt x) (VInt y)) = true /\ intish (v_floordiv (VInt x) (VInt y)) = true
  /\ intish (v_mod (VInt x) (VInt y)) = true /\ intish (v_neg (VInt x)) = true /\ intish (v_abs (VInt x)) = true.
Proof. exact int_arith_is_int_proof. Qed.
Print Assumptions int_arith_is_int.

Theorem int_truediv_is_float : forall x y, floatish (v_truediv (VInt x) (VInt y)) = true.
Proof. exact int_truediv_is_float_proof. Qed.
Print Assumptions int_truediv_is_float.

Theorem counts_are_int : forall vs n, intish (agg Op_count vs n) = true /\ intish (agg Op_count_star vs n) = true.
Proof. exact counts_are_int_proof. Qed.
Print Assumptions counts_are_int.

(* THE OPERATOR-LEVEL STATEMENT.  Semantic half, for ALL argument values: if the arguments lie in the families fs,
   the result of the operator lies in the family ret_fam computes from fs (null and "no backend-independent
   value" belong to every family). *)
Theorem operator_results_inhabit_their_family : forall o vs fs f,
  ret_fam o fs = Some f -> vs_in vs fs -> in_fam (ewise o vs) f = true.
Proof. exact ewise_fam. Qed.
Print Assumptions operator_results_inhabit_their_family.

(* Catalogue half, over the regenerated signatures: the declared return type of every accepted overload of a
   modelled operator is in that family *)
Theorem declared_return_types_are_the_result_families : forall o args,
  In o modelled_ewise -> In args (enum_args o) -> ret_fam_ok o args = true.
Proof. exact declared_return_family_proof. Qed.
Print Assumptions declared_return_types_are_the_result_families.

(* together: a well-typed application evaluates into the family of its static type *)
Theorem typed_operator_application_is_sound : forall o args r f vs,
  In o modelled_ewise -> In args (enum_args o) -> accepted o args = Some r ->
  ret_fam o (map fam_of args) = Some f ->
  vs_in vs (map fam_of args) -> in_fam (ewise o vs) (fam_of r) = true.
Proof. exact typed_application_proof. Qed.
Print Assumptions typed_operator_application_is_sound.

Example family_claims_are_made : N.ltb 20000 claim_count = true /\ ret_fam PDTGen.Catalogue.Op_truediv [FInt; FInt] = Some FFloat
  /\ ret_fam PDTGen.Catalogue.Op_fill_null [FInt; FFloat] = None.
Proof. split; [exact claims_exist|]. split; reflexivity. Qed.

(* EXPRESSION LEVEL: type soundness (at the granularity of value families) of the transcribed dtype() for element-wise
   expressions: tsound is the decidable side condition (no case expression; operators of the modelled set; every
   application's argument types in the enumeration, with a family claim) *)
Theorem expression_values_inhabit_the_family_of_their_static_type : forall e env t ctx i r,
  tsound env e = true -> dtype_of env e = TOk t ->
  (forall u ci, env_get env u = Some ci -> in_fam (get r u) (fam_of (c_dtype ci)) = true) ->
  in_fam (eval ctx (i, r) e) (fam_of t) = true.
Proof. exact expr_family_soundness_proof. Qed.
Print Assumptions expression_values_inhabit_the_family_of_their_static_type.

Example tsound_example :
  let env := [(1%N, {| c_name := "a"; c_dtype := TS SInt64; c_ftype := ElementWise |});
              (2%N, {| c_name := "f"; c_dtype := TS SFloat64; c_ftype := ElementWise |});
              (3%N, {| c_name := "s"; c_dtype := TStr None; c_ftype := ElementWise |})] in
  let e := EFn PDTGen.Catalogue.Op_bool_and
             [EFn PDTGen.Catalogue.Op_greater_than [EFn PDTGen.Catalogue.Op_truediv [EFn PDTGen.Catalogue.Op_add [ECol 1%N; ELit (VInt 1)] false [] []; ECol 2%N] false [] []; ELit (VFloat PrimFloat.one)] false [] [];
              EFn PDTGen.Catalogue.Op_str_starts_with [EFn PDTGen.Catalogue.Op_str_upper [ECol 3%N] false [] []; ELit (VStr "A")] false [] []] false [] [] in
  tsound env e = true /\ dtype_of env e = TOk (TS SBool).
Proof. vm_compute. split; reflexivity. Qed.
