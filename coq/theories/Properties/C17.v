(* Properties/C17.v — Casts follow the documented conversion table. *)
From Coq Require Import List String NArith ZArith Bool PrimFloat.
From PDT Require Import Model.Dtype Model.Conv Model.Resolve Model.Universe Model.Value Model.Ops Model.Expr
     Model.Typing Proofs.TypeLemmas Proofs.CastLemmas.
From PDTGen Require Import CastTable ConvTable.
Import ListNotations.

(* the acceptance model (transcription of Cast.dtype / is_valid_cast) equals what the running code
   accepts, for every source of the universe (plain and const) and every non-const target *)
Theorem cast_acceptance_model_is_the_code : forall s t, In s U -> In t U_base ->
  Bool.eqb (cast_accepts s t) (pair_mem s t cast_accepted_pairs) = true.
Proof. exact (forallb2_spec _ model_eq_code_ok). Qed.
Print Assumptions cast_acceptance_model_is_the_code.

(* every conversion of the documented table is accepted ... *)
Theorem documented_casts_are_accepted : forall s t, In s U -> In t U_base ->
  implb (doc_table s t) (cast_accepts s t) = true.
Proof. exact (forallb2_spec _ doc_accepted_ok). Qed.
Print Assumptions documented_casts_are_accepted.

(* ... and nothing else is, except the implicit conversions and String -> Enum *)
Theorem nothing_outside_the_table_is_accepted : forall s t, In s U -> In t U_base ->
  implb (cast_accepts s t)
        (doc_table s t || converts_to s t
         || (any_string (without_const s) && match t with TEnum _ => true | _ => false end)) = true.
Proof. exact (forallb2_spec _ nothing_else_ok). Qed.
Print Assumptions nothing_outside_the_table_is_accepted.

(* an accepted cast is typed at build time with its target type (const-ness of the operand kept), a
   rejected one is a DataTypeError of the expression - never an execution error *)
Theorem cast_is_typed_when_built : forall env e t s,
  dtype_of env e = TOk s ->
  dtype_of env (ECast e t) = if cast_accepts s t then TOk (if is_const s then with_const t else t)
                             else TErr EDataType.
Proof. intros env e t s H. simpl. rewrite H. reflexivity. Qed.
Print Assumptions cast_is_typed_when_built.

Theorem null_stays_null : forall t, cast_value VNull t = VNull.
Proof. exact null_stays_null_proof. Qed.
Print Assumptions null_stays_null.

Theorem bool_to_int_is_01 : forall b t,
  is_int (without_const t) = true -> cast_value (VBool b) t = VInt (if b then 1 else 0).
Proof. exact bool_to_int_is_01_proof. Qed.
Print Assumptions bool_to_int_is_01.

Theorem cast_result_has_target_type : forall v t, has_type (cast_value v t) t = true.
Proof. exact cast_has_target_type_proof. Qed.
Print Assumptions cast_result_has_target_type.

Theorem datetime_date_casts : forall d us,
  cast_value (VDatetime us) (TS SDate) = VDate (Z.div us us_per_day)
  /\ cast_value (VDate d) (TS SDatetime) = VDatetime (d * us_per_day).
Proof. intros. split; reflexivity. Qed.
Print Assumptions datetime_date_casts.

Example float_to_int_truncates_toward_zero :
  map (fun f => cast_value (VFloat f) (TS SInt64)) [3.5; -0.5; 0.5; 2.5; -2.5; 1e15]%float
  = [VInt 3; VInt 0; VInt 0; VInt 2; VInt (-2); VInt 1000000000000000].
Proof. vm_compute. reflexivity. Qed.

Example string_to_int_parses_plain_numerals :
  map (fun s => cast_value (VStr s) (TS SInt64)) ["12"; "-7"; "+3"; "007"; ""; "1 "; "1.5"; "-"]%string
  = [VInt 12; VInt (-7); VInt 3; VInt 7; VErr; VErr; VErr; VErr].
Proof. vm_compute. reflexivity. Qed.
