(* Properties/C04.v — summarize and aggregate functions: one row per group, nulls ignored. *)
From Coq Require Import List String NArith ZArith Bool.
From PDT Require Import Base.StableSort Model.Dtype Model.Value Model.Ops Model.Expr Model.RefSem
     Proofs.AggLemmas.
From PDTGen Require Import Catalogue.
Import ListNotations.
Open Scope list_scope.

Theorem agg_ignores_nulls : forall o vs n,
  null_ignoring o = true -> agg o vs n = agg o (nonnull vs) n.
Proof. exact agg_ignores_nulls_proof. Qed.
Print Assumptions agg_ignores_nulls.

Theorem agg_empty_is_null : forall o vs n,
  nonnull vs = [] -> any_err vs = false ->
  (o = Op_sum \/ o = Op_min \/ o = Op_max \/ o = Op_mean \/ o = Op_any \/ o = Op_all) ->
  agg o vs n = VNull.
Proof. exact agg_empty_is_null_proof. Qed.
Print Assumptions agg_empty_is_null.

Theorem count_col_counts_nonnull : forall vs n,
  any_err vs = false -> agg Op_count vs n = VInt (Z.of_nat (List.length (nonnull vs))).
Proof. exact count_counts_nonnull_proof. Qed.
Print Assumptions count_col_counts_nonnull.

Theorem count_star_counts_rows : forall vs n,
  any_err vs = false -> agg Op_count_star vs n = VInt (Z.of_nat n).
Proof. exact count_star_counts_rows_proof. Qed.
Print Assumptions count_star_counts_rows.

(* `filter=` is rewritten by the front end into when(f).then(x) on the first argument; for the
   null-ignoring aggregates this is the aggregate over the rows where f is true *)
Theorem filter_kw_restricts : forall o l n n',
  null_ignoring o = true -> any_err (map snd l) = false ->
  agg o (map mask l) n = agg o (map snd (filter fst l)) n'.
Proof. exact filter_kw_restricts_proof. Qed.
Print Assumptions filter_kw_restricts.

(* FULL STATEMENT for count(): `pdt.count(filter=f)` counts the rows where f holds.  It has no first
   argument to mask, and neither backend reads the kwarg: refuted on the real code by the dedicated
   probe (finding F15); the model has no such construct, so no model theorem is stated. *)

Theorem summarize_ungrouped_one_row : forall s defs,
  group s = [] -> List.length (rows (do_summarize s defs)) = 1%nat.
Proof. exact summarize_ungrouped_one_row_proof. Qed.
Print Assumptions summarize_ungrouped_one_row.

Theorem summarize_columns : forall s defs,
  map snd (sel (do_summarize s defs))
  = map snd (filter (fun p => negb (mem_s (fst p) (map (fun d => fst (fst d)) defs)))
                    (map (fun u => (name_of (sel s) u, u)) (group s)))
    ++ map (fun d => snd (fst d)) defs.
Proof. exact summarize_columns_proof. Qed.
Print Assumptions summarize_columns.

Theorem summarize_resets_grouping : forall s defs,
  group (do_summarize s defs) = [] /\ ord_defined (do_summarize s defs) = false.
Proof. exact summarize_resets_grouping_proof. Qed.
Print Assumptions summarize_resets_grouping.

Theorem filter_after_summarize_acts_on_groups : forall s defs ps,
  (List.length (rows (do_filter (do_summarize s defs) ps)) <= List.length (rows (do_summarize s defs)))%nat.
Proof. exact filter_after_summarize_proof. Qed.
Print Assumptions filter_after_summarize_acts_on_groups.

(* non-vacuity: null key is a group of its own, all-null group sums to null, count is 0 *)
Example summarize_example :
  let d := [("t"%string, [[VInt 1; VInt 5]; [VNull; VNull]; [VInt 1; VNull]; [VNull; VNull]])] in
  let a := Summarize (GroupBy (Source "t" [("g"%string, 1%N); ("x"%string, 2%N)]) [1%N] false)
             [("s"%string, 3%N, EFn Op_sum [ECol 2%N] false [] []);
              ("c"%string, 4%N, EFn Op_count [ECol 2%N] false [] []);
              ("n"%string, 5%N, EFn Op_count_star [] false [] [])] in
  f_rows (export_ref (sem_ref d a)) = [[VInt 1; VInt 5; VInt 1; VInt 2]; [VNull; VNull; VInt 0; VInt 2]].
Proof. vm_compute. reflexivity. Qed.
