(* Properties/C09.v — Column references denote columns, not names.
   In the resolved AST a reference is a uid; these theorems show that the data read through a uid
   is untouched by everything that happens to names and by every row-preserving or row-selecting
   verb, for all data.  Resolution of `t.x` / `C.x` to uids is done by the real front end; the tie
   (props/c09.py) checks the results of reference-heavy histories against the reference semantics
   on both backends, the metadata model (L2), and the rejection of stale references. *)
From Coq Require Import List String NArith ZArith Bool.
From PDT Require Import Base.StableSort Model.Dtype Model.Value Model.Ops Model.Expr Model.RefSem
     Model.Typing Model.Cache Proofs.RefLemmas Proofs.ScopeLemmas Proofs.CacheLemmas.
Import ListNotations.
Open Scope list_scope.

(* rename / select / drop touch names only: every row, hence every uid's data, is unchanged *)
Theorem rename_select_keep_all_data : forall d c m us,
  rows (sem_ref d (Rename c m)) = rows (sem_ref d c) /\ rows (sem_ref d (Select c us)) = rows (sem_ref d c).
Proof. intros. split; [apply rename_only_names|apply select_only_hides]. Qed.
Print Assumptions rename_select_keep_all_data.

(* overwriting mutate: the old column stays readable through its uid (it only loses its name) *)
Theorem overwritten_column_still_denotes_old_data : forall s defs i ir u,
  ~ In u (map (fun d => snd (fst d)) defs) ->
  nth_error (index_rows (rows s)) i = Some ir ->
  exists r', nth_error (rows (do_mutate s defs)) i = Some r' /\ get r' u = get (snd ir) u.
Proof. exact mutate_keeps_old. Qed.
Print Assumptions overwritten_column_still_denotes_old_data.

(* filter / arrange / slice_head hand on input rows unchanged *)
Theorem row_selecting_verbs_keep_rows_intact : forall s ps os n k r,
  (In r (rows (do_filter s ps)) -> In r (rows s))
  /\ (In r (rows (do_arrange s os)) <-> In r (rows s))
  /\ (In r (rows (do_slice s n k)) -> In r (rows s)).
Proof.
  intros. split; [apply filter_rows_are_input_rows|].
  split; [apply arrange_rows_are_input_rows|apply slice_rows_are_input_rows].
Qed.
Print Assumptions row_selecting_verbs_keep_rows_intact.

(* join: a reference to a column of the left input reads the left row, whatever the names became *)
Theorem join_keeps_referenced_data : forall (lr rr : row) u,
  (exists v, In (u, v) lr) -> get (lr ++ rr) u = get lr u.
Proof. exact join_keeps_left_columns. Qed.
Print Assumptions join_keeps_referenced_data.

(* C.x / table[name] resolve through the visible-name map, which is the header of the reference
   result: the name a uid currently carries is the name of its exported column *)
Theorem current_name_is_export_name : forall sch d a c,
  wf sch a = true -> cache_of_ast sch a = TOk c ->
  name_to_uuid c = sel (sem_ref d a).
Proof. intros sch d a c W H. apply (cache_agrees_with_reference sch d a c W H). Qed.
Print Assumptions current_name_is_export_name.

(* swap by rename: names move, data does not *)
Example swap_names_example :
  let d := [("t"%string, [[VInt 1; VInt 2]])] in
  let src := Source "t" [("a"%string, 1%N); ("b"%string, 2%N)] in
  let a := Mutate (Rename src [("a"%string, "b"%string); ("b"%string, "a"%string)])
                  [("p"%string, 3%N, ECol 1%N)] in
  export_ref (sem_ref d a) = {| f_names := ["b"%string; "a"%string; "p"%string];
                                f_rows := [[VInt 1; VInt 2; VInt 1]] |}.
Proof. vm_compute. reflexivity. Qed.
