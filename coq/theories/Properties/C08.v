(* Properties/C08.v — SQL: a verb needing a subquery raises SubqueryError or is compiled correctly.
   The catalogue is Model/Cache.requires_subquery (transcription of Cache.requires_subquery); the L2
   correspondence compares it decision by decision with the real method on every verb application
   of the generated pipelines (including the applications that raise SubqueryError), and the L1
   correspondence compares every accepted pipeline's SQLite result with the reference. *)
From Coq Require Import List String NArith ZArith Bool.
From PDT Require Import Model.Dtype Model.Value Model.Ops Model.Expr Model.RefSem Model.Typing Model.Cache
     Proofs.SubqueryLemmas.
Import ListNotations.
Open Scope list_scope.

Theorem polars_never_needs_a_subquery : forall c v r, requires_subquery true c v r = None.
Proof. exact polars_never_proof. Qed.
Print Assumptions polars_never_needs_a_subquery.

(* on the table re-rooted by alias() + subquery marker, no verb whatsoever needs a subquery: this is
   why `>> alias()` directly before a refused verb makes it accepted *)
Theorem alias_unblocks : forall c v r, requires_subquery false (upd_marker c) v r = None.
Proof. exact alias_unblocks_proof. Qed.
Print Assumptions alias_unblocks.

Theorem projection_verbs_never_need : forall c (v : ast) r,
  match v with
  | Select _ _ | Rename _ _ | SliceHead _ _ _ | Ungroup _ | Alias _ _ | SubqueryMarker _ | Source _ _ => True
  | _ => False
  end -> requires_subquery false c v r = None.
Proof. exact projection_verbs_never_need_proof. Qed.
Print Assumptions projection_verbs_never_need.

Theorem verbs_after_slice_need_a_subquery : forall c (v : ast) r,
  limit c <> 0%Z ->
  match v with
  | Filter _ _ | Summarize _ _ | Arrange _ _ | GroupBy _ _ _ | Join _ _ _ _ | Union _ _ _ => True
  | _ => False
  end -> requires_subquery false c v r = Some RAfterSlice.
Proof. exact after_slice_needs_proof. Qed.
Print Assumptions verbs_after_slice_need_a_subquery.

(* the "simple" pipelines of the property: element-wise mutate / filter, arrange, group_by and one
   summarize over element-wise columns never need a subquery while no limit is set and no window
   column is in scope (select / rename / the final slice_head: previous theorem) *)
Theorem simple_step_never_needs : forall c (v : ast) r,
  limit c = 0%Z ->
  existsb (fun p => ftype_eqb (c_ftype (snd p)) Window) (cols c) = false ->
  no_window_cols c ->
  match v with
  | Mutate _ defs => forallb (fun d => negb (has_aggwin_fn (snd d))) defs = true
  | Filter _ _ | Arrange _ _ | GroupBy _ _ _ => True
  | Summarize _ _ => group_by c = [] /\ no_aggwin_cols c
  | _ => False
  end -> requires_subquery false c v r = None.
Proof. exact simple_step_never_needs_proof. Qed.
Print Assumptions simple_step_never_needs.

(* non-vacuity: a filter after a window column is refused, after the marker it is not *)
Example filter_after_window_example :
  let c := {| name_to_uuid := [("a"%string, 1%N); ("w"%string, 2%N)]; partition_by := [];
              cols := [(1%N, {| c_name := "a"; c_dtype := TS SInt64; c_ftype := ElementWise |});
                       (2%N, {| c_name := "w"; c_dtype := TS SInt64; c_ftype := Window |})];
              limit := 0; group_by := []; is_filtered := false |} in
  let v := Filter (Source "t" []) [EFn PDTGen.Catalogue.Op_greater_than [ECol 1%N; ELit (VInt 2)] false [] []] in
  requires_subquery false c v false = Some RFilterAfterWindow
  /\ requires_subquery false (upd_marker c) v false = None.
Proof. vm_compute. split; reflexivity. Qed.
