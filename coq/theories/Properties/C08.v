(* Properties/C08.v — SQL: a verb needing a subquery raises SubqueryError or is compiled correctly.
   The catalogue is Model/Cache.requires_subquery (transcription of Cache.requires_subquery); the L2
   correspondence compares it decision by decision with the real method on every verb application
   of the generated pipelines (including the applications that raise SubqueryError), and the L1
   correspondence compares every accepted pipeline's SQLite result with the reference. *)
From Coq Require Import List String NArith ZArith Bool.
From PDT Require Import Model.Dtype Model.Value Model.Ops Model.Expr Model.RefSem Model.Typing
     Model.SqlCompile Model.Accept Model.Cache Proofs.SubqueryLemmas Proofs.SqlCompileLemmas Proofs.AcceptLemmas.
From PDTGen Require Import Catalogue.
Import ListNotations.
Open Scope list_scope.

Theorem polars_never_needs_a_subquery : forall c v r, requires_subquery true c v r = None.
Proof. exact polars_never_proof. Qed.
Print Assumptions polars_never_needs_a_subquery.

(* on the table re-rooted by alias() + subquery marker, no verb whatsoever needs a subquery: this is
   why `>> alias()` directly before a refused verb makes it accepted *)
Theorem alias_unblocks : forall c v r, requires_subquery false (upd_marker c) v r = None.
Proof. exact alias_unblocks_proof. Qed.
Print Assumptions alias_unblocks.

Theorem projection_verbs_never_need : forall c (v : ast) r,
  match v with
  | Select _ _ | Rename _ _ | SliceHead _ _ _ | Ungroup _ | Alias _ _ | SubqueryMarker _ | Source _ _ => True
  | _ => False
  end -> requires_subquery false c v r = None.
Proof. exact projection_verbs_never_need_proof. Qed.
Print Assumptions projection_verbs_never_need.

Theorem verbs_after_slice_need_a_subquery : forall c (v : ast) r,
  limit c <> 0%Z ->
  match v with
  | Filter _ _ | Summarize _ _ | Arrange _ _ | GroupBy _ _ _ | Join _ _ _ _ | Union _ _ _ => True
  | _ => False
  end -> requires_subquery false c v r = Some RAfterSlice.
Proof. exact after_slice_needs_proof. Qed.
Print Assumptions verbs_after_slice_need_a_subquery.

(* the "simple" pipelines of the property: element-wise mutate / filter, arrange, group_by and one
   summarize over element-wise columns never need a subquery while no limit is set and no window
   column is in scope (select / rename / the final slice_head: previous theorem) *)
Theorem simple_step_never_needs : forall c (v : ast) r,
  limit c = 0%Z ->
  existsb (fun p => ftype_eqb (c_ftype (snd p)) Window) (cols c) = false ->
  no_window_cols c ->
  match v with
  | Mutate _ defs => forallb (fun d => negb (has_aggwin_fn (snd d))) defs = true
  | Filter _ _ | Arrange _ _ | GroupBy _ _ _ => True
  | Summarize _ _ => group_by c = [] /\ no_aggwin_cols c
  | _ => False
  end -> requires_subquery false c v r = None.
Proof. exact simple_step_never_needs_proof. Qed.
Print Assumptions simple_step_never_needs.

(* non-vacuity: a filter after a window column is refused, after the marker it is not *)
Example filter_after_window_example :
  let c := {| name_to_uuid := [("a"%string, 1%N); ("w"%string, 2%N)]; partition_by := [];
              cols := [(1%N, {| c_name := "a"; c_dtype := TS SInt64; c_ftype := ElementWise |});
                       (2%N, {| c_name := "w"; c_dtype := TS SInt64; c_ftype := Window |})];
              limit := 0; group_by := []; is_filtered := false |} in
  let v := Filter (Source "t" []) [EFn PDTGen.Catalogue.Op_greater_than [ECol 1%N; ELit (VInt 2)] false [] []] in
  requires_subquery false c v false = Some RFilterAfterWindow
  /\ requires_subquery false (upd_marker c) v false = None.
Proof. vm_compute. split; reflexivity. Qed.

(* SUFFICIENCY of the catalogue on the flat fragment.  [accepted sch a]: at every verb of the pipeline the
   transcribed Cache.requires_subquery, applied to the transcribed metadata (Cache.from_ast) of the verb's
   input, demands no subquery - i.e. the verb front end raises no SubqueryError.  [shape_ok a] is the
   fragment of Model/SqlCompile.flat_ok (Properties/C01.v) WITHOUT its conditions on the LIMIT state: for
   every database, an accepted pipeline of that shape is compiled to a SELECT that returns exactly the
   reference table.  The two transcriptions (metadata, compiler) are linked by an invariant proved by
   induction over the pipeline (Proofs/AcceptLemmas.limit_link); both are tied to the code on every run
   (L2 decision by decision, L3 field by field). *)
Theorem accepted_flat_pipelines_are_compiled_correctly : forall sch d a c,
  compile a = Some c -> shape_ok a = true -> accepted sch a = true ->
  sem_query d c = export_ref (sem_ref d a).
Proof. exact accepted_compile_correct_proof. Qed.
Print Assumptions accepted_flat_pipelines_are_compiled_correctly.

(* ... the fragment includes joins (inner / left / full: "a join after slice_head on either operand needs a subquery"
   is what guarantees that the operands carry no LIMIT), unions, alias() and the subquery marker *)
Example accepted_join_example :
  let sch := [(1%N, TS SInt64); (2%N, TS SInt64); (3%N, TS SInt64); (4%N, TS SInt64)] in
  let l := Filter (Source "l" [("k"%string, 1%N); ("x"%string, 2%N)]) [EFn Op_greater_than [ECol 2%N; ELit (VInt 0)] false [] []] in
  let r := Source "r" [("k2"%string, 3%N); ("z"%string, 4%N)] in
  let j := Join l r (EFn Op_equal [ECol 1%N; ECol 3%N] false [] []) JLeft in
  shape_ok j = true /\ accepted sch j = true
  /\ accepted sch (Join (SliceHead l 2 0) r (EFn Op_equal [ECol 1%N; ECol 3%N] false [] []) JLeft) = false.
Proof. vm_compute. repeat split; reflexivity. Qed.

(* shape_ok asks every slice_head to keep at least one row.  Without that the statement is FALSE of the
   faithful model: slice_head(0) sets the metadata's limit to 0, which the catalogue reads as "no limit",
   so a following summarize is accepted and folded into the same SELECT (COUNT ... LIMIT 0 returns no
   row, the reference returns one row holding 0).  This is the listed finding F16; the witness below is
   replayed against the implementation by the probe of F16. *)
Theorem slice_head_zero_refuted : exists sch d a c,
  compile a = Some c /\ accepted sch a = true /\ sem_query d c <> export_ref (sem_ref d a).
Proof.
  exists [(1%N, TS SInt64)], [("t"%string, [[VInt 1]; [VInt 2]])],
         (Summarize (SliceHead (Source "t" [("x"%string, 1%N)]) 0 0) [("n"%string, 2%N, EFn Op_count_star [] false [] [])]).
  eexists. split; [reflexivity|]. split; [vm_compute; reflexivity|]. vm_compute. discriminate.
Qed.
Print Assumptions slice_head_zero_refuted.

(* shape_ok also asks for at most one summarize per SELECT.  Without that the statement is FALSE of the faithful
   model as well: after an ungrouped summarize the metadata's group_by set is empty, the catalogue accepts a second
   ungrouped summarize, and compile_ast folds both into ONE SELECT (count over the table's rows instead of the
   count over the single summarized row).  This is the listed finding F09. *)
Theorem second_summarize_refuted : exists sch d a c,
  compile a = Some c /\ accepted sch a = true /\ sem_query d c <> export_ref (sem_ref d a).
Proof.
  exists [(1%N, TS SInt64)], [("t"%string, [[VInt 1]; [VInt 2]])],
         (Summarize (Summarize (Source "t" [("x"%string, 1%N)]) [("n"%string, 2%N, EFn Op_count_star [] false [] [])])
                    [("m"%string, 3%N, EFn Op_count_star [] false [] [])]).
  eexists. split; [reflexivity|]. split; [vm_compute; reflexivity|]. vm_compute. discriminate.
Qed.
Print Assumptions second_summarize_refuted.

(* ... AND COMPILED CORRECTLY THROUGH A SUBQUERY.  When a verb needs a subquery and the user wrote alias(), the
   front end inserts a subquery marker; compile_ast turns the query built so far into a subquery and starts
   a fresh outer query over its columns.  The transcription (every column in scope is selected in the
   subquery; the code selects the ones needed later - a subset with the same meaning) denotes the reference
   table for all data, whatever the inner query is (summarized, ordered, limited, with window columns),
   and any verb of the fragment may follow: a filter on a window column, a summarize of a summarize, a verb
   after slice_head.  A plain alias() below the marker hands out new column identities: the outer query uses
   them (flat_ok asks the renaming to keep different identities different). *)
Theorem subquery_is_compiled_correctly : forall d a c,
  compile (SubqueryMarker a) = Some c -> flat_ok (SubqueryMarker a) = true ->
  sem_query d c = export_ref (sem_ref d (SubqueryMarker a)).
Proof. intros d a c C F. apply (sql_compile_correct_proof d (SubqueryMarker a) c C). exact F. Qed.
Print Assumptions subquery_is_compiled_correctly.

(* the textbook case: a filter on a window column is refused by the catalogue, but after alias() + marker it
   is accepted and the statement returns the reference table *)
Example filter_on_window_column_through_a_subquery :
  let d := [("t"%string, [[VInt 1; VInt 4]; [VInt 1; VInt 2]; [VInt 2; VInt 5]; [VInt 2; VInt (-7)]])] in
  let w := Mutate (Source "t" [("g"%string, 1%N); ("x"%string, 2%N)])
                  [("s"%string, 3%N, EFn Op_sum [ECol 2%N] true [ECol 1%N] [])] in
  let flt := fun c => Filter c [EFn Op_greater_than [ECol 3%N; ELit (VInt 0)] false [] []] in
  flat_ok (flt w) = false
  /\ flat_ok (flt (SubqueryMarker (Alias w None))) = true
  /\ flat_ok (Filter (SubqueryMarker (Alias w (Some [(1%N, 11%N); (2%N, 12%N); (3%N, 13%N)])))
                     [EFn Op_greater_than [ECol 13%N; ELit (VInt 0)] false [] []]) = true
  /\ option_map (fun c => f_rows (sem_query d c)) (compile (flt (SubqueryMarker (Alias w None))))
     = Some [[VInt 1; VInt 4; VInt 6]; [VInt 1; VInt 2; VInt 6]]
  /\ f_rows (export_ref (sem_ref d (flt (SubqueryMarker (Alias w None))))) = [[VInt 1; VInt 4; VInt 6]; [VInt 1; VInt 2; VInt 6]].
Proof. vm_compute. repeat split; reflexivity. Qed.

(* non-vacuity: a grouped summarize pipeline with filters before and after, an arrange and a final slice is
   accepted and has the shape; the same pipeline with the slice moved before the filter is refused *)
Example accepted_example :
  let sch := [(1%N, TS SInt64); (2%N, TS SInt64)] in
  let src := Source "t" [("g"%string, 1%N); ("x"%string, 2%N)] in
  let a := SliceHead (Arrange (Filter (Summarize (GroupBy (Filter src
             [EFn Op_greater_than [ECol 2%N; ELit (VInt 0)] false [] []]) [1%N] false)
             [("s"%string, 4%N, EFn Op_sum [ECol 2%N] false [] [])])
             [EFn Op_greater_than [ECol 4%N; ELit (VInt 2)] false [] []])
             [(ECol 4%N, (true, Some true))]) 2 0 in
  shape_ok a = true /\ accepted sch a = true
  /\ accepted sch (Filter (SliceHead src 2 0) [EFn Op_greater_than [ECol 2%N; ELit (VInt 0)] false [] []]) = false.
Proof. vm_compute. repeat split; reflexivity. Qed.
