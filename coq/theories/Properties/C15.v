(* Properties/C15.v — Equivalent pipelines give identical results (reference semantics, all data). *)
From Coq Require Import List String NArith ZArith Bool.
From PDT Require Import Base.StableSort Model.Dtype Model.Value Model.Ops Model.Expr Model.RefSem
     Model.SqlCompile Model.PlCompile Proofs.RefLemmas Proofs.JoinUnionLemmas Proofs.EquivLemmas Proofs.SqlCompileLemmas Proofs.PlCompileLemmas.
From PDTGen Require Import Catalogue.
Import ListNotations.
Open Scope list_scope.

Theorem is_in_eq_or : forall x a b,
  ewise Op_is_in [x; a; b] = ewise Op_bool_or [ewise Op_equal [x; a]; ewise Op_equal [x; b]].
Proof. exact is_in_eq_or_proof. Qed.
Print Assumptions is_in_eq_or.

Theorem slice_chain_is_one_slice : forall s n1 k1 n2 k2,
  (0 <= n1)%Z -> (0 <= k1)%Z -> (0 <= n2)%Z -> (0 <= k2)%Z ->
  rows (do_slice (do_slice s n1 k1) n2 k2)
  = rows (do_slice s (Z.min (Z.max (n1 - k2) 0) n2) (k1 + k2)).
Proof. exact slice_chain_equiv. Qed.
Print Assumptions slice_chain_is_one_slice.

Theorem inner_join_eq_cross_join_filter : forall l r on,
  rows (do_join l r on JInner)
  = filter (row_true on) (rows (do_join l r (ELit (VBool true)) JInner)).
Proof. exact inner_eq_cross_filter_proof. Qed.
Print Assumptions inner_join_eq_cross_join_filter.

Theorem drop_eq_select_of_complement : forall d c us,
  rows (sem_ref d (Select c us)) = rows (sem_ref d c).
Proof. exact drop_eq_select_complement_proof. Qed.
Print Assumptions drop_eq_select_of_complement.

(* one mutate call with two independent arguments = two calls: both write the same two uids with
   values computed from the same (old) row *)
Theorem mutate_split : forall (ctx : list irow) (ir : irow) (d1 d2 : def) (r0 : row) u,
  snd (fst d1) <> snd (fst d2) ->
  get (apply_defs ctx ir [d1; d2] r0) u
  = get (upd (upd r0 (snd (fst d1)) (eval ctx ir (snd d1))) (snd (fst d2)) (eval ctx ir (snd d2))) u.
Proof. exact mutate_split_proof. Qed.
Print Assumptions mutate_split.

Theorem union_all_commutes_in_size : forall l r,
  List.length (rows (do_union l r false)) = (List.length (rows l) + List.length (rows r))%nat.
Proof. intros. apply union_all_count_proof. Qed.
Print Assumptions union_all_commutes_in_size.

(* THE LAWS LIFT TO THE BACKENDS.  Two pipelines of the compile fragments that the reference semantics cannot tell
   apart are compiled to SELECT statements / Polars plans that denote the same table, for all data: every law above
   (and every other equation of the reference semantics) holds of what the backends build, not only of the
   specification. *)
Theorem equivalent_pipelines_give_the_same_sql_result : forall d a1 a2 c1 c2,
  compile a1 = Some c1 -> flat_ok a1 = true -> compile a2 = Some c2 -> flat_ok a2 = true ->
  export_ref (sem_ref d a1) = export_ref (sem_ref d a2) -> sem_query d c1 = sem_query d c2.
Proof.
  intros d a1 a2 c1 c2 C1 F1 C2 F2 E.
  rewrite (sql_compile_correct_proof d a1 c1 C1 F1), (sql_compile_correct_proof d a2 c2 C2 F2). exact E.
Qed.
Print Assumptions equivalent_pipelines_give_the_same_sql_result.

Theorem equivalent_pipelines_give_the_same_polars_result : forall d a1 a2 s1 s2,
  pl_compile d a1 = Some s1 -> pflat_ok d a1 = true -> pl_compile d a2 = Some s2 -> pflat_ok d a2 = true ->
  export_ref (sem_ref d a1) = export_ref (sem_ref d a2) -> pl_export s1 = pl_export s2.
Proof.
  intros d a1 a2 s1 s2 C1 F1 C2 F2 E.
  rewrite (pl_compile_correct_proof d a1 s1 C1 F1), (pl_compile_correct_proof d a2 s2 C2 F2). exact E.
Qed.
Print Assumptions equivalent_pipelines_give_the_same_polars_result.

(* an instance: two slices in a row and the single merged slice are compiled to statements with the same result *)
Example slice_chain_on_sql :
  let src := Arrange (Source "t" [("x"%string, 1%N)]) [(ECol 1%N, (false, None))] in
  let a1 := SliceHead (SliceHead src 5 1) 3 2 in
  let a2 := SliceHead src 3 3 in
  flat_ok a1 = true /\ flat_ok a2 = true
  /\ forall d c1 c2, compile a1 = Some c1 -> compile a2 = Some c2 ->
       export_ref (sem_ref d a1) = export_ref (sem_ref d a2) -> sem_query d c1 = sem_query d c2.
Proof.
  split; [reflexivity|]. split; [reflexivity|]. intros d c1 c2 C1 C2 E.
  apply (equivalent_pipelines_give_the_same_sql_result d _ _ c1 c2 C1 eq_refl C2 eq_refl E).
Qed.
