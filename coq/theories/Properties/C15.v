(* Properties/C15.v — Equivalent pipelines give identical results (reference semantics, all data). *)
From Coq Require Import List String NArith ZArith Bool.
From PDT Require Import Base.StableSort Model.Dtype Model.Value Model.Ops Model.Expr Model.RefSem
     Proofs.RefLemmas Proofs.JoinUnionLemmas Proofs.EquivLemmas.
From PDTGen Require Import Catalogue.
Import ListNotations.
Open Scope list_scope.

Theorem is_in_eq_or : forall x a b,
  ewise Op_is_in [x; a; b] = ewise Op_bool_or [ewise Op_equal [x; a]; ewise Op_equal [x; b]].
Proof. exact is_in_eq_or_proof. Qed.
Print Assumptions is_in_eq_or.

Theorem slice_chain_is_one_slice : forall s n1 k1 n2 k2,
  (0 <= n1)%Z -> (0 <= k1)%Z -> (0 <= n2)%Z -> (0 <= k2)%Z ->
  rows (do_slice (do_slice s n1 k1) n2 k2)
  = rows (do_slice s (Z.min (Z.max (n1 - k2) 0) n2) (k1 + k2)).
Proof. exact slice_chain_equiv. Qed.
Print Assumptions slice_chain_is_one_slice.

Theorem inner_join_eq_cross_join_filter : forall l r on,
  rows (do_join l r on JInner)
  = filter (row_true on) (rows (do_join l r (ELit (VBool true)) JInner)).
Proof. exact inner_eq_cross_filter_proof. Qed.
Print Assumptions inner_join_eq_cross_join_filter.

Theorem drop_eq_select_of_complement : forall d c us,
  rows (sem_ref d (Select c us)) = rows (sem_ref d c).
Proof. exact drop_eq_select_complement_proof. Qed.
Print Assumptions drop_eq_select_of_complement.

(* one mutate call with two independent arguments = two calls: both write the same two uids with
   values computed from the same (old) row *)
Theorem mutate_split : forall (ctx : list irow) (ir : irow) (d1 d2 : def) (r0 : row) u,
  snd (fst d1) <> snd (fst d2) ->
  get (apply_defs ctx ir [d1; d2] r0) u
  = get (upd (upd r0 (snd (fst d1)) (eval ctx ir (snd d1))) (snd (fst d2)) (eval ctx ir (snd d2))) u.
Proof. exact mutate_split_proof. Qed.
Print Assumptions mutate_split.

Theorem union_all_commutes_in_size : forall l r,
  List.length (rows (do_union l r false)) = (List.length (rows l) + List.length (rows r))%nat.
Proof. intros. apply union_all_count_proof. Qed.
Print Assumptions union_all_commutes_in_size.
