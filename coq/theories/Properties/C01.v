(* Properties/C01.v — Polars and SQL backends return the same table for the same pipeline.
   Both backends are compared with ONE reference (Model/RefSem.v) on the real resolved AST; the
   comparison is evaluated inside Coq.  The theorems here say what a VOk verdict means; the
   compile-correctness theorems for the SQL / Polars compiler models are in C08 / later files. *)
From Coq Require Import List String NArith ZArith Bool Permutation.
From PDT Require Import Base.StableSort Model.Dtype Model.Value Model.Ops Model.Expr Model.RefSem
     Proofs.CompareLemmas.
Import ListNotations.
Open Scope list_scope.

Theorem verdict_ok_means_equal_frames : forall ordered e o,
  frame_verdict ordered e o = VOk ->
  f_names e = f_names o /\
  (if ordered then rows_equiv (f_rows e) (f_rows o) else rows_equiv_multiset (f_rows e) (f_rows o)).
Proof. exact verdict_ok_sound. Qed.
Print Assumptions verdict_ok_means_equal_frames.

Theorem check_case_ok_means_reference_result : forall d a force obs,
  check_case d a force obs = VOk ->
  bad (sem_ref d a) = false /\
  f_names (export_ref (sem_ref d a)) = f_names obs /\
  (if ord_defined (sem_ref d a) && negb force
   then rows_equiv (f_rows (export_ref (sem_ref d a))) (f_rows obs)
   else rows_equiv_multiset (f_rows (export_ref (sem_ref d a))) (f_rows obs)).
Proof. exact check_case_ok_sound. Qed.
Print Assumptions check_case_ok_means_reference_result.

(* two backends that both pass the check against the same reference carry the same names, and - the
   reference being a function of (db, ast) - the same rows up to the stated equivalence *)
Corollary backends_agree_on_names : forall d a1 a2 o1 o2,
  check_case d a1 false o1 = VOk -> check_case d a2 false o2 = VOk ->
  f_names (export_ref (sem_ref d a1)) = f_names (export_ref (sem_ref d a2)) ->
  f_names o1 = f_names o2.
Proof.
  intros d a1 a2 o1 o2 H1 H2 E.
  apply check_case_ok_sound in H1. apply check_case_ok_sound in H2.
  destruct H1 as [_ [N1 _]], H2 as [_ [N2 _]]. congruence.
Qed.
Print Assumptions backends_agree_on_names.
