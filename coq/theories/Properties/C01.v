(* Properties/C01.v — Polars and SQL backends return the same table for the same pipeline.
   Both backends are compared with ONE reference (Model/RefSem.v) on the real resolved AST; the
   comparison is evaluated inside Coq.  The first theorems say what a VOk verdict means; the last one
   is the compile-correctness theorem of the SQL compiler model for the single-SELECT fragment. *)
From Coq Require Import List String NArith ZArith Bool Permutation.
From PDT Require Import Base.StableSort Model.Dtype Model.Value Model.Ops Model.Expr Model.RefSem
     Model.SqlCompile Model.SqlCompileCheck Model.PlCompile Model.PlCompileCheck
     Proofs.CompareLemmas Proofs.SqlCompileLemmas Proofs.PlCompileLemmas.
From PDTGen Require Import Catalogue.
Import ListNotations.
Open Scope list_scope.

Theorem verdict_ok_means_equal_frames : forall ordered e o,
  frame_verdict ordered e o = VOk ->
  f_names e = f_names o /\
  (if ordered then rows_equiv (f_rows e) (f_rows o) else rows_equiv_multiset (f_rows e) (f_rows o)).
Proof. exact verdict_ok_sound. Qed.
Print Assumptions verdict_ok_means_equal_frames.

Theorem check_case_ok_means_reference_result : forall d a force obs,
  check_case d a force obs = VOk ->
  bad (sem_ref d a) = false /\
  f_names (export_ref (sem_ref d a)) = f_names obs /\
  (if ord_defined (sem_ref d a) && negb force
   then rows_equiv (f_rows (export_ref (sem_ref d a))) (f_rows obs)
   else rows_equiv_multiset (f_rows (export_ref (sem_ref d a))) (f_rows obs)).
Proof. exact check_case_ok_sound. Qed.
Print Assumptions check_case_ok_means_reference_result.

(* two backends that both pass the check against the same reference carry the same names, and - the
   reference being a function of (db, ast) - the same rows up to the stated equivalence *)
Corollary backends_agree_on_names : forall d a1 a2 o1 o2,
  check_case d a1 false o1 = VOk -> check_case d a2 false o2 = VOk ->
  f_names (export_ref (sem_ref d a1)) = f_names (export_ref (sem_ref d a2)) ->
  f_names o1 = f_names o2.
Proof.
  intros d a1 a2 o1 o2 H1 H2 E.
  apply check_case_ok_sound in H1. apply check_case_ok_sound in H2.
  destruct H1 as [_ [N1 _]], H2 as [_ [N2 _]]. congruence.
Qed.
Print Assumptions backends_agree_on_names.

(* SQL COMPILE CORRECTNESS (single-SELECT fragment).  Model/SqlCompile.compile transcribes
   SqlImpl.compile_ast (Query record + inlined definitions); sem_query is the meaning of the SELECT it
   denotes (WHERE, GROUP BY with aggregates over the group, HAVING, ORDER BY, LIMIT / OFFSET, select
   list; window functions range over the rows that pass WHERE).  For EVERY database and every AST accepted
   by flat_ok - source, select, rename, element-wise mutate (also after summarize), mutate with WINDOW /
   aggregate functions (partition_by, arrange=, any element-wise combination of them; while the query is
   neither summarized, ordered nor limited), element-wise filter (WHERE before, HAVING after a summarize;
   never after a window column), group_by / ungroup, one summarize of aggregates over element-wise
   arguments, one arrange (also by window columns), slice_head chains, alias(keep) - the statement returns
   exactly the reference table: same names, same column order, same rows in the same order.  The window
   case rests on Proofs/EvalRel.subst_rel: inlining the definitions (what compile_col_expr does with
   sqa_expr) preserves the value of EVERY expression form.  The tie (L3, harness/sqlcompile.py) compares compile with the real
   compile_ast on every generated single-source pipeline and counts the cases that satisfy flat_ok. *)
Theorem sql_compile_correct : forall d a c,
  compile a = Some c -> flat_ok a = true -> sem_query d c = export_ref (sem_ref d a).
Proof. exact sql_compile_correct_proof. Qed.
Print Assumptions sql_compile_correct.

(* POLARS COMPILE CORRECTNESS.  Model/PlCompile.pl_compile transcribes the Polars compile_ast: the frame is
   processed verb by verb, columns are found through name_in_df, a column whose name is taken by a new
   one is renamed to a suffixed name (rename_overwritten_cols), export selects name_in_df[uid] for the
   selected uids.  For EVERY database and every AST accepted by pflat_ok (the same verbs as above, with
   any number of arranges, filters after arranges and slices, and rename onto hidden names) the exported
   frame is exactly the reference table.  L3 compares select, partition_by, name_in_df and the schema with
   the real compile_ast on every generated single-source Polars case. *)
Theorem polars_compile_correct : forall d a st,
  pl_compile d a = Some st -> pflat_ok d a = true -> pl_export st = export_ref (sem_ref d a).
Proof. exact pl_compile_correct_proof. Qed.
Print Assumptions polars_compile_correct.

(* THE PROPERTY for the common fragment: for all data, the SQL statement and the Polars plan that the two
   backends build for the same pipeline denote the same table - names, column order, rows, row order *)
Theorem backends_agree : forall d a c st,
  compile a = Some c -> flat_ok a = true -> pl_compile d a = Some st -> pflat_ok d a = true ->
  sem_query d c = pl_export st.
Proof. exact backends_agree_proof. Qed.
Print Assumptions backends_agree.

(* the hypothesis is satisfiable by a pipeline using every verb of the fragment *)
Example flat_pipeline :
  let a := SliceHead (Arrange (Filter (Mutate (Summarize (GroupBy (Filter (Mutate
             (Source "t" [("g", 1%N); ("x", 2%N)])
             [("y", 3%N, EFn Op_add [ECol 2%N; ELit (VInt 1)] false [] [])])
             [EFn Op_greater_than [ECol 3%N; ELit (VInt 0)] false [] []]) [1%N] false)
             [("s", 4%N, EFn Op_sum [ECol 3%N] false [] [])])
             [("z", 5%N, EFn Op_mul [ECol 4%N; ELit (VInt 2)] false [] [])])
             [EFn Op_greater_than [ECol 5%N; ELit (VInt 2)] false [] []])
             [(ECol 5%N, (true, Some true))]) 2 0 in
  flat_ok a = true
  /\ pflat_ok [("t", [[VInt 1; VInt 1]; [VInt 1; VInt 2]; [VInt 2; VInt 5]; [VInt 3; VInt (-7)]])] a = true
  /\ f_rows (export_ref (sem_ref [("t", [[VInt 1; VInt 1]; [VInt 1; VInt 2]; [VInt 2; VInt 5]; [VInt 3; VInt (-7)]])] a))
     = [[VInt 2; VInt 6; VInt 12]; [VInt 1; VInt 5; VInt 10]].
Proof. vm_compute. repeat split; reflexivity. Qed.

(* ... and by a pipeline with window functions: a partitioned sum, a row number ordered inside the
   partition, an element-wise use of both, an arrange by a window column and a slice *)
Example window_pipeline :
  let d := [("t", [[VInt 1; VInt 4]; [VInt 1; VInt 2]; [VInt 2; VInt 5]; [VInt 2; VInt (-7)]; [VInt 2; VInt 0]])] in
  let a := SliceHead (Arrange (Mutate (Mutate (Filter
             (Source "t" [("g", 1%N); ("x", 2%N)])
             [EFn Op_greater_than [ECol 2%N; ELit (VInt (-9))] false [] []])
             [("w", 3%N, EFn Op_sum [ECol 2%N] true [ECol 1%N] []);
              ("r", 4%N, EFn Op_row_number [] true [ECol 1%N] [(ECol 2%N, (false, None))])])
             [("z", 5%N, EFn Op_add [ECol 3%N; ECol 4%N] false [] [])])
             [(ECol 3%N, (true, Some true)); (ECol 4%N, (false, None))]) 4 0 in
  flat_ok a = true /\ pflat_ok d a = true
  /\ f_rows (export_ref (sem_ref d a))
     = [[VInt 1; VInt 2; VInt 6; VInt 1; VInt 7]; [VInt 1; VInt 4; VInt 6; VInt 2; VInt 8];
        [VInt 2; VInt (-7); VInt (-2); VInt 1; VInt (-1)]; [VInt 2; VInt 0; VInt (-2); VInt 2; VInt 0]].
Proof. vm_compute. repeat split; reflexivity. Qed.
