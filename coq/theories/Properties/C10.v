(* Properties/C10.v — Tables and expressions are immutable values. *)
From Coq Require Import List NArith Bool Arith.
From PDT Require Import Model.Value Model.Expr Model.RefSem Model.Session Model.Heap Model.HeapProg
     Proofs.SessionLemmas Proofs.HeapLemmas Proofs.HeapProgLemmas.
From PDTGen Require Import CacheUpdate VerbEffects.
Import ListNotations.

(* (1) HISTORY INDEPENDENCE in the value model.  A session is ANY interleaving of verb calls (each binds
   a fresh table to the tree it returned), exports and other calls.  Every export of a table returns
   the value of the tree the table was bound to when it was created - whatever was done before and in
   between, on this or on other tables.  The correspondence run (harness/session.py) checks the two
   facts that tie the implementation to this model: the tree of an existing table never changes
   (fingerprints after every call; isolated rebuild gives the same canonical tree), and every export
   observed at any time equals the reference value of the tree serialised at creation. *)
Theorem export_is_history_independent : forall d acts s n a o,
  fresh_binds s acts = true -> lookup n s = Some a ->
  In (n, o) (run d s acts) -> o = Some (result d a).
Proof. exact export_is_history_independent_proof. Qed.
Print Assumptions export_is_history_independent.

Theorem same_table_same_result : forall d s n a acts1 acts2 o1 o2,
  lookup n s = Some a -> fresh_binds s acts1 = true -> fresh_binds s acts2 = true ->
  In (n, o1) (run d s acts1) -> In (n, o2) (run d s acts2) -> o1 = o2.
Proof. exact same_table_same_result_proof. Qed.
Print Assumptions same_table_same_result.

Theorem existing_tables_keep_their_tree : forall acts s n a,
  fresh_binds s acts = true -> lookup n s = Some a -> lookup n (final_store s acts) = Some a.
Proof. exact store_is_append_only. Qed.
Print Assumptions existing_tables_keep_their_tree.

(* (2) FRAME THEOREM for the object heap.  For ANY straight-line path of heap statements that passes
   the static check, every execution - from any environment and heap, with any contents of the
   objects it creates or mutates - leaves every pre-existing object exactly as it was. *)
Theorem safe_path_preserves_old_objects : forall p e h e' h',
  safe_path p = true -> cexec (e, h) p (e', h') ->
  List.length h <= List.length h' /\ forall l, l < List.length h -> nth_error h' l = nth_error h l.
Proof. exact safe_path_preserves_old_objects_proof. Qed.
Print Assumptions safe_path_preserves_old_objects.

(* ... and the statement lists of Cache.update (every verb branch), preprocess_arg and its
   _preprocess_expr, re-read from /repo's source on every run (generated/CacheUpdate.v), pass it *)
Lemma generated_paths_are_safe :
  forallb safe_path (cache_update_paths ++ preprocess_arg_paths ++ preprocess_expr_paths) = true.
Proof. vm_compute. reflexivity. Qed.

Theorem cache_update_and_preprocessing_write_only_fresh_objects : forall p e h e' h',
  In p (cache_update_paths ++ preprocess_arg_paths ++ preprocess_expr_paths) ->
  cexec (e, h) p (e', h') ->
  forall l, l < List.length h -> nth_error h' l = nth_error h l.
Proof.
  intros p e h e' h' Hin C.
  pose proof (proj1 (forallb_forall _ _) generated_paths_are_safe p Hin) as S.
  apply (safe_path_preserves_old_objects_proof p e h e' h' S C).
Qed.
Print Assumptions cache_update_and_preprocessing_write_only_fresh_objects.

(* (3) The same for PROGRAMS: sequences, choices, loops with break / continue, return / raise, and CALLS of
   the functions of a table (Model/HeapProg.v).  If every function of a table passes the static check - each
   on its own, from the empty abstract state - then every execution of any of them, whichever branches are
   taken, however often each loop runs, however deep the calls go (recursion included), however it ends,
   leaves every pre-existing object exactly as it was. *)
Theorem safe_table_preserves_old_objects : forall funs p e h o e' h',
  safe_table funs = true -> In p funs -> pexec funs p (e, h) o (e', h') ->
  List.length h <= List.length h' /\ forall l, l < List.length h -> nth_error h' l = nth_error h l.
Proof. exact safe_table_preserves_old_objects_proof. Qed.
Print Assumptions safe_table_preserves_old_objects.

(* (a single program, no table) *)
Theorem safe_prog_preserves_old_objects : forall p e h o e' h',
  safe_prog p = true -> pexec [] p (e, h) o (e', h') ->
  List.length h <= List.length h' /\ forall l, l < List.length h -> nth_error h' l = nth_error h l.
Proof. exact safe_prog_preserves_old_objects_proof. Qed.
Print Assumptions safe_prog_preserves_old_objects.

(* ... and the table regenerated from /repo's source on every run (generated/VerbEffects.v) passes it: the
   bodies of the verb front ends (alias, select, drop, rename, mutate, filter, arrange, group_by, ungroup,
   summarize, slice_head, join and its four variants, union), of their nested helpers, of preprocess_arg, of
   check_subquery (the rebuilding of the tree above an alias), of the modify_ast / verb wrappers
   (pipe/verbs.py, pipe/pipeable.py), of Cache.update, from_ast, requires_subquery and selected_cols, of every map_subtree, of every receiver-writing
   method map_children / map_col_roots / map_col_nodes (tree/verbs.py, tree/col_expr.py; run on a shallow
   copy of the receiver, so that the theorem says that nothing but the receiver is written) and of every
   _clone / clone (the tree nodes and the backends' source tables: what export and build_query hand to a
   backend).  A call of one of these functions inside another is a call in the model (PCalls: by simple
   name, by method name to every definition of that name, a decorated verb through the wrapper). *)
Lemma generated_table_is_safe : safe_table verb_table = true.
Proof. vm_compute. reflexivity. Qed.

Theorem verb_front_ends_write_only_fresh_objects : forall name p e h o e' h',
  In (name, p) verb_progs -> pexec verb_table p (e, h) o (e', h') ->
  forall l, l < List.length h -> nth_error h' l = nth_error h l.
Proof.
  intros name p e h o e' h' Hin X.
  assert (Hp : In p verb_table) by (unfold verb_table; apply (in_map snd _ _ Hin)).
  apply (safe_table_preserves_old_objects_proof verb_table p e h o e' h' generated_table_is_safe Hp X).
Qed.
Print Assumptions verb_front_ends_write_only_fresh_objects.

(* PARTIAL: the callees outside the table are a list of trusted names (tree constructors, argument
   checkers, readers, the data-model hooks of Table / ColExpr; DESIGN.md I.6); callback parameters are taken
   to be write-free.  The backend compilers (which rewrite the clone in place) are not translated; for them
   immutability is decided by the session runs. *)

(* the check is not vacuous: it rejects the two shapes of the defects this property is about *)
Example in_place_extension_of_a_shared_list_is_rejected :
  safe_path [SCopy 3 0; SMutF 3 3] = false                  (* res = copy.copy(self); res.partition_by += [...] *)
  /\ safe_path [SSet 0 0 RNew] = false                        (* expr.context_kwargs = {...} on the caller's object *)
  /\ safe_path [SCopy 3 0; SSet 3 3 RNew; SMutF 3 3] = true   (* fresh list first: fine *)
  /\ (2 <= List.length cache_update_paths)%nat.
Proof. vm_compute. repeat split; repeat constructor. Qed.

(* ... nor is the check of programs: a loop that extends a caller's list, a write through a list that is
   not known to hold fresh copies only, and a mutation after the loop of an object bound inside it are
   rejected; rebuilding a chain of fresh copies inside a loop is accepted *)
Example program_check_is_not_vacuous :
  safe_prog (PLoop (PStmt (SMutV 0))) = false                                 (* for ..: arg.append(..) *)
  /\ safe_prog (pseq [PStmt (SLet 1 RNew); PLoop (PStmt (SMutV 1))]) = true    (* acc = []; for ..: acc.append(..) *)
  /\ safe_prog (pseq [PStmt (SLet 1 RNew); PLoop (PStmt (SLet 1 RAny)); PStmt (SMutV 1)]) = false
  /\ safe_prog (pseq [PStmt (SLet 1 RNew); PStmt (SSetElem 1 2 RAny)]) = false  (* l = list(chain); l[i].child = .. *)
  /\ safe_prog (PLoop (pseq [PStmt (SLetCopies 1); PStmt (SAppend 1 RNew);
                             PLoop (PStmt (SSetElem 1 2 RAny)); PStmt (SMutElem 1); PIf PBreak PSkip])) = true
  /\ safe_prog (pseq [PStmt (SLetCopies 1); PStmt (SAppend 1 RAny)]) = false    (* an existing object joins the list *)
  /\ safe_table [PCalls [1]; PStmt (SMutV 0)] = false           (* the callee writes its argument *)
  /\ safe_table [PCalls [5]] = false                             (* a call that names no function of the table *)
  /\ safe_table [PIf (PCalls [0; 1]) PSkip; pseq [PStmt (SLet 1 RNew); PCalls [0]; PStmt (SMutV 1)]] = true
                                                                 (* recursion; a call keeps the caller's facts *)
  /\ (50 <= List.length verb_progs)%nat.
Proof. vm_compute. repeat split; repeat constructor. Qed.
