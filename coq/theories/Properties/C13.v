(* Properties/C13.v — Overload resolution is total, deterministic and uniform.
   Only statements, each closed by [exact <lemma>] and followed by Print Assumptions. *)
From Coq Require Import List String NArith Bool Permutation.
From PDT Require Import Model.Dtype Model.Conv Model.Universe Model.Signature Model.Resolve
     Model.Enum Model.OverloadChecks Proofs.Overload Proofs.OverloadEnumA Proofs.OverloadEnumB
     Proofs.OverloadEnumC Proofs.OverloadEnumD Model.Typing Model.Lca Proofs.LcaLemmas.
From PDTGen Require Import Catalogue ConvTable.
Import ListNotations.

(* 1. Determinism w.r.t. declaration / hash order: for ANY conversion table, ANY list of
      signatures, ANY argument tuple (unbounded), permuting the signatures does not change the
      outcome of the resolution. *)
Theorem resolution_perm :
  forall tbl fs sigs sigs' args,
    Permutation sigs sigs' ->
    Signature.best_match tbl fs sigs args = Signature.best_match tbl fs sigs' args.
Proof. exact resolution_perm_proof. Qed.
Print Assumptions resolution_perm.

(* 2. "Exactly one overload": a Unique result is a candidate and strictly cheaper than every
      other candidate (unbounded). *)
Theorem unique_is_strictly_best :
  forall tbl fs sigs args ps r,
    Signature.best_match tbl fs sigs args = Unique ps r ->
    In (ps, Some r) (Signature.all_matches tbl fs sigs args) /\
    forall m, In m (Signature.all_matches tbl fs sigs args) -> m <> (ps, Some r) ->
              cost_lt (dist tbl args (ps, Some r)) (dist tbl args m) = true.
Proof. exact unique_is_strict_min. Qed.
Print Assumptions unique_is_strictly_best.

(* 3. Totality over the enumeration (every operator of the running catalogue; argument tuples
      U^k for k <= 2, U3^3, U4^k for k >= 4; varargs at arity-1 .. arity+2 arguments):
      the outcome is a type or DataTypeError.
      FULL STATEMENT (false on the unchanged tree, finding #10):
         forall o args, In o all_ops -> In args (enum_args o) -> total_ok no_exception o args = true
      proved: the same with tuples that contain a NullType argument exempted. *)
Theorem resolution_total_U_partial :
  forall o args, In o all_ops -> In args (enum_args o) ->
    total_ok has_null_arg o args = true.
Proof. exact (forall_enum_spec _ total_modulo_null_enum). Qed.
Print Assumptions resolution_total_U_partial.

Theorem resolution_total_refuted :
  exists o args, existsb (opname_eqb o) all_ops = true /\
                 existsb (dtypes_eqb args) (enum_args o) = true /\
                 op_outcome o args = OAssertion.
Proof. exact total_refuted_witness. Qed.
Print Assumptions resolution_total_refuted.

(* 4. Uniformity: wherever generic Int / Float is accepted, every sized integer / float /
      decimal is accepted too and the result stays in the same family. *)
Theorem uniform_sized :
  forall o args, In o all_ops -> In args (enum_args o) -> uniform_ok o args = true.
Proof. exact (forall_enum_spec _ uniform_enum). Qed.
Print Assumptions uniform_sized.

(* 5. A constant argument is accepted wherever a column argument is. *)
Theorem const_accepted_where_column_is :
  forall o args, In o all_ops -> In args (enum_args o) -> const_ok o args = true.
Proof. exact (forall_enum_spec _ const_enum). Qed.
Print Assumptions const_accepted_where_column_is.

(* 6. Parameters declared constant reject column arguments.
      FULL STATEMENT (false on the unchanged tree, finding #17): with [fun _ _ => false].
      proved: all positions except shift's fill_value. *)
Theorem const_param_rejects_column_partial :
  forall o args, In o all_ops -> In args (enum_args o) ->
    constparam_ok exc_shift_fill o args = true.
Proof. exact (forall_enum_spec _ constparam_enum). Qed.
Print Assumptions const_param_rejects_column_partial.

Theorem const_param_rejects_column_refuted :
  const_position Op_shift 2 = true /\
  accepted Op_shift [TS SInt64; TConst (TS SInt64); TS SInt64] = Some (TS SInt64).
Proof. exact constparam_refuted_witness. Qed.
Print Assumptions const_param_rejects_column_refuted.

(* 8. lca_type (the common type of case branches, list literals and union column pairs), List types included
      (Model/Lca.lca_l transcribes tree/types.py lca_type).  The List rule for ANY arity, nesting depth and element
      types; a List meeting a non-List is DataTypeError in either order (the real code raised KeyError /
      AttributeError before fix bd3c03b); and over the finite universes LU (48 types: scalars, lists, lists of
      lists, const) for pairs and LU3 (21 types) for triples - the bound is in the statement - the result does not
      depend on argument order and is never an internal error. *)
Theorem lca_of_lists : forall f t ts,
  lca_l (S f) (map TList (t :: ts)) = tbind (lca_l f (t :: ts)) (fun x => TOk (TList x)).
Proof. exact lca_of_lists_proof. Qed.
Print Assumptions lca_of_lists.

Theorem lca_list_with_scalar_is_datatype_error : forall f a b,
  is_list (without_const b) = false -> is_nulltype (without_const b) = false ->
  lca_l f [TList a; b] = TErr EDataType /\ lca_l f [b; TList a] = TErr EDataType.
Proof. exact lca_list_with_scalar_proof. Qed.
Print Assumptions lca_list_with_scalar_is_datatype_error.

Theorem lca_pairs_order_independent_total_LU : forall a b, In a LU -> In b LU ->
  tres_dtype_eqb (lca_l 3 [a; b]) (lca_l 3 [b; a]) = true /\ not_internal (lca_l 3 [a; b]) = true.
Proof. exact lca_pairs_proof. Qed.
Print Assumptions lca_pairs_order_independent_total_LU.

Theorem lca_triples_order_independent_total_LU3 : forall a b c, In a LU3 -> In b LU3 -> In c LU3 ->
  tres_dtype_eqb (lca_l 3 [a; b; c]) (lca_l 3 [b; a; c]) = true
  /\ tres_dtype_eqb (lca_l 3 [a; b; c]) (lca_l 3 [c; a; b]) = true
  /\ not_internal (lca_l 3 [a; b; c]) = true.
Proof. exact lca_triples_proof. Qed.
Print Assumptions lca_triples_order_independent_total_LU3.

Example lca_example :
  lca_l 3 [TList (TList (TS SUInt8)); TList (TList (TS SInt16))] = TOk (TList (TList (TS SInt)))
  /\ lca_l 3 [TList (TStr (Some 5%N)); TList (TStr (Some 20%N))] = TOk (TList (TStr None))
  /\ lca_l 3 [TS SInt64; TList (TS SInt64)] = TErr EDataType.
Proof. vm_compute. repeat split; reflexivity. Qed.

(* non-vacuity *)
Example enum_is_nontrivial :
  N.ltb 40000 (N.of_nat (List.length (enum_args Op_horizontal_max))) = true /\
  accepted Op_add [TS SInt8; TConst (TS SFloat32)] = Some (TS SFloat) /\
  op_outcome Op_add [TConst (TS SInt64); TConst (TS SInt64)] = OType (TConst (TS SInt)).
Proof. exact enum_nontrivial. Qed.
