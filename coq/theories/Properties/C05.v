(* Properties/C05.v — arrange orders stably; window functions see the right rows in the right order. *)
From Coq Require Import List String NArith ZArith Bool Permutation.
From PDT Require Import Base.StableSort Model.Dtype Model.Value Model.Ops Model.Expr Model.RefSem
     Model.SqlCompile Model.PlCompile Proofs.SortLemmas Proofs.RefLemmas Proofs.ArrangeLemmas Proofs.EvalRel Proofs.SqlCompileLemmas Proofs.PlCompileLemmas.
From PDTGen Require Import Catalogue.
Import ListNotations.
Open Scope list_scope.

(* arrange neither drops nor duplicates rows *)
Theorem arrange_is_a_permutation : forall s os, Permutation (rows s) (rows (do_arrange s os)).
Proof. exact arrange_is_permutation. Qed.
Print Assumptions arrange_is_a_permutation.

(* generic facts about the stable sort that implements arrange (any total, transitive order) *)
Theorem stable_sort_sorted : forall (A : Type) (le : A -> A -> bool),
  (forall x y, le x y = true \/ le y x = true) ->
  (forall x y z, le x y = true -> le y z = true -> le x z = true) ->
  forall l, sorted le (ssort le l).
Proof. exact (@ssort_sorted). Qed.
Print Assumptions stable_sort_sorted.

(* ties keep their previous order: a later arrange takes priority, the earlier order breaks ties *)
Theorem stable_sort_stable : forall (A : Type) (le : A -> A -> bool),
  (forall x y, le x y = true \/ le y x = true) ->
  (forall x y z, le x y = true -> le y z = true -> le x z = true) ->
  forall k l, cls le k (ssort le l) = cls le k l.
Proof. exact (@ssort_stable). Qed.
Print Assumptions stable_sort_stable.

(* row-preserving verbs keep the order: filtering commutes with the sort *)
Theorem filter_commutes_with_sort : forall (A : Type) (le : A -> A -> bool),
  (forall x y z, le x y = true -> le y z = true -> le x z = true) ->
  (forall x y, le x y = true \/ le y x = true) ->
  forall p l, filter p (ssort le l) = ssort le (filter p l).
Proof. exact (@filter_ssort). Qed.
Print Assumptions filter_commutes_with_sort.

Theorem arrange_sorted_by_keys : forall s os,
  (forall x y, le_keyed (map snd os) x y = true \/ le_keyed (map snd os) y x = true) ->
  (forall x y z, le_keyed (map snd os) x y = true -> le_keyed (map snd os) y z = true ->
                 le_keyed (map snd os) x z = true) ->
  sorted (le_keyed (map snd os))
         (ssort (le_keyed (map snd os))
                (map (fun ir => (map (fun o => eval (index_rows (rows s)) ir (fst o)) os, ir))
                     (index_rows (rows s)))).
Proof. exact arrange_sorted_proof. Qed.
Print Assumptions arrange_sorted_by_keys.

(* the markers: null position is decided by nulls_first / nulls_last alone *)
Theorem null_placement_indep_of_desc : forall nl d1 d2 v,
  is_null v = false ->
  cmp_key d1 nl VNull v = cmp_key d2 nl VNull v /\ cmp_key d1 nl v VNull = cmp_key d2 nl v VNull
  /\ cmp_key d1 nl VNull v = (if nl then Gt else Lt).
Proof. exact null_placement_indep_of_desc_proof. Qed.
Print Assumptions null_placement_indep_of_desc.

Theorem descending_reverses : forall nl a b,
  is_null a = false -> is_null b = false -> cmp_key true nl a b = cmp_key false nl b a.
Proof. exact descending_reverses_proof. Qed.
Print Assumptions descending_reverses.

(* windows return one value per row without dropping or reordering rows: mutate is row-wise *)
Theorem window_mutate_keeps_rows : forall s defs,
  List.length (rows (do_mutate s defs)) = List.length (rows s).
Proof. exact mutate_preserves_length. Qed.
Print Assumptions window_mutate_keeps_rows.

(* an expression of ANY form - window function with partition_by and arrange=, aggregate, element-wise -
   has the same value in two contexts whose rows agree, position by position, on the columns it mentions:
   what a window function returns depends on nothing but those rows and their order *)
Theorem window_value_depends_on_the_rows_only : forall e ctx ctx' cur cur',
  Forall2 (irel (cols e)) ctx ctx' -> irel (cols e) cur cur' -> eval ctx cur e = eval ctx' cur' e.
Proof. exact eval_rel. Qed.
Print Assumptions window_value_depends_on_the_rows_only.

(* the Polars plan (transcription of the Polars compile_ast, tied to the real one by the L3 correspondence)
   hands every window / aggregate function the rows the reference semantics hands it, in the same order:
   the exported frame of any single-source pipeline - arranges, windows over partitions, shifts, cumulative
   sums, ranks included - is the reference table, for all data *)
Theorem polars_plan_is_the_reference : forall d a st,
  pl_compile d a = Some st -> pflat_ok d a = true -> pl_export st = export_ref (sem_ref d a).
Proof. exact pl_compile_correct_proof. Qed.
Print Assumptions polars_plan_is_the_reference.

(* SQL: compile_col_expr inlines the definition of every column it meets (sqa_expr).  Inlining preserves
   the value of EVERY expression form - window functions with partition_by and arrange= included -
   provided the inlined definitions, evaluated over the FROM rows, give what the reference rows hold *)
Theorem inlining_preserves_every_expression : forall e ds ctxB ctxR curB curR,
  Forall2 (srel ds ctxB (cols e)) ctxB ctxR -> srel ds ctxB (cols e) curB curR ->
  eval ctxB curB (subst ds e) = eval ctxR curR e.
Proof. exact subst_rel. Qed.
Print Assumptions inlining_preserves_every_expression.

(* ... hence the SELECT that the SQL backend builds hands every window function of a mutate the rows that
   the reference semantics hands it (the rows that pass WHERE, in FROM order), and the ordered / limited
   result is the reference table, for all data (flat_ok: Properties/C01.v) *)
Theorem sql_statement_is_the_reference : forall d a c,
  compile a = Some c -> flat_ok a = true -> sem_query d c = export_ref (sem_ref d a).
Proof. exact sql_compile_correct_proof. Qed.
Print Assumptions sql_statement_is_the_reference.

(* non-vacuity: markers, partitions and order-sensitive windows on a small table *)
Example window_example :
  let d := [("t"%string, [[VInt 1; VInt 3]; [VInt 1; VNull]; [VInt 2; VInt 5]; [VInt 1; VInt 2]])] in
  let src := Source "t" [("g"%string, 1%N); ("x"%string, 2%N)] in
  let a := Mutate src
     [("rn"%string, 3%N, EFn Op_row_number [] true [ECol 1%N] [(ECol 2%N, (true, Some true))]);
      ("cs"%string, 4%N, EFn Op_cum_sum [ECol 2%N] true [ECol 1%N] [(ECol 2%N, (false, Some false))])] in
  f_rows (export_ref (sem_ref d a))
  = [[VInt 1; VInt 3; VInt 1; VInt 5]; [VInt 1; VNull; VInt 3; VNull];
     [VInt 2; VInt 5; VInt 1; VInt 5]; [VInt 1; VInt 2; VInt 2; VInt 2]]
  /\ pflat_ok d (Arrange a [(ECol 3%N, (false, Some true)); (ECol 2%N, (true, Some false))]) = true
  /\ flat_ok (Arrange a [(ECol 3%N, (false, Some true)); (ECol 2%N, (true, Some false))]) = true.
Proof. vm_compute. repeat split; reflexivity. Qed.
