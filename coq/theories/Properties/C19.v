(* Properties/C19.v — Every accepted pipeline compiles on every SQL dialect; every accepted operator
   overload has an implementation or a NotSupportedError on every backend.
   generated/ImplReg.v is rewritten from /repo on every run: for the backends Polars, SQLite,
   PostgreSQL and SQL Server, every operator of the catalogue and every declared overload (type
   variables instantiated, generic Int / Float as Int64 / Float64) it records what
   <Backend>Impl.get_impl(op, signature) did. *)
From Coq Require Import List String NArith Bool.
From PDT Require Import Model.Dtype Model.Signature Model.Resolve Proofs.ImplLemmas.
From PDTGen Require Import Catalogue ImplReg.
Import ListNotations.

(* the lookup never fails with anything but NotSupportedError *)
Theorem overload_has_impl_or_not_supported : forall b o sig out,
  In (b, o, sig, out) impl_table -> out = HasImpl \/ out = NotSupported.
Proof. exact no_internal_error_proof. Qed.
Print Assumptions overload_has_impl_or_not_supported.

(* the table speaks about overloads that the type checker (Model/Resolve, proved equal to the code's
   resolution in C13) accepts ... *)
Theorem table_entries_are_accepted_overloads : forall b o sig out,
  In (b, o, sig, out) impl_table -> exists m r, resolve o sig = Unique m r.
Proof. exact entries_are_accepted_proof. Qed.
Print Assumptions table_entries_are_accepted_overloads.

(* ... and about every operator on every backend *)
Theorem every_operator_on_every_backend : forall b o, exists sig out, In (b, o, sig, out) impl_table.
Proof. exact every_operator_covered_proof. Qed.
Print Assumptions every_operator_on_every_backend.

(* PARTIAL: the first sentence of the property (build_query returns one SELECT or raises
   NotSupportedError / SubqueryError, never an internal error, same text every time) is about the SQL
   compilers, which are not modelled; it is decided by running build_query on generated pipelines on
   SQLite and on offline PostgreSQL and SQL Server engines (harness/props/c19.py).  The SubqueryError
   part of it rests on the requires_subquery model of C08 (Proofs/SubqueryLemmas.v). *)

Example table_is_not_trivial :
  existsb (fun e => match e with (Mssql, Op_add, [TStr None; TStr None], HasImpl) => true | _ => false end) impl_table = true
  /\ Nat.leb 900 (List.length impl_table) = true.
Proof. vm_compute. split; reflexivity. Qed.
