(* Proofs/OpCorrect.v — C03: the expression trees that the REAL operator implementations build
   (generated/OpImpls.v, re-read from /repo on every run) compute the documented operator
   (Model/Ops.ewise) under the primitive semantics of the engines (Model/ImplExpr.v), for ALL operand
   values: unbounded Z, every null combination. *)
From Coq Require Import List String NArith ZArith Bool Lia.
From PDT Require Import Model.Dtype Model.Value Model.Ops Model.ImplExpr.
From PDTGen Require Import Catalogue OpImpls.
Import ListNotations.
Open Scope Z_scope.

Definition small (z : Z) : Prop := - 9223372036854775808 < z < 9223372036854775808.

Lemma chk_small z : small z -> chk_int z = VInt z.
Proof.
  unfold small, chk_int, in_i64. intros H.
  replace (-9223372036854775808 <=? z) with true by (symmetry; apply Z.leb_le; lia).
  replace (z <? 9223372036854775808) with true by (symmetry; apply Z.ltb_lt; lia). reflexivity.
Qed.

Lemma quot_via_floor x y : y <> 0 ->
  Z.quot x y = (Z.abs x / Z.abs y) * (if xorb (x <? 0) (y <? 0) then -1 else 1).
Proof.
  intros Hy.
  destruct (Z.ltb_spec x 0), (Z.ltb_spec y 0); simpl.
  - rewrite !Z.abs_neq by lia. rewrite <- (Z.opp_involutive x) at 1. rewrite <- (Z.opp_involutive y) at 1.
    rewrite Z.quot_opp_opp by lia. rewrite Z.quot_div_nonneg by lia. lia.
  - rewrite Z.abs_neq, (Z.abs_eq y) by lia. rewrite <- (Z.opp_involutive x) at 1.
    rewrite Z.quot_opp_l by lia. rewrite Z.quot_div_nonneg by lia. lia.
  - rewrite Z.abs_eq, (Z.abs_neq y) by lia. rewrite <- (Z.opp_involutive y) at 1.
    rewrite Z.quot_opp_r by lia. rewrite Z.quot_div_nonneg by lia. lia.
  - rewrite !Z.abs_eq by lia. rewrite Z.quot_div_nonneg by lia. lia.
Qed.

Lemma rem_via_floor x y : y <> 0 ->
  Z.rem x y = x mod (Z.abs y * (if x >=? 0 then 1 else -1)).
Proof.
  intros Hy. destruct (Z.geb_spec x 0) as [G|L].
  - rewrite Z.mul_1_r. rewrite <- (Z.rem_abs_r x y) by exact Hy. rewrite Z.rem_mod_nonneg by lia. reflexivity.
  - replace (Z.abs y * -1) with (- Z.abs y) by lia.
    rewrite <- (Z.rem_abs_r x y) by exact Hy.
    rewrite <- (Z.opp_involutive x) at 1. rewrite Z.rem_opp_l by lia.
    rewrite Z.rem_mod_nonneg by lia.
    rewrite <- (Z.opp_involutive x) at 2. rewrite Z.mod_opp_opp by lia. reflexivity.
Qed.

Lemma quot_small x y : y <> 0 -> small x -> small (Z.quot x y).
Proof.
  intros Hy Sx. unfold small in *.
  assert (Z.abs (Z.quot x y) <= Z.abs x).
  { rewrite <- Z.quot_abs by exact Hy. apply Z.quot_le_upper_bound; [lia|]. assert (1 <= Z.abs y) by lia. nia. }
  lia.
Qed.

Lemma rem_small x y : y <> 0 -> small y -> small (Z.rem x y).
Proof. intros Hy Sy. unfold small in *. pose proof (Z.rem_bound_abs x y Hy). lia. Qed.

(* ---- Polars floordiv / mod ---- *)
Theorem polars_floordiv_ok_proof x y :
  y <> 0 -> small x -> small y ->
  pl_eval (env_of [VInt x; VInt y]) polars_floordiv = ewise Op_floordiv [VInt x; VInt y].
Proof.
  intros Hy Sx Sy. unfold polars_floordiv.
  cbn [pl_eval env_of pl_fn pl_bin ewise any_err existsb is_err orb bin v_floordiv num2_of].
  unfold v_abs. rewrite !chk_small by (unfold small in *; lia).
  cbn [pl_int2].
  assert (Ay : Z.abs y =? 0 = false) by (apply Z.eqb_neq; lia).
  rewrite Ay. 
  assert (Hy0 : y =? 0 = false) by (apply Z.eqb_neq; exact Hy). rewrite Hy0.
  unfold v_lt, cmp_op, promote. cbn [cmp_value].
  replace (match x ?= 0 with Lt => true | _ => false end) with (x <? 0) by reflexivity.
  replace (match y ?= 0 with Lt => true | _ => false end) with (y <? 0) by reflexivity.
  cbn [k_xor].
  rewrite (quot_via_floor x y Hy).
  destruct (xorb (x <? 0) (y <? 0)) eqn:E; cbn [value_eqb Bool.eqb v_mul num2_of];
    (rewrite chk_small; [reflexivity|]);
    pose proof (quot_small x y Hy Sx) as Q; rewrite (quot_via_floor x y Hy), E in Q; exact Q.
Qed.

Theorem polars_mod_ok_proof x y :
  y <> 0 -> small x -> small y ->
  pl_eval (env_of [VInt x; VInt y]) polars_mod = ewise Op_mod [VInt x; VInt y].
Proof.
  intros Hy Sx Sy. unfold polars_mod.
  cbn [pl_eval env_of pl_fn pl_bin ewise any_err existsb is_err orb bin v_mod num2_of].
  unfold v_abs. rewrite !chk_small by (unfold small in *; lia).
  assert (Hy0 : y =? 0 = false) by (apply Z.eqb_neq; exact Hy). rewrite Hy0.
  unfold v_ge, cmp_op, promote. cbn [cmp_value].
  replace (match x ?= 0 with Lt => false | _ => true end) with (x >=? 0) by reflexivity.
  rewrite (rem_via_floor x y Hy).
  destruct (x >=? 0) eqn:E; cbn [value_eqb Bool.eqb v_mul num2_of];
    rewrite chk_small by (unfold small in *; lia); cbn [pl_int2].
  - assert (Z.abs y * 1 =? 0 = false) as -> by (apply Z.eqb_neq; lia).
    rewrite chk_small; [reflexivity|].
    pose proof (rem_small x y Hy Sy) as Q. rewrite (rem_via_floor x y Hy), E in Q. exact Q.
  - assert (Z.abs y * -1 =? 0 = false) as -> by (apply Z.eqb_neq; lia).
    rewrite chk_small; [reflexivity|].
    pose proof (rem_small x y Hy Sy) as Q. rewrite (rem_via_floor x y Hy), E in Q. exact Q.
Qed.


(* null operands give null, on every backend *)
Lemma env2_x a b : env_of [a; b] "x"%string = a. Proof. reflexivity. Qed.
Lemma env2_y a b : env_of [a; b] "y"%string = b. Proof. reflexivity. Qed.

Theorem floordiv_mod_null_proof (v : value) :
  (v = VNull \/ exists z, small z /\ v = VInt z) ->
  pl_eval (env_of [VNull; v]) polars_floordiv = VNull /\ pl_eval (env_of [VNull; v]) polars_mod = VNull
  /\ sql_eval (env_of [VNull; v]) sqlite_floordiv = VNull /\ sql_eval (env_of [VNull; v]) sqlite_mod = VNull
  /\ ewise Op_floordiv [VNull; v] = VNull /\ ewise Op_mod [VNull; v] = VNull.
Proof.
  intros H. unfold polars_floordiv, polars_mod, sqlite_floordiv, sqlite_mod.
  cbn [pl_eval sql_eval]. rewrite !env2_x, !env2_y.
  destruct H as [->|[z [Sz ->]]]; repeat split; try reflexivity.
  - cbn [pl_fn pl_bin v_abs]. rewrite chk_small by (unfold small in *; lia). reflexivity.
  - cbn [pl_fn pl_bin v_abs v_ge cmp_op]. rewrite chk_small by (unfold small in *; lia).
    cbn [v_mul num2_of]. rewrite chk_small by (unfold small in *; lia). reflexivity.
Qed.

(* SQLite integer / and % are the documented operators directly *)
Theorem sqlite_floordiv_mod_ok_proof x y :
  y <> 0 -> small x -> small y ->
  sql_eval (env_of [VInt x; VInt y]) sqlite_floordiv = ewise Op_floordiv [VInt x; VInt y]
  /\ sql_eval (env_of [VInt x; VInt y]) sqlite_mod = ewise Op_mod [VInt x; VInt y].
Proof.
  intros Hy Sx Sy.
  assert (Hy0 : y =? 0 = false) by (apply Z.eqb_neq; exact Hy).
  unfold sqlite_floordiv, sqlite_mod. cbn [sql_eval]. rewrite !env2_x, !env2_y.
  cbn [sq_bin pl_int2 ewise any_err existsb is_err orb bin v_floordiv v_mod num2_of]. rewrite Hy0.
  split; rewrite chk_small; try reflexivity.
  - apply quot_small; assumption.
  - apply rem_small; assumption.
Qed.

(* ---------- horizontal max / min: SQLite's scalar MAX/MIN return NULL if any argument is NULL;
   the implementation wraps them in COALESCE, divide and conquer ---------- *)
Inductive ion : value -> Prop := ion_null : ion VNull | ion_int z : ion (VInt z).
Inductive bon : value -> Prop := bon_null : bon VNull | bon_bool b : bon (VBool b).

Lemma vmax_int a b : v_max2 (VInt a) (VInt b) = VInt (Z.max a b).
Proof. unfold v_max2, promote, cmp_value, Z.max. destruct (a ?= b); reflexivity. Qed.
Lemma vmin_int a b : v_min2 (VInt a) (VInt b) = VInt (Z.min a b).
Proof. unfold v_min2, promote, cmp_value, Z.min. destruct (a ?= b); reflexivity. Qed.

Ltac hstep :=
  cbn -[v_max2 v_min2 Z.max Z.min]; rewrite ?vmax_int, ?vmin_int.
Ltac hsolve :=
  intros; cbn [sql_eval pl_eval env_of];
  repeat match goal with H : ion _ |- _ => destruct H end;
  hstep; hstep; hstep; hstep; hstep;
  try reflexivity; try (f_equal; lia).

Theorem sqlite_hmax2_ok_proof x y : ion x -> ion y ->
  sql_eval (env_of [x; y]) sqlite_hmax2 = ewise Op_horizontal_max [x; y].
Proof. unfold sqlite_hmax2. hsolve. Qed.
Theorem sqlite_hmax3_ok_proof x y z : ion x -> ion y -> ion z ->
  sql_eval (env_of [x; y; z]) sqlite_hmax3 = ewise Op_horizontal_max [x; y; z].
Proof. unfold sqlite_hmax3. hsolve. Qed.
Theorem sqlite_hmin2_ok_proof x y : ion x -> ion y ->
  sql_eval (env_of [x; y]) sqlite_hmin2 = ewise Op_horizontal_min [x; y].
Proof. unfold sqlite_hmin2. hsolve. Qed.
Theorem sqlite_hmin3_ok_proof x y z : ion x -> ion y -> ion z ->
  sql_eval (env_of [x; y; z]) sqlite_hmin3 = ewise Op_horizontal_min [x; y; z].
Proof. unfold sqlite_hmin3. hsolve. Qed.

(* ---------- is_in = three-valued disjunction of equalities; empty value list = false ---------- *)
Ltac esolve :=
  intros; cbn [sql_eval pl_eval env_of];
  repeat match goal with H : ion _ |- _ => destruct H | H : bon _ |- _ => destruct H end;
  cbn -[Z.compare]; try reflexivity.


Theorem is_in_ok_proof x y z w : ion x -> ion y -> ion z -> ion w ->
  pl_eval (env_of [x]) polars_is_in1 = ewise Op_is_in [x]
  /\ sql_eval (env_of [x]) sqlite_is_in1 = ewise Op_is_in [x]
  /\ pl_eval (env_of [x; y]) polars_is_in2 = ewise Op_is_in [x; y]
  /\ sql_eval (env_of [x; y]) sqlite_is_in2 = ewise Op_is_in [x; y]
  /\ pl_eval (env_of [x; y; z]) polars_is_in3 = ewise Op_is_in [x; y; z]
  /\ sql_eval (env_of [x; y; z]) sqlite_is_in3 = ewise Op_is_in [x; y; z]
  /\ pl_eval (env_of [x; y; z; w]) polars_is_in4 = ewise Op_is_in [x; y; z; w]
  /\ sql_eval (env_of [x; y; z; w]) sqlite_is_in4 = ewise Op_is_in [x; y; z; w].
Proof.
  unfold polars_is_in1, sqlite_is_in1, polars_is_in2, sqlite_is_in2, polars_is_in3, sqlite_is_in3,
         polars_is_in4, sqlite_is_in4.
  intros Hx Hy Hz Hw. destruct Hx, Hy, Hz, Hw; cbn -[Z.compare]; repeat split; reflexivity.
Qed.

(* ---------- boolean operators: Kleene logic on both backends (SQL xor is `<>`) ---------- *)
Theorem bool_ops_ok_proof x y : bon x -> bon y ->
  pl_eval (env_of [x; y]) polars_bool_and = ewise Op_bool_and [x; y]
  /\ sql_eval (env_of [x; y]) sqlite_bool_and = ewise Op_bool_and [x; y]
  /\ pl_eval (env_of [x; y]) polars_bool_or = ewise Op_bool_or [x; y]
  /\ sql_eval (env_of [x; y]) sqlite_bool_or = ewise Op_bool_or [x; y]
  /\ pl_eval (env_of [x; y]) polars_bool_xor = ewise Op_bool_xor [x; y]
  /\ sql_eval (env_of [x; y]) sqlite_bool_xor = ewise Op_bool_xor [x; y]
  /\ pl_eval (env_of [x]) polars_bool_invert = ewise Op_bool_invert [x]
  /\ sql_eval (env_of [x]) sqlite_bool_invert = ewise Op_bool_invert [x].
Proof.
  unfold polars_bool_and, sqlite_bool_and, polars_bool_or, sqlite_bool_or, polars_bool_xor, sqlite_bool_xor,
         polars_bool_invert, sqlite_bool_invert.
  intros Hx Hy. destruct Hx as [|a], Hy as [|b]; try destruct a; try destruct b; cbn; repeat split; reflexivity.
Qed.

(* ---------- clip with non-null bounds, fill_null, coalesce ---------- *)
Theorem clip_ok_proof x lo hi : ion x ->
  pl_eval (env_of [x; VInt lo; VInt hi]) polars_clip = ewise Op_clip [x; VInt lo; VInt hi]
  /\ sql_eval (env_of [x; VInt lo; VInt hi]) sqlite_clip = ewise Op_clip [x; VInt lo; VInt hi].
Proof.
  unfold polars_clip, sqlite_clip. intros Hx. destruct Hx; cbn [sql_eval pl_eval env_of]; hstep; hstep; hstep;
    split; try reflexivity.
Qed.

Theorem fill_null_coalesce_ok_proof x y z : ion x -> ion y -> ion z ->
  pl_eval (env_of [x; y]) polars_fill_null = ewise Op_fill_null [x; y]
  /\ sql_eval (env_of [x; y]) sqlite_fill_null = ewise Op_fill_null [x; y]
  /\ pl_eval (env_of [x; y; z]) polars_coalesce3 = ewise Op_coalesce [x; y; z]
  /\ sql_eval (env_of [x; y; z]) sqlite_coalesce3 = ewise Op_coalesce [x; y; z].
Proof.
  unfold polars_fill_null, sqlite_fill_null, polars_coalesce3, sqlite_coalesce3.
  intros Hx Hy Hz. destruct Hx, Hy, Hz; cbn; repeat split; reflexivity.
Qed.

(* ---------- horizontal sum / any / all are folds of + | & ---------- *)
Theorem horizontal_folds_ok_proof x y z p q r : ion x -> ion y -> ion z -> bon p -> bon q -> bon r ->
  pl_eval (env_of [x; y; z]) polars_hsum3 = ewise Op_horizontal_sum [x; y; z]
  /\ sql_eval (env_of [x; y; z]) sqlite_hsum3 = ewise Op_horizontal_sum [x; y; z]
  /\ pl_eval (env_of [p; q; r]) polars_hany3 = ewise Op_horizontal_any [p; q; r]
  /\ sql_eval (env_of [p; q; r]) sqlite_hany3 = ewise Op_horizontal_any [p; q; r]
  /\ pl_eval (env_of [p; q; r]) polars_hall3 = ewise Op_horizontal_all [p; q; r]
  /\ sql_eval (env_of [p; q; r]) sqlite_hall3 = ewise Op_horizontal_all [p; q; r].
Proof.
  unfold polars_hsum3, sqlite_hsum3, polars_hany3, sqlite_hany3, polars_hall3, sqlite_hall3.
  intros Hx Hy Hz Hp Hq Hr.
  repeat split.
  1,2: destruct Hx, Hy, Hz; cbn -[Z.add in_i64]; reflexivity.
  all: destruct Hp as [|a], Hq as [|b], Hr as [|c]; try destruct a; try destruct b; try destruct c; cbn; reflexivity.
Qed.
