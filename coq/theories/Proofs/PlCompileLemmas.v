(* Proofs/PlCompileLemmas.v — compile correctness of the Polars backend's compile_ast (Model/PlCompile.v)
   for single-source pipelines: the exported frame is the reference table, for all data. *)
From Coq Require Import List String NArith ZArith Bool Lia Arith.
From PDT Require Import Base.StableSort Model.Dtype Model.Value Model.Ops Model.Expr Model.RefSem Model.SqlCompile
     Model.PlCompile Proofs.SortLemmas Proofs.RefLemmas Proofs.EvalLemmas Proofs.GroupLemmas Proofs.ListRel Proofs.RefKeys Proofs.SqlCompileLemmas
     Proofs.EvalRel.
From PDTGen Require Import Catalogue.
Import ListNotations.
Open Scope nat_scope.
Open Scope list_scope.

(* ---------- names ---------- *)
Lemma dname_eqb_eq a b : dname_eqb a b = true <-> a = b.
Proof.
  destruct a as [n|n c], b as [m|m k]; simpl; split; intros H; try discriminate H.
  - apply String.eqb_eq in H. subst. reflexivity.
  - inversion H; subst. apply String.eqb_refl.
  - apply andb_prop in H. destruct H as [E1 E2]. apply String.eqb_eq in E1. apply Nat.eqb_eq in E2. subst. reflexivity.
  - inversion H; subst. rewrite String.eqb_refl, Nat.eqb_refl. reflexivity.
Qed.
Lemma dname_eqb_refl a : dname_eqb a a = true.
Proof. apply dname_eqb_eq. reflexivity. Qed.
Lemma dname_eqb_neq a b : a <> b -> dname_eqb a b = false.
Proof. intros H. destruct (dname_eqb a b) eqn:E; [apply dname_eqb_eq in E; contradiction|reflexivity]. Qed.

Lemma mem_d_In x l : mem_d x l = true <-> In x l.
Proof.
  unfold mem_d. rewrite existsb_exists. split.
  - intros [y [Hy E]]. apply dname_eqb_eq in E. subst. exact Hy.
  - intros H. exists x. split; [exact H|apply dname_eqb_refl].
Qed.

Lemma mem_s_In x l : mem_s x l = true <-> In x l.
Proof.
  unfold mem_s. rewrite existsb_exists. split.
  - intros [y [Hy E]]. apply String.eqb_eq in E. subst. exact Hy.
  - intros H. exists x. split; [exact H|apply String.eqb_refl].
Qed.

Lemma nodup_s_NoDup l : nodup_s l = true -> NoDup l.
Proof.
  induction l as [|x l IH]; intros H; [constructor|]. simpl in H. apply andb_prop in H. destruct H as [H1 H2].
  constructor; [|apply IH; exact H2]. intros C. apply mem_s_In in C. rewrite C in H1. discriminate H1.
Qed.

Lemma get_view ns f u : In u (dom ns) -> get (view ns f) u = nget f (pname ns u).
Proof.
  unfold view, pname, dom. induction ns as [|[k n] ns IH]; intros H; [destruct H|]. simpl.
  rewrite N.eqb_sym. destruct (N.eqb_spec u k) as [E|E]; [reflexivity|].
  destruct H as [H|H]; [simpl in H; congruence|]. apply IH. exact H.
Qed.

Lemma nget_app_skip pre f dn : (forall kv, In kv pre -> fst kv <> dn) -> nget (pre ++ f) dn = nget f dn.
Proof.
  induction pre as [|[k v] pre IH]; intros H; [reflexivity|]. simpl.
  rewrite dname_eqb_neq by (apply (H (k, v)); left; reflexivity). apply IH. intros kv Hkv. apply H. right. exact Hkv.
Qed.

(* ---------- rename_overwritten_cols ---------- *)
Definition bounded (ctr : nat) (dn : dname) : Prop := match dn with User _ => True | Hidden _ c => c < ctr end.

Lemma index_s_lt n l : mem_s n l = true -> index_s n l < List.length l.
Proof.
  induction l as [|x l IH]; intros H; [discriminate H|]. simpl in *.
  rewrite String.eqb_sym in H. destruct (String.eqb x n); [lia|]. simpl in H. specialize (IH H). lia.
Qed.

Lemma ren_over_inj news consider ctr a b :
  bounded ctr a -> bounded ctr b -> ren_over news consider ctr a = ren_over news consider ctr b -> a = b.
Proof.
  intros Ba Bb. destruct a as [n|n c], b as [m|m k]; simpl.
  - destruct (mem_s n news && mem_d (User n) consider), (mem_s m news && mem_d (User m) consider); intros H; inversion H; subst; reflexivity.
  - destruct (mem_s n news && mem_d (User n) consider); intros H; inversion H; subst. simpl in Bb. lia.
  - destruct (mem_s m news && mem_d (User m) consider); intros H; inversion H; subst. simpl in Ba. lia.
  - intros H. exact H.
Qed.

Lemma ren_over_bounded news consider ctr dn :
  bounded ctr dn -> bounded (ctr + List.length news) (ren_over news consider ctr dn).
Proof.
  destruct dn as [n|n c]; simpl; intros H.
  - destruct (mem_s n news) eqn:M; simpl; [|exact I]. destruct (mem_d (User n) consider); simpl; [|exact I].
    pose proof (index_s_lt n news M). lia.
  - lia.
Qed.

Lemma nget_map_keys (g : dname -> dname) ctr f dn :
  (forall a b, bounded ctr a -> bounded ctr b -> g a = g b -> a = b) ->
  (forall kv, In kv f -> bounded ctr (fst kv)) -> bounded ctr dn ->
  nget (map_keys g f) (g dn) = nget f dn.
Proof.
  intros Inj. induction f as [|[k v] f IH]; intros Hk Hd; [reflexivity|]. simpl.
  destruct (dname_eqb k dn) eqn:E.
  - apply dname_eqb_eq in E. subst. rewrite dname_eqb_refl. reflexivity.
  - rewrite dname_eqb_neq.
    + apply IH; [|exact Hd]. intros kv Hkv. apply Hk. right. exact Hkv.
    + intros C. apply Inj in C; [subst; rewrite dname_eqb_refl in E; discriminate E| |exact Hd].
      apply (Hk (k, v)). left. reflexivity.
Qed.

Lemma pname_map (g : dname -> dname) ns u : In u (dom ns) ->
  pname (map (fun un => (fst un, g (snd un))) ns) u = g (pname ns u).
Proof.
  unfold pname, dom. induction ns as [|[k n] ns IH]; intros H; [destruct H|]. simpl.
  destruct (N.eqb_spec u k) as [E|E]; [reflexivity|].
  destruct H as [H|H]; [simpl in H; congruence|]. apply IH. exact H.
Qed.

Lemma dom_map (g : dname -> dname) ns : dom (map (fun un => (fst un, g (snd un))) ns) = dom ns.
Proof. unfold dom. rewrite map_map. reflexivity. Qed.

Lemma pname_in_ns ns u : In u (dom ns) -> In (pname ns u) (map snd ns).
Proof.
  unfold pname, dom. induction ns as [|[k n] ns IH]; intros H; [destruct H|]. simpl.
  destruct (N.eqb_spec u k) as [E|E]; [left; reflexivity|].
  destruct H as [H|H]; [simpl in H; congruence|]. right. apply IH. exact H.
Qed.

(* ---------- the invariant ---------- *)
Record PAux (st : pstate) : Prop := {
  pa_sel : forall u, In u (p_select st) -> In u (dom (p_ns st));
  pa_part : forall u, In u (p_part st) -> In u (dom (p_ns st));
  pa_ns_b : forall un, In un (p_ns st) -> bounded (p_ctr st) (snd un);
  pa_keys_b : forall k, In k (p_keys st) -> bounded (p_ctr st) k;
  pa_rows_k : forall f kv, In f (p_rows st) -> In kv f -> In (fst kv) (p_keys st);
  pa_ns_keys : forall u, In u (dom (p_ns st)) -> In (pname (p_ns st) u) (p_keys st);
  pa_sel_user : forall u, In u (p_select st) -> is_user (pname (p_ns st) u) = true
}.

Definition prel (ns : names) (r : row) (f : nrow) : Prop := forall u, In u (dom ns) -> get r u = nget f (pname ns u).

Record PInv (s : rstate) (st : pstate) : Prop := {
  pi_rows : Forall2 (prel (p_ns st)) (rows s) (p_rows st);
  pi_sel : sel s = map (fun u => (uname (pname (p_ns st) u), u)) (p_select st);
  pi_group : group s = p_part st
}.

Lemma bounded_mono c c' dn : c <= c' -> bounded c dn -> bounded c' dn.
Proof. destruct dn; simpl; intros; [exact I|lia]. Qed.

Lemma pname_bounded st u : PAux st -> In u (dom (p_ns st)) -> bounded (p_ctr st) (pname (p_ns st) u).
Proof.
  intros A H. pose proof (pname_in_ns _ _ H) as Hin. apply in_map_iff in Hin. destruct Hin as [un [E Hun]].
  rewrite <- E. apply (pa_ns_b st A un Hun).
Qed.

Theorem pinv_frame s st : PInv s st -> PAux st -> export_ref s = pl_export st.
Proof.
  intros [R S G] A. unfold export_ref, pl_export. f_equal.
  - rewrite S, map_map. simpl. apply map_ext_in. intros u Hu.
    pose proof (pa_sel_user st A u Hu) as U. destruct (pname (p_ns st) u); [reflexivity|discriminate U].
  - rewrite S. apply (Forall2_map_eq _ _ _ _ _ R). intros r f Hrf. rewrite map_map. simpl.
    apply map_ext_in. intros u Hu. apply Hrf. apply (pa_sel st A). exact Hu.
Qed.

(* ---------- rename_over keeps every in-scope column readable ---------- *)
Lemma Forall2_in_r {A B} (R : A -> B -> Prop) (P : B -> Prop) l l' :
  Forall2 R l l' -> (forall b, In b l' -> P b) -> Forall2 (fun a b => R a b /\ P b) l l'.
Proof.
  induction 1 as [|a b l l' Hab _ IH]; intros H; constructor.
  - split; [exact Hab|apply H; left; reflexivity].
  - apply IH. intros x Hx. apply H. right. exact Hx.
Qed.

Section RenameOver.
Variable st : pstate.
Variable news : list string.
Variable consider : list dname.
Hypothesis A : PAux st.
Let g := ren_over news consider (p_ctr st).
Let st1 := rename_over news consider st.

Lemma ro_dom : dom (p_ns st1) = dom (p_ns st).
Proof. unfold st1, rename_over. cbn [p_ns]. apply dom_map. Qed.

Lemma ro_pname u : In u (dom (p_ns st)) -> pname (p_ns st1) u = g (pname (p_ns st) u).
Proof. intros H. unfold st1, rename_over. cbn [p_ns]. apply pname_map. exact H. Qed.

Lemma ro_rows (rs : list row) : Forall2 (prel (p_ns st)) rs (p_rows st) -> Forall2 (prel (p_ns st1)) rs (p_rows st1).
Proof.
  intros R. unfold st1 at 2. unfold rename_over. cbn [p_rows]. apply Forall2_map_r.
  apply (Forall2_in_r _ (fun f => In f (p_rows st))) in R; [|auto].
  eapply Forall2_impl'; [|exact R]. intros r f [Hrf Hin] u Hu. rewrite ro_dom in Hu.
  rewrite ro_pname by exact Hu. rewrite (Hrf u Hu). symmetry.
  apply (nget_map_keys g (p_ctr st)).
  - intros a b Ba Bb. apply ren_over_inj; assumption.
  - intros kv Hkv. apply (pa_keys_b st A). apply (pa_rows_k st A f kv Hin Hkv).
  - apply pname_bounded; assumption.
Qed.

Lemma ro_aux_core :
  (forall u, In u (p_select st1) -> In u (dom (p_ns st1)))
  /\ (forall u, In u (p_part st1) -> In u (dom (p_ns st1)))
  /\ (forall un, In un (p_ns st1) -> bounded (p_ctr st1) (snd un))
  /\ (forall k, In k (p_keys st1) -> bounded (p_ctr st1) k)
  /\ (forall f kv, In f (p_rows st1) -> In kv f -> In (fst kv) (p_keys st1))
  /\ (forall u, In u (dom (p_ns st1)) -> In (pname (p_ns st1) u) (p_keys st1)).
Proof.
  unfold st1, rename_over. cbn [p_select p_part p_ns p_ctr p_keys p_rows]. rewrite dom_map. repeat split.
  - apply (pa_sel st A).
  - apply (pa_part st A).
  - intros un H. apply in_map_iff in H. destruct H as [un0 [<- H0]]. simpl.
    apply ren_over_bounded. apply (pa_ns_b st A un0 H0).
  - intros k H. apply in_map_iff in H. destruct H as [k0 [<- H0]]. apply ren_over_bounded. apply (pa_keys_b st A k0 H0).
  - intros f kv Hf Hkv. apply in_map_iff in Hf. destruct Hf as [f0 [<- Hf0]].
    unfold map_keys in Hkv. apply in_map_iff in Hkv. destruct Hkv as [kv0 [<- Hkv0]]. simpl.
    apply in_map. apply (pa_rows_k st A f0 kv0 Hf0 Hkv0).
  - intros u H. rewrite pname_map by exact H. apply in_map. apply (pa_ns_keys st A u H).
Qed.
End RenameOver.

(* ---------- element-wise expressions read only the columns they mention ---------- *)
Definition id_defs (l : list uid) : sdefs := map (fun x => (x, ECol x)) l.

Lemma def_of_id l x : In x l -> def_of (id_defs l) x = ECol x.
Proof.
  unfold def_of, id_defs. induction l as [|y l IH]; intros Hx; [destruct Hx|]. simpl.
  destruct (N.eqb_spec x y) as [Ey|Ey]; [subst; reflexivity|]. destruct Hx as [Hx|Hx]; [congruence|]. apply IH. exact Hx.
Qed.

Lemma def_of_id_elem l : ds_elem (id_defs l).
Proof.
  intros x. unfold def_of, id_defs. induction l as [|y l IH]; simpl; [reflexivity|]. destruct (N.eqb x y); [reflexivity|exact IH].
Qed.

Lemma subst_id ds : forall e0 : expr, (forall x, In x (cols e0) -> def_of ds x = ECol x) -> subst ds e0 = e0.
Proof.
  apply (expr_ind2 (fun e0 => (forall x, In x (cols e0) -> def_of ds x = ECol x) -> subst ds e0 = e0)).
  - intros u Hu. simpl. apply Hu. left. reflexivity.
  - reflexivity.
  - intros e0 t IH Hc. simpl. rewrite IH by exact Hc. reflexivity.
  - intros cs d0 IHcs IHd Hc. cbn [subst]. f_equal.
    + induction cs as [|[c v] cs IH]; [reflexivity|]. inversion IHcs as [|? ? [Hc1 Hv1] Hrest]; subst. simpl in Hc1, Hv1.
      cbn [map fst snd]. rewrite Hc1 by (intros x Hx; apply Hc; apply cols_case_c; exact Hx).
      rewrite Hv1 by (intros x Hx; apply Hc; apply cols_case_v; exact Hx).
      rewrite (IH Hrest); [reflexivity|]. intros x Hx. apply Hc. apply cols_case_rest. exact Hx.
    + destruct d0 as [x0|]; [|reflexivity]. f_equal. apply IHd. intros x Hx. apply Hc. simpl. apply in_or_app. right. exact Hx.
  - intros o args hp part arr IHa IHp IHr Hc. cbn [subst]. cbn [cols] in Hc. f_equal.
    + assert (H' : forall x, In x (flat_map cols args) -> def_of ds x = ECol x) by (intros x Hx; apply Hc; apply in_or_app; left; exact Hx).
      clear Hc. induction args as [|a args IH]; [reflexivity|]. inversion IHa as [|? ? Ha Hrest]; subst. simpl.
      rewrite Ha by (intros x Hx; apply H'; simpl; apply in_or_app; left; exact Hx).
      rewrite (IH Hrest); [reflexivity|]. intros x Hx. apply H'. simpl. apply in_or_app. right. exact Hx.
    + assert (H' : forall x, In x (flat_map cols part) -> def_of ds x = ECol x) by (intros x Hx; apply Hc; apply in_or_app; right; apply in_or_app; left; exact Hx).
      clear Hc. induction part as [|a part IH]; [reflexivity|]. inversion IHp as [|? ? Ha Hrest]; subst. simpl.
      rewrite Ha by (intros x Hx; apply H'; simpl; apply in_or_app; left; exact Hx).
      rewrite (IH Hrest); [reflexivity|]. intros x Hx. apply H'. simpl. apply in_or_app. right. exact Hx.
    + assert (H' : forall x, In x (flat_map (fun ka => cols (fst ka)) arr) -> def_of ds x = ECol x) by (intros x Hx; apply Hc; apply in_or_app; right; apply in_or_app; right; exact Hx).
      clear Hc. induction arr as [|[a m] arr IH]; [reflexivity|]. inversion IHr as [|? ? Ha Hrest]; subst. simpl in *.
      rewrite Ha by (intros x Hx; apply H'; apply in_or_app; left; exact Hx).
      rewrite (IH Hrest); [reflexivity|]. intros x Hx. apply H'. apply in_or_app. right. exact Hx.
Qed.

Lemma elem_local_on : forall e, elem e = true ->
  forall ctx ctx' i i' r r', (forall x, In x (cols e) -> get r x = get r' x) -> eval ctx (i, r) e = eval ctx' (i', r') e.
Proof.
  intros e E ctx ctx' i i' r r' H.
  rewrite (subst_elem e E (id_defs (cols e)) (ctx', (i', r')) ctx i r).
  - unfold ev. simpl. rewrite subst_id; [reflexivity|]. intros x Hx. apply def_of_id. exact Hx.
  - intros x Hx. unfold evd. rewrite (def_of_id _ _ Hx). simpl. apply H. exact Hx.
Qed.

(* ---------- expressions evaluated through name_in_df ---------- *)
Lemma peval_ref ns (r : row) (f : nrow) e ctxP ctxR i j :
  prel ns r f -> elem e = true -> pscoped ns e = true ->
  eval ctxP (i, view ns f) e = eval ctxR (j, r) e.
Proof.
  intros Hrf E Sc. apply elem_local_on; [exact E|]. intros x Hx.
  assert (Hd : In x (dom ns)) by (apply (forallb_mem_incl _ _ Sc); exact Hx).
  rewrite get_view by exact Hd. symmetry. apply Hrf. exact Hd.
Qed.

Lemma Forall2_combine_seq {A B} (R : A -> B -> Prop) l l' : Forall2 R l l' -> forall n,
  Forall2 (fun a b => fst a = fst b /\ R (snd a) (snd b)) (combine (seq n (List.length l)) l) (combine (seq n (List.length l')) l').
Proof. induction 1 as [|a b l l' Hab _ IH]; intros n; simpl; constructor; [split; [reflexivity|exact Hab]|apply IH]. Qed.

(* any expression - element-wise, aggregate, window - evaluated on the frame through name_in_df has the value the
   reference gives it on the related rows *)
Lemma ctx_irel ns (X : list uid) (rowsR : list row) (rowsP : list nrow) :
  (forall x, In x X -> In x (dom ns)) -> Forall2 (prel ns) rowsR rowsP ->
  Forall2 (irel X) (pctx ns rowsP) (index_rows rowsR).
Proof.
  intros Hd F. unfold pctx, index_rows. rewrite map_length.
  assert (F2 : Forall2 (fun (a : nrow) (b : row) => forall x, In x X -> nget a (pname ns x) = get b x) rowsP rowsR).
  { clear -F Hd. induction F as [|a b l l' Hab _ IH]; constructor; [|exact IH]. intros x Hx. symmetry. apply Hab. apply Hd. exact Hx. }
  clear F. revert F2. generalize 0. generalize rowsR. induction rowsP as [|fp rowsP IH]; intros rowsR0 n F2; inversion F2; subst; simpl; constructor.
  - split; [reflexivity|]. intros x Hx. simpl. rewrite get_view by (apply Hd; exact Hx). auto.
  - apply IH. assumption.
Qed.

Lemma peval_gen ns (rowsR : list row) (rowsP : list nrow) e (r : row) (f : nrow) i :
  Forall2 (prel ns) rowsR rowsP -> prel ns r f -> pscoped ns e = true ->
  eval (pctx ns rowsP) (i, view ns f) e = eval (index_rows rowsR) (i, r) e.
Proof.
  intros F Hrf Sc. pose proof (forallb_mem_incl _ _ Sc) as Hd.
  apply eval_rel.
  - apply ctx_irel; assumption.
  - split; [reflexivity|]. intros x Hx. simpl. rewrite get_view by (apply Hd; exact Hx). symmetry. apply Hrf. apply Hd. exact Hx.
Qed.

(* an expression evaluated for a group: context = the group, current row = its first row *)
Lemma group_eval e ns (gR : list row) (gP : list nrow) :
  pscoped ns e = true -> Forall2 (prel ns) gR gP ->
  eval (index_rows gR) (match index_rows gR with ir :: _ => ir | [] => (O, []) end) e
  = eval (pctx ns gP) (match pctx ns gP with ir :: _ => ir | [] => (O, []) end) e.
Proof.
  intros Sc F. pose proof (forallb_mem_incl _ _ Sc) as Hd. symmetry. apply eval_rel.
  - apply ctx_irel; assumption.
  - pose proof (ctx_irel ns (cols e) gR gP Hd F) as C. destruct C as [|a b l l' Hab _]; [|exact Hab].
    split; [reflexivity|]. intros x _. reflexivity.
Qed.

(* ---------- Source ---------- *)
Lemma nget_combine_user (cols : list (string * uid)) (vs : list value) u :
  NoDup (map fst cols) -> NoDup (map snd cols) -> In u (map snd cols) ->
  get (zip_row (map snd cols) vs) u
  = nget (combine (map (fun c => User (fst c)) cols) vs) (pname (map (fun c => (snd c, User (fst c))) cols) u).
Proof.
  revert vs. induction cols as [|[n k] cols IH]; intros vs ND1 ND2 H; [destruct H|].
  simpl in ND1, ND2. inversion ND1 as [|? ? Hn1 ND1']; inversion ND2 as [|? ? Hn2 ND2']; subst.
  unfold pname. simpl. destruct vs as [|v vs].
  - simpl. destruct (N.eqb u k); reflexivity.
  - simpl. rewrite N.eqb_sym. destruct (N.eqb_spec u k) as [E|E].
    + simpl. rewrite String.eqb_refl. reflexivity.
    + destruct H as [H|H]; [simpl in H; congruence|].
      specialize (IH vs ND1' ND2' H). unfold pname in IH. rewrite IH.
      destruct (assoc_u u (map (fun c => (snd c, User (fst c))) cols)) as [dn|] eqn:Ea.
      * assert (dn <> User n).
        { intros C. subst dn. apply Hn1. clear -Ea. induction cols as [|[n1 k1] cols IH]; [discriminate Ea|]. simpl in *.
          destruct (N.eqb u k1); [inversion Ea; left; reflexivity|right; apply IH; exact Ea]. }
        destruct dn as [m|m c]; simpl; [|reflexivity].
        destruct (String.eqb_spec n m) as [Em|Em]; [subst; contradiction|reflexivity].
      * exfalso. clear -Ea H. induction cols as [|[n1 k1] cols IH]; [destruct H|]. simpl in *.
        destruct (N.eqb_spec u k1) as [E1|E1]; [discriminate Ea|]. destruct H as [H|H]; [congruence|]. apply IH; assumption.
Qed.

Lemma psource_case d t cols st :
  pl_compile d (Source t cols) = Some st -> pflat_ok d (Source t cols) = true ->
  PInv (sem_ref d (Source t cols)) st /\ PAux st.
Proof.
  intros C F. simpl in C. inversion C; subst; clear C. simpl in F. apply andb_prop in F. destruct F as [F1 F2].
  apply nodup_u_NoDup in F1. apply nodup_s_NoDup in F2. split.
  - constructor; simpl.
    + apply Forall2_map_l. apply Forall2_map_r. induction (db_get d t) as [|vs l IH]; constructor; [|exact IH].
      intros u Hu. unfold dom in Hu. rewrite map_map in Hu. simpl in Hu. apply nget_combine_user; assumption.
    + rewrite map_map. simpl. rewrite <- (map_id cols) at 1. apply map_ext_in. intros [n u] Hin. simpl. f_equal.
      unfold pname. assert (E : assoc_u u (map (fun c : string * uid => (snd c, User (fst c))) cols) = Some (User n)).
      { clear -Hin F1. induction cols as [|[n1 k1] cols IH]; [destruct Hin|]. simpl in *. inversion F1 as [|? ? Hnot F1']; subst.
        destruct Hin as [E|Hin]; [inversion E; subst; rewrite N.eqb_refl; reflexivity|].
        destruct (N.eqb_spec u k1) as [E1|E1]; [subst; exfalso; apply Hnot; apply in_map_iff; exists (n, k1); split; [reflexivity|exact Hin]|].
        apply IH; assumption. }
      rewrite E. reflexivity.
    + reflexivity.
  - constructor; simpl.
    + intros u Hu. unfold dom. rewrite map_map. exact Hu.
    + intros u Hu. destruct Hu.
    + intros un Hun. apply in_map_iff in Hun. destruct Hun as [c [<- _]]. exact I.
    + intros k Hk. apply in_map_iff in Hk. destruct Hk as [c [<- _]]. exact I.
    + intros f kv Hf Hkv. apply in_map_iff in Hf. destruct Hf as [vs [<- _]].
      destruct kv as [k v]. apply in_combine_l in Hkv. exact Hkv.
    + intros u Hu. pose proof (pname_in_ns _ _ Hu) as Hn. rewrite map_map in Hn. simpl in Hn. exact Hn.
    + intros u Hu. unfold pname.
      destruct (assoc_u u (map (fun c : string * uid => (snd c, User (fst c))) cols)) as [dn|] eqn:E; [|reflexivity].
      clear -E. induction cols as [|[n1 k1] cols IH]; [discriminate E|]. simpl in E.
      destruct (N.eqb u k1); [inversion E; reflexivity|apply IH; exact E].
Qed.

(* ---------- select, grouping state ---------- *)
Lemma pname_of_sel ns L u : In u L -> name_of (map (fun x => (uname (pname ns x), x)) L) u = uname (pname ns u).
Proof.
  unfold name_of. induction L as [|y L IH]; intros H; [destruct H|]. simpl.
  destruct (N.eqb_spec y u) as [E|E]; [subst; reflexivity|]. destruct H as [H|H]; [contradiction|]. apply IH. exact H.
Qed.

Lemma pselect_case s st us :
  PInv s st -> PAux st -> forallb (fun u => mem_u u (p_select st)) us = true ->
  PInv {| rows := rows s; sel := map (fun u => (name_of (sel s) u, u)) us; group := group s;
          ord_defined := ord_defined s; bad := bad s |} (with_select st us) /\ PAux (with_select st us).
Proof.
  intros [R S G] A H. pose proof (forallb_mem_incl _ _ H) as Hin. split.
  - constructor; simpl; [exact R| |exact G].
    rewrite S. apply map_ext_in. intros u Hu. rewrite pname_of_sel by (apply Hin; exact Hu). reflexivity.
  - destruct A. constructor; simpl; auto.
Qed.

Lemma ppart_case s st p (o b : bool) :
  PInv s st -> PAux st -> (forall x, In x p -> In x (dom (p_ns st))) ->
  PInv {| rows := rows s; sel := sel s; group := p; ord_defined := o; bad := b |} (with_part st p) /\ PAux (with_part st p).
Proof.
  intros [R S G] A H. split.
  - constructor; simpl; auto.
  - destruct A. constructor; simpl; auto.
Qed.

Lemma In_firstn' {A} n (l : list A) x : In x (firstn n l) -> In x l.
Proof.
  revert l; induction n as [|n IH]; intros [|y l] H; simpl in *; try contradiction.
  destruct H as [H|H]; [left; exact H|right; apply IH; exact H].
Qed.
Lemma In_skipn' {A} n (l : list A) x : In x (skipn n l) -> In x l.
Proof.
  revert l; induction n as [|n IH]; intros l H; simpl in *; [exact H|].
  destruct l as [|y l]; [contradiction|]. right. apply IH. exact H.
Qed.

(* ---------- filter, arrange, slice_head: the frame is processed verb by verb ---------- *)
Lemma paux_rows_subset st rows' :
  PAux st -> (forall f, In f rows' -> In f (p_rows st)) ->
  PAux {| p_rows := rows'; p_ns := p_ns st; p_select := p_select st; p_part := p_part st; p_ctr := p_ctr st; p_keys := p_keys st |}.
Proof.
  intros A H. destruct A. constructor; simpl; auto. intros f kv Hf Hkv. apply (pa_rows_k0 f kv (H f Hf) Hkv).
Qed.

Lemma pfilter_case s st ps :
  PInv s st -> PAux st -> forallb (pscoped (p_ns st)) ps = true ->
  PInv (do_filter s ps) (pl_filter st ps) /\ PAux (pl_filter st ps).
Proof.
  intros [R S G] A Sc. rewrite forallb_forall in Sc. split.
  - constructor; [|exact S|exact G].
    rewrite filter_keeps_exactly_true. unfold pl_filter. cbn [p_rows p_ns].
    apply Forall2_map_l. apply Forall2_map_r.
    eapply (Forall2_impl' (fun (a : irow) (b : nat * nrow) => fst a = fst b /\ prel (p_ns st) (snd a) (snd b))); [intros a b H; exact (proj2 H)|].
    apply Forall2_filter.
    + exact (Forall2_combine_seq (prel (p_ns st)) _ _ R 0).
    + intros [i r] [j f] [Eij Hrf]. simpl in Eij, Hrf. subst j. unfold passes. apply forallb_ext_in'. intros p Hp. f_equal. cbn [fst snd].
      symmetry. apply (peval_gen (p_ns st) (rows s) (p_rows st) p r f i R Hrf). apply Sc. exact Hp.
  - apply paux_rows_subset; [exact A|]. intros f Hf. apply in_map_iff in Hf. destruct Hf as [[i f0] [<- Hf]].
    apply filter_In in Hf. destruct Hf as [Hf _]. apply in_combine_r in Hf. exact Hf.
Qed.

Lemma parrange_case s st os :
  PInv s st -> PAux st ->
  forallb (fun o => pscoped (p_ns st) (fst o)) os = true ->
  PInv (do_arrange s os) (pl_arrange st os) /\ PAux (pl_arrange st os).
Proof.
  intros [R S G] A Sc. rewrite forallb_forall in Sc. split.
  - constructor; [|exact S|exact G].
    cbn [rows do_arrange]. unfold pl_arrange. cbn [p_rows p_ns].
    set (ctxR := index_rows (rows s)). set (ctxP := pctx (p_ns st) (p_rows st)). set (ms := map snd os).
    assert (H2 : Forall2 (fun (x : list value * irow) (y : list value * (nat * nrow)) =>
                            fst x = fst y /\ prel (p_ns st) (snd (snd x)) (snd (snd y)))
                         (map (fun ir => (map (fun o => eval ctxR ir (fst o)) os, ir)) ctxR)
                         (map (fun ifr => (map (fun o => eval ctxP (fst ifr, view (p_ns st) (snd ifr)) (fst o)) os, ifr))
                              (combine (seq 0 (List.length (p_rows st))) (p_rows st)))).
    { apply Forall2_map_l. apply Forall2_map_r.
      pose proof (Forall2_combine_seq (prel (p_ns st)) _ _ R 0) as R2.
      eapply Forall2_impl'; [|exact R2]. intros [i r] [j f] [Eij Hrf]. cbn [fst snd] in *. subst j. split; [|exact Hrf].
      apply map_ext_in. intros o Ho. symmetry. apply (peval_gen (p_ns st) (rows s) (p_rows st) (fst o) r f i R Hrf). apply Sc. exact Ho. }
    apply (Forall2_ssort (fun a b => match cmp_keys ms a b with Gt => false | _ => true end)
                         (fun (ir : irow) (ifr : nat * nrow) => prel (p_ns st) (snd ir) (snd ifr))) in H2.
    apply Forall2_map_l. apply Forall2_map_r.
    eapply Forall2_impl'; [|exact H2]. intros x y [_ Hxy]. exact Hxy.
  - apply paux_rows_subset; [exact A|]. intros f Hf. apply in_map_iff in Hf. destruct Hf as [[k [i f0]] [<- Hf]].
    simpl. apply (Permutation.Permutation_in _ (Permutation.Permutation_sym (ssort_perm _ _))) in Hf.
    apply in_map_iff in Hf. destruct Hf as [[i1 f1] [E Hf]]. inversion E; subst.
    apply in_combine_r in Hf. exact Hf.
Qed.

Lemma pslice_case s st n k :
  PInv s st -> PAux st -> PInv (do_slice s n k) (pl_slice st n k) /\ PAux (pl_slice st n k).
Proof.
  intros [R S G] A. split.
  - constructor; [|exact S|exact G]. cbn [rows do_slice]. unfold pl_slice. cbn [p_rows p_ns].
    apply Forall2_firstn. apply Forall2_skipn. exact R.
  - apply paux_rows_subset; [exact A|]. intros f Hf. apply In_firstn' in Hf. apply In_skipn' in Hf. exact Hf.
Qed.

(* ---------- mutate ---------- *)
Lemma pfresh_spec ns defs : pfresh ns defs = true ->
  NoDup (def_uids defs) /\ NoDup (def_names defs) /\ forall x, In x (def_uids defs) -> ~ In x (dom ns).
Proof.
  unfold pfresh. intros H. apply andb_prop in H. destruct H as [H H3]. apply andb_prop in H. destruct H as [H1 H2].
  repeat split; [apply nodup_u_NoDup; exact H1|apply nodup_s_NoDup; exact H2|].
  intros x Hx C. destruct (in_def_uids defs x Hx) as [d [Hd E]]. rewrite forallb_forall in H3. specialize (H3 d Hd).
  rewrite E in H3. apply negb_true_iff in H3. apply mem_u_In in C. rewrite C in H3. discriminate H3.
Qed.

Lemma nget_newcols (val : def -> value) defs f d :
  NoDup (def_names defs) -> In d defs ->
  nget (map (fun dd => (User (fst (fst dd)), val dd)) defs ++ f) (User (fst (fst d))) = val d.
Proof.
  induction defs as [|d0 defs IH]; intros ND Hin; [destruct Hin|]. simpl in ND. inversion ND as [|? ? Hnot ND']; subst.
  simpl. destruct Hin as [<-|Hin]; [rewrite String.eqb_refl; reflexivity|].
  destruct (String.eqb_spec (fst (fst d0)) (fst (fst d))) as [E|E].
  - exfalso. apply Hnot. rewrite E. unfold def_names. apply in_map_iff. exists d. split; [reflexivity|exact Hin].
  - apply IH; assumption.
Qed.

Lemma assoc_new_names defs : NoDup (def_uids defs) -> forall d, In d defs ->
  assoc_u (snd (fst d)) (map (fun dd : def => (snd (fst dd), User (fst (fst dd)))) defs) = Some (User (fst (fst d))).
Proof.
  induction defs as [|d0 defs IH]; intros ND d Hin; [destruct Hin|].
  simpl in ND. inversion ND as [|? ? Hnot ND']; subst. simpl.
  destruct Hin as [<-|Hin]; [rewrite N.eqb_refl; reflexivity|].
  destruct (N.eqb_spec (snd (fst d)) (snd (fst d0))) as [E|E].
  - exfalso. apply Hnot. rewrite <- E. unfold def_uids. apply in_map_iff. exists d. split; [reflexivity|exact Hin].
  - apply IH; assumption.
Qed.

Lemma pname_app_other (new : names) ns u : ~ In u (map fst new) -> pname (new ++ ns) u = pname ns u.
Proof. intros H. unfold pname. rewrite assoc_u_app_other by exact H. reflexivity. Qed.

(* after renaming the overwritten columns, no in-scope column carries one of the new names *)
Lemma renamed_not_new st nms u nm :
  In u (dom (p_ns st)) -> In nm nms ->
  ren_over nms (map snd (p_ns st)) (p_ctr st) (pname (p_ns st) u) <> User nm.
Proof.
  intros Hu Hnm. destruct (pname (p_ns st) u) as [n|n c] eqn:E; simpl; [|discriminate].
  assert (Hc : mem_d (User n) (map snd (p_ns st)) = true).
  { apply mem_d_In. rewrite <- E. apply pname_in_ns. exact Hu. }
  rewrite Hc, andb_true_r. destruct (mem_s n nms) eqn:M; [discriminate|].
  intros C. inversion C; subst. apply mem_s_In in Hnm. rewrite Hnm in M. discriminate M.
Qed.

Lemma user_in_uname dn nms : is_user dn = true -> user_in dn nms = mem_s (uname dn) nms.
Proof. destruct dn; [reflexivity|discriminate]. Qed.

Definition new_ns (defs : list def) : names := map (fun d : def => (snd (fst d), User (fst (fst d)))) defs.
Lemma dom_new_ns defs ns1 : dom (new_ns defs ++ ns1) = def_uids defs ++ dom ns1.
Proof. unfold dom, new_ns, def_uids. rewrite map_app, map_map. reflexivity. Qed.
Lemma pname_new_other defs ns1 u : ~ In u (def_uids defs) -> pname (new_ns defs ++ ns1) u = pname ns1 u.
Proof. intros H. apply pname_app_other. unfold new_ns. rewrite map_map. exact H. Qed.
Lemma pname_new_found defs ns1 d : NoDup (def_uids defs) -> In d defs -> pname (new_ns defs ++ ns1) (snd (fst d)) = User (fst (fst d)).
Proof. intros ND Hd. unfold pname. rewrite (assoc_u_app_found _ _ _ _ (assoc_new_names defs ND d Hd)). reflexivity. Qed.

Lemma pmutate_case s st defs :
  PInv s st -> PAux st ->
  pfresh (p_ns st) defs = true ->
  forallb (fun dd => pscoped (p_ns st) (snd dd)) defs = true ->
  PInv (do_mutate s defs) (pl_mutate st defs) /\ PAux (pl_mutate st defs).
Proof.
  intros [R S G] A Fr Sc. destruct (pfresh_spec _ _ Fr) as [ND [NDn Hfresh]].
  rewrite forallb_forall in Sc.
  set (nms := map (fun d => fst (fst d)) defs).
  set (consider := map snd (p_ns st)).
  set (st1 := rename_over nms consider st).
  set (g := ren_over nms consider (p_ctr st)).
  pose proof (ro_dom st nms consider) as Dom1. fold st1 in Dom1.
  pose proof (ro_rows st nms consider A (rows s) R) as R1. fold st1 in R1.
  destruct (ro_aux_core st nms consider A) as [B1 [B2 [B3 [B4 [B5 B6]]]]]. fold st1 in B1, B2, B3, B4, B5, B6.
  assert (Hp1 : forall u, In u (dom (p_ns st)) -> pname (p_ns st1) u = g (pname (p_ns st) u)).
  { intros u Hu. apply (ro_pname st nms consider u Hu). }
  split.
  - constructor.
    + rewrite do_mutate_rows. unfold pl_mutate. cbn [p_rows p_ns]. fold nms consider st1. change (map (fun d : string * uid * expr => (snd (fst d), User (fst (fst d)))) defs) with (new_ns defs).
      apply Forall2_map_l. apply Forall2_map_r.
      pose proof (Forall2_combine_seq (prel (p_ns st1)) _ _ R1 0) as R2.
      eapply Forall2_impl'; [|exact R2]. intros [i r] [j f1] [Eij Hrf]. cbn [fst snd] in *. subst j.
      intros u Hu. rewrite dom_new_ns, Dom1 in Hu.
      destruct (in_dec N.eq_dec u (def_uids defs)) as [Hnew|Hold].
      * destruct (in_def_uids defs u Hnew) as [dd [Hdd Eu]]. subst u.
        rewrite (apply_defs_new (index_rows (rows s)) (i, r) defs r dd ND Hdd).
        rewrite (pname_new_found defs (p_ns st1) dd ND Hdd).
        rewrite (nget_newcols (fun d0 => eval (pctx (p_ns st1) (p_rows st1)) (i, view (p_ns st1) f1) (snd d0)) defs f1 dd NDn Hdd).
        symmetry. apply (peval_gen (p_ns st1) (rows s) (p_rows st1) (snd dd) r f1 i R1 Hrf).
        unfold pscoped. rewrite Dom1. apply Sc. exact Hdd.
      * apply in_app_or in Hu. destruct Hu as [Hu|Hu]; [contradiction|].
        rewrite apply_defs_other by exact Hold. rewrite pname_new_other by exact Hold.
        rewrite nget_app_skip.
        -- apply Hrf. rewrite Dom1. exact Hu.
        -- intros kv Hkv. apply in_map_iff in Hkv. destruct Hkv as [dd [<- Hdd]]. cbn [fst]. rewrite (Hp1 u Hu).
           intros C. symmetry in C. revert C. apply renamed_not_new; [exact Hu|].
           unfold nms. apply in_map_iff. exists dd. split; [reflexivity|exact Hdd].
    + cbn [sel do_mutate pl_mutate p_select p_ns]. fold nms consider st1. change (map (fun d : string * uid * expr => (snd (fst d), User (fst (fst d)))) defs) with (new_ns defs). rewrite map_app. f_equal.
      * rewrite S, filter_map_comm. 
        assert (Ef : forall l, (forall u, In u l -> In u (p_select st)) ->
                     map (fun u => (uname (pname (p_ns st) u), u)) (filter (fun u => negb (mem_s (fst (uname (pname (p_ns st) u), u)) (map (fun d => fst (fst d)) defs))) l)
                     = map (fun u => (uname (pname (new_ns defs ++ p_ns st1) u), u)) (filter (fun u => negb (user_in (pname (p_ns st) u) nms)) l)).
        { induction l as [|u l IHl]; intros Hl; [reflexivity|]. cbn [filter fst].
          assert (Hus : In u (p_select st)) by (apply Hl; left; reflexivity).
          pose proof (pa_sel_user st A u Hus) as Uu. rewrite (user_in_uname _ nms Uu). fold nms.
          destruct (mem_s (uname (pname (p_ns st) u)) nms) eqn:M; cbn [negb]; [apply IHl; intros x Hx; apply Hl; right; exact Hx|].
          cbn [map]. f_equal; [|apply IHl; intros x Hx; apply Hl; right; exact Hx]. f_equal.
          assert (Hud : In u (dom (p_ns st))) by (apply (pa_sel st A); exact Hus).
          rewrite pname_new_other by (intros C; apply (Hfresh u C); exact Hud).
          rewrite (Hp1 u Hud). unfold g. destruct (pname (p_ns st) u) as [n|n c]; [|discriminate Uu]. simpl in M. simpl. rewrite M. reflexivity. }
        apply Ef. auto.
      * unfold def_uids. rewrite map_map. apply map_ext_in. intros dd Hdd. f_equal.
        rewrite (pname_new_found defs (p_ns st1) dd ND Hdd). reflexivity.
    + exact G.
  - unfold pl_mutate. fold nms consider st1. change (map (fun d : string * uid * expr => (snd (fst d), User (fst (fst d)))) defs) with (new_ns defs). constructor; cbn [p_select p_part p_ns p_ctr p_keys p_rows].
    + intros u Hu. rewrite dom_new_ns. apply in_or_app. apply in_app_or in Hu. destruct Hu as [Hu|Hu]; [|left; exact Hu].
      right. rewrite Dom1. apply (pa_sel st A). apply filter_In in Hu. tauto.
    + intros u Hu. rewrite dom_new_ns. apply in_or_app. right. apply B2. exact Hu.
    + intros un Hun. apply in_app_or in Hun. destruct Hun as [Hun|Hun]; [|apply B3; exact Hun].
      apply in_map_iff in Hun. destruct Hun as [dd [<- _]]. exact I.
    + intros k Hk. apply in_app_or in Hk. destruct Hk as [Hk|Hk]; [|apply B4; exact Hk].
      apply in_map_iff in Hk. destruct Hk as [dd [<- _]]. exact I.
    + intros f kv Hf Hkv. apply in_map_iff in Hf. destruct Hf as [[j f1] [<- Hf1]]. cbn [snd] in Hkv.
      apply in_or_app. apply in_app_or in Hkv. destruct Hkv as [Hkv|Hkv].
      * left. apply in_map_iff in Hkv. destruct Hkv as [dd [<- Hdd]]. simpl. apply in_map_iff. exists dd. split; [reflexivity|exact Hdd].
      * right. apply in_combine_r in Hf1. apply (B5 f1 kv Hf1 Hkv).
    + intros u Hu. rewrite dom_new_ns in Hu. apply in_or_app.
      destruct (in_dec N.eq_dec u (def_uids defs)) as [Hnew|Hold].
      * left. destruct (in_def_uids defs u Hnew) as [dd [Hdd Eu]]. subst u. rewrite (pname_new_found defs _ dd ND Hdd).
        apply in_map_iff. exists dd. split; [reflexivity|exact Hdd].
      * right. apply in_app_or in Hu. destruct Hu as [Hu|Hu]; [contradiction|]. rewrite pname_new_other by exact Hold. apply B6. exact Hu.
    + intros u Hu. apply in_app_or in Hu. destruct Hu as [Hu|Hu].
      * apply filter_In in Hu. destruct Hu as [Hus Hnot].
        assert (Hud : In u (dom (p_ns st))) by (apply (pa_sel st A); exact Hus).
        rewrite pname_new_other by (intros C; apply (Hfresh u C); exact Hud).
        rewrite (Hp1 u Hud). pose proof (pa_sel_user st A u Hus) as Uu.
        destruct (pname (p_ns st) u) as [n|n c]; [|discriminate Uu]. simpl in Hnot. unfold g. simpl.
        apply negb_true_iff in Hnot. rewrite Hnot. reflexivity.
      * destruct (in_def_uids defs u Hu) as [dd [Hdd Eu]]. subst u.
        rewrite (pname_new_found defs (p_ns st1) dd ND Hdd). reflexivity.
Qed.

(* ---------- rename ---------- *)
Lemma inj_on_spec g ks : inj_on g ks = true -> forall a b, In a ks -> In b ks -> g a = g b -> a = b.
Proof.
  unfold inj_on. intros H a b Ha Hb E. rewrite forallb_forall in H. specialize (H a Ha). rewrite forallb_forall in H.
  specialize (H b Hb). rewrite E, dname_eqb_refl in H. simpl in H. apply dname_eqb_eq. exact H.
Qed.

Lemma nget_map_keys_on (g : dname -> dname) ks f dn :
  (forall a b, In a ks -> In b ks -> g a = g b -> a = b) ->
  (forall kv, In kv f -> In (fst kv) ks) -> In dn ks ->
  nget (map_keys g f) (g dn) = nget f dn.
Proof.
  intros Inj. induction f as [|[k v] f IH]; intros Hk Hd; [reflexivity|]. simpl.
  destruct (dname_eqb k dn) eqn:E.
  - apply dname_eqb_eq in E. subst. rewrite dname_eqb_refl. reflexivity.
  - rewrite dname_eqb_neq.
    + apply IH; [|exact Hd]. intros kv Hkv. apply Hk. right. exact Hkv.
    + intros C. apply Inj in C; [subst; rewrite dname_eqb_refl in E; discriminate E| |exact Hd].
      apply (Hk (k, v)). left. reflexivity.
Qed.

Lemma ren_user_bounded m c dn : bounded c dn -> bounded c (ren_user m dn).
Proof. destruct dn; simpl; auto. Qed.

Lemma prename_case s st m :
  PInv s st -> PAux st ->
  let hidden := map snd (filter (fun un => negb (mem_u (fst un) (p_select st))) (p_ns st)) in
  let news := map snd m in
  forallb (fun u => negb (mem_d (pname (p_ns st) u) hidden && user_in (pname (p_ns st) u) news)) (p_select st) = true ->
  inj_on (ren_user m) (p_keys (rename_over news hidden st)) = true ->
  PInv {| rows := rows s;
          sel := map (fun p => (match assoc_s (fst p) m with Some n => n | None => fst p end, snd p)) (sel s);
          group := group s; ord_defined := ord_defined s; bad := bad s |} (pl_rename st m)
  /\ PAux (pl_rename st m).
Proof.
  intros [R S G] A hidden news Hsel Hinj.
  set (st1 := rename_over news hidden st). set (g := ren_over news hidden (p_ctr st)).
  pose proof (ro_dom st news hidden) as Dom1. fold st1 in Dom1.
  pose proof (ro_rows st news hidden A (rows s) R) as R1. fold st1 in R1.
  destruct (ro_aux_core st news hidden A) as [B1 [B2 [B3 [B4 [B5 B6]]]]]. fold st1 in B1, B2, B3, B4, B5, B6.
  assert (Hp1 : forall u, In u (dom (p_ns st)) -> pname (p_ns st1) u = g (pname (p_ns st) u)).
  { intros u Hu. apply (ro_pname st news hidden u Hu). }
  pose proof (inj_on_spec _ _ Hinj) as Inj. fold st1 in Inj.
  assert (Hselname : forall u, In u (p_select st) -> exists n, pname (p_ns st) u = User n /\ pname (p_ns st1) u = User n).
  { intros u Hu. pose proof (pa_sel_user st A u Hu) as Uu. destruct (pname (p_ns st) u) as [n|n c] eqn:E; [|discriminate Uu].
    exists n. split; [reflexivity|]. rewrite (Hp1 u (pa_sel st A u Hu)), E. unfold g. simpl.
    rewrite forallb_forall in Hsel. specialize (Hsel u Hu). rewrite E in Hsel. simpl in Hsel.
    apply negb_true_iff in Hsel. rewrite andb_comm. rewrite Hsel. reflexivity. }
  unfold pl_rename. fold hidden news st1. split.
  - constructor; cbn [rows sel group p_rows p_ns p_select p_part].
    + apply Forall2_map_r. apply (Forall2_in_r _ (fun f => In f (p_rows st1))) in R1; [|auto].
      eapply Forall2_impl'; [|exact R1]. intros r f1 [Hrf Hin] u Hu. rewrite dom_map in Hu.
      rewrite pname_map by exact Hu. rewrite (Hrf u Hu). symmetry.
      apply (nget_map_keys_on (ren_user m) (p_keys st1)); [exact Inj| |].
      * intros kv Hkv. apply (B5 f1 kv Hin Hkv).
      * apply B6. exact Hu.
    + rewrite S, map_map. apply map_ext_in. intros u Hu. cbn [fst snd]. f_equal.
      destruct (Hselname u Hu) as [n [E0 E1]]. rewrite E0. cbn [uname].
      rewrite pname_map by (apply B1; exact Hu). rewrite E1. reflexivity.
    + exact G.
  - constructor; cbn [p_rows p_ns p_select p_part p_ctr p_keys].
    + intros u Hu. rewrite dom_map. apply B1. exact Hu.
    + intros u Hu. rewrite dom_map. apply B2. exact Hu.
    + intros un Hun. apply in_map_iff in Hun. destruct Hun as [un0 [<- H0]]. simpl. apply ren_user_bounded. apply B3. exact H0.
    + intros k Hk. apply in_map_iff in Hk. destruct Hk as [k0 [<- H0]]. apply ren_user_bounded. apply B4. exact H0.
    + intros f kv Hf Hkv. apply in_map_iff in Hf. destruct Hf as [f0 [<- Hf0]].
      unfold map_keys in Hkv. apply in_map_iff in Hkv. destruct Hkv as [kv0 [<- Hkv0]]. simpl. apply in_map. apply (B5 f0 kv0 Hf0 Hkv0).
    + intros u Hu. rewrite dom_map in Hu. rewrite pname_map by exact Hu. apply in_map. apply B6. exact Hu.
    + intros u Hu. destruct (Hselname u Hu) as [n [E0 E1]].
      rewrite pname_map by (apply B1; exact Hu). rewrite E1. reflexivity.
Qed.

(* ---------- summarize ---------- *)
Lemma agg1_local e ns (gR : list row) (gP : list nrow) :
  agg1 e = true -> pscoped ns e = true ->
  Forall2 (prel ns) gR gP ->
  (forall x, In x (gcols e) ->
     get (snd (match index_rows gR with ir :: _ => ir | [] => (O, []) end)) x
     = get (snd (match pctx ns gP with ir :: _ => ir | [] => (O, []) end)) x) ->
  eval (index_rows gR) (match index_rows gR with ir :: _ => ir | [] => (O, []) end) e
  = eval (pctx ns gP) (match pctx ns gP with ir :: _ => ir | [] => (O, []) end) e.
Proof.
  intros Ag Sc F Hcur.
  set (curR := match index_rows gR with ir :: _ => ir | [] => (O, []) end) in *.
  set (curP := match pctx ns gP with ir :: _ => ir | [] => (O, []) end) in *.
  change (eval (index_rows gR) curR e = eval (pctx ns gP) curP e).
  rewrite (subst_agg1 e Ag (id_defs (cols e)) (index_rows gR) (pctx ns gP) curR curP (def_of_id_elem _)).
  - rewrite subst_id; [reflexivity|]. intros x Hx. apply def_of_id. exact Hx.
  - unfold pctx.
    assert (F2 : Forall2 (fun (r : row) (b : row) => forall x, In x (cols e) -> get r x = get b x) gR (map (view ns) gP)).
    { apply Forall2_map_r. eapply Forall2_impl'; [|exact F]. intros r f Hrf x Hx.
      assert (Hd : In x (dom ns)) by (apply (forallb_mem_incl _ _ Sc); exact Hx).
      rewrite get_view by exact Hd. apply Hrf. exact Hd. }
    apply Forall2_index_rows2 in F2. eapply Forall2_impl'; [|exact F2].
    intros [i r] [j b] Hab x Hx. simpl in Hab. unfold evd. rewrite (def_of_id _ _ Hx). simpl. apply Hab. exact Hx.
  - intros x Hx. unfold evd. 
    assert (Hc : In x (cols e)).
    { clear -Hx. revert x Hx. apply (expr_ind2 (fun e => forall x, In x (gcols e) -> In x (cols e))).
      - intros u x H. exact H.
      - intros v x H. exact H.
      - intros e0 t IH x H. simpl in *. apply IH. exact H.
      - intros cs d IHcs IHd x H. simpl in *. apply in_app_or in H. apply in_or_app. destruct H as [H|H].
        + left. induction cs as [|[c v] cs IH]; [exact H|]. inversion IHcs as [|? ? [Hc Hv] Hrest]; subst. simpl in *.
          rewrite <- app_assoc in H. rewrite <- app_assoc. apply in_app_or in H. apply in_or_app. destruct H as [H|H]; [left; apply Hc; exact H|].
          right. apply in_app_or in H. apply in_or_app. destruct H as [H|H]; [left; apply Hv; exact H|right; apply IH; assumption].
        + right. destruct d as [x0|]; [apply IHd; exact H|exact H].
      - intros o args hp part arr IHa _ _ x H. simpl in *. destruct (op_kind o); try contradiction.
        apply in_or_app. left. induction args as [|a args IH]; [exact H|]. inversion IHa as [|? ? Ha Hrest]; subst. simpl in *.
        apply in_app_or in H. apply in_or_app. destruct H as [H|H]; [left; apply Ha; exact H|right; apply IH; assumption]. }
    rewrite (def_of_id _ _ Hc). simpl. apply Hcur. exact Hx.
Qed.

Lemma nget_combine_map (phi : dname -> value) l x : In x l -> nget (combine l (map phi l)) x = phi x.
Proof.
  induction l as [|y l IH]; intros H; [destruct H|]. simpl.
  destruct (dname_eqb y x) eqn:E; [apply dname_eqb_eq in E; subst; reflexivity|].
  destruct H as [H|H]; [subst; rewrite dname_eqb_refl in E; discriminate E|]. apply IH. exact H.
Qed.

Lemma assoc_u_filter_in {V} (p : list uid) (l : list (uid * V)) u : In u p ->
  assoc_u u (filter (fun un => mem_u (fst un) p) l) = assoc_u u l.
Proof.
  intros Hp. induction l as [|[k v] l IH]; [reflexivity|]. simpl.
  destruct (mem_u k p) eqn:M; simpl.
  - destruct (N.eqb u k); [reflexivity|exact IH].
  - destruct (N.eqb_spec u k) as [E|E]; [|exact IH]. subst. apply mem_u_In in Hp. rewrite Hp in M. discriminate M.
Qed.

Lemma ren_over_id news consider ctr dn :
  (forall n, dn = User n -> mem_s n news = true -> mem_d dn consider = true -> False) ->
  ren_over news consider ctr dn = dn.
Proof.
  intros H. destruct dn as [n|n c]; [|reflexivity]. simpl.
  destruct (mem_s n news) eqn:M; [|reflexivity]. simpl.
  destruct (mem_d (User n) consider) eqn:C; [|reflexivity].
  exfalso. apply (H n eq_refl M eq_refl).
Qed.

Lemma psummarize_case s st defs :
  PInv s st -> PAux st ->
  pfresh (p_ns st) defs = true ->
  forallb (fun dd => pscoped (p_ns st) (snd dd)) defs = true ->
  forallb (fun u => mem_u u (p_select st)) (p_part st) = true ->
  forallb (fun u => negb (user_in (pname (p_ns st) u) (map (fun dd => fst (fst dd)) defs))) (p_part st) = true ->
  PInv (do_summarize s defs) (pl_summarize st defs) /\ PAux (pl_summarize st defs).
Proof.
  intros [R S G] A Fr Sc Ps Pn. destruct (pfresh_spec _ _ Fr) as [ND [NDn Hfresh]].
  rewrite forallb_forall in Sc, Pn. pose proof (forallb_mem_incl _ _ Ps) as PartSel.
  set (nms := map (fun dd : string * uid * expr => fst (fst dd)) defs) in *.
  set (part := p_part st) in *.
  set (consider := map (pname (p_ns st)) part).
  set (st1 := rename_over nms consider st).
  pose proof (ro_dom st nms consider) as Dom1. fold st1 in Dom1.
  pose proof (ro_rows st nms consider A (rows s) R) as R1. fold st1 in R1.
  destruct (ro_aux_core st nms consider A) as [B1 [B2 [B3 [B4 [B5 B6]]]]]. fold st1 in B1, B2, B3, B4, B5, B6.
  assert (PartDom : forall u, In u part -> In u (dom (p_ns st))) by (intros u Hu; apply (pa_part st A); exact Hu).
  assert (Hp1 : forall u, In u part -> pname (p_ns st1) u = pname (p_ns st) u).
  { intros u Hu. pose proof (ro_pname st nms consider u (PartDom u Hu)) as E0. fold st1 in E0. rewrite E0. apply ren_over_id.
    intros n E M C. apply mem_d_In in C. unfold consider in C. apply in_map_iff in C. destruct C as [u' [E' Hu']].
    specialize (Pn u' Hu'). rewrite E', E in Pn. cbn [user_in] in Pn. rewrite M in Pn. discriminate Pn. }
  assert (PartUser : forall u, In u part -> exists n, pname (p_ns st) u = User n /\ mem_s n nms = false).
  { intros u Hu. pose proof (pa_sel_user st A u (PartSel u Hu)) as Uu. destruct (pname (p_ns st) u) as [n|n c] eqn:E; [|discriminate Uu].
    exists n. split; [reflexivity|]. specialize (Pn u Hu). rewrite E in Pn. cbn [user_in] in Pn. apply negb_true_iff in Pn. exact Pn. }
  set (ns1 := p_ns st1) in *. set (gnames := map (pname ns1) part).
  (* groups *)
  set (GRr := match part with [] => [([], rows s)] | _ => group_rows (fun r => map (get r) part) (rows s) [] end).
  set (GRp := match part with [] => [([], p_rows st1)] | _ => group_rows (fun f => map (nget f) gnames) (p_rows st1) [] end).
  assert (GR : Forall2 (RG (prel ns1)) GRr GRp).
  { unfold GRr, GRp. destruct part as [|p0 part'] eqn:Ep.
    - constructor; [|constructor]. split; [reflexivity|exact R1].
    - apply (group_rows_rel (prel ns1)); [|exact R1|constructor].
      intros r f Hrf. unfold gnames. rewrite map_map. apply map_ext_in. intros x Hx. apply Hrf.
      rewrite Dom1. apply PartDom. exact Hx. }
  assert (GoodR : forall k g, In (k, g) GRr -> part <> [] -> exists r0 rest, g = r0 :: rest /\ k = map (get r0) part).
  { intros k g Hin Hne. unfold GRr in Hin. destruct part as [|p0 part']; [contradiction|].
    apply (group_rows_good (fun r => map (get r) (p0 :: part')) (rows s) []); [|exact Hin]. intros k0 g0 H0. destruct H0. }
  assert (Enew : p_rows (pl_summarize st defs)
                 = map (fun kg => map (fun d => (User (fst (fst d)), eval (pctx ns1 (snd kg)) (match pctx ns1 (snd kg) with ir :: _ => ir | [] => (O, []) end) (snd d))) defs
                                  ++ combine gnames (fst kg)) GRp) by reflexivity.
  assert (Ens : p_ns (pl_summarize st defs) = new_ns defs ++ filter (fun un => mem_u (fst un) part) ns1) by reflexivity.
  assert (Hpn2 : forall u, In u part -> pname (new_ns defs ++ filter (fun un => mem_u (fst un) part) ns1) u = pname (p_ns st) u).
  { intros u Hu. rewrite pname_new_other by (intros C; apply (Hfresh u C); apply PartDom; exact Hu).
    unfold pname at 1. rewrite assoc_u_filter_in by exact Hu. fold (pname ns1 u). apply Hp1. exact Hu. }
  split.
  - constructor.
    + rewrite Enew, Ens. cbn [rows do_summarize]. rewrite G. fold part. fold GRr.
      apply Forall2_map_l. apply Forall2_map_r.
      pose proof (Forall2_with_In _ _ _ GR) as GR'.
      eapply Forall2_impl'; [|exact GR']. intros [k gR] [k' gP] [[Ek HgRP] HinR]. simpl in Ek, HgRP. subst k'. cbn [fst snd].
      set (ctxR := index_rows gR). set (curR := match ctxR with ir :: _ => ir | [] => (0%nat, []) end).
      change (fold_left (fun r dd => upd r (snd (fst dd)) (eval ctxR curR (snd dd))) defs (zip_row part k))
        with (apply_defs ctxR curR defs (zip_row part k)).
      assert (Hcur : forall x, In x part ->
                get (snd curR) x = get (snd (match pctx ns1 gP with ir :: _ => ir | [] => (O, []) end)) x
                /\ get (zip_row part k) x = get (snd curR) x
                /\ nget (combine gnames k) (pname ns1 x) = get (snd curR) x).
      { intros x Hx. destruct (GoodR k gR HinR) as [r0 [rest [Eg Ek]]]; [intros C; rewrite C in Hx; destruct Hx|].
        subst gR. inversion HgRP as [|? f0 ? restP Hr0 Hrest]; subst.
        unfold curR, ctxR, pctx. cbn [map]. rewrite !index_rows_head. cbn [snd].
        assert (Hxd : In x (dom ns1)) by (rewrite Dom1; apply PartDom; exact Hx).
        repeat split.
        - rewrite get_view by exact Hxd. apply Hr0. exact Hxd.
        - apply (get_zip_row_map (get r0)). exact Hx.
        - assert (Ek2 : map (get r0) part = map (nget f0) gnames).
          { unfold gnames. rewrite map_map. apply map_ext_in. intros y Hy. apply Hr0. rewrite Dom1. apply PartDom. exact Hy. }
          rewrite Ek2. rewrite nget_combine_map by (unfold gnames; apply in_map; exact Hx). symmetry. apply Hr0. exact Hxd. }
      intros u Hu. rewrite dom_new_ns in Hu.
      destruct (in_dec N.eq_dec u (def_uids defs)) as [Hnew|Hold].
      * destruct (in_def_uids defs u Hnew) as [dd [Hdd Eu]]. subst u.
        rewrite (apply_defs_new ctxR curR defs (zip_row part k) dd ND Hdd).
        rewrite (pname_new_found defs _ dd ND Hdd).
        rewrite (nget_newcols (fun d0 => eval (pctx ns1 gP) (match pctx ns1 gP with ir :: _ => ir | [] => (O, []) end) (snd d0)) defs _ dd NDn Hdd).
        apply (group_eval (snd dd) ns1 gR gP); [|exact HgRP].
        unfold pscoped. rewrite Dom1. apply Sc. exact Hdd.
      * apply in_app_or in Hu. destruct Hu as [Hu|Hu]; [contradiction|].
        assert (Hup : In u part).
        { unfold dom in Hu. apply in_map_iff in Hu. destruct Hu as [un [E Hun]]. apply filter_In in Hun. destruct Hun as [_ M]. apply mem_u_In in M. rewrite <- E. exact M. }
        rewrite apply_defs_other by exact Hold. destruct (Hcur u Hup) as [_ [H2 H3]]. rewrite H2, <- H3.
        rewrite (Hpn2 u Hup), <- (Hp1 u Hup). fold ns1. symmetry. apply nget_app_skip.
        intros kv Hkv. apply in_map_iff in Hkv. destruct Hkv as [dd [<- Hdd]]. cbn [fst]. rewrite (Hp1 u Hup).
        destruct (PartUser u Hup) as [n [E M]]. rewrite E. intros C. inversion C; subst.
        assert (Hm : mem_s (fst (fst dd)) nms = true) by (apply mem_s_In; unfold nms; apply in_map_iff; exists dd; split; [reflexivity|exact Hdd]).
        rewrite Hm in M. discriminate M.
    + cbn [sel do_summarize pl_summarize p_select p_ns]. rewrite G. fold part nms. rewrite map_app. f_equal.
      * rewrite filter_all.
        -- rewrite (filter_all (fun u => negb (user_in (pname (p_ns st) u) nms))) by (intros u Hu; apply Pn; exact Hu).
           apply map_ext_in. intros u Hu. rewrite S, pname_of_sel by (apply PartSel; exact Hu).
           change (map (fun d : string * uid * expr => (snd (fst d), User (fst (fst d)))) defs) with (new_ns defs).
           fold consider st1 ns1. rewrite (Hpn2 u Hu). reflexivity.
        -- intros p Hp. apply in_map_iff in Hp. destruct Hp as [u [<- Hu]]. cbn [fst].
           rewrite S, pname_of_sel by (apply PartSel; exact Hu). destruct (PartUser u Hu) as [n [E M]]. rewrite E. simpl. fold nms. rewrite M. reflexivity.
      * unfold def_uids. rewrite map_map. apply map_ext_in. intros dd Hdd. f_equal.
        change (map (fun d : string * uid * expr => (snd (fst d), User (fst (fst d)))) defs) with (new_ns defs).
        rewrite (pname_new_found defs _ dd ND Hdd). reflexivity.
    + reflexivity.
  - constructor.
    + rewrite Ens. cbn [p_select pl_summarize]. fold part nms. intros u Hu. rewrite dom_new_ns. apply in_or_app. apply in_app_or in Hu.
      destruct Hu as [Hu|Hu]; [right|left; exact Hu]. apply filter_In in Hu. destruct Hu as [Hu _].
      unfold dom. assert (Hd : In u (dom ns1)) by (rewrite Dom1; apply PartDom; exact Hu).
      unfold dom in Hd. apply in_map_iff in Hd. destruct Hd as [un [E Hun]]. apply in_map_iff. exists un. split; [exact E|].
      apply filter_In. split; [exact Hun|]. rewrite E. apply mem_u_In. exact Hu.
    + intros u Hu. destruct Hu.
    + rewrite Ens. cbn [p_ctr pl_summarize]. intros un Hun. apply in_app_or in Hun. destruct Hun as [Hun|Hun].
      * unfold new_ns in Hun. apply in_map_iff in Hun. destruct Hun as [dd [<- _]]. exact I.
      * apply filter_In in Hun. destruct Hun as [Hun _]. apply B3. exact Hun.
    + cbn [p_keys p_ctr pl_summarize]. fold part nms consider st1 ns1 gnames. intros k Hk. apply in_app_or in Hk. destruct Hk as [Hk|Hk].
      * apply in_map_iff in Hk. destruct Hk as [dd [<- _]]. exact I.
      * unfold gnames in Hk. apply in_map_iff in Hk. destruct Hk as [u [<- Hu]].
        assert (Hd : In u (dom ns1)) by (rewrite Dom1; apply PartDom; exact Hu).
        pose proof (pname_in_ns _ _ Hd) as Hn. apply in_map_iff in Hn. destruct Hn as [un [E Hun]]. rewrite <- E. apply B3. exact Hun.
    + rewrite Enew. cbn [p_keys pl_summarize]. fold part nms consider st1 ns1 gnames. intros f kv Hf Hkv.
      apply in_map_iff in Hf. destruct Hf as [kg [<- _]]. apply in_or_app. apply in_app_or in Hkv. destruct Hkv as [Hkv|Hkv].
      * left. apply in_map_iff in Hkv. destruct Hkv as [dd [<- Hdd]]. simpl. apply in_map_iff. exists dd. split; [reflexivity|exact Hdd].
      * right. destruct kv as [k0 v0]. apply in_combine_l in Hkv. exact Hkv.
    + rewrite Ens. cbn [p_keys pl_summarize]. fold part nms consider st1 ns1 gnames. intros u Hu. rewrite dom_new_ns in Hu. apply in_or_app.
      destruct (in_dec N.eq_dec u (def_uids defs)) as [Hnew|Hold].
      * left. destruct (in_def_uids defs u Hnew) as [dd [Hdd Eu]]. subst u. rewrite (pname_new_found defs _ dd ND Hdd).
        apply in_map_iff. exists dd. split; [reflexivity|exact Hdd].
      * right. apply in_app_or in Hu. destruct Hu as [Hu|Hu]; [contradiction|].
        assert (Hup : In u part).
        { unfold dom in Hu. apply in_map_iff in Hu. destruct Hu as [un [E Hun]]. apply filter_In in Hun. destruct Hun as [_ M]. apply mem_u_In in M. rewrite <- E. exact M. }
        rewrite (Hpn2 u Hup), <- (Hp1 u Hup). fold ns1. unfold gnames. apply in_map. exact Hup.
    + rewrite Ens. cbn [p_select pl_summarize]. fold part nms. intros u Hu. apply in_app_or in Hu. destruct Hu as [Hu|Hu].
      * apply filter_In in Hu. destruct Hu as [Hu _]. rewrite (Hpn2 u Hu). destruct (PartUser u Hu) as [n [E _]]. rewrite E. reflexivity.
      * destruct (in_def_uids defs u Hu) as [dd [Hdd Eu]]. subst u. rewrite (pname_new_found defs _ dd ND Hdd). reflexivity.
Qed.

(* ---------- the theorem ---------- *)
(* ---------- union ---------- *)
Lemma nget_proj (f : nrow) (L : list dname) n : In n L -> nget (map (fun k => (k, nget f k)) L) n = nget f n.
Proof.
  induction L as [|k L IH]; intros H; [destruct H|]. simpl.
  destruct (dname_eqb k n) eqn:E; [apply dname_eqb_eq in E; subst; reflexivity|].
  destruct H as [H|H]; [subst; rewrite dname_eqb_refl in E; discriminate E|]. apply IH. exact H.
Qed.

Lemma get_map_self (g : uid -> value) L u : In u L -> get (map (fun x => (x, g x)) L) u = g u.
Proof.
  induction L as [|y L IH]; intros H; [destruct H|]. simpl.
  destruct (N.eqb_spec y u) as [E|E]; [subst; reflexivity|]. destruct H as [H|H]; [contradiction|]. apply IH. exact H.
Qed.

Lemma pname_self ns L u : In u L -> pname (map (fun x => (x, pname ns x)) L) u = pname ns u.
Proof.
  unfold pname at 1. induction L as [|y L IH]; intros H; [destruct H|]. simpl.
  destruct (N.eqb_spec u y) as [E|E]; [subst; reflexivity|]. destruct H as [H|H]; [congruence|]. apply IH. exact H.
Qed.

Lemma assoc_s_sel_found (ns : names) n : forall L,
  In n (map (fun x => uname (pname ns x)) L) ->
  exists ur, assoc_s n (map (fun x => (uname (pname ns x), x)) L) = Some ur /\ In ur L /\ uname (pname ns ur) = n.
Proof.
  induction L as [|y L IH]; intros H; [destruct H|]. simpl.
  destruct (String.eqb_spec n (uname (pname ns y))) as [E|E].
  - exists y. repeat split; [left; reflexivity|symmetry; exact E].
  - destruct H as [H|H]; [simpl in H; congruence|]. destruct (IH H) as [ur [A [B C]]].
    exists ur. repeat split; [exact A|right; exact B|exact C].
Qed.

Lemma pl_dedup_rel (Q : row -> nrow -> Prop) (vis : row -> list value) :
  (forall r f, Q r f -> vis r = map snd f) ->
  forall all allP seen, Forall2 Q all allP -> Forall2 Q (dedup_rows seen vis all) (pl_dedup seen allP).
Proof.
  intros HQ. induction all as [|r all IH]; intros allP seen H; inversion H as [|? f ? allP' Hrf Hrest]; subst; simpl; [constructor|].
  rewrite <- (HQ r f Hrf). destruct (existsb (values_eqb (vis r)) seen); [apply IH; exact Hrest|].
  constructor; [exact Hrf|apply IH; exact Hrest].
Qed.

Lemma pl_dedup_subset : forall rs seen f, In f (pl_dedup seen rs) -> In f rs.
Proof.
  induction rs as [|x rs IH]; intros seen f H; [destruct H|]. simpl in H.
  destruct (existsb _ seen); [right; apply (IH _ _ H)|]. destruct H as [H|H]; [left; exact H|right; apply (IH _ _ H)].
Qed.

Lemma user_uname dn : is_user dn = true -> dn = User (uname dn).
Proof. destruct dn; simpl; [reflexivity|discriminate]. Qed.

Lemma punion_case sL sR stl str distinct :
  PInv sL stl -> PAux stl -> PInv sR str -> PAux str ->
  (forall u, In u (p_select stl) ->
     In (uname (pname (p_ns stl) u)) (map (fun x => uname (pname (p_ns str) x)) (p_select str))) ->
  PInv (do_union sL sR distinct) (pl_union stl str distinct) /\ PAux (pl_union stl str distinct).
Proof.
  intros [Rl Sl Gl] Al [Rr Sr Gr] Ar Hnames.
  set (lsel := p_select stl) in *. set (nsl := p_ns stl) in *. set (nsr := p_ns str) in *.
  set (lnames := map (pname nsl) lsel).
  set (proj := fun f : nrow => map (fun n => (n, nget f n)) lnames).
  set (ns' := map (fun u => (u, pname nsl u)) lsel).
  assert (Hdom : dom ns' = lsel). { unfold dom, ns'. rewrite map_map. simpl. apply map_id. }
  assert (Hpn : forall u, In u lsel -> pname ns' u = pname nsl u). { intros u Hu. apply pname_self. exact Hu. }
  assert (Hln : forall u, In u lsel -> In (pname nsl u) lnames). { intros u Hu. apply in_map. exact Hu. }
  set (vis := fun x : row => map (fun p : string * uid => get x (snd p)) (sel sL)).
  assert (Evis : forall x, vis x = map (get x) lsel).
  { intros x. unfold vis. rewrite Sl, map_map. reflexivity. }
  assert (Eproj : forall f, map snd (proj f) = map (fun u => nget f (pname nsl u)) lsel).
  { intros f. unfold proj, lnames. rewrite !map_map. reflexivity. }
  set (Q := fun (r : row) (f : nrow) => prel ns' r f /\ vis r = map snd f).
  (* left rows *)
  assert (QL : Forall2 Q (rows sL) (map proj (p_rows stl))).
  { apply Forall2_map_r. eapply Forall2_impl'; [|exact Rl]. intros r f Hrf. split.
    - intros u Hu. rewrite Hdom in Hu. rewrite (Hpn u Hu). unfold proj. rewrite (nget_proj f lnames _ (Hln u Hu)).
      apply Hrf. apply (pa_sel stl Al). exact Hu.
    - rewrite Evis, Eproj. apply map_ext_in. intros u Hu. apply Hrf. apply (pa_sel stl Al). exact Hu. }
  (* right rows: converted by name *)
  set (conv := fun rr : row => map (fun p : string * uid => (snd p, match assoc_s (fst p) (sel sR) with Some ur => get rr ur | None => VErr end)) (sel sL)).
  assert (Econv : forall rr fr, prel nsr rr fr -> forall u, In u lsel -> get (conv rr) u = nget fr (pname nsl u)).
  { intros rr fr Hrf u Hu. unfold conv. rewrite Sl, map_map. cbn [fst snd].
    rewrite (get_map_self (fun x => match assoc_s (uname (pname nsl x)) (sel sR) with Some ur => get rr ur | None => VErr end) lsel u Hu).
    rewrite Sr. destruct (assoc_s_sel_found nsr _ _ (Hnames u Hu)) as [ur [Ea [Hin En]]]. fold nsr. rewrite Ea.
    rewrite (Hrf ur (pa_sel str Ar ur Hin)).
    pose proof (user_uname _ (pa_sel_user str Ar ur Hin)) as U1. pose proof (user_uname _ (pa_sel_user stl Al u Hu)) as U2.
    change (p_ns str) with nsr in U1. change (p_ns stl) with nsl in U2. rewrite U1, U2, En. reflexivity. }
  assert (QR : Forall2 Q (map conv (rows sR)) (map proj (p_rows str))).
  { apply Forall2_map_l. apply Forall2_map_r. eapply Forall2_impl'; [|exact Rr]. intros rr fr Hrf. split.
    - intros u Hu. rewrite Hdom in Hu. rewrite (Hpn u Hu). unfold proj. rewrite (nget_proj fr lnames _ (Hln u Hu)).
      apply (Econv rr fr Hrf u Hu).
    - rewrite Evis, Eproj. apply map_ext_in. intros u Hu. apply (Econv rr fr Hrf u Hu). }
  assert (QA : Forall2 Q (rows sL ++ map conv (rows sR)) (map proj (p_rows stl) ++ map proj (p_rows str))).
  { apply Forall2_app; assumption. }
  assert (QF : Forall2 Q (if distinct then dedup_rows [] vis (rows sL ++ map conv (rows sR)) else rows sL ++ map conv (rows sR))
                         (if distinct then pl_dedup [] (map proj (p_rows stl) ++ map proj (p_rows str)) else map proj (p_rows stl) ++ map proj (p_rows str))).
  { destruct distinct; [|exact QA]. apply (pl_dedup_rel Q vis); [|exact QA]. intros r f [_ H]. exact H. }
  split.
  - constructor.
    + cbn [rows do_union p_rows pl_union p_ns]. fold lsel nsl lnames proj ns' conv vis.
      eapply Forall2_impl'; [|exact QF]. intros r f [H _]. exact H.
    + cbn [sel do_union p_ns p_select pl_union]. fold lsel nsl ns'. rewrite Sl.
      apply map_ext_in. intros u Hu. rewrite (Hpn u Hu). reflexivity.
    + reflexivity.
  - constructor; cbn [p_rows p_ns p_select p_part p_ctr p_keys pl_union]; fold lsel nsl lnames proj ns'.
    + intros u Hu. rewrite Hdom. exact Hu.
    + intros u Hu. destruct Hu.
    + intros un Hun. unfold ns' in Hun. apply in_map_iff in Hun. destruct Hun as [u [<- Hu]]. cbn [snd].
      apply pname_bounded; [exact Al|apply (pa_sel stl Al); exact Hu].
    + intros k Hk. unfold lnames in Hk. apply in_map_iff in Hk. destruct Hk as [u [<- Hu]].
      apply pname_bounded; [exact Al|apply (pa_sel stl Al); exact Hu].
    + intros f kv Hf Hkv.
      assert (Hf' : In f (map proj (p_rows stl) ++ map proj (p_rows str))).
      { destruct distinct; [apply (pl_dedup_subset _ _ _ Hf)|exact Hf]. }
      apply in_app_or in Hf'. destruct Hf' as [Hf'|Hf']; apply in_map_iff in Hf'; destruct Hf' as [f0 [<- _]];
        unfold proj in Hkv; apply in_map_iff in Hkv; destruct Hkv as [n [<- Hn]]; exact Hn.
    + intros u Hu. rewrite Hdom in Hu. rewrite (Hpn u Hu). apply Hln. exact Hu.
    + intros u Hu. rewrite (Hpn u Hu). apply (pa_sel_user stl Al u Hu).
Qed.

(* ---------- inner join ---------- *)
Definition lbounded (k : nat) (dn : dname) : Prop := match dn with User _ => True | Hidden _ c => k <= c end.

Lemma uname_ren_over news consider ctr dn : uname (ren_over news consider ctr dn) = uname dn.
Proof. destruct dn as [n|n c]; simpl; [|reflexivity]. destruct (mem_s n news && mem_d (User n) consider); reflexivity. Qed.
Lemma uname_shift k dn : uname (shift_dn k dn) = uname dn.
Proof. destruct dn; reflexivity. Qed.
Lemma shift_inj k a b : shift_dn k a = shift_dn k b -> a = b.
Proof. destruct a as [n|n c], b as [m|m c']; simpl; intros H; inversion H; subst; try reflexivity. f_equal. lia. Qed.
Lemma shift_bounded k c dn : bounded c dn -> bounded (c + k) (shift_dn k dn).
Proof. destruct dn; simpl; intros; [exact I|lia]. Qed.
Lemma shift_lbounded k dn : lbounded k (shift_dn k dn).
Proof. destruct dn; simpl; [exact I|lia]. Qed.
Lemma ren_over_lbounded news consider ctr k dn : k <= ctr -> lbounded k dn -> lbounded k (ren_over news consider ctr dn).
Proof.
  intros Hk. destruct dn as [n|n c]; simpl; intros H; [|exact H].
  destruct (mem_s n news && mem_d (User n) consider); simpl; [lia|exact I].
Qed.
Lemma ren_over_user_other news consider ctr n : mem_s n news = false -> ren_over news consider ctr (User n) = User n.
Proof. intros H. simpl. rewrite H. reflexivity. Qed.
Lemma ren_over_not_user news consider ctr dn m :
  mem_s m news = true -> (forall k, In k consider -> True) ->
  mem_d dn consider = true -> ren_over news consider ctr dn <> User m.
Proof.
  intros Hm _ Hc. destruct dn as [n|n c]; simpl; [|discriminate].
  destruct (mem_s n news) eqn:En; simpl.
  - rewrite Hc. discriminate.
  - intros E. inversion E; subst. rewrite Hm in En. discriminate.
Qed.


Lemma nget_nokey (f : nrow) n : ~ In n (map fst f) -> nget f n = VNull.
Proof.
  induction f as [|[k v] f IH]; intros H; [reflexivity|]. simpl.
  destruct (dname_eqb k n) eqn:E; [apply dname_eqb_eq in E; exfalso; apply H; left; exact E|]. apply IH. intros C. apply H. right. exact C.
Qed.
Lemma nget_app_nokey_l (fl fr : nrow) n : ~ In n (map fst fl) -> nget (fl ++ fr) n = nget fr n.
Proof.
  induction fl as [|[k v] fl IH]; intros H; [reflexivity|]. simpl.
  destruct (dname_eqb k n) eqn:E; [apply dname_eqb_eq in E; exfalso; apply H; left; exact E|]. apply IH. intros C. apply H. right. exact C.
Qed.
Lemma nget_app_nokey_r (fl fr : nrow) n : ~ In n (map fst fr) -> nget (fl ++ fr) n = nget fl n.
Proof.
  intros H. induction fl as [|[k v] fl IH]; simpl; [apply nget_nokey; exact H|]. destruct (dname_eqb k n); [reflexivity|exact IH].
Qed.

Lemma pname_app_l (nsl nsr : names) u : In u (dom nsl) -> pname (nsl ++ nsr) u = pname nsl u.
Proof.
  intros H. unfold pname. destruct (assoc_u_in_dom _ _ H) as [v Hv]. rewrite (assoc_u_app_found _ _ _ _ Hv), Hv. reflexivity.
Qed.
Lemma pname_app_r (nsl nsr : names) u : ~ In u (dom nsl) -> pname (nsl ++ nsr) u = pname nsr u.
Proof. intros H. unfold pname. rewrite assoc_u_app_other by exact H. reflexivity. Qed.

(* shifting the suffix numbers of a frame *)
Section Shift.
Variable st : pstate.
Variable k : nat.
Hypothesis A : PAux st.
Let st1 := shift_names k st.

Lemma sh_dom : dom (p_ns st1) = dom (p_ns st).
Proof. unfold st1, shift_names. cbn [p_ns]. apply dom_map. Qed.
Lemma sh_pname u : In u (dom (p_ns st)) -> pname (p_ns st1) u = shift_dn k (pname (p_ns st) u).
Proof. intros H. unfold st1, shift_names. cbn [p_ns]. apply pname_map. exact H. Qed.

Lemma sh_rows (rs : list row) : Forall2 (prel (p_ns st)) rs (p_rows st) -> Forall2 (prel (p_ns st1)) rs (p_rows st1).
Proof.
  intros R. unfold st1 at 2. unfold shift_names. cbn [p_rows]. apply Forall2_map_r.
  apply (Forall2_in_r _ (fun f => In f (p_rows st))) in R; [|auto].
  eapply Forall2_impl'; [|exact R]. intros r f [Hrf Hin] u Hu. rewrite sh_dom in Hu.
  rewrite sh_pname by exact Hu. rewrite (Hrf u Hu). symmetry.
  apply (nget_map_keys (shift_dn k) (p_ctr st)).
  - intros a b _ _. apply shift_inj.
  - intros kv Hkv. apply (pa_keys_b st A). apply (pa_rows_k st A f kv Hin Hkv).
  - apply pname_bounded; assumption.
Qed.

Lemma sh_aux : PAux st1.
Proof.
  unfold st1, shift_names. constructor; cbn [p_select p_part p_ns p_ctr p_keys p_rows]; rewrite ?dom_map.
  - apply (pa_sel st A).
  - apply (pa_part st A).
  - intros un H. apply in_map_iff in H. destruct H as [un0 [<- H0]]. simpl. apply shift_bounded. apply (pa_ns_b st A un0 H0).
  - intros k0 H. apply in_map_iff in H. destruct H as [k1 [<- H1]]. apply shift_bounded. apply (pa_keys_b st A k1 H1).
  - intros f kv Hf Hkv. apply in_map_iff in Hf. destruct Hf as [f0 [<- Hf0]].
    unfold map_keys in Hkv. apply in_map_iff in Hkv. destruct Hkv as [kv0 [<- Hkv0]]. simpl.
    apply in_map. apply (pa_rows_k st A f0 kv0 Hf0 Hkv0).
  - intros u H. rewrite pname_map by exact H. apply in_map. apply (pa_ns_keys st A u H).
  - intros u H. rewrite pname_map by (apply (pa_sel st A); exact H).
    pose proof (pa_sel_user st A u H) as U. destruct (pname (p_ns st) u); [reflexivity|discriminate U].
Qed.

Lemma sh_keys_lb k0 : In k0 (p_keys st1) -> lbounded k k0.
Proof. unfold st1, shift_names. cbn [p_keys]. intros H. apply in_map_iff in H. destruct H as [k1 [<- _]]. apply shift_lbounded. Qed.
End Shift.

Lemma ro_aux news consider st : PAux st ->
  (forall u, In u (p_select st) -> mem_s (uname (pname (p_ns st) u)) news = false) ->
  PAux (rename_over news consider st).
Proof.
  intros A Hv. destruct (ro_aux_core st news consider A) as [H1 [H2 [H3 [H4 [H5 H6]]]]].
  constructor; try assumption.
  intros u Hu. assert (Hu' : In u (p_select st)) by exact Hu.
  rewrite (ro_pname st news consider u (pa_sel st A u Hu')).
  pose proof (user_uname _ (pa_sel_user st A u Hu')) as U. rewrite U.
  rewrite ren_over_user_other by (apply Hv; exact Hu'). reflexivity.
Qed.

Lemma ro_keys_lb news consider st k : k <= p_ctr st ->
  (forall x, In x (p_keys st) -> lbounded k x) -> forall x, In x (p_keys (rename_over news consider st)) -> lbounded k x.
Proof.
  intros Hk H x Hx. unfold rename_over in Hx. cbn [p_keys] in Hx. apply in_map_iff in Hx. destruct Hx as [x0 [<- Hx0]].
  apply ren_over_lbounded; [exact Hk|apply H; exact Hx0].
Qed.

Lemma user_names_In m l : mem_s m (user_names l) = true <-> In (User m) l.
Proof.
  unfold user_names. rewrite mem_s_In, in_map_iff. split.
  - intros [k [E Hk]]. apply filter_In in Hk. destruct Hk as [Hk U]. rewrite (user_uname _ U) in Hk. rewrite E in Hk. exact Hk.
  - intros H. exists (User m). split; [reflexivity|apply filter_In; split; [exact H|reflexivity]].
Qed.

Lemma pjoin_case sL sR stl str0 on (UL UR : list uid) :
  PInv sL stl -> PAux stl -> PInv sR str0 -> PAux str0 ->
  keys_in UL (rows sL) -> keys_in UR (rows sR) ->
  (forall x, In x (cols on) -> In x (dom (p_ns stl) ++ dom (p_ns str0))) ->
  (forall x, In x (dom (p_ns stl)) -> ~ In x (dom (p_ns str0))) ->
  (forall x, In x (dom (p_ns stl)) -> ~ In x UR) -> (forall x, In x (dom (p_ns str0)) -> ~ In x UL) ->
  (forall u v, In u (p_select stl) -> In v (p_select str0) -> uname (pname (p_ns stl) u) <> uname (pname (p_ns str0) v)) ->
  PInv (do_join sL sR on JInner) (pl_join stl str0 on) /\ PAux (pl_join stl str0 on).
Proof.
  intros [Rl Sl Gl] Al [Rr Sr Gr] Ar0 KL KR Son Dd DsR DsL Vis.
  set (M := p_ctr stl + List.length (p_select str0)).
  set (sr := shift_names M str0).
  set (news1 := map (fun u => uname (pname (p_ns stl) u)) (p_select stl)).
  set (sr1 := rename_over news1 (p_keys sr) sr).
  set (news2 := map (fun u => uname (pname (p_ns sr1) u)) (p_select sr1)).
  set (sl2 := rename_over news2 (p_keys stl) stl).
  set (news3 := user_names (p_keys sl2)).
  set (sr3 := rename_over news3 (p_keys sr1) sr1).
  (* the right frame through the shift and the two passes *)
  pose proof (sh_aux str0 M Ar0) as Asr. fold sr in Asr.
  pose proof (sh_rows str0 M Ar0 _ Rr) as Rsr. fold sr in Rsr.
  assert (Dsr : dom (p_ns sr) = dom (p_ns str0)) by (apply sh_dom).
  assert (Nsr : forall v, In v (dom (p_ns str0)) -> uname (pname (p_ns sr) v) = uname (pname (p_ns str0) v)).
  { intros v Hv. unfold sr. rewrite sh_pname by exact Hv. apply uname_shift. }
  assert (Asr1 : PAux sr1).
  { apply ro_aux; [exact Asr|]. intros v Hv. cbn [p_select sr shift_names] in Hv.
    destruct (mem_s _ news1) eqn:E; [|reflexivity]. exfalso. apply mem_s_In in E. unfold news1 in E.
    apply in_map_iff in E. destruct E as [u [E Hu]]. rewrite Nsr in E by (apply (pa_sel str0 Ar0); exact Hv).
    apply (Vis u v Hu Hv). exact E. }
  pose proof (ro_rows sr news1 (p_keys sr) Asr _ Rsr) as Rsr1. fold sr1 in Rsr1.
  assert (Dsr1 : dom (p_ns sr1) = dom (p_ns str0)) by (unfold sr1; rewrite ro_dom; exact Dsr).
  assert (Nsr1 : forall v, In v (dom (p_ns str0)) -> uname (pname (p_ns sr1) v) = uname (pname (p_ns str0) v)).
  { intros v Hv. unfold sr1. rewrite ro_pname by (rewrite Dsr; exact Hv). rewrite uname_ren_over. apply Nsr. exact Hv. }
  (* the left frame through pass 2 *)
  assert (Asl2 : PAux sl2).
  { apply ro_aux; [exact Al|]. intros u Hu.
    destruct (mem_s _ news2) eqn:E; [|reflexivity]. exfalso. apply mem_s_In in E. unfold news2 in E.
    apply in_map_iff in E. destruct E as [v [E Hv]]. cbn [p_select sr1 rename_over sr shift_names] in Hv.
    rewrite Nsr1 in E by (apply (pa_sel str0 Ar0); exact Hv). apply (Vis u v Hu Hv). symmetry. exact E. }
  pose proof (ro_rows stl news2 (p_keys stl) Al _ Rl) as Rsl2. fold sl2 in Rsl2.
  assert (Dsl2 : dom (p_ns sl2) = dom (p_ns stl)) by (unfold sl2; apply ro_dom).
  assert (Csl2 : p_ctr sl2 = M).
  { unfold sl2, rename_over. cbn [p_ctr]. unfold news2, M. rewrite map_length. reflexivity. }
  (* pass 3 *)
  assert (Asr3 : PAux sr3).
  { apply ro_aux; [exact Asr1|]. intros v Hv. cbn [p_select sr1 rename_over sr shift_names] in Hv.
    destruct (mem_s _ news3) eqn:E; [|reflexivity]. exfalso. unfold news3 in E. apply user_names_In in E.
    set (m := uname (pname (p_ns sr1) v)) in *.
    unfold sl2, rename_over in E. cbn [p_keys] in E. apply in_map_iff in E. destruct E as [k0 [E Hk0]].
    revert E. apply ren_over_not_user; [|auto|apply mem_d_In; exact Hk0].
    apply mem_s_In. unfold news2. apply in_map_iff. exists v. split; [reflexivity|exact Hv]. }
  pose proof (ro_rows sr1 news3 (p_keys sr1) Asr1 _ Rsr1) as Rsr3. fold sr3 in Rsr3.
  assert (Dsr3 : dom (p_ns sr3) = dom (p_ns str0)) by (unfold sr3; rewrite ro_dom; exact Dsr1).
  (* suffix numbers: left below M, right at or above M *)
  assert (LB3 : forall x, In x (p_keys sr3) -> lbounded M x).
  { apply ro_keys_lb.
    - unfold sr1, rename_over, sr, shift_names. cbn [p_ctr]. lia.
    - apply ro_keys_lb; [unfold sr, shift_names; cbn [p_ctr]; lia|]. intros x Hx. apply (sh_keys_lb str0 M x Hx). }
  assert (KD : forall k, In k (p_keys sl2) -> In k (p_keys sr3) -> False).
  { intros k Hl Hr. destruct k as [m|n c].
    - unfold sr3, rename_over in Hr. cbn [p_keys] in Hr. apply in_map_iff in Hr. destruct Hr as [k1 [E Hk1]].
      revert E. apply ren_over_not_user; [|auto|apply mem_d_In; exact Hk1].
      unfold news3. apply user_names_In. exact Hl.
    - pose proof (pa_keys_b sl2 Asl2 _ Hl) as B. rewrite Csl2 in B. pose proof (LB3 _ Hr) as L. simpl in B, L. lia. }
  set (ns := p_ns sl2 ++ p_ns sr3).
  assert (PnL : forall u, In u (dom (p_ns stl)) -> pname ns u = pname (p_ns sl2) u).
  { intros u Hu. apply pname_app_l. rewrite Dsl2. exact Hu. }
  assert (PnR : forall u, In u (dom (p_ns str0)) -> pname ns u = pname (p_ns sr3) u).
  { intros u Hu. apply pname_app_r. rewrite Dsl2. intros C. apply (Dd u C Hu). }
  (* a joined reference row and the joined frame row *)
  assert (PJ : forall lr rr fl fr, In lr (rows sL) -> In rr (rows sR) -> In fl (p_rows sl2) -> In fr (p_rows sr3) ->
                prel (p_ns sl2) lr fl -> prel (p_ns sr3) rr fr -> prel ns (lr ++ rr)%list (fl ++ fr)%list).
  { intros lr rr fl fr Hlr Hrr Hfl Hfr Pl Pr u Hu. unfold ns, dom in Hu. rewrite map_app in Hu. apply in_app_or in Hu. destruct Hu as [Hu|Hu].
    - fold (dom (p_ns sl2)) in Hu. assert (Hu' : In u (dom (p_ns stl))) by (rewrite <- Dsl2; exact Hu).
      rewrite get_app_nokey_r by (intros C; apply (DsR u Hu'); apply (KR rr u Hrr C)).
      rewrite (PnL u Hu'). rewrite (Pl u Hu).
      symmetry. apply nget_app_nokey_r. intros C. apply (KD (pname (p_ns sl2) u)); [apply (pa_ns_keys sl2 Asl2 u Hu)|].
      apply in_map_iff in C. destruct C as [kv [E Hkv]]. rewrite <- E. apply (pa_rows_k sr3 Asr3 fr kv Hfr Hkv).
    - fold (dom (p_ns sr3)) in Hu. assert (Hu' : In u (dom (p_ns str0))) by (rewrite <- Dsr3; exact Hu).
      rewrite get_app_nokey_l by (intros C; apply (DsL u Hu'); apply (KL lr u Hlr C)).
      rewrite (PnR u Hu'). rewrite (Pr u Hu).
      symmetry. apply nget_app_nokey_l. intros C. apply (KD (pname (p_ns sr3) u)); [|apply (pa_ns_keys sr3 Asr3 u Hu)].
      apply in_map_iff in C. destruct C as [kv [E Hkv]]. rewrite <- E. apply (pa_rows_k sl2 Asl2 fl kv Hfl Hkv). }
  assert (DomNs : dom ns = dom (p_ns stl) ++ dom (p_ns str0)).
  { unfold ns, dom. rewrite map_app. fold (dom (p_ns sl2)) (dom (p_ns sr3)). rewrite Dsl2, Dsr3. reflexivity. }
  split.
  - constructor.
    + cbn [rows do_join p_rows pl_join]. fold M sr news1 sr1 news2 sl2 news3 sr3 ns. rewrite app_nil_r.
      apply (Forall2_flat_map (fun lr fl => prel (p_ns sl2) lr fl /\ In lr (rows sL) /\ In fl (p_rows sl2))).
      * pose proof (Forall2_with_In _ _ _ Rsl2) as H1.
        pose proof (Forall2_flip' _ _ _ (Forall2_with_In _ _ _ (Forall2_flip' _ _ _ Rsl2))) as H2.
        pose proof (Forall2_and _ _ _ _ H1 H2) as H3. eapply Forall2_impl'; [|exact H3]. intros lr fl [[A1 A2] [_ A3]]. auto.
      * intros lr fl [Pl [Hlr Hfl]]. unfold join_branch.
        assert (Hin : Forall2 (fun rr fr => prel (p_ns sr3) rr fr /\ In rr (rows sR) /\ In fr (p_rows sr3)) (rows sR) (p_rows sr3)).
        { pose proof (Forall2_with_In _ _ _ Rsr3) as H1.
          pose proof (Forall2_flip' _ _ _ (Forall2_with_In _ _ _ (Forall2_flip' _ _ _ Rsr3))) as H2.
          pose proof (Forall2_and _ _ _ _ H1 H2) as H3. eapply Forall2_impl'; [|exact H3]. intros rr fr [[A1 A2] [_ A3]]. auto. }
        assert (Hf : Forall2 (fun rr fr => prel (p_ns sr3) rr fr /\ In rr (rows sR) /\ In fr (p_rows sr3))
                             (filter (on_true on lr) (rows sR))
                             (filter (fun fr => value_eqb (eval [] (0, view ns (fl ++ fr)%list) on) (VBool true)) (p_rows sr3))).
        { apply Forall2_filter; [exact Hin|]. intros rr fr [Pr [Hrr Hfr]]. unfold on_true. f_equal.
          apply eval_rel; [constructor|]. split; [reflexivity|]. intros x Hx. cbn [snd].
          assert (Hd : In x (dom ns)) by (rewrite DomNs; apply Son; exact Hx).
          rewrite get_view by exact Hd. apply (PJ lr rr fl fr Hlr Hrr Hfl Hfr Pl Pr x Hd). }
        assert (G2 : Forall2 (prel ns) (map (fun rr => (lr ++ rr)%list) (filter (on_true on lr) (rows sR)))
                             (map (fun fr => (fl ++ fr)%list) (filter (fun fr => value_eqb (eval [] (0, view ns (fl ++ fr)%list) on) (VBool true)) (p_rows sr3)))).
        { apply Forall2_map_l. apply Forall2_map_r. eapply Forall2_impl'; [|exact Hf]. intros rr fr [Pr [Hrr Hfr]].
          apply (PJ lr rr fl fr Hlr Hrr Hfl Hfr Pl Pr). }
        destruct (filter (on_true on lr) (rows sR)); exact G2.
    + cbn [sel do_join p_ns p_select pl_join]. fold M sr news1 sr1 news2 sl2 news3 sr3 ns. rewrite map_app, Sl, Sr. f_equal.
      * apply map_ext_in. intros u Hu. f_equal. pose proof (pa_sel stl Al u Hu) as Hd. rewrite (PnL u Hd).
        unfold sl2. rewrite ro_pname by exact Hd. rewrite uname_ren_over. reflexivity.
      * apply map_ext_in. intros v Hv. f_equal. pose proof (pa_sel str0 Ar0 v Hv) as Hd. rewrite (PnR v Hd).
        unfold sr3. rewrite ro_pname by (rewrite Dsr1; exact Hd). rewrite uname_ren_over. symmetry. apply Nsr1. exact Hd.
    + reflexivity.
  - constructor; cbn [p_rows p_ns p_select p_part p_ctr p_keys pl_join]; fold M sr news1 sr1 news2 sl2 news3 sr3 ns.
    + intros u Hu. rewrite DomNs. apply in_or_app. apply in_app_or in Hu.
      destruct Hu as [Hu|Hu]; [left; apply (pa_sel stl Al u Hu)|right; apply (pa_sel str0 Ar0 u Hu)].
    + intros u Hu. destruct Hu.
    + intros un Hun. unfold ns in Hun. apply in_app_or in Hun. destruct Hun as [Hun|Hun].
      * apply (bounded_mono (p_ctr sl2)); [|apply (pa_ns_b sl2 Asl2 un Hun)]. rewrite Csl2.
        unfold sr3, sr1, sr. unfold rename_over, shift_names. cbn [p_ctr]. lia.
      * apply (pa_ns_b sr3 Asr3 un Hun).
    + intros k Hk. apply in_app_or in Hk. destruct Hk as [Hk|Hk].
      * apply (bounded_mono (p_ctr sl2)); [|apply (pa_keys_b sl2 Asl2 k Hk)]. rewrite Csl2.
        unfold sr3, sr1, sr. unfold rename_over, shift_names. cbn [p_ctr]. lia.
      * apply (pa_keys_b sr3 Asr3 k Hk).
    + intros f kv Hf Hkv. apply in_flat_map in Hf. destruct Hf as [fl [Hfl Hf]]. apply in_map_iff in Hf. destruct Hf as [fr [<- Hfr]].
      apply filter_In in Hfr. destruct Hfr as [Hfr _]. apply in_or_app. apply in_app_or in Hkv.
      destruct Hkv as [Hkv|Hkv]; [left; apply (pa_rows_k sl2 Asl2 fl kv Hfl Hkv)|right; apply (pa_rows_k sr3 Asr3 fr kv Hfr Hkv)].
    + intros u Hu. rewrite DomNs in Hu. apply in_or_app. apply in_app_or in Hu. destruct Hu as [Hu|Hu].
      * left. rewrite (PnL u Hu). apply (pa_ns_keys sl2 Asl2). rewrite Dsl2. exact Hu.
      * right. rewrite (PnR u Hu). apply (pa_ns_keys sr3 Asr3). rewrite Dsr3. exact Hu.
    + intros u Hu. apply in_app_or in Hu. destruct Hu as [Hu|Hu].
      * rewrite (PnL u (pa_sel stl Al u Hu)). apply (pa_sel_user sl2 Asl2 u Hu).
      * rewrite (PnR u (pa_sel str0 Ar0 u Hu)). apply (pa_sel_user sr3 Asr3 u Hu).
Qed.

Lemma pleft_join_case sL sR stl str0 on (UL UR : list uid) :
  PInv sL stl -> PAux stl -> PInv sR str0 -> PAux str0 ->
  keys_in UL (rows sL) -> keys_in UR (rows sR) ->
  (forall x, In x (cols on) -> In x (dom (p_ns stl) ++ dom (p_ns str0))) ->
  (forall x, In x (dom (p_ns stl)) -> ~ In x (dom (p_ns str0))) ->
  (forall x, In x (dom (p_ns stl)) -> ~ In x UR) -> (forall x, In x (dom (p_ns str0)) -> ~ In x UL) ->
  (forall u v, In u (p_select stl) -> In v (p_select str0) -> uname (pname (p_ns stl) u) <> uname (pname (p_ns str0) v)) ->
  PInv (do_join sL sR on JLeft) (pl_left_join stl str0 on) /\ PAux (pl_left_join stl str0 on).
Proof.
  intros [Rl Sl Gl] Al [Rr Sr Gr] Ar0 KL KR Son Dd DsR DsL Vis.
  set (M := p_ctr stl + List.length (p_select str0)).
  set (sr := shift_names M str0).
  set (news1 := map (fun u => uname (pname (p_ns stl) u)) (p_select stl)).
  set (sr1 := rename_over news1 (p_keys sr) sr).
  set (news2 := map (fun u => uname (pname (p_ns sr1) u)) (p_select sr1)).
  set (sl2 := rename_over news2 (p_keys stl) stl).
  set (news3 := user_names (p_keys sl2)).
  set (sr3 := rename_over news3 (p_keys sr1) sr1).
  (* the right frame through the shift and the two passes *)
  pose proof (sh_aux str0 M Ar0) as Asr. fold sr in Asr.
  pose proof (sh_rows str0 M Ar0 _ Rr) as Rsr. fold sr in Rsr.
  assert (Dsr : dom (p_ns sr) = dom (p_ns str0)) by (apply sh_dom).
  assert (Nsr : forall v, In v (dom (p_ns str0)) -> uname (pname (p_ns sr) v) = uname (pname (p_ns str0) v)).
  { intros v Hv. unfold sr. rewrite sh_pname by exact Hv. apply uname_shift. }
  assert (Asr1 : PAux sr1).
  { apply ro_aux; [exact Asr|]. intros v Hv. cbn [p_select sr shift_names] in Hv.
    destruct (mem_s _ news1) eqn:E; [|reflexivity]. exfalso. apply mem_s_In in E. unfold news1 in E.
    apply in_map_iff in E. destruct E as [u [E Hu]]. rewrite Nsr in E by (apply (pa_sel str0 Ar0); exact Hv).
    apply (Vis u v Hu Hv). exact E. }
  pose proof (ro_rows sr news1 (p_keys sr) Asr _ Rsr) as Rsr1. fold sr1 in Rsr1.
  assert (Dsr1 : dom (p_ns sr1) = dom (p_ns str0)) by (unfold sr1; rewrite ro_dom; exact Dsr).
  assert (Nsr1 : forall v, In v (dom (p_ns str0)) -> uname (pname (p_ns sr1) v) = uname (pname (p_ns str0) v)).
  { intros v Hv. unfold sr1. rewrite ro_pname by (rewrite Dsr; exact Hv). rewrite uname_ren_over. apply Nsr. exact Hv. }
  (* the left frame through pass 2 *)
  assert (Asl2 : PAux sl2).
  { apply ro_aux; [exact Al|]. intros u Hu.
    destruct (mem_s _ news2) eqn:E; [|reflexivity]. exfalso. apply mem_s_In in E. unfold news2 in E.
    apply in_map_iff in E. destruct E as [v [E Hv]]. cbn [p_select sr1 rename_over sr shift_names] in Hv.
    rewrite Nsr1 in E by (apply (pa_sel str0 Ar0); exact Hv). apply (Vis u v Hu Hv). symmetry. exact E. }
  pose proof (ro_rows stl news2 (p_keys stl) Al _ Rl) as Rsl2. fold sl2 in Rsl2.
  assert (Dsl2 : dom (p_ns sl2) = dom (p_ns stl)) by (unfold sl2; apply ro_dom).
  assert (Csl2 : p_ctr sl2 = M).
  { unfold sl2, rename_over. cbn [p_ctr]. unfold news2, M. rewrite map_length. reflexivity. }
  (* pass 3 *)
  assert (Asr3 : PAux sr3).
  { apply ro_aux; [exact Asr1|]. intros v Hv. cbn [p_select sr1 rename_over sr shift_names] in Hv.
    destruct (mem_s _ news3) eqn:E; [|reflexivity]. exfalso. unfold news3 in E. apply user_names_In in E.
    set (m := uname (pname (p_ns sr1) v)) in *.
    unfold sl2, rename_over in E. cbn [p_keys] in E. apply in_map_iff in E. destruct E as [k0 [E Hk0]].
    revert E. apply ren_over_not_user; [|auto|apply mem_d_In; exact Hk0].
    apply mem_s_In. unfold news2. apply in_map_iff. exists v. split; [reflexivity|exact Hv]. }
  pose proof (ro_rows sr1 news3 (p_keys sr1) Asr1 _ Rsr1) as Rsr3. fold sr3 in Rsr3.
  assert (Dsr3 : dom (p_ns sr3) = dom (p_ns str0)) by (unfold sr3; rewrite ro_dom; exact Dsr1).
  (* suffix numbers: left below M, right at or above M *)
  assert (LB3 : forall x, In x (p_keys sr3) -> lbounded M x).
  { apply ro_keys_lb.
    - unfold sr1, rename_over, sr, shift_names. cbn [p_ctr]. lia.
    - apply ro_keys_lb; [unfold sr, shift_names; cbn [p_ctr]; lia|]. intros x Hx. apply (sh_keys_lb str0 M x Hx). }
  assert (KD : forall k, In k (p_keys sl2) -> In k (p_keys sr3) -> False).
  { intros k Hl Hr. destruct k as [m|n c].
    - unfold sr3, rename_over in Hr. cbn [p_keys] in Hr. apply in_map_iff in Hr. destruct Hr as [k1 [E Hk1]].
      revert E. apply ren_over_not_user; [|auto|apply mem_d_In; exact Hk1].
      unfold news3. apply user_names_In. exact Hl.
    - pose proof (pa_keys_b sl2 Asl2 _ Hl) as B. rewrite Csl2 in B. pose proof (LB3 _ Hr) as L. simpl in B, L. lia. }
  set (ns := p_ns sl2 ++ p_ns sr3).
  assert (PnL : forall u, In u (dom (p_ns stl)) -> pname ns u = pname (p_ns sl2) u).
  { intros u Hu. apply pname_app_l. rewrite Dsl2. exact Hu. }
  assert (PnR : forall u, In u (dom (p_ns str0)) -> pname ns u = pname (p_ns sr3) u).
  { intros u Hu. apply pname_app_r. rewrite Dsl2. intros C. apply (Dd u C Hu). }
  (* a joined reference row and the joined frame row *)
  assert (PJ : forall lr rr fl fr, In lr (rows sL) -> In rr (rows sR) -> In fl (p_rows sl2) -> In fr (p_rows sr3) ->
                prel (p_ns sl2) lr fl -> prel (p_ns sr3) rr fr -> prel ns (lr ++ rr)%list (fl ++ fr)%list).
  { intros lr rr fl fr Hlr Hrr Hfl Hfr Pl Pr u Hu. unfold ns, dom in Hu. rewrite map_app in Hu. apply in_app_or in Hu. destruct Hu as [Hu|Hu].
    - fold (dom (p_ns sl2)) in Hu. assert (Hu' : In u (dom (p_ns stl))) by (rewrite <- Dsl2; exact Hu).
      rewrite get_app_nokey_r by (intros C; apply (DsR u Hu'); apply (KR rr u Hrr C)).
      rewrite (PnL u Hu'). rewrite (Pl u Hu).
      symmetry. apply nget_app_nokey_r. intros C. apply (KD (pname (p_ns sl2) u)); [apply (pa_ns_keys sl2 Asl2 u Hu)|].
      apply in_map_iff in C. destruct C as [kv [E Hkv]]. rewrite <- E. apply (pa_rows_k sr3 Asr3 fr kv Hfr Hkv).
    - fold (dom (p_ns sr3)) in Hu. assert (Hu' : In u (dom (p_ns str0))) by (rewrite <- Dsr3; exact Hu).
      rewrite get_app_nokey_l by (intros C; apply (DsL u Hu'); apply (KL lr u Hlr C)).
      rewrite (PnR u Hu'). rewrite (Pr u Hu).
      symmetry. apply nget_app_nokey_l. intros C. apply (KD (pname (p_ns sr3) u)); [|apply (pa_ns_keys sr3 Asr3 u Hu)].
      apply in_map_iff in C. destruct C as [kv [E Hkv]]. rewrite <- E. apply (pa_rows_k sl2 Asl2 fl kv Hfl Hkv). }
  assert (PU : forall lr fl, In lr (rows sL) -> In fl (p_rows sl2) -> prel (p_ns sl2) lr fl -> prel ns lr fl).
  { intros lr fl Hlr Hfl Pl u Hu. unfold ns, dom in Hu. rewrite map_app in Hu. apply in_app_or in Hu. destruct Hu as [Hu|Hu].
    - fold (dom (p_ns sl2)) in Hu. assert (Hu' : In u (dom (p_ns stl))) by (rewrite <- Dsl2; exact Hu).
      rewrite (PnL u Hu'). apply (Pl u Hu).
    - fold (dom (p_ns sr3)) in Hu. assert (Hu' : In u (dom (p_ns str0))) by (rewrite <- Dsr3; exact Hu).
      rewrite get_nokey by (intros C; apply (DsL u Hu'); apply (KL lr u Hlr C)).
      rewrite (PnR u Hu'). symmetry. apply nget_nokey. intros C.
      apply (KD (pname (p_ns sr3) u)); [|apply (pa_ns_keys sr3 Asr3 u Hu)].
      apply in_map_iff in C. destruct C as [kv [E Hkv]]. rewrite <- E. apply (pa_rows_k sl2 Asl2 fl kv Hfl Hkv). }
  assert (DomNs : dom ns = dom (p_ns stl) ++ dom (p_ns str0)).
  { unfold ns, dom. rewrite map_app. fold (dom (p_ns sl2)) (dom (p_ns sr3)). rewrite Dsl2, Dsr3. reflexivity. }
  split.
  - constructor.
    + cbn [rows do_join p_rows pl_left_join]. fold M sr news1 sr1 news2 sl2 news3 sr3 ns. rewrite app_nil_r.
      apply (Forall2_flat_map (fun lr fl => prel (p_ns sl2) lr fl /\ In lr (rows sL) /\ In fl (p_rows sl2))).
      * pose proof (Forall2_with_In _ _ _ Rsl2) as H1.
        pose proof (Forall2_flip' _ _ _ (Forall2_with_In _ _ _ (Forall2_flip' _ _ _ Rsl2))) as H2.
        pose proof (Forall2_and _ _ _ _ H1 H2) as H3. eapply Forall2_impl'; [|exact H3]. intros lr fl [[A1 A2] [_ A3]]. auto.
      * intros lr fl [Pl [Hlr Hfl]]. unfold join_branch.
        assert (Hin : Forall2 (fun rr fr => prel (p_ns sr3) rr fr /\ In rr (rows sR) /\ In fr (p_rows sr3)) (rows sR) (p_rows sr3)).
        { pose proof (Forall2_with_In _ _ _ Rsr3) as H1.
          pose proof (Forall2_flip' _ _ _ (Forall2_with_In _ _ _ (Forall2_flip' _ _ _ Rsr3))) as H2.
          pose proof (Forall2_and _ _ _ _ H1 H2) as H3. eapply Forall2_impl'; [|exact H3]. intros rr fr [[A1 A2] [_ A3]]. auto. }
        assert (Hf : Forall2 (fun rr fr => prel (p_ns sr3) rr fr /\ In rr (rows sR) /\ In fr (p_rows sr3))
                             (filter (on_true on lr) (rows sR))
                             (filter (fun fr => value_eqb (eval [] (0, view ns (fl ++ fr)%list) on) (VBool true)) (p_rows sr3))).
        { apply Forall2_filter; [exact Hin|]. intros rr fr [Pr [Hrr Hfr]]. unfold on_true. f_equal.
          apply eval_rel; [constructor|]. split; [reflexivity|]. intros x Hx. cbn [snd].
          assert (Hd : In x (dom ns)) by (rewrite DomNs; apply Son; exact Hx).
          rewrite get_view by exact Hd. apply (PJ lr rr fl fr Hlr Hrr Hfl Hfr Pl Pr x Hd). }
        assert (G2 : Forall2 (prel ns) (map (fun rr => (lr ++ rr)%list) (filter (on_true on lr) (rows sR)))
                             (map (fun fr => (fl ++ fr)%list) (filter (fun fr => value_eqb (eval [] (0, view ns (fl ++ fr)%list) on) (VBool true)) (p_rows sr3)))).
        { apply Forall2_map_l. apply Forall2_map_r. eapply Forall2_impl'; [|exact Hf]. intros rr fr [Pr [Hrr Hfr]].
          apply (PJ lr rr fl fr Hlr Hrr Hfl Hfr Pl Pr). }
        destruct (filter (on_true on lr) (rows sR)) as [|rr0 rs0];
          destruct (filter (fun fr => value_eqb (eval [] (0, view ns (fl ++ fr)%list) on) (VBool true)) (p_rows sr3)) as [|fr0 fs0];
          [constructor; [apply (PU lr fl Hlr Hfl Pl)|constructor] | inversion Hf | inversion Hf | exact G2].
    + cbn [sel do_join p_ns p_select pl_left_join]. fold M sr news1 sr1 news2 sl2 news3 sr3 ns. rewrite map_app, Sl, Sr. f_equal.
      * apply map_ext_in. intros u Hu. f_equal. pose proof (pa_sel stl Al u Hu) as Hd. rewrite (PnL u Hd).
        unfold sl2. rewrite ro_pname by exact Hd. rewrite uname_ren_over. reflexivity.
      * apply map_ext_in. intros v Hv. f_equal. pose proof (pa_sel str0 Ar0 v Hv) as Hd. rewrite (PnR v Hd).
        unfold sr3. rewrite ro_pname by (rewrite Dsr1; exact Hd). rewrite uname_ren_over. symmetry. apply Nsr1. exact Hd.
    + reflexivity.
  - constructor; cbn [p_rows p_ns p_select p_part p_ctr p_keys pl_left_join]; fold M sr news1 sr1 news2 sl2 news3 sr3 ns.
    + intros u Hu. rewrite DomNs. apply in_or_app. apply in_app_or in Hu.
      destruct Hu as [Hu|Hu]; [left; apply (pa_sel stl Al u Hu)|right; apply (pa_sel str0 Ar0 u Hu)].
    + intros u Hu. destruct Hu.
    + intros un Hun. unfold ns in Hun. apply in_app_or in Hun. destruct Hun as [Hun|Hun].
      * apply (bounded_mono (p_ctr sl2)); [|apply (pa_ns_b sl2 Asl2 un Hun)]. rewrite Csl2.
        unfold sr3, sr1, sr. unfold rename_over, shift_names. cbn [p_ctr]. lia.
      * apply (pa_ns_b sr3 Asr3 un Hun).
    + intros k Hk. apply in_app_or in Hk. destruct Hk as [Hk|Hk].
      * apply (bounded_mono (p_ctr sl2)); [|apply (pa_keys_b sl2 Asl2 k Hk)]. rewrite Csl2.
        unfold sr3, sr1, sr. unfold rename_over, shift_names. cbn [p_ctr]. lia.
      * apply (pa_keys_b sr3 Asr3 k Hk).
    + intros f kv Hf Hkv. apply in_flat_map in Hf. destruct Hf as [fl [Hfl Hf]].
      match type of Hf with context [filter ?p ?L] => destruct (filter p L) as [|m ms] eqn:Ef end.
      * destruct Hf as [<-|[]]. apply in_or_app. left. apply (pa_rows_k sl2 Asl2 fl kv Hfl Hkv).
      * change (In f (map (fun fr : nrow => (fl ++ fr)%list) (m :: ms))) in Hf.
        apply in_map_iff in Hf. destruct Hf as [fr [<- Hfr]].
        assert (Hfr' : In fr (p_rows sr3)).
        { assert (Hin : In fr (m :: ms)) by exact Hfr. rewrite <- Ef in Hin. apply filter_In in Hin. tauto. }
        apply in_or_app. apply in_app_or in Hkv.
        destruct Hkv as [Hkv|Hkv]; [left; apply (pa_rows_k sl2 Asl2 fl kv Hfl Hkv)|right; apply (pa_rows_k sr3 Asr3 fr kv Hfr' Hkv)].
    + intros u Hu. rewrite DomNs in Hu. apply in_or_app. apply in_app_or in Hu. destruct Hu as [Hu|Hu].
      * left. rewrite (PnL u Hu). apply (pa_ns_keys sl2 Asl2). rewrite Dsl2. exact Hu.
      * right. rewrite (PnR u Hu). apply (pa_ns_keys sr3 Asr3). rewrite Dsr3. exact Hu.
    + intros u Hu. apply in_app_or in Hu. destruct Hu as [Hu|Hu].
      * rewrite (PnL u (pa_sel stl Al u Hu)). apply (pa_sel_user sl2 Asl2 u Hu).
      * rewrite (PnR u (pa_sel str0 Ar0 u Hu)). apply (pa_sel_user sr3 Asr3 u Hu).
Qed.

Lemma pfull_join_case sL sR stl str0 on (UL UR : list uid) :
  PInv sL stl -> PAux stl -> PInv sR str0 -> PAux str0 ->
  keys_in UL (rows sL) -> keys_in UR (rows sR) ->
  (forall x, In x (cols on) -> In x (dom (p_ns stl) ++ dom (p_ns str0))) ->
  (forall x, In x (dom (p_ns stl)) -> ~ In x (dom (p_ns str0))) ->
  (forall x, In x (dom (p_ns stl)) -> ~ In x UR) -> (forall x, In x (dom (p_ns str0)) -> ~ In x UL) ->
  (forall u v, In u (p_select stl) -> In v (p_select str0) -> uname (pname (p_ns stl) u) <> uname (pname (p_ns str0) v)) ->
  PInv (do_join sL sR on JFull) (pl_full_join stl str0 on) /\ PAux (pl_full_join stl str0 on).
Proof.
  intros [Rl Sl Gl] Al [Rr Sr Gr] Ar0 KL KR Son Dd DsR DsL Vis.
  set (M := p_ctr stl + List.length (p_select str0)).
  set (sr := shift_names M str0).
  set (news1 := map (fun u => uname (pname (p_ns stl) u)) (p_select stl)).
  set (sr1 := rename_over news1 (p_keys sr) sr).
  set (news2 := map (fun u => uname (pname (p_ns sr1) u)) (p_select sr1)).
  set (sl2 := rename_over news2 (p_keys stl) stl).
  set (news3 := user_names (p_keys sl2)).
  set (sr3 := rename_over news3 (p_keys sr1) sr1).
  (* the right frame through the shift and the two passes *)
  pose proof (sh_aux str0 M Ar0) as Asr. fold sr in Asr.
  pose proof (sh_rows str0 M Ar0 _ Rr) as Rsr. fold sr in Rsr.
  assert (Dsr : dom (p_ns sr) = dom (p_ns str0)) by (apply sh_dom).
  assert (Nsr : forall v, In v (dom (p_ns str0)) -> uname (pname (p_ns sr) v) = uname (pname (p_ns str0) v)).
  { intros v Hv. unfold sr. rewrite sh_pname by exact Hv. apply uname_shift. }
  assert (Asr1 : PAux sr1).
  { apply ro_aux; [exact Asr|]. intros v Hv. cbn [p_select sr shift_names] in Hv.
    destruct (mem_s _ news1) eqn:E; [|reflexivity]. exfalso. apply mem_s_In in E. unfold news1 in E.
    apply in_map_iff in E. destruct E as [u [E Hu]]. rewrite Nsr in E by (apply (pa_sel str0 Ar0); exact Hv).
    apply (Vis u v Hu Hv). exact E. }
  pose proof (ro_rows sr news1 (p_keys sr) Asr _ Rsr) as Rsr1. fold sr1 in Rsr1.
  assert (Dsr1 : dom (p_ns sr1) = dom (p_ns str0)) by (unfold sr1; rewrite ro_dom; exact Dsr).
  assert (Nsr1 : forall v, In v (dom (p_ns str0)) -> uname (pname (p_ns sr1) v) = uname (pname (p_ns str0) v)).
  { intros v Hv. unfold sr1. rewrite ro_pname by (rewrite Dsr; exact Hv). rewrite uname_ren_over. apply Nsr. exact Hv. }
  (* the left frame through pass 2 *)
  assert (Asl2 : PAux sl2).
  { apply ro_aux; [exact Al|]. intros u Hu.
    destruct (mem_s _ news2) eqn:E; [|reflexivity]. exfalso. apply mem_s_In in E. unfold news2 in E.
    apply in_map_iff in E. destruct E as [v [E Hv]]. cbn [p_select sr1 rename_over sr shift_names] in Hv.
    rewrite Nsr1 in E by (apply (pa_sel str0 Ar0); exact Hv). apply (Vis u v Hu Hv). symmetry. exact E. }
  pose proof (ro_rows stl news2 (p_keys stl) Al _ Rl) as Rsl2. fold sl2 in Rsl2.
  assert (Dsl2 : dom (p_ns sl2) = dom (p_ns stl)) by (unfold sl2; apply ro_dom).
  assert (Csl2 : p_ctr sl2 = M).
  { unfold sl2, rename_over. cbn [p_ctr]. unfold news2, M. rewrite map_length. reflexivity. }
  (* pass 3 *)
  assert (Asr3 : PAux sr3).
  { apply ro_aux; [exact Asr1|]. intros v Hv. cbn [p_select sr1 rename_over sr shift_names] in Hv.
    destruct (mem_s _ news3) eqn:E; [|reflexivity]. exfalso. unfold news3 in E. apply user_names_In in E.
    set (m := uname (pname (p_ns sr1) v)) in *.
    unfold sl2, rename_over in E. cbn [p_keys] in E. apply in_map_iff in E. destruct E as [k0 [E Hk0]].
    revert E. apply ren_over_not_user; [|auto|apply mem_d_In; exact Hk0].
    apply mem_s_In. unfold news2. apply in_map_iff. exists v. split; [reflexivity|exact Hv]. }
  pose proof (ro_rows sr1 news3 (p_keys sr1) Asr1 _ Rsr1) as Rsr3. fold sr3 in Rsr3.
  assert (Dsr3 : dom (p_ns sr3) = dom (p_ns str0)) by (unfold sr3; rewrite ro_dom; exact Dsr1).
  (* suffix numbers: left below M, right at or above M *)
  assert (LB3 : forall x, In x (p_keys sr3) -> lbounded M x).
  { apply ro_keys_lb.
    - unfold sr1, rename_over, sr, shift_names. cbn [p_ctr]. lia.
    - apply ro_keys_lb; [unfold sr, shift_names; cbn [p_ctr]; lia|]. intros x Hx. apply (sh_keys_lb str0 M x Hx). }
  assert (KD : forall k, In k (p_keys sl2) -> In k (p_keys sr3) -> False).
  { intros k Hl Hr. destruct k as [m|n c].
    - unfold sr3, rename_over in Hr. cbn [p_keys] in Hr. apply in_map_iff in Hr. destruct Hr as [k1 [E Hk1]].
      revert E. apply ren_over_not_user; [|auto|apply mem_d_In; exact Hk1].
      unfold news3. apply user_names_In. exact Hl.
    - pose proof (pa_keys_b sl2 Asl2 _ Hl) as B. rewrite Csl2 in B. pose proof (LB3 _ Hr) as L. simpl in B, L. lia. }
  set (ns := p_ns sl2 ++ p_ns sr3).
  assert (PnL : forall u, In u (dom (p_ns stl)) -> pname ns u = pname (p_ns sl2) u).
  { intros u Hu. apply pname_app_l. rewrite Dsl2. exact Hu. }
  assert (PnR : forall u, In u (dom (p_ns str0)) -> pname ns u = pname (p_ns sr3) u).
  { intros u Hu. apply pname_app_r. rewrite Dsl2. intros C. apply (Dd u C Hu). }
  (* a joined reference row and the joined frame row *)
  assert (PJ : forall lr rr fl fr, In lr (rows sL) -> In rr (rows sR) -> In fl (p_rows sl2) -> In fr (p_rows sr3) ->
                prel (p_ns sl2) lr fl -> prel (p_ns sr3) rr fr -> prel ns (lr ++ rr)%list (fl ++ fr)%list).
  { intros lr rr fl fr Hlr Hrr Hfl Hfr Pl Pr u Hu. unfold ns, dom in Hu. rewrite map_app in Hu. apply in_app_or in Hu. destruct Hu as [Hu|Hu].
    - fold (dom (p_ns sl2)) in Hu. assert (Hu' : In u (dom (p_ns stl))) by (rewrite <- Dsl2; exact Hu).
      rewrite get_app_nokey_r by (intros C; apply (DsR u Hu'); apply (KR rr u Hrr C)).
      rewrite (PnL u Hu'). rewrite (Pl u Hu).
      symmetry. apply nget_app_nokey_r. intros C. apply (KD (pname (p_ns sl2) u)); [apply (pa_ns_keys sl2 Asl2 u Hu)|].
      apply in_map_iff in C. destruct C as [kv [E Hkv]]. rewrite <- E. apply (pa_rows_k sr3 Asr3 fr kv Hfr Hkv).
    - fold (dom (p_ns sr3)) in Hu. assert (Hu' : In u (dom (p_ns str0))) by (rewrite <- Dsr3; exact Hu).
      rewrite get_app_nokey_l by (intros C; apply (DsL u Hu'); apply (KL lr u Hlr C)).
      rewrite (PnR u Hu'). rewrite (Pr u Hu).
      symmetry. apply nget_app_nokey_l. intros C. apply (KD (pname (p_ns sr3) u)); [|apply (pa_ns_keys sr3 Asr3 u Hu)].
      apply in_map_iff in C. destruct C as [kv [E Hkv]]. rewrite <- E. apply (pa_rows_k sl2 Asl2 fl kv Hfl Hkv). }
  assert (PU : forall lr fl, In lr (rows sL) -> In fl (p_rows sl2) -> prel (p_ns sl2) lr fl -> prel ns lr fl).
  { intros lr fl Hlr Hfl Pl u Hu. unfold ns, dom in Hu. rewrite map_app in Hu. apply in_app_or in Hu. destruct Hu as [Hu|Hu].
    - fold (dom (p_ns sl2)) in Hu. assert (Hu' : In u (dom (p_ns stl))) by (rewrite <- Dsl2; exact Hu).
      rewrite (PnL u Hu'). apply (Pl u Hu).
    - fold (dom (p_ns sr3)) in Hu. assert (Hu' : In u (dom (p_ns str0))) by (rewrite <- Dsr3; exact Hu).
      rewrite get_nokey by (intros C; apply (DsL u Hu'); apply (KL lr u Hlr C)).
      rewrite (PnR u Hu'). symmetry. apply nget_nokey. intros C.
      apply (KD (pname (p_ns sr3) u)); [|apply (pa_ns_keys sr3 Asr3 u Hu)].
      apply in_map_iff in C. destruct C as [kv [E Hkv]]. rewrite <- E. apply (pa_rows_k sl2 Asl2 fl kv Hfl Hkv). }
  assert (PUR : forall rr fr, In rr (rows sR) -> In fr (p_rows sr3) -> prel (p_ns sr3) rr fr -> prel ns rr fr).
  { intros rr fr Hrr Hfr Pr u Hu. unfold ns, dom in Hu. rewrite map_app in Hu. apply in_app_or in Hu. destruct Hu as [Hu|Hu].
    - fold (dom (p_ns sl2)) in Hu. assert (Hu' : In u (dom (p_ns stl))) by (rewrite <- Dsl2; exact Hu).
      rewrite get_nokey by (intros C; apply (DsR u Hu'); apply (KR rr u Hrr C)).
      rewrite (PnL u Hu'). symmetry. apply nget_nokey. intros C.
      apply (KD (pname (p_ns sl2) u)); [apply (pa_ns_keys sl2 Asl2 u Hu)|].
      apply in_map_iff in C. destruct C as [kv [E Hkv]]. rewrite <- E. apply (pa_rows_k sr3 Asr3 fr kv Hfr Hkv).
    - fold (dom (p_ns sr3)) in Hu. assert (Hu' : In u (dom (p_ns str0))) by (rewrite <- Dsr3; exact Hu).
      rewrite (PnR u Hu'). apply (Pr u Hu). }
  assert (DomNs : dom ns = dom (p_ns stl) ++ dom (p_ns str0)).
  { unfold ns, dom. rewrite map_app. fold (dom (p_ns sl2)) (dom (p_ns sr3)). rewrite Dsl2, Dsr3. reflexivity. }
  split.
  - constructor.
    + cbn [rows do_join p_rows pl_full_join]. fold M sr news1 sr1 news2 sl2 news3 sr3 ns.
      assert (HinL : Forall2 (fun lr fl => prel (p_ns sl2) lr fl /\ In lr (rows sL) /\ In fl (p_rows sl2)) (rows sL) (p_rows sl2)).
      { pose proof (Forall2_with_In _ _ _ Rsl2) as H1.
        pose proof (Forall2_flip' _ _ _ (Forall2_with_In _ _ _ (Forall2_flip' _ _ _ Rsl2))) as H2.
        pose proof (Forall2_and _ _ _ _ H1 H2) as H3. eapply Forall2_impl'; [|exact H3]. intros lr fl [[A1 A2] [_ A3]]. auto. }
      assert (HinR : Forall2 (fun rr fr => prel (p_ns sr3) rr fr /\ In rr (rows sR) /\ In fr (p_rows sr3)) (rows sR) (p_rows sr3)).
      { pose proof (Forall2_with_In _ _ _ Rsr3) as H1.
        pose proof (Forall2_flip' _ _ _ (Forall2_with_In _ _ _ (Forall2_flip' _ _ _ Rsr3))) as H2.
        pose proof (Forall2_and _ _ _ _ H1 H2) as H3. eapply Forall2_impl'; [|exact H3]. intros rr fr [[A1 A2] [_ A3]]. auto. }
      assert (OnEq : forall lr fl rr fr, prel (p_ns sl2) lr fl -> In lr (rows sL) -> In fl (p_rows sl2) ->
                       prel (p_ns sr3) rr fr -> In rr (rows sR) -> In fr (p_rows sr3) ->
                       on_true on lr rr = value_eqb (eval [] (0, view ns (fl ++ fr)%list) on) (VBool true)).
      { intros lr fl rr fr Pl Hlr Hfl Pr Hrr Hfr. unfold on_true. f_equal.
        apply eval_rel; [constructor|]. split; [reflexivity|]. intros x Hx. cbn [snd].
        assert (Hd : In x (dom ns)) by (rewrite DomNs; apply Son; exact Hx).
        rewrite get_view by exact Hd. apply (PJ lr rr fl fr Hlr Hrr Hfl Hfr Pl Pr x Hd). }
      apply Forall2_app.
      * apply (Forall2_flat_map (fun lr fl => prel (p_ns sl2) lr fl /\ In lr (rows sL) /\ In fl (p_rows sl2))); [exact HinL|].
        intros lr fl [Pl [Hlr Hfl]]. unfold join_branch.
        assert (Hf : Forall2 (fun rr fr => prel (p_ns sr3) rr fr /\ In rr (rows sR) /\ In fr (p_rows sr3))
                             (filter (on_true on lr) (rows sR))
                             (filter (fun fr => value_eqb (eval [] (0, view ns (fl ++ fr)%list) on) (VBool true)) (p_rows sr3))).
        { apply Forall2_filter; [exact HinR|]. intros rr fr [Pr [Hrr Hfr]]. apply (OnEq lr fl rr fr); assumption. }
        assert (G2 : Forall2 (prel ns) (map (fun rr => (lr ++ rr)%list) (filter (on_true on lr) (rows sR)))
                             (map (fun fr => (fl ++ fr)%list) (filter (fun fr => value_eqb (eval [] (0, view ns (fl ++ fr)%list) on) (VBool true)) (p_rows sr3)))).
        { apply Forall2_map_l. apply Forall2_map_r. eapply Forall2_impl'; [|exact Hf]. intros rr fr [Pr [Hrr Hfr]].
          apply (PJ lr rr fl fr Hlr Hrr Hfl Hfr Pl Pr). }
        destruct (filter (on_true on lr) (rows sR)) as [|rr0 rs0];
          destruct (filter (fun fr => value_eqb (eval [] (0, view ns (fl ++ fr)%list) on) (VBool true)) (p_rows sr3)) as [|fr0 fs0];
          [constructor; [apply (PU lr fl Hlr Hfl Pl)|constructor] | inversion Hf | inversion Hf | exact G2].
      * assert (Hf : Forall2 (fun rr fr => prel (p_ns sr3) rr fr /\ In rr (rows sR) /\ In fr (p_rows sr3))
                             (filter (fun rr => negb (existsb (fun lr => on_true on lr rr) (rows sL))) (rows sR))
                             (filter (fun fr => negb (existsb (fun fl => value_eqb (eval [] (0, view ns (fl ++ fr)%list) on) (VBool true)) (p_rows sl2))) (p_rows sr3))).
        { apply Forall2_filter; [exact HinR|]. intros rr fr [Pr [Hrr Hfr]]. f_equal.
          clear -HinL OnEq Pr Hrr Hfr. induction HinL as [|lr fl L L' [Pl [Hlr Hfl]] _ IH]; [reflexivity|].
          simpl. rewrite (OnEq lr fl rr fr Pl Hlr Hfl Pr Hrr Hfr), IH. reflexivity. }
        eapply Forall2_impl'; [|exact Hf]. intros rr fr [Pr [Hrr Hfr]]. apply (PUR rr fr Hrr Hfr Pr).
    + cbn [sel do_join p_ns p_select pl_full_join]. fold M sr news1 sr1 news2 sl2 news3 sr3 ns. rewrite map_app, Sl, Sr. f_equal.
      * apply map_ext_in. intros u Hu. f_equal. pose proof (pa_sel stl Al u Hu) as Hd. rewrite (PnL u Hd).
        unfold sl2. rewrite ro_pname by exact Hd. rewrite uname_ren_over. reflexivity.
      * apply map_ext_in. intros v Hv. f_equal. pose proof (pa_sel str0 Ar0 v Hv) as Hd. rewrite (PnR v Hd).
        unfold sr3. rewrite ro_pname by (rewrite Dsr1; exact Hd). rewrite uname_ren_over. symmetry. apply Nsr1. exact Hd.
    + reflexivity.
  - constructor; cbn [p_rows p_ns p_select p_part p_ctr p_keys pl_full_join]; fold M sr news1 sr1 news2 sl2 news3 sr3 ns.
    + intros u Hu. rewrite DomNs. apply in_or_app. apply in_app_or in Hu.
      destruct Hu as [Hu|Hu]; [left; apply (pa_sel stl Al u Hu)|right; apply (pa_sel str0 Ar0 u Hu)].
    + intros u Hu. destruct Hu.
    + intros un Hun. unfold ns in Hun. apply in_app_or in Hun. destruct Hun as [Hun|Hun].
      * apply (bounded_mono (p_ctr sl2)); [|apply (pa_ns_b sl2 Asl2 un Hun)]. rewrite Csl2.
        unfold sr3, sr1, sr. unfold rename_over, shift_names. cbn [p_ctr]. lia.
      * apply (pa_ns_b sr3 Asr3 un Hun).
    + intros k Hk. apply in_app_or in Hk. destruct Hk as [Hk|Hk].
      * apply (bounded_mono (p_ctr sl2)); [|apply (pa_keys_b sl2 Asl2 k Hk)]. rewrite Csl2.
        unfold sr3, sr1, sr. unfold rename_over, shift_names. cbn [p_ctr]. lia.
      * apply (pa_keys_b sr3 Asr3 k Hk).
    + intros f kv Hf Hkv. apply in_app_or in Hf. destruct Hf as [Hf|Hf].
      * apply in_flat_map in Hf. destruct Hf as [fl [Hfl Hf]].
        match type of Hf with context [filter ?p ?L] => destruct (filter p L) as [|m ms] eqn:Ef end.
        -- destruct Hf as [<-|[]]. apply in_or_app. left. apply (pa_rows_k sl2 Asl2 fl kv Hfl Hkv).
        -- change (In f (map (fun fr : nrow => (fl ++ fr)%list) (m :: ms))) in Hf.
           apply in_map_iff in Hf. destruct Hf as [fr [<- Hfr]].
           assert (Hfr' : In fr (p_rows sr3)).
           { assert (Hin : In fr (m :: ms)) by exact Hfr. rewrite <- Ef in Hin. apply filter_In in Hin. tauto. }
           apply in_or_app. apply in_app_or in Hkv.
           destruct Hkv as [Hkv|Hkv]; [left; apply (pa_rows_k sl2 Asl2 fl kv Hfl Hkv)|right; apply (pa_rows_k sr3 Asr3 fr kv Hfr' Hkv)].
      * apply filter_In in Hf. destruct Hf as [Hf _]. apply in_or_app. right. apply (pa_rows_k sr3 Asr3 f kv Hf Hkv).
    + intros u Hu. rewrite DomNs in Hu. apply in_or_app. apply in_app_or in Hu. destruct Hu as [Hu|Hu].
      * left. rewrite (PnL u Hu). apply (pa_ns_keys sl2 Asl2). rewrite Dsl2. exact Hu.
      * right. rewrite (PnR u Hu). apply (pa_ns_keys sr3 Asr3). rewrite Dsr3. exact Hu.
    + intros u Hu. apply in_app_or in Hu. destruct Hu as [Hu|Hu].
      * rewrite (PnL u (pa_sel stl Al u Hu)). apply (pa_sel_user sl2 Asl2 u Hu).
      * rewrite (PnR u (pa_sel str0 Ar0 u Hu)). apply (pa_sel_user sr3 Asr3 u Hu).
Qed.

(* ---------- alias() with new column identities ---------- *)
Definition pl_alias (m : list (uid * uid)) (st : pstate) : pstate :=
  {| p_rows := p_rows st;
     p_ns := map (fun un => (remap_uid m (fst un), snd un)) (p_ns st);
     p_select := map (remap_uid m) (p_select st); p_part := map (remap_uid m) (p_part st);
     p_ctr := p_ctr st; p_keys := p_keys st |}.

Lemma pname_remap (m : list (uid * uid)) (V : list uid) (ns : names) u :
  (forall a b, In a V -> In b V -> remap_uid m a = remap_uid m b -> a = b) ->
  (forall k, In k (dom ns) -> In k V) -> In u (dom ns) ->
  pname (map (fun un => (remap_uid m (fst un), snd un)) ns) (remap_uid m u) = pname ns u.
Proof.
  intros Inj HV Hu. unfold pname, dom in *. induction ns as [|[k n] ns IH]; [destruct Hu|]. simpl.
  destruct (N.eqb_spec u k) as [E|E].
  - subst. rewrite N.eqb_refl. reflexivity.
  - destruct (N.eqb_spec (remap_uid m u) (remap_uid m k)) as [E2|E2].
    + exfalso. apply E. apply Inj; [apply HV; right; destruct Hu as [Hu|Hu]; [simpl in Hu; congruence|exact Hu]|apply HV; left; reflexivity|exact E2].
    + destruct Hu as [Hu|Hu]; [simpl in Hu; congruence|]. apply IH; [|exact Hu]. intros k0 Hk0. apply HV. right. exact Hk0.
Qed.

Lemma palias_case s st m (U : list uid) :
  PInv s st -> PAux st -> keys_in U (rows s) ->
  (forall a b, In a (U ++ dom (p_ns st)) -> In b (U ++ dom (p_ns st)) -> remap_uid m a = remap_uid m b -> a = b) ->
  PInv (do_alias s (Some m)) (pl_alias m st) /\ PAux (pl_alias m st).
Proof.
  intros [R S G] A KU Inj. set (V := U ++ dom (p_ns st)) in *.
  assert (VU : forall x, In x U -> In x V) by (intros x Hx; unfold V; apply in_or_app; left; exact Hx).
  assert (VD : forall x, In x (dom (p_ns st)) -> In x V) by (intros x Hx; unfold V; apply in_or_app; right; exact Hx).
  assert (Dn : dom (p_ns (pl_alias m st)) = map (remap_uid m) (dom (p_ns st))).
  { unfold pl_alias, dom. cbn [p_ns]. rewrite !map_map. reflexivity. }
  assert (Pn : forall u, In u (dom (p_ns st)) -> pname (p_ns (pl_alias m st)) (remap_uid m u) = pname (p_ns st) u).
  { intros u Hu. unfold pl_alias. cbn [p_ns]. apply (pname_remap m V (p_ns st) u Inj VD Hu). }
  split.
  - constructor; cbn [rows sel group do_alias].
    + cbn [p_rows pl_alias]. apply Forall2_map_l.
      pose proof (Forall2_with_In _ _ _ R) as R'. eapply Forall2_impl'; [|exact R'].
      intros r f [Hrf Hr] u' Hu'. rewrite Dn in Hu'. apply in_map_iff in Hu'. destruct Hu' as [u [<- Hu]].
      rewrite (Pn u Hu). rewrite (get_remap_row m V Inj r u); [apply (Hrf u Hu)| |apply VD; exact Hu].
      intros k Hk. apply VU. apply (KU r k Hr Hk).
    + rewrite S. cbn [p_select pl_alias]. rewrite !map_map. cbn [fst snd]. apply map_ext_in. intros u Hu.
      rewrite (Pn u (pa_sel st A u Hu)). reflexivity.
    + rewrite G. reflexivity.
  - destruct A as [A1 A2 A3 A4 A5 A6 A7]. constructor.
    + intros u' Hu'. cbn [p_select pl_alias] in Hu'. apply in_map_iff in Hu'. destruct Hu' as [u [<- Hu]].
      rewrite Dn. apply in_map. apply A1. exact Hu.
    + intros u' Hu'. cbn [p_part pl_alias] in Hu'. apply in_map_iff in Hu'. destruct Hu' as [u [<- Hu]].
      rewrite Dn. apply in_map. apply A2. exact Hu.
    + intros un Hun. cbn [p_ns pl_alias] in Hun. apply in_map_iff in Hun. destruct Hun as [un0 [<- Hun0]]. cbn [snd p_ctr pl_alias].
      apply (A3 un0 Hun0).
    + exact A4.
    + exact A5.
    + intros u' Hu'. rewrite Dn in Hu'. apply in_map_iff in Hu'. destruct Hu' as [u [<- Hu]]. rewrite (Pn u Hu). apply (A6 u Hu).
    + intros u' Hu'. cbn [p_select pl_alias] in Hu'. apply in_map_iff in Hu'. destruct Hu' as [u [<- Hu]].
      rewrite (Pn u (A1 u Hu)). apply (A7 u Hu).
Qed.

Theorem pl_compile_invariant d : forall a st,
  pl_compile d a = Some st -> pflat_ok d a = true -> PInv (sem_ref d a) st /\ PAux st.
Proof.
  induction a as [t cols|a IH us|a IH m|a IH defs|a IH ps|a IH os|a IH n k|a IH us add|a IH|a IH defs|a IH m|a IH|l IHl r IHr on how|l IHl r IHr dis];
    intros st C F.
  - apply psource_case; assumption.
  - simpl in C, F. destruct (pl_compile d a) as [st0|] eqn:E; [|discriminate C]. inversion C; subst; clear C.
    apply andb_prop in F. destruct F as [Fa Fs]. destruct (IH st0 eq_refl Fa) as [I A].
    cbn [sem_ref]. apply pselect_case; assumption.
  - simpl in C, F. destruct (pl_compile d a) as [st0|] eqn:E; [|discriminate C]. inversion C; subst; clear C.
    apply andb_prop in F. destruct F as [Fa F2]. apply andb_prop in F2. destruct F2 as [F2 F3].
    destruct (IH st0 eq_refl Fa) as [I A]. cbn [sem_ref]. exact (prename_case _ _ m I A F2 F3).
  - simpl in C, F. destruct (pl_compile d a) as [st0|] eqn:E; [|discriminate C]. inversion C; subst; clear C.
    apply andb_prop in F. destruct F as [Fa F3].
    apply andb_prop in F3. destruct F3 as [Ffr Fsc]. destruct (IH st0 eq_refl Fa) as [I A].
    cbn [sem_ref]. apply pmutate_case; assumption.
  - simpl in C, F. destruct (pl_compile d a) as [st0|] eqn:E; [|discriminate C]. inversion C; subst; clear C.
    apply andb_prop in F. destruct F as [Fa Fsc].
    destruct (IH st0 eq_refl Fa) as [I A]. cbn [sem_ref]. apply pfilter_case; assumption.
  - simpl in C, F. destruct (pl_compile d a) as [st0|] eqn:E; [|discriminate C]. inversion C; subst; clear C.
    apply andb_prop in F. destruct F as [Fa Fsc].
    destruct (IH st0 eq_refl Fa) as [I A]. cbn [sem_ref]. apply parrange_case; assumption.
  - simpl in C, F. destruct (pl_compile d a) as [st0|] eqn:E; [|discriminate C]. inversion C; subst; clear C.
    destruct (IH st0 eq_refl F) as [I A]. cbn [sem_ref]. apply pslice_case; assumption.
  - simpl in C, F. destruct (pl_compile d a) as [st0|] eqn:E; [|discriminate C]. inversion C; subst; clear C.
    apply andb_prop in F. destruct F as [Fa Fs]. destruct (IH st0 eq_refl Fa) as [I A]. cbn [sem_ref].
    pose proof (forallb_mem_incl _ _ Fs) as Hus. rewrite (pi_group _ _ I).
    apply ppart_case; [assumption|assumption|].
    intros x Hx. destruct add.
    + apply in_app_or in Hx. destruct Hx as [Hx|Hx]; [apply (pa_part st0 A); exact Hx|].
      apply (pa_sel st0 A). apply Hus. exact Hx.
    + apply (pa_sel st0 A). apply Hus. exact Hx.
  - simpl in C, F. destruct (pl_compile d a) as [st0|] eqn:E; [|discriminate C]. inversion C; subst; clear C.
    destruct (IH st0 eq_refl F) as [I A]. cbn [sem_ref]. apply ppart_case; [assumption|assumption|]. intros x Hx. destruct Hx.
  - simpl in C, F. destruct (pl_compile d a) as [st0|] eqn:E; [|discriminate C]. inversion C; subst; clear C.
    apply andb_prop in F. destruct F as [Fa F3].
    apply andb_prop in F3. destruct F3 as [F3 G3]. apply andb_prop in F3. destruct F3 as [F3 G2]. apply andb_prop in F3. destruct F3 as [G0 G1].
    destruct (IH st0 eq_refl Fa) as [I A]. cbn [sem_ref]. apply psummarize_case; assumption.
  - destruct m as [m|]; [|simpl in C, F; cbn [sem_ref do_alias]; apply IH; assumption].
    cbn [pl_compile] in C. cbn [pflat_ok] in F. destruct (pl_compile d a) as [st0|] eqn:E; [|discriminate C]. inversion C; subst; clear C.
    apply andb_prop in F. destruct F as [Fa Finj]. destruct (IH st0 eq_refl Fa) as [I A].
    cbn [sem_ref]. fold (pl_alias m st0). apply (palias_case _ st0 m (ast_uids a)); try assumption.
    + apply (rk_rows _ _ (ref_keys d a)).
    + intros x y Hx Hy Exy. cbv zeta in Finj. rewrite forallb_forall in Finj. specialize (Finj x Hx).
      rewrite forallb_forall in Finj. specialize (Finj y Hy). rewrite Exy, N.eqb_refl in Finj. simpl in Finj.
      apply N.eqb_eq. exact Finj.
  - simpl in C. discriminate C.
  - cbn [pl_compile] in C. cbn [pflat_ok] in F. destruct how; try discriminate C.
    + destruct (pl_compile d l) as [stl|] eqn:El; [|discriminate C]. destruct (pl_compile d r) as [str|] eqn:Er; [|discriminate C].
      inversion C; subst; clear C.
      apply andb_prop in F. destruct F as [F F3]. apply andb_prop in F. destruct F as [Fl Fr].
      apply andb_prop in F3. destruct F3 as [F3 Fvis]. apply andb_prop in F3. destruct F3 as [F3 FdL].
      apply andb_prop in F3. destruct F3 as [F3 FdR]. apply andb_prop in F3. destruct F3 as [Fon Fdd].
      destruct (IHl stl eq_refl Fl) as [Il Al]. destruct (IHr str eq_refl Fr) as [Ir Ar].
      cbn [sem_ref]. apply (pjoin_case _ _ stl str on (ast_uids l) (ast_uids r)); try assumption.
      * apply (rk_rows _ _ (ref_keys d l)).
      * apply (rk_rows _ _ (ref_keys d r)).
      * apply forallb_mem_incl. exact Fon.
      * apply disjointb_spec. exact Fdd.
      * apply disjointb_spec. exact FdR.
      * apply disjointb_spec. exact FdL.
      * intros u v Hu Hv E. rewrite forallb_forall in Fvis. specialize (Fvis u Hu). apply negb_true_iff in Fvis.
        assert (C : mem_s (uname (pname (p_ns stl) u)) (map (fun x => uname (pname (p_ns str) x)) (p_select str)) = true).
        { apply mem_s_In. rewrite E. apply (in_map (fun x => uname (pname (p_ns str) x))). exact Hv. }
        rewrite C in Fvis. discriminate Fvis.
    + destruct (pl_compile d l) as [stl|] eqn:El; [|discriminate C]. destruct (pl_compile d r) as [str|] eqn:Er; [|discriminate C].
      inversion C; subst; clear C.
      apply andb_prop in F. destruct F as [F F3]. apply andb_prop in F. destruct F as [Fl Fr].
      apply andb_prop in F3. destruct F3 as [F3 Fvis]. apply andb_prop in F3. destruct F3 as [F3 FdL].
      apply andb_prop in F3. destruct F3 as [F3 FdR]. apply andb_prop in F3. destruct F3 as [Fon Fdd].
      destruct (IHl stl eq_refl Fl) as [Il Al]. destruct (IHr str eq_refl Fr) as [Ir Ar].
      cbn [sem_ref]. apply (pleft_join_case _ _ stl str on (ast_uids l) (ast_uids r)); try assumption.
      * apply (rk_rows _ _ (ref_keys d l)).
      * apply (rk_rows _ _ (ref_keys d r)).
      * apply forallb_mem_incl. exact Fon.
      * apply disjointb_spec. exact Fdd.
      * apply disjointb_spec. exact FdR.
      * apply disjointb_spec. exact FdL.
      * intros u v Hu Hv E. rewrite forallb_forall in Fvis. specialize (Fvis u Hu). apply negb_true_iff in Fvis.
        assert (C : mem_s (uname (pname (p_ns stl) u)) (map (fun x => uname (pname (p_ns str) x)) (p_select str)) = true).
        { apply mem_s_In. rewrite E. apply (in_map (fun x => uname (pname (p_ns str) x))). exact Hv. }
        rewrite C in Fvis. discriminate Fvis.
    + destruct (pl_compile d l) as [stl|] eqn:El; [|discriminate C]. destruct (pl_compile d r) as [str|] eqn:Er; [|discriminate C].
      inversion C; subst; clear C.
      apply andb_prop in F. destruct F as [F F3]. apply andb_prop in F. destruct F as [Fl Fr].
      apply andb_prop in F3. destruct F3 as [F3 Fvis]. apply andb_prop in F3. destruct F3 as [F3 FdL].
      apply andb_prop in F3. destruct F3 as [F3 FdR]. apply andb_prop in F3. destruct F3 as [Fon Fdd].
      destruct (IHl stl eq_refl Fl) as [Il Al]. destruct (IHr str eq_refl Fr) as [Ir Ar].
      cbn [sem_ref]. apply (pfull_join_case _ _ stl str on (ast_uids l) (ast_uids r)); try assumption.
      * apply (rk_rows _ _ (ref_keys d l)).
      * apply (rk_rows _ _ (ref_keys d r)).
      * apply forallb_mem_incl. exact Fon.
      * apply disjointb_spec. exact Fdd.
      * apply disjointb_spec. exact FdR.
      * apply disjointb_spec. exact FdL.
      * intros u v Hu Hv E. rewrite forallb_forall in Fvis. specialize (Fvis u Hu). apply negb_true_iff in Fvis.
        assert (C : mem_s (uname (pname (p_ns stl) u)) (map (fun x => uname (pname (p_ns str) x)) (p_select str)) = true).
        { apply mem_s_In. rewrite E. apply (in_map (fun x => uname (pname (p_ns str) x))). exact Hv. }
        rewrite C in Fvis. discriminate Fvis.
  - cbn [pl_compile] in C. cbn [pflat_ok] in F.
    destruct (pl_compile d l) as [stl|] eqn:El; [|discriminate C]. destruct (pl_compile d r) as [str|] eqn:Er; [|discriminate C].
    inversion C; subst; clear C.
    apply andb_prop in F. destruct F as [F Fn]. apply andb_prop in F. destruct F as [Fl Fr].
    apply andb_prop in Fn. destruct Fn as [_ Fn].
    destruct (IHl stl eq_refl Fl) as [Il Al]. destruct (IHr str eq_refl Fr) as [Ir Ar].
    cbn [sem_ref]. apply punion_case; try assumption.
    intros u Hu. rewrite forallb_forall in Fn. specialize (Fn u Hu). unfold mem_s in Fn.
    apply existsb_exists in Fn. destruct Fn as [n [Hn E]]. apply String.eqb_eq in E. subst n. exact Hn.
Qed.

(* POLARS COMPILE CORRECTNESS: the frame exported by the transcription of the Polars compile_ast is the
   table of the reference semantics, for all data *)
Theorem pl_compile_correct_proof : forall d a st,
  pl_compile d a = Some st -> pflat_ok d a = true -> pl_export st = export_ref (sem_ref d a).
Proof.
  intros d a st C F. destruct (pl_compile_invariant d a st C F) as [I A]. symmetry. apply pinv_frame; assumption.
Qed.

(* C01 for the common fragment: both backends return the same table *)
Theorem backends_agree_proof : forall d a c st,
  compile a = Some c -> flat_ok a = true -> pl_compile d a = Some st -> pflat_ok d a = true ->
  sem_query d c = pl_export st.
Proof.
  intros d a c st C F PC PF. rewrite (sql_compile_correct_proof d a c C F).
  symmetry. apply (pl_compile_correct_proof d a st PC PF).
Qed.
