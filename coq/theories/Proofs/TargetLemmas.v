(* Proofs/TargetLemmas.v — C20: the export targets are faithful encodings of one frame. *)
From Coq Require Import List String Bool Arith Lia.
From PDT Require Import Model.Value Model.Targets Model.TargetCheck.
Import ListNotations.

Section P.
Variable A : Type.
Notation frame := (frame A).
Notation pyrow := (pyrow A).

Definition uniform (h : nat) (f : frame) : Prop := Forall (fun nc => List.length (snd nc) = h) f.

(* ---------- python dicts ---------- *)
Lemma dict_set_fresh {V} (d : list (string * V)) k v :
  ~ In k (map fst d) -> dict_set d k v = d ++ [(k, v)].
Proof.
  induction d as [|[k' v'] d IH]; intros Hn; [reflexivity|].
  simpl in *. destruct (String.eqb_spec k' k) as [E|E].
  - exfalso. apply Hn. left. exact E.
  - rewrite IH; [reflexivity|]. intros C. apply Hn. right. exact C.
Qed.

Lemma pydict_acc {V} (l d : list (string * V)) :
  NoDup (map fst (d ++ l)) ->
  fold_left (fun d kv => dict_set d (fst kv) (snd kv)) l d = d ++ l.
Proof.
  revert d. induction l as [|[k v] l IH]; intros d H; simpl.
  - rewrite app_nil_r. reflexivity.
  - rewrite dict_set_fresh.
    + rewrite IH; rewrite <- app_assoc; simpl; [reflexivity|exact H].
    + rewrite map_app in H. simpl in H. apply NoDup_remove_2 in H.
      intros C. apply H. apply in_or_app. left. exact C.
Qed.

Lemma pydict_nodup {V} (l : list (string * V)) : NoDup (map fst l) -> pydict l = l.
Proof. intros H. unfold pydict. apply (pydict_acc l []). exact H. Qed.

Lemma assoc_in_nodup {V} (d : list (string * V)) k v :
  NoDup (map fst d) -> In (k, v) d -> assoc k d = Some v.
Proof.
  induction d as [|[k' v'] d IH]; intros Hnd Hin; [contradiction|].
  simpl in *. inversion Hnd as [|? ? Hni Hnd']; subst.
  destruct Hin as [E|Hin].
  - inversion E; subst. rewrite String.eqb_refl. reflexivity.
  - destruct (String.eqb_spec k' k) as [E|E].
    + subst. exfalso. apply Hni. apply (in_map fst) in Hin. exact Hin.
    + apply IH; assumption.
Qed.

(* ---------- rows ---------- *)
Lemma names_tails (f : frame) : names (tails f) = names f.
Proof. unfold names, tails. rewrite map_map. reflexivity. Qed.

Lemma heads_spec h (f : frame) : uniform (S h) f ->
  exists r, heads f = Some r /\ map fst r = names f /\ uniform h (tails f)
    /\ forall n c, In (n, c) f -> exists v c', c = v :: c' /\ In (n, v) r /\ In (n, c') (tails f).
Proof.
  induction f as [|[n c] f IH]; intros U.
  - exists []. repeat split; try constructor. intros n c [].
  - inversion U as [|? ? Hc U']; subst. destruct (IH U') as [r [Hr [Hn [Ut Hin]]]].
    simpl in Hc. destruct c as [|v c']; [discriminate|].
    exists ((n, v) :: r). simpl. rewrite Hr. repeat split.
    + simpl. f_equal. exact Hn.
    + constructor; [simpl in *; lia|exact Ut].
    + intros n0 c0 [E|H0].
      * inversion E; subst. exists v, c'. repeat split; left; reflexivity.
      * destruct (Hin n0 c0 H0) as [v0 [c0' [E1 [E2 E3]]]].
        exists v0, c0'. repeat split; [exact E1|right; exact E2|right; exact E3].
Qed.

Lemma rows_n_length h : forall f : frame, uniform h f -> List.length (rows_n h f) = h.
Proof.
  induction h as [|h IH]; intros f U; [reflexivity|].
  destruct (heads_spec h f U) as [r [Hr [_ [Ut _]]]]. simpl. rewrite Hr. simpl. f_equal. apply IH. exact Ut.
Qed.

Lemma rows_n_names h : forall f : frame, uniform h f ->
  forall r, In r (rows_n h f) -> map fst r = names f.
Proof.
  induction h as [|h IH]; intros f U r Hin; [contradiction|].
  destruct (heads_spec h f U) as [r0 [Hr [Hn [Ut _]]]]. simpl in Hin. rewrite Hr in Hin.
  destruct Hin as [E|Hin]; [subst; exact Hn|].
  rewrite <- (names_tails f). apply (IH _ Ut). exact Hin.
Qed.

Lemma map_pydict_rows h (f : frame) : uniform h f -> NoDup (names f) ->
  map (@pydict A) (rows_n h f) = rows_n h f.
Proof.
  intros U Hnd. rewrite <- (map_id (rows_n h f)) at 2. apply map_ext_in.
  intros r Hin. apply pydict_nodup. rewrite (rows_n_names h f U r Hin). exact Hnd.
Qed.

Lemma col_of_rows h : forall f : frame, uniform h f -> NoDup (names f) ->
  forall n c, In (n, c) f -> col_of n (rows_n h f) = c.
Proof.
  induction h as [|h IH]; intros f U Hnd n c Hin.
  - simpl. unfold uniform in U. rewrite Forall_forall in U. specialize (U _ Hin). simpl in U.
    destruct c; [reflexivity|discriminate].
  - destruct (heads_spec h f U) as [r [Hr [Hn [Ut Hall]]]].
    destruct (Hall n c Hin) as [v [c' [Ec [Hv Hc']]]].
    simpl. rewrite Hr. unfold col_of. simpl.
    rewrite (assoc_in_nodup r n v); [|rewrite Hn; exact Hnd|exact Hv].
    simpl. subst c. f_equal.
    apply (IH (tails f) Ut); [rewrite names_tails; exact Hnd|exact Hc'].
Qed.

Lemma map_names_id (g : string -> list A) (f : frame) :
  (forall n c, In (n, c) f -> g n = c) -> map (fun n => (n, g n)) (names f) = f.
Proof.
  induction f as [|[n c] f IH]; intros H; [reflexivity|].
  simpl. rewrite (H n c) by (left; reflexivity). f_equal. apply IH. intros n0 c0 H0. apply H. right. exact H0.
Qed.

Lemma wf_uniform (f : frame) : wf f -> uniform (height f) f /\ NoDup (names f).
Proof. intros [H1 H2]. split; assumption. Qed.

(* ---------- the statements ---------- *)
Theorem dol_is_the_frame_proof (f : frame) : wf f -> enc_dol f = f.
Proof. intros [Hnd _]. unfold enc_dol. apply pydict_nodup. exact Hnd. Qed.

Theorem lod_roundtrip_proof (f : frame) : wf f -> frame_of_rows (names f) (enc_lod f) = f.
Proof.
  intros W. destruct (wf_uniform f W) as [U Hnd]. unfold enc_lod, frame_of_rows.
  rewrite (map_pydict_rows _ f U Hnd). apply map_names_id. apply col_of_rows; assumption.
Qed.

Theorem lod_height_proof (f : frame) : wf f -> List.length (enc_lod f) = height f.
Proof.
  intros W. destruct (wf_uniform f W) as [U _]. unfold enc_lod. rewrite map_length. apply rows_n_length. exact U.
Qed.

Theorem lod_names_proof (f : frame) : wf f -> forall r, In r (enc_lod f) -> map fst r = names f.
Proof.
  intros W r Hin. destruct (wf_uniform f W) as [U Hnd]. unfold enc_lod in Hin.
  rewrite (map_pydict_rows _ f U Hnd) in Hin. apply (rows_n_names _ f U). exact Hin.
Qed.

Theorem dict_iff_one_row_proof (f : frame) : wf f ->
  (height f = 1 <-> exists r, enc_dict f = Some r).
Proof.
  intros W. pose proof (lod_height_proof f W) as L. unfold enc_dict. split.
  - intros H. rewrite H in L. destruct (enc_lod f) as [|r [|r' l]]; try discriminate. exists r. reflexivity.
  - intros [r H]. destruct (enc_lod f) as [|r0 [|r' l]]; try discriminate. simpl in L. symmetry. exact L.
Qed.

Theorem dict_is_the_row_proof (f : frame) r : wf f -> enc_dict f = Some r ->
  enc_lod f = [r] /\ frame_of_rows (names f) [r] = f.
Proof.
  intros W H. pose proof (lod_roundtrip_proof f W) as R. unfold enc_dict in H.
  destruct (enc_lod f) as [|r0 [|r' l]]; try discriminate. inversion H; subst. split; [reflexivity|exact R].
Qed.

Theorem scalar_is_the_cell_proof (f : frame) v :
  enc_scalar f = Some v -> exists n, f = [(n, [v])] /\ enc_dict f = Some [(n, v)].
Proof.
  unfold enc_scalar. intros H.
  destruct f as [|[n c] f]; [discriminate H|].
  destruct c as [|v0 c]; [discriminate H|].
  destruct c as [|v1 c]; [|discriminate H].
  destruct f as [|x f]; [|discriminate H].
  inversion H; subst. exists n. split; reflexivity.
Qed.

Theorem scalar_iff_single_cell_proof (f : frame) : wf f ->
  ((exists n, names f = [n]) /\ height f = 1 <-> exists v, enc_scalar f = Some v).
Proof.
  intros [_ U]. split.
  - intros [[n Hn] Hh]. destruct f as [|[n0 c] [|x f]]; try discriminate.
    simpl in Hh. destruct c as [|v [|v' c]]; try discriminate. exists v. reflexivity.
  - intros [v H]. destruct (scalar_is_the_cell_proof f v H) as [n [E _]]. subst. split; [exists n|]; reflexivity.
Qed.
End P.

Lemma nodupb_sound l : nodupb l = true -> NoDup l.
Proof.
  induction l as [|x l IH]; intros H; [constructor|].
  simpl in H. apply andb_prop in H. destruct H as [H1 H2]. constructor; [|apply IH; exact H2].
  intros C. apply negb_true_iff in H1.
  assert (E : existsb (String.eqb x) l = true).
  { apply existsb_exists. exists x. split; [exact C|apply String.eqb_refl]. }
  rewrite E in H1. discriminate H1.
Qed.

Lemma wf_b_sound (f : Targets.frame value) : wf_b f = true -> wf f.
Proof.
  unfold wf_b, wf. intros H. apply andb_prop in H. destruct H as [H1 H2]. split.
  - apply nodupb_sound. exact H1.
  - apply Forall_forall. intros nc Hin. rewrite forallb_forall in H2. apply Nat.eqb_eq. apply H2. exact Hin.
Qed.
