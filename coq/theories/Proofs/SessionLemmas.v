(* Proofs/SessionLemmas.v — C10: history independence in the session model. *)
From Coq Require Import List NArith Bool Arith.
From PDT Require Import Model.Value Model.Expr Model.RefSem Model.Session.
Import ListNotations.

Lemma lookup_cons_other n k a s : bound n s = true -> bound k s = false -> lookup n ((k, a) :: s) = lookup n s.
Proof.
  intros Hn Hk. simpl. destruct (Nat.eqb_spec k n) as [E|E]; [|reflexivity].
  subst. rewrite Hn in Hk. discriminate Hk.
Qed.

Lemma bound_cons n k a s : bound n s = true -> bound n ((k, a) :: s) = true.
Proof. unfold bound. simpl. intros H. destruct (Nat.eqb k n); [reflexivity|exact H]. Qed.

(* a table that exists keeps its tree whatever the session does afterwards *)
Lemma store_is_append_only : forall acts s n a,
  fresh_binds s acts = true -> lookup n s = Some a -> lookup n (final_store s acts) = Some a.
Proof.
  induction acts as [|act acts IH]; intros s n a F L; [exact L|].
  destruct act as [k b|k|k]; simpl in *; try (apply IH; assumption).
  apply andb_prop in F. destruct F as [Fk F]. apply negb_true_iff in Fk.
  apply IH; [exact F|].
  rewrite lookup_cons_other; [exact L| |exact Fk]. unfold bound. rewrite L. reflexivity.
Qed.

(* every export of table n in ANY well-formed continuation returns the value of the tree that n was
   bound to - independent of the verbs, exports and query builds that happened in between *)
Theorem export_is_history_independent_proof : forall d acts s n a o,
  fresh_binds s acts = true -> lookup n s = Some a ->
  In (n, o) (run d s acts) -> o = Some (result d a).
Proof.
  intros d. induction acts as [|act acts IH]; intros s n a o F L Hin; [contradiction|].
  destruct act as [k b|k|k]; simpl in *.
  - apply andb_prop in F. destruct F as [Fk F]. apply negb_true_iff in Fk.
    apply (IH ((k, b) :: s) n a o F); [|exact Hin].
    rewrite lookup_cons_other; [exact L| |exact Fk]. unfold bound. rewrite L. reflexivity.
  - destruct Hin as [E|Hin].
    + inversion E; subst. rewrite L. reflexivity.
    + apply (IH s n a o F L Hin).
  - apply (IH s n a o F L Hin).
Qed.

(* two sessions that share a prefix in which n was created agree on every export of n *)
Corollary same_table_same_result_proof : forall d s n a acts1 acts2 o1 o2,
  lookup n s = Some a -> fresh_binds s acts1 = true -> fresh_binds s acts2 = true ->
  In (n, o1) (run d s acts1) -> In (n, o2) (run d s acts2) -> o1 = o2.
Proof.
  intros d s n a acts1 acts2 o1 o2 L F1 F2 H1 H2.
  rewrite (export_is_history_independent_proof d acts1 s n a o1 F1 L H1).
  rewrite (export_is_history_independent_proof d acts2 s n a o2 F2 L H2). reflexivity.
Qed.
