(* Proofs/AcceptLemmas.v — C08, sufficiency of the catalogue on the flat fragment: a pipeline that the
   verb front end accepts (no verb demands a subquery) satisfies the LIMIT side conditions of
   Model/SqlCompile.flat_ok, hence is compiled correctly (Proofs/SqlCompileLemmas). *)
From Coq Require Import List String NArith ZArith Bool Lia.
From PDT Require Import Model.Dtype Model.Conv Model.Signature Model.Resolve Model.Value Model.Ops
     Model.Expr Model.RefSem Model.Typing Model.Cache Model.SqlCompile Model.Accept
     Proofs.SqlCompileLemmas.
Import ListNotations.
Open Scope list_scope.

Lemma tbind_ok {A B} (r : tres A) (f : A -> tres B) b :
  tbind r f = TOk b -> exists a, r = TOk a /\ f a = TOk b.
Proof. destruct r as [a|e]; simpl; [intros H; exists a; auto | discriminate]. Qed.

(* the link between the two transcriptions: the metadata's limit is 0 only if the query under
   construction has no LIMIT *)
Lemma limit_link sch a : forall cc c,
  shape_ok a = true -> cache_of_ast sch a = TOk cc -> compile a = Some c ->
  limit cc = 0%Z -> q_limit (c_q c) = None.
Proof.
  induction a as [t cs|a IH us|a IH m|a IH defs|a IH ps|a IH os|a IH n k|a IH us add|a IH|a IH defs|a IH m|a IH|l IHl r IHr on how|l IHl r IHr dis];
    intros cc c Hs Hc Hq Hl; cbn [shape_ok] in Hs; cbn [cache_of_ast] in Hc; cbn [compile] in Hq;
    try discriminate.
  - inversion Hq; subst. reflexivity.
  - apply andb_prop in Hs as [Hs _].
    apply tbind_ok in Hc as (c0 & Hc0 & Hc). inversion Hc; subst cc.
    destruct (compile a) as [c1|] eqn:E; [|discriminate]. inversion Hq; subst c.
    cbn. apply (IH c0 c1 Hs Hc0 eq_refl). exact Hl.
  - apply tbind_ok in Hc as (c0 & Hc0 & Hc). inversion Hc; subst cc.
    destruct (compile a) as [c1|] eqn:E; [|discriminate]. inversion Hq; subst c.
    cbn. apply (IH c0 c1 Hs Hc0 eq_refl). exact Hl.
  - apply andb_prop in Hs as [Hs _].
    apply tbind_ok in Hc as (c0 & Hc0 & Hc). unfold upd_mutate in Hc.
    apply tbind_ok in Hc as (nc & _ & Hc). inversion Hc; subst cc.
    destruct (compile a) as [c1|] eqn:E; [|discriminate]. inversion Hq; subst c.
    cbn. apply (IH c0 c1 Hs Hc0 eq_refl). exact Hl.
  - apply andb_prop in Hs as [Hs _]. apply andb_prop in Hs as [Hs _].
    apply tbind_ok in Hc as (c0 & Hc0 & Hc). inversion Hc; subst cc.
    destruct (compile a) as [c1|] eqn:E; [|discriminate]. inversion Hq; subst c.
    cbn. destruct (negb _ || _); cbn; apply (IH c0 c1 Hs Hc0 eq_refl); exact Hl.
  - apply andb_prop in Hs as [Hs _]. apply andb_prop in Hs as [Hs _]. apply andb_prop in Hs as [Hs _].
    destruct (compile a) as [c1|] eqn:E; [|discriminate]. inversion Hq; subst c.
    cbn. apply (IH cc c1 Hs Hc eq_refl). exact Hl.
  - (* slice_head: the metadata's limit is n > 0 *)
    apply andb_prop in Hs as [Hs _]. apply andb_prop in Hs as [_ Hn].
    apply tbind_ok in Hc as (c0 & Hc0 & Hc). inversion Hc; subst cc. cbn in Hl.
    apply Z.ltb_lt in Hn. lia.
  - apply andb_prop in Hs as [Hs _].
    apply tbind_ok in Hc as (c0 & Hc0 & Hc). inversion Hc; subst cc.
    destruct (compile a) as [c1|] eqn:E; [|discriminate]. inversion Hq; subst c.
    cbn. apply (IH c0 c1 Hs Hc0 eq_refl). exact Hl.
  - apply tbind_ok in Hc as (c0 & Hc0 & Hc). inversion Hc; subst cc.
    destruct (compile a) as [c1|] eqn:E; [|discriminate]. inversion Hq; subst c.
    cbn. apply (IH c0 c1 Hs Hc0 eq_refl). exact Hl.
  - apply andb_prop in Hs as [Hs _]. apply andb_prop in Hs as [Hs _].
    apply tbind_ok in Hc as (c0 & Hc0 & Hc). unfold upd_summarize in Hc.
    apply tbind_ok in Hc as (nc & _ & Hc). inversion Hc; subst cc.
    destruct (compile a) as [c1|] eqn:E; [|discriminate]. inversion Hq; subst c.
    cbn. apply (IH c0 c1 Hs Hc0 eq_refl). exact Hl.
  - destruct m; [discriminate|].
    apply tbind_ok in Hc as (c0 & Hc0 & Hc). inversion Hc; subst cc.
    apply (IH c0 c Hs Hc0 Hq). exact Hl.
Qed.

Lemma passes_after_slice sch c v :
  passes sch c v false = true ->
  match v with Filter _ _ | Summarize _ _ | Arrange _ _ => True | _ => False end ->
  exists cc, cache_of_ast sch c = TOk cc /\ limit cc = 0%Z.
Proof.
  unfold passes. destruct (cache_of_ast sch c) as [cc|e]; [|discriminate].
  intros H Hv. exists cc. split; [reflexivity|].
  unfold requires_subquery in H. cbn [negb] in H.
  destruct v; try contradiction; cbn in H;
    (destruct (Z.eqb (limit cc) 0) eqn:E; [apply Z.eqb_eq; exact E | cbn in H; discriminate]).
Qed.

Theorem accepted_flat_proof sch a :
  shape_ok a = true -> accepted sch a = true -> flat_ok a = true.
Proof.
  induction a as [t cs|a IH us|a IH m|a IH defs|a IH ps|a IH os|a IH n k|a IH us add|a IH|a IH defs|a IH m|a IH|l IHl r IHr on how|l IHl r IHr dis];
    intros Hs Ha; cbn [shape_ok] in Hs; cbn [accepted] in Ha; cbn [flat_ok]; try discriminate.
  - exact Hs.
  - apply andb_prop in Hs as [Hs H1]. apply andb_prop in Ha as [Ha _]. rewrite (IH Hs Ha). exact H1.
  - apply andb_prop in Ha as [Ha _]. exact (IH Hs Ha).
  - apply andb_prop in Hs as [Hs H2]. apply andb_prop in Ha as [Ha _].
    rewrite (IH Hs Ha). exact H2.
  - (* filter *)
    apply andb_prop in Hs as [Hs H2]. apply andb_prop in Hs as [Hs H1]. apply andb_prop in Ha as [Ha Hp].
    rewrite (IH Hs Ha), H1. cbn.
    destruct (compile a) as [c1|] eqn:E; [|discriminate].
    apply (passes_after_slice sch a (Filter a ps)) in Hp as (cc & Hc & Hl); [|exact I].
    unfold no_limit. rewrite (limit_link sch a cc c1 Hs Hc E Hl). exact H2.
  - (* arrange *)
    apply andb_prop in Hs as [Hs H2]. apply andb_prop in Hs as [Hs H0]. apply andb_prop in Hs as [Hs H1].
    apply andb_prop in Ha as [Ha Hp].
    rewrite (IH Hs Ha), H1, H0. cbn.
    destruct (compile a) as [c1|] eqn:E; [|discriminate].
    apply (passes_after_slice sch a (Arrange a os)) in Hp as (cc & Hc & Hl); [|exact I].
    unfold no_limit. rewrite (limit_link sch a cc c1 Hs Hc E Hl). exact H2.
  - (* slice_head *)
    apply andb_prop in Hs as [Hs Hk]. apply andb_prop in Hs as [Hs Hn]. apply andb_prop in Ha as [Ha _].
    rewrite (IH Hs Ha), Hk. apply Z.ltb_lt in Hn. replace (Z.leb 0 n) with true; [reflexivity|].
    symmetry. apply Z.leb_le. lia.
  - apply andb_prop in Hs as [Hs H1]. apply andb_prop in Ha as [Ha _]. rewrite (IH Hs Ha). exact H1.
  - apply andb_prop in Ha as [Ha _]. exact (IH Hs Ha).
  - (* summarize *)
    apply andb_prop in Hs as [Hs H2]. apply andb_prop in Hs as [Hs H1]. apply andb_prop in Ha as [Ha Hp].
    rewrite (IH Hs Ha), H1. cbn.
    destruct (compile a) as [c1|] eqn:E; [|discriminate].
    apply (passes_after_slice sch a (Summarize a defs)) in Hp as (cc & Hc & Hl); [|exact I].
    cbn zeta in H2 |- *. unfold no_limit. rewrite (limit_link sch a cc c1 Hs Hc E Hl). exact H2.
  - destruct m; [discriminate|]. apply andb_prop in Ha as [Ha _]. exact (IH Hs Ha).
Qed.

Theorem accepted_compile_correct_proof sch d a c :
  compile a = Some c -> shape_ok a = true -> accepted sch a = true ->
  sem_query d c = export_ref (sem_ref d a).
Proof.
  intros Hc Hs Ha. apply sql_compile_correct_proof; [exact Hc|]. exact (accepted_flat_proof sch a Hs Ha).
Qed.
