(* Proofs/AcceptLemmas.v — C08, sufficiency of the catalogue on the flat fragment: a pipeline that the
   verb front end accepts (no verb demands a subquery) satisfies the LIMIT side conditions of
   Model/SqlCompile.flat_ok, hence is compiled correctly (Proofs/SqlCompileLemmas). *)
From Coq Require Import List String NArith ZArith Bool Lia.
From PDT Require Import Model.Dtype Model.Conv Model.Signature Model.Resolve Model.Value Model.Ops
     Model.Expr Model.RefSem Model.Typing Model.Cache Model.SqlCompile Model.Accept
     Proofs.SqlCompileLemmas.
Import ListNotations.
Open Scope list_scope.

Lemma tbind_ok {A B} (r : tres A) (f : A -> tres B) b :
  tbind r f = TOk b -> exists a, r = TOk a /\ f a = TOk b.
Proof. destruct r as [a|e]; simpl; [intros H; exists a; auto | discriminate]. Qed.

Lemma shape_ok_marker_alias c0 m :
  shape_ok (SubqueryMarker (Alias c0 (Some m))) =
  shape_ok c0 && match compile c0 with
                 | Some cc =>
                     let U := ast_uids c0 ++ c_scope cc ++ map fst (c_labels cc) in
                     forallb (fun a => forallb (fun b => implb (N.eqb (remap_uid m a) (remap_uid m b)) (N.eqb a b)) U) U
                 | None => false
                 end.
Proof. reflexivity. Qed.
Lemma shape_ok_marker_generic a : (forall c0 m, a <> Alias c0 (Some m)) -> shape_ok (SubqueryMarker a) = shape_ok a.
Proof. intros H. destruct a as [| | | | | | | | | |a0 [m|]| | |]; try reflexivity. exfalso. apply (H a0 m). reflexivity. Qed.

Lemma passes_limit sch c v r :
  passes sch c v r = true ->
  match v with Filter _ _ | Summarize _ _ | Arrange _ _ | Join _ _ _ _ | Union _ _ _ | GroupBy _ _ _ => True | _ => False end ->
  exists cc, cache_of_ast sch c = TOk cc /\ limit cc = 0%Z.
Proof.
  unfold passes. destruct (cache_of_ast sch c) as [cc|e]; [|discriminate].
  intros H Hv. exists cc. split; [reflexivity|].
  unfold requires_subquery in H. cbn [negb] in H.
  destruct v; try contradiction; cbn in H;
    (destruct (Z.eqb (limit cc) 0) eqn:E; [apply Z.eqb_eq; exact E | cbn in H; discriminate]).
Qed.

Ltac split_andb :=
  repeat match goal with H : _ && _ = true |- _ => apply andb_prop in H; destruct H end.

(* the link between the two transcriptions: the metadata's limit is 0 only if the query under construction has no
   LIMIT (for an accepted pipeline: a join keeps the left operand's LIMIT state, and the join is only accepted
   when that operand has none) *)
Lemma limit_link sch : forall a cc c,
  shape_ok a = true -> accepted sch a = true -> cache_of_ast sch a = TOk cc -> compile a = Some c ->
  limit cc = 0%Z -> q_limit (c_q c) = None.
Proof.
  intros a. remember (asize a) as sz eqn:Hsz. revert a Hsz. induction sz as [sz IHsz] using lt_wf_ind. intros a Hsz.
  assert (IH0 : forall b, (asize b < asize a)%nat -> forall cc c,
            shape_ok b = true -> accepted sch b = true -> cache_of_ast sch b = TOk cc -> compile b = Some c ->
            limit cc = 0%Z -> q_limit (c_q c) = None).
  { intros b Hb. apply (IHsz (asize b)); [lia|reflexivity]. }
  clear IHsz Hsz.
  destruct a as [t cs|a us|a m|a defs|a ps|a os|a n k|a us add|a|a defs|a m|a|l r on how|l r dis];
    try (pose proof (IH0 a ltac:(cbn [asize]; lia)) as IH);
    intros cc c Hs Ha Hc Hq Hl;
    try (cbn [accepted] in Ha; apply andb_prop in Ha; destruct Ha as [Ha Hp]).
  - cbn [compile] in Hq. inversion Hq; subst. reflexivity.
  - cbn [shape_ok] in Hs. cbn [cache_of_ast] in Hc. cbn [compile] in Hq. apply andb_prop in Hs as [Hs _].
    apply tbind_ok in Hc as (c0 & Hc0 & Hc). inversion Hc; subst cc.
    destruct (compile a) as [c1|] eqn:E; [|discriminate]. inversion Hq; subst c.
    cbn. apply (IH c0 c1 Hs Ha Hc0 eq_refl). exact Hl.
  - cbn [shape_ok] in Hs. cbn [cache_of_ast] in Hc. cbn [compile] in Hq.
    apply tbind_ok in Hc as (c0 & Hc0 & Hc). inversion Hc; subst cc.
    destruct (compile a) as [c1|] eqn:E; [|discriminate]. inversion Hq; subst c.
    cbn. apply (IH c0 c1 Hs Ha Hc0 eq_refl). exact Hl.
  - cbn [shape_ok] in Hs. cbn [cache_of_ast] in Hc. cbn [compile] in Hq. apply andb_prop in Hs as [Hs _].
    apply tbind_ok in Hc as (c0 & Hc0 & Hc). unfold upd_mutate in Hc.
    apply tbind_ok in Hc as (nc & _ & Hc). inversion Hc; subst cc.
    destruct (compile a) as [c1|] eqn:E; [|discriminate]. inversion Hq; subst c.
    cbn. apply (IH c0 c1 Hs Ha Hc0 eq_refl). exact Hl.
  - cbn [shape_ok] in Hs. cbn [cache_of_ast] in Hc. cbn [compile] in Hq.
    apply andb_prop in Hs as [Hs _]. apply andb_prop in Hs as [Hs _].
    apply tbind_ok in Hc as (c0 & Hc0 & Hc). inversion Hc; subst cc.
    destruct (compile a) as [c1|] eqn:E; [|discriminate]. inversion Hq; subst c.
    cbn. destruct (negb _ || _); cbn; apply (IH c0 c1 Hs Ha Hc0 eq_refl); exact Hl.
  - cbn [shape_ok] in Hs. cbn [cache_of_ast] in Hc. cbn [compile] in Hq.
    apply andb_prop in Hs as [Hs _]. apply andb_prop in Hs as [Hs _]. apply andb_prop in Hs as [Hs _].
    destruct (compile a) as [c1|] eqn:E; [|discriminate]. inversion Hq; subst c.
    cbn. apply (IH cc c1 Hs Ha Hc eq_refl). exact Hl.
  - (* slice_head: the metadata's limit is n > 0 *)
    cbn [shape_ok] in Hs. cbn [cache_of_ast] in Hc.
    apply andb_prop in Hs as [Hs _]. apply andb_prop in Hs as [_ Hn].
    apply tbind_ok in Hc as (c0 & Hc0 & Hc). inversion Hc; subst cc. cbn in Hl.
    apply Z.ltb_lt in Hn. lia.
  - cbn [shape_ok] in Hs. cbn [cache_of_ast] in Hc. cbn [compile] in Hq. apply andb_prop in Hs as [Hs _].
    apply tbind_ok in Hc as (c0 & Hc0 & Hc). inversion Hc; subst cc.
    destruct (compile a) as [c1|] eqn:E; [|discriminate]. inversion Hq; subst c.
    cbn. apply (IH c0 c1 Hs Ha Hc0 eq_refl). exact Hl.
  - cbn [shape_ok] in Hs. cbn [cache_of_ast] in Hc. cbn [compile] in Hq.
    apply tbind_ok in Hc as (c0 & Hc0 & Hc). inversion Hc; subst cc.
    destruct (compile a) as [c1|] eqn:E; [|discriminate]. inversion Hq; subst c.
    cbn. apply (IH c0 c1 Hs Ha Hc0 eq_refl). exact Hl.
  - cbn [shape_ok] in Hs. cbn [cache_of_ast] in Hc. cbn [compile] in Hq.
    apply andb_prop in Hs as [Hs _]. apply andb_prop in Hs as [Hs _].
    apply tbind_ok in Hc as (c0 & Hc0 & Hc). unfold upd_summarize in Hc.
    apply tbind_ok in Hc as (nc & _ & Hc). inversion Hc; subst cc.
    destruct (compile a) as [c1|] eqn:E; [|discriminate]. inversion Hq; subst c.
    cbn. apply (IH c0 c1 Hs Ha Hc0 eq_refl). exact Hl.
  - (* alias *)
    cbn [cache_of_ast] in Hc. apply tbind_ok in Hc as (c0 & Hc0 & Hc). inversion Hc; subst cc.
    destruct m as [m|].
    + cbn [shape_ok] in Hs. apply andb_prop in Hs as [Hs _]. cbn [compile] in Hq.
      destruct (compile a) as [c1|] eqn:E; [|discriminate]. inversion Hq; subst c. cbn.
      apply (IH c0 c1 Hs Ha Hc0 eq_refl). exact Hl.
    + cbn [shape_ok] in Hs. cbn [compile] in Hq. apply (IH c0 c Hs Ha Hc0 Hq). exact Hl.
  - (* subquery marker: a fresh outer query *)
    destruct (alias_some_dec a) as [[c0 [m ->]]|Hna].
    + rewrite compile_marker_alias in Hq. destruct (compile c0); [|discriminate]. inversion Hq; subst. reflexivity.
    + rewrite (compile_marker_generic a Hna) in Hq. destruct (compile a); [|discriminate]. inversion Hq; subst. reflexivity.
  - (* join: the left operand's LIMIT state, which the catalogue checked *)
    cbn [accepted] in Ha. split_andb.
    match goal with H : passes sch l _ false = true |- _ => apply (passes_limit sch l _ false) in H as (cl0 & Hcl & Hll); [|exact I] end.
    assert (Hsl : shape_ok l = true).
    { destruct how; cbn [shape_ok] in Hs; split_andb; assumption. }
    assert (Hql : forall cl, compile l = Some cl -> q_limit (c_q cl) = None).
    { intros cl El. apply (IH0 l ltac:(cbn [asize]; lia) cl0 cl Hsl); assumption. }
    cbn [compile] in Hq. destruct how.
    + destruct (compile l) as [cl|] eqn:El; [|discriminate]. destruct (compile r) as [cr|]; [|discriminate].
      inversion Hq; subst. cbn. apply Hql. reflexivity.
    + destruct (compile l) as [cl|] eqn:El; [|discriminate]. destruct (compile r) as [cr|]; [|discriminate].
      inversion Hq; subst. cbn. apply Hql. reflexivity.
    + destruct (compile l) as [cl|] eqn:El; [|discriminate]. destruct (compile r) as [cr|]; [|discriminate].
      destruct (q_where (c_q cl)); [|discriminate]. destruct (q_where (c_q cr)); [|discriminate].
      inversion Hq; subst. cbn. apply Hql. reflexivity.
  - (* union: a fresh query *)
    cbn [compile] in Hq. destruct (compile l) as [cl|]; [|discriminate]. destruct (compile r) as [cr|]; [|discriminate].
    destruct (union_right_select cl cr); [|discriminate]. inversion Hq; subst. reflexivity.
Qed.

Ltac rebuild_andb := repeat (apply andb_true_intro; split); try assumption; try reflexivity.

Theorem accepted_flat_proof sch : forall a,
  shape_ok a = true -> accepted sch a = true -> flat_ok a = true.
Proof.
  intros a. remember (asize a) as sz eqn:Hsz. revert a Hsz. induction sz as [sz IHsz] using lt_wf_ind. intros a Hsz.
  assert (IH0 : forall b, (asize b < asize a)%nat -> shape_ok b = true -> accepted sch b = true -> flat_ok b = true).
  { intros b Hb. apply (IHsz (asize b)); [lia|reflexivity]. }
  clear IHsz Hsz.
  (* no LIMIT in the query of a child whose metadata the catalogue saw with limit 0 *)
  assert (NL : forall b v rr cb, (asize b < asize a)%nat -> shape_ok b = true -> accepted sch b = true ->
                 passes sch b v rr = true ->
                 match v with Filter _ _ | Summarize _ _ | Arrange _ _ | Join _ _ _ _ | Union _ _ _ | GroupBy _ _ _ => True | _ => False end ->
                 compile b = Some cb -> no_limit (c_q cb) = true).
  { intros b v rr cb Hb Hsb Hab Hp Hv Eb. apply (passes_limit sch b v rr) in Hp as (cc & Hc & Hl); [|exact Hv].
    unfold no_limit. rewrite (limit_link sch b cc cb Hsb Hab Hc Eb Hl). reflexivity. }
  destruct a as [t cs|a us|a m|a defs|a ps|a os|a n k|a us add|a|a defs|a m|a|l r on how|l r dis];
    try (pose proof (IH0 a ltac:(cbn [asize]; lia)) as IH);
    intros Hs Ha;
    try (cbn [accepted] in Ha; apply andb_prop in Ha; destruct Ha as [Ha Hp]).
  - exact Hs.
  - cbn [shape_ok] in Hs. cbn [flat_ok]. apply andb_prop in Hs as [Hs H1]. rewrite (IH Hs Ha). exact H1.
  - cbn [shape_ok] in Hs. cbn [flat_ok]. exact (IH Hs Ha).
  - cbn [shape_ok] in Hs. cbn [flat_ok]. apply andb_prop in Hs as [Hs H2]. rewrite (IH Hs Ha). exact H2.
  - (* filter *)
    cbn [shape_ok] in Hs. cbn [flat_ok].
    apply andb_prop in Hs as [Hs H2]. apply andb_prop in Hs as [Hs H1]. rewrite (IH Hs Ha), H1. cbn.
    destruct (compile a) as [c1|] eqn:E; [|discriminate].
    rewrite (NL a (Filter a ps) false c1 ltac:(cbn [asize]; lia) Hs Ha Hp I E). exact H2.
  - (* arrange *)
    cbn [shape_ok] in Hs. cbn [flat_ok].
    apply andb_prop in Hs as [Hs H2]. apply andb_prop in Hs as [Hs H0]. apply andb_prop in Hs as [Hs H1].
    rewrite (IH Hs Ha), H1, H0. cbn.
    destruct (compile a) as [c1|] eqn:E; [|discriminate].
    rewrite (NL a (Arrange a os) false c1 ltac:(cbn [asize]; lia) Hs Ha Hp I E). exact H2.
  - (* slice_head *)
    cbn [shape_ok] in Hs. cbn [flat_ok].
    apply andb_prop in Hs as [Hs Hk]. apply andb_prop in Hs as [Hs Hn].
    rewrite (IH Hs Ha), Hk. apply Z.ltb_lt in Hn. replace (Z.leb 0 n) with true; [reflexivity|].
    symmetry. apply Z.leb_le. lia.
  - cbn [shape_ok] in Hs. cbn [flat_ok]. apply andb_prop in Hs as [Hs H1]. rewrite (IH Hs Ha). exact H1.
  - cbn [shape_ok] in Hs. cbn [flat_ok]. exact (IH Hs Ha).
  - (* summarize *)
    cbn [shape_ok] in Hs. cbn [flat_ok].
    apply andb_prop in Hs as [Hs H2]. apply andb_prop in Hs as [Hs H1]. rewrite (IH Hs Ha), H1. cbn.
    destruct (compile a) as [c1|] eqn:E; [|discriminate].
    cbn zeta in H2 |- *. rewrite (NL a (Summarize a defs) false c1 ltac:(cbn [asize]; lia) Hs Ha Hp I E). exact H2.
  - (* alias *)
    destruct m as [m|]; cbn [shape_ok] in Hs; cbn [flat_ok].
    + apply andb_prop in Hs as [Hs H1]. rewrite (IH Hs Ha). exact H1.
    + exact (IH Hs Ha).
  - (* subquery marker *)
    destruct (alias_some_dec a) as [[c0 [m ->]]|Hna].
    + rewrite shape_ok_marker_alias in Hs. rewrite flat_ok_marker_alias.
      apply andb_prop in Hs as [Hs H1]. cbn [accepted] in Ha. apply andb_prop in Ha as [Ha _].
      rewrite (IH0 c0 ltac:(cbn [asize]; lia) Hs Ha). exact H1.
    + rewrite (shape_ok_marker_generic a Hna) in Hs. rewrite (flat_ok_marker_generic a Hna). exact (IH Hs Ha).
  - (* joins: both operands carry no LIMIT *)
    cbn [accepted] in Ha. split_andb.
    assert (Hsl : shape_ok l = true /\ shape_ok r = true).
    { destruct how; cbn [shape_ok] in Hs; split_andb; split; assumption. }
    destruct Hsl as [Hsl Hsr].
    pose proof (IH0 l ltac:(cbn [asize]; lia) Hsl ltac:(assumption)) as Fl.
    pose proof (IH0 r ltac:(cbn [asize]; lia) Hsr ltac:(assumption)) as Fr.
    destruct how; cbn [shape_ok] in Hs; cbn [flat_ok]; rewrite Fl, Fr;
      destruct (compile l) as [cl|] eqn:El; try (split_andb; discriminate);
      destruct (compile r) as [cr|] eqn:Er; try (split_andb; discriminate);
      pose proof (NL l _ false cl ltac:(cbn [asize]; lia) Hsl ltac:(assumption) ltac:(eassumption) I El) as NLl;
      pose proof (NL r _ true cr ltac:(cbn [asize]; lia) Hsr ltac:(assumption) ltac:(eassumption) I Er) as NLr;
      cbv zeta in Hs |- *; split_andb; rewrite NLl, NLr; cbn [andb]; rebuild_andb.
  - (* union *)
    cbn [accepted] in Ha. split_andb. cbn [shape_ok] in Hs. cbn [flat_ok]. split_andb.
    rewrite (IH0 l ltac:(cbn [asize]; lia)) by assumption. rewrite (IH0 r ltac:(cbn [asize]; lia)) by assumption.
    cbn [andb]. assumption.
Qed.

Theorem accepted_compile_correct_proof sch d a c :
  compile a = Some c -> shape_ok a = true -> accepted sch a = true ->
  sem_query d c = export_ref (sem_ref d a).
Proof.
  intros Hc Hs Ha. apply sql_compile_correct_proof; [exact Hc|]. exact (accepted_flat_proof sch a Hs Ha).
Qed.
