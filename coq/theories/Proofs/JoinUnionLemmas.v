(* Proofs/JoinUnionLemmas.v — C06 / C07: what join and union produce in the reference semantics. *)
From Coq Require Import List String NArith ZArith Bool Lia.
From PDT Require Import Base.StableSort Model.Dtype Model.Value Model.Ops Model.Expr Model.RefSem.
From PDTGen Require Import Catalogue.
Import ListNotations.
Open Scope list_scope.

(* inner join: exactly the combinations that satisfy `on`, left-major *)
Theorem inner_join_spec_proof l r on :
  rows (do_join l r on JInner)
  = flat_map (fun lr => map (fun rr => lr ++ rr) (filter (on_true on lr) (rows r))) (rows l).
Proof.
  unfold do_join. cbn [rows]. rewrite app_nil_r.
  apply flat_map_ext. intros lr. unfold join_branch.
  destruct (filter (on_true on lr) (rows r)); reflexivity.
Qed.

(* null never equals anything: an equality with a null operand is never true *)
Theorem null_never_equal_proof v :
  value_eqb (v_eq VNull v) (VBool true) = false /\ value_eqb (v_eq v VNull) (VBool true) = false.
Proof. split; destruct v; reflexivity. Qed.

Lemma flat_map_const_length {X Y} (f : X -> list Y) n l :
  (forall a, List.length (f a) = n) -> List.length (flat_map f l) = (List.length l * n)%nat.
Proof.
  intros H. induction l as [|a l IH]; [reflexivity|].
  cbn [flat_map List.length]. rewrite app_length, H, IH. reflexivity.
Qed.

(* cross join: the full product *)
Theorem cross_join_count_proof l r :
  List.length (rows (do_join l r (ELit (VBool true)) JInner))
  = (List.length (rows l) * List.length (rows r))%nat.
Proof.
  rewrite inner_join_spec_proof. apply flat_map_const_length. intros lr.
  rewrite map_length.
  induction (rows r) as [|x xs IH]; [reflexivity|].
  cbn [filter]. unfold on_true at 1. cbn [eval value_eqb Bool.eqb List.length]. rewrite IH. reflexivity.
Qed.

(* left join: every left row survives (padded with nulls: absent uids read as null) *)
Theorem left_join_keeps_left_rows_proof l r on lr :
  In lr (rows l) ->
  exists rr, In (lr ++ rr) (rows (do_join l r on JLeft)).
Proof.
  intros H. unfold do_join. cbn [rows]. rewrite app_nil_r.
  destruct (filter (on_true on lr) (rows r)) as [|m ms] eqn:E.
  - exists []. rewrite app_nil_r. apply in_flat_map.
    exists lr. split; [exact H|]. rewrite E. simpl. left. reflexivity.
  - exists m. apply in_flat_map.
    exists lr. split; [exact H|]. rewrite E. simpl. left. reflexivity.
Qed.

Lemma get_app_absent (lr rr : row) u :
  (forall v, ~ In (u, v) lr) -> get (lr ++ rr) u = get rr u.
Proof.
  induction lr as [|[k v] lr IH]; simpl; intros H; [reflexivity|].
  destruct (N.eqb k u) eqn:E.
  - apply N.eqb_eq in E. subst. exfalso. apply (H v). left. reflexivity.
  - apply IH. intros v' Hv. apply (H v'). right. exact Hv.
Qed.

(* the padding of an unmatched left row is null in every right column *)
Theorem padded_right_columns_are_null_proof (lr : row) u :
  (forall v, ~ In (u, v) lr) -> get (lr ++ []) u = VNull.
Proof. intros H. rewrite get_app_absent by exact H. reflexivity. Qed.

Theorem join_visible_columns_proof l r on how :
  sel (do_join l r on how) = sel l ++ sel r /\ group (do_join l r on how) = [].
Proof. split; reflexivity. Qed.

(* ---------- union ---------- *)
Theorem union_all_count_proof l r :
  List.length (rows (do_union l r false)) = (List.length (rows l) + List.length (rows r))%nat
  /\ sel (do_union l r false) = sel l.
Proof.
  unfold do_union. cbn [rows sel]. rewrite app_length, map_length. split; reflexivity.
Qed.

(* the right rows are matched BY NAME: the value stored under the left uid of name n is the right
   row's value of the right column named n *)
Theorem union_by_name_proof l r (rr : row) n ul ur :
  NoDup (map snd (sel l)) ->
  In (n, ul) (sel l) -> assoc_s n (sel r) = Some ur ->
  get (map (fun p => (snd p, match assoc_s (fst p) (sel r) with Some u => get rr u | None => VErr end))
           (sel l)) ul
  = get rr ur.
Proof.
  intros ND Hin Hr.
  induction (sel l) as [|[n' u'] sl IH]; [destruct Hin|].
  simpl in ND. inversion ND as [|? ? Hnot ND']; subst.
  simpl. destruct Hin as [E|Hin].
  - inversion E; subst. rewrite N.eqb_refl, Hr. reflexivity.
  - destruct (N.eqb u' ul) eqn:E.
    + apply N.eqb_eq in E. subst. exfalso. apply Hnot.
      apply in_map_iff. exists (n, ul). split; [reflexivity|exact Hin].
    + apply IH; assumption.
Qed.

(* distinct: no visible row occurs twice in the result *)
Lemma dedup_rows_not_seen seen vis rs r :
  In r (dedup_rows seen vis rs) -> existsb (values_eqb (vis r)) seen = false.
Proof.
  revert seen. induction rs as [|x rs IH]; intros seen H; [destruct H|].
  simpl in H. destruct (existsb (values_eqb (vis x)) seen) eqn:E.
  - apply IH. exact H.
  - destruct H as [<-|H]; [exact E|].
    apply IH in H. simpl in H. apply orb_false_iff in H. apply H.
Qed.

Theorem union_distinct_no_duplicates_proof seen vis rs :
  forall i j ri rj, (i < j)%nat ->
    nth_error (dedup_rows seen vis rs) i = Some ri ->
    nth_error (dedup_rows seen vis rs) j = Some rj ->
    values_eqb (vis rj) (vis ri) = false.
Proof.
  revert seen. induction rs as [|x rs IH]; intros seen i j ri rj Hij Hi Hj.
  - simpl in Hi. destruct i; discriminate.
  - simpl in Hi, Hj. destruct (existsb (values_eqb (vis x)) seen) eqn:E.
    + eapply IH; eauto.
    + destruct i as [|i].
      * simpl in Hi. inversion Hi; subst ri.
        destruct j as [|j]; [lia|]. simpl in Hj.
        apply nth_error_In in Hj. apply dedup_rows_not_seen in Hj.
        simpl in Hj. apply orb_false_iff in Hj. apply Hj.
      * destruct j as [|j]; [lia|]. simpl in Hi, Hj.
        eapply IH with (i := i) (j := j); eauto. lia.
Qed.

(* distinct invents nothing: every result row is one of the stacked rows *)
Theorem union_distinct_subset_proof seen vis rs r :
  In r (dedup_rows seen vis rs) -> In r rs.
Proof.
  revert seen. induction rs as [|x rs IH]; intros seen H; [destruct H|].
  simpl in H. destruct (existsb (values_eqb (vis x)) seen) eqn:E.
  - right. eapply IH. exact H.
  - destruct H as [<-|H]; [left; reflexivity|right; eapply IH; exact H].
Qed.

(* distinct loses nothing: every stacked row whose visible values equal themselves (no NaN / error cell)
   is represented - by an already seen value list or by a result row with equal visible values *)
Theorem union_distinct_complete_proof seen vis rs r :
  In r rs -> values_eqb (vis r) (vis r) = true ->
  existsb (values_eqb (vis r)) seen = true
  \/ exists r', In r' (dedup_rows seen vis rs) /\ values_eqb (vis r) (vis r') = true.
Proof.
  revert seen. induction rs as [|x rs IH]; intros seen H R; [destruct H|].
  simpl. destruct (existsb (values_eqb (vis x)) seen) eqn:E.
  - destruct H as [->|H]; [left; exact E|]. apply IH; assumption.
  - destruct H as [->|H].
    + right. exists r. split; [left; reflexivity|exact R].
    + destruct (IH (vis x :: seen) H R) as [S|[r' [I V]]].
      * simpl in S. apply orb_true_iff in S. destruct S as [S|S].
        -- right. exists x. split; [left; reflexivity|exact S].
        -- left. exact S.
      * right. exists r'. split; [right; exact I|exact V].
Qed.

Corollary union_distinct_complete_nil_proof vis rs r :
  In r rs -> values_eqb (vis r) (vis r) = true ->
  exists r', In r' (dedup_rows [] vis rs) /\ values_eqb (vis r) (vis r') = true.
Proof.
  intros H R. destruct (union_distinct_complete_proof [] vis rs r H R) as [S|S]; [discriminate S|exact S].
Qed.
