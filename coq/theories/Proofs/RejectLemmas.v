(* Proofs/RejectLemmas.v — C14: the nested aggregate / window rule of the type checker covers EVERY
   syntactic position (arguments, partition_by=, arrange=, case conditions and branches, casts). *)
From Coq Require Import List String NArith ZArith Bool.
From PDT Require Import Model.Dtype Model.Value Model.Ops Model.Expr Model.Typing.
From PDTGen Require Import Catalogue.
Import ListNotations.

(* "an aggregate or window ColFn occurs somewhere in e" as an inductive predicate over positions *)
Inductive occurs : expr -> Prop :=
| occ_here o args hp part arr : op_ftype o <> ElementWise -> occurs (EFn o args hp part arr)
| occ_arg o args hp part arr a : In a args -> occurs a -> occurs (EFn o args hp part arr)
| occ_part o args hp part arr a : In a part -> occurs a -> occurs (EFn o args hp part arr)
| occ_arr o args hp part arr a m : In (a, m) arr -> occurs a -> occurs (EFn o args hp part arr)
| occ_cond cases d c v : In (c, v) cases -> occurs c -> occurs (ECase cases d)
| occ_branch cases d c v : In (c, v) cases -> occurs v -> occurs (ECase cases d)
| occ_default cases d : occurs d -> occurs (ECase cases (Some d))
| occ_cast e t : occurs e -> occurs (ECast e t).

Lemma ftype_neq_ew f : f <> ElementWise -> ftype_eqb f ElementWise = false.
Proof. destruct f; intros H; try reflexivity. contradiction. Qed.

Lemma has_aggwin_complete : forall e, occurs e -> has_aggwin_fn e = true.
Proof.
  fix REC 2. intros e H. destruct H as [o args hp part arr Hn|o args hp part arr a Hin Ha
    |o args hp part arr a Hin Ha|o args hp part arr a m Hin Ha|cases d c v Hin Hc|cases d c v Hin Hv|cases d Hd|e t He].
  - simpl. rewrite (ftype_neq_ew _ Hn). reflexivity.
  - simpl. apply orb_true_iff. left. apply orb_true_iff. left. apply orb_true_iff. right.
    pose proof (REC a Ha) as R. clear -Hin R.
    induction args as [|x l IH]; [destruct Hin|]. destruct Hin as [->|Hin].
    + rewrite R. reflexivity.
    + rewrite (IH Hin). apply orb_true_r.
  - simpl. apply orb_true_iff. left. apply orb_true_iff. right.
    pose proof (REC a Ha) as R. clear -Hin R.
    induction part as [|x l IH]; [destruct Hin|]. destruct Hin as [->|Hin].
    + rewrite R. reflexivity.
    + rewrite (IH Hin). apply orb_true_r.
  - simpl. apply orb_true_iff. right.
    pose proof (REC a Ha) as R. clear -Hin R.
    induction arr as [|[x mx] l IH]; [destruct Hin|]. destruct Hin as [E|Hin].
    + inversion E; subst. rewrite R. reflexivity.
    + rewrite (IH Hin). apply orb_true_r.
  - simpl. apply orb_true_iff. left.
    pose proof (REC c Hc) as R. clear -Hin R.
    induction cases as [|[x y] l IH]; [destruct Hin|]. destruct Hin as [E|Hin].
    + inversion E; subst. rewrite R. reflexivity.
    + rewrite (IH Hin). rewrite !orb_true_r. reflexivity.
  - simpl. apply orb_true_iff. left.
    pose proof (REC v Hv) as R. clear -Hin R.
    induction cases as [|[x y] l IH]; [destruct Hin|]. destruct Hin as [E|Hin].
    + inversion E; subst. rewrite R. rewrite orb_true_r. reflexivity.
    + rewrite (IH Hin). rewrite !orb_true_r. reflexivity.
  - simpl. rewrite (REC d Hd). apply orb_true_r.
  - simpl. apply REC. exact He.
Qed.

(* whenever an aggregate / window function contains another one ANYWHERE below it - in an argument,
   in partition_by=, in arrange=, in a case condition or branch, under a cast - type checking its
   function type fails with FunctionTypeError (provided the arguments themselves are typable) *)
Theorem nested_aggwin_rejected_proof aiw env o args hp part arr fts :
  op_ftype o <> ElementWise ->
  (exists a, (In a args \/ In a part \/ exists m, In (a, m) arr) /\ occurs a) ->
  (fix go (l : list expr) : tres (list ftype) :=
     match l with
     | [] => TOk []
     | a :: l' => tbind (ftype_of aiw env a) (fun t => tbind (go l') (fun ts => TOk (t :: ts)))
     end) args = TOk fts ->
  ftype_of aiw env (EFn o args hp part arr) = TErr EFunctionType.
Proof.
  intros Hn [a [Hpos Hocc]] Hargs.
  cbn [ftype_of]. rewrite Hargs. cbn [tbind].
  assert (C : children_have_aggwin args part arr = true).
  { unfold children_have_aggwin. pose proof (has_aggwin_complete a Hocc) as R.
    destruct Hpos as [Hin|[Hin|[m Hin]]].
    - apply orb_true_iff. left. apply orb_true_iff. left. apply existsb_exists. exists a. split; assumption.
    - apply orb_true_iff. left. apply orb_true_iff. right. apply existsb_exists. exists a. split; assumption.
    - apply orb_true_iff. right. apply existsb_exists. exists (a, m). split; assumption. }
  rewrite C.
  destruct (op_ftype o) eqn:E; try contradiction; [destruct aiw|]; reflexivity.
Qed.

(* an unknown column is reported as such, whatever surrounds it: the error of a leaf surfaces through
   element-wise operators *)
Theorem unknown_column_rejected_proof env u : env_get env u = None ->
  dtype_of env (ECol u) = TErr EColumnNotFound /\ ftype_of true env (ECol u) = TErr EColumnNotFound.
Proof. intros H. simpl. rewrite H. split; reflexivity. Qed.

(* a non-boolean case condition is a DataTypeError *)
Theorem case_condition_must_be_bool_proof env c v d t :
  dtype_of env c = TOk t -> dtype_eqb (without_const t) (TS SBool) = false ->
  dtype_of env (ECase [(c, v)] d) = TErr EDataType.
Proof. intros H N. cbn [dtype_of]. rewrite H. cbn [tbind forallb]. rewrite N. reflexivity. Qed.
