(* Proofs/SqlCompileLemmas.v — compile correctness of the single-SELECT fragment (C01 / C02 / C04 / C08):
   for every AST accepted by flat_ok, the SELECT that the transcription of compile_ast produces means
   exactly the table that the reference semantics gives, for all data. *)
From Coq Require Import List String NArith ZArith Bool Lia Arith.
From PDT Require Import Base.StableSort Model.Dtype Model.Value Model.Ops Model.Expr Model.RefSem Model.SqlCompile
     Proofs.SortLemmas Proofs.RefLemmas Proofs.RefKeys Proofs.EvalLemmas Proofs.ListRel Proofs.EvalRel.
From PDTGen Require Import Catalogue.
Import ListNotations.
Open Scope list_scope.

Lemma assoc_u_app_other {V} x (new old : list (uid * V)) :
  ~ In x (map fst new) -> assoc_u x (new ++ old) = assoc_u x old.
Proof.
  induction new as [|[k v] new IH]; intros H; simpl; [reflexivity|].
  destruct (N.eqb_spec x k) as [E|E]; [exfalso; apply H; left; simpl; congruence|].
  apply IH. intros C. apply H. right. exact C.
Qed.

Lemma assoc_u_in_dom {V} x (l : list (uid * V)) : In x (map fst l) -> exists v, assoc_u x l = Some v.
Proof.
  induction l as [|[k v] l IH]; intros H; [destruct H|]. simpl.
  destruct (N.eqb_spec x k) as [E|E]; [exists v; reflexivity|].
  destruct H as [H|H]; [simpl in H; congruence|apply IH; exact H].
Qed.

Lemma def_of_app_other x new ds : ~ In x (map fst new) -> def_of (new ++ ds) x = def_of ds x.
Proof. intros H. unfold def_of. rewrite assoc_u_app_other by exact H. reflexivity. Qed.
Lemma label_app_other x (new : slabels) ls : ~ In x (map fst new) -> label (new ++ ls) x = label ls x.
Proof. intros H. unfold label. rewrite assoc_u_app_other by exact H. reflexivity. Qed.

Lemma new_defs_dom ds defs : map fst (new_defs ds defs) = def_uids defs.
Proof. unfold new_defs, def_uids. rewrite map_map. reflexivity. Qed.
Lemma new_labels_dom defs : map fst (new_labels defs) = def_uids defs.
Proof. unfold new_labels, def_uids. rewrite map_map. reflexivity. Qed.

Lemma assoc_new_defs ds defs : NoDup (def_uids defs) -> forall d, In d defs ->
  assoc_u (snd (fst d)) (new_defs ds defs) = Some (subst ds (snd d)).
Proof.
  induction defs as [|d0 defs IH]; intros ND d Hin; [destruct Hin|].
  simpl in ND. inversion ND as [|? ? Hnot ND']; subst. simpl.
  destruct Hin as [<-|Hin]; [rewrite N.eqb_refl; reflexivity|].
  destruct (N.eqb_spec (snd (fst d)) (snd (fst d0))) as [E|E].
  - exfalso. apply Hnot. rewrite <- E. unfold def_uids. apply in_map_iff. exists d. split; [reflexivity|exact Hin].
  - apply IH; assumption.
Qed.
Lemma assoc_new_labels defs : NoDup (def_uids defs) -> forall d, In d defs ->
  assoc_u (snd (fst d)) (new_labels defs) = Some (fst (fst d)).
Proof.
  induction defs as [|d0 defs IH]; intros ND d Hin; [destruct Hin|].
  simpl in ND. inversion ND as [|? ? Hnot ND']; subst. simpl.
  destruct Hin as [<-|Hin]; [rewrite N.eqb_refl; reflexivity|].
  destruct (N.eqb_spec (snd (fst d)) (snd (fst d0))) as [E|E].
  - exfalso. apply Hnot. rewrite <- E. unfold def_uids. apply in_map_iff. exists d. split; [reflexivity|exact Hin].
  - apply IH; assumption.
Qed.

(* substitution only looks at the definitions of the columns the expression mentions *)
Lemma subst_ext_on : forall e ds ds', (forall x, In x (cols e) -> def_of ds' x = def_of ds x) -> subst ds' e = subst ds e.
Proof.
  apply (expr_ind2 (fun e => forall ds ds', (forall x, In x (cols e) -> def_of ds' x = def_of ds x) -> subst ds' e = subst ds e)).
  - intros u ds ds' H. simpl. apply H. left. reflexivity.
  - reflexivity.
  - intros e t IH ds ds' H. simpl. rewrite (IH ds ds' H). reflexivity.
  - intros cs d IHcs IHd ds ds' H. cbn [subst]. f_equal.
    + induction cs as [|[c v] cs IH]; [reflexivity|]. inversion IHcs as [|? ? [Hc Hv] Hrest]; subst. simpl in Hc, Hv.
      cbn [map fst snd]. rewrite (Hc ds ds') by (intros x Hx; apply H; apply cols_case_c; exact Hx).
      rewrite (Hv ds ds') by (intros x Hx; apply H; apply cols_case_v; exact Hx).
      rewrite (IH Hrest); [reflexivity|]. intros x Hx. apply H. apply cols_case_rest. exact Hx.
    + destruct d as [x0|]; [|reflexivity]. f_equal. apply IHd. intros x Hx. apply H. simpl.
      apply in_or_app. right. exact Hx.
  - intros o args hp part arr IHa IHp IHr ds ds' H. cbn [subst]. cbn [cols] in H. f_equal.
    + assert (H' : forall x, In x (flat_map cols args) -> def_of ds' x = def_of ds x).
      { intros x Hx. apply H. apply in_or_app. left. exact Hx. }
      clear H. induction args as [|a args IH]; [reflexivity|]. inversion IHa as [|? ? Ha Hrest]; subst. simpl.
      rewrite (Ha ds ds') by (intros x Hx; apply H'; simpl; apply in_or_app; left; exact Hx).
      rewrite (IH Hrest); [reflexivity|]. intros x Hx. apply H'. simpl. apply in_or_app. right. exact Hx.
    + assert (H' : forall x, In x (flat_map cols part) -> def_of ds' x = def_of ds x).
      { intros x Hx. apply H. apply in_or_app. right. apply in_or_app. left. exact Hx. }
      clear H. induction part as [|a part IH]; [reflexivity|]. inversion IHp as [|? ? Ha Hrest]; subst. simpl.
      rewrite (Ha ds ds') by (intros x Hx; apply H'; simpl; apply in_or_app; left; exact Hx).
      rewrite (IH Hrest); [reflexivity|]. intros x Hx. apply H'. simpl. apply in_or_app. right. exact Hx.
    + assert (H' : forall x, In x (flat_map (fun ka => cols (fst ka)) arr) -> def_of ds' x = def_of ds x).
      { intros x Hx. apply H. apply in_or_app. right. apply in_or_app. right. exact Hx. }
      clear H. induction arr as [|[a m] arr IH]; [reflexivity|]. inversion IHr as [|? ? Ha Hrest]; subst. simpl in *.
      rewrite (Ha ds ds') by (intros x Hx; apply H'; apply in_or_app; left; exact Hx).
      rewrite (IH Hrest); [reflexivity|]. intros x Hx. apply H'. apply in_or_app. right. exact Hx.
Qed.

Lemma scoped_incl sc e : scoped sc e = true -> forall x, In x (cols e) -> In x sc.
Proof. unfold scoped. apply forallb_mem_incl. Qed.

(* ---------- extensionality of the query meaning in the definitions ---------- *)
Lemma forallb_ext_in' {A} (f g : A -> bool) l : (forall x, In x l -> f x = g x) -> forallb f l = forallb g l.
Proof. induction l as [|x l IH]; intros H; simpl; [reflexivity|]. rewrite (H x (or_introl eq_refl)), IH; [reflexivity|]. intros y Hy. apply H. right. exact Hy. Qed.

Lemma all_true_ext ds ds' ps u : (forall p, In p ps -> subst ds' p = subst ds p) -> all_true ds' ps u = all_true ds ps u.
Proof.
  intros H. unfold all_true. apply forallb_ext_in'. intros p Hp. unfold ev. rewrite (H p Hp). reflexivity.
Qed.

Lemma units_of_ext base ds ds' wh hv grp summ :
  (forall p, In p wh -> subst ds' p = subst ds p) ->
  (forall p, In p hv -> subst ds' p = subst ds p) ->
  (forall x, In x grp -> def_of ds' x = def_of ds x) ->
  units_of base ds' wh hv grp summ = units_of base ds wh hv grp summ.
Proof.
  intros Hw Hh Hg. unfold units_of.
  assert (Ew : filter (fun r => all_true ds' wh (mk1 r)) base = filter (fun r => all_true ds wh (mk1 r)) base).
  { apply filter_ext. intros r. apply all_true_ext. exact Hw. }
  rewrite Ew.
  assert (Eh : forall l, filter (all_true ds' hv) l = filter (all_true ds hv) l).
  { intros l. apply filter_ext. intros u. apply all_true_ext. exact Hh. }
  rewrite Eh. f_equal. destruct summ; [|reflexivity]. f_equal.
  destruct grp as [|g0 grp]; [reflexivity|].
  assert (Ek : forall r, map (fun x => evd ds' (mk1 r) x) (g0 :: grp) = map (fun x => evd ds (mk1 r) x) (g0 :: grp)).
  { intros r. apply map_ext_in. intros x Hx. unfold evd. rewrite (Hg x Hx). reflexivity. }
  generalize (filter (fun r : row => all_true ds wh (mk1 r)) base). intros w.
  generalize (@nil (list value * list row)). induction w as [|r w IH]; intros acc; [reflexivity|].
  cbn [group_rows]. rewrite Ek. destruct (_ acc); apply IH.
Qed.

Lemma order_units_ext ds ds' os us :
  (forall o, In o os -> subst ds' (fst o) = subst ds (fst o)) -> order_units ds' os us = order_units ds os us.
Proof.
  intros H. unfold order_units. destruct os as [|o0 os]; [reflexivity|]. f_equal. f_equal.
  apply map_ext. intros u. f_equal. apply map_ext_in. intros o Ho. unfold ev. rewrite (H o Ho). reflexivity.
Qed.

(* ---------- the invariant ---------- *)
Record Aux (c : compiled) : Prop := {
  a_scope_dom : forall x, In x (c_scope c) -> In x (map fst (c_defs c));
  a_sel_scope : forall x, In x (q_select (c_q c)) -> In x (c_scope c);
  a_sel_labels : forall x, In x (q_select (c_q c)) -> In x (map fst (c_labels c));
  a_part_scope : forall x, In x (q_part (c_q c)) -> In x (c_scope c);
  a_group_dom : forall x, In x (q_group (c_q c)) -> In x (map fst (c_defs c));
  a_where_dom : forall p, In p (q_where (c_q c)) -> forall x, In x (cols p) -> In x (map fst (c_defs c));
  a_having_dom : forall p, In p (q_having (c_q c)) -> forall x, In x (cols p) -> In x (map fst (c_defs c));
  a_order_dom : forall o, In o (q_order (c_q c)) -> forall x, In x (cols (fst o)) -> In x (map fst (c_defs c));
  a_nosumm : q_summ (c_q c) = false -> q_having (c_q c) = [] /\ q_group (c_q c) = [];
  a_limit : forall l, q_limit (c_q c) = Some l -> (0 <= l)%Z /\ (0 <= q_offset (c_q c))%Z
}.

Record Inv (d : db) (s : rstate) (c : compiled) : Prop := {
  i_rows : Forall2 (fun r u => agrees_on (c_scope c) (c_defs c) u r) (rows s) (final_units d c);
  i_sel : sel s = map (fun u => (label (c_labels c) u, u)) (q_select (c_q c));
  i_group : group s = q_part (c_q c)
}.

Lemma name_of_sel ls L u : In u L -> name_of (map (fun x => (label ls x, x)) L) u = label ls u.
Proof.
  unfold name_of. induction L as [|y L IH]; intros H; [destruct H|]. simpl.
  destruct (N.eqb_spec y u) as [E|E]; [subst; reflexivity|].
  destruct H as [H|H]; [contradiction|]. apply IH. exact H.
Qed.

Lemma label_rename (ls : slabels) m u : In u (map fst ls) ->
  label (map (fun ul => (fst ul, match assoc_s (snd ul) m with Some n => n | None => snd ul end)) ls) u
  = match assoc_s (label ls u) m with Some n => n | None => label ls u end.
Proof.
  unfold label. induction ls as [|[k v] ls IH]; intros H; [destruct H|]. simpl.
  destruct (N.eqb_spec u k) as [E|E]; [reflexivity|].
  destruct H as [H|H]; [simpl in H; congruence|]. apply IH. exact H.
Qed.

(* ---------- the result frame ---------- *)
Theorem inv_frame d s c : Inv d s c -> Aux c -> export_ref s = sem_query d c.
Proof.
  intros [R S G] A. unfold export_ref, sem_query. f_equal.
  - rewrite S, map_map. reflexivity.
  - rewrite S. apply (Forall2_map_eq _ _ _ _ _ R). intros r u Hru. rewrite map_map. simpl.
    apply map_ext_in. intros x Hx. apply Hru. apply (a_sel_scope c A). exact Hx.
Qed.

(* ---------- Source ---------- *)
Lemma def_of_source cols x : In x (map snd cols) ->
  def_of (map (fun p : string * uid => (snd p, ECol (snd p))) cols) x = ECol x.
Proof.
  unfold def_of. induction cols as [|[n u] cols IH]; intros H; [destruct H|]. simpl.
  destruct (N.eqb_spec x u) as [E|E]; [subst; reflexivity|].
  destruct H as [H|H]; [simpl in H; congruence|]. apply IH. exact H.
Qed.

Lemma label_source cols : NoDup (map snd cols) ->
  cols = map (fun u => (label (map (fun p : string * uid => (snd p, fst p)) cols) u, u)) (map snd cols).
Proof.
  induction cols as [|[n u] cols IH]; intros ND; [reflexivity|]. simpl in ND. inversion ND as [|? ? Hnot ND']; subst.
  cbn [map fst snd]. unfold label at 1. simpl. rewrite N.eqb_refl. f_equal.
  rewrite (IH ND') at 1. apply map_ext_in. intros x Hx. f_equal. unfold label. simpl.
  destruct (N.eqb_spec x u) as [E|E]; [subst; contradiction|reflexivity].
Qed.

Lemma ds_elem_source cols : ds_elem (map (fun p : string * uid => (snd p, ECol (snd p))) cols).
Proof.
  intros x. unfold def_of. induction cols as [|[n u] cols IH]; simpl; [reflexivity|].
  destruct (N.eqb x u); [reflexivity|exact IH].
Qed.

Lemma source_case d t cols c :
  compile (Source t cols) = Some c -> flat_ok (Source t cols) = true -> Inv d (sem_ref d (Source t cols)) c /\ Aux c.
Proof.
  intros C F. simpl in C. inversion C; subst; clear C. simpl in F. apply nodup_u_NoDup in F. split.
  - constructor; simpl.
    + unfold final_units, units, units_of, order_units, cut, base_rows. simpl.
      rewrite !filter_true. apply Forall2_map_r.
      generalize (map (zip_row (map snd cols)) (db_get d t)). intros L.
      generalize (index_rows L) at 1. intros ctx. apply Forall2_index_rows_r.
      induction L as [|r l IH]; constructor; [|exact IH].
      intros i x Hx. unfold evd. simpl. rewrite def_of_source by exact Hx. reflexivity.
    + apply label_source. exact F.
    + reflexivity.
  - constructor; simpl; try (intros; contradiction); try tauto.
    + intros x Hx. rewrite map_map. simpl. exact Hx.
    + intros x Hx. rewrite map_map. simpl. exact Hx.
    + intros l H. discriminate H.
Qed.

(* ---------- verbs that only touch the select list, the labels or the grouping state ---------- *)
Lemma select_case d s cc us :
  Inv d s cc -> Aux cc -> forallb (fun u => mem_u u (q_select (c_q cc))) us = true ->
  Inv d {| rows := rows s; sel := map (fun u => (name_of (sel s) u, u)) us; group := group s;
           ord_defined := ord_defined s; bad := bad s |} (with_q cc (set_select (c_q cc) us))
  /\ Aux (with_q cc (set_select (c_q cc) us)).
Proof.
  intros [R S G] A H. pose proof (forallb_mem_incl _ _ H) as Hin. split.
  - constructor; simpl.
    + exact R.
    + rewrite S. apply map_ext_in. intros u Hu. rewrite name_of_sel by (apply Hin; exact Hu). reflexivity.
    + exact G.
  - destruct A. constructor; simpl; auto.
Qed.

Lemma rename_case d s cc m :
  Inv d s cc -> Aux cc ->
  let c' := {| c_from := c_from cc; c_cols := c_cols cc; c_q := c_q cc;
               c_labels := map (fun ul => (fst ul, match assoc_s (snd ul) m with Some n => n | None => snd ul end)) (c_labels cc);
               c_defs := c_defs cc; c_scope := c_scope cc |} in
  Inv d {| rows := rows s;
           sel := map (fun p => (match assoc_s (fst p) m with Some n => n | None => fst p end, snd p)) (sel s);
           group := group s; ord_defined := ord_defined s; bad := bad s |} c' /\ Aux c'.
Proof.
  intros [R S G] A c'. split.
  - constructor; simpl.
    + exact R.
    + rewrite S, map_map. apply map_ext_in. intros u Hu. simpl.
      rewrite label_rename by (apply (a_sel_labels cc A); exact Hu). reflexivity.
    + exact G.
  - destruct A. constructor; simpl; auto. intros x Hx. rewrite map_map. simpl. auto.
Qed.

Lemma part_case d s cc p (o b : bool) :
  Inv d s cc -> Aux cc -> (forall x, In x p -> In x (c_scope cc)) ->
  Inv d {| rows := rows s; sel := sel s; group := p; ord_defined := o; bad := b |} (with_q cc (set_part (c_q cc) p))
  /\ Aux (with_q cc (set_part (c_q cc) p)).
Proof.
  intros [R S G] A H. split.
  - constructor; simpl; auto.
  - destruct A. constructor; simpl; auto.
Qed.

(* ---------- new definitions (mutate, summarize) ---------- *)
Lemma fresh_spec cc defs : fresh cc defs = true ->
  NoDup (def_uids defs) /\ forall x, In x (map fst (c_defs cc)) -> ~ In x (def_uids defs).
Proof.
  unfold fresh. intros H. apply andb_prop in H. destruct H as [H1 H2]. split; [apply nodup_u_NoDup; exact H1|].
  intros x Hx C. rewrite forallb_forall in H2. specialize (H2 x C). apply negb_true_iff in H2.
  apply mem_u_In in Hx. rewrite Hx in H2. discriminate H2.
Qed.

Lemma assoc_u_app_found {V} x (new old : list (uid * V)) v : assoc_u x new = Some v -> assoc_u x (new ++ old) = Some v.
Proof.
  induction new as [|[k w] new IH]; intros H; [discriminate H|]. simpl in *.
  destruct (N.eqb x k); [exact H|apply IH; exact H].
Qed.

Lemma in_def_uids defs x : In x (def_uids defs) -> exists d, In d defs /\ snd (fst d) = x.
Proof. unfold def_uids. intros H. apply in_map_iff in H. destruct H as [d [E H]]. exists d. split; assumption. Qed.

Lemma elem_subst : forall e ds, elem e = true -> ds_elem ds -> elem (subst ds e) = true.
Proof.
  apply (expr_ind2 (fun e => forall ds, elem e = true -> ds_elem ds -> elem (subst ds e) = true)).
  - intros u ds _ D. simpl. apply D.
  - reflexivity.
  - intros e t IH ds E D. simpl in *. apply IH; assumption.
  - intros cs d IHcs IHd ds E D. cbn [subst elem]. simpl in E. apply andb_prop in E. destruct E as [Ecs Ed].
    apply andb_true_intro. split.
    + clear Ed IHd. induction cs as [|[c v] cs IH]; [reflexivity|]. inversion IHcs as [|? ? [Hc Hv] Hrest]; subst.
      simpl in *. apply andb_prop in Ecs. destruct Ecs as [Ecv Ecs]. apply andb_prop in Ecv. destruct Ecv as [Ec Ev].
      rewrite (Hc ds Ec D), (Hv ds Ev D). simpl. apply IH; assumption.
    + destruct d as [x|]; [|reflexivity]. apply IHd; assumption.
  - intros o args hp part arr IHa _ _ ds E D. cbn [subst elem]. simpl in E.
    destruct (op_kind o); try discriminate E.
    induction args as [|a args IH]; [reflexivity|]. inversion IHa as [|? ? Ha Hrest]; subst. simpl in *.
    apply andb_prop in E. destruct E as [Ea Eargs]. rewrite (Ha ds Ea D). simpl. apply IH; assumption.
Qed.

Lemma final_units_ext d cc c' :
  c_from c' = c_from cc -> c_cols c' = c_cols cc ->
  q_where (c_q c') = q_where (c_q cc) -> q_having (c_q c') = q_having (c_q cc) ->
  q_group (c_q c') = q_group (c_q cc) -> q_summ (c_q c') = q_summ (c_q cc) ->
  q_order (c_q c') = q_order (c_q cc) -> q_limit (c_q c') = q_limit (c_q cc) -> q_offset (c_q c') = q_offset (c_q cc) ->
  (forall x, In x (map fst (c_defs cc)) -> def_of (c_defs c') x = def_of (c_defs cc) x) ->
  Aux cc -> final_units d c' = final_units d cc.
Proof.
  intros E1 E2 E3 E4 E5 E6 E7 E8 E9 Hd A. unfold final_units, units, base_rows.
  rewrite E1, E2, E3, E4, E5, E6, E7, E8, E9.
  rewrite (order_units_ext (c_defs cc) (c_defs c')).
  - rewrite (units_of_ext _ (c_defs cc) (c_defs c')); [reflexivity| | |].
    + intros p Hp. apply subst_ext_on. intros x Hx. apply Hd. apply (a_where_dom cc A p Hp x Hx).
    + intros p Hp. apply subst_ext_on. intros x Hx. apply Hd. apply (a_having_dom cc A p Hp x Hx).
    + intros x Hx. apply Hd. apply (a_group_dom cc A x Hx).
  - intros o Ho. apply subst_ext_on. intros x Hx. apply Hd. apply (a_order_dom cc A o Ho x Hx).
Qed.

Definition mutate_compiled (cc : compiled) (defs : list def) : compiled :=
  {| c_from := c_from cc; c_cols := c_cols cc;
     c_q := set_select (c_q cc)
              (filter (fun u => negb (mem_s (label (c_labels cc) u) (def_names defs))) (q_select (c_q cc)) ++ def_uids defs);
     c_labels := new_labels defs ++ c_labels cc;
     c_defs := new_defs (c_defs cc) defs ++ c_defs cc;
     c_scope := def_uids defs ++ c_scope cc |}.

Lemma final_units_plain d c : no_limit (c_q c) = true -> is_nil (q_order (c_q c)) = true -> final_units d c = units d c.
Proof.
  unfold final_units, no_limit, is_nil. destruct (q_limit (c_q c)); [discriminate|].
  destruct (q_order (c_q c)); [reflexivity|discriminate].
Qed.

Lemma Forall2_map_r_inv {A B C} (R : A -> C -> Prop) (f : B -> C) : forall l l',
  Forall2 R l (map f l') -> Forall2 (fun a b => R a (f b)) l l'.
Proof.
  intros l l'. revert l. induction l' as [|b l' IH]; intros l H; simpl in H; inversion H; subst; constructor; auto.
Qed.

Lemma Forall2_flip' {A B} (R : A -> B -> Prop) l l' : Forall2 R l l' -> Forall2 (fun b a => R a b) l' l.
Proof. induction 1; constructor; auto. Qed.

Lemma Forall2_and {A B} (P Q : A -> B -> Prop) l l' :
  Forall2 P l l' -> Forall2 Q l l' -> Forall2 (fun a b => P a b /\ Q a b) l l'.
Proof.
  intros HP. induction HP as [|a b l l' Hab _ IH]; intros HQ; inversion HQ; subst; constructor; auto.
Qed.

Lemma combine_seq_both (Q : row -> irow -> Prop) : forall (rs W : list row) n,
  Forall2 Q rs (combine (seq n (List.length W)) W) ->
  Forall2 (fun a b => fst a = fst b /\ Q (snd a) b) (combine (seq n (List.length rs)) rs) (combine (seq n (List.length W)) W).
Proof.
  induction rs as [|r rs IH]; intros W n H.
  - inversion H. constructor.
  - destruct W as [|w W]; [inversion H|]. simpl in *. inversion H; subst. constructor.
    + split; [reflexivity|assumption].
    + apply IH. assumption.
Qed.

Lemma Forall2_index_both (Q : row -> irow -> Prop) rs W :
  Forall2 Q rs (index_rows W) ->
  Forall2 (fun a b => fst a = fst b /\ Q (snd a) b) (index_rows rs) (index_rows W).
Proof. unfold index_rows. apply combine_seq_both. Qed.

(* the units of a query that is neither summarized, ordered nor limited: every FROM row that passes
   WHERE, each together with all of them *)
Lemma final_units_rows d c : Aux c ->
  q_summ (c_q c) = false -> no_limit (c_q c) = true -> is_nil (q_order (c_q c)) = true ->
  final_units d c =
  let iw := index_rows (filter (fun r => all_true (c_defs c) (q_where (c_q c)) (mk1 r)) (base_rows d c)) in
  map (fun ir => (iw, ir)) iw.
Proof.
  intros A Su NL NO. rewrite (final_units_plain d c NL NO). unfold units, units_of. rewrite Su.
  destruct (a_nosumm c A Su) as [Hh _]. rewrite Hh.
  rewrite (filter_ext (all_true (c_defs c) []) (fun _ => true)) by reflexivity. rewrite filter_true. reflexivity.
Qed.

Lemma mutate_case d s cc defs :
  Inv d s cc -> Aux cc ->
  fresh cc defs = true ->
  forallb (fun dd => scoped (c_scope cc) (snd dd)) defs = true ->
  (forallb (fun dd => elem (snd dd)) defs = true
   \/ (q_summ (c_q cc) = false /\ no_limit (c_q cc) = true /\ is_nil (q_order (c_q cc)) = true)) ->
  Inv d (do_mutate s defs) (mutate_compiled cc defs) /\ Aux (mutate_compiled cc defs).
Proof.
  intros [R S G] A Fr Sc El. destruct (fresh_spec cc defs Fr) as [ND Hfresh].
  assert (Hother : forall x, In x (map fst (c_defs cc)) ->
                             def_of (new_defs (c_defs cc) defs ++ c_defs cc) x = def_of (c_defs cc) x).
  { intros x Hx. apply def_of_app_other. rewrite new_defs_dom. apply Hfresh. exact Hx. }
  assert (FU : final_units d (mutate_compiled cc defs) = final_units d cc).
  { apply final_units_ext; try reflexivity; [exact Hother|exact A]. }
  rewrite forallb_forall in Sc.
  (* the value of every new column: the inlined expression at the unit = the expression at the reference row *)
  assert (NewVal : Forall2 (fun (ir : irow) (u : unit_) =>
                     forall dd, In dd defs -> eval (index_rows (rows s)) ir (snd dd) = ev (c_defs cc) u (snd dd))
                   (index_rows (rows s)) (final_units d cc)).
  { destruct El as [El|[Su [NL NO]]].
    - rewrite forallb_forall in El. apply Forall2_index_rows in R. eapply Forall2_impl'; [|exact R].
      intros [i r] u Hru dd Hdd. simpl in Hru.
      apply (subst_elem (snd dd) (El dd Hdd) (c_defs cc) u (index_rows (rows s)) i r).
      eapply agrees_on_incl; [|exact Hru]. apply scoped_incl. apply Sc. exact Hdd.
    - rewrite (final_units_rows d cc A Su NL NO) in R |- *. cbv zeta in R |- *.
      set (iw := index_rows (filter (fun r => all_true (c_defs cc) (q_where (c_q cc)) (mk1 r)) (base_rows d cc))) in *.
      apply Forall2_map_r_inv in R.
      apply (Forall2_index_both (fun r b => agrees_on (c_scope cc) (c_defs cc) (iw, b) r)) in R. fold iw in R.
      apply Forall2_map_r.
      assert (F : forall X, (forall x, In x X -> In x (c_scope cc)) ->
                            Forall2 (srel (c_defs cc) iw X) iw (index_rows (rows s))).
      { intros X HX. apply Forall2_flip'. eapply Forall2_impl'; [|exact R]. intros a b [E Hab]. split; [symmetry; exact E|].
        intros x Hx. symmetry. apply (Hab x (HX x Hx)). }
      eapply Forall2_impl'; [|exact R]. intros a b [E Hab] dd Hdd. unfold ev. cbn [fst snd]. symmetry.
      apply subst_rel.
      + apply F. apply scoped_incl. apply Sc. exact Hdd.
      + split; [symmetry; exact E|]. intros x Hx. symmetry. apply Hab. apply (scoped_incl _ _ (Sc dd Hdd)). exact Hx. }
  split.
  - constructor.
    + rewrite FU, do_mutate_rows. apply Forall2_map_l. apply Forall2_index_rows in R.
      pose proof (Forall2_and _ _ _ _ R NewVal) as RN.
      eapply Forall2_impl'; [|exact RN]. intros [i r] u [Hru Hnew]. simpl in Hru. simpl.
      intros x Hx. apply in_app_or in Hx.
      destruct (in_dec N.eq_dec x (def_uids defs)) as [Hin|Hold].
      * destruct (in_def_uids defs x Hin) as [dd [Hdd Ex]]. subst x.
        rewrite (apply_defs_new (index_rows (rows s)) (i, r) defs r dd ND Hdd).
        unfold evd, def_of. rewrite (assoc_u_app_found _ _ _ _ (assoc_new_defs (c_defs cc) defs ND dd Hdd)).
        apply (Hnew dd Hdd).
      * destruct Hx as [Hx|Hx]; [contradiction|].
        rewrite apply_defs_other by exact Hold. rewrite (Hru x Hx). unfold evd.
        rewrite Hother by (apply (a_scope_dom cc A); exact Hx). reflexivity.
    + cbn [sel do_mutate mutate_compiled c_q c_labels q_select set_select]. rewrite map_app. f_equal.
      * rewrite S, filter_map_comm. apply map_ext_in. intros u Hu. simpl. apply filter_In in Hu. destruct Hu as [Hu _].
        rewrite label_app_other; [reflexivity|]. rewrite new_labels_dom. apply Hfresh.
        apply (a_scope_dom cc A). apply (a_sel_scope cc A). exact Hu.
      * unfold def_uids. rewrite map_map. apply map_ext_in. intros dd Hdd. f_equal.
        unfold label. rewrite (assoc_u_app_found _ _ _ _ (assoc_new_labels defs ND dd Hdd)). reflexivity.
    + exact G.
  - destruct A as [A1 A2 A3 A4 A5 A6 A7 A8 A9 A10]. constructor; simpl.
    + intros x Hx. rewrite map_app, new_defs_dom. apply in_or_app. apply in_app_or in Hx.
      destruct Hx as [Hx|Hx]; [left; exact Hx|right; apply A1; exact Hx].
    + intros x Hx. apply in_or_app. apply in_app_or in Hx. destruct Hx as [Hx|Hx]; [|left; exact Hx].
      right. apply A2. apply filter_In in Hx. tauto.
    + intros x Hx. rewrite map_app, new_labels_dom. apply in_or_app. apply in_app_or in Hx.
      destruct Hx as [Hx|Hx]; [|left; exact Hx]. right. apply A3. apply filter_In in Hx. tauto.
    + intros x Hx. apply in_or_app. right. apply A4. exact Hx.
    + intros x Hx. rewrite map_app. apply in_or_app. right. apply A5. exact Hx.
    + intros p Hp x Hx. rewrite map_app. apply in_or_app. right. apply (A6 p Hp x Hx).
    + intros p Hp x Hx. rewrite map_app. apply in_or_app. right. apply (A7 p Hp x Hx).
    + intros o Ho x Hx. rewrite map_app. apply in_or_app. right. apply (A8 o Ho x Hx).
    + exact A9.
    + exact A10.
Qed.

(* ---------- filter ---------- *)
Lemma all_true_app ds ps qs u : all_true ds (ps ++ qs) u = all_true ds ps u && all_true ds qs u.
Proof. unfold all_true. apply forallb_app. Qed.

Definition filter_query (q : query) (ps : list expr) : query :=
  if negb (match q_group q with [] => true | _ => false end) || q_summ q
  then {| q_select := q_select q; q_part := q_part q; q_group := q_group q; q_where := q_where q;
          q_having := q_having q ++ ps; q_order := q_order q; q_limit := q_limit q;
          q_offset := q_offset q; q_summ := q_summ q |}
  else {| q_select := q_select q; q_part := q_part q; q_group := q_group q; q_where := q_where q ++ ps;
          q_having := q_having q; q_order := q_order q; q_limit := q_limit q;
          q_offset := q_offset q; q_summ := q_summ q |}.


Lemma units_filter_summ d cc ps : q_summ (c_q cc) = true ->
  units d (with_q cc (filter_query (c_q cc) ps)) = filter (all_true (c_defs cc) ps) (units d cc).
Proof.
  intros Su. unfold units, filter_query, base_rows. rewrite Su.
  rewrite orb_true_r. simpl. unfold units_of.
  rewrite (filter_ext _ _ (all_true_app (c_defs cc) (q_having (c_q cc)) ps)).
  rewrite filter_andb. reflexivity.
Qed.

(* while every definition is element-wise, a unit agrees with a reference row iff its FROM row alone does *)
Lemma ds_elem_b_spec ds : ds_elem_b ds = true -> ds_elem ds.
Proof.
  intros H x. unfold def_of. unfold ds_elem_b in H. rewrite forallb_forall in H.
  destruct (assoc_u x ds) as [e|] eqn:E; [|reflexivity].
  assert (Hin : In (x, e) ds).
  { clear H. induction ds as [|[k v] ds IH]; simpl in E; [discriminate|].
    destruct (N.eqb_spec x k) as [->|N]; [inversion E; subst; left; reflexivity|right; apply IH; exact E]. }
  apply (H (x, e) Hin).
Qed.

Lemma agrees_plain sc ds ctx i b r : ds_elem ds -> agrees_on sc ds (ctx, (i, b)) r -> agrees_on sc ds (mk1 b) r.
Proof.
  intros D H x Hx. rewrite (H x Hx). unfold mk1, evd. cbn [fst snd]. apply elem_local; [apply D|]. intros u. reflexivity.
Qed.
Lemma agrees_unplain sc ds ctx i b r : ds_elem ds -> agrees_on sc ds (mk1 b) r -> agrees_on sc ds (ctx, (i, b)) r.
Proof.
  intros D H x Hx. rewrite (H x Hx). unfold mk1, evd. cbn [fst snd]. apply elem_local; [apply D|]. intros u. reflexivity.
Qed.

Lemma units_plain_out' sc ds ctx (R W : list row) : ds_elem ds ->
  Forall2 (fun r ir => agrees_on sc ds (ctx, ir) r) R (index_rows W) ->
  Forall2 (fun r b => agrees_on sc ds (mk1 b) r) R W.
Proof.
  intros D. unfold index_rows. generalize 0%nat. revert R.
  induction W as [|w W IH]; intros R n H; simpl in H; inversion H; subst; constructor.
  - eapply agrees_plain; [exact D|eassumption].
  - eapply IH. eassumption.
Qed.

Lemma units_plain_out sc ds (R W : list row) : ds_elem ds ->
  Forall2 (fun r u => agrees_on sc ds u r) R (map (fun ir => (index_rows W, ir)) (index_rows W)) ->
  Forall2 (fun r b => agrees_on sc ds (mk1 b) r) R W.
Proof.
  intros D H. apply Forall2_map_r_inv in H. apply (units_plain_out' sc ds (index_rows W) R W D H).
Qed.

Lemma units_plain_in sc ds (R W : list row) : ds_elem ds ->
  Forall2 (fun r b => agrees_on sc ds (mk1 b) r) R W ->
  Forall2 (fun r u => agrees_on sc ds u r) R (map (fun ir => (index_rows W, ir)) (index_rows W)).
Proof.
  intros D H. apply Forall2_map_r. generalize (index_rows W) at 1. intros ctx. apply Forall2_index_rows_r.
  eapply Forall2_impl'; [|exact H]. intros r b Hrb i. apply agrees_unplain; assumption.
Qed.

Lemma filter_case d s cc ps :
  Inv d s cc -> Aux cc -> forallb elem ps = true ->
  no_limit (c_q cc) = true -> is_nil (q_order (c_q cc)) = true -> forallb (scoped (c_scope cc)) ps = true ->
  q_summ (c_q cc) || ds_elem_b (c_defs cc) = true ->
  Inv d (do_filter s ps) (with_q cc (filter_query (c_q cc) ps)) /\ Aux (with_q cc (filter_query (c_q cc) ps)).
Proof.
  intros [R S G] A El NL NO Sc SD. rewrite forallb_forall in El, Sc.
  assert (NL' : no_limit (c_q (with_q cc (filter_query (c_q cc) ps))) = true).
  { unfold filter_query. simpl. destruct (negb _ || _); exact NL. }
  assert (NO' : is_nil (q_order (c_q (with_q cc (filter_query (c_q cc) ps)))) = true).
  { unfold filter_query. simpl. destruct (negb _ || _); exact NO. }
  assert (Hdom : forall p, In p ps -> forall x, In x (cols p) -> In x (map fst (c_defs cc))).
  { intros p Hp x Hx. apply (a_scope_dom cc A). apply (scoped_incl _ _ (Sc p Hp)). exact Hx. }
  assert (AUX : Aux (with_q cc (filter_query (c_q cc) ps))).
  { destruct A as [A1 A2 A3 A4 A5 A6 A7 A8 A9 A10]. unfold filter_query.
    destruct (q_summ (c_q cc)) eqn:Su.
    + rewrite orb_true_r. constructor; simpl; auto.
      * intros p Hp. apply in_app_or in Hp. destruct Hp as [Hp|Hp]; [apply A7; exact Hp|apply Hdom; exact Hp].
      * intros C. discriminate C.
    + destruct (A9 eq_refl) as [Hh Hg]. rewrite Hg. simpl. constructor; simpl; auto; try (intros; contradiction).
      intros p Hp. apply in_app_or in Hp. destruct Hp as [Hp|Hp]; [apply A6; exact Hp|apply Hdom; exact Hp]. }
  split; [|exact AUX].
  destruct (q_summ (c_q cc)) eqn:Su.
  - (* HAVING *)
    constructor.
    + rewrite (final_units_plain d _ NL' NO'), (units_filter_summ d cc ps Su), filter_keeps_exactly_true.
      rewrite (final_units_plain d cc NL NO) in R.
      apply Forall2_map_l. cbn [c_scope c_defs with_q].
      apply (Forall2_filter (fun (a : irow) (b : unit_) => agrees_on (c_scope cc) (c_defs cc) b (snd a))).
      * apply (Forall2_index_rows (fun r u => agrees_on (c_scope cc) (c_defs cc) u r)). exact R.
      * intros [i r] u Hru. simpl in Hru. unfold passes, all_true. apply forallb_ext_in'. intros p Hp.
        f_equal. apply subst_elem; [apply El; exact Hp|].
        eapply agrees_on_incl; [|exact Hru]. apply scoped_incl. apply Sc. exact Hp.
    + unfold filter_query. simpl. destruct (negb _ || _); exact S.
    + unfold filter_query. simpl. destruct (negb _ || _); exact G.
  - (* WHERE: no window column is in scope *)
    simpl in SD. apply ds_elem_b_spec in SD.
    assert (Su' : q_summ (c_q (with_q cc (filter_query (c_q cc) ps))) = false).
    { unfold filter_query. simpl. destruct (negb _ || _); exact Su. }
    destruct (a_nosumm cc A Su) as [Hh Hg].
    constructor.
    + rewrite (final_units_rows d _ AUX Su' NL' NO'). rewrite (final_units_rows d cc A Su NL NO) in R. cbv zeta in R |- *.
      apply (units_plain_out (c_scope cc) (c_defs cc) _ _ SD) in R.
      rewrite filter_keeps_exactly_true. cbn [c_scope c_defs with_q base_rows c_from c_cols].
      assert (EW : filter (fun r => all_true (c_defs cc) (q_where (c_q (with_q cc (filter_query (c_q cc) ps)))) (mk1 r)) (base_rows d cc)
                   = filter (fun r => all_true (c_defs cc) ps (mk1 r))
                            (filter (fun r => all_true (c_defs cc) (q_where (c_q cc)) (mk1 r)) (base_rows d cc))).
      { unfold filter_query. rewrite Su, Hg. simpl.
        rewrite (filter_ext _ _ (fun r => all_true_app (c_defs cc) (q_where (c_q cc)) ps (mk1 r))).
        apply filter_andb. }
      change (base_rows d (with_q cc (filter_query (c_q cc) ps))) with (base_rows d cc). rewrite EW.
      apply (units_plain_in (c_scope cc) (c_defs cc) _ _ SD).
      apply Forall2_map_l.
      apply (Forall2_filter (fun (a : irow) (b : row) => agrees_on (c_scope cc) (c_defs cc) (mk1 b) (snd a))).
      * apply (Forall2_index_rows (fun r b => agrees_on (c_scope cc) (c_defs cc) (mk1 b) r)). exact R.
      * intros [i r] b Hru. simpl in Hru. unfold passes, all_true. apply forallb_ext_in'. intros p Hp.
        f_equal. apply subst_elem; [apply El; exact Hp|].
        eapply agrees_on_incl; [|exact Hru]. apply scoped_incl. apply Sc. exact Hp.
    + unfold filter_query. simpl. destruct (negb _ || _); exact S.
    + unfold filter_query. simpl. destruct (negb _ || _); exact G.
Qed.

(* ---------- slice_head ---------- *)
Definition slice_query (q : query) (n k : Z) : query :=
  let lo := match q_limit q with
            | None => (Some n, k)
            | Some l => (Some (Z.min (Z.max (l - k) 0) n), (q_offset q + k)%Z)
            end in
  {| q_select := q_select q; q_part := q_part q; q_group := q_group q; q_where := q_where q;
     q_having := q_having q; q_order := q_order q; q_limit := fst lo; q_offset := snd lo; q_summ := q_summ q |}.

Lemma cut_cut {X} (l off n k : Z) (L : list X) : (0 <= l)%Z -> (0 <= off)%Z -> (0 <= n)%Z -> (0 <= k)%Z ->
  firstn (Z.to_nat n) (skipn (Z.to_nat k) (cut (Some l) off L))
  = cut (Some (Z.min (Z.max (l - k) 0) n)) (off + k) L.
Proof.
  intros Hl Ho Hn Hk. unfold cut. rewrite slice_slice. f_equal; [lia|]. f_equal. lia.
Qed.

Lemma slice_case d s cc n k :
  Inv d s cc -> Aux cc -> (0 <= n)%Z -> (0 <= k)%Z ->
  Inv d (do_slice s n k) (with_q cc (slice_query (c_q cc) n k)) /\ Aux (with_q cc (slice_query (c_q cc) n k)).
Proof.
  intros [R S G] A Hn Hk. split.
  - constructor; [|exact S|exact G].
    cbn [rows do_slice c_scope c_defs with_q]. unfold final_units in *. cbn [c_q with_q c_defs].
    unfold slice_query. cbn [q_limit q_offset q_order].
    assert (U : units d (with_q cc (slice_query (c_q cc) n k)) = units d cc) by reflexivity.
    unfold slice_query in U. cbn in U. 
    destruct (q_limit (c_q cc)) as [l|] eqn:L.
    + destruct (a_limit cc A l L) as [Hl Ho]. cbn [fst snd].
      rewrite <- cut_cut by assumption.
      apply Forall2_firstn. apply Forall2_skipn. exact R.
    + cbn [fst snd]. unfold cut at 1. unfold cut in R. apply Forall2_firstn. apply Forall2_skipn. exact R.
  - destruct A as [A1 A2 A3 A4 A5 A6 A7 A8 A9 A10]. constructor; simpl; auto.
    intros l H. destruct (q_limit (c_q cc)) as [l0|] eqn:L; simpl in H; inversion H; subst.
    + destruct (A10 l0 eq_refl). simpl. lia.
    + simpl. lia.
Qed.

(* ---------- arrange ---------- *)

Definition arrange_query (q : query) (os : list (expr * omark)) : query :=
  {| q_select := q_select q; q_part := q_part q; q_group := q_group q; q_where := q_where q;
     q_having := q_having q; q_order := os ++ q_order q; q_limit := q_limit q;
     q_offset := q_offset q; q_summ := q_summ q |}.

Lemma arrange_case d s cc os :
  Inv d s cc -> Aux cc -> forallb (fun o => elem (fst o)) os = true -> is_nil os = false ->
  no_limit (c_q cc) = true -> is_nil (q_order (c_q cc)) = true ->
  forallb (fun o => scoped (c_scope cc) (fst o)) os = true ->
  Inv d (do_arrange s os) (with_q cc (arrange_query (c_q cc) os)) /\ Aux (with_q cc (arrange_query (c_q cc) os)).
Proof.
  intros [R S G] A El NN NL NO Sc. rewrite forallb_forall in El, Sc.
  rewrite (final_units_plain d cc NL NO) in R.
  assert (Eo : q_order (c_q cc) = []) by (destruct (q_order (c_q cc)); [reflexivity|discriminate NO]).
  split.
  - constructor; [|exact S|exact G].
    unfold final_units. cbn [c_q with_q c_defs c_scope arrange_query q_limit q_offset q_order].
    assert (U : units d (with_q cc (arrange_query (c_q cc) os)) = units d cc) by reflexivity. rewrite U.
    rewrite Eo, app_nil_r.
    unfold no_limit in NL. destruct (q_limit (c_q cc)); [discriminate NL|]. unfold cut.
    unfold order_units. destruct os as [|o0 os']; [discriminate NN|]. set (os := o0 :: os') in *.
    cbn [rows do_arrange].
    set (ctx := index_rows (rows s)).
    set (ms := map snd os).
    assert (H2 : Forall2 (fun (x : list value * irow) (y : list value * unit_) =>
                            fst x = fst y /\ agrees_on (c_scope cc) (c_defs cc) (snd y) (snd (snd x)))
                         (map (fun ir => (map (fun o => eval ctx ir (fst o)) os, ir)) ctx)
                         (map (fun u => (map (fun o => ev (c_defs cc) u (fst o)) os, u)) (units d cc))).
    { apply Forall2_map_l. apply Forall2_map_r.
      apply (Forall2_index_rows (fun r u => agrees_on (c_scope cc) (c_defs cc) u r)) in R. fold ctx in R.
      eapply Forall2_impl'; [|exact R]. intros [i r] u Hru. cbn [fst snd] in Hru. cbn [fst snd]. split; [|exact Hru].
      apply map_ext_in. intros o Ho. apply subst_elem; [apply El; exact Ho|].
      eapply agrees_on_incl; [|exact Hru]. apply scoped_incl. apply Sc. exact Ho. }
    apply (Forall2_ssort (fun a b => match cmp_keys ms a b with Gt => false | _ => true end)
                         (fun (ir : irow) (u : unit_) => agrees_on (c_scope cc) (c_defs cc) u (snd ir))) in H2.
    rewrite <- (map_map snd snd). apply Forall2_map_l. apply Forall2_map_r. apply Forall2_map_l.
    eapply Forall2_impl'; [|exact H2]. intros x y [_ Hxy]. exact Hxy.
  - destruct A as [A1 A2 A3 A4 A5 A6 A7 A8 A9 A10]. constructor; simpl; auto.
    intros o Ho x Hx. apply in_app_or in Ho. destruct Ho as [Ho|Ho]; [|apply (A8 o Ho x Hx)].
    apply A1. apply (scoped_incl _ _ (Sc o Ho)). exact Hx.
Qed.

(* ---------- summarize ---------- *)
From PDT Require Import Proofs.GroupLemmas.


Lemma Forall2_index_rows2 (R : row -> row -> Prop) l l' :
  Forall2 R l l' -> Forall2 (fun a b => R (snd a) (snd b)) (index_rows l) (index_rows l').
Proof.
  unfold index_rows. generalize 0%nat. intros n H. revert n.
  induction H as [|a b l l' Hab _ IH]; intros n; simpl; constructor; [exact Hab|apply IH].
Qed.

Lemma evd_index_irrelevant ds ctx i j (b : row) x : ds_elem ds -> evd ds (ctx, (i, b)) x = evd ds (ctx, (j, b)) x.
Proof. intros D. unfold evd. simpl. apply elem_local; [apply D|]. intros u. reflexivity. Qed.

Lemma filter_all {A} (p : A -> bool) l : (forall x, In x l -> p x = true) -> filter p l = l.
Proof.
  induction l as [|x l IH]; intros H; simpl; [reflexivity|]. rewrite (H x (or_introl eq_refl)), IH; [reflexivity|].
  intros y Hy. apply H. right. exact Hy.
Qed.

Lemma Forall2_with_In_gen {A B} (R : A -> B -> Prop) (L : list A) : forall l l',
  Forall2 R l l' -> (forall x, In x l -> In x L) -> Forall2 (fun x y => R x y /\ In x L) l l'.
Proof.
  intros l l' H. induction H as [|x y l l' Hxy _ IH]; intros Hin; constructor.
  - split; [exact Hxy|apply Hin; left; reflexivity].
  - apply IH. intros z Hz. apply Hin. right. exact Hz.
Qed.
Lemma Forall2_with_In {A B} (R : A -> B -> Prop) l l' : Forall2 R l l' -> Forall2 (fun x y => R x y /\ In x l) l l'.
Proof. intros H. apply Forall2_with_In_gen; [exact H|auto]. Qed.

Lemma index_rows_head r l : index_rows (r :: l) = (0%nat, r) :: combine (seq 1 (List.length l)) l.
Proof. reflexivity. Qed.

Definition summ_compiled0 (cc : compiled) (defs : list def) : compiled :=
  let q := c_q cc in
  {| c_from := c_from cc; c_cols := c_cols cc;
     c_q := {| q_select := q_part q ++ def_uids defs; q_part := []; q_group := q_group q ++ q_part q;
               q_where := q_where q; q_having := q_having q; q_order := []; q_limit := q_limit q;
               q_offset := q_offset q; q_summ := true |};
     c_labels := new_labels defs ++ c_labels cc;
     c_defs := new_defs (c_defs cc) defs ++ c_defs cc;
     c_scope := def_uids defs ++ q_part q |}.

Definition summ_compiled (cc : compiled) (defs : list def) : compiled :=
  let q := c_q cc in
  {| c_from := c_from cc; c_cols := c_cols cc;
     c_q := {| q_select := q_part q ++ def_uids defs; q_part := []; q_group := q_group q ++ q_part q;
               q_where := q_where q; q_having := q_having q; q_order := []; q_limit := q_limit q;
               q_offset := q_offset q; q_summ := true |};
     c_labels := new_labels defs ++ c_labels cc;
     c_defs := new_defs (c_defs cc) defs ++ c_defs cc;
     c_scope := def_uids defs ++ filter (fun u => negb (mem_s (label (c_labels cc) u) (def_names defs))) (q_part q) |}.

Lemma summarize_case d s cc defs :
  Inv d s cc -> Aux cc ->
  forallb (fun dd => agg1 (snd dd)) defs = true ->
  no_limit (c_q cc) = true -> is_nil (q_order (c_q cc)) = true -> q_summ (c_q cc) = false ->
  ds_elem_b (c_defs cc) = true ->
  fresh cc defs = true -> forallb (fun dd => scoped (c_scope cc) (snd dd)) defs = true ->
  forallb (fun dd => forallb (fun x => mem_u x (q_part (c_q cc))) (gcols (snd dd))) defs = true ->
  forallb (fun u => mem_u u (q_select (c_q cc))) (q_part (c_q cc)) = true ->
  forallb (fun u => negb (mem_s (label (c_labels cc) u) (def_names defs))) (q_part (c_q cc)) = true ->
  Inv d (do_summarize s defs) (summ_compiled cc defs) /\ Aux (summ_compiled cc defs).
Proof.
  intros [R S G] A Ag NL NO Su DE Fr Sc Gc Ps Pn.
  destruct (fresh_spec cc defs Fr) as [ND Hfresh].
  destruct (a_nosumm cc A Su) as [Hh Hg]. pose proof (ds_elem_b_spec _ DE) as D.
  assert (Efilt : filter (fun u => negb (mem_s (label (c_labels cc) u) (def_names defs))) (q_part (c_q cc)) = q_part (c_q cc)).
  { apply filter_all. rewrite forallb_forall in Pn. exact Pn. }
  unfold summ_compiled. rewrite Efilt. fold (summ_compiled0 cc defs).
  rewrite forallb_forall in Ag, Sc, Gc.
  pose proof (forallb_mem_incl _ _ Ps) as PartSel.
  set (ds := c_defs cc) in *. set (part := q_part (c_q cc)) in *.
  assert (Hother : forall x, In x (map fst ds) -> def_of (new_defs ds defs ++ ds) x = def_of ds x).
  { intros x Hx. apply def_of_app_other. rewrite new_defs_dom. apply Hfresh. exact Hx. }
  assert (PartDom : forall x, In x part -> In x (map fst ds)).
  { intros x Hx. apply (a_scope_dom cc A). apply (a_part_scope cc A). exact Hx. }
  (* the FROM rows that pass WHERE, related row by row to the reference rows *)
  set (W := filter (fun r => all_true ds (q_where (c_q cc)) (mk1 r)) (base_rows d cc)).
  assert (RW : Forall2 (fun r b => agrees_on (c_scope cc) ds (mk1 b) r) (rows s) W).
  { rewrite (final_units_rows d cc A Su NL NO) in R. cbv zeta in R.
    apply (units_plain_out (c_scope cc) ds _ _ D) in R. exact R. }
  (* the units of the summarized query *)
  assert (FU : final_units d (summ_compiled0 cc defs)
               = map mkg (match part with
                          | [] => [([], W)]
                          | g => group_rows (fun r => map (fun x => evd ds (mk1 r) x) g) W []
                          end)).
  { unfold final_units, summ_compiled0. cbn [c_q c_defs q_limit q_offset q_order].
    unfold no_limit in NL. destruct (q_limit (c_q cc)); [discriminate NL|]. unfold cut, order_units.
    unfold units, base_rows. cbn [c_q c_defs c_from c_cols q_where q_having q_group q_summ].
    rewrite Hg, Hh. cbn [app].
    rewrite (units_of_ext _ ds (new_defs ds defs ++ ds)).
    - unfold units_of. rewrite (filter_ext (all_true ds []) (fun _ => true)) by reflexivity.
      rewrite filter_true. reflexivity.
    - intros p Hp. apply subst_ext_on. intros x Hx. apply Hother. apply (a_where_dom cc A p Hp x Hx).
    - intros p Hp. destruct Hp.
    - intros x Hx. apply Hother. apply PartDom. exact Hx. }
  (* groups of reference rows and groups of FROM rows are related *)
  set (RR := fun (r b : row) => agrees_on (c_scope cc) ds (mk1 b) r).
  assert (GR : Forall2 (RG RR)
                 (match part with [] => [([], rows s)] | _ => group_rows (fun r => map (get r) part) (rows s) [] end)
                 (match part with [] => [([], W)] | g => group_rows (fun r => map (fun x => evd ds (mk1 r) x) g) W [] end)).
  { destruct part as [|p0 part'] eqn:Ep.
    - constructor; [|constructor]. split; [reflexivity|exact RW].
    - apply (group_rows_rel RR); [|exact RW|constructor].
      intros r b Hrb. apply map_ext_in. intros x Hx. apply Hrb. apply (a_part_scope cc A). fold part. rewrite Ep. exact Hx. }
  assert (GoodR : forall k g, In (k, g) (match part with [] => [([], rows s)] | _ => group_rows (fun r => map (get r) part) (rows s) [] end) ->
                  part <> [] -> exists r0 rest, g = r0 :: rest /\ k = map (get r0) part).
  { intros k g Hin Hne. destruct part as [|p0 part']; [contradiction|].
    apply (group_rows_good (fun r => map (get r) (p0 :: part')) (rows s) []); [|exact Hin].
    intros k0 g0 H0. destruct H0. }
  split.
  - constructor.
    + rewrite FU. cbn [rows do_summarize]. rewrite G. fold part. apply Forall2_map_l. apply Forall2_map_r.
      pose proof (Forall2_with_In _ _ _ GR) as GR'.
      eapply Forall2_impl'; [|exact GR']. intros [k gR] [k' gB] [[Ek HgRB] HinR]. simpl in Ek, HgRB. subst k'.
      cbn [fst snd]. unfold mkg. cbn [fst snd c_scope c_defs summ_compiled0].
      set (ctxR := index_rows gR). set (ctxB := index_rows gB).
      set (curR := match ctxR with ir :: _ => ir | [] => (0%nat, []) end).
      set (curB := match ctxB with ir :: _ => ir | [] => (0%nat, []) end).
      change (fold_left (fun r dd => upd r (snd (fst dd)) (eval ctxR curR (snd dd))) defs (zip_row part k))
        with (apply_defs ctxR curR defs (zip_row part k)).
      assert (FC : Forall2 (fun rr br => agrees_on (c_scope cc) ds ([], br) (snd rr)) ctxR ctxB).
      { apply (Forall2_index_rows2 RR) in HgRB. eapply Forall2_impl'; [|exact HgRB].
        intros [i r] [j b] Hab. simpl in Hab. simpl. intros x Hx. rewrite (Hab x Hx).
        unfold mk1. apply evd_index_irrelevant. exact D. }
      assert (Hcur : forall x, In x part -> get (snd curR) x = evd ds ([], curB) x /\ get (zip_row part k) x = get (snd curR) x).
      { intros x Hx. destruct (GoodR k gR HinR) as [r0 [rest [Eg Ek]]]; [intros C; rewrite C in Hx; destruct Hx|].
        subst gR. inversion HgRB as [|? b0 ? restB Hr0 Hrest]; subst.
        unfold curR, curB, ctxR, ctxB. rewrite !index_rows_head. cbn [snd]. split.
        - apply Hr0. apply (a_part_scope cc A). exact Hx.
        - apply (get_zip_row_map (get r0)). exact Hx. }
      intros x Hx. apply in_app_or in Hx.
      destruct (in_dec N.eq_dec x (def_uids defs)) as [Hnew|Hold].
      * destruct (in_def_uids defs x Hnew) as [dd [Hdd Ex]]. subst x.
        rewrite (apply_defs_new ctxR curR defs (zip_row part k) dd ND Hdd).
        unfold evd, def_of. rewrite (assoc_u_app_found _ _ _ _ (assoc_new_defs ds defs ND dd Hdd)). cbn [fst snd].
        apply (subst_agg1 (snd dd) (Ag dd Hdd) ds ctxR ctxB curR curB D).
        -- eapply Forall2_impl'; [|exact FC]. intros a b Hab. eapply agrees_on_incl; [|exact Hab].
           apply scoped_incl. apply Sc. exact Hdd.
        -- intros y Hy. apply Hcur. apply (forallb_mem_incl _ _ (Gc dd Hdd)). exact Hy.
      * destruct Hx as [Hx|Hx]; [contradiction|].
        rewrite apply_defs_other by exact Hold. destruct (Hcur x Hx) as [H1 H2]. rewrite H2, H1.
        unfold evd. rewrite Hother by (apply PartDom; exact Hx). cbn [fst snd].
        destruct curB as [j b]. apply elem_local; [apply D|]. intros u. reflexivity.
    + cbn [sel do_summarize summ_compiled0 c_q c_labels q_select]. rewrite G. fold part. rewrite map_app. f_equal.
      * rewrite filter_all.
        -- apply map_ext_in. intros u Hu. f_equal. rewrite S, name_of_sel by (apply PartSel; exact Hu).
           rewrite label_app_other; [reflexivity|]. rewrite new_labels_dom. apply Hfresh. apply PartDom. exact Hu.
        -- intros p Hp. apply in_map_iff in Hp. destruct Hp as [u [<- Hu]]. simpl.
           rewrite S, name_of_sel by (apply PartSel; exact Hu).
           rewrite forallb_forall in Pn. apply Pn. exact Hu.
      * unfold def_uids. rewrite map_map. apply map_ext_in. intros dd Hdd. f_equal.
        unfold label. rewrite (assoc_u_app_found _ _ _ _ (assoc_new_labels defs ND dd Hdd)). reflexivity.
    + reflexivity.
  - destruct A as [A1 A2 A3 A4 A5 A6 A7 A8 A9 A10]. constructor; cbn [summ_compiled0 c_q c_defs c_labels c_scope q_select q_part q_group q_where q_having q_order q_summ q_limit q_offset].
    + intros x Hx. rewrite map_app, new_defs_dom. apply in_or_app. apply in_app_or in Hx.
      destruct Hx as [Hx|Hx]; [left; exact Hx|right; apply PartDom; exact Hx].
    + intros x Hx. apply in_or_app. apply in_app_or in Hx. destruct Hx as [Hx|Hx]; [right|left]; exact Hx.
    + intros x Hx. rewrite map_app, new_labels_dom. apply in_or_app. apply in_app_or in Hx.
      destruct Hx as [Hx|Hx]; [right; apply A3; apply PartSel; exact Hx|left; exact Hx].
    + intros x Hx. destruct Hx.
    + intros x Hx. rewrite map_app. apply in_or_app. right. apply in_app_or in Hx.
      destruct Hx as [Hx|Hx]; [apply A5; exact Hx|apply PartDom; exact Hx].
    + intros p Hp x Hx. rewrite map_app. apply in_or_app. right. apply (A6 p Hp x Hx).
    + intros p Hp x Hx. rewrite map_app. apply in_or_app. right. apply (A7 p Hp x Hx).
    + intros o Ho. destruct Ho.
    + intros C. discriminate C.
    + exact A10.
Qed.

(* ---------- union ---------- *)
Lemma assoc_s_find (ls : slabels) n L :
  assoc_s n (map (fun u => (label ls u, u)) L) = find (fun u => String.eqb (label ls u) n) L.
Proof.
  induction L as [|u L IH]; [reflexivity|]. simpl. rewrite String.eqb_sym.
  destruct (String.eqb (label ls u) n); [reflexivity|exact IH].
Qed.

Lemma map_opt_spec {X Y} (f : X -> option Y) : forall l ys, map_opt f l = Some ys -> Forall2 (fun x y => f x = Some y) l ys.
Proof.
  induction l as [|x l IH]; intros ys H; simpl in H.
  - inversion H. constructor.
  - destruct (f x) as [y|] eqn:E; [|discriminate]. destruct (map_opt f l) as [ys'|]; [|discriminate].
    inversion H; subst. constructor; [exact E|apply IH; reflexivity].
Qed.

Lemma dedup_rel (vis : row -> list value) : forall all vals seen,
  Forall2 (fun r v => vis r = v) all vals ->
  Forall2 (fun r v => vis r = v) (dedup_rows seen vis all) (dedup_vals seen vals).
Proof.
  induction all as [|r all IH]; intros vals seen H; inversion H as [|? v ? vals' Hrv Hrest]; subst; simpl; [constructor|].
  destruct (existsb (values_eqb (vis r)) seen); [apply IH; exact Hrest|].
  constructor; [reflexivity|apply IH; exact Hrest].
Qed.

Lemma label_self (ls : slabels) L u : In u L -> label (map (fun x => (x, label ls x)) L) u = label ls u.
Proof.
  unfold label at 1. induction L as [|y L IH]; intros H; [destruct H|]. simpl.
  destruct (N.eqb_spec u y) as [E|E]; [subst; reflexivity|].
  destruct H as [H|H]; [congruence|]. apply IH. exact H.
Qed.

Lemma def_self L u : In u L -> def_of (map (fun x => (x, ECol x)) L) u = ECol u.
Proof.
  unfold def_of. induction L as [|y L IH]; intros H; [destruct H|]. simpl.
  destruct (N.eqb_spec u y) as [E|E]; [subst; reflexivity|].
  destruct H as [H|H]; [congruence|]. apply IH. exact H.
Qed.

Definition union_compiled (cl cr : compiled) (rsel : list uid) (distinct : bool) : compiled :=
  let lsel := q_select (c_q cl) in
  {| c_from := FRows (fun d =>
                 let all := f_rows (sem_query d cl) ++ f_rows (sem_query d (with_q cr (set_select (c_q cr) rsel))) in
                 map (zip_row lsel) (if distinct then dedup_vals [] all else all));
     c_cols := lsel; c_q := q0 lsel;
     c_labels := map (fun u => (u, label (c_labels cl) u)) lsel;
     c_defs := map (fun u => (u, ECol u)) lsel;
     c_scope := lsel |}.

Lemma Forall2_map_l_inv {A B C} (R : C -> B -> Prop) (f : A -> C) : forall l l',
  Forall2 R (map f l) l' -> Forall2 (fun a b => R (f a) b) l l'.
Proof.
  induction l as [|a l IH]; intros l' H; simpl in H; inversion H; subst; constructor; auto.
Qed.

Lemma zip_row_get_in (f : uid -> value) L x : In x L -> get (zip_row L (map f L)) x = f x.
Proof. apply get_zip_row_map. Qed.

Lemma Forall2_map_self {A B} (f g : A -> B) (L : list A) : (forall x, f x = g x) -> Forall2 (fun r v => f r = v) L (map g L).
Proof. intros H. induction L; simpl; constructor; auto. Qed.

Lemma get_zip_other L : forall vs u v x, x <> u -> get (zip_row (u :: L) (v :: vs)) x = get (zip_row L vs) x.
Proof. intros vs u v x N. simpl. destruct (N.eqb_spec u x); [congruence|reflexivity]. Qed.

Lemma zip_vis : forall L vs, NoDup L -> List.length vs = List.length L -> map (get (zip_row L vs)) L = vs.
Proof.
  induction L as [|u L IH]; intros [|v vs] ND Hlen; simpl in Hlen; try discriminate; [reflexivity|].
  inversion ND as [|? ? Hnin ND']; subst. cbn [map]. f_equal.
  - simpl. rewrite N.eqb_refl. reflexivity.
  - rewrite <- (IH vs ND') at 2 by (injection Hlen; auto).
    apply map_ext_in. intros x Hx. apply get_zip_other. intros E. subst. contradiction.
Qed.

Lemma union_case d sl sr cl cr rsel distinct :
  Inv d sl cl -> Aux cl -> Inv d sr cr -> Aux cr ->
  union_right_select cl cr = Some rsel -> NoDup (q_select (c_q cl)) ->
  Inv d (do_union sl sr distinct) (union_compiled cl cr rsel distinct) /\ Aux (union_compiled cl cr rsel distinct).
Proof.
  intros Il Al Ir Ar Hsel ND. set (lsel := q_select (c_q cl)) in *.
  pose proof (map_opt_spec _ _ _ Hsel) as Hfind. unfold by_name in Hfind.
  apply Forall2_map_l_inv in Hfind. fold lsel in Hfind.
  assert (Hrin : forall u, In u rsel -> In u (q_select (c_q cr))).
  { clear Hsel ND. induction Hfind as [|n y L ys Hny _ IH]; intros u Hu; [destruct Hu|].
    destruct Hu as [<-|Hu]; [|apply IH; exact Hu]. apply find_some in Hny. tauto. }
  (* the two operands as frames *)
  pose proof (inv_frame d sl cl Il Al) as Fl.
  assert (Hforall : forallb (fun u => mem_u u (q_select (c_q cr))) rsel = true).
  { apply forallb_forall. intros u Hu. apply mem_u_In. apply Hrin. exact Hu. }
  destruct (select_case d sr cr rsel Ir Ar Hforall) as [Ir' Ar'].
  pose proof (inv_frame d _ _ Ir' Ar') as Fr.
  destruct Il as [Rl Sl Gl]. destruct Ir as [Rr Sr Gr].
  assert (ELr : f_rows (sem_query d cl) = map (fun r => map (get r) lsel) (rows sl)).
  { rewrite <- Fl. unfold export_ref. cbn [f_rows]. rewrite Sl. apply map_ext. intros r. rewrite map_map. reflexivity. }
  assert (ERr : f_rows (sem_query d (with_q cr (set_select (c_q cr) rsel))) = map (fun r => map (get r) rsel) (rows sr)).
  { rewrite <- Fr. unfold export_ref. cbn [f_rows sel rows]. apply map_ext. intros r. rewrite map_map. reflexivity. }
  (* a converted right row is the right row projected on the reordered select list, keyed by the left uids *)
  assert (Econv : forall rr,
    map (fun p : string * uid => (snd p, match assoc_s (fst p) (sel sr) with Some ur => get rr ur | None => VErr end)) (sel sl)
    = zip_row lsel (map (get rr) rsel)).
  { intros rr. rewrite Sl, Sr, map_map. cbn [fst snd]. fold lsel. clear - Hfind.
    induction Hfind as [|u y L ys Huy _ IH]; [reflexivity|]. simpl. rewrite assoc_s_find, Huy, IH. reflexivity. }
  assert (Hlen : List.length rsel = List.length lsel).
  { symmetry. apply (Forall2_length' _ _ _ Hfind). }
  split.
  - constructor.
    + (* rows *)
      assert (FU : final_units d (union_compiled cl cr rsel distinct)
                   = let iw := index_rows (base_rows d (union_compiled cl cr rsel distinct)) in map (fun ir => (iw, ir)) iw).
      { unfold final_units, units, units_of, order_units, cut. cbn [union_compiled c_q q0 q_limit q_order q_summ q_where q_having c_defs].
        rewrite !(filter_ext (all_true _ []) (fun _ => true)) by reflexivity.
        rewrite (filter_ext (fun r => all_true _ [] (mk1 r)) (fun _ => true)) by reflexivity. rewrite !filter_true. reflexivity. }
      rewrite FU. cbv zeta. apply Forall2_map_r.
      generalize (index_rows (base_rows d (union_compiled cl cr rsel distinct))) at 1. intros ctx.
      apply Forall2_index_rows_r.
      unfold base_rows. cbn [union_compiled c_from c_cols c_scope c_defs]. fold lsel. rewrite ELr, ERr.
      cbn [rows do_union].
      set (vis := fun x : row => map (fun p : string * uid => get x (snd p)) (sel sl)).
      assert (Evis : forall x, vis x = map (get x) lsel).
      { intros x. unfold vis. rewrite Sl, map_map. reflexivity. }
      set (all := rows sl ++ map (fun rr => map (fun p : string * uid => (snd p, match assoc_s (fst p) (sel sr) with Some ur => get rr ur | None => VErr end)) (sel sl)) (rows sr)).
      set (vals := map (fun r => map (get r) lsel) (rows sl) ++ map (fun r => map (get r) rsel) (rows sr)).
      assert (Hall : Forall2 (fun r v => vis r = v) all vals).
      { unfold all, vals. apply Forall2_app.
        - apply Forall2_map_self. exact Evis.
        - apply Forall2_map_l. apply Forall2_map_self. intros rr. rewrite Evis, Econv.
          apply zip_vis; [exact ND|]. rewrite map_length. exact Hlen. }
      assert (Hfin : Forall2 (fun r v => vis r = v) (if distinct then dedup_rows [] vis all else all)
                                                    (if distinct then dedup_vals [] vals else vals)).
      { destruct distinct; [apply dedup_rel|]; exact Hall. }
      apply Forall2_map_r. eapply Forall2_impl'; [|exact Hfin].
      intros r v Hrv i x Hx. unfold evd. cbn [fst snd]. rewrite (def_self lsel x Hx). simpl.
      rewrite <- Hrv, Evis. symmetry. apply (zip_row_get_in (get r) lsel x Hx).
    + cbn [sel do_union union_compiled c_q q0 q_select c_labels]. fold lsel. rewrite Sl. fold lsel.
      apply map_ext_in. intros u Hu. rewrite (label_self (c_labels cl) lsel u Hu). reflexivity.
    + reflexivity.
  - constructor; cbn [union_compiled c_q q0 c_defs c_labels c_scope q_select q_part q_group q_where q_having q_order q_summ q_limit q_offset]; fold lsel.
    + intros x Hx. rewrite map_map. simpl. rewrite map_id. exact Hx.
    + auto.
    + intros x Hx. rewrite map_map. simpl. rewrite map_id. exact Hx.
    + intros x Hx. destruct Hx.
    + intros x Hx. destruct Hx.
    + intros p Hp. destruct Hp.
    + intros p Hp. destruct Hp.
    + intros o Ho. destruct Ho.
    + intros _. split; reflexivity.
    + intros l H. discriminate H.
Qed.

(* ---------- inner join ---------- *)
Lemma get_nokey (r : row) u : ~ In u (map fst r) -> get r u = VNull.
Proof.
  induction r as [|[k v] r IH]; intros H; [reflexivity|]. simpl.
  destruct (N.eqb_spec k u) as [E|E]; [exfalso; apply H; left; exact E|]. apply IH. intros C. apply H. right. exact C.
Qed.
Lemma get_app_nokey_l (lr rr : row) u : ~ In u (map fst lr) -> get (lr ++ rr) u = get rr u.
Proof.
  induction lr as [|[k v] lr IH]; intros H; [reflexivity|]. simpl.
  destruct (N.eqb_spec k u) as [E|E]; [exfalso; apply H; left; exact E|]. apply IH. intros C. apply H. right. exact C.
Qed.
Lemma get_app_nokey_r (lr rr : row) u : ~ In u (map fst rr) -> get (lr ++ rr) u = get lr u.
Proof.
  intros H. induction lr as [|[k v] lr IH]; simpl; [apply get_nokey; exact H|].
  destruct (N.eqb k u); [reflexivity|exact IH].
Qed.

Lemma disjointb_spec a b : disjointb a b = true -> forall x, In x a -> ~ In x b.
Proof.
  unfold disjointb. intros H x Hx C. rewrite forallb_forall in H. specialize (H x Hx).
  apply mem_u_In in C. rewrite C in H. discriminate H.
Qed.

(* which FROM columns a compiled query reads: the keys of its FROM rows and the columns mentioned by its
   inlined definitions are FROM columns *)
Record Base (c : compiled) : Prop := {
  b_keys : forall d b x, In b (base_rows d c) -> In x (map fst b) -> In x (c_cols c);
  b_defs : forall x y, In y (cols (def_of (c_defs c) x)) -> In y (c_cols c)
}.

Lemma in_flat_map_map {X} (g : X -> list uid) (f : X -> X) (l : list X) y :
  In y (flat_map g (map f l)) -> exists a, In a l /\ In y (g (f a)).
Proof.
  intros H. apply in_flat_map in H. destruct H as [b [Hb Hy]]. apply in_map_iff in Hb. destruct Hb as [a [<- Ha]].
  exists a. split; assumption.
Qed.

Lemma cols_subst K ds : (forall x y, In y (cols (def_of ds x)) -> In y K) ->
  forall e y, In y (cols (subst ds e)) -> In y K.
Proof.
  intros HK. apply (expr_ind2 (fun e => forall y, In y (cols (subst ds e)) -> In y K)).
  - intros u y H. apply (HK u y H).
  - intros v y H. destruct H.
  - intros e t IH y H. apply IH. exact H.
  - intros cs dflt IHcs IHd y H. cbn [subst cols] in H. apply in_app_or in H. destruct H as [H|H].
    + apply in_flat_map in H. destruct H as [ce [Hce Hy]]. apply in_map_iff in Hce. destruct Hce as [ce0 [<- Hce0]].
      rewrite Forall_forall in IHcs. destruct (IHcs ce0 Hce0) as [Hc Hv]. cbn [fst snd] in Hy.
      apply in_app_or in Hy. destruct Hy as [Hy|Hy]; [apply Hc|apply Hv]; exact Hy.
    + destruct dflt as [x|]; [|destruct H]. apply IHd. exact H.
  - intros o args hp part arr IHa IHp IHr y H. cbn [subst cols] in H.
    apply in_app_or in H. destruct H as [H|H].
    + apply in_flat_map_map in H. destruct H as [a [Ha Hy]]. rewrite Forall_forall in IHa. apply (IHa a Ha y Hy).
    + apply in_app_or in H. destruct H as [H|H].
      * apply in_flat_map_map in H. destruct H as [a [Ha Hy]]. rewrite Forall_forall in IHp. apply (IHp a Ha y Hy).
      * apply in_flat_map in H. destruct H as [ka [Hka Hy]]. apply in_map_iff in Hka. destruct Hka as [ka0 [<- Hka0]].
        rewrite Forall_forall in IHr. cbn [fst] in Hy. apply (IHr ka0 Hka0 y Hy).
Qed.

Lemma def_of_app_cases (new ds : sdefs) x : def_of (new ++ ds) x = def_of new x \/ def_of (new ++ ds) x = def_of ds x.
Proof.
  unfold def_of. destruct (assoc_u x new) as [e|] eqn:E.
  - left. rewrite (assoc_u_app_found _ _ _ _ E). reflexivity.
  - right. rewrite assoc_u_app_other; [reflexivity|]. intros C. destruct (assoc_u_in_dom _ _ C) as [v Hv]. congruence.
Qed.

Lemma base_new_defs K ds defs : (forall x y, In y (cols (def_of ds x)) -> In y K) ->
  forall x y, In y (cols (def_of (new_defs ds defs ++ ds) x)) -> In y K.
Proof.
  intros HK x y H. destruct (def_of_app_cases (new_defs ds defs) ds x) as [E|E]; rewrite E in H; [|apply (HK x y H)].
  unfold def_of in H. destruct (assoc_u x (new_defs ds defs)) as [e|] eqn:Ea; [|destruct H].
  assert (Hin : exists dd, In dd defs /\ e = subst ds (snd dd)).
  { clear -Ea. unfold new_defs in Ea. induction defs as [|d0 defs IH]; simpl in Ea; [discriminate|].
    destruct (N.eqb x (snd (fst d0))); [inversion Ea; exists d0; split; [left; reflexivity|reflexivity]|].
    destruct (IH Ea) as [dd [A B]]. exists dd. split; [right; exact A|exact B]. }
  destruct Hin as [dd [_ ->]]. apply (cols_subst K ds HK _ y H).
Qed.

Definition marker_compiled (cc : compiled) : compiled :=
  let sc := c_scope cc in
  let q := c_q cc in
  {| c_from := FRows (fun d => map (fun u => map (fun x => (x, evd (c_defs cc) u x)) sc) (final_units d cc));
     c_cols := sc;
     c_q := {| q_select := q_select q; q_part := q_part q; q_group := []; q_where := []; q_having := [];
               q_order := []; q_limit := None; q_offset := 0; q_summ := false |};
     c_labels := c_labels cc;
     c_defs := map (fun x => (x, ECol x)) sc;
     c_scope := sc |}.

Definition alias_marker_compiled (m : list (uid * uid)) (cc : compiled) : compiled :=
  let sc := c_scope cc in
  let q := c_q cc in
  {| c_from := FRows (fun d => map (fun u => map (fun x => (remap_uid m x, evd (c_defs cc) u x)) sc) (final_units d cc));
     c_cols := map (remap_uid m) sc;
     c_q := {| q_select := map (remap_uid m) (q_select q); q_part := map (remap_uid m) (q_part q);
               q_group := []; q_where := []; q_having := [];
               q_order := []; q_limit := None; q_offset := 0; q_summ := false |};
     c_labels := map (fun ul => (remap_uid m (fst ul), snd ul)) (c_labels cc);
     c_defs := map (fun x => (remap_uid m x, ECol (remap_uid m x))) sc;
     c_scope := map (remap_uid m) sc |}.

Lemma compile_marker_alias c0 m :
  compile (SubqueryMarker (Alias c0 (Some m))) = match compile c0 with Some cc => Some (alias_marker_compiled m cc) | None => None end.
Proof. reflexivity. Qed.
Lemma compile_marker_generic a : (forall c0 m, a <> Alias c0 (Some m)) ->
  compile (SubqueryMarker a) = match compile a with Some cc => Some (marker_compiled cc) | None => None end.
Proof. intros H. destruct a as [| | | | | | | | | |a0 [m|]| | |]; try reflexivity. exfalso. apply (H a0 m). reflexivity. Qed.
Lemma flat_ok_marker_alias c0 m :
  flat_ok (SubqueryMarker (Alias c0 (Some m))) =
  flat_ok c0 && match compile c0 with
                | Some cc =>
                    let U := ast_uids c0 ++ c_scope cc ++ map fst (c_labels cc) in
                    forallb (fun a => forallb (fun b => implb (N.eqb (remap_uid m a) (remap_uid m b)) (N.eqb a b)) U) U
                | None => false
                end.
Proof. reflexivity. Qed.
Lemma flat_ok_marker_generic a : (forall c0 m, a <> Alias c0 (Some m)) -> flat_ok (SubqueryMarker a) = flat_ok a.
Proof. intros H. destruct a as [| | | | | | | | | |a0 [m|]| | |]; try reflexivity. exfalso. apply (H a0 m). reflexivity. Qed.
Lemma alias_some_dec (a : ast) : (exists c0 m, a = Alias c0 (Some m)) \/ (forall c0 m, a <> Alias c0 (Some m)).
Proof. destruct a as [| | | | | | | | | |a0 [m|]| | |]; try (right; intros; discriminate). left. exists a0, m. reflexivity. Qed.

Fixpoint asize (a : ast) : nat :=
  match a with
  | Source _ _ => 1
  | Select c _ | Rename c _ | Mutate c _ | Filter c _ | Arrange c _ | SliceHead c _ _
  | GroupBy c _ _ | Ungroup c | Summarize c _ | Alias c _ | SubqueryMarker c => S (asize c)
  | Join l r _ _ | Union l r _ => S (asize l + asize r)
  end.

Theorem compile_base : forall a c, compile a = Some c -> Base c.
Proof.
  intros a. remember (asize a) as sz eqn:Hsz. revert a Hsz. induction sz as [sz IHsz] using lt_wf_ind. intros a Hsz.
  assert (IH0 : forall b, asize b < asize a -> forall c, compile b = Some c -> Base c).
  { intros b Hb. apply (IHsz (asize b)); [lia|reflexivity]. }
  clear IHsz Hsz.
  destruct a as [t cs|a us|a m|a defs|a ps|a os|a n k|a us add|a|a defs|a m|a|l r on how|l r dis];
    try (pose proof (IH0 a ltac:(cbn [asize]; lia)) as IH);
    try (pose proof (IH0 l ltac:(cbn [asize]; lia)) as IHl); try (pose proof (IH0 r ltac:(cbn [asize]; lia)) as IHr);
    intros c C; lazymatch type of C with compile (SubqueryMarker _) = _ => idtac | _ => cbn [compile] in C end.
  - inversion C; subst; clear C. constructor; cbn [base_rows c_from c_cols c_defs].
    + intros d b x Hb Hx. apply in_map_iff in Hb. destruct Hb as [vs [<- _]]. apply (zip_row_keys _ _ _ Hx).
    + intros x y H. unfold def_of in H.
      destruct (assoc_u x (map (fun p : string * uid => (snd p, ECol (snd p))) cs)) as [e|] eqn:E; [|destruct H].
      clear -E H. induction cs as [|[n u] cs IH]; simpl in E; [discriminate|].
      destruct (N.eqb x u); [inversion E; subst; simpl in H; destruct H as [<-|[]]; left; reflexivity|right; apply IH; exact E].
  - destruct (compile a) as [cc|] eqn:E; [|discriminate C]. inversion C; subst. destruct (IH cc eq_refl) as [B1 B2]. constructor; assumption.
  - destruct (compile a) as [cc|] eqn:E; [|discriminate C]. inversion C; subst. destruct (IH cc eq_refl) as [B1 B2]. constructor; assumption.
  - destruct (compile a) as [cc|] eqn:E; [|discriminate C]. inversion C; subst. destruct (IH cc eq_refl) as [B1 B2].
    constructor; cbn [base_rows c_from c_cols c_defs]; [exact B1|]. apply base_new_defs. exact B2.
  - destruct (compile a) as [cc|] eqn:E; [|discriminate C]. inversion C; subst. destruct (IH cc eq_refl) as [B1 B2]. constructor; assumption.
  - destruct (compile a) as [cc|] eqn:E; [|discriminate C]. inversion C; subst. destruct (IH cc eq_refl) as [B1 B2]. constructor; assumption.
  - destruct (compile a) as [cc|] eqn:E; [|discriminate C]. inversion C; subst. destruct (IH cc eq_refl) as [B1 B2]. constructor; assumption.
  - destruct (compile a) as [cc|] eqn:E; [|discriminate C]. inversion C; subst. destruct (IH cc eq_refl) as [B1 B2]. constructor; assumption.
  - destruct (compile a) as [cc|] eqn:E; [|discriminate C]. inversion C; subst. destruct (IH cc eq_refl) as [B1 B2]. constructor; assumption.
  - destruct (compile a) as [cc|] eqn:E; [|discriminate C]. inversion C; subst. destruct (IH cc eq_refl) as [B1 B2].
    constructor; cbn [base_rows c_from c_cols c_defs]; [exact B1|]. apply base_new_defs. exact B2.
  - destruct m as [m|]; [|apply IH; exact C].
    destruct (compile a) as [cc|] eqn:E; [|discriminate C]. inversion C; subst; clear C. destruct (IH cc eq_refl) as [B1 B2].
    constructor; cbn [base_rows c_from c_cols c_defs]; [exact B1|].
    intros x y H. destruct (def_of_app_cases (map (fun on : uid * uid => (snd on, def_of (c_defs cc) (fst on))) m) (c_defs cc) x) as [E2|E2];
      rewrite E2 in H; [|apply (B2 x y H)].
    unfold def_of at 1 in H.
    destruct (assoc_u x (map (fun on : uid * uid => (snd on, def_of (c_defs cc) (fst on))) m)) as [e|] eqn:Ea; [|destruct H].
    clear -Ea H B2. induction m as [|[o n] m IHm]; simpl in Ea; [discriminate|].
    destruct (N.eqb x n); [inversion Ea; subst; apply (B2 o y H)|apply IHm; exact Ea].
  - destruct (alias_some_dec a) as [[c0 [m ->]]|Hna].
    + rewrite compile_marker_alias in C. destruct (compile c0) as [cc|] eqn:E; [|discriminate C]. inversion C; subst; clear C.
      constructor; cbn [alias_marker_compiled base_rows c_from c_cols c_defs].
      * intros d b x Hb Hx. apply in_map_iff in Hb. destruct Hb as [u [<- _]]. rewrite map_map in Hx. simpl in Hx. exact Hx.
      * intros x y H. unfold def_of in H.
        destruct (assoc_u x (map (fun u : uid => (remap_uid m u, ECol (remap_uid m u))) (c_scope cc))) as [e|] eqn:Ea; [|destruct H].
        clear -Ea H. induction (c_scope cc) as [|u L IHL]; simpl in Ea; [discriminate|].
        destruct (N.eqb x (remap_uid m u)); [inversion Ea; subst; simpl in H; destruct H as [<-|[]]; left; reflexivity|right; apply IHL; exact Ea].
    + rewrite (compile_marker_generic a Hna) in C. destruct (compile a) as [cc|] eqn:E; [|discriminate C]. inversion C; subst; clear C.
      constructor; cbn [marker_compiled base_rows c_from c_cols c_defs].
      * intros d b x Hb Hx. apply in_map_iff in Hb. destruct Hb as [u [<- _]]. rewrite map_map in Hx. simpl in Hx.
        rewrite map_id in Hx. exact Hx.
      * intros x y H. unfold def_of in H.
        destruct (assoc_u x (map (fun u : uid => (u, ECol u)) (c_scope cc))) as [e|] eqn:Ea; [|destruct H].
        clear -Ea H. induction (c_scope cc) as [|u L IHL]; simpl in Ea; [discriminate|].
        destruct (N.eqb x u); [inversion Ea; subst; simpl in H; destruct H as [<-|[]]; left; reflexivity|right; apply IHL; exact Ea].
  - destruct how; try discriminate C.
    + destruct (compile l) as [cl|] eqn:El; [|discriminate C]. destruct (compile r) as [cr|] eqn:Er; [|discriminate C].
      inversion C; subst; clear C. destruct (IHl cl eq_refl) as [L1 L2]. destruct (IHr cr eq_refl) as [R1 R2].
      constructor; cbn [base_rows c_from c_cols c_defs].
      * intros d b x Hb Hx. apply in_flat_map in Hb. destruct Hb as [bl [Hbl Hb]]. apply in_map_iff in Hb.
        destruct Hb as [br [<- Hbr]]. apply filter_In in Hbr. destruct Hbr as [Hbr _]. rewrite map_app in Hx.
        apply in_or_app. apply in_app_or in Hx. destruct Hx as [Hx|Hx]; [left; apply (L1 d bl x Hbl Hx)|right; apply (R1 d br x Hbr Hx)].
      * intros x y H. apply in_or_app. destruct (def_of_app_cases (c_defs cr) (c_defs cl) x) as [E|E]; rewrite E in H;
          [right; apply (R2 x y H)|left; apply (L2 x y H)].
    + destruct (compile l) as [cl|] eqn:El; [|discriminate C]. destruct (compile r) as [cr|] eqn:Er; [|discriminate C].
      inversion C; subst; clear C. destruct (IHl cl eq_refl) as [L1 L2]. destruct (IHr cr eq_refl) as [R1 R2].
      constructor; cbn [base_rows c_from c_cols c_defs].
      * intros d b x Hb Hx. apply in_flat_map in Hb. destruct Hb as [bl [Hbl Hb]].
        match type of Hb with context [filter ?p ?L] => destruct (filter p L) as [|m ms] eqn:Ef end.
        -- destruct Hb as [<-|[]]. apply in_or_app. left. apply (L1 d bl x Hbl Hx).
        -- change (In b (map (fun br : list (uid * value) => (bl ++ br)%list) (m :: ms))) in Hb.
           apply in_map_iff in Hb. destruct Hb as [br [<- Hbr]].
           assert (Hbr' : In br (base_rows d cr)).
           { assert (Hin : In br (m :: ms)) by exact Hbr. rewrite <- Ef in Hin. apply filter_In in Hin. tauto. }
           rewrite map_app in Hx. apply in_or_app. apply in_app_or in Hx.
           destruct Hx as [Hx|Hx]; [left; apply (L1 d bl x Hbl Hx)|right; apply (R1 d br x Hbr' Hx)].
      * intros x y H. apply in_or_app. destruct (def_of_app_cases (c_defs cr) (c_defs cl) x) as [E|E]; rewrite E in H;
          [right; apply (R2 x y H)|left; apply (L2 x y H)].
    + destruct (compile l) as [cl|] eqn:El; [|discriminate C]. destruct (compile r) as [cr|] eqn:Er; [|discriminate C].
      destruct (q_where (c_q cl)); [|discriminate C]. destruct (q_where (c_q cr)); [|discriminate C].
      inversion C; subst; clear C. destruct (IHl cl eq_refl) as [L1 L2]. destruct (IHr cr eq_refl) as [R1 R2].
      constructor; cbn [base_rows c_from c_cols c_defs].
      * intros d b x Hb Hx. apply in_app_or in Hb. destruct Hb as [Hb|Hb].
        -- apply in_flat_map in Hb. destruct Hb as [bl [Hbl Hb]].
           match type of Hb with context [filter ?p ?L] => destruct (filter p L) as [|m ms] eqn:Ef end.
           ++ destruct Hb as [<-|[]]. apply in_or_app. left. apply (L1 d bl x Hbl Hx).
           ++ change (In b (map (fun br : list (uid * value) => (bl ++ br)%list) (m :: ms))) in Hb.
              apply in_map_iff in Hb. destruct Hb as [br [<- Hbr]].
              assert (Hbr' : In br (base_rows d cr)).
              { assert (Hin : In br (m :: ms)) by exact Hbr. rewrite <- Ef in Hin. apply filter_In in Hin. tauto. }
              rewrite map_app in Hx. apply in_or_app. apply in_app_or in Hx.
              destruct Hx as [Hx|Hx]; [left; apply (L1 d bl x Hbl Hx)|right; apply (R1 d br x Hbr' Hx)].
        -- apply filter_In in Hb. destruct Hb as [Hb _]. apply in_or_app. right. apply (R1 d b x Hb Hx).
      * intros x y H. apply in_or_app. destruct (def_of_app_cases (c_defs cr) (c_defs cl) x) as [E|E]; rewrite E in H;
          [right; apply (R2 x y H)|left; apply (L2 x y H)].
  - destruct (compile l) as [cl|] eqn:El; [|discriminate C]. destruct (compile r) as [cr|] eqn:Er; [|discriminate C].
    destruct (union_right_select cl cr) as [rsel|]; [|discriminate C]. inversion C; subst; clear C.
    constructor; cbn [base_rows c_from c_cols c_defs].
    + intros d b x Hb Hx. apply in_map_iff in Hb. destruct Hb as [vs [<- _]]. apply (zip_row_keys _ _ _ Hx).
    + intros x y H. unfold def_of in H.
      destruct (assoc_u x (map (fun u : uid => (u, ECol u)) (q_select (c_q cl)))) as [e|] eqn:E; [|destruct H].
      clear -E H. induction (q_select (c_q cl)) as [|u L IH]; simpl in E; [discriminate|].
      destruct (N.eqb x u); [inversion E; subst; simpl in H; destruct H as [<-|[]]; left; reflexivity|right; apply IH; exact E].
Qed.

Definition join_compiled (cl cr : compiled) (on : expr) : compiled :=
  let ds := c_defs cr ++ c_defs cl in
  let q := c_q cl in
  {| c_from := FRows (fun d =>
                  flat_map (fun bl => map (fun br => (bl ++ br)%list)
                                          (filter (fun br => on_holds ds on (bl ++ br)%list) (base_rows d cr)))
                           (base_rows d cl));
     c_cols := c_cols cl ++ c_cols cr;
     c_q := {| q_select := q_select q ++ q_select (c_q cr); q_part := q_part q; q_group := q_group q;
               q_where := q_where q ++ q_where (c_q cr); q_having := q_having q;
               q_order := q_order q; q_limit := q_limit q; q_offset := q_offset q; q_summ := q_summ q |};
     c_labels := c_labels cr ++ c_labels cl;
     c_defs := ds;
     c_scope := c_scope cl ++ c_scope cr |}.

Lemma eval_on_cols e (r r' : row) i : (forall x, In x (cols e) -> get r x = get r' x) -> eval [] (i, r) e = eval [] (i, r') e.
Proof. intros H. apply eval_rel; [constructor|]. split; [reflexivity|exact H]. Qed.

Lemma Forall2_flat_map {A B C D} (R1 : A -> B -> Prop) (R2 : C -> D -> Prop) (f : A -> list C) (g : B -> list D) l l' :
  Forall2 R1 l l' -> (forall a b, R1 a b -> Forall2 R2 (f a) (g b)) -> Forall2 R2 (flat_map f l) (flat_map g l').
Proof.
  intros H HF. induction H as [|a b l l' Hab _ IH]; simpl; [constructor|]. apply Forall2_app; [apply HF; exact Hab|exact IH].
Qed.

Lemma filter_flat_map {A B} (p : B -> bool) (f : A -> list B) l : filter p (flat_map f l) = flat_map (fun x => filter p (f x)) l.
Proof. induction l as [|x l IH]; simpl; [reflexivity|]. rewrite filter_app, IH. reflexivity. Qed.

Lemma flat_map_filter_if {A B} (p : A -> bool) (f : A -> list B) l :
  flat_map (fun x => if p x then f x else []) l = flat_map f (filter p l).
Proof. induction l as [|x l IH]; simpl; [reflexivity|]. destruct (p x); simpl; rewrite IH; reflexivity. Qed.

Lemma flat_map_ext_in {A B} (f g : A -> list B) l : (forall x, In x l -> f x = g x) -> flat_map f l = flat_map g l.
Proof. intros H. induction l as [|x l IH]; simpl; [reflexivity|]. rewrite (H x (or_introl eq_refl)), IH; [reflexivity|]. intros y Hy. apply H. right. exact Hy. Qed.

Lemma filter_filter_comm {A} (p q : A -> bool) l : filter p (filter q l) = filter q (filter p l).
Proof. induction l as [|x l IH]; simpl; [reflexivity|]. destruct (q x) eqn:Q, (p x) eqn:P; simpl; rewrite ?Q, ?P, IH; reflexivity. Qed.

Lemma filter_false {A} (l : list A) : filter (fun _ => false) l = [].
Proof. induction l; simpl; auto. Qed.

Lemma filter_const {A} (p : A -> bool) (b : bool) l : (forall e, In e l -> p e = b) -> filter p l = if b then l else [].
Proof.
  intros H. rewrite (filter_ext_in _ (fun _ => b) _ H). destruct b; [apply filter_true|apply filter_false].
Qed.

Lemma join_case d sl sr cl cr on (UL UR : list uid) :
  Inv d sl cl -> Aux cl -> Inv d sr cr -> Aux cr -> Base cl -> Base cr ->
  keys_in UL (rows sl) -> keys_in UR (rows sr) ->
  q_summ (c_q cl) = false -> no_limit (c_q cl) = true -> is_nil (q_order (c_q cl)) = true -> q_part (c_q cl) = [] -> ds_elem_b (c_defs cl) = true ->
  q_summ (c_q cr) = false -> no_limit (c_q cr) = true -> is_nil (q_order (c_q cr)) = true -> ds_elem_b (c_defs cr) = true ->
  elem on = true -> scoped (c_scope cl ++ c_scope cr) on = true ->
  (forall x, In x (c_scope cl) -> ~ In x UR) -> (forall x, In x (c_scope cr) -> ~ In x UL) ->
  (forall x, In x (c_cols cl) -> ~ In x (c_cols cr)) ->
  (forall x, In x (map fst (c_defs cl)) -> ~ In x (map fst (c_defs cr))) ->
  (forall x, In x (q_select (c_q cl)) -> ~ In x (map fst (c_labels cr))) ->
  Inv d (do_join sl sr on JInner) (join_compiled cl cr on) /\ Aux (join_compiled cl cr on).
Proof.
  intros Il Al Ir Ar Bl Br KL KR SuL NLl NOl PL DEl SuR NLr NOr DEr Eon Son DsR DsL Dc Dd Dl.
  pose proof (ds_elem_b_spec _ DEl) as Dl'. pose proof (ds_elem_b_spec _ DEr) as Dr'.
  destruct (a_nosumm cl Al SuL) as [HhL HgL]. destruct (a_nosumm cr Ar SuR) as [HhR HgR].
  set (dsl := c_defs cl) in *. set (dsr := c_defs cr) in *. set (ds := dsr ++ dsl).
  set (Bsl := base_rows d cl). set (Bsr := base_rows d cr).
  set (wl := fun b : row => all_true dsl (q_where (c_q cl)) (mk1 b)).
  set (wr := fun b : row => all_true dsr (q_where (c_q cr)) (mk1 b)).
  (* reference rows of the operands, related to the FROM rows that pass WHERE *)
  destruct Il as [Rl Sl Gl]. destruct Ir as [Rr Sr Gr].
  rewrite (final_units_rows d cl Al SuL NLl NOl) in Rl. cbv zeta in Rl.
  apply (units_plain_out (c_scope cl) dsl _ _ Dl') in Rl. fold Bsl wl in Rl.
  rewrite (final_units_rows d cr Ar SuR NLr NOr) in Rr. cbv zeta in Rr.
  apply (units_plain_out (c_scope cr) dsr _ _ Dr') in Rr. fold Bsr wr in Rr.
  (* definitions of the joined query *)
  assert (DefL : forall x, In x (map fst dsl) -> def_of ds x = def_of dsl x).
  { intros x Hx. unfold ds. apply def_of_app_other. intros C. apply (Dd x Hx C). }
  assert (DefR : forall x, In x (map fst dsr) -> def_of ds x = def_of dsr x).
  { intros x Hx. unfold ds, def_of. destruct (assoc_u_in_dom _ _ Hx) as [e He]. rewrite (assoc_u_app_found _ _ _ _ He), He. reflexivity. }
  assert (ElemDs : ds_elem ds).
  { intros x. destruct (def_of_app_cases dsr dsl x) as [E|E]; unfold ds; rewrite E; [apply Dr'|apply Dl']. }
  (* a FROM row of one operand is read unchanged inside a joined FROM row *)
  assert (GetL : forall bl br k, In bl Bsl -> In br Bsr -> In k (c_cols cl) -> get (bl ++ br) k = get bl k).
  { intros bl br k Hbl Hbr Hk. apply get_app_nokey_r. intros C. apply (Dc k Hk). apply (b_keys cr Br d br k Hbr C). }
  assert (GetR : forall bl br k, In bl Bsl -> In br Bsr -> In k (c_cols cr) -> get (bl ++ br) k = get br k).
  { intros bl br k Hbl Hbr Hk. apply get_app_nokey_l. intros C. apply (Dc k (b_keys cl Bl d bl k Hbl C) Hk). }
  assert (EvL : forall bl br x, In bl Bsl -> In br Bsr -> In x (map fst dsl) ->
                 eval [] (0%nat, (bl ++ br)%list) (def_of ds x) = eval [] (0%nat, bl) (def_of dsl x)).
  { intros bl br x Hbl Hbr Hx. rewrite (DefL x Hx). apply eval_on_cols. intros k Hk.
    apply (GetL bl br k Hbl Hbr). apply (b_defs cl Bl x k Hk). }
  assert (EvR : forall bl br x, In bl Bsl -> In br Bsr -> In x (map fst dsr) ->
                 eval [] (0%nat, (bl ++ br)%list) (def_of ds x) = eval [] (0%nat, br) (def_of dsr x)).
  { intros bl br x Hbl Hbr Hx. rewrite (DefR x Hx). apply eval_on_cols. intros k Hk.
    apply (GetR bl br k Hbl Hbr). apply (b_defs cr Br x k Hk). }
  (* WHERE of the joined query = WHERE of the left row and WHERE of the right row *)
  assert (WhL : forall bl br, In bl Bsl -> In br Bsr -> all_true ds (q_where (c_q cl)) (mk1 (bl ++ br)%list) = wl bl).
  { intros bl br Hbl Hbr. unfold wl, all_true. apply forallb_ext_in'. intros p Hp. f_equal. unfold ev, mk1. cbn [fst snd].
    rewrite (subst_ext_on p dsl ds) by (intros x Hx; apply DefL; apply (a_where_dom cl Al p Hp x Hx)).
    apply eval_on_cols. intros k Hk. apply (GetL bl br k Hbl Hbr). apply (cols_subst _ dsl (b_defs cl Bl) p k Hk). }
  assert (WhR : forall bl br, In bl Bsl -> In br Bsr -> all_true ds (q_where (c_q cr)) (mk1 (bl ++ br)%list) = wr br).
  { intros bl br Hbl Hbr. unfold wr, all_true. apply forallb_ext_in'. intros p Hp. f_equal. unfold ev, mk1. cbn [fst snd].
    rewrite (subst_ext_on p dsr ds) by (intros x Hx; apply DefR; apply (a_where_dom cr Ar p Hp x Hx)).
    apply eval_on_cols. intros k Hk. apply (GetR bl br k Hbl Hbr). apply (cols_subst _ dsr (b_defs cr Br) p k Hk). }
  (* the FROM rows of the joined query that pass its WHERE *)
  set (cj := join_compiled cl cr on).
  assert (EW : filter (fun b => all_true (c_defs cj) (q_where (c_q cj)) (mk1 b)) (base_rows d cj)
               = flat_map (fun bl => map (fun br => (bl ++ br)%list) (filter (fun br => on_holds ds on (bl ++ br)%list) (filter wr Bsr)))
                          (filter wl Bsl)).
  { unfold base_rows at 1. unfold cj, join_compiled. cbn [c_from c_defs c_q q_where]. fold dsl dsr ds Bsl Bsr.
    rewrite filter_flat_map, <- flat_map_filter_if. apply flat_map_ext_in. intros bl Hbl.
    rewrite filter_map_comm.
    rewrite (filter_ext_in _ (fun br => wl bl && wr br)).
    2:{ intros br Hbr. apply filter_In in Hbr. destruct Hbr as [Hbr _]. rewrite all_true_app, (WhL bl br Hbl Hbr), (WhR bl br Hbl Hbr). reflexivity. }
    destruct (wl bl).
    - cbn [andb]. rewrite filter_filter_comm. reflexivity.
    - cbn [andb]. rewrite filter_false. reflexivity. }
  (* a joined reference row and the joined FROM row agree *)
  assert (AgJ : forall lr rr bl br, In lr (rows sl) -> In rr (rows sr) -> In bl Bsl -> In br Bsr ->
                 agrees_on (c_scope cl) dsl (mk1 bl) lr -> agrees_on (c_scope cr) dsr (mk1 br) rr ->
                 agrees_on (c_scope cl ++ c_scope cr) ds (mk1 (bl ++ br)%list) (lr ++ rr)%list).
  { intros lr rr bl br Hlr Hrr Hbl Hbr Al0 Ar0 x Hx. unfold evd, mk1. cbn [fst snd]. apply in_app_or in Hx. destruct Hx as [Hx|Hx].
    - rewrite get_app_nokey_r by (intros C; apply (DsR x Hx); apply (KR rr x Hrr C)).
      rewrite (Al0 x Hx). unfold evd, mk1. cbn [fst snd]. symmetry. apply (EvL bl br x Hbl Hbr). apply (a_scope_dom cl Al x Hx).
    - rewrite get_app_nokey_l by (intros C; apply (DsL x Hx); apply (KL lr x Hlr C)).
      rewrite (Ar0 x Hx). unfold evd, mk1. cbn [fst snd]. symmetry. apply (EvR bl br x Hbl Hbr). apply (a_scope_dom cr Ar x Hx). }
  assert (SuJ : q_summ (c_q cj) = false) by exact SuL.
  assert (NLJ : no_limit (c_q cj) = true) by exact NLl.
  assert (NOJ : is_nil (q_order (c_q cj)) = true) by exact NOl.
  assert (AUX : Aux cj).
  { destruct Al as [A1 A2 A3 A4 A5 A6 A7 A8 A9 A10]. destruct Ar as [B1 B2 B3 B4 B5 B6 B7 B8 B9 B10].
    constructor; unfold cj, join_compiled; cbn [c_scope c_defs c_q c_labels q_select q_part q_group q_where q_having q_order q_summ q_limit q_offset]; fold dsl dsr.
    - intros x Hx. rewrite map_app. apply in_or_app. apply in_app_or in Hx. destruct Hx as [Hx|Hx]; [right; apply A1|left; apply B1]; exact Hx.
    - intros x Hx. apply in_or_app. apply in_app_or in Hx. destruct Hx as [Hx|Hx]; [left; apply A2|right; apply B2]; exact Hx.
    - intros x Hx. rewrite map_app. apply in_or_app. apply in_app_or in Hx. destruct Hx as [Hx|Hx]; [right; apply A3|left; apply B3]; exact Hx.
    - intros x Hx. rewrite PL in Hx. destruct Hx.
    - intros x Hx. rewrite HgL in Hx. destruct Hx.
    - intros p Hp x Hx. rewrite map_app. apply in_or_app. apply in_app_or in Hp. destruct Hp as [Hp|Hp]; [right; apply (A6 p Hp x Hx)|left; apply (B6 p Hp x Hx)].
    - intros p Hp. rewrite HhL in Hp. destruct Hp.
    - intros o Ho x Hx. rewrite map_app. apply in_or_app. right. apply (A8 o Ho x Hx).
    - intros _. split; assumption.
    - exact A10. }
  split; [|exact AUX].
  constructor.
  - rewrite (final_units_rows d cj AUX SuJ NLJ NOJ). cbv zeta. rewrite EW.
    apply (units_plain_in (c_scope cj) (c_defs cj) _ _ ElemDs).
    cbn [rows do_join]. rewrite app_nil_r.
    apply (Forall2_flat_map (fun lr bl => agrees_on (c_scope cl) dsl (mk1 bl) lr /\ In lr (rows sl) /\ In bl Bsl)).
    + clear -Rl. assert (H : Forall2 (fun lr bl => agrees_on (c_scope cl) dsl (mk1 bl) lr /\ In bl (filter wl Bsl)) (rows sl) (filter wl Bsl)).
      { apply Forall2_flip'. eapply Forall2_impl'; [|apply (Forall2_with_In _ _ _ (Forall2_flip' _ _ _ Rl))]. intros b r [H1 H2]. split; assumption. }
      pose proof (Forall2_with_In _ _ _ H) as H'. eapply Forall2_impl'; [|exact H']. intros lr bl [[H1 H2] H3].
      repeat split; [exact H1|exact H3|]. apply filter_In in H2. tauto.
    + intros lr bl [Agl [Hlr Hbl]]. unfold join_branch.
      assert (Hin : Forall2 (fun rr br => agrees_on (c_scope cr) dsr (mk1 br) rr /\ In rr (rows sr) /\ In br Bsr) (rows sr) (filter wr Bsr)).
      { assert (H : Forall2 (fun rr br => agrees_on (c_scope cr) dsr (mk1 br) rr /\ In br (filter wr Bsr)) (rows sr) (filter wr Bsr)).
        { apply Forall2_flip'. eapply Forall2_impl'; [|apply (Forall2_with_In _ _ _ (Forall2_flip' _ _ _ Rr))]. intros b r [H1 H2]. split; assumption. }
        pose proof (Forall2_with_In _ _ _ H) as H'. eapply Forall2_impl'; [|exact H']. intros rr br [[H1 H2] H3].
        repeat split; [exact H1|exact H3|]. apply filter_In in H2. tauto. }
      assert (Hf : Forall2 (fun rr br => agrees_on (c_scope cr) dsr (mk1 br) rr /\ In rr (rows sr) /\ In br Bsr)
                           (filter (on_true on lr) (rows sr)) (filter (fun br => on_holds ds on (bl ++ br)%list) (filter wr Bsr))).
      { apply Forall2_filter; [exact Hin|]. intros rr br [Agr [Hrr Hbr]]. unfold on_true, on_holds. f_equal.
        apply (subst_elem on Eon ds (mk1 (bl ++ br)%list) [] 0%nat (lr ++ rr)%list).
        eapply agrees_on_incl; [apply scoped_incl; exact Son|]. apply (AgJ lr rr bl br Hlr Hrr Hbl Hbr Agl Agr). }
      assert (Goal2 : Forall2 (fun r b => agrees_on (c_scope cj) (c_defs cj) (mk1 b) r)
                              (map (fun rr => (lr ++ rr)%list) (filter (on_true on lr) (rows sr)))
                              (map (fun br => (bl ++ br)%list) (filter (fun br => on_holds ds on (bl ++ br)%list) (filter wr Bsr)))).
      { apply Forall2_map_l. apply Forall2_map_r. eapply Forall2_impl'; [|exact Hf]. intros rr br [Agr [Hrr Hbr]].
        apply (AgJ lr rr bl br Hlr Hrr Hbl Hbr Agl Agr). }
      destruct (filter (on_true on lr) (rows sr)); exact Goal2.
  - cbn [sel do_join]. unfold cj, join_compiled. cbn [c_q c_labels q_select]. rewrite map_app, Sl, Sr. f_equal.
    + apply map_ext_in. intros u Hu. rewrite label_app_other by (apply Dl; exact Hu). reflexivity.
    + apply map_ext_in. intros u Hu. f_equal. unfold label.
      destruct (assoc_u_in_dom _ _ (a_sel_labels cr Ar u Hu)) as [n Hn]. rewrite (assoc_u_app_found _ _ _ _ Hn), Hn. reflexivity.
  - cbn [group do_join]. symmetry. exact PL.
Qed.

Definition left_join_compiled (cl cr : compiled) (on : expr) : compiled :=
  let ds := c_defs cr ++ c_defs cl in
  let q := c_q cl in
  {| c_from := FRows (fun d =>
                  flat_map (fun bl =>
                              match filter (fun br => on_holds ds on (bl ++ br)%list
                                                      && all_true (c_defs cr) (q_where (c_q cr)) (mk1 (bl ++ br)%list))
                                           (base_rows d cr) with
                              | [] => [bl]
                              | ms => map (fun br => (bl ++ br)%list) ms
                              end)
                           (base_rows d cl));
     c_cols := c_cols cl ++ c_cols cr;
     c_q := {| q_select := q_select q ++ q_select (c_q cr); q_part := q_part q; q_group := q_group q;
               q_where := q_where q; q_having := q_having q;
               q_order := q_order q; q_limit := q_limit q; q_offset := q_offset q; q_summ := q_summ q |};
     c_labels := c_labels cr ++ c_labels cl;
     c_defs := ds;
     c_scope := c_scope cl ++ c_scope cr |}.

Lemma left_join_case d sl sr cl cr on (UL UR : list uid) :
  Inv d sl cl -> Aux cl -> Inv d sr cr -> Aux cr -> Base cl -> Base cr ->
  keys_in UL (rows sl) -> keys_in UR (rows sr) ->
  q_summ (c_q cl) = false -> no_limit (c_q cl) = true -> is_nil (q_order (c_q cl)) = true -> q_part (c_q cl) = [] -> ds_elem_b (c_defs cl) = true ->
  q_summ (c_q cr) = false -> no_limit (c_q cr) = true -> is_nil (q_order (c_q cr)) = true -> ds_elem_b (c_defs cr) = true ->
  elem on = true -> scoped (c_scope cl ++ c_scope cr) on = true ->
  (forall x, In x (c_scope cl) -> ~ In x UR) -> (forall x, In x (c_scope cr) -> ~ In x UL) ->
  (forall x, In x (c_cols cl) -> ~ In x (c_cols cr)) ->
  (forall x, In x (map fst (c_defs cl)) -> ~ In x (map fst (c_defs cr))) ->
  (forall x, In x (q_select (c_q cl)) -> ~ In x (map fst (c_labels cr))) ->
  (forall x, In x (map fst (c_defs cr)) -> exists k, def_of (c_defs cr) x = ECol k) ->
  Inv d (do_join sl sr on JLeft) (left_join_compiled cl cr on) /\ Aux (left_join_compiled cl cr on).
Proof.
  intros Il Al Ir Ar Bl Br KL KR SuL NLl NOl PL DEl SuR NLr NOr DEr Eon Son DsR DsL Dc Dd Dl PlainR.
  pose proof (ds_elem_b_spec _ DEl) as Dl'. pose proof (ds_elem_b_spec _ DEr) as Dr'.
  destruct (a_nosumm cl Al SuL) as [HhL HgL]. destruct (a_nosumm cr Ar SuR) as [HhR HgR].
  set (dsl := c_defs cl) in *. set (dsr := c_defs cr) in *. set (ds := dsr ++ dsl).
  set (Bsl := base_rows d cl). set (Bsr := base_rows d cr).
  set (wl := fun b : row => all_true dsl (q_where (c_q cl)) (mk1 b)).
  set (wr := fun b : row => all_true dsr (q_where (c_q cr)) (mk1 b)).
  (* reference rows of the operands, related to the FROM rows that pass WHERE *)
  destruct Il as [Rl Sl Gl]. destruct Ir as [Rr Sr Gr].
  rewrite (final_units_rows d cl Al SuL NLl NOl) in Rl. cbv zeta in Rl.
  apply (units_plain_out (c_scope cl) dsl _ _ Dl') in Rl. fold Bsl wl in Rl.
  rewrite (final_units_rows d cr Ar SuR NLr NOr) in Rr. cbv zeta in Rr.
  apply (units_plain_out (c_scope cr) dsr _ _ Dr') in Rr. fold Bsr wr in Rr.
  (* definitions of the joined query *)
  assert (DefL : forall x, In x (map fst dsl) -> def_of ds x = def_of dsl x).
  { intros x Hx. unfold ds. apply def_of_app_other. intros C. apply (Dd x Hx C). }
  assert (DefR : forall x, In x (map fst dsr) -> def_of ds x = def_of dsr x).
  { intros x Hx. unfold ds, def_of. destruct (assoc_u_in_dom _ _ Hx) as [e He]. rewrite (assoc_u_app_found _ _ _ _ He), He. reflexivity. }
  assert (ElemDs : ds_elem ds).
  { intros x. destruct (def_of_app_cases dsr dsl x) as [E|E]; unfold ds; rewrite E; [apply Dr'|apply Dl']. }
  (* a FROM row of one operand is read unchanged inside a joined FROM row *)
  assert (GetL : forall bl br k, In bl Bsl -> In br Bsr -> In k (c_cols cl) -> get (bl ++ br) k = get bl k).
  { intros bl br k Hbl Hbr Hk. apply get_app_nokey_r. intros C. apply (Dc k Hk). apply (b_keys cr Br d br k Hbr C). }
  assert (GetR : forall bl br k, In bl Bsl -> In br Bsr -> In k (c_cols cr) -> get (bl ++ br) k = get br k).
  { intros bl br k Hbl Hbr Hk. apply get_app_nokey_l. intros C. apply (Dc k (b_keys cl Bl d bl k Hbl C) Hk). }
  assert (EvL : forall bl br x, In bl Bsl -> In br Bsr -> In x (map fst dsl) ->
                 eval [] (0%nat, (bl ++ br)%list) (def_of ds x) = eval [] (0%nat, bl) (def_of dsl x)).
  { intros bl br x Hbl Hbr Hx. rewrite (DefL x Hx). apply eval_on_cols. intros k Hk.
    apply (GetL bl br k Hbl Hbr). apply (b_defs cl Bl x k Hk). }
  assert (EvR : forall bl br x, In bl Bsl -> In br Bsr -> In x (map fst dsr) ->
                 eval [] (0%nat, (bl ++ br)%list) (def_of ds x) = eval [] (0%nat, br) (def_of dsr x)).
  { intros bl br x Hbl Hbr Hx. rewrite (DefR x Hx). apply eval_on_cols. intros k Hk.
    apply (GetR bl br k Hbl Hbr). apply (b_defs cr Br x k Hk). }
  (* WHERE of the joined query = WHERE of the left row and WHERE of the right row *)
  assert (WhL : forall bl br, In bl Bsl -> In br Bsr -> all_true ds (q_where (c_q cl)) (mk1 (bl ++ br)%list) = wl bl).
  { intros bl br Hbl Hbr. unfold wl, all_true. apply forallb_ext_in'. intros p Hp. f_equal. unfold ev, mk1. cbn [fst snd].
    rewrite (subst_ext_on p dsl ds) by (intros x Hx; apply DefL; apply (a_where_dom cl Al p Hp x Hx)).
    apply eval_on_cols. intros k Hk. apply (GetL bl br k Hbl Hbr). apply (cols_subst _ dsl (b_defs cl Bl) p k Hk). }
  assert (WhR : forall bl br, In bl Bsl -> In br Bsr -> all_true ds (q_where (c_q cr)) (mk1 (bl ++ br)%list) = wr br).
  { intros bl br Hbl Hbr. unfold wr, all_true. apply forallb_ext_in'. intros p Hp. f_equal. unfold ev, mk1. cbn [fst snd].
    rewrite (subst_ext_on p dsr ds) by (intros x Hx; apply DefR; apply (a_where_dom cr Ar p Hp x Hx)).
    apply eval_on_cols. intros k Hk. apply (GetR bl br k Hbl Hbr). apply (cols_subst _ dsr (b_defs cr Br) p k Hk). }
  (* the FROM rows of the joined query that pass its WHERE *)
  set (cj := left_join_compiled cl cr on).
  assert (WhL0 : forall bl, all_true ds (q_where (c_q cl)) (mk1 bl) = wl bl).
  { intros bl. unfold wl, all_true. apply forallb_ext_in'. intros p Hp. f_equal. unfold ev.
    rewrite (subst_ext_on p dsl ds) by (intros x Hx; apply DefL; apply (a_where_dom cl Al p Hp x Hx)). reflexivity. }
  assert (WhR' : forall bl br, In bl Bsl -> In br Bsr -> all_true dsr (q_where (c_q cr)) (mk1 (bl ++ br)%list) = wr br).
  { intros bl br Hbl Hbr. unfold wr, all_true. apply forallb_ext_in'. intros p Hp. f_equal. unfold ev, mk1. cbn [fst snd].
    apply eval_on_cols. intros k Hk. apply (GetR bl br k Hbl Hbr). apply (cols_subst _ dsr (b_defs cr Br) p k Hk). }
  assert (EW : filter (fun b => all_true (c_defs cj) (q_where (c_q cj)) (mk1 b)) (base_rows d cj)
               = flat_map (fun bl => match filter (fun br => on_holds ds on (bl ++ br)%list) (filter wr Bsr) with
                                     | [] => [bl]
                                     | ms => map (fun br => (bl ++ br)%list) ms
                                     end)
                          (filter wl Bsl)).
  { unfold base_rows at 1. unfold cj, left_join_compiled. cbn [c_from c_defs c_q q_where]. fold dsl dsr ds Bsl Bsr.
    rewrite filter_flat_map, <- flat_map_filter_if. apply flat_map_ext_in. intros bl Hbl.
    assert (EF : filter (fun br => on_holds ds on (bl ++ br)%list && all_true dsr (q_where (c_q cr)) (mk1 (bl ++ br)%list)) Bsr
                 = filter (fun br => on_holds ds on (bl ++ br)%list) (filter wr Bsr)).
    { rewrite (filter_ext_in _ (fun br => on_holds ds on (bl ++ br)%list && wr br)).
      - rewrite filter_andb. apply filter_filter_comm.
      - intros br Hbr. rewrite (WhR' bl br Hbl Hbr). reflexivity. }
    rewrite EF.
    assert (Hall : forall e, In e (match filter (fun br => on_holds ds on (bl ++ br)%list) (filter wr Bsr) with
                                   | [] => [bl] | ms => map (fun br => (bl ++ br)%list) ms end) ->
                             all_true ds (q_where (c_q cl)) (mk1 e) = wl bl).
    { intros e He. destruct (filter (fun br => on_holds ds on (bl ++ br)%list) (filter wr Bsr)) as [|m ms] eqn:Ef.
      - destruct He as [<-|[]]. apply WhL0.
      - apply in_map_iff in He. destruct He as [br [<- Hbr]]. apply (WhL bl br Hbl).
        assert (Hin : In br (filter (fun br => on_holds ds on (bl ++ br)%list) (filter wr Bsr))) by (rewrite Ef; exact Hbr).
        apply filter_In in Hin. destruct Hin as [Hin _]. apply filter_In in Hin. tauto. }
    apply filter_const. exact Hall. }
  (* a joined reference row and the joined FROM row agree *)
  assert (AgJ : forall lr rr bl br, In lr (rows sl) -> In rr (rows sr) -> In bl Bsl -> In br Bsr ->
                 agrees_on (c_scope cl) dsl (mk1 bl) lr -> agrees_on (c_scope cr) dsr (mk1 br) rr ->
                 agrees_on (c_scope cl ++ c_scope cr) ds (mk1 (bl ++ br)%list) (lr ++ rr)%list).
  { intros lr rr bl br Hlr Hrr Hbl Hbr Al0 Ar0 x Hx. unfold evd, mk1. cbn [fst snd]. apply in_app_or in Hx. destruct Hx as [Hx|Hx].
    - rewrite get_app_nokey_r by (intros C; apply (DsR x Hx); apply (KR rr x Hrr C)).
      rewrite (Al0 x Hx). unfold evd, mk1. cbn [fst snd]. symmetry. apply (EvL bl br x Hbl Hbr). apply (a_scope_dom cl Al x Hx).
    - rewrite get_app_nokey_l by (intros C; apply (DsL x Hx); apply (KL lr x Hlr C)).
      rewrite (Ar0 x Hx). unfold evd, mk1. cbn [fst snd]. symmetry. apply (EvR bl br x Hbl Hbr). apply (a_scope_dom cr Ar x Hx). }
  assert (AgU : forall lr bl, In lr (rows sl) -> In bl Bsl -> agrees_on (c_scope cl) dsl (mk1 bl) lr ->
                 agrees_on (c_scope cl ++ c_scope cr) ds (mk1 bl) lr).
  { intros lr bl Hlr Hbl Al0 x Hx. unfold evd, mk1. cbn [fst snd]. apply in_app_or in Hx. destruct Hx as [Hx|Hx].
    - rewrite (Al0 x Hx). unfold evd, mk1. cbn [fst snd]. rewrite (DefL x (a_scope_dom cl Al x Hx)). reflexivity.
    - rewrite get_nokey by (intros C; apply (DsL x Hx); apply (KL lr x Hlr C)).
      pose proof (a_scope_dom cr Ar x Hx) as Hd. rewrite (DefR x Hd). destruct (PlainR x Hd) as [k Hk].
      assert (Hkc : In k (c_cols cr)) by (apply (b_defs cr Br x k); fold dsr; rewrite Hk; left; reflexivity).
      fold dsr in Hk. rewrite Hk. simpl. symmetry. apply get_nokey. intros C. apply (Dc k (b_keys cl Bl d bl k Hbl C) Hkc). }
  assert (SuJ : q_summ (c_q cj) = false) by exact SuL.
  assert (NLJ : no_limit (c_q cj) = true) by exact NLl.
  assert (NOJ : is_nil (q_order (c_q cj)) = true) by exact NOl.
  assert (AUX : Aux cj).
  { destruct Al as [A1 A2 A3 A4 A5 A6 A7 A8 A9 A10]. destruct Ar as [B1 B2 B3 B4 B5 B6 B7 B8 B9 B10].
    constructor; unfold cj, left_join_compiled; cbn [c_scope c_defs c_q c_labels q_select q_part q_group q_where q_having q_order q_summ q_limit q_offset]; fold dsl dsr.
    - intros x Hx. rewrite map_app. apply in_or_app. apply in_app_or in Hx. destruct Hx as [Hx|Hx]; [right; apply A1|left; apply B1]; exact Hx.
    - intros x Hx. apply in_or_app. apply in_app_or in Hx. destruct Hx as [Hx|Hx]; [left; apply A2|right; apply B2]; exact Hx.
    - intros x Hx. rewrite map_app. apply in_or_app. apply in_app_or in Hx. destruct Hx as [Hx|Hx]; [right; apply A3|left; apply B3]; exact Hx.
    - intros x Hx. rewrite PL in Hx. destruct Hx.
    - intros x Hx. rewrite HgL in Hx. destruct Hx.
    - intros p Hp x Hx. rewrite map_app. apply in_or_app. right. apply (A6 p Hp x Hx).
    - intros p Hp. rewrite HhL in Hp. destruct Hp.
    - intros o Ho x Hx. rewrite map_app. apply in_or_app. right. apply (A8 o Ho x Hx).
    - intros _. split; assumption.
    - exact A10. }
  split; [|exact AUX].
  constructor.
  - rewrite (final_units_rows d cj AUX SuJ NLJ NOJ). cbv zeta. rewrite EW.
    apply (units_plain_in (c_scope cj) (c_defs cj) _ _ ElemDs).
    cbn [rows do_join]. rewrite app_nil_r.
    apply (Forall2_flat_map (fun lr bl => agrees_on (c_scope cl) dsl (mk1 bl) lr /\ In lr (rows sl) /\ In bl Bsl)).
    + clear -Rl. assert (H : Forall2 (fun lr bl => agrees_on (c_scope cl) dsl (mk1 bl) lr /\ In bl (filter wl Bsl)) (rows sl) (filter wl Bsl)).
      { apply Forall2_flip'. eapply Forall2_impl'; [|apply (Forall2_with_In _ _ _ (Forall2_flip' _ _ _ Rl))]. intros b r [H1 H2]. split; assumption. }
      pose proof (Forall2_with_In _ _ _ H) as H'. eapply Forall2_impl'; [|exact H']. intros lr bl [[H1 H2] H3].
      repeat split; [exact H1|exact H3|]. apply filter_In in H2. tauto.
    + intros lr bl [Agl [Hlr Hbl]]. unfold join_branch.
      assert (Hin : Forall2 (fun rr br => agrees_on (c_scope cr) dsr (mk1 br) rr /\ In rr (rows sr) /\ In br Bsr) (rows sr) (filter wr Bsr)).
      { assert (H : Forall2 (fun rr br => agrees_on (c_scope cr) dsr (mk1 br) rr /\ In br (filter wr Bsr)) (rows sr) (filter wr Bsr)).
        { apply Forall2_flip'. eapply Forall2_impl'; [|apply (Forall2_with_In _ _ _ (Forall2_flip' _ _ _ Rr))]. intros b r [H1 H2]. split; assumption. }
        pose proof (Forall2_with_In _ _ _ H) as H'. eapply Forall2_impl'; [|exact H']. intros rr br [[H1 H2] H3].
        repeat split; [exact H1|exact H3|]. apply filter_In in H2. tauto. }
      assert (Hf : Forall2 (fun rr br => agrees_on (c_scope cr) dsr (mk1 br) rr /\ In rr (rows sr) /\ In br Bsr)
                           (filter (on_true on lr) (rows sr)) (filter (fun br => on_holds ds on (bl ++ br)%list) (filter wr Bsr))).
      { apply Forall2_filter; [exact Hin|]. intros rr br [Agr [Hrr Hbr]]. unfold on_true, on_holds. f_equal.
        apply (subst_elem on Eon ds (mk1 (bl ++ br)%list) [] 0%nat (lr ++ rr)%list).
        eapply agrees_on_incl; [apply scoped_incl; exact Son|]. apply (AgJ lr rr bl br Hlr Hrr Hbl Hbr Agl Agr). }
      assert (Goal2 : Forall2 (fun r b => agrees_on (c_scope cj) (c_defs cj) (mk1 b) r)
                              (map (fun rr => (lr ++ rr)%list) (filter (on_true on lr) (rows sr)))
                              (map (fun br => (bl ++ br)%list) (filter (fun br => on_holds ds on (bl ++ br)%list) (filter wr Bsr)))).
      { apply Forall2_map_l. apply Forall2_map_r. eapply Forall2_impl'; [|exact Hf]. intros rr br [Agr [Hrr Hbr]].
        apply (AgJ lr rr bl br Hlr Hrr Hbl Hbr Agl Agr). }
      destruct (filter (on_true on lr) (rows sr)) as [|rr0 rs0];
        destruct (filter (fun br => on_holds ds on (bl ++ br)%list) (filter wr Bsr)) as [|br0 bs0];
        [constructor; [apply (AgU lr bl Hlr Hbl Agl)|constructor] | inversion Hf | inversion Hf | exact Goal2].
  - cbn [sel do_join]. unfold cj, left_join_compiled. cbn [c_q c_labels q_select]. rewrite map_app, Sl, Sr. f_equal.
    + apply map_ext_in. intros u Hu. rewrite label_app_other by (apply Dl; exact Hu). reflexivity.
    + apply map_ext_in. intros u Hu. f_equal. unfold label.
      destruct (assoc_u_in_dom _ _ (a_sel_labels cr Ar u Hu)) as [n Hn]. rewrite (assoc_u_app_found _ _ _ _ Hn), Hn. reflexivity.
  - cbn [group do_join]. symmetry. exact PL.
Qed.

Definition full_join_compiled (cl cr : compiled) (on : expr) : compiled :=
  let ds := c_defs cr ++ c_defs cl in
  let q := c_q cl in
  {| c_from := FRows (fun d =>
                  flat_map (fun bl =>
                              match filter (fun br => on_holds ds on (bl ++ br)%list) (base_rows d cr) with
                              | [] => [bl]
                              | ms => map (fun br => (bl ++ br)%list) ms
                              end)
                           (base_rows d cl)
                  ++ filter (fun br => negb (existsb (fun bl => on_holds ds on (bl ++ br)%list) (base_rows d cl)))
                            (base_rows d cr));
     c_cols := c_cols cl ++ c_cols cr;
     c_q := {| q_select := q_select q ++ q_select (c_q cr); q_part := q_part q; q_group := q_group q;
               q_where := []; q_having := q_having q;
               q_order := q_order q; q_limit := q_limit q; q_offset := q_offset q; q_summ := q_summ q |};
     c_labels := c_labels cr ++ c_labels cl;
     c_defs := ds;
     c_scope := c_scope cl ++ c_scope cr |}.

Lemma full_join_case d sl sr cl cr on (UL UR : list uid) :
  Inv d sl cl -> Aux cl -> Inv d sr cr -> Aux cr -> Base cl -> Base cr ->
  keys_in UL (rows sl) -> keys_in UR (rows sr) ->
  q_summ (c_q cl) = false -> no_limit (c_q cl) = true -> is_nil (q_order (c_q cl)) = true -> q_part (c_q cl) = [] -> ds_elem_b (c_defs cl) = true ->
  q_summ (c_q cr) = false -> no_limit (c_q cr) = true -> is_nil (q_order (c_q cr)) = true -> ds_elem_b (c_defs cr) = true ->
  elem on = true -> scoped (c_scope cl ++ c_scope cr) on = true ->
  (forall x, In x (c_scope cl) -> ~ In x UR) -> (forall x, In x (c_scope cr) -> ~ In x UL) ->
  (forall x, In x (c_cols cl) -> ~ In x (c_cols cr)) ->
  (forall x, In x (map fst (c_defs cl)) -> ~ In x (map fst (c_defs cr))) ->
  (forall x, In x (q_select (c_q cl)) -> ~ In x (map fst (c_labels cr))) ->
  (forall x, In x (map fst (c_defs cr)) -> exists k, def_of (c_defs cr) x = ECol k) ->
  (forall x, In x (map fst (c_defs cl)) -> exists k, def_of (c_defs cl) x = ECol k) ->
  q_where (c_q cl) = [] -> q_where (c_q cr) = [] ->
  Inv d (do_join sl sr on JFull) (full_join_compiled cl cr on) /\ Aux (full_join_compiled cl cr on).
Proof.
  intros Il Al Ir Ar Bl Br KL KR SuL NLl NOl PL DEl SuR NLr NOr DEr Eon Son DsR DsL Dc Dd Dl PlainR PlainL WL WR.
  pose proof (ds_elem_b_spec _ DEl) as Dl'. pose proof (ds_elem_b_spec _ DEr) as Dr'.
  destruct (a_nosumm cl Al SuL) as [HhL HgL]. destruct (a_nosumm cr Ar SuR) as [HhR HgR].
  set (dsl := c_defs cl) in *. set (dsr := c_defs cr) in *. set (ds := dsr ++ dsl).
  set (Bsl := base_rows d cl). set (Bsr := base_rows d cr).
  set (wl := fun b : row => all_true dsl (q_where (c_q cl)) (mk1 b)).
  set (wr := fun b : row => all_true dsr (q_where (c_q cr)) (mk1 b)).
  (* reference rows of the operands, related to the FROM rows that pass WHERE *)
  destruct Il as [Rl Sl Gl]. destruct Ir as [Rr Sr Gr].
  rewrite (final_units_rows d cl Al SuL NLl NOl) in Rl. cbv zeta in Rl.
  apply (units_plain_out (c_scope cl) dsl _ _ Dl') in Rl. fold Bsl wl in Rl.
  rewrite (final_units_rows d cr Ar SuR NLr NOr) in Rr. cbv zeta in Rr.
  apply (units_plain_out (c_scope cr) dsr _ _ Dr') in Rr. fold Bsr wr in Rr.
  (* definitions of the joined query *)
  assert (DefL : forall x, In x (map fst dsl) -> def_of ds x = def_of dsl x).
  { intros x Hx. unfold ds. apply def_of_app_other. intros C. apply (Dd x Hx C). }
  assert (DefR : forall x, In x (map fst dsr) -> def_of ds x = def_of dsr x).
  { intros x Hx. unfold ds, def_of. destruct (assoc_u_in_dom _ _ Hx) as [e He]. rewrite (assoc_u_app_found _ _ _ _ He), He. reflexivity. }
  assert (ElemDs : ds_elem ds).
  { intros x. destruct (def_of_app_cases dsr dsl x) as [E|E]; unfold ds; rewrite E; [apply Dr'|apply Dl']. }
  (* a FROM row of one operand is read unchanged inside a joined FROM row *)
  assert (GetL : forall bl br k, In bl Bsl -> In br Bsr -> In k (c_cols cl) -> get (bl ++ br) k = get bl k).
  { intros bl br k Hbl Hbr Hk. apply get_app_nokey_r. intros C. apply (Dc k Hk). apply (b_keys cr Br d br k Hbr C). }
  assert (GetR : forall bl br k, In bl Bsl -> In br Bsr -> In k (c_cols cr) -> get (bl ++ br) k = get br k).
  { intros bl br k Hbl Hbr Hk. apply get_app_nokey_l. intros C. apply (Dc k (b_keys cl Bl d bl k Hbl C) Hk). }
  assert (EvL : forall bl br x, In bl Bsl -> In br Bsr -> In x (map fst dsl) ->
                 eval [] (0%nat, (bl ++ br)%list) (def_of ds x) = eval [] (0%nat, bl) (def_of dsl x)).
  { intros bl br x Hbl Hbr Hx. rewrite (DefL x Hx). apply eval_on_cols. intros k Hk.
    apply (GetL bl br k Hbl Hbr). apply (b_defs cl Bl x k Hk). }
  assert (EvR : forall bl br x, In bl Bsl -> In br Bsr -> In x (map fst dsr) ->
                 eval [] (0%nat, (bl ++ br)%list) (def_of ds x) = eval [] (0%nat, br) (def_of dsr x)).
  { intros bl br x Hbl Hbr Hx. rewrite (DefR x Hx). apply eval_on_cols. intros k Hk.
    apply (GetR bl br k Hbl Hbr). apply (b_defs cr Br x k Hk). }
  (* WHERE of the joined query = WHERE of the left row and WHERE of the right row *)
  assert (WhL : forall bl br, In bl Bsl -> In br Bsr -> all_true ds (q_where (c_q cl)) (mk1 (bl ++ br)%list) = wl bl).
  { intros bl br Hbl Hbr. unfold wl, all_true. apply forallb_ext_in'. intros p Hp. f_equal. unfold ev, mk1. cbn [fst snd].
    rewrite (subst_ext_on p dsl ds) by (intros x Hx; apply DefL; apply (a_where_dom cl Al p Hp x Hx)).
    apply eval_on_cols. intros k Hk. apply (GetL bl br k Hbl Hbr). apply (cols_subst _ dsl (b_defs cl Bl) p k Hk). }
  assert (WhR : forall bl br, In bl Bsl -> In br Bsr -> all_true ds (q_where (c_q cr)) (mk1 (bl ++ br)%list) = wr br).
  { intros bl br Hbl Hbr. unfold wr, all_true. apply forallb_ext_in'. intros p Hp. f_equal. unfold ev, mk1. cbn [fst snd].
    rewrite (subst_ext_on p dsr ds) by (intros x Hx; apply DefR; apply (a_where_dom cr Ar p Hp x Hx)).
    apply eval_on_cols. intros k Hk. apply (GetR bl br k Hbl Hbr). apply (cols_subst _ dsr (b_defs cr Br) p k Hk). }
  (* no WHERE anywhere: every FROM row counts *)
  set (cj := full_join_compiled cl cr on).
  assert (WlT : filter wl Bsl = Bsl).
  { unfold wl. rewrite WL. rewrite (filter_ext _ (fun _ => true)) by reflexivity. apply filter_true. }
  assert (WrT : filter wr Bsr = Bsr).
  { unfold wr. rewrite WR. rewrite (filter_ext _ (fun _ => true)) by reflexivity. apply filter_true. }
  assert (Rl' : Forall2 (fun r b => agrees_on (c_scope cl) dsl (mk1 b) r) (rows sl) Bsl) by (rewrite <- WlT; exact Rl).
  assert (Rr' : Forall2 (fun r b => agrees_on (c_scope cr) dsr (mk1 b) r) (rows sr) Bsr) by (rewrite <- WrT; exact Rr).
  clear Rl Rr. rename Rl' into Rl. rename Rr' into Rr.
  assert (EW : filter (fun b => all_true (c_defs cj) (q_where (c_q cj)) (mk1 b)) (base_rows d cj)
               = flat_map (fun bl => match filter (fun br => on_holds ds on (bl ++ br)%list) Bsr with
                                     | [] => [bl]
                                     | ms => map (fun br => (bl ++ br)%list) ms
                                     end) Bsl
                 ++ filter (fun br => negb (existsb (fun bl => on_holds ds on (bl ++ br)%list) Bsl)) Bsr).
  { unfold base_rows at 1. unfold cj, full_join_compiled. cbn [c_from c_defs c_q q_where]. fold dsl dsr ds Bsl Bsr.
    rewrite (filter_ext _ (fun _ => true)) by reflexivity. apply filter_true. }
  (* a joined reference row and the joined FROM row agree *)
  assert (AgJ : forall lr rr bl br, In lr (rows sl) -> In rr (rows sr) -> In bl Bsl -> In br Bsr ->
                 agrees_on (c_scope cl) dsl (mk1 bl) lr -> agrees_on (c_scope cr) dsr (mk1 br) rr ->
                 agrees_on (c_scope cl ++ c_scope cr) ds (mk1 (bl ++ br)%list) (lr ++ rr)%list).
  { intros lr rr bl br Hlr Hrr Hbl Hbr Al0 Ar0 x Hx. unfold evd, mk1. cbn [fst snd]. apply in_app_or in Hx. destruct Hx as [Hx|Hx].
    - rewrite get_app_nokey_r by (intros C; apply (DsR x Hx); apply (KR rr x Hrr C)).
      rewrite (Al0 x Hx). unfold evd, mk1. cbn [fst snd]. symmetry. apply (EvL bl br x Hbl Hbr). apply (a_scope_dom cl Al x Hx).
    - rewrite get_app_nokey_l by (intros C; apply (DsL x Hx); apply (KL lr x Hlr C)).
      rewrite (Ar0 x Hx). unfold evd, mk1. cbn [fst snd]. symmetry. apply (EvR bl br x Hbl Hbr). apply (a_scope_dom cr Ar x Hx). }
  assert (AgU : forall lr bl, In lr (rows sl) -> In bl Bsl -> agrees_on (c_scope cl) dsl (mk1 bl) lr ->
                 agrees_on (c_scope cl ++ c_scope cr) ds (mk1 bl) lr).
  { intros lr bl Hlr Hbl Al0 x Hx. unfold evd, mk1. cbn [fst snd]. apply in_app_or in Hx. destruct Hx as [Hx|Hx].
    - rewrite (Al0 x Hx). unfold evd, mk1. cbn [fst snd]. rewrite (DefL x (a_scope_dom cl Al x Hx)). reflexivity.
    - rewrite get_nokey by (intros C; apply (DsL x Hx); apply (KL lr x Hlr C)).
      pose proof (a_scope_dom cr Ar x Hx) as Hd. rewrite (DefR x Hd). destruct (PlainR x Hd) as [k Hk].
      assert (Hkc : In k (c_cols cr)) by (apply (b_defs cr Br x k); fold dsr; rewrite Hk; left; reflexivity).
      fold dsr in Hk. rewrite Hk. simpl. symmetry. apply get_nokey. intros C. apply (Dc k (b_keys cl Bl d bl k Hbl C) Hkc). }
  assert (AgUR : forall rr br, In rr (rows sr) -> In br Bsr -> agrees_on (c_scope cr) dsr (mk1 br) rr ->
                 agrees_on (c_scope cl ++ c_scope cr) ds (mk1 br) rr).
  { intros rr br Hrr Hbr Ar0 x Hx. unfold evd, mk1. cbn [fst snd]. apply in_app_or in Hx. destruct Hx as [Hx|Hx].
    - rewrite get_nokey by (intros C; apply (DsR x Hx); apply (KR rr x Hrr C)).
      pose proof (a_scope_dom cl Al x Hx) as Hd. rewrite (DefL x Hd). destruct (PlainL x Hd) as [k Hk].
      assert (Hkc : In k (c_cols cl)) by (apply (b_defs cl Bl x k); fold dsl; rewrite Hk; left; reflexivity).
      fold dsl in Hk. rewrite Hk. simpl. symmetry. apply get_nokey. intros C. apply (Dc k Hkc). apply (b_keys cr Br d br k Hbr C).
    - rewrite (Ar0 x Hx). unfold evd, mk1. cbn [fst snd]. rewrite (DefR x (a_scope_dom cr Ar x Hx)). reflexivity. }
  assert (SuJ : q_summ (c_q cj) = false) by exact SuL.
  assert (NLJ : no_limit (c_q cj) = true) by exact NLl.
  assert (NOJ : is_nil (q_order (c_q cj)) = true) by exact NOl.
  assert (AUX : Aux cj).
  { destruct Al as [A1 A2 A3 A4 A5 A6 A7 A8 A9 A10]. destruct Ar as [B1 B2 B3 B4 B5 B6 B7 B8 B9 B10].
    constructor; unfold cj, full_join_compiled; cbn [c_scope c_defs c_q c_labels q_select q_part q_group q_where q_having q_order q_summ q_limit q_offset]; fold dsl dsr.
    - intros x Hx. rewrite map_app. apply in_or_app. apply in_app_or in Hx. destruct Hx as [Hx|Hx]; [right; apply A1|left; apply B1]; exact Hx.
    - intros x Hx. apply in_or_app. apply in_app_or in Hx. destruct Hx as [Hx|Hx]; [left; apply A2|right; apply B2]; exact Hx.
    - intros x Hx. rewrite map_app. apply in_or_app. apply in_app_or in Hx. destruct Hx as [Hx|Hx]; [right; apply A3|left; apply B3]; exact Hx.
    - intros x Hx. rewrite PL in Hx. destruct Hx.
    - intros x Hx. rewrite HgL in Hx. destruct Hx.
    - intros p Hp. destruct Hp.
    - intros p Hp. rewrite HhL in Hp. destruct Hp.
    - intros o Ho x Hx. rewrite map_app. apply in_or_app. right. apply (A8 o Ho x Hx).
    - intros _. split; assumption.
    - exact A10. }
  split; [|exact AUX].
  constructor.
  - rewrite (final_units_rows d cj AUX SuJ NLJ NOJ). cbv zeta. rewrite EW.
    apply (units_plain_in (c_scope cj) (c_defs cj) _ _ ElemDs).
    cbn [rows do_join].
    assert (HinL : Forall2 (fun lr bl => agrees_on (c_scope cl) dsl (mk1 bl) lr /\ In lr (rows sl) /\ In bl Bsl) (rows sl) Bsl).
    { pose proof (Forall2_with_In _ _ _ Rl) as H1.
      pose proof (Forall2_flip' _ _ _ (Forall2_with_In _ _ _ (Forall2_flip' _ _ _ Rl))) as H2.
      pose proof (Forall2_and _ _ _ _ H1 H2) as H3. eapply Forall2_impl'; [|exact H3]. intros lr bl [[A1 A2] [_ A3]]. auto. }
    assert (HinR : Forall2 (fun rr br => agrees_on (c_scope cr) dsr (mk1 br) rr /\ In rr (rows sr) /\ In br Bsr) (rows sr) Bsr).
    { pose proof (Forall2_with_In _ _ _ Rr) as H1.
      pose proof (Forall2_flip' _ _ _ (Forall2_with_In _ _ _ (Forall2_flip' _ _ _ Rr))) as H2.
      pose proof (Forall2_and _ _ _ _ H1 H2) as H3. eapply Forall2_impl'; [|exact H3]. intros rr br [[A1 A2] [_ A3]]. auto. }
    assert (OnEq : forall lr bl rr br, agrees_on (c_scope cl) dsl (mk1 bl) lr -> In lr (rows sl) -> In bl Bsl ->
                     agrees_on (c_scope cr) dsr (mk1 br) rr -> In rr (rows sr) -> In br Bsr ->
                     on_true on lr rr = on_holds ds on (bl ++ br)%list).
    { intros lr bl rr br Agl Hlr Hbl Agr Hrr Hbr. unfold on_true, on_holds. f_equal.
      apply (subst_elem on Eon ds (mk1 (bl ++ br)%list) [] 0%nat (lr ++ rr)%list).
      eapply agrees_on_incl; [apply scoped_incl; exact Son|]. apply (AgJ lr rr bl br Hlr Hrr Hbl Hbr Agl Agr). }
    apply Forall2_app.
    + apply (Forall2_flat_map (fun lr bl => agrees_on (c_scope cl) dsl (mk1 bl) lr /\ In lr (rows sl) /\ In bl Bsl)); [exact HinL|].
      intros lr bl [Agl [Hlr Hbl]]. unfold join_branch.
      assert (Hf : Forall2 (fun rr br => agrees_on (c_scope cr) dsr (mk1 br) rr /\ In rr (rows sr) /\ In br Bsr)
                           (filter (on_true on lr) (rows sr)) (filter (fun br => on_holds ds on (bl ++ br)%list) Bsr)).
      { apply Forall2_filter; [exact HinR|]. intros rr br [Agr [Hrr Hbr]]. apply (OnEq lr bl rr br); assumption. }
      assert (Goal2 : Forall2 (fun r b => agrees_on (c_scope cj) (c_defs cj) (mk1 b) r)
                              (map (fun rr => (lr ++ rr)%list) (filter (on_true on lr) (rows sr)))
                              (map (fun br => (bl ++ br)%list) (filter (fun br => on_holds ds on (bl ++ br)%list) Bsr))).
      { apply Forall2_map_l. apply Forall2_map_r. eapply Forall2_impl'; [|exact Hf]. intros rr br [Agr [Hrr Hbr]].
        apply (AgJ lr rr bl br Hlr Hrr Hbl Hbr Agl Agr). }
      destruct (filter (on_true on lr) (rows sr)) as [|rr0 rs0];
        destruct (filter (fun br => on_holds ds on (bl ++ br)%list) Bsr) as [|br0 bs0];
        [constructor; [apply (AgU lr bl Hlr Hbl Agl)|constructor] | inversion Hf | inversion Hf | exact Goal2].
    + assert (Hf : Forall2 (fun rr br => agrees_on (c_scope cr) dsr (mk1 br) rr /\ In rr (rows sr) /\ In br Bsr)
                           (filter (fun rr => negb (existsb (fun lr => on_true on lr rr) (rows sl))) (rows sr))
                           (filter (fun br => negb (existsb (fun bl => on_holds ds on (bl ++ br)%list) Bsl)) Bsr)).
      { apply Forall2_filter; [exact HinR|]. intros rr br [Agr [Hrr Hbr]]. f_equal.
        clear -HinL OnEq Agr Hrr Hbr. induction HinL as [|lr bl L L' [Agl [Hlr Hbl]] _ IH]; [reflexivity|].
        simpl. rewrite (OnEq lr bl rr br Agl Hlr Hbl Agr Hrr Hbr), IH. reflexivity. }
      eapply Forall2_impl'; [|exact Hf]. intros rr br [Agr [Hrr Hbr]]. apply (AgUR rr br Hrr Hbr Agr).
  - cbn [sel do_join]. unfold cj, full_join_compiled. cbn [c_q c_labels q_select]. rewrite map_app, Sl, Sr. f_equal.
    + apply map_ext_in. intros u Hu. rewrite label_app_other by (apply Dl; exact Hu). reflexivity.
    + apply map_ext_in. intros u Hu. f_equal. unfold label.
      destruct (assoc_u_in_dom _ _ (a_sel_labels cr Ar u Hu)) as [n Hn]. rewrite (assoc_u_app_found _ _ _ _ Hn), Hn. reflexivity.
  - cbn [group do_join]. symmetry. exact PL.
Qed.

(* ---------- subquery marker ---------- *)
Lemma get_map_val (g : uid -> value) L u : In u L -> get (map (fun x => (x, g x)) L) u = g u.
Proof.
  induction L as [|y L IH]; intros H; [destruct H|]. simpl.
  destruct (N.eqb_spec y u) as [E|E]; [subst; reflexivity|]. destruct H as [H|H]; [contradiction|]. apply IH. exact H.
Qed.

Lemma marker_case d s cc :
  Inv d s cc -> Aux cc ->
  Inv d {| rows := rows s; sel := sel s; group := group s; ord_defined := false; bad := bad s |} (marker_compiled cc)
  /\ Aux (marker_compiled cc).
Proof.
  intros [R S G] A. set (sc := c_scope cc). set (cm := marker_compiled cc).
  assert (AUX : Aux cm).
  { destruct A as [A1 A2 A3 A4 A5 A6 A7 A8 A9 A10].
    constructor; unfold cm, marker_compiled; cbn [c_scope c_defs c_q c_labels q_select q_part q_group q_where q_having q_order q_summ q_limit q_offset].
    - intros x Hx. rewrite map_map. simpl. rewrite map_id. exact Hx.
    - exact A2.
    - exact A3.
    - exact A4.
    - intros x Hx. destruct Hx.
    - intros p Hp. destruct Hp.
    - intros p Hp. destruct Hp.
    - intros o Ho. destruct Ho.
    - intros _. split; reflexivity.
    - intros l H. discriminate H. }
  split; [|exact AUX].
  constructor; cbn [rows sel group].
  - set (B := map (fun u : unit_ => map (fun x : uid => (x, evd (c_defs cc) u x)) sc) (final_units d cc)).
    assert (EF : final_units d cm = map (fun ir => (index_rows B, ir)) (index_rows B)).
    { rewrite (final_units_rows d cm AUX eq_refl eq_refl eq_refl). cbv zeta.
      assert (EB : filter (fun r => all_true (c_defs cm) (q_where (c_q cm)) (mk1 r)) (base_rows d cm) = B).
      { unfold cm, marker_compiled, base_rows. cbn [c_from c_defs c_q q_where]. fold sc.
        rewrite (filter_ext _ (fun _ => true)) by reflexivity. apply filter_true. }
      rewrite EB. reflexivity. }
    rewrite EF. apply Forall2_map_r. generalize (index_rows B) at 1. intros ctx.
    apply Forall2_index_rows_r. unfold B. apply Forall2_map_r.
    eapply Forall2_impl'; [|exact R]. intros r u Hru i x Hx. cbn [c_scope cm marker_compiled] in Hx. fold sc in Hx.
    unfold evd. cbn [fst snd c_defs cm marker_compiled]. fold sc. rewrite (def_self sc x Hx). simpl.
    rewrite (get_map_val (fun y => eval (fst u) (snd u) (def_of (c_defs cc) y)) sc x Hx). apply (Hru x Hx).
  - exact S.
  - exact G.
Qed.

(* ---------- alias() + subquery marker: the outer columns carry the identities handed out by alias() ---------- *)
Lemma get_remap_row (m : list (uid * uid)) (V : list uid) :
  (forall a b, In a V -> In b V -> remap_uid m a = remap_uid m b -> a = b) ->
  forall (r : row) x, (forall k, In k (map fst r) -> In k V) -> In x V ->
  get (map (fun b : uid * value => (remap_uid m (fst b), snd b)) r) (remap_uid m x) = get r x.
Proof.
  intros Inj. induction r as [|[k v] r IH]; intros x Hk Hx; [reflexivity|]. simpl.
  destruct (N.eqb_spec k x) as [E|E].
  - subst. rewrite N.eqb_refl. reflexivity.
  - destruct (N.eqb_spec (remap_uid m k) (remap_uid m x)) as [E2|E2].
    + exfalso. apply E. apply Inj; [apply Hk; left; reflexivity|exact Hx|exact E2].
    + apply IH; [|exact Hx]. intros k0 Hk0. apply Hk. right. exact Hk0.
Qed.

Lemma get_map_remap (m : list (uid * uid)) (V : list uid) (g : uid -> value) :
  (forall a b, In a V -> In b V -> remap_uid m a = remap_uid m b -> a = b) ->
  forall L x, (forall y, In y L -> In y V) -> In x L ->
  get (map (fun y => (remap_uid m y, g y)) L) (remap_uid m x) = g x.
Proof.
  intros Inj. induction L as [|y L IH]; intros x HL Hx; [destruct Hx|]. simpl.
  destruct (N.eqb_spec (remap_uid m y) (remap_uid m x)) as [E|E].
  - f_equal. apply Inj; [apply HL; left; reflexivity|apply HL; exact Hx|exact E].
  - destruct Hx as [Hx|Hx]; [subst; contradiction|]. apply IH; [|exact Hx]. intros z Hz. apply HL. right. exact Hz.
Qed.

Lemma label_remap (m : list (uid * uid)) (V : list uid) (ls : slabels) u :
  (forall a b, In a V -> In b V -> remap_uid m a = remap_uid m b -> a = b) ->
  (forall k, In k (map fst ls) -> In k V) -> In u (map fst ls) ->
  label (map (fun ul => (remap_uid m (fst ul), snd ul)) ls) (remap_uid m u) = label ls u.
Proof.
  intros Inj HV Hu. unfold label. induction ls as [|[k n] ls IH]; [destruct Hu|]. simpl.
  destruct (N.eqb_spec u k) as [E|E].
  - subst. rewrite N.eqb_refl. reflexivity.
  - destruct (N.eqb_spec (remap_uid m u) (remap_uid m k)) as [E2|E2].
    + exfalso. apply E. apply Inj; [apply HV; right; destruct Hu as [Hu|Hu]; [simpl in Hu; congruence|exact Hu]|apply HV; left; reflexivity|exact E2].
    + destruct Hu as [Hu|Hu]; [simpl in Hu; congruence|]. apply IH; [|exact Hu]. intros k0 Hk0. apply HV. right. exact Hk0.
Qed.

Lemma def_remap_self (m : list (uid * uid)) L x : In x L ->
  def_of (map (fun y => (remap_uid m y, ECol (remap_uid m y))) L) (remap_uid m x) = ECol (remap_uid m x).
Proof.
  unfold def_of. induction L as [|y L IH]; intros H; [destruct H|]. simpl.
  destruct (N.eqb_spec (remap_uid m x) (remap_uid m y)) as [E|E]; [rewrite E; reflexivity|].
  destruct H as [H|H]; [subst; contradiction|]. apply IH. exact H.
Qed.

Lemma alias_marker_case d s cc m (U : list uid) :
  Inv d s cc -> Aux cc -> keys_in U (rows s) ->
  (forall a b, In a (U ++ c_scope cc ++ map fst (c_labels cc)) -> In b (U ++ c_scope cc ++ map fst (c_labels cc)) ->
               remap_uid m a = remap_uid m b -> a = b) ->
  let s' := do_alias s (Some m) in
  Inv d {| rows := rows s'; sel := sel s'; group := group s'; ord_defined := false; bad := bad s' |} (alias_marker_compiled m cc)
  /\ Aux (alias_marker_compiled m cc).
Proof.
  intros [R S G] A KU Inj s'. set (sc := c_scope cc). set (cm := alias_marker_compiled m cc).
  set (V := U ++ c_scope cc ++ map fst (c_labels cc)) in *.
  assert (VU : forall x, In x U -> In x V) by (intros x Hx; unfold V; apply in_or_app; left; exact Hx).
  assert (VS : forall x, In x sc -> In x V) by (intros x Hx; unfold V; apply in_or_app; right; apply in_or_app; left; exact Hx).
  assert (VL : forall x, In x (map fst (c_labels cc)) -> In x V) by (intros x Hx; unfold V; apply in_or_app; right; apply in_or_app; right; exact Hx).
  assert (AUX : Aux cm).
  { destruct A as [A1 A2 A3 A4 A5 A6 A7 A8 A9 A10].
    constructor; unfold cm, alias_marker_compiled; cbn [c_scope c_defs c_q c_labels q_select q_part q_group q_where q_having q_order q_summ q_limit q_offset].
    - intros x Hx. rewrite map_map. simpl. exact Hx.
    - intros x Hx. apply in_map_iff in Hx. destruct Hx as [y [<- Hy]]. apply in_map. apply A2. exact Hy.
    - intros x Hx. apply in_map_iff in Hx. destruct Hx as [y [<- Hy]]. rewrite map_map. simpl.
      rewrite <- (map_map fst (remap_uid m)). apply in_map. apply A3. exact Hy.
    - intros x Hx. apply in_map_iff in Hx. destruct Hx as [y [<- Hy]]. apply in_map. apply A4. exact Hy.
    - intros x Hx. destruct Hx.
    - intros p Hp. destruct Hp.
    - intros p Hp. destruct Hp.
    - intros o Ho. destruct Ho.
    - intros _. split; reflexivity.
    - intros l H. discriminate H. }
  split; [|exact AUX].
  constructor; cbn [rows sel group s' do_alias].
  - set (B := map (fun u : unit_ => map (fun x : uid => (remap_uid m x, evd (c_defs cc) u x)) sc) (final_units d cc)).
    assert (EF : final_units d cm = map (fun ir => (index_rows B, ir)) (index_rows B)).
    { rewrite (final_units_rows d cm AUX eq_refl eq_refl eq_refl). cbv zeta.
      assert (EB : filter (fun r => all_true (c_defs cm) (q_where (c_q cm)) (mk1 r)) (base_rows d cm) = B).
      { unfold cm, alias_marker_compiled, base_rows. cbn [c_from c_defs c_q q_where]. fold sc.
        rewrite (filter_ext _ (fun _ => true)) by reflexivity. apply filter_true. }
      rewrite EB. reflexivity. }
    rewrite EF. apply Forall2_map_r. generalize (index_rows B) at 1. intros ctx.
    apply Forall2_index_rows_r. unfold B. apply Forall2_map_l. apply Forall2_map_r.
    pose proof (Forall2_with_In _ _ _ R) as R'.
    eapply Forall2_impl'; [|exact R']. intros r u [Hru Hr] i x' Hx'. cbn [c_scope cm alias_marker_compiled] in Hx'. fold sc in Hx'.
    apply in_map_iff in Hx'. destruct Hx' as [x [<- Hx]].
    unfold evd. cbn [fst snd c_defs cm alias_marker_compiled]. fold sc. rewrite (def_remap_self m sc x Hx). simpl.
    rewrite (get_map_remap m V (fun y => eval (fst u) (snd u) (def_of (c_defs cc) y)) Inj sc x VS Hx).
    rewrite (get_remap_row m V Inj r x); [apply (Hru x Hx)| |apply VS; exact Hx].
    intros k Hk. apply VU. apply (KU r k Hr Hk).
  - rewrite S. unfold cm, alias_marker_compiled. cbn [c_q c_labels q_select]. rewrite !map_map. cbn [fst snd].
    apply map_ext_in. intros u Hu. f_equal. symmetry.
    apply (label_remap m V (c_labels cc) u Inj VL). apply (a_sel_labels cc A u Hu).
  - rewrite G. reflexivity.
Qed.

(* ---------- plain alias(): new identities for the same columns ---------- *)
Definition alias_compiled (m : list (uid * uid)) (cc : compiled) : compiled :=
  let q := c_q cc in
  {| c_from := c_from cc; c_cols := c_cols cc;
     c_q := set_part (set_select q (map (remap_uid m) (q_select q))) (map (remap_uid m) (q_part q));
     c_labels := map (fun on => (snd on, label (c_labels cc) (fst on))) m ++ c_labels cc;
     c_defs := map (fun on => (snd on, def_of (c_defs cc) (fst on))) m ++ c_defs cc;
     c_scope := map (remap_uid m) (c_scope cc) |}.

Lemma remap_in m x : In x (map fst m) -> In (x, remap_uid m x) m.
Proof.
  unfold remap_uid. induction m as [|[o n] m IH]; intros H; [destruct H|]. simpl.
  destruct (N.eqb_spec x o) as [E|E]; [subst; left; reflexivity|].
  destruct H as [H|H]; [simpl in H; congruence|]. right. apply IH. exact H.
Qed.

Lemma assoc_alias {V} (g : uid -> V) (m : list (uid * uid)) x :
  In x (map fst m) -> NoDup (map snd m) -> NoDup (map fst m) ->
  assoc_u (remap_uid m x) (map (fun on => (snd on, g (fst on))) m) = Some (g x).
Proof.
  intros Hx ND NF. pose proof (remap_in m x Hx) as Hin. set (n := remap_uid m x) in *. clearbody n. clear Hx.
  induction m as [|[o k] m IH]; [destruct Hin|]. simpl in *.
  inversion ND as [|? ? Hk ND']; subst. inversion NF as [|? ? Ho NF']; subst.
  destruct Hin as [E|Hin].
  - inversion E; subst. rewrite N.eqb_refl. reflexivity.
  - destruct (N.eqb_spec n k) as [E|E].
    + subst. exfalso. apply Hk. apply in_map_iff. exists (x, k). split; [reflexivity|exact Hin].
    + apply IH; assumption.
Qed.

Lemma alias_case d s cc m (U : list uid) :
  Inv d s cc -> Aux cc -> keys_in U (rows s) ->
  (forall a b, In a (U ++ c_scope cc ++ map fst (c_labels cc) ++ map fst (c_defs cc)) ->
               In b (U ++ c_scope cc ++ map fst (c_labels cc) ++ map fst (c_defs cc)) ->
               remap_uid m a = remap_uid m b -> a = b) ->
  NoDup (map snd m) -> NoDup (map fst m) ->
  (forall x, In x (map snd m) -> ~ In x (map fst (c_defs cc))) ->
  (forall x, In x (map snd m) -> ~ In x (map fst (c_labels cc))) ->
  (forall x, In x (c_scope cc) -> In x (map fst m)) ->
  Inv d (do_alias s (Some m)) (alias_compiled m cc) /\ Aux (alias_compiled m cc).
Proof.
  intros [R S G] A KU Inj NDs NDf Fd Fl Dom. set (ca := alias_compiled m cc).
  set (V := U ++ c_scope cc ++ map fst (c_labels cc) ++ map fst (c_defs cc)) in *.
  assert (VU : forall x, In x U -> In x V) by (intros x Hx; unfold V; apply in_or_app; left; exact Hx).
  assert (VS : forall x, In x (c_scope cc) -> In x V) by (intros x Hx; unfold V; apply in_or_app; right; apply in_or_app; left; exact Hx).
  assert (Hother : forall x, In x (map fst (c_defs cc)) -> def_of (c_defs ca) x = def_of (c_defs cc) x).
  { intros x Hx. unfold ca, alias_compiled. cbn [c_defs]. apply def_of_app_other. rewrite map_map. cbn [fst].
    intros C. apply (Fd x C Hx). }
  assert (DefNew : forall x, In x (c_scope cc) -> def_of (c_defs ca) (remap_uid m x) = def_of (c_defs cc) x).
  { intros x Hx. unfold ca, alias_compiled, def_of. cbn [c_defs].
    rewrite (assoc_u_app_found _ _ _ _ (assoc_alias (fun o => def_of (c_defs cc) o) m x (Dom x Hx) NDs NDf)). reflexivity. }
  assert (LabNew : forall x, In x (c_scope cc) -> label (c_labels ca) (remap_uid m x) = label (c_labels cc) x).
  { intros x Hx. unfold ca, alias_compiled, label. cbn [c_labels].
    rewrite (assoc_u_app_found _ _ _ _ (assoc_alias (fun o => label (c_labels cc) o) m x (Dom x Hx) NDs NDf)). reflexivity. }
  assert (FU : final_units d ca = final_units d cc).
  { apply final_units_ext; try reflexivity; [exact Hother|exact A]. }
  assert (DomNew : forall x, In x (c_scope cc) -> In (remap_uid m x) (map fst (c_defs ca))).
  { intros x Hx. unfold ca, alias_compiled. cbn [c_defs]. rewrite map_app. apply in_or_app. left. rewrite map_map. cbn [fst].
    apply in_map_iff. exists (x, remap_uid m x). split; [reflexivity|apply remap_in; apply Dom; exact Hx]. }
  split.
  - constructor; cbn [rows sel group do_alias].
    + rewrite FU. apply Forall2_map_l. pose proof (Forall2_with_In _ _ _ R) as R'.
      eapply Forall2_impl'; [|exact R']. intros r u [Hru Hr] x' Hx'. cbn [c_scope ca alias_compiled] in Hx'.
      apply in_map_iff in Hx'. destruct Hx' as [x [<- Hx]].
      rewrite (get_remap_row m V Inj r x); [| |apply VS; exact Hx].
      * rewrite (Hru x Hx). unfold evd. rewrite (DefNew x Hx). reflexivity.
      * intros k Hk. apply VU. apply (KU r k Hr Hk).
    + rewrite S. unfold ca, alias_compiled. cbn [c_q set_part set_select q_select]. rewrite !map_map. cbn [fst snd].
      apply map_ext_in. intros u Hu. f_equal. symmetry. apply (LabNew u (a_sel_scope cc A u Hu)).
    + rewrite G. reflexivity.
  - destruct A as [A1 A2 A3 A4 A5 A6 A7 A8 A9 A10].
    constructor; unfold ca, alias_compiled; cbn [c_scope c_defs c_q c_labels set_part set_select q_select q_part q_group q_where q_having q_order q_summ q_limit q_offset].
    + intros x' Hx'. apply in_map_iff in Hx'. destruct Hx' as [x [<- Hx]]. apply (DomNew x Hx).
    + intros x' Hx'. apply in_map_iff in Hx'. destruct Hx' as [x [<- Hx]]. apply in_map. apply A2. exact Hx.
    + intros x' Hx'. apply in_map_iff in Hx'. destruct Hx' as [x [<- Hx]]. rewrite map_app. apply in_or_app. left.
      rewrite map_map. cbn [fst]. apply in_map_iff. exists (x, remap_uid m x). split; [reflexivity|].
      apply remap_in. apply Dom. apply A2. exact Hx.
    + intros x' Hx'. apply in_map_iff in Hx'. destruct Hx' as [x [<- Hx]]. apply in_map. apply A4. exact Hx.
    + intros x Hx. rewrite map_app. apply in_or_app. right. apply A5. exact Hx.
    + intros p Hp x Hx. rewrite map_app. apply in_or_app. right. apply (A6 p Hp x Hx).
    + intros p Hp x Hx. rewrite map_app. apply in_or_app. right. apply (A7 p Hp x Hx).
    + intros o Ho x Hx. rewrite map_app. apply in_or_app. right. apply (A8 o Ho x Hx).
    + exact A9.
    + exact A10.
Qed.

(* ---------- the theorem ---------- *)
Theorem compile_invariant d : forall a c, compile a = Some c -> flat_ok a = true -> Inv d (sem_ref d a) c /\ Aux c.
Proof.
  intros a. remember (asize a) as sz eqn:Hsz. revert a Hsz. induction sz as [sz IHsz] using lt_wf_ind. intros a Hsz.
  assert (IH0 : forall b, asize b < asize a -> forall c, compile b = Some c -> flat_ok b = true -> Inv d (sem_ref d b) c /\ Aux c).
  { intros b Hb. apply (IHsz (asize b)); [lia|reflexivity]. }
  clear IHsz Hsz.
  destruct a as [t cols|a us|a m|a defs|a ps|a os|a n k|a us add|a|a defs|a m|a|l r on how|l r dis];
    try (pose proof (IH0 a ltac:(cbn [asize]; lia)) as IH);
    try (pose proof (IH0 l ltac:(cbn [asize]; lia)) as IHl); try (pose proof (IH0 r ltac:(cbn [asize]; lia)) as IHr);
    intros c C F.
  - apply source_case; assumption.
  - simpl in C, F. destruct (compile a) as [cc|] eqn:E; [|discriminate C]. inversion C; subst; clear C.
    apply andb_prop in F. destruct F as [Fa Fs]. destruct (IH cc eq_refl Fa) as [I A].
    cbn [sem_ref]. apply select_case; assumption.
  - simpl in C, F. destruct (compile a) as [cc|] eqn:E; [|discriminate C]. inversion C; subst; clear C.
    destruct (IH cc eq_refl F) as [I A]. cbn [sem_ref]. apply rename_case; assumption.
  - simpl in C, F. destruct (compile a) as [cc|] eqn:E; [|discriminate C]. inversion C; subst; clear C.
    apply andb_prop in F. destruct F as [Fa F3].
    apply andb_prop in F3. destruct F3 as [F3 Fel]. apply andb_prop in F3. destruct F3 as [Ffr Fsc].
    destruct (IH cc eq_refl Fa) as [I A].
    cbn [sem_ref]. apply (mutate_case d (sem_ref d a) cc defs); try assumption.
    apply orb_prop in Fel. destruct Fel as [Fel|Fel]; [left; exact Fel|right].
    apply andb_prop in Fel. destruct Fel as [Fel _]. apply andb_prop in Fel. destruct Fel as [Fel Fno].
    apply andb_prop in Fel. destruct Fel as [Fsu Fnl]. apply negb_true_iff in Fsu. auto.
  - simpl in C, F. destruct (compile a) as [cc|] eqn:E; [|discriminate C]. inversion C; subst; clear C.
    apply andb_prop in F. destruct F as [F F3]. apply andb_prop in F. destruct F as [Fa Fe].
    apply andb_prop in F3. destruct F3 as [F3 Fsd]. apply andb_prop in F3. destruct F3 as [F3 Fsc].
    apply andb_prop in F3. destruct F3 as [Fnl Fno].
    destruct (IH cc eq_refl Fa) as [I A]. cbn [sem_ref].
    apply (filter_case d (sem_ref d a) cc ps); assumption.
  - simpl in C, F. destruct (compile a) as [cc|] eqn:E; [|discriminate C]. inversion C; subst; clear C.
    apply andb_prop in F. destruct F as [F F3]. apply andb_prop in F. destruct F as [F Fnn].
    apply andb_prop in F. destruct F as [Fa Fe].
    apply andb_prop in F3. destruct F3 as [F3 Fsc]. apply andb_prop in F3. destruct F3 as [Fnl Fno].
    destruct (IH cc eq_refl Fa) as [I A]. cbn [sem_ref]. apply negb_true_iff in Fnn.
    apply (arrange_case d (sem_ref d a) cc os); assumption.
  - simpl in C, F. destruct (compile a) as [cc|] eqn:E; [|discriminate C]. inversion C; subst; clear C.
    apply andb_prop in F. destruct F as [F Fk]. apply andb_prop in F. destruct F as [Fa Fn].
    destruct (IH cc eq_refl Fa) as [I A]. cbn [sem_ref].
    apply (slice_case d (sem_ref d a) cc n k); [assumption|assumption|apply Z.leb_le; exact Fn|apply Z.leb_le; exact Fk].
  - simpl in C, F. destruct (compile a) as [cc|] eqn:E; [|discriminate C]. inversion C; subst; clear C.
    apply andb_prop in F. destruct F as [Fa Fs]. destruct (IH cc eq_refl Fa) as [I A]. cbn [sem_ref].
    pose proof (forallb_mem_incl _ _ Fs) as Hus. rewrite (i_group _ _ _ I).
    apply part_case; [assumption|assumption|].
    intros x Hx. destruct add.
    + apply in_app_or in Hx. destruct Hx as [Hx|Hx]; [apply (a_part_scope cc A); exact Hx|].
      apply (a_sel_scope cc A). apply Hus. exact Hx.
    + apply (a_sel_scope cc A). apply Hus. exact Hx.
  - simpl in C, F. destruct (compile a) as [cc|] eqn:E; [|discriminate C]. inversion C; subst; clear C.
    destruct (IH cc eq_refl F) as [I A]. cbn [sem_ref]. apply part_case; [assumption|assumption|]. intros x Hx. destruct Hx.
  - simpl in C, F. destruct (compile a) as [cc|] eqn:E; [|discriminate C]. inversion C; subst; clear C.
    apply andb_prop in F. destruct F as [F F3]. apply andb_prop in F. destruct F as [Fa Fe].
    repeat (apply andb_prop in F3; let H := fresh "G" in destruct F3 as [F3 H]).
    destruct (IH cc eq_refl Fa) as [I A]. cbn [sem_ref]. apply negb_true_iff in G5.
    apply (summarize_case d (sem_ref d a) cc defs); assumption.
  - destruct m as [m|]; [|simpl in C, F; cbn [sem_ref do_alias]; apply IH; assumption].
    cbn [compile] in C. cbn [flat_ok] in F. destruct (compile a) as [cc|] eqn:E; [|discriminate C]. inversion C; subst; clear C.
    apply andb_prop in F. destruct F as [Fa F3]. cbv zeta in F3.
    repeat (apply andb_prop in F3; let H := fresh "G" in destruct F3 as [F3 H]).
    destruct (IH cc eq_refl Fa) as [I A]. cbn [sem_ref]. fold (alias_compiled m cc).
    apply (alias_case d (sem_ref d a) cc m (ast_uids a)); try assumption.
    + apply (rk_rows _ _ (ref_keys d a)).
    + intros x y Hx Hy Exy. rewrite forallb_forall in F3. specialize (F3 x Hx).
      rewrite forallb_forall in F3. specialize (F3 y Hy). rewrite Exy, N.eqb_refl in F3. simpl in F3.
      apply N.eqb_eq. exact F3.
    + apply nodup_u_NoDup. assumption.
    + apply nodup_u_NoDup. assumption.
    + apply disjointb_spec. assumption.
    + apply disjointb_spec. assumption.
    + apply forallb_mem_incl. assumption.
  - destruct (alias_some_dec a) as [[c0 [m ->]]|Hna].
    + rewrite compile_marker_alias in C. rewrite flat_ok_marker_alias in F.
      destruct (compile c0) as [cc|] eqn:E; [|discriminate C]. inversion C; subst; clear C.
      apply andb_prop in F. destruct F as [F0 Finj].
      destruct (IH0 c0 ltac:(cbn [asize]; lia) cc E F0) as [I A].
      cbn [sem_ref]. apply (alias_marker_case d (sem_ref d c0) cc m (ast_uids c0)); try assumption.
      * apply (rk_rows _ _ (ref_keys d c0)).
      * intros x y Hx Hy Exy. cbv zeta in Finj. rewrite forallb_forall in Finj. specialize (Finj x Hx).
        rewrite forallb_forall in Finj. specialize (Finj y Hy). rewrite Exy, N.eqb_refl in Finj. simpl in Finj.
        apply N.eqb_eq. exact Finj.
    + rewrite (compile_marker_generic a Hna) in C. rewrite (flat_ok_marker_generic a Hna) in F.
      destruct (compile a) as [cc|] eqn:E; [|discriminate C]. inversion C; subst; clear C.
      destruct (IH cc eq_refl F) as [I A]. cbn [sem_ref]. apply marker_case; assumption.
  - cbn [compile] in C. cbn [flat_ok] in F. destruct how; try discriminate C.
    + destruct (compile l) as [cl|] eqn:El; [|discriminate C]. destruct (compile r) as [cr|] eqn:Er; [|discriminate C].
      inversion C; subst; clear C.
      apply andb_prop in F. destruct F as [F F3]. apply andb_prop in F. destruct F as [F Fon]. apply andb_prop in F. destruct F as [Fl Fr].
      repeat (apply andb_prop in F3; let H := fresh "G" in destruct F3 as [F3 H]).
      repeat (apply andb_prop in G5; let H := fresh "P" in destruct G5 as [G5 H]).
      repeat (apply andb_prop in F3; let H := fresh "Q" in destruct F3 as [F3 H]).
      destruct (IHl cl eq_refl Fl) as [Il Al]. destruct (IHr cr eq_refl Fr) as [Ir Ar].
      pose proof (compile_base l cl El) as Bl. pose proof (compile_base r cr Er) as Br.
      cbn [sem_ref]. fold (join_compiled cl cr on).
      apply negb_true_iff in F3. apply negb_true_iff in G5.
      apply (join_case d (sem_ref d l) (sem_ref d r) cl cr on (ast_uids l) (ast_uids r)); try assumption.
      * apply (rk_rows _ _ (ref_keys d l)).
      * apply (rk_rows _ _ (ref_keys d r)).
      * destruct (q_part (c_q cl)); [reflexivity|discriminate].
      * apply disjointb_spec. assumption.
      * apply disjointb_spec. assumption.
      * apply disjointb_spec. assumption.
      * apply disjointb_spec. assumption.
      * apply disjointb_spec. assumption.
    + destruct (compile l) as [cl|] eqn:El; [|discriminate C]. destruct (compile r) as [cr|] eqn:Er; [|discriminate C].
      inversion C; subst; clear C.
      apply andb_prop in F. destruct F as [F F3]. apply andb_prop in F. destruct F as [F Fon]. apply andb_prop in F. destruct F as [Fl Fr].
      apply andb_prop in F3. destruct F3 as [F3 Dlab]. apply andb_prop in F3. destruct F3 as [F3 Ddef].
      apply andb_prop in F3. destruct F3 as [F3 Dcol]. apply andb_prop in F3. destruct F3 as [F3 DsL].
      apply andb_prop in F3. destruct F3 as [F3 DsR]. apply andb_prop in F3. destruct F3 as [F3 Fsc].
      apply andb_prop in F3. destruct F3 as [F3 Fplain]. apply andb_prop in F3. destruct F3 as [Pl Pr].
      repeat (apply andb_prop in Pl; let H := fresh "L" in destruct Pl as [Pl H]).
      repeat (apply andb_prop in Pr; let H := fresh "R" in destruct Pr as [Pr H]).
      destruct (IHl cl eq_refl Fl) as [Il Al]. destruct (IHr cr eq_refl Fr) as [Ir Ar].
      pose proof (compile_base l cl El) as Bl. pose proof (compile_base r cr Er) as Br.
      cbn [sem_ref]. fold (left_join_compiled cl cr on).
      apply negb_true_iff in Pl. apply negb_true_iff in Pr.
      apply (left_join_case d (sem_ref d l) (sem_ref d r) cl cr on (ast_uids l) (ast_uids r)); try assumption.
      * apply (rk_rows _ _ (ref_keys d l)).
      * apply (rk_rows _ _ (ref_keys d r)).
      * destruct (q_part (c_q cl)); [reflexivity|discriminate].
      * apply disjointb_spec. assumption.
      * apply disjointb_spec. assumption.
      * apply disjointb_spec. assumption.
      * apply disjointb_spec. assumption.
      * apply disjointb_spec. assumption.
      * intros x Hx. destruct (assoc_u_in_dom _ _ Hx) as [e He]. unfold def_of. rewrite He.
        rewrite forallb_forall in Fplain.
        assert (Hin : In (x, e) (c_defs cr)).
        { clear -He. induction (c_defs cr) as [|[k v] L IH]; simpl in He; [discriminate|].
          destruct (N.eqb_spec x k) as [->|N]; [inversion He; subst; left; reflexivity|right; apply IH; exact He]. }
        specialize (Fplain (x, e) Hin). simpl in Fplain. destruct e; try discriminate. eexists. reflexivity.
    + destruct (compile l) as [cl|] eqn:El; [|discriminate C]. destruct (compile r) as [cr|] eqn:Er; [|discriminate C].
      destruct (q_where (c_q cl)) eqn:WL; [|discriminate C]. destruct (q_where (c_q cr)) eqn:WR; [|discriminate C].
      inversion C; subst; clear C.
      apply andb_prop in F. destruct F as [F F3]. apply andb_prop in F. destruct F as [F Fon]. apply andb_prop in F. destruct F as [Fl Fr].
      apply andb_prop in F3. destruct F3 as [F3 Dlab]. apply andb_prop in F3. destruct F3 as [F3 Ddef].
      apply andb_prop in F3. destruct F3 as [F3 Dcol]. apply andb_prop in F3. destruct F3 as [F3 DsL].
      apply andb_prop in F3. destruct F3 as [F3 DsR]. apply andb_prop in F3. destruct F3 as [F3 Fsc].
      apply andb_prop in F3. destruct F3 as [F3 FplainR]. apply andb_prop in F3. destruct F3 as [F3 FplainL].
      apply andb_prop in F3. destruct F3 as [Pl Pr].
      repeat (apply andb_prop in Pl; let H := fresh "L" in destruct Pl as [Pl H]).
      repeat (apply andb_prop in Pr; let H := fresh "R" in destruct Pr as [Pr H]).
      destruct (IHl cl eq_refl Fl) as [Il Al]. destruct (IHr cr eq_refl Fr) as [Ir Ar].
      pose proof (compile_base l cl El) as Bl. pose proof (compile_base r cr Er) as Br.
      cbn [sem_ref]. fold (full_join_compiled cl cr on).
      apply negb_true_iff in Pl. apply negb_true_iff in Pr.
      assert (PlainOf : forall c0, forallb (fun d0 : uid * expr => match snd d0 with ECol _ => true | _ => false end) (c_defs c0) = true ->
                         forall x, In x (map fst (c_defs c0)) -> exists k, def_of (c_defs c0) x = ECol k).
      { intros c0 Fp x Hx. destruct (assoc_u_in_dom _ _ Hx) as [e He]. unfold def_of. rewrite He.
        rewrite forallb_forall in Fp.
        assert (Hin : In (x, e) (c_defs c0)).
        { clear -He. induction (c_defs c0) as [|[k v] L IH]; simpl in He; [discriminate|].
          destruct (N.eqb_spec x k) as [->|N]; [inversion He; subst; left; reflexivity|right; apply IH; exact He]. }
        specialize (Fp (x, e) Hin). simpl in Fp. destruct e; try discriminate. eexists. reflexivity. }
      apply (full_join_case d (sem_ref d l) (sem_ref d r) cl cr on (ast_uids l) (ast_uids r)); try assumption.
      * apply (rk_rows _ _ (ref_keys d l)).
      * apply (rk_rows _ _ (ref_keys d r)).
      * destruct (q_part (c_q cl)); [reflexivity|discriminate].
      * apply disjointb_spec. assumption.
      * apply disjointb_spec. assumption.
      * apply disjointb_spec. assumption.
      * apply disjointb_spec. assumption.
      * apply disjointb_spec. assumption.
      * apply PlainOf. exact FplainR.
      * apply PlainOf. exact FplainL.
  - cbn [compile] in C. cbn [flat_ok] in F.
    destruct (compile l) as [cl|] eqn:El; [|discriminate C]. destruct (compile r) as [cr|] eqn:Er; [|discriminate C].
    destruct (union_right_select cl cr) as [rsel|] eqn:Es; [|discriminate C]. inversion C; subst; clear C.
    apply andb_prop in F. destruct F as [F Fnd]. apply andb_prop in F. destruct F as [Fl Fr].
    destruct (IHl cl eq_refl Fl) as [Il Al]. destruct (IHr cr eq_refl Fr) as [Ir Ar].
    cbn [sem_ref]. apply (union_case d (sem_ref d l) (sem_ref d r) cl cr rsel dis); try assumption.
    apply nodup_u_NoDup. exact Fnd.
Qed.

(* COMPILE CORRECTNESS of the single-SELECT fragment: for ALL data, the meaning of the SELECT statement
   that compile_ast builds is the table of the reference semantics - names, order of columns, rows and
   their order. *)
Theorem sql_compile_correct_proof : forall d a c,
  compile a = Some c -> flat_ok a = true -> sem_query d c = export_ref (sem_ref d a).
Proof.
  intros d a c C F. destruct (compile_invariant d a c C F) as [I A]. symmetry. apply inv_frame; assumption.
Qed.
