(* Proofs/OverloadEnumA.v — C13 statement decided inside the kernel over the enumeration of
   Model/Enum.v against the catalogue and conversion table regenerated from /repo. *)
From Coq Require Import List String NArith Bool.
From PDT Require Import Model.Dtype Model.Universe Model.Signature Model.Resolve Model.Enum
     Model.OverloadChecks.
From PDTGen Require Import Catalogue.
Import ListNotations.

Lemma total_modulo_null_enum : forall_enum (total_ok has_null_arg) = true.
Proof. vm_compute. reflexivity. Qed.

(* the full statement is false of the faithful model on the unchanged tree: witness *)
Lemma total_refuted_witness :
  exists o args, existsb (opname_eqb o) all_ops = true /\
                 existsb (dtypes_eqb args) (enum_args o) = true /\
                 op_outcome o args = OAssertion.
Proof. exists Op_add, [TS SNull; TS SNull]. vm_compute. repeat split; reflexivity. Qed.
