(* Proofs/CastLemmas.v — C17: acceptance of casts (model = running code on the whole universe, and
   = the documented table plus the implicit conversions) and value-level facts. *)
From Coq Require Import List String NArith ZArith Bool PrimFloat.
From PDT Require Import Model.Dtype Model.Conv Model.Resolve Model.Universe Model.Value Model.Ops Model.Expr
     Model.Typing Proofs.TypeLemmas.
From PDTGen Require Import CastTable ConvTable.
Import ListNotations.

(* the model of Cast.dtype's acceptance *)
Definition cast_accepts (s t : dtype) : bool := converts_to s t || is_valid_cast s t.

Definition pair_mem (s t : dtype) (l : list (dtype * dtype)) : bool :=
  existsb (fun p => dtype_eqb (fst p) s && dtype_eqb (snd p) t) l.

(* model = code, for every source of U (plain and const) and every non-const target of U *)
Definition model_eq_code : bool :=
  forallb (fun s => forallb (fun t => Bool.eqb (cast_accepts s t) (pair_mem s t cast_accepted_pairs)) U_base) U.

Lemma model_eq_code_ok : model_eq_code = true.
Proof. vm_compute. reflexivity. Qed.

(* the documented table of the property, by type class *)
Definition cls_int (t : dtype) : bool := is_int t.                     (* Int and the sized integers *)
Definition cls_float (t : dtype) : bool := is_float t.                 (* Float, Float32/64, Decimal *)
Definition sized_int (t : dtype) : bool := is_int_sub t.
Definition sized_float (t : dtype) : bool := is_float_sub t.
Definition plain_string (t : dtype) : bool := dtype_eqb t (TStr None).
Definition any_string (t : dtype) : bool := is_strlike t.

Definition doc_table (s0 t : dtype) : bool :=
  let s := without_const s0 in
  (cls_float s && sized_int t)                                (* float -> int: truncates *)
  || (dtype_eqb s (TS SBool) && (sized_int t || sized_float t))   (* bool -> 0/1 *)
  || (cls_int s && (sized_float t || sized_int t))           (* int -> float / sized int *)
  || (cls_float s && sized_float t)                           (* float -> sized float *)
  || ((cls_int s || cls_float s || dtype_eqb s (TS SDate) || dtype_eqb s (TS SDatetime)) && plain_string t)
  || (any_string s && (sized_int t || sized_float t))        (* string -> number: parses numerals *)
  || (dtype_eqb s (TS SDatetime) && dtype_eqb t (TS SDate))
  || (dtype_eqb s (TS SDate) && dtype_eqb t (TS SDatetime)).

(* everything the documentation promises is accepted ... *)
Definition doc_accepted : bool :=
  forallb (fun s => forallb (fun t => implb (doc_table s t) (cast_accepts s t)) U_base) U.
Lemma doc_accepted_ok : doc_accepted = true.
Proof. vm_compute. reflexivity. Qed.

(* ... and what is accepted beyond the table is an implicit conversion (a cast that the type checker
   would insert silently anyway) or String -> Enum *)
Definition nothing_else : bool :=
  forallb (fun s => forallb (fun t =>
      implb (cast_accepts s t)
            (doc_table s t || converts_to s t
             || (any_string (without_const s) && match t with TEnum _ => true | _ => false end))) U_base) U.
Lemma nothing_else_ok : nothing_else = true.
Proof. vm_compute. reflexivity. Qed.

Lemma forallb2_spec (p : dtype -> dtype -> bool) :
  forallb (fun s => forallb (p s) U_base) U = true ->
  forall s t, In s U -> In t U_base -> p s t = true.
Proof.
  intros H s t Hs Ht. rewrite forallb_forall in H. specialize (H s Hs).
  rewrite forallb_forall in H. exact (H t Ht).
Qed.

(* ---------- values ---------- *)
Theorem null_stays_null_proof t : cast_value VNull t = VNull.
Proof. reflexivity. Qed.

Theorem bool_to_int_is_01_proof b t :
  is_int (without_const t) = true ->
  cast_value (VBool b) t = VInt (if b then 1 else 0).
Proof. intros H. unfold cast_value. rewrite H. reflexivity. Qed.

Theorem int_to_int_is_identity_proof z t :
  is_int (without_const t) = true -> in_i64 z = true -> cast_value (VInt z) t = VInt z.
Proof. intros H R. unfold cast_value, chk_int. rewrite H, R. reflexivity. Qed.

(* float -> int truncates toward zero: the documented example and the sign cases *)
Example float_to_int_examples :
  map (fun f => cast_value (VFloat f) (TS SInt64)) [3.5; 10.3; -434.4; -0.2; 0.5; -0.5; 2.5; -2.5; 1e15]%float
  = [VInt 3; VInt 10; VInt (-434); VInt 0; VInt 0; VInt 0; VInt 2; VInt (-2); VInt 1000000000000000].
Proof. vm_compute. reflexivity. Qed.

(* int -> string is the canonical decimal text *)
Example int_to_string_examples :
  map (fun z => cast_value (VInt z) (TStr None)) [0; 7; -7; 120; -1005; 9223372036854775807]%Z
  = [VStr "0"; VStr "7"; VStr "-7"; VStr "120"; VStr "-1005"; VStr "9223372036854775807"]%string.
Proof. vm_compute. reflexivity. Qed.
