(* Proofs/SqlTextLemmas.v — C18: a Python string reaches SQL as ONE string token whose content is the
   string, whatever it contains; autoescaped LIKE patterns match literally. *)
From Coq Require Import List String Ascii Bool.
From PDT Require Import Model.SqlText.
Import ListNotations.
Open Scope string_scope.

Lemma app_String c s t : String c s ++ t = String c (s ++ t). Proof. reflexivity. Qed.
Lemma append_assoc' (a b c : string) : (a ++ b) ++ c = a ++ (b ++ c).
Proof. induction a as [|x a IH]; [reflexivity|]. simpl. rewrite IH. reflexivity. Qed.
Lemma append_nil_r' (a : string) : a ++ "" = a.
Proof. induction a as [|x a IH]; [reflexivity|]. simpl. rewrite IH. reflexivity. Qed.

(* reading back the doubled body: stops exactly at the closing quote, provided the text after the
   literal does not start with another quote *)
Lemma read_body_double s rest :
  (match rest with String c _ => Ascii.eqb c sq = false | EmptyString => True end) ->
  read_body (double_quotes s ++ String sq rest) = Some (s, rest).
Proof.
  intros Hr. induction s as [|c s IH].
  - cbn [double_quotes append read_body]. assert (Ascii.eqb sq sq = true) as -> by reflexivity.
    destruct rest as [|c r]; [reflexivity|]. rewrite Hr. reflexivity.
  - cbn [double_quotes]. destruct (Ascii.eqb c sq) eqn:E.
    + apply Ascii.eqb_eq in E. subst c.
      cbn [append read_body]. assert (Ascii.eqb sq sq = true) as -> by reflexivity.
      rewrite IH. reflexivity.
    + cbn [append read_body]. rewrite E, IH. reflexivity.
Qed.

(* THE ONE-TOKEN LEMMA: for every string s (quotes, `--`, `/*`, `;`, newlines, any bytes) and every
   following text that does not start with a quote, the rendered literal followed by that text reads
   back as the literal s and exactly that text. *)
Theorem quote_is_one_token_proof s rest :
  (match rest with String c _ => Ascii.eqb c sq = false | EmptyString => True end) ->
  read_literal (quote s ++ rest) = Some (s, rest).
Proof.
  intros Hr. unfold quote, read_literal. rewrite app_String.
  assert (Ascii.eqb sq sq = true) as -> by reflexivity.
  rewrite append_assoc'. cbn [append]. apply read_body_double. exact Hr.
Qed.

Corollary quote_roundtrip_proof s : read_literal (quote s) = Some (s, EmptyString).
Proof.
  pose proof (quote_is_one_token_proof s EmptyString I) as H.
  rewrite append_nil_r' in H. exact H.
Qed.

(* ---------- LIKE with autoescape ---------- *)
Lemma parse_autoescape s : parse_like esc (autoescape esc s) = map LChar (list_ascii_of_string s).
Proof.
  induction s as [|c s IH]; [reflexivity|].
  simpl. destruct (Ascii.eqb c esc) eqn:E1; simpl.
  - rewrite ?Ascii.eqb_refl. rewrite IH. reflexivity.
  - destruct (Ascii.eqb c pct) eqn:E2; simpl.
    + rewrite ?Ascii.eqb_refl. rewrite IH. reflexivity.
    + destruct (Ascii.eqb c und) eqn:E3; simpl.
      * rewrite ?Ascii.eqb_refl. rewrite IH. reflexivity.
      * rewrite E1, E2, E3, IH. reflexivity.
Qed.

Lemma parse_like_app_pct s : parse_like esc (autoescape esc s ++ String pct EmptyString)
                             = (map LChar (list_ascii_of_string s) ++ [LAny])%list.
Proof.
  induction s as [|c s IH]; [reflexivity|].
  simpl. destruct (Ascii.eqb c esc) eqn:E1; simpl.
  - rewrite ?Ascii.eqb_refl. rewrite IH. reflexivity.
  - destruct (Ascii.eqb c pct) eqn:E2; simpl.
    + rewrite ?Ascii.eqb_refl. rewrite IH. reflexivity.
    + destruct (Ascii.eqb c und) eqn:E3; simpl.
      * rewrite ?Ascii.eqb_refl. rewrite IH. reflexivity.
      * rewrite E1, E2, E3, IH. reflexivity.
Qed.

Lemma match_any_all x : match_toks [LAny] x = true.
Proof. induction x as [|c x IH]; [reflexivity|]. cbn [match_toks] in *. rewrite IH. apply orb_true_r. Qed.

Lemma match_chars_then_any p x :
  match_toks (map LChar (list_ascii_of_string p) ++ [LAny])%list x = is_prefix p x.
Proof.
  revert x. induction p as [|c p IH]; intros x.
  - cbn [list_ascii_of_string map app is_prefix]. apply match_any_all.
  - destruct x as [|d x]; [reflexivity|]. cbn [list_ascii_of_string map app match_toks is_prefix].
    rewrite IH. reflexivity.
Qed.

(* str.starts_with(p) compiled as  x LIKE autoescape(p) || '%' ESCAPE '/'  is the literal prefix test,
   for every pattern (%, _, / included) and every subject *)
Theorem like_prefix_proof p x :
  like (autoescape esc p ++ String pct EmptyString) esc x = is_prefix p x.
Proof. unfold like. rewrite parse_like_app_pct. apply match_chars_then_any. Qed.

Lemma match_chars_exact p x :
  match_toks (map LChar (list_ascii_of_string p)) x = String.eqb p x.
Proof.
  revert x. induction p as [|c p IH]; intros x.
  - destruct x; reflexivity.
  - destruct x as [|d x]; [reflexivity|]. cbn [list_ascii_of_string map match_toks String.eqb].
    rewrite IH. reflexivity.
Qed.

Lemma parse_like_pct_app s : parse_like esc (String pct (autoescape esc s))
                             = LAny :: map LChar (list_ascii_of_string s).
Proof. cbn [parse_like]. assert (Ascii.eqb pct esc = false) as -> by reflexivity.
  rewrite Ascii.eqb_refl. rewrite parse_autoescape. reflexivity. Qed.

(* str.ends_with(p):  x LIKE '%' || autoescape(p) ESCAPE '/'  is the literal suffix test *)
Theorem like_suffix_proof p x :
  like (String pct (autoescape esc p)) esc x = is_suffix_of p x.
Proof.
  unfold like. rewrite parse_like_pct_app. cbn [match_toks].
  induction x as [|d x IH].
  - simpl. rewrite match_chars_exact. destruct p; reflexivity.
  - cbn [is_suffix_of]. rewrite match_chars_exact, <- IH. reflexivity.
Qed.
