(* Proofs/SortLemmas.v — facts about the stable insertion sort and the slice algebra that the
   order-related theorems (C02, C05, C15) use. *)
From Coq Require Import List Bool Arith Lia Permutation.
From PDT Require Import Base.StableSort.
Import ListNotations.

Section Sort.
Context {A : Type}.
Variable le : A -> A -> bool.
Hypothesis le_total : forall x y, le x y = true \/ le y x = true.
Hypothesis le_trans : forall x y z, le x y = true -> le y z = true -> le x z = true.

Lemma ins_perm x l : Permutation (x :: l) (ins le x l).
Proof.
  induction l as [|y l IH]; simpl.
  - apply Permutation_refl.
  - destruct (le x y).
    + apply Permutation_refl.
    + eapply Permutation_trans; [apply perm_swap|]. apply perm_skip. exact IH.
Qed.

Theorem ssort_perm l : Permutation l (ssort le l).
Proof.
  induction l as [|x l IH]; simpl.
  - apply Permutation_refl.
  - eapply Permutation_trans; [apply perm_skip; exact IH|]. apply ins_perm.
Qed.

Lemma ins_sorted x l : sorted le l -> sorted le (ins le x l).
Proof.
  induction l as [|y l IH]; simpl; intros S.
  - split; [intros ? []|exact I].
  - destruct S as [Sy Sl]. destruct (le x y) eqn:E.
    + split.
      * intros z [<-|Hz]; [exact E|]. apply le_trans with y; [exact E|apply Sy; exact Hz].
      * split; assumption.
    + split.
      * intros z Hz.
        apply (Permutation_in z (Permutation_sym (ins_perm x l))) in Hz.
        destruct Hz as [<-|Hz].
        -- destruct (le_total y x) as [H|H]; [exact H|congruence].
        -- apply Sy; exact Hz.
      * apply IH; exact Sl.
Qed.

Theorem ssort_sorted l : sorted le (ssort le l).
Proof.
  induction l as [|x l IH]; simpl; [exact I|]. apply ins_sorted; exact IH.
Qed.

(* ---- stability: elements that the order does not distinguish keep their input order ---- *)
Definition eqk (x y : A) : bool := le x y && le y x.

Lemma eqk_le_l x y z : eqk x y = true -> le z x = le z y.
Proof.
  unfold eqk. rewrite andb_true_iff. intros [H1 H2].
  destruct (le z x) eqn:E1, (le z y) eqn:E2; try reflexivity.
  - rewrite (le_trans z x y E1 H1) in E2. discriminate.
  - rewrite (le_trans z y x E2 H2) in E1. discriminate.
Qed.

Lemma eqk_le_r x y z : eqk x y = true -> le x z = le y z.
Proof.
  unfold eqk. rewrite andb_true_iff. intros [H1 H2].
  destruct (le x z) eqn:E1, (le y z) eqn:E2; try reflexivity.
  - rewrite (le_trans y x z H2 E1) in E2. discriminate.
  - rewrite (le_trans x y z H1 E2) in E1. discriminate.
Qed.

(* the sub-sequence of the elements equivalent to k *)
Definition cls (k : A) (l : list A) : list A := filter (fun y => eqk k y) l.

Lemma ins_cls_other k x l : eqk k x = false -> cls k (ins le x l) = cls k l.
Proof.
  intros N. induction l as [|y l IH]; simpl.
  - rewrite N. reflexivity.
  - destruct (le x y); simpl.
    + rewrite N. reflexivity.
    + rewrite IH. reflexivity.
Qed.

Lemma ins_cls_same k x l :
  sorted le l -> eqk k x = true -> cls k (ins le x l) = x :: cls k l.
Proof.
  intros S E. induction l as [|y l IH]; simpl.
  - rewrite E. reflexivity.
  - destruct S as [Sy Sl]. destruct (le x y) eqn:Lxy; simpl.
    + rewrite E. reflexivity.
    + (* y < x strictly, hence y is not equivalent to k *)
      assert (Ny : eqk k y = false).
      { unfold eqk. rewrite (eqk_le_r k x y E). rewrite Lxy. reflexivity. }
      rewrite Ny. apply IH. exact Sl.
Qed.

Theorem ssort_stable k l : cls k (ssort le l) = cls k l.
Proof.
  induction l as [|x l IH]; simpl; [reflexivity|].
  destruct (eqk k x) eqn:E.
  - rewrite ins_cls_same; [rewrite IH; reflexivity|apply ssort_sorted|exact E].
  - rewrite ins_cls_other; [exact IH|exact E].
Qed.

(* a sorted list is a fixed point *)
Lemma ins_sorted_id x l : sorted le (x :: l) -> ins le x l = x :: l.
Proof.
  destruct l as [|y l]; simpl; [reflexivity|]. intros [Sx _].
  rewrite (Sx y (or_introl eq_refl)). reflexivity.
Qed.

Theorem ssort_id l : sorted le l -> ssort le l = l.
Proof.
  induction l as [|x l IH]; simpl; intros S; [reflexivity|].
  rewrite IH by apply S. apply ins_sorted_id. exact S.
Qed.

Corollary ssort_idempotent l : ssort le (ssort le l) = ssort le l.
Proof. apply ssort_id. apply ssort_sorted. Qed.

End Sort.

(* ---- the slice algebra: slice_head(n2, offset=k2) after slice_head(n1, offset=k1) ---- *)
Lemma firstn_skipn_comm {A} (n k : nat) (l : list A) :
  skipn k (firstn n l) = firstn (n - k) (skipn k l).
Proof.
  revert n l; induction k as [|k IH]; intros n l; simpl.
  - rewrite Nat.sub_0_r. reflexivity.
  - destruct n as [|n]; simpl.
    + destruct l; reflexivity.
    + destruct l as [|x l]; simpl; [rewrite firstn_nil; reflexivity|]. apply IH.
Qed.

Lemma skipn_skipn {A} (a b : nat) (l : list A) : skipn a (skipn b l) = skipn (b + a) l.
Proof.
  revert l; induction b as [|b IH]; intros l; simpl; [reflexivity|].
  destruct l as [|x l]; simpl; [apply skipn_nil|]. apply IH.
Qed.

Theorem slice_slice {A} (n1 k1 n2 k2 : nat) (l : list A) :
  firstn n2 (skipn k2 (firstn n1 (skipn k1 l)))
  = firstn (Nat.min (n1 - k2) n2) (skipn (k1 + k2) l).
Proof.
  rewrite firstn_skipn_comm, skipn_skipn, firstn_firstn, Nat.min_comm. reflexivity.
Qed.

(* filter commutes with the stable sort: a row-preserving verb keeps the order *)
Section FilterSort.
Context {A : Type}.
Variable le : A -> A -> bool.
Hypothesis le_trans : forall x y z, le x y = true -> le y z = true -> le x z = true.
Hypothesis le_total : forall x y, le x y = true \/ le y x = true.

Lemma ins_le_all x l : (forall y, In y l -> le x y = true) -> ins le x l = x :: l.
Proof.
  destruct l as [|y l]; simpl; [reflexivity|]. intros H.
  rewrite (H y (or_introl eq_refl)). reflexivity.
Qed.

Lemma filter_ins (p : A -> bool) x l :
  sorted le l ->
  filter p (ins le x l) = if p x then ins le x (filter p l) else filter p l.
Proof.
  induction l as [|y l IH]; simpl; intros S.
  - destruct (p x); reflexivity.
  - destruct S as [Sy Sl]. destruct (le x y) eqn:E; simpl.
    + destruct (p x) eqn:Px, (p y) eqn:Py; simpl; try reflexivity.
      * rewrite E. reflexivity.
      * symmetry. apply ins_le_all. intros z Hz. apply filter_In in Hz. destruct Hz as [Hz _].
        apply le_trans with y; [exact E|apply Sy; exact Hz].
    + rewrite (IH Sl). destruct (p x) eqn:Px, (p y) eqn:Py; simpl; try reflexivity.
      rewrite E. reflexivity.
Qed.

Theorem filter_ssort (p : A -> bool) l : filter p (ssort le l) = ssort le (filter p l).
Proof.
  induction l as [|x l IH]; simpl; [reflexivity|].
  rewrite filter_ins by (apply ssort_sorted; assumption).
  destruct (p x); simpl; rewrite IH; reflexivity.
Qed.
End FilterSort.
