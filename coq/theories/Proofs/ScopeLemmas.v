(* Proofs/ScopeLemmas.v — C09 / C16: in the reference semantics a column is its uid.  Whatever happens
   to names (rename, select, overwrite, join suffixing), the data read through a uid is the data of
   the row it came from. *)
From Coq Require Import List String NArith ZArith Bool Permutation.
From PDT Require Import Base.StableSort Model.Dtype Model.Value Model.Ops Model.Expr Model.RefSem
     Proofs.SortLemmas Proofs.RefLemmas.
Import ListNotations.
Open Scope list_scope.

(* every row of the result of a row-selecting verb IS a row of the input (nothing is rewritten) *)
Theorem filter_rows_are_input_rows s ps r : In r (rows (do_filter s ps)) -> In r (rows s).
Proof.
  rewrite filter_keeps_exactly_true. intros H. apply in_map_iff in H. destruct H as [ir [<- H]].
  apply filter_In in H. destruct H as [H _].
  rewrite <- (map_snd_index_rows (rows s)). apply in_map. exact H.
Qed.

Theorem arrange_rows_are_input_rows s os r : In r (rows (do_arrange s os)) <-> In r (rows s).
Proof.
  split; intros H.
  - eapply Permutation_in; [apply Permutation_sym, arrange_is_permutation|exact H].
  - eapply Permutation_in; [apply arrange_is_permutation|exact H].
Qed.

Lemma In_firstn {A} n (l : list A) x : In x (firstn n l) -> In x l.
Proof.
  revert l; induction n as [|n IH]; intros [|y l] H; simpl in *; try contradiction.
  destruct H as [H|H]; [left; exact H|right; apply IH; exact H].
Qed.
Lemma In_skipn {A} n (l : list A) x : In x (skipn n l) -> In x l.
Proof.
  revert l; induction n as [|n IH]; intros l H; simpl in *; [exact H|].
  destruct l as [|y l]; [contradiction|]. right. apply IH. exact H.
Qed.

Theorem slice_rows_are_input_rows s n k r : In r (rows (do_slice s n k)) -> In r (rows s).
Proof. unfold do_slice. cbn [rows]. intros H. apply In_firstn in H. apply In_skipn in H. exact H. Qed.

(* a reference to a column of the left (right) input reads the left (right) part of the joined row *)

Lemma get_app_bound (lr rr : row) u :
  (exists v, In (u, v) lr) -> get (lr ++ rr) u = get lr u.
Proof.
  induction lr as [|[k w] lr IH]; simpl; intros [v H]; [contradiction|].
  destruct (N.eqb k u) eqn:E; [reflexivity|].
  destruct H as [H|H].
  - inversion H; subst. rewrite N.eqb_refl in E. discriminate.
  - apply IH. exists v. exact H.
Qed.

Theorem join_keeps_left_columns (lr rr : row) u :
  (exists v, In (u, v) lr) -> get (lr ++ rr) u = get lr u.
Proof. exact (get_app_bound lr rr u). Qed.

(* alias with a uuid map: reading the renamed uid in the renamed row is reading the old uid in the
   old row (for an injective map on the uids of the row) *)
Lemma get_remap (m : list (uid * uid)) (r : row) u :
  (forall k, (exists v, In (k, v) r) -> remap_uid m k = remap_uid m u -> k = u) ->
  get (map (fun b => (remap_uid m (fst b), snd b)) r) (remap_uid m u) = get r u.
Proof.
  induction r as [|[k w] r IH]; simpl; intros INJ; [reflexivity|].
  destruct (N.eqb k u) eqn:E.
  - apply N.eqb_eq in E. subst. rewrite N.eqb_refl. reflexivity.
  - destruct (N.eqb (remap_uid m k) (remap_uid m u)) eqn:E2.
    + apply N.eqb_eq in E2. apply INJ in E2; [|exists w; left; reflexivity].
      subst. rewrite N.eqb_refl in E. discriminate.
    + apply IH. intros k' [v Hv] Hk. apply INJ; [exists v; right; exact Hv|exact Hk].
Qed.

Theorem alias_map_keeps_data s m (r : row) u :
  In r (rows s) ->
  (forall k, (exists v, In (k, v) r) -> remap_uid m k = remap_uid m u -> k = u) ->
  exists r', In r' (rows (do_alias s (Some m))) /\ get r' (remap_uid m u) = get r u.
Proof.
  intros H INJ. exists (map (fun b => (remap_uid m (fst b), snd b)) r). split.
  - unfold do_alias. cbn [rows]. apply in_map. exact H.
  - apply get_remap. exact INJ.
Qed.
