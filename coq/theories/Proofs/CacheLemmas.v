(* Proofs/CacheLemmas.v — the metadata model (Model/Cache.v) agrees with the reference semantics:
   for every well-formed AST the visible-name map and the grouping state of the cache are the header
   and the grouping of the reference state, for ALL data (C11, C09, C16). *)
From Coq Require Import List String NArith ZArith Bool Lia.
From PDT Require Import Model.Dtype Model.Conv Model.Signature Model.Resolve Model.Value Model.Ops
     Model.Expr Model.RefSem Model.Typing Model.Cache.
Import ListNotations.
Open Scope list_scope.

(* ---------- ordered-dict facts ---------- *)
Lemma dict_set_s_new {A} k (v : A) d :
  mem_s k (map fst d) = false -> dict_set_s k v d = d ++ [(k, v)].
Proof.
  induction d as [|[k' v'] d IH]; simpl; intros H; [reflexivity|].
  apply orb_false_iff in H. destruct H as [H1 H2].
  rewrite H1. rewrite IH by exact H2. reflexivity.
Qed.

Lemma mem_s_app k a b : mem_s k (a ++ b) = mem_s k a || mem_s k b.
Proof. unfold mem_s. apply existsb_app. Qed.

Fixpoint nodup_s (l : list string) : bool :=
  match l with [] => true | x :: l' => negb (mem_s x l') && nodup_s l' end.
Definition disjoint_s (a b : list string) : bool := forallb (fun x => negb (mem_s x a)) b.

Lemma dict_union_s_app {A} (d1 d2 : list (string * A)) :
  nodup_s (map fst d2) = true -> disjoint_s (map fst d1) (map fst d2) = true ->
  dict_union_s d1 d2 = d1 ++ d2.
Proof.
  revert d1. induction d2 as [|[k v] d2 IH]; intros d1 ND DJ; simpl.
  - rewrite app_nil_r. reflexivity.
  - simpl in ND, DJ. apply andb_true_iff in ND. destruct ND as [N1 N2].
    apply andb_true_iff in DJ. destruct DJ as [D1 D2].
    unfold dict_union_s in *. simpl.
    rewrite dict_set_s_new by (apply negb_true_iff; exact D1).
    rewrite IH.
    + rewrite <- app_assoc. reflexivity.
    + exact N2.
    + rewrite map_app. simpl. unfold disjoint_s.
      apply forallb_forall. intros x Hx.
      unfold disjoint_s in D2. rewrite forallb_forall in D2. specialize (D2 x Hx).
      rewrite mem_s_app. simpl. rewrite orb_false_r.
      apply negb_true_iff. apply orb_false_iff. split.
      * apply negb_true_iff. exact D2.
      * (* x <> k because k is not in d2's keys *)
        apply negb_true_iff in N1.
        destruct (String.eqb x k) eqn:E; [|reflexivity].
        apply String.eqb_eq in E. subst x.
        exfalso. unfold mem_s in N1.
        assert (existsb (String.eqb k) (map fst d2) = true).
        { apply existsb_exists. exists k. split; [exact Hx|apply String.eqb_refl]. }
        congruence.
Qed.

(* ---------- the invariant ---------- *)
Definition agrees (c : cache) (s : rstate) : Prop :=
  name_to_uuid c = sel s /\ partition_by c = group s.

(* side conditions under which the cache is a faithful description: they are what the verb front end
   establishes (join names made disjoint by suffixing, grouping columns visible, new names distinct) *)
Definition summarize_ok (c : cache) (defs : list def) : bool :=
  let names := map (fun d => fst (fst d)) defs in
  nodup_s names
  && forallb (fun u => match uuid_to_name c u, env_get (cols c) u with Some _, Some _ => true | _, _ => false end)
             (partition_by c)
  && nodup_s (map (fun u => match uuid_to_name c u with Some n => n | None => EmptyString end) (partition_by c)).

Fixpoint wf (sch : schema) (a : ast) : bool :=
  match a with
  | Source _ _ => true
  | Select c _ | Rename c _ | Mutate c _ | Filter c _ | Arrange c _ | SliceHead c _ _ | GroupBy c _ _
  | Ungroup c | Alias c _ | SubqueryMarker c => wf sch c
  | Summarize c defs =>
      wf sch c && match cache_of_ast sch c with TOk cc => summarize_ok cc defs | TErr _ => false end
  | Join l r _ _ =>
      wf sch l && wf sch r &&
      match cache_of_ast sch l, cache_of_ast sch r with
      | TOk cl, TOk cr => nodup_s (map fst (name_to_uuid cr))
                          && disjoint_s (map fst (name_to_uuid cl)) (map fst (name_to_uuid cr))
                          && match partition_by cl with [] => true | _ => false end
      | _, _ => false
      end
  | Union l r _ =>
      wf sch l && wf sch r &&
      match cache_of_ast sch l with
      | TOk cl => match partition_by cl with [] => true | _ => false end
      | TErr _ => false
      end
  end.

Lemma name_of_uuid_to_name c s u :
  name_to_uuid c = sel s ->
  name_of (sel s) u = match uuid_to_name c u with Some n => n | None => EmptyString end.
Proof.
  intros E. unfold name_of, uuid_to_name. rewrite E.
  destruct (find (fun p => N.eqb (snd p) u) (sel s)); reflexivity.
Qed.

Lemma new_cols_names env aiw defs nc :
  new_cols aiw env defs = TOk nc ->
  map (fun p => c_name (snd p)) nc = map (fun d => fst (fst d)) defs
  /\ map fst nc = map (fun d => snd (fst d)) defs.
Proof.
  revert nc. induction defs as [|[[n u] e] ds IH]; intros nc H; simpl in H.
  - inversion H. split; reflexivity.
  - destruct (dtype_of env e); [|discriminate]. simpl in H.
    destruct (ftype_of aiw env e); [|discriminate]. simpl in H.
    destruct (new_cols aiw env ds) as [rest|] eqn:E; [|discriminate].
    simpl in H. inversion H; subst nc. simpl.
    destruct (IH rest eq_refl) as [I1 I2]. rewrite I1, I2. split; reflexivity.
Qed.

Lemma gcols_spec c s (names : list string) pb :
  name_to_uuid c = sel s ->
  forallb (fun u => match uuid_to_name c u, env_get (cols c) u with Some _, Some _ => true | _, _ => false end) pb = true ->
  map (fun p : string * (uid * colinfo) => (fst p, fst (snd p)))
      (flat_map (fun u =>
         match uuid_to_name c u, env_get (cols c) u with
         | Some n, Some ci => if mem_s n names then [] else [(n, (u, ci))]
         | _, _ => []
         end) pb)
  = filter (fun p => negb (mem_s (fst p) names)) (map (fun u => (name_of (sel s) u, u)) pb).
Proof.
  intros En. induction pb as [|u us IH]; intros VIS; [reflexivity|].
  simpl in VIS. apply andb_true_iff in VIS. destruct VIS as [V1 V2].
  cbn [flat_map map filter fst snd]. rewrite map_app, (name_of_uuid_to_name c s u En).
  destruct (uuid_to_name c u) as [n|]; [|discriminate].
  destruct (env_get (cols c) u) as [ci|]; [|discriminate].
  destruct (mem_s n names) eqn:M; cbn [negb map fst snd app]; rewrite IH by exact V2; reflexivity.
Qed.

Lemma summarize_sel c s defs nc :
  agrees c s -> summarize_ok c defs = true -> new_cols false (cols c) defs = TOk nc ->
  let names := map (fun d => fst (fst d)) defs in
  let gcols := flat_map (fun u =>
                 match uuid_to_name c u, env_get (cols c) u with
                 | Some n, Some ci => if mem_s n names then [] else [(n, (u, ci))]
                 | _, _ => []
                 end) (partition_by c) in
  map (fun p => (fst p, fst (snd p))) (dict_union_s gcols (map (fun p => (c_name (snd p), p)) nc))
  = filter (fun p => negb (mem_s (fst p) names)) (map (fun u => (name_of (sel s) u, u)) (group s))
    ++ map (fun d => (fst (fst d), snd (fst d))) defs.
Proof.
  intros [En Ep] OK NC names gcols.
  unfold summarize_ok in OK. apply andb_true_iff in OK. destruct OK as [OK ND2].
  apply andb_true_iff in OK. destruct OK as [ND1 VIS].
  destruct (new_cols_names _ _ _ _ NC) as [Nn Nu].
  assert (K : map fst (map (fun p : uid * colinfo => (c_name (snd p), p)) nc) = names).
  { rewrite map_map. simpl. exact Nn. }
  (* keys of gcols are the (non-overwritten) group names: disjoint from the new names *)
  assert (G : map (fun p => (fst p, fst (snd p))) gcols
              = filter (fun p => negb (mem_s (fst p) names)) (map (fun u => (name_of (sel s) u, u)) (group s))).
  { unfold gcols. rewrite <- Ep. apply gcols_spec; assumption. }
  assert (DJ : disjoint_s (map fst gcols) names = true).
  { apply forallb_forall. intros x Hx. apply negb_true_iff.
    destruct (mem_s x (map fst gcols)) eqn:M; [|reflexivity]. exfalso.
    unfold mem_s in M. apply existsb_exists in M. destruct M as [y [Hy Exy]].
    apply String.eqb_eq in Exy. subst y.
    unfold gcols in Hy. apply in_map_iff in Hy. destruct Hy as [[n [u ci]] [Hn Hin]]. simpl in Hn. subst n.
    apply in_flat_map in Hin. destruct Hin as [u0 [_ Hin]].
    destruct (uuid_to_name c u0); [|destruct Hin]. destruct (env_get (cols c) u0); [|destruct Hin].
    destruct (mem_s s0 names) eqn:M2; [destruct Hin|].
    destruct Hin as [Hin|[]]. inversion Hin; subst.
    unfold mem_s in M2. assert (existsb (String.eqb x) names = true).
    { apply existsb_exists. exists x. split; [exact Hx|apply String.eqb_refl]. }
    congruence. }
  rewrite dict_union_s_app.
  - rewrite map_app, G. f_equal.
    rewrite map_map. simpl.
    (* pairs (name, uid) of the new columns *)
    clear - Nn Nu. revert nc Nn Nu. induction defs as [|[[n u] e] ds IH]; intros [|[u' ci] nc] Nn Nu;
      simpl in *; try discriminate; [reflexivity|].
    inversion Nn. inversion Nu. subst. f_equal. apply IH; assumption.
  - rewrite K. exact ND1.
  - rewrite K. exact DJ.
Qed.

Theorem cache_agrees_with_reference sch d :
  forall a c, wf sch a = true -> cache_of_ast sch a = TOk c -> agrees c (sem_ref d a).
Proof.
  induction a as [t cs|a IH us|a IH m|a IH defs|a IH ps|a IH os|a IH n k|a IH us add|a IH|a IH defs
                 |a IH m|a IH|l IHl r IHr on how|l IHl r IHr dist];
    intros c W H; simpl in W, H.
  - inversion H. split; reflexivity.
  - destruct (cache_of_ast sch a) as [cc|] eqn:E; [|discriminate]. inversion H; subst c.
    destruct (IH cc W eq_refl) as [En Ep]. split; [|exact Ep].
    simpl. apply map_ext. intros u. rewrite (name_of_uuid_to_name cc _ u En). reflexivity.
  - destruct (cache_of_ast sch a) as [cc|] eqn:E; [|discriminate]. inversion H; subst c.
    destruct (IH cc W eq_refl) as [En Ep]. split; [|exact Ep]. simpl. rewrite En. reflexivity.
  - destruct (cache_of_ast sch a) as [cc|] eqn:E; [|discriminate]. simpl in H.
    unfold upd_mutate in H. destruct (new_cols true (cols cc) defs); [|discriminate].
    simpl in H. inversion H; subst c.
    destruct (IH cc W eq_refl) as [En Ep]. split; [|exact Ep]. simpl. rewrite En. reflexivity.
  - destruct (cache_of_ast sch a) as [cc|] eqn:E; [|discriminate]. inversion H; subst c.
    destruct (IH cc W eq_refl) as [En Ep]. split; assumption.
  - destruct (IH c W H) as [En Ep]. split; assumption.
  - destruct (cache_of_ast sch a) as [cc|] eqn:E; [|discriminate]. inversion H; subst c.
    destruct (IH cc W eq_refl) as [En Ep]. split; assumption.
  - destruct (cache_of_ast sch a) as [cc|] eqn:E; [|discriminate]. inversion H; subst c.
    destruct (IH cc W eq_refl) as [En Ep]. split; [exact En|]. simpl. rewrite Ep. reflexivity.
  - destruct (cache_of_ast sch a) as [cc|] eqn:E; [|discriminate]. inversion H; subst c.
    destruct (IH cc W eq_refl) as [En Ep]. split; [exact En|reflexivity].
  - apply andb_true_iff in W. destruct W as [W1 W2].
    destruct (cache_of_ast sch a) as [cc|] eqn:E; [|discriminate]. simpl in H.
    unfold upd_summarize in H. destruct (new_cols false (cols cc) defs) as [nc|] eqn:NC; [|discriminate].
    simpl in H. inversion H; subst c.
    pose proof (IH cc W1 eq_refl) as A. split; [|reflexivity].
    simpl. apply (summarize_sel cc _ defs nc A W2 NC).
  - destruct (cache_of_ast sch a) as [cc|] eqn:E; [|discriminate]. inversion H; subst c.
    destruct (IH cc W eq_refl) as [En Ep].
    destruct m as [m|]; simpl; [|split; assumption].
    split; simpl; [rewrite En|rewrite Ep]; reflexivity.
  - destruct (cache_of_ast sch a) as [cc|] eqn:E; [|discriminate]. inversion H; subst c.
    destruct (IH cc W eq_refl) as [En Ep]. split; assumption.
  - apply andb_true_iff in W. destruct W as [W W3]. apply andb_true_iff in W. destruct W as [W1 W2].
    destruct (cache_of_ast sch l) as [cl|] eqn:El; [|discriminate].
    destruct (cache_of_ast sch r) as [cr|] eqn:Er; [|discriminate].
    simpl in H. inversion H; subst c.
    apply andb_true_iff in W3. destruct W3 as [W3 PB]. apply andb_true_iff in W3. destruct W3 as [ND DJ].
    destruct (IHl cl W1 eq_refl) as [Enl Epl]. destruct (IHr cr W2 eq_refl) as [Enr Epr].
    split.
    + simpl. rewrite dict_union_s_app by assumption. rewrite Enl, Enr. reflexivity.
    + simpl. (* join is only applied to ungrouped tables: the result is ungrouped *)
      destruct (partition_by cl); [reflexivity|discriminate].
  - apply andb_true_iff in W. destruct W as [W PB]. apply andb_true_iff in W. destruct W as [W1 W2].
    destruct (cache_of_ast sch l) as [cl|] eqn:El; [|discriminate].
    destruct (cache_of_ast sch r) as [cr|] eqn:Er; [|discriminate].
    simpl in H. inversion H; subst c.
    destruct (IHl cl W1 eq_refl) as [Enl Epl]. split; [exact Enl|].
    simpl. destruct (partition_by cl); [reflexivity|discriminate].
Qed.
