(* Proofs/RefLemmas.v — facts about the reference semantics of the row-preserving verbs (C02) that
   pin the specification down: what each verb changes and, equally, what it must not change. *)
From Coq Require Import List String NArith ZArith Bool Lia.
From PDT Require Import Base.StableSort Model.Dtype Model.Value Model.Ops Model.Expr Model.RefSem
     Proofs.SortLemmas.
Import ListNotations.
Open Scope list_scope.

Lemma get_upd r u v x : get (upd r u v) x = if N.eqb u x then v else get r x.
Proof. reflexivity. Qed.

(* ---------- mutate: every expression sees the table as it was before the call ---------- *)
Section Mutate.
Variable ctx : list irow.
Variable ir : irow.

Definition apply_defs (defs : list def) (r0 : row) : row :=
  fold_left (fun r d => upd r (snd (fst d)) (eval ctx ir (snd d))) defs r0.

Lemma apply_defs_other defs : forall r0 u,
  ~ In u (map (fun d => snd (fst d)) defs) -> get (apply_defs defs r0) u = get r0 u.
Proof.
  induction defs as [|d ds IH]; intros r0 u N; simpl; [reflexivity|].
  unfold apply_defs in *. simpl. rewrite IH.
  - rewrite get_upd. destruct (N.eqb (snd (fst d)) u) eqn:E; [|reflexivity].
    apply N.eqb_eq in E. exfalso. apply N. left. exact E.
  - intros H. apply N. right. exact H.
Qed.

Lemma apply_defs_new defs : forall r0 d,
  NoDup (map (fun d => snd (fst d)) defs) -> In d defs ->
  get (apply_defs defs r0) (snd (fst d)) = eval ctx ir (snd d).
Proof.
  induction defs as [|d0 ds IH]; intros r0 d ND Hin; [destruct Hin|].
  simpl in ND. inversion ND as [|? ? Hnot ND']; subst.
  destruct Hin as [<-|Hin].
  - unfold apply_defs. simpl. fold (apply_defs ds (upd r0 (snd (fst d0)) (eval ctx ir (snd d0)))).
    rewrite apply_defs_other by exact Hnot.
    rewrite get_upd, N.eqb_refl. reflexivity.
  - unfold apply_defs. simpl. fold (apply_defs ds (upd r0 (snd (fst d0)) (eval ctx ir (snd d0)))).
    apply IH; assumption.
Qed.
End Mutate.

Lemma do_mutate_rows s defs :
  rows (do_mutate s defs)
  = map (fun ir => apply_defs (index_rows (rows s)) ir defs (snd ir)) (index_rows (rows s)).
Proof. reflexivity. Qed.

Lemma length_index_rows rs : List.length (index_rows rs) = List.length rs.
Proof.
  unfold index_rows. generalize 0%nat. induction rs as [|r rs IH]; intros n; simpl; [reflexivity|].
  rewrite IH. reflexivity.
Qed.

Lemma map_snd_index_rows rs : map snd (index_rows rs) = rs.
Proof.
  unfold index_rows. generalize 0%nat. induction rs as [|r rs IH]; intros n; simpl; [reflexivity|].
  rewrite IH. reflexivity.
Qed.

(* mutate keeps the number and order of rows ... *)
Theorem mutate_preserves_length s defs :
  List.length (rows (do_mutate s defs)) = List.length (rows s).
Proof. rewrite do_mutate_rows, map_length. apply length_index_rows. Qed.

(* ... every new column holds the value of its expression on the OLD row (simultaneous
   assignment: mutate(a = b, b = a) swaps) ... *)
Theorem mutate_simultaneous s defs i ir d :
  NoDup (map (fun d => snd (fst d)) defs) ->
  nth_error (index_rows (rows s)) i = Some ir -> In d defs ->
  exists r', nth_error (rows (do_mutate s defs)) i = Some r' /\
             get r' (snd (fst d)) = eval (index_rows (rows s)) ir (snd d).
Proof.
  intros ND Hi Hd. rewrite do_mutate_rows.
  exists (apply_defs (index_rows (rows s)) ir defs (snd ir)). split.
  - rewrite nth_error_map, Hi. reflexivity.
  - apply apply_defs_new; assumption.
Qed.

(* ... and every other column, visible or hidden, keeps its data: an overwritten column is still
   readable through its old uid *)
Theorem mutate_keeps_old s defs i ir u :
  ~ In u (map (fun d => snd (fst d)) defs) ->
  nth_error (index_rows (rows s)) i = Some ir ->
  exists r', nth_error (rows (do_mutate s defs)) i = Some r' /\ get r' u = get (snd ir) u.
Proof.
  intros N Hi. rewrite do_mutate_rows.
  exists (apply_defs (index_rows (rows s)) ir defs (snd ir)). split.
  - rewrite nth_error_map, Hi. reflexivity.
  - apply apply_defs_other; assumption.
Qed.

(* ---------- select / drop / rename only touch the visible names ---------- *)
Theorem select_only_hides d c us :
  rows (sem_ref d (Select c us)) = rows (sem_ref d c)
  /\ group (sem_ref d (Select c us)) = group (sem_ref d c)
  /\ map snd (sel (sem_ref d (Select c us))) = us.
Proof.
  simpl. repeat split. rewrite map_map. simpl. apply map_id.
Qed.

Theorem rename_only_names d c m :
  rows (sem_ref d (Rename c m)) = rows (sem_ref d c)
  /\ map snd (sel (sem_ref d (Rename c m))) = map snd (sel (sem_ref d c))
  /\ group (sem_ref d (Rename c m)) = group (sem_ref d c).
Proof.
  simpl. repeat split. rewrite map_map. simpl. reflexivity.
Qed.

(* ---------- filter keeps exactly the rows where every predicate is true ---------- *)
Definition passes (ctx : list irow) (ps : list expr) (ir : irow) : bool :=
  forallb (fun p => value_eqb (eval ctx ir p) (VBool true)) ps.

Lemma filter_map_pair {X Y W} (f : X -> Y) (q : Y -> bool) (g : X -> W) (l : list X) :
  map fst (filter (fun rv => q (snd rv)) (map (fun x => (g x, f x)) l))
  = map g (filter (fun x => q (f x)) l).
Proof.
  induction l as [|x l IH]; simpl; [reflexivity|].
  destruct (q (f x)); simpl; rewrite IH; reflexivity.
Qed.

Lemma forallb_map' {X Y} (f : X -> Y) (q : Y -> bool) l : forallb q (map f l) = forallb (fun x => q (f x)) l.
Proof. induction l as [|x l IH]; simpl; [reflexivity|]. rewrite IH. reflexivity. Qed.

Theorem filter_keeps_exactly_true s ps :
  rows (do_filter s ps)
  = map snd (filter (passes (index_rows (rows s)) ps) (index_rows (rows s))).
Proof.
  unfold do_filter, passes. cbn [rows].
  rewrite (filter_map_pair (fun ir => map (eval (index_rows (rows s)) ir) ps)
                           (fun vs => forallb (fun v => value_eqb v (VBool true)) vs) snd).
  f_equal. apply filter_ext. intros ir. rewrite forallb_map'. reflexivity.
Qed.

(* null (and false) is not true *)
Lemma null_is_not_true : value_eqb VNull (VBool true) = false /\ value_eqb (VBool false) (VBool true) = false.
Proof. split; reflexivity. Qed.

(* filter returns a sub-sequence: no row is changed, duplicated or reordered *)
Theorem filter_subsequence s ps :
  exists keep : irow -> bool,
    rows (do_filter s ps) = map snd (filter keep (index_rows (rows s))).
Proof. eexists. apply filter_keeps_exactly_true. Qed.

(* ---------- slice_head keeps rows k .. k+n-1 of the current order; chains compose ---------- *)
Theorem slice_spec s n k :
  rows (do_slice s n k) = firstn (Z.to_nat n) (skipn (Z.to_nat k) (rows s)).
Proof. reflexivity. Qed.

Theorem slice_chain s n1 k1 n2 k2 :
  (0 <= n1)%Z -> (0 <= k1)%Z -> (0 <= n2)%Z -> (0 <= k2)%Z ->
  rows (do_slice (do_slice s n1 k1) n2 k2)
  = rows (do_slice s (Z.min (Z.max (n1 - k2) 0) n2) (k1 + k2)).
Proof.
  intros H1 H2 H3 H4. rewrite !slice_spec. rewrite slice_slice.
  f_equal.
  - lia.
  - f_equal. lia.
Qed.

(* ---------- group_by / ungroup / alias(keep) / subquery marker change no data ---------- *)
Theorem group_alias_no_data_change d c us add :
  rows (sem_ref d (GroupBy c us add)) = rows (sem_ref d c)
  /\ sel (sem_ref d (GroupBy c us add)) = sel (sem_ref d c)
  /\ rows (sem_ref d (Ungroup c)) = rows (sem_ref d c)
  /\ sel (sem_ref d (Ungroup c)) = sel (sem_ref d c)
  /\ export_ref (sem_ref d (Alias c None)) = export_ref (sem_ref d c)
  /\ export_ref (sem_ref d (SubqueryMarker c)) = export_ref (sem_ref d c).
Proof. simpl. repeat split. Qed.

(* ---------- arrange is a stable sort: permutation, and row-preserving verbs keep the order ---------- *)
Theorem arrange_is_permutation s os :
  Permutation.Permutation (rows s) (rows (do_arrange s os)).
Proof.
  unfold do_arrange. cbn [rows].
  set (keyed := map (fun ir => (map (fun o => eval (index_rows (rows s)) ir (fst o)) os, ir))
                    (index_rows (rows s))).
  assert (E : rows s = map (fun k => snd (snd k)) keyed).
  { unfold keyed. rewrite map_map. simpl. symmetry. apply map_snd_index_rows. }
  rewrite E at 1. apply Permutation.Permutation_map. apply ssort_perm.
Qed.
