(* Proofs/ListRel.v — generic facts about lists related position by position (Forall2), filters and the
   stable sort of keyed lists; used by the compile-correctness proofs and the congruence of eval. *)
From Coq Require Import List String NArith ZArith Bool Lia Arith.
From PDT Require Import Base.StableSort Model.Dtype Model.Value Model.Ops Model.Expr Model.RefSem Model.SqlCompile.
Import ListNotations.
Open Scope list_scope.

(* ---------- lists ---------- *)
Lemma mem_u_In x l : mem_u x l = true <-> In x l.
Proof.
  unfold mem_u. rewrite existsb_exists. split.
  - intros [y [Hy E]]. apply N.eqb_eq in E. subst. exact Hy.
  - intros H. exists x. split; [exact H|apply N.eqb_refl].
Qed.

Lemma forallb_mem_incl l l' : forallb (fun u => mem_u u l') l = true -> forall x, In x l -> In x l'.
Proof. intros H x Hx. rewrite forallb_forall in H. apply mem_u_In. apply H. exact Hx. Qed.

Lemma nodup_u_NoDup l : nodup_u l = true -> NoDup l.
Proof.
  induction l as [|x l IH]; intros H; [constructor|]. simpl in H. apply andb_prop in H. destruct H as [H1 H2].
  constructor; [|apply IH; exact H2]. intros C. apply mem_u_In in C. rewrite C in H1. discriminate H1.
Qed.

Lemma Forall2_filter {A B} (R : A -> B -> Prop) (p : A -> bool) (p' : B -> bool) l l' :
  Forall2 R l l' -> (forall a b, R a b -> p a = p' b) -> Forall2 R (filter p l) (filter p' l').
Proof.
  induction 1 as [|a b l l' Hab _ IH]; intros H; simpl; [constructor|].
  rewrite <- (H a b Hab). destruct (p a); [constructor; [exact Hab|apply IH; exact H]|apply IH; exact H].
Qed.

Lemma Forall2_firstn {A B} (R : A -> B -> Prop) n : forall l l', Forall2 R l l' -> Forall2 R (firstn n l) (firstn n l').
Proof. induction n as [|n IH]; intros l l' H; simpl; [constructor|]. destruct H; constructor; auto. Qed.
Lemma Forall2_skipn {A B} (R : A -> B -> Prop) n : forall l l', Forall2 R l l' -> Forall2 R (skipn n l) (skipn n l').
Proof. induction n as [|n IH]; intros l l' H; simpl; [exact H|]. destruct H; [constructor|apply IH; assumption]. Qed.

Lemma Forall2_map_l {A B C} (R : C -> B -> Prop) (f : A -> C) l l' :
  Forall2 (fun a b => R (f a) b) l l' -> Forall2 R (map f l) l'.
Proof. induction 1; simpl; constructor; auto. Qed.
Lemma Forall2_map_r {A B C} (R : A -> C -> Prop) (f : B -> C) l l' :
  Forall2 (fun a b => R a (f b)) l l' -> Forall2 R l (map f l').
Proof. induction 1; simpl; constructor; auto. Qed.

Lemma Forall2_index_rows {B} (R : row -> B -> Prop) rs l' :
  Forall2 R rs l' -> Forall2 (fun ir b => R (snd ir) b) (index_rows rs) l'.
Proof.
  unfold index_rows. generalize 0%nat. intros n H. revert n.
  induction H as [|r b rs l' Hrb _ IH]; intros n; simpl; constructor; [exact Hrb|apply IH].
Qed.

Lemma filter_true {A} (l : list A) : filter (fun _ => true) l = l.
Proof. induction l as [|x l IH]; simpl; [reflexivity|rewrite IH; reflexivity]. Qed.

Lemma filter_andb {A} (p q : A -> bool) l : filter (fun x => p x && q x) l = filter q (filter p l).
Proof.
  induction l as [|x l IH]; simpl; [reflexivity|]. destruct (p x); simpl; [destruct (q x); rewrite IH; reflexivity|exact IH].
Qed.

Lemma filter_map_comm {A B} (f : A -> B) (p : B -> bool) l : filter p (map f l) = map f (filter (fun x => p (f x)) l).
Proof. induction l as [|x l IH]; simpl; [reflexivity|]. destruct (p (f x)); simpl; rewrite IH; reflexivity. Qed.

(* ---------- definitions, labels ---------- *)

Section KeyedSort.
Context {K A B : Type}.
Variable f : K -> K -> bool.
Variable R : A -> B -> Prop.
Let leA (x y : K * A) := f (fst x) (fst y).
Let leB (x y : K * B) := f (fst x) (fst y).
Let R2 (x : K * A) (y : K * B) := fst x = fst y /\ R (snd x) (snd y).

Lemma Forall2_ins a b L L' : R2 a b -> Forall2 R2 L L' -> Forall2 R2 (ins leA a L) (ins leB b L').
Proof.
  intros Hab H. induction H as [|y y' L L' Hy HL IH]; simpl; [constructor; [exact Hab|constructor]|].
  assert (E : leA a y = leB b y').
  { unfold leA, leB. destruct Hab as [E1 _]. destruct Hy as [E2 _]. rewrite E1, E2. reflexivity. }
  rewrite <- E. destruct (leA a y).
  - constructor; [exact Hab|]. constructor; assumption.
  - constructor; [exact Hy|exact IH].
Qed.

Lemma Forall2_ssort L L' : Forall2 R2 L L' -> Forall2 R2 (ssort leA L) (ssort leB L').
Proof. induction 1 as [|a b L L' Hab _ IH]; simpl; [constructor|]. apply Forall2_ins; assumption. Qed.
End KeyedSort.

Lemma Forall2_index_rows_r {A} (Q : A -> irow -> Prop) (l : list A) (rs : list row) :
  Forall2 (fun a r => forall i, Q a (i, r)) l rs -> Forall2 Q l (index_rows rs).
Proof.
  unfold index_rows. generalize 0%nat. intros n H. revert n.
  induction H as [|a r l rs Har _ IH]; intros n; simpl; constructor; [apply Har|apply IH].
Qed.
