(* Proofs/OverloadEnumB.v — C13 statement decided inside the kernel over the enumeration of
   Model/Enum.v against the catalogue and conversion table regenerated from /repo. *)
From Coq Require Import List String NArith Bool.
From PDT Require Import Model.Dtype Model.Universe Model.Signature Model.Resolve Model.Enum
     Model.OverloadChecks.
From PDTGen Require Import Catalogue.
Import ListNotations.

Lemma uniform_enum : forall_enum uniform_ok = true.
Proof. vm_compute. reflexivity. Qed.
