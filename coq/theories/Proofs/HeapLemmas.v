(* Proofs/HeapLemmas.v — C10: soundness of the static write-effect check of Model/Heap.v.
   If safe_path p = true then every execution of p, from any environment and heap, with any contents
   of the objects it creates or mutates, leaves every object that existed before unchanged. *)
From Coq Require Import List Arith Bool Lia.
From PDT Require Import Model.Heap.
Import ListNotations.

(* ---------- heaps ---------- *)
Lemma update_length h : forall l c, List.length (update h l c) = List.length h.
Proof. induction h as [|x h IH]; intros [|l] c; simpl; try reflexivity. rewrite IH. reflexivity. Qed.

Lemma nth_update_eq h : forall l c, l < List.length h -> nth_error (update h l c) l = Some c.
Proof. induction h as [|x h IH]; intros [|l] c H; simpl in *; try lia; [reflexivity|]. apply IH. lia. Qed.

Lemma nth_update_neq h : forall l l' c, l <> l' -> nth_error (update h l c) l' = nth_error h l'.
Proof.
  induction h as [|x h IH]; intros [|l] [|l'] c H; simpl; try reflexivity; try lia.
  apply IH. lia.
Qed.

Lemma nth_app_old {A} (h : list A) c l : l < List.length h -> nth_error (h ++ [c]) l = nth_error h l.
Proof. intros H. apply nth_error_app1. exact H. Qed.

Lemma nth_app_new {A} (h : list A) c : nth_error (h ++ [c]) (List.length h) = Some c.
Proof. rewrite nth_error_app2 by lia. rewrite Nat.sub_diag. reflexivity. Qed.

(* ---------- facts ---------- *)
Definition facts_below (n : nat) (L : list (nat * (fld * aval))) : Prop := Forall (fun e => fst e < n) L.

Lemma lookup_f_none_above n f L : facts_below n L -> lookup_f n f L = AOld.
Proof.
  induction 1 as [|[i [g v]] L Hi _ IH]; [reflexivity|]. simpl in *.
  destruct (Nat.eqb_spec i n) as [E|E]; [lia|]. simpl. exact IH.
Qed.

Lemma lookup_f_drop_same id f L : lookup_f id f (drop_facts id L) = AOld.
Proof.
  induction L as [|[i [g v]] L IH]; [reflexivity|]. simpl.
  destruct (Nat.eqb_spec i id) as [E|E]; simpl; [exact IH|].
  destruct (Nat.eqb_spec i id) as [E'|E']; [contradiction|]. simpl. exact IH.
Qed.

Lemma lookup_f_drop_other id id2 f L : id2 <> id -> lookup_f id2 f (drop_facts id L) = lookup_f id2 f L.
Proof.
  intros Hne. induction L as [|[i [g v]] L IH]; [reflexivity|]. simpl.
  destruct (Nat.eqb_spec i id) as [E|E]; simpl.
  - subst. destruct (Nat.eqb_spec id id2) as [E2|E2]; [congruence|]. simpl. exact IH.
  - rewrite IH. reflexivity.
Qed.

Lemma lookup_f_copy_other src dst id f L M : id <> dst ->
  lookup_f id f (copy_facts src dst L ++ M) = lookup_f id f M.
Proof.
  intros Hne. unfold copy_facts. induction L as [|[i [g v]] L IH]; [reflexivity|]. simpl.
  destruct (Nat.eqb_spec i src) as [E|E]; simpl; [|exact IH].
  destruct (Nat.eqb_spec dst id) as [E2|E2]; [congruence|]. simpl. exact IH.
Qed.

Lemma lookup_f_copy_same src dst f L M : facts_below dst M ->
  lookup_f dst f (copy_facts src dst L ++ M) = lookup_f src f L.
Proof.
  intros HM. unfold copy_facts. induction L as [|[i [g v]] L IH].
  - simpl. apply lookup_f_none_above. exact HM.
  - simpl. destruct (Nat.eqb_spec i src) as [E|E]; simpl.
    + rewrite Nat.eqb_refl. simpl. destruct (Nat.eqb g f); [reflexivity|exact IH].
    + exact IH.
Qed.

Lemma facts_below_mono n m L : n <= m -> facts_below n L -> facts_below m L.
Proof. intros H. apply Forall_impl. intros e He. lia. Qed.

Lemma facts_below_drop n id L : facts_below n L -> facts_below n (drop_facts id L).
Proof.
  intros H. unfold facts_below, drop_facts in *. rewrite Forall_forall in *. intros e He.
  apply filter_In in He. apply H. tauto.
Qed.

Lemma facts_below_copy src dst L : facts_below (S dst) (copy_facts src dst L).
Proof.
  unfold facts_below, copy_facts. apply Forall_forall. intros e He. apply in_map_iff in He.
  destruct He as [e0 [<- _]]. simpl. lia.
Qed.

(* ---------- the invariant ---------- *)
Definition gamma := nat -> option loc.

Record Inv (n0 : nat) (h0 : heap) (g : gamma) (a : astate) (e : env) (h : heap) : Prop := {
  i_env : forall x id, lookup_a x a = ANew id -> exists l, assoc x e = Some l /\ g id = Some l;
  i_rng : forall id l, g id = Some l -> n0 <= l < List.length h;
  i_fld : forall id f id' l fs l',
      lookup_f id f (afld a) = ANew id' -> g id = Some l -> nth_error h l = Some (Shell fs) ->
      assoc f fs = Some l' -> g id' = Some l';
  i_inj : forall i j l, g i = Some l -> g j = Some l -> i = j;
  i_next : forall id l, g id = Some l -> id < anext a;
  i_facts : facts_below (anext a) (afld a);
  i_coll : forall id idx l, lookup_f id coll_fld (afld a) = ANew idx -> g id = Some l ->
      exists ls, nth_error h l = Some (Coll ls) /\ forall le, In le ls -> n0 <= le < List.length h;
  i_frame : n0 <= List.length h /\ forall l, l < n0 -> nth_error h l = nth_error h0 l
}.

Definition extend (g : gamma) (id : nat) (l : loc) : gamma := fun i => if Nat.eqb i id then Some l else g i.

Lemma extend_same g id l : extend g id l id = Some l.
Proof. unfold extend. rewrite Nat.eqb_refl. reflexivity. Qed.
Lemma extend_other g id l i : i <> id -> extend g id l i = g i.
Proof. unfold extend. intros H. destruct (Nat.eqb_spec i id); [contradiction|reflexivity]. Qed.

(* allocation of a new object: the invariant survives with the new id mapped to the new location *)
Lemma inv_alloc n0 h0 g a e h c :
  Inv n0 h0 g a e h ->
  Inv n0 h0 (extend g (anext a) (List.length h))
      {| aenv := aenv a; afld := afld a; anext := S (anext a) |} e (h ++ [c]).
Proof.
  intros I. destruct I as [Ienv Irng Ifld Iinj Inext Ifacts Icoll [Ifr1 Ifr2]].
  assert (Hlen : List.length (h ++ [c]) = S (List.length h)) by (rewrite app_length; simpl; lia).
  constructor; simpl.
  - intros x id H. destruct (Ienv x id H) as [l [H1 H2]]. exists l. split; [exact H1|].
    rewrite extend_other; [exact H2|]. specialize (Inext _ _ H2). lia.
  - intros id l H. unfold extend in H. destruct (Nat.eqb_spec id (anext a)) as [E|E].
    + inversion H; subst. lia.
    + specialize (Irng _ _ H). lia.
  - intros id f id' l fs l' Hf Hg Hn Ha. unfold extend in Hg.
    destruct (Nat.eqb_spec id (anext a)) as [E|E].
    + subst. rewrite (lookup_f_none_above _ _ _ Ifacts) in Hf. discriminate Hf.
    + pose proof (Irng _ _ Hg) as R. rewrite nth_app_old in Hn by lia.
      pose proof (Ifld _ _ _ _ _ _ Hf Hg Hn Ha) as G. rewrite extend_other; [exact G|].
      specialize (Inext _ _ G). lia.
  - intros i j l Hi Hj. unfold extend in Hi, Hj.
    destruct (Nat.eqb_spec i (anext a)) as [Ei|Ei]; destruct (Nat.eqb_spec j (anext a)) as [Ej|Ej].
    + congruence.
    + inversion Hi; subst. specialize (Irng _ _ Hj). lia.
    + inversion Hj; subst. specialize (Irng _ _ Hi). lia.
    + apply (Iinj _ _ _ Hi Hj).
  - intros id l H. unfold extend in H. destruct (Nat.eqb_spec id (anext a)) as [E|E]; [lia|].
    specialize (Inext _ _ H). lia.
  - apply (facts_below_mono (anext a)); [lia|exact Ifacts].
  - intros id idx l Hf Hg. unfold extend in Hg. destruct (Nat.eqb_spec id (anext a)) as [E|E].
    + subst. rewrite (lookup_f_none_above _ _ _ Ifacts) in Hf. discriminate Hf.
    + destruct (Icoll _ _ _ Hf Hg) as [ls [Hn Hb]]. pose proof (Irng _ _ Hg) as R. exists ls. split.
      * rewrite nth_app_old by lia. exact Hn.
      * intros le Hle. specialize (Hb le Hle). lia.
  - split; [lia|]. intros l Hl. rewrite nth_app_old by lia. apply Ifr2. exact Hl.
Qed.

(* the heap grows by objects nothing refers to *)
Lemma inv_grow n0 h0 g a e h cs : Inv n0 h0 g a e h -> Inv n0 h0 g a e (h ++ cs).
Proof.
  intros I. destruct I as [Ienv Irng Ifld Iinj Inext Ifacts Icoll [Ifr1 Ifr2]].
  assert (Hlen : List.length h <= List.length (h ++ cs)) by (rewrite app_length; lia).
  constructor.
  - exact Ienv.
  - intros id l H. specialize (Irng _ _ H). lia.
  - intros id f id' l fs l' Hf Hg Hn Ha. pose proof (Irng _ _ Hg) as R.
    rewrite nth_error_app1 in Hn by lia. apply (Ifld _ _ _ _ _ _ Hf Hg Hn Ha).
  - exact Iinj.
  - exact Inext.
  - exact Ifacts.
  - intros id idx l Hf Hg. destruct (Icoll _ _ _ Hf Hg) as [ls [Hn Hb]]. pose proof (Irng _ _ Hg) as R.
    exists ls. split; [rewrite nth_error_app1 by lia; exact Hn|]. intros le Hle. specialize (Hb le Hle). lia.
  - split; [lia|]. intros l Hl. rewrite nth_error_app1 by lia. apply Ifr2. exact Hl.
Qed.

Lemma aeval_sound n0 h0 g a e h r l h1 v a1 :
  Inv n0 h0 g a e h -> ceval r e h l h1 -> aeval r a = (v, a1) ->
  exists g1, Inv n0 h0 g1 a1 e h1 /\ (forall id, v = ANew id -> g1 id = Some l)
             /\ aenv a1 = aenv a /\ afld a1 = afld a.
Proof.
  intros I C A. destruct r as [|x f|x|]; simpl in A; injection A as Ev Ea; subst v a1.
  - inversion C as [e0 h2 c| | |]; subst.
    exists (extend g (anext a) (List.length h)). split; [apply inv_alloc; exact I|]. split; [|split; reflexivity].
    intros id E. inversion E; subst. apply extend_same.
  - inversion C as [|e0 h2 x0 f0 lx fs l0 Hx Hn Hf| |]; subst.
    exists g. split; [exact I|]. split; [|split; reflexivity]. intros id' E.
    destruct (lookup_a x a) as [|id] eqn:Lx; [discriminate E|].
    destruct (i_env _ _ _ _ _ _ I x id Lx) as [l1 [H1 H2]]. pose proof (eq_trans (eq_sym Hx) H1) as Q; inversion Q; subst.
    apply (i_fld _ _ _ _ _ _ I id f id' l1 fs l E H2 Hn Hf).
  - inversion C as [| |e0 h2 x0 l0 Hx|]; subst.
    exists g. split; [exact I|]. split; [|split; reflexivity]. intros id E.
    destruct (i_env _ _ _ _ _ _ I x id E) as [l1 [H1 H2]]. pose proof (eq_trans (eq_sym Hx) H1) as Q; inversion Q; subst. exact H2.
  - inversion C; subst. exists g. split; [exact I|]. split; [|split; reflexivity]. intros id E. discriminate E.
Qed.

Lemma lookup_a_same_env x a a1 : aenv a1 = aenv a -> lookup_a x a1 = lookup_a x a.
Proof. unfold lookup_a. intros ->. reflexivity. Qed.

(* mutating the object at a location this call allocated *)
Lemma inv_mutate n0 h0 g a e h id l c :
  Inv n0 h0 g a e h -> g id = Some l ->
  Inv n0 h0 g {| aenv := aenv a; afld := drop_facts id (afld a); anext := anext a |} e (update h l c).
Proof.
  intros I Hg. destruct I as [Ienv Irng Ifld Iinj Inext Ifacts Icoll [Ifr1 Ifr2]].
  pose proof (Irng _ _ Hg) as Rl.
  constructor; simpl.
  - exact Ienv.
  - intros id2 l2 H. rewrite update_length. apply (Irng _ _ H).
  - intros id2 f id' l2 fs l' Hf Hg2 Hn Ha.
    destruct (Nat.eq_dec id2 id) as [E|E].
    + subst. rewrite lookup_f_drop_same in Hf. discriminate Hf.
    + rewrite lookup_f_drop_other in Hf by exact E.
      assert (l <> l2) by (intros C; subst; apply E; apply (Iinj _ _ _ Hg2 Hg)).
      rewrite nth_update_neq in Hn by assumption. apply (Ifld _ _ _ _ _ _ Hf Hg2 Hn Ha).
  - exact Iinj.
  - exact Inext.
  - apply facts_below_drop. exact Ifacts.
  - intros id2 idx l2 Hf Hg2. destruct (Nat.eq_dec id2 id) as [E|E].
    + subst. rewrite lookup_f_drop_same in Hf. discriminate Hf.
    + rewrite lookup_f_drop_other in Hf by exact E.
      assert (l <> l2) by (intros C; subst; apply E; apply (Iinj _ _ _ Hg2 Hg)).
      destruct (Icoll _ _ _ Hf Hg2) as [ls [Hn Hb]]. exists ls. rewrite update_length.
      split; [rewrite nth_update_neq by assumption; exact Hn|exact Hb].
  - rewrite update_length. split; [exact Ifr1|]. intros l2 Hl2.
    rewrite nth_update_neq by lia. apply Ifr2. exact Hl2.
Qed.

(* facts on the reserved field *)
Lemma lookup_f_coll_facts id L : lookup_f id coll_fld (coll_facts L) = lookup_f id coll_fld L.
Proof.
  induction L as [|[i [f v]] L IH]; [reflexivity|].
  unfold coll_facts in *. cbn [filter fst snd].
  destruct (Nat.eqb_spec f coll_fld) as [E|E].
  - subst f. cbn [lookup_f]. rewrite IH. reflexivity.
  - cbn [lookup_f]. rewrite IH. destruct (Nat.eqb_spec f coll_fld) as [E2|_]; [contradiction|].
    rewrite andb_false_r. reflexivity.
Qed.

Lemma lookup_f_coll_facts_other id f L : f <> coll_fld -> lookup_f id f (coll_facts L) = AOld.
Proof.
  intros Hf. induction L as [|[i [f2 v]] L IH]; [reflexivity|].
  unfold coll_facts in *. cbn [filter fst snd].
  destruct (Nat.eqb_spec f2 coll_fld) as [E|E]; [|exact IH].
  cbn [lookup_f]. destruct (Nat.eqb_spec f2 f) as [E2|_]; [exfalso; apply Hf; congruence|].
  rewrite andb_false_r. exact IH.
Qed.

Lemma facts_below_coll n L : facts_below n L -> facts_below n (coll_facts L).
Proof.
  unfold facts_below, coll_facts. intros H. rewrite Forall_forall in *. intros x Hx.
  apply filter_In in Hx. apply H. exact (proj1 Hx).
Qed.

Lemma step_sound n0 h0 g a e h s e' h' a' :
  Inv n0 h0 g a e h -> cstep (e, h) s (e', h') -> astep a s = Some a' ->
  exists g', Inv n0 h0 g' a' e' h'.
Proof.
  intros I C A.
  inversion C as [e1 h1 dst src ls c Hs Hc | e1 h1 x f r l h2 lx fs Hev Hx Hn | e1 h1 x f lx fs l c Hx Hn Hf
                  | e1 h1 x l c Hx | e1 h1 x r l h2 Hev
                  | e1 h1 x cs | e1 h1 x r l h2 lx ls Hev Hx Hn | e1 h1 x f r l h2 lx ls le fs Hev Hx Hn Hle Hne
                  | e1 h1 x lx ls le c Hx Hn Hle]; subst; simpl in A.
  - (* copy *)
    inversion A; subst; clear A.
    pose proof (inv_alloc _ _ _ _ _ _ c I) as J.
    exists (extend g (anext a) (List.length h)).
    destruct J as [Jenv Jrng Jfld Jinj Jnext Jfacts Jcoll Jfr]. simpl in *.
    constructor; simpl.
    + intros x id H. unfold lookup_a in H. simpl in H. destruct (Nat.eqb_spec dst x) as [E|E].
      * inversion H; subst. exists (List.length h). split; [reflexivity|apply extend_same].
      * destruct (Jenv x id) as [l [H1 H2]]; [unfold lookup_a; simpl; exact H|]. exists l. split; assumption.
    + exact Jrng.
    + intros id f id' l fs l' Hf Hg Hn Ha.
      destruct (Nat.eq_dec id (anext a)) as [E|E].
      * subst. rewrite extend_same in Hg. inversion Hg; subst. rewrite nth_app_new in Hn. inversion Hn; subst.
        destruct (lookup_a src a) as [|ids] eqn:Ls.
        -- simpl in Hf. rewrite (lookup_f_none_above _ _ _ (i_facts _ _ _ _ _ _ I)) in Hf. discriminate Hf.
        -- rewrite lookup_f_copy_same in Hf by (apply (i_facts _ _ _ _ _ _ I)).
           destruct (i_env _ _ _ _ _ _ I src ids Ls) as [l0 [H1 H2]]. pose proof (eq_trans (eq_sym Hs) H1) as Q; inversion Q; subst.
           pose proof (i_fld _ _ _ _ _ _ I ids f id' l0 fs l' Hf H2 Hc Ha) as G.
           rewrite extend_other; [exact G|]. pose proof (i_next _ _ _ _ _ _ I _ _ G). lia.
      * assert (Hf2 : lookup_f id f (afld a) = ANew id').
        { destruct (lookup_a src a) as [|ids]; [exact Hf|]. rewrite lookup_f_copy_other in Hf by exact E. exact Hf. }
        apply (Jfld _ _ _ _ _ _ Hf2 Hg Hn Ha).
    + exact Jinj.
    + exact Jnext.
    + unfold facts_below. apply Forall_app. split; [|exact Jfacts].
      destruct (lookup_a src a); [constructor|apply facts_below_copy].
    + intros id idx l Hf Hg.
      destruct (Nat.eq_dec id (anext a)) as [E|E].
      * subst. rewrite extend_same in Hg. inversion Hg; subst.
        destruct (lookup_a src a) as [|ids] eqn:Ls.
        -- simpl in Hf. rewrite (lookup_f_none_above _ _ _ (i_facts _ _ _ _ _ _ I)) in Hf. discriminate Hf.
        -- rewrite lookup_f_copy_same in Hf by (apply (i_facts _ _ _ _ _ _ I)).
           destruct (i_env _ _ _ _ _ _ I src ids Ls) as [l0 [H1 H2]]. pose proof (eq_trans (eq_sym Hs) H1) as Q; inversion Q; subst.
           destruct (i_coll _ _ _ _ _ _ I ids idx l0 Hf H2) as [ls0 [Hn0 Hb0]].
           rewrite Hc in Hn0. inversion Hn0; subst. exists ls0. split; [apply nth_app_new|].
           intros le Hle. specialize (Hb0 le Hle). rewrite app_length. simpl. lia.
      * assert (Hf2 : lookup_f id coll_fld (afld a) = ANew idx).
        { destruct (lookup_a src a) as [|ids]; [exact Hf|]. rewrite lookup_f_copy_other in Hf by exact E. exact Hf. }
        apply (Jcoll _ _ _ Hf2 Hg).
    + exact Jfr.
  - (* set field *)
    destruct (lookup_a x a) as [|id] eqn:Lx; [discriminate A|].
    destruct (Nat.eqb_spec f coll_fld) as [Efc|Efc]; [discriminate A|].
    destruct (aeval r a) as [v a1] eqn:Ev. inversion A; subst; clear A.
    destruct (aeval_sound _ _ _ _ _ _ _ _ _ _ _ I Hev Ev) as [g1 [J [Hv [Henv _]]]].
    exists g1.
    assert (Lx1 : lookup_a x a1 = ANew id) by (rewrite (lookup_a_same_env x a a1 Henv); exact Lx).
    destruct (i_env _ _ _ _ _ _ J x id Lx1) as [l0 [H1 H2]]. pose proof (eq_trans (eq_sym Hx) H1) as Q; inversion Q; subst l0. clear H1 Q.
    pose proof (i_rng _ _ _ _ _ _ J _ _ H2) as Rlx.
    destruct J as [Jenv Jrng Jfld Jinj Jnext Jfacts Jcoll [Jfr1 Jfr2]].
    constructor; simpl.
    + intros y idy H. apply Jenv. unfold lookup_a in *. simpl in H. exact H.
    + intros id2 l2 H. rewrite update_length. apply (Jrng _ _ H).
    + intros id2 f2 id' l2 fs2 l' Hf Hg Hn2 Ha.
      destruct (Nat.eq_dec l2 lx) as [El|El].
      * subst l2. assert (id2 = id) by apply (Jinj _ _ _ Hg H2). subst id2.
        rewrite nth_update_eq in Hn2 by lia. inversion Hn2; subst fs2. clear Hn2.
        simpl in Hf. rewrite Nat.eqb_refl in Hf. simpl in Hf, Ha.
        destruct (Nat.eqb_spec f f2) as [Ef|Ef].
        -- subst f2. injection Ha as Ha. subst l'. apply Hv. exact Hf.
        -- apply (Jfld _ _ _ _ _ _ Hf Hg Hn Ha).
      * rewrite nth_update_neq in Hn2 by lia.
        simpl in Hf. destruct (Nat.eqb_spec id id2) as [Ei|Ei].
        -- subst. exfalso. apply El. rewrite H2 in Hg. inversion Hg. reflexivity.
        -- simpl in Hf. apply (Jfld _ _ _ _ _ _ Hf Hg Hn2 Ha).
    + exact Jinj.
    + exact Jnext.
    + constructor; [simpl; apply (Jnext _ _ H2)|exact Jfacts].
    + intros id2 idx l2 Hf Hg. simpl in Hf.
      destruct (Nat.eqb_spec f coll_fld) as [E0|_]; [contradiction|]. rewrite andb_false_r in Hf.
      destruct (Jcoll _ _ _ Hf Hg) as [ls2 [Hn2 Hb2]]. exists ls2. rewrite update_length.
      assert (lx <> l2) by (intros C0; subst; rewrite Hn in Hn2; discriminate Hn2).
      split; [rewrite nth_update_neq by assumption; exact Hn2|exact Hb2].
    + rewrite update_length. split; [exact Jfr1|]. intros l2 Hl2. rewrite nth_update_neq by lia. apply Jfr2. exact Hl2.
  - (* mutate the object a field refers to *)
    destruct (lookup_a x a) as [|id] eqn:Lx; [discriminate A|].
    destruct (lookup_f id f (afld a)) as [|id'] eqn:Lf; [discriminate A|]. inversion A; subst; clear A.
    destruct (i_env _ _ _ _ _ _ I x id Lx) as [l0 [H1 H2]]. pose proof (eq_trans (eq_sym Hx) H1) as Q; inversion Q; subst l0.
    pose proof (i_fld _ _ _ _ _ _ I id f id' lx fs l Lf H2 Hn Hf) as G.
    exists g. apply inv_mutate; assumption.
  - (* mutate a variable's object *)
    destruct (lookup_a x a) as [|id] eqn:Lx; [discriminate A|]. inversion A; subst; clear A.
    destruct (i_env _ _ _ _ _ _ I x id Lx) as [l0 [H1 H2]]. pose proof (eq_trans (eq_sym Hx) H1) as Q; inversion Q; subst l0.
    exists g. apply inv_mutate; assumption.
  - (* let *)
    destruct (aeval r a) as [v a1] eqn:Ev. inversion A; subst; clear A.
    destruct (aeval_sound _ _ _ _ _ _ _ _ _ _ _ I Hev Ev) as [g1 [J [Hv [Henv _]]]].
    exists g1. destruct J as [Jenv Jrng Jfld Jinj Jnext Jfacts Jcoll Jfr].
    constructor; simpl; try assumption.
    intros y id H. unfold lookup_a in H. simpl in H. destruct (Nat.eqb_spec x y) as [E|E].
    + inversion H; subst. exists l. split; [reflexivity|apply Hv; reflexivity].
    + destruct (Jenv y id) as [l0 [H1 H2]]; [unfold lookup_a; exact H|]. exists l0. split; assumption.
  - (* a new list of new objects *)
    inversion A; subst; clear A.
    pose proof (inv_grow _ _ _ _ _ _ cs I) as I1.
    pose proof (inv_alloc _ _ _ _ _ _ (Coll (seq (List.length h) (List.length cs))) I1) as J.
    pose proof (proj1 (i_frame _ _ _ _ _ _ I)) as Fr0.
    assert (Hl : List.length (h ++ cs) = List.length h + List.length cs) by apply app_length.
    exists (extend g (anext a) (List.length (h ++ cs))).
    destruct J as [Jenv Jrng Jfld Jinj Jnext Jfacts Jcoll Jfr]. simpl in *.
    constructor; simpl.
    + intros y id H. unfold lookup_a in H. simpl in H. destruct (Nat.eqb_spec x y) as [E|E].
      * inversion H; subst. exists (List.length h + List.length cs). split; [reflexivity|]. rewrite <- Hl. apply extend_same.
      * destruct (Jenv y id) as [l [H1 H2]]; [unfold lookup_a; simpl; exact H|]. exists l. split; assumption.
    + exact Jrng.
    + intros id f id' l fs l' Hf Hg Hn Ha.
      destruct (Nat.eqb_spec (anext a) id) as [E|E].
      * subst id. rewrite extend_same in Hg. inversion Hg; subst l. rewrite nth_app_new in Hn. discriminate Hn.
      * simpl in Hf. apply (Jfld _ _ _ _ _ _ Hf Hg Hn Ha).
    + exact Jinj.
    + exact Jnext.
    + constructor; [simpl; lia|exact Jfacts].
    + intros id idx l Hf Hg.
      destruct (Nat.eqb_spec (anext a) id) as [E|E].
      * subst id. rewrite extend_same in Hg. inversion Hg; subst l.
        exists (seq (List.length h) (List.length cs)). split; [apply nth_app_new|].
        intros le Hle. apply in_seq in Hle. rewrite app_length. simpl. lia.
      * simpl in Hf. apply (Jcoll _ _ _ Hf Hg).
    + exact Jfr.
  - (* append a new object to such a list *)
    destruct (lookup_a x a) as [|id] eqn:Lx; [discriminate A|].
    destruct (is_coll id a) eqn:Ic; [|discriminate A].
    destruct (aeval r a) as [v a1] eqn:Ev. destruct v as [|idv]; [discriminate A|]. inversion A; subst a'; clear A.
    destruct (aeval_sound _ _ _ _ _ _ _ _ _ _ _ I Hev Ev) as [g1 [J [Hv [Henv Hfld]]]].
    exists g1.
    assert (Lx1 : lookup_a x a1 = ANew id) by (rewrite (lookup_a_same_env x a a1 Henv); exact Lx).
    destruct (i_env _ _ _ _ _ _ J x id Lx1) as [l0 [H1 H2]]. pose proof (eq_trans (eq_sym Hx) H1) as Q; inversion Q; subst l0. clear H1 Q.
    pose proof (i_rng _ _ _ _ _ _ J _ _ H2) as Rlx.
    pose proof (i_rng _ _ _ _ _ _ J _ _ (Hv idv eq_refl)) as Rl.
    unfold is_coll in Ic. rewrite <- Hfld in Ic. destruct (lookup_f id coll_fld (afld a1)) as [|idc] eqn:Lc; [discriminate Ic|].
    destruct (i_coll _ _ _ _ _ _ J id idc lx Lc H2) as [ls0 [Hn0 Hb0]]. rewrite Hn in Hn0. inversion Hn0; subst ls0. clear Hn0.
    destruct J as [Jenv Jrng Jfld Jinj Jnext Jfacts Jcoll [Jfr1 Jfr2]].
    constructor.
    + exact Jenv.
    + intros id2 l2 H. rewrite update_length. apply (Jrng _ _ H).
    + intros id2 f2 id' l2 fs2 l' Hf Hg Hn2 Ha.
      destruct (Nat.eq_dec l2 lx) as [El|El].
      * subst l2. rewrite nth_update_eq in Hn2 by lia. discriminate Hn2.
      * rewrite nth_update_neq in Hn2 by lia. apply (Jfld _ _ _ _ _ _ Hf Hg Hn2 Ha).
    + exact Jinj.
    + exact Jnext.
    + exact Jfacts.
    + intros id2 idx l2 Hf Hg. rewrite update_length.
      destruct (Nat.eq_dec l2 lx) as [El|El].
      * subst l2. exists (ls ++ [l]). split; [apply nth_update_eq; lia|].
        intros le Hle. apply in_app_or in Hle. destruct Hle as [Hle|[Hle|[]]]; [apply Hb0; exact Hle|subst le; exact Rl].
      * destruct (Jcoll _ _ _ Hf Hg) as [ls2 [Hn2 Hb2]]. exists ls2.
        split; [rewrite nth_update_neq by lia; exact Hn2|exact Hb2].
    + rewrite update_length. split; [exact Jfr1|]. intros l2 Hl2. rewrite nth_update_neq by lia. apply Jfr2. exact Hl2.
  - (* write a field of an element of such a list *)
    destruct (lookup_a x a) as [|id] eqn:Lx; [discriminate A|].
    destruct (is_coll id a) eqn:Ic; [|discriminate A].
    destruct (aeval r a) as [v a1] eqn:Ev. inversion A; subst a'; clear A.
    destruct (aeval_sound _ _ _ _ _ _ _ _ _ _ _ I Hev Ev) as [g1 [J [Hv [Henv Hfld]]]].
    exists g1.
    assert (Lx1 : lookup_a x a1 = ANew id) by (rewrite (lookup_a_same_env x a a1 Henv); exact Lx).
    destruct (i_env _ _ _ _ _ _ J x id Lx1) as [l0 [H1 H2]]. pose proof (eq_trans (eq_sym Hx) H1) as Q; inversion Q; subst l0. clear H1 Q.
    unfold is_coll in Ic. rewrite <- Hfld in Ic. destruct (lookup_f id coll_fld (afld a1)) as [|idc] eqn:Lc; [discriminate Ic|].
    destruct (i_coll _ _ _ _ _ _ J id idc lx Lc H2) as [ls0 [Hn0 Hb0]]. rewrite Hn in Hn0. inversion Hn0; subst ls0. clear Hn0.
    pose proof (Hb0 le Hle) as Rle.
    destruct J as [Jenv Jrng Jfld Jinj Jnext Jfacts Jcoll [Jfr1 Jfr2]].
    assert (NotColl : forall id2 idx l2, lookup_f id2 coll_fld (afld a1) = ANew idx -> g1 id2 = Some l2 -> l2 <> le).
    { intros id2 idx l2 Hf Hg C0. subst l2. destruct (Jcoll _ _ _ Hf Hg) as [ls2 [Hn2 _]]. rewrite Hne in Hn2. discriminate Hn2. }
    constructor; simpl.
    + exact Jenv.
    + intros id2 l2 H. rewrite update_length. apply (Jrng _ _ H).
    + intros id2 f2 id' l2 fs2 l' Hf Hg Hn2 Ha.
      destruct (Nat.eq_dec f2 coll_fld) as [Ef|Ef].
      * subst f2. rewrite lookup_f_coll_facts in Hf.
        pose proof (NotColl _ _ _ Hf Hg) as Ne. rewrite nth_update_neq in Hn2 by lia.
        destruct (Jcoll _ _ _ Hf Hg) as [ls2 [Hn3 _]]. rewrite Hn3 in Hn2. discriminate Hn2.
      * rewrite lookup_f_coll_facts_other in Hf by exact Ef. discriminate Hf.
    + exact Jinj.
    + exact Jnext.
    + apply facts_below_coll. exact Jfacts.
    + intros id2 idx l2 Hf Hg. rewrite lookup_f_coll_facts in Hf. rewrite update_length.
      pose proof (NotColl _ _ _ Hf Hg) as Ne.
      destruct (Jcoll _ _ _ Hf Hg) as [ls2 [Hn2 Hb2]]. exists ls2.
      split; [rewrite nth_update_neq by lia; exact Hn2|exact Hb2].
    + rewrite update_length. split; [exact Jfr1|]. intros l2 Hl2. rewrite nth_update_neq by lia. apply Jfr2. exact Hl2.
  - (* change an element of such a list in place *)
    destruct (lookup_a x a) as [|id] eqn:Lx; [discriminate A|].
    destruct (is_coll id a) eqn:Ic; [|discriminate A]. inversion A; subst a'; clear A.
    destruct (i_env _ _ _ _ _ _ I x id Lx) as [l0 [H1 H2]]. pose proof (eq_trans (eq_sym Hx) H1) as Q; inversion Q; subst l0. clear H1 Q.
    unfold is_coll in Ic. destruct (lookup_f id coll_fld (afld a)) as [|idc] eqn:Lc; [discriminate Ic|].
    destruct (i_coll _ _ _ _ _ _ I id idc lx Lc H2) as [ls0 [Hn0 Hb0]]. rewrite Hn in Hn0. inversion Hn0; subst ls0. clear Hn0.
    pose proof (Hb0 le Hle) as Rle.
    exists g. destruct I as [Ienv Irng Ifld Iinj Inext Ifacts Icoll [Ifr1 Ifr2]].
    constructor; simpl.
    + exact Ienv.
    + intros id2 l2 H. rewrite update_length. apply (Irng _ _ H).
    + intros id2 f2 id' l2 fs2 l' Hf. discriminate Hf.
    + exact Iinj.
    + exact Inext.
    + constructor.
    + intros id2 idx l2 Hf. discriminate Hf.
    + rewrite update_length. split; [exact Ifr1|]. intros l2 Hl2. rewrite nth_update_neq by lia. apply Ifr2. exact Hl2.
Qed.


Lemma exec_sound n0 h0 : forall p g a e h e' h',
  Inv n0 h0 g a e h -> cexec (e, h) p (e', h') -> safe_from a p = true ->
  exists g' a', Inv n0 h0 g' a' e' h'.
Proof.
  induction p as [|s p IH]; intros g a e h e' h' I C S.
  - inversion C; subst. exists g, a. exact I.
  - inversion C as [|s1 [e2 h2] s3 st p' Hstep Hrest]; subst. simpl in S.
    destruct (astep a s) as [a2|] eqn:As; [|discriminate S].
    destruct (step_sound _ _ _ _ _ _ _ _ _ _ I Hstep As) as [g2 I2].
    apply (IH g2 a2 e2 h2 e' h' I2 Hrest S).
Qed.

Lemma inv_init e h : Inv (List.length h) h (fun _ => None) init_astate e h.
Proof.
  constructor; simpl.
  - intros x id H. unfold lookup_a in H. simpl in H. discriminate H.
  - intros id l H. discriminate H.
  - intros id f id' l fs l' H. discriminate H.
  - intros i j l H. discriminate H.
  - intros id l H. discriminate H.
  - constructor.
  - intros id idx l H. discriminate H.
  - split; [lia|reflexivity].
Qed.

(* THE FRAME THEOREM *)
Theorem safe_path_preserves_old_objects_proof : forall p e h e' h',
  safe_path p = true -> cexec (e, h) p (e', h') ->
  List.length h <= List.length h' /\ forall l, l < List.length h -> nth_error h' l = nth_error h l.
Proof.
  intros p e h e' h' S C.
  destruct (exec_sound (List.length h) h p _ _ e h e' h' (inv_init e h) C S) as [g' [a' I]].
  exact (i_frame _ _ _ _ _ _ I).
Qed.
