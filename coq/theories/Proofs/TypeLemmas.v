(* Proofs/TypeLemmas.v — C12: the value computed by the reference semantics inhabits the static type
   (Model/Typing.v) for literals, casts, comparisons, boolean operators and aggregates. *)
From Coq Require Import List String NArith ZArith Bool Lia.
From PDT Require Import Model.Dtype Model.Conv Model.Value Model.Ops Model.Expr Model.Typing.
From PDTGen Require Import Catalogue.
Import ListNotations.

(* null inhabits every type; VErr marks "no defined value" and is not constrained *)
Definition has_type (v : value) (t : dtype) : bool :=
  let b := without_const t in
  match v with
  | VNull | VErr => true
  | VInt _ => is_int b
  | VFloat _ => is_float b
  | VBool _ => dtype_eqb b (TS SBool)
  | VStr _ => is_strlike b
  | VDate _ => dtype_eqb b (TS SDate)
  | VDatetime _ => dtype_eqb b (TS SDatetime)
  end.

Theorem literal_has_its_type_proof v : has_type v (lit_dtype v) = true.
Proof. destruct v; reflexivity. Qed.

Lemma chk_int_shape z : chk_int z = VInt z \/ chk_int z = VErr.
Proof. unfold chk_int. destruct (in_i64 z); auto. Qed.
Lemma chk_float_shape f : chk_float f = VFloat f \/ chk_float f = VErr.
Proof. unfold chk_float. destruct (f_is_finite f); auto. Qed.

Lemma without_const_idem t : without_const (without_const t) = without_const t.
Proof. induction t; simpl; auto. Qed.

Lemma is_int_wc t : is_int t = is_int (without_const t).
Proof. induction t; simpl; auto. Qed.
Lemma is_float_wc t : is_float t = is_float (without_const t).
Proof. induction t; simpl; auto. Qed.

(* a cast yields a value of the target type (or has no defined value) *)
Theorem cast_has_target_type_proof v t : has_type (cast_value v t) t = true.
Proof.
  unfold cast_value, has_type.
  remember (without_const t) as b eqn:Hb.
  destruct v; try reflexivity.
  - (* VInt *)
    destruct (is_int b) eqn:EI.
    + destruct (chk_int_shape z) as [-> | ->]; [reflexivity|reflexivity].
    + destruct (is_float b) eqn:EF.
      * destruct (Z.abs z <? 9007199254740992)%Z; [reflexivity|reflexivity].
      * destruct b as [sb| | | | | |]; try reflexivity; destruct sb; reflexivity.
  - (* VBool *)
    destruct (is_int b) eqn:EI; [reflexivity|].
    destruct (is_float b) eqn:EF; [reflexivity|].
    destruct b as [sb| | | | | |]; try reflexivity; destruct sb; reflexivity.
  - (* VStr *)
    destruct (is_int b) eqn:EI.
    { destruct (parse_Z s); [|reflexivity]. destruct (chk_int_shape z) as [-> | ->]; reflexivity. }
    destruct (is_float b) eqn:EF; [reflexivity|].
    destruct b as [sb| | | | | |]; try reflexivity; destruct sb; reflexivity.
  - (* VFloat *)
    destruct (is_int b) eqn:EI.
    + destruct (f_is_finite f); [|reflexivity].
      destruct (chk_int_shape (float_trunc_Z f)) as [-> | ->]; [reflexivity|reflexivity].
    + destruct (is_float b) eqn:EF; [reflexivity|].
      destruct b as [sb| | | | | |]; try reflexivity; destruct sb; reflexivity.
  - (* VDate *)
    destruct (is_int b) eqn:EI; [reflexivity|].
    destruct (is_float b) eqn:EF; [reflexivity|].
    destruct b as [sb| | | | | |]; try reflexivity; destruct sb; reflexivity.
  - (* VDatetime *)
    destruct (is_int b) eqn:EI; [reflexivity|].
    destruct (is_float b) eqn:EF; [reflexivity|].
    destruct b as [sb| | | | | |]; try reflexivity; destruct sb; reflexivity.
Qed.

(* comparisons and the boolean operators produce booleans (or null) *)
Definition boolish (v : value) : bool := match v with VBool _ | VNull | VErr => true | _ => false end.

Theorem comparisons_are_boolean_proof a b :
  boolish (v_eq a b) = true /\ boolish (v_ne a b) = true /\ boolish (v_lt a b) = true
  /\ boolish (v_le a b) = true /\ boolish (v_gt a b) = true /\ boolish (v_ge a b) = true.
Proof. repeat split; destruct a, b; reflexivity. Qed.

Theorem logic_is_boolean_proof a b :
  boolish (k_and a b) = true /\ boolish (k_or a b) = true /\ boolish (k_xor a b) = true /\ boolish (k_not a) = true.
Proof. repeat split; destruct a as [| |[]| | | | |], b as [| |[]| | | | |]; reflexivity. Qed.

(* integer arithmetic stays integer *)
Definition intish (v : value) : bool := match v with VInt _ | VNull | VErr => true | _ => false end.

Theorem int_arith_is_int_proof x y :
  intish (v_add (VInt x) (VInt y)) = true /\ intish (v_sub (VInt x) (VInt y)) = true
  /\ intish (v_mul (VInt x) (VInt y)) = true /\ intish (v_floordiv (VInt x) (VInt y)) = true
  /\ intish (v_mod (VInt x) (VInt y)) = true /\ intish (v_neg (VInt x)) = true /\ intish (v_abs (VInt x)) = true.
Proof.
  unfold v_add, v_sub, v_mul, v_floordiv, v_mod, v_neg, v_abs. cbn [num2_of].
  repeat split;
    try (destruct (Z.eqb y 0)); try reflexivity;
    match goal with |- context [chk_int ?z] => destruct (chk_int_shape z) as [-> | ->]; reflexivity end.
Qed.

(* true division of integers is a float: Int / Int -> Float *)
Definition floatish (v : value) : bool := match v with VFloat _ | VNull | VErr => true | _ => false end.
Theorem int_truediv_is_float_proof x y : floatish (v_truediv (VInt x) (VInt y)) = true.
Proof.
  unfold v_truediv. cbn [num2_of]. destruct (Z.eqb y 0); [reflexivity|].
  match goal with |- context [chk_float ?f] => destruct (chk_float_shape f) as [-> | ->]; reflexivity end.
Qed.

(* count and count-star are integers whatever they count *)
Theorem counts_are_int_proof vs n : intish (agg Op_count vs n) = true /\ intish (agg Op_count_star vs n) = true.
Proof. unfold agg. destruct (any_err vs); split; reflexivity. Qed.
