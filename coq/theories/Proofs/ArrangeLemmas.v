(* Proofs/ArrangeLemmas.v — C05: arrange is a stable sort by its keys with the ordering markers. *)
From Coq Require Import List String NArith ZArith Bool Lia Permutation.
From PDT Require Import Base.StableSort Model.Dtype Model.Value Model.Ops Model.Expr Model.RefSem
     Proofs.SortLemmas Proofs.RefLemmas.
Import ListNotations.
Open Scope list_scope.

(* null placement is decided by the marker alone, whatever `descending` says *)
Theorem null_placement_indep_of_desc_proof nl d1 d2 v :
  is_null v = false ->
  cmp_key d1 nl VNull v = cmp_key d2 nl VNull v /\ cmp_key d1 nl v VNull = cmp_key d2 nl v VNull
  /\ cmp_key d1 nl VNull v = (if nl then Gt else Lt).
Proof. intros H. unfold cmp_key. simpl. rewrite H. destruct nl; repeat split. Qed.

(* descending reverses the order of the non-null values *)
Theorem descending_reverses_proof nl a b :
  is_null a = false -> is_null b = false ->
  cmp_key true nl a b = cmp_key false nl b a.
Proof. intros Ha Hb. unfold cmp_key. rewrite Ha, Hb. reflexivity. Qed.

Section Arrange.
Variable s : rstate.
Variable os : list (expr * omark).
Let ms := map snd os.
Let ctx := index_rows (rows s).
Let keyed := map (fun ir => (map (fun o => eval ctx ir (fst o)) os, ir)) ctx.

Lemma do_arrange_rows : rows (do_arrange s os) = map (fun k => snd (snd k)) (ssort (le_keyed ms) keyed).
Proof. reflexivity. Qed.

Hypothesis le_total : forall x y, le_keyed ms x y = true \/ le_keyed ms y x = true.
Hypothesis le_trans : forall x y z, le_keyed ms x y = true -> le_keyed ms y z = true -> le_keyed ms x z = true.

(* the result is sorted by the keys (priority = position in the key list) ... *)
Theorem arrange_sorted_proof : sorted (le_keyed ms) (ssort (le_keyed ms) keyed).
Proof. apply ssort_sorted; assumption. Qed.

(* ... rows that the keys do not distinguish keep their previous relative order (this is what makes
   "a later arrange takes priority and the earlier order breaks ties" true) ... *)
Theorem arrange_stable_proof k :
  cls (le_keyed ms) k (ssort (le_keyed ms) keyed) = cls (le_keyed ms) k keyed.
Proof. apply ssort_stable; assumption. Qed.

(* ... and a filter applied afterwards keeps the order: filtering commutes with the sort *)
Theorem filter_after_arrange_keeps_order_proof (p : Expr.keyed -> bool) :
  filter p (ssort (le_keyed ms) keyed) = ssort (le_keyed ms) (filter p keyed).
Proof. apply filter_ssort; assumption. Qed.
End Arrange.

(* the order relation is total for every key specification *)
Lemma cmp_value_antisym_gt a b : cmp_value a b = Gt -> cmp_value b a <> Gt.
Proof.
  destruct a, b; simpl; try discriminate.
  - intros H H2. apply Z.compare_gt_iff in H. apply Z.compare_gt_iff in H2. lia.
  - destruct b, b0; simpl; congruence.
  - intros H H2. rewrite String.compare_antisym in H. rewrite H2 in H. discriminate.
  - unfold fltb. destruct (PrimFloat.ltb f f0) eqn:E1; [discriminate|].
    destruct (PrimFloat.ltb f0 f) eqn:E2; [|discriminate]. intros _. discriminate.
  - intros H H2. apply Z.compare_gt_iff in H. apply Z.compare_gt_iff in H2. lia.
  - intros H H2. apply Z.compare_gt_iff in H. apply Z.compare_gt_iff in H2. lia.
Qed.
