(* Proofs/TypeFamLemmas.v — C12: for ALL argument values, the result of a modelled element-wise operator lies
   in the family that Model/TypeFam.ret_fam computes from the families of the arguments. *)
From Coq Require Import List String NArith ZArith Bool Lia.
From PDT Require Import Model.Dtype Model.Value Model.Ops Model.TypeFam.
From PDTGen Require Import Catalogue.
Import ListNotations.

Definition vs_in (vs : list value) (fs : list fam) : Prop := Forall2 (fun v f => in_fam v f = true) vs fs.

Lemma chk_int_fam z : in_fam (chk_int z) FInt = true.
Proof. unfold chk_int. destruct (in_i64 z); reflexivity. Qed.
Lemma chk_float_fam x : in_fam (chk_float x) FFloat = true.
Proof. unfold chk_float. destruct (f_is_finite x); reflexivity. Qed.

Ltac fam_crush :=
  repeat match goal with
         | |- in_fam (chk_int _) FInt = true => apply chk_int_fam
         | |- in_fam (chk_float _) FFloat = true => apply chk_float_fam
         | |- context [if ?c then _ else _] => destruct c
         | _ => reflexivity
         end.

Lemma v_add_fam a b fa fb f : in_fam a fa = true -> in_fam b fb = true ->
  crf CAdd [fa; fb] = Some f -> in_fam (v_add a b) f = true.
Proof.
  intros Ha Hb H. destruct a, b, fa, fb; simpl in *; try discriminate; inversion H; subst; cbv [v_add v_sub v_mul v_truediv v_floordiv v_mod v_neg v_abs num2_of]; fam_crush.
Qed.
Lemma v_sub_fam a b fa fb f : in_fam a fa = true -> in_fam b fb = true ->
  crf CSub [fa; fb] = Some f -> in_fam (v_sub a b) f = true.
Proof.
  intros Ha Hb H. destruct a, b, fa, fb; simpl in *; try discriminate; inversion H; subst; cbv [v_add v_sub v_mul v_truediv v_floordiv v_mod v_neg v_abs num2_of]; fam_crush.
Qed.
Lemma v_mul_fam a b fa fb f : in_fam a fa = true -> in_fam b fb = true ->
  crf CMul [fa; fb] = Some f -> in_fam (v_mul a b) f = true.
Proof.
  intros Ha Hb H. destruct a, b, fa, fb; simpl in *; try discriminate; inversion H; subst; cbv [v_add v_sub v_mul v_truediv v_floordiv v_mod v_neg v_abs num2_of]; fam_crush.
Qed.
Lemma v_truediv_fam a b fa fb f : in_fam a fa = true -> in_fam b fb = true ->
  crf CTruediv [fa; fb] = Some f -> in_fam (v_truediv a b) f = true.
Proof.
  intros Ha Hb H. destruct a, b, fa, fb; simpl in *; try discriminate; inversion H; subst; cbv [v_add v_sub v_mul v_truediv v_floordiv v_mod v_neg v_abs num2_of]; fam_crush.
Qed.
Lemma v_floordiv_fam a b : in_fam a FInt = true -> in_fam b FInt = true -> in_fam (v_floordiv a b) FInt = true.
Proof. intros Ha Hb. destruct a, b; simpl in *; try discriminate; cbv [v_add v_sub v_mul v_truediv v_floordiv v_mod v_neg v_abs num2_of]; fam_crush. Qed.
Lemma v_mod_fam a b : in_fam a FInt = true -> in_fam b FInt = true -> in_fam (v_mod a b) FInt = true.
Proof. intros Ha Hb. destruct a, b; simpl in *; try discriminate; cbv [v_add v_sub v_mul v_truediv v_floordiv v_mod v_neg v_abs num2_of]; fam_crush. Qed.
Lemma v_neg_fam a fa : in_fam a fa = true -> is_num fa = true -> in_fam (v_neg a) fa = true.
Proof. intros Ha Hn. destruct a, fa; simpl in *; try discriminate; cbv [v_add v_sub v_mul v_truediv v_floordiv v_mod v_neg v_abs num2_of]; fam_crush. Qed.
Lemma v_abs_fam a fa : in_fam a fa = true -> is_num fa = true -> in_fam (v_abs a) fa = true.
Proof. intros Ha Hn. destruct a, fa; simpl in *; try discriminate; cbv [v_add v_sub v_mul v_truediv v_floordiv v_mod v_neg v_abs num2_of]; fam_crush. Qed.

Lemma cmp_op_bool g a b : in_fam (cmp_op g a b) FBool = true.
Proof. unfold cmp_op. destruct a, b; try reflexivity; simpl; destruct (promote _ _); reflexivity. Qed.
Lemma k_and_bool a b : in_fam (k_and a b) FBool = true.
Proof. destruct a as [| |[]| | | | |], b as [| |[]| | | | |]; reflexivity. Qed.
Lemma k_or_bool a b : in_fam (k_or a b) FBool = true.
Proof. destruct a as [| |[]| | | | |], b as [| |[]| | | | |]; reflexivity. Qed.
Lemma k_xor_bool a b : in_fam (k_xor a b) FBool = true.
Proof. destruct a, b; reflexivity. Qed.
Lemma k_not_bool a : in_fam (k_not a) FBool = true.
Proof. destruct a; reflexivity. Qed.

Lemma all_same_spec fs f : all_same fs = Some f -> forall g, In g fs -> g = f.
Proof.
  unfold all_same. destruct fs as [|f0 rest]; [discriminate|]. destruct (forallb (fam_eqb f0) rest) eqn:E; [|discriminate].
  intros H g Hg. inversion H; subst. destruct Hg as [<-|Hg]; [reflexivity|].
  rewrite forallb_forall in E. specialize (E g Hg). destruct f, g; simpl in E; try discriminate; reflexivity.
Qed.

Lemma vs_in_all vs fs f : vs_in vs fs -> (forall g, In g fs -> g = f) -> Forall (fun v => in_fam v f = true) vs.
Proof.
  intros H Hs. induction H as [|v g vs fs Hv _ IH]; constructor.
  - rewrite <- (Hs g (or_introl eq_refl)). exact Hv.
  - apply IH. intros g' Hg'. apply Hs. right. exact Hg'.
Qed.

(* the value of two non-null values of one family picked by the order is one of them *)
Lemma pick_fam (pick : value -> value -> value) a b f :
  (forall x y, pick x y = x \/ pick x y = y) -> in_fam a f = true -> in_fam b f = true -> in_fam (pick a b) f = true.
Proof. intros H Ha Hb. destruct (H a b) as [E|E]; rewrite E; assumption. Qed.

Lemma v_min2_same a b f : in_fam a f = true -> in_fam b f = true -> in_fam (v_min2 a b) f = true.
Proof.
  intros Ha Hb. unfold v_min2. destruct a, b, f; simpl in *; try discriminate; try reflexivity;
    repeat match goal with |- context [match ?c with _ => _ end] => destruct c end; reflexivity.
Qed.
Lemma v_max2_same a b f : in_fam a f = true -> in_fam b f = true -> in_fam (v_max2 a b) f = true.
Proof.
  intros Ha Hb. unfold v_max2. destruct a, b, f; simpl in *; try discriminate; try reflexivity;
    repeat match goal with |- context [match ?c with _ => _ end] => destruct c end; reflexivity.
Qed.

Lemma skipnull_fold_fam (g : value -> value -> value) f :
  (forall a b, in_fam a f = true -> in_fam b f = true -> in_fam (g a b) f = true) ->
  forall vs acc, Forall (fun v => in_fam v f = true) vs -> in_fam acc f = true ->
  in_fam (fold_left (fun acc v => match acc, v with
                                  | VErr, _ | _, VErr => VErr
                                  | VNull, _ => v
                                  | _, VNull => acc
                                  | _, _ => g acc v
                                  end) vs acc) f = true.
Proof.
  intros Hg. induction vs as [|v vs IH]; intros acc Hv Ha; [exact Ha|].
  inversion Hv as [|? ? Hv0 Hvs]; subst. simpl. apply IH; [exact Hvs|].
  destruct acc, v; try reflexivity; try assumption; apply Hg; assumption.
Qed.

Lemma fold_left_fam (g : value -> value -> value) f :
  (forall a b, in_fam a f = true -> in_fam b f = true -> in_fam (g a b) f = true) ->
  forall vs acc, Forall (fun v => in_fam v f = true) vs -> in_fam acc f = true -> in_fam (fold_left g vs acc) f = true.
Proof.
  intros Hg. induction vs as [|v vs IH]; intros acc Hv Ha; [exact Ha|].
  inversion Hv; subst. simpl. apply IH; [assumption|]. apply Hg; assumption.
Qed.
Lemma fold1_fam (g : value -> value -> value) f vs :
  (forall a b, in_fam a f = true -> in_fam b f = true -> in_fam (g a b) f = true) ->
  Forall (fun v => in_fam v f = true) vs -> in_fam (fold1 g vs) f = true.
Proof.
  intros Hg Hv. unfold fold1. destruct vs as [|v vs]; [reflexivity|]. inversion Hv; subst. apply fold_left_fam; assumption.
Qed.

Lemma add_same f : (f = FInt \/ f = FFloat \/ f = FStr) ->
  forall a b, in_fam a f = true -> in_fam b f = true -> in_fam (v_add a b) f = true.
Proof.
  intros Hf a b Ha Hb. destruct Hf as [->|[->| ->]].
  - apply (v_add_fam a b FInt FInt FInt Ha Hb). reflexivity.
  - apply (v_add_fam a b FFloat FFloat FFloat Ha Hb). reflexivity.
  - apply (v_add_fam a b FStr FStr FStr Ha Hb). reflexivity.
Qed.

Lemma str1_fam (g : string -> value) a f : (forall s, in_fam (g s) f = true) -> in_fam (str1 g a) f = true.
Proof. intros H. destruct a; simpl; try reflexivity. apply H. Qed.
Lemma str_lit_fam (g : string -> string -> value) a p f : (forall s q, in_fam (g s q) f = true) -> in_fam (str_lit g a p) f = true.
Proof. intros H. destruct a, p; simpl; try reflexivity. apply H. Qed.


(* ewise is the class body (robust against the order of the generated operator enumeration) *)
Lemma ewise_classify o c vs : classify o = Some c -> ewise o vs = if any_err vs then VErr else cbody c vs.
Proof.
  intros H. destruct o; simpl in H; try discriminate; inversion H; subst; unfold ewise; cbn [cbody];
    destruct (any_err vs); reflexivity.
Qed.

Ltac inv_vs :=
  repeat match goal with
         | H : vs_in _ [] |- _ => inversion H; subst; clear H
         | H : vs_in _ (_ :: _) |- _ => inversion H; subst; clear H
         | H : Forall2 _ _ [] |- _ => inversion H; subst; clear H
         | H : Forall2 _ _ (_ :: _) |- _ => inversion H; subst; clear H
         end.

Lemma all_same_forall vs fs f : all_same fs = Some f -> vs_in vs fs -> Forall (fun v => in_fam v f = true) vs.
Proof. intros H Hv. apply (vs_in_all vs fs f Hv). apply all_same_spec. exact H. Qed.

Lemma skipnull_fam (g : value -> value -> value) f vs :
  (forall a b, in_fam a f = true -> in_fam b f = true -> in_fam (g a b) f = true) ->
  Forall (fun v => in_fam v f = true) vs -> in_fam (skipnull_fold g vs) f = true.
Proof. intros Hg Hv. unfold skipnull_fold. apply skipnull_fold_fam; [exact Hg|exact Hv|reflexivity]. Qed.

Theorem cbody_fam : forall c vs fs f, crf c fs = Some f -> vs_in vs fs -> in_fam (cbody c vs) f = true.
Proof.
  intros c vs fs f Hr Hv. destruct c; cbn [cbody].
  - (* add *) destruct fs as [|fa [|fb [|? ?]]]; try discriminate. inv_vs. cbn [bin]. eapply v_add_fam; eassumption.
  - destruct fs as [|fa [|fb [|? ?]]]; try discriminate. inv_vs. cbn [bin]. eapply v_sub_fam; eassumption.
  - destruct fs as [|fa [|fb [|? ?]]]; try discriminate. inv_vs. cbn [bin]. eapply v_mul_fam; eassumption.
  - destruct fs as [|fa [|fb [|? ?]]]; try discriminate. inv_vs. cbn [bin]. eapply v_truediv_fam; eassumption.
  - destruct fs as [|[] [|[] [|? ?]]]; try discriminate. inversion Hr; subst. inv_vs. cbn [bin]. apply v_floordiv_fam; assumption.
  - destruct fs as [|[] [|[] [|? ?]]]; try discriminate. inversion Hr; subst. inv_vs. cbn [bin]. apply v_mod_fam; assumption.
  - destruct fs as [|fa [|? ?]]; try discriminate. simpl in Hr. destruct (is_num fa) eqn:N; [|discriminate]. inversion Hr; subst.
    inv_vs. cbn [un]. apply v_neg_fam; assumption.
  - destruct fs as [|fa [|? ?]]; try discriminate. inversion Hr; subst. inv_vs. cbn [un]. assumption.
  - destruct fs as [|fa [|? ?]]; try discriminate. simpl in Hr. destruct (is_num fa) eqn:N; [|discriminate]. inversion Hr; subst.
    inv_vs. cbn [un]. apply v_abs_fam; assumption.
  - destruct fs as [|fa [|fb [|? ?]]]; try discriminate. inversion Hr; subst. inv_vs. cbn [bin]. apply cmp_op_bool.
  - destruct fs as [|fa [|fb [|? ?]]]; try discriminate. inversion Hr; subst. inv_vs. cbn [bin]. apply cmp_op_bool.
  - destruct fs as [|fa [|fb [|? ?]]]; try discriminate. inversion Hr; subst. inv_vs. cbn [bin]. apply cmp_op_bool.
  - destruct fs as [|fa [|fb [|? ?]]]; try discriminate. inversion Hr; subst. inv_vs. cbn [bin]. apply cmp_op_bool.
  - destruct fs as [|fa [|fb [|? ?]]]; try discriminate. inversion Hr; subst. inv_vs. cbn [bin]. apply cmp_op_bool.
  - destruct fs as [|fa [|fb [|? ?]]]; try discriminate. inversion Hr; subst. inv_vs. cbn [bin]. apply cmp_op_bool.
  - destruct fs as [|fa [|fb [|? ?]]]; try discriminate. inversion Hr; subst. inv_vs. cbn [bin]. apply k_and_bool.
  - destruct fs as [|fa [|fb [|? ?]]]; try discriminate. inversion Hr; subst. inv_vs. cbn [bin]. apply k_or_bool.
  - destruct fs as [|fa [|fb [|? ?]]]; try discriminate. inversion Hr; subst. inv_vs. cbn [bin]. apply k_xor_bool.
  - destruct fs as [|fa [|? ?]]; try discriminate. inversion Hr; subst. inv_vs. cbn [un]. apply k_not_bool.
  - destruct fs as [|fa [|? ?]]; try discriminate. inversion Hr; subst. inv_vs. cbn [un].
    match goal with |- in_fam (match ?x with _ => _ end) _ = true => destruct x; reflexivity end.
  - destruct fs as [|fa [|? ?]]; try discriminate. inversion Hr; subst. inv_vs. cbn [un].
    match goal with |- in_fam (match ?x with _ => _ end) _ = true => destruct x; reflexivity end.
  - (* fill_null *) destruct fs as [|fa [|fb [|? ?]]]; try discriminate. simpl in Hr.
    destruct (fam_eqb fa fb) eqn:E; [|discriminate]. inversion Hr; subst. inv_vs. cbn [bin].
    assert (fb = f) by (destruct f, fb; simpl in E; try discriminate; reflexivity). subst fb.
    match goal with |- in_fam (match ?x with _ => _ end) _ = true => destruct x; assumption end.
  - (* is_in *) destruct fs as [|fa fs']; [discriminate|]. inversion Hr; subst. inversion Hv; subst.
    match goal with |- in_fam (fold_left _ ?rest ?acc0) _ = true =>
      assert (G : forall LL acc, in_fam acc FBool = true -> in_fam (fold_left (fun acc v => k_or acc (v_eq x v)) LL acc) FBool = true)
    end.
    { intros LL. induction LL as [|v LL IH]; intros acc Ha; [exact Ha|]. simpl. apply IH. apply k_or_bool. }
    apply G. reflexivity.
  - (* coalesce *) destruct (any_err vs); [reflexivity|].
    pose proof (all_same_forall vs fs f Hr Hv) as Hall.
    assert (G : forall LL acc, Forall (fun v => in_fam v f = true) LL -> in_fam acc f = true ->
                in_fam (fold_left (fun acc v => match acc with VNull => v | _ => acc end) LL acc) f = true).
    { intros LL. induction LL as [|v LL IH]; intros acc Hl Ha; [exact Ha|]. inversion Hl; subst. simpl. apply IH; [assumption|].
      destruct acc; assumption. }
    apply G; [exact Hall|reflexivity].
  - (* horizontal_max *) apply skipnull_fam; [intros a b; apply v_max2_same|apply (all_same_forall vs fs f Hr Hv)].
  - apply skipnull_fam; [intros a b; apply v_min2_same|apply (all_same_forall vs fs f Hr Hv)].
  - (* horizontal_sum *) simpl in Hr.
    destruct (all_same fs) as [g|] eqn:E; [|discriminate]. pose proof (all_same_forall vs fs g E Hv) as Hall.
    destruct g; try discriminate; inversion Hr; subst; apply fold1_fam; try exact Hall; apply add_same; auto.
  - simpl in Hr. destruct (all_same fs) as [g|] eqn:E; [|discriminate]. destruct g; try discriminate. inversion Hr; subst.
    apply fold1_fam; [intros; apply k_or_bool|apply (all_same_forall vs fs FBool E Hv)].
  - simpl in Hr. destruct (all_same fs) as [g|] eqn:E; [|discriminate]. destruct g; try discriminate. inversion Hr; subst.
    apply fold1_fam; [intros; apply k_and_bool|apply (all_same_forall vs fs FBool E Hv)].
  - (* clip *) destruct fs as [|fa [|fb [|fc [|? ?]]]]; try discriminate.
    pose proof (all_same_forall vs _ f Hr Hv) as Hall. inv_vs.
    destruct (any_err _); [reflexivity|].
    inversion Hall as [|? ? Hx Hall1]; subst. inversion Hall1 as [|? ? Hlo Hall2]; subst. inversion Hall2 as [|? ? Hhi _]; subst.
    match goal with |- in_fam (match ?x with _ => _ end) _ = true => destruct x eqn:Ex; try reflexivity end;
      (apply skipnull_fam; [intros a0 b0; apply v_max2_same|]; constructor; [|constructor; [assumption|constructor]];
       apply skipnull_fam; [intros a0 b0; apply v_min2_same|]; constructor; [rewrite <- Ex in *; assumption || (subst; assumption)|constructor; [assumption|constructor]]).
  - destruct fs as [|[] [|? ?]]; try discriminate. inversion Hr; subst. inv_vs. cbn [un].
    match goal with |- in_fam (match ?x with _ => _ end) _ = true => destruct x; reflexivity end.
  - destruct fs as [|[] [|? ?]]; try discriminate. inversion Hr; subst. inv_vs. cbn [un].
    match goal with |- in_fam (match ?x with _ => _ end) _ = true => destruct x; reflexivity end.
  - destruct fs as [|[] [|? ?]]; try discriminate. inversion Hr; subst. inv_vs. cbn [un]. apply str1_fam. reflexivity.
  - destruct fs as [|[] [|? ?]]; try discriminate. inversion Hr; subst. inv_vs. cbn [un]. apply str1_fam. reflexivity.
  - destruct fs as [|[] [|? ?]]; try discriminate. inversion Hr; subst. inv_vs. cbn [un]. apply str1_fam. reflexivity.
  - destruct fs as [|[] [|? ?]]; try discriminate. inversion Hr; subst. inv_vs. cbn [un]. apply str1_fam. reflexivity.
  - destruct fs as [|[] [|[] [|? ?]]]; try discriminate. inversion Hr; subst. inv_vs. cbn [bin]. apply str_lit_fam. reflexivity.
  - destruct fs as [|[] [|[] [|? ?]]]; try discriminate. inversion Hr; subst. inv_vs. cbn [bin]. apply str_lit_fam. reflexivity.
  - destruct fs as [|[] [|[] fs']]; try discriminate. inversion Hr; subst. inversion Hv; subst.
    match goal with H : Forall2 _ _ (_ :: _) |- _ => inversion H; subst end. apply str_lit_fam. reflexivity.
  - destruct fs as [|[] [|[] [|[] [|? ?]]]]; try discriminate. inversion Hr; subst. inv_vs.
    match goal with |- in_fam (match ?p with _ => _ end) _ = true => destruct p; try reflexivity end.
    match goal with |- in_fam (match ?p with _ => _ end) _ = true => destruct p; try reflexivity end.
    match goal with |- in_fam (match ?p with _ => _ end) _ = true => destruct p; try reflexivity end.
    apply str1_fam. reflexivity.
  - destruct fs as [|fa [|? ?]]; try discriminate. inversion Hr; subst. inv_vs. cbn [un]. assumption.
Qed.

(* for the operators of the catalogue *)
Theorem ewise_fam : forall o vs fs f, ret_fam o fs = Some f -> vs_in vs fs -> in_fam (ewise o vs) f = true.
Proof.
  intros o vs fs f Hr Hv. unfold ret_fam in Hr. destruct (classify o) as [c|] eqn:C; [|discriminate].
  rewrite (ewise_classify o c vs C). destruct (any_err vs); [reflexivity|]. apply (cbody_fam c vs fs f Hr Hv).
Qed.
