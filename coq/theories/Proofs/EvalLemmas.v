(* Proofs/EvalLemmas.v — structural facts about Model/Expr.eval used by the compile-correctness proof:
   an induction principle for expressions, unfolding equations, locality of element-wise expressions
   and the substitution lemma (inlining of column definitions). *)
From Coq Require Import List String NArith ZArith Bool.
From PDT Require Import Base.StableSort Model.Dtype Model.Value Model.Ops Model.Expr Model.RefSem Model.SqlCompile.
From PDTGen Require Import Catalogue.
Import ListNotations.
Open Scope list_scope.

(* ---------- induction over expressions (nested lists) ---------- *)
Section ExprInd.
Variable P : expr -> Prop.
Hypothesis Hcol : forall u, P (ECol u).
Hypothesis Hlit : forall v, P (ELit v).
Hypothesis Hcast : forall e t, P e -> P (ECast e t).
Definition optP (d : option expr) : Prop := match d with Some x => P x | None => True end.
Hypothesis Hcase : forall cs d, Forall (fun ce => P (fst ce) /\ P (snd ce)) cs -> optP d -> P (ECase cs d).
Hypothesis Hfn : forall o args hp part arr, Forall P args -> Forall P part ->
                                            Forall (fun ka => P (fst ka)) arr -> P (EFn o args hp part arr).

Fixpoint expr_ind2 (e : expr) : P e :=
  match e with
  | ECol u => Hcol u
  | ELit v => Hlit v
  | ECast e' t => Hcast e' t (expr_ind2 e')
  | ECase cs d =>
      Hcase cs d
        ((fix go (l : list (expr * expr)) : Forall (fun ce => P (fst ce) /\ P (snd ce)) l :=
            match l with
            | [] => Forall_nil _
            | ce :: l' => Forall_cons ce (conj (expr_ind2 (fst ce)) (expr_ind2 (snd ce))) (go l')
            end) cs)
        (match d as d0 return optP d0 with
         | Some x => expr_ind2 x
         | None => I
         end)
  | EFn o args hp part arr =>
      Hfn o args hp part arr
        ((fix go (l : list expr) : Forall P l :=
            match l with [] => Forall_nil _ | a :: l' => Forall_cons a (expr_ind2 a) (go l') end) args)
        ((fix go (l : list expr) : Forall P l :=
            match l with [] => Forall_nil _ | a :: l' => Forall_cons a (expr_ind2 a) (go l') end) part)
        ((fix go (l : list (expr * omark)) : Forall (fun ka => P (fst ka)) l :=
            match l with [] => Forall_nil _ | ka :: l' => Forall_cons ka (expr_ind2 (fst ka)) (go l') end) arr)
  end.
End ExprInd.

(* ---------- unfolding equations ---------- *)
Definition case_go (ctx : list irow) (cur : irow) (dflt : option expr) :=
  fix go (cs : list (expr * expr)) : value :=
    match cs with
    | [] => match dflt with Some d => eval ctx cur d | None => VNull end
    | (c, v) :: cs' =>
        match eval ctx cur c with
        | VBool true => eval ctx cur v
        | VErr => VErr
        | _ => go cs'
        end
    end.

Lemma eval_case ctx cur cs d : eval ctx cur (ECase cs d) = case_go ctx cur d cs.
Proof. reflexivity. Qed.

Lemma evs_map ctx r (l : list expr) :
  (fix go (l : list expr) : list value := match l with [] => [] | a :: l' => eval ctx r a :: go l' end) l
  = map (eval ctx r) l.
Proof. induction l as [|a l IH]; [reflexivity|]. simpl. rewrite IH. reflexivity. Qed.

Lemma eval_elem_fn ctx cur o args hp part arr :
  op_kind o = KElem -> eval ctx cur (EFn o args hp part arr) = ewise o (map (eval ctx cur) args).
Proof. intros K. cbn [eval]. rewrite K. rewrite evs_map. reflexivity. Qed.

(* an aggregate without partition_by / arrange=: ranges over the whole context *)
Lemma ssort_all_le {A} (le : A -> A -> bool) (l : list A) : (forall x y, le x y = true) -> ssort le l = l.
Proof.
  intros H. induction l as [|x l IH]; [reflexivity|]. simpl. rewrite IH.
  destruct l as [|y l]; [reflexivity|]. simpl. rewrite H. reflexivity.
Qed.

Lemma eval_agg_fn ctx cur o args part :
  op_kind o = KAgg ->
  eval ctx cur (EFn o args false part []) =
  match args with
  | [] => agg o [] (List.length ctx)
  | a :: _ => agg o (map (fun r => eval ctx r a) ctx) (List.length ctx)
  end.
Proof.
  intros K. cbn [eval]. rewrite K. cbn [map].
  rewrite ssort_all_le by (intros x y; reflexivity).
  destruct args as [|a rest]; [reflexivity|]. rewrite map_map. reflexivity.
Qed.

(* ---------- rows up to what can be read from them ---------- *)
Definition row_eq (r r' : row) : Prop := forall u, get r u = get r' u.

(* element-wise expressions only look at the current row *)
Lemma elem_local : forall e, elem e = true ->
  forall ctx ctx' i i' r r', row_eq r r' -> eval ctx (i, r) e = eval ctx' (i', r') e.
Proof.
  apply (expr_ind2 (fun e => elem e = true -> forall ctx ctx' i i' r r', row_eq r r' ->
                              eval ctx (i, r) e = eval ctx' (i', r') e)).
  - intros u _ ctx ctx' i i' r r' H. simpl. apply H.
  - intros v _ ctx ctx' i i' r r' H. reflexivity.
  - intros e t IH E ctx ctx' i i' r r' H. simpl in *. rewrite (IH E ctx ctx' i i' r r' H). reflexivity.
  - intros cs d IHcs IHd E ctx ctx' i i' r r' H. rewrite !eval_case.
    simpl in E. apply andb_prop in E. destruct E as [Ecs Ed].
    induction cs as [|[c v] cs IH]; simpl.
    + destruct d as [x|]; [apply IHd; assumption|reflexivity].
    + inversion IHcs as [|? ? [Hc Hv] Hrest]; subst. simpl in Ecs.
      apply andb_prop in Ecs. destruct Ecs as [Ecv Ecs]. apply andb_prop in Ecv. destruct Ecv as [Ec Ev].
      simpl in Hc, Hv. rewrite (Hc Ec ctx ctx' i i' r r' H). rewrite (Hv Ev ctx ctx' i i' r r' H).
      rewrite (IH Hrest Ecs). reflexivity.
  - intros o args hp part arr IHa _ _ E ctx ctx' i i' r r' H. simpl in E.
    destruct (op_kind o) eqn:K; try discriminate E.
    rewrite !eval_elem_fn by exact K. f_equal.
    induction args as [|a args IH]; [reflexivity|]. simpl in *.
    apply andb_prop in E. destruct E as [Ea Eargs]. inversion IHa as [|? ? Ha Hrest]; subst.
    rewrite (Ha Ea ctx ctx' i i' r r' H). rewrite (IH Hrest Eargs). reflexivity.
Qed.

(* ---------- substitution = inlining of definitions ---------- *)
(* the row r holds, under every uid that e mentions, the value of that uid's definition evaluated
   for the unit *)
Definition agrees_on (sc : list uid) (ds : sdefs) (u : unit_) (r : row) : Prop :=
  forall x, In x sc -> get r x = evd ds u x.

Lemma agrees_on_incl sc sc' ds u r : (forall x, In x sc' -> In x sc) -> agrees_on sc ds u r -> agrees_on sc' ds u r.
Proof. intros H A x Hx. apply A. apply H. exact Hx. Qed.

Lemma subst_elem : forall e, elem e = true ->
  forall ds (u : unit_) ctx i r, agrees_on (cols e) ds u r -> eval ctx (i, r) e = ev ds u e.
Proof.
  apply (expr_ind2 (fun e => elem e = true -> forall ds (u : unit_) ctx i r, agrees_on (cols e) ds u r ->
                              eval ctx (i, r) e = ev ds u e)).
  - intros x _ ds u ctx i r H. unfold ev. simpl. apply H. left. reflexivity.
  - intros v _ ds u ctx i r H. reflexivity.
  - intros e t IH E ds u ctx i r H. unfold ev in *. simpl in *. rewrite (IH E ds u ctx i r H). reflexivity.
  - intros cs d IHcs IHd E ds u ctx i r H. unfold ev in *. cbn [subst]. rewrite !eval_case.
    simpl in E. apply andb_prop in E. destruct E as [Ecs Ed]. cbn [cols] in H.
    induction cs as [|[c v] cs IH]; simpl.
    + destruct d as [x|]; [apply IHd; [assumption|]|reflexivity]. simpl in H. exact H.
    + inversion IHcs as [|? ? [Hc Hv] Hrest]; subst. simpl in Ecs.
      apply andb_prop in Ecs. destruct Ecs as [Ecv Ecs]. apply andb_prop in Ecv. destruct Ecv as [Ec Ev].
      simpl in Hc, Hv.
      rewrite (Hc Ec ds u ctx i r) by (eapply agrees_on_incl; [|exact H]; intros x Hx; simpl; rewrite <- !app_assoc; apply in_or_app; left; exact Hx).
      rewrite (Hv Ev ds u ctx i r) by (eapply agrees_on_incl; [|exact H]; intros x Hx; simpl; rewrite <- !app_assoc; apply in_or_app; right; apply in_or_app; left; exact Hx).
      rewrite (IH Hrest Ecs); [reflexivity|].
      eapply agrees_on_incl; [|exact H]. intros x Hx. simpl. rewrite <- !app_assoc.
      apply in_or_app. right. apply in_or_app. right. exact Hx.
  - intros o args hp part arr IHa _ _ E ds u ctx i r H. simpl in E. unfold ev. cbn [subst].
    destruct (op_kind o) eqn:K; try discriminate E.
    rewrite !eval_elem_fn by exact K. f_equal. rewrite map_map. cbn [cols] in H.
    assert (H' : agrees_on (flat_map cols args) ds u r).
    { eapply agrees_on_incl; [|exact H]. intros x Hx. apply in_or_app. left. exact Hx. }
    clear H. induction args as [|a args IH]; [reflexivity|]. simpl in *.
    apply andb_prop in E. destruct E as [Ea Eargs]. inversion IHa as [|? ? Ha Hrest]; subst.
    rewrite (Ha Ea ds u ctx i r) by (eapply agrees_on_incl; [|exact H']; intros x Hx; apply in_or_app; left; exact Hx).
    unfold ev. rewrite (IH Hrest Eargs); [reflexivity|].
    eapply agrees_on_incl; [|exact H']. intros x Hx. apply in_or_app. right. exact Hx.
Qed.

(* ---------- group level: aggregates of element-wise arguments ---------- *)
Definition ds_elem (ds : sdefs) : Prop := forall x, elem (def_of ds x) = true.

Lemma evd_ctx_irrelevant ds ctx ctx' (cur : irow) x : ds_elem ds -> evd ds (ctx, cur) x = evd ds (ctx', cur) x.
Proof.
  intros D. unfold evd. simpl. destruct cur as [i r].
  apply elem_local; [apply D|]. intros u. reflexivity.
Qed.

Lemma agrees_on_ctx sc ds ctx ctx' cur r : ds_elem ds -> agrees_on sc ds (ctx, cur) r -> agrees_on sc ds (ctx', cur) r.
Proof. intros D A x Hx. rewrite (A x Hx). apply evd_ctx_irrelevant. exact D. Qed.

Lemma Forall2_length' {A B} (R : A -> B -> Prop) l l' : Forall2 R l l' -> List.length l = List.length l'.
Proof. induction 1; simpl; congruence. Qed.

Lemma Forall2_map_eq {A B C} (R : A -> B -> Prop) (f : A -> C) (g : B -> C) l l' :
  Forall2 R l l' -> (forall a b, R a b -> f a = g b) -> map f l = map g l'.
Proof. induction 1 as [|a b l l' Hab _ IH]; intros H; simpl; [reflexivity|]. rewrite (H a b Hab), (IH H). reflexivity. Qed.

Lemma Forall2_impl' {A B} (R R' : A -> B -> Prop) l l' :
  (forall a b, R a b -> R' a b) -> Forall2 R l l' -> Forall2 R' l l'.
Proof. intros H. induction 1; constructor; auto. Qed.

Lemma cols_case_c c v cs d x : In x (cols c) -> In x (cols (ECase ((c, v) :: cs) d)).
Proof. intros H. simpl. rewrite <- !app_assoc. apply in_or_app. left. exact H. Qed.
Lemma cols_case_v c v cs d x : In x (cols v) -> In x (cols (ECase ((c, v) :: cs) d)).
Proof. intros H. simpl. rewrite <- !app_assoc. apply in_or_app. right. apply in_or_app. left. exact H. Qed.
Lemma cols_case_rest c v cs d x : In x (cols (ECase cs d)) -> In x (cols (ECase ((c, v) :: cs) d)).
Proof. intros H. simpl in *. rewrite <- !app_assoc. apply in_or_app. right. apply in_or_app. right. exact H. Qed.
Lemma cols_fn_args o args hp part arr x : In x (flat_map cols args) -> In x (cols (EFn o args hp part arr)).
Proof. intros H. simpl. apply in_or_app. left. exact H. Qed.

Lemma gcols_case_c c v cs d x : In x (gcols c) -> In x (gcols (ECase ((c, v) :: cs) d)).
Proof. intros H. simpl. rewrite <- !app_assoc. apply in_or_app. left. exact H. Qed.
Lemma gcols_case_v c v cs d x : In x (gcols v) -> In x (gcols (ECase ((c, v) :: cs) d)).
Proof. intros H. simpl. rewrite <- !app_assoc. apply in_or_app. right. apply in_or_app. left. exact H. Qed.
Lemma gcols_case_rest c v cs d x : In x (gcols (ECase cs d)) -> In x (gcols (ECase ((c, v) :: cs) d)).
Proof. intros H. simpl in *. rewrite <- !app_assoc. apply in_or_app. right. apply in_or_app. right. exact H. Qed.

(* ctxR / curR: the group of reference rows and its representative; ctxB / curB: the same group of FROM
   rows.  Row by row the reference rows hold the values of the definitions (F); the representative
   does so for the columns read at group level (A). *)
Lemma subst_agg1 : forall e, agg1 e = true ->
  forall ds (ctxR ctxB : list irow) (curR curB : irow), ds_elem ds ->
  Forall2 (fun rr br => agrees_on (cols e) ds ([], br) (snd rr)) ctxR ctxB ->
  (forall x, In x (gcols e) -> get (snd curR) x = evd ds ([], curB) x) ->
  eval ctxR curR e = eval ctxB curB (subst ds e).
Proof.
  apply (expr_ind2 (fun e => agg1 e = true ->
    forall ds (ctxR ctxB : list irow) (curR curB : irow), ds_elem ds ->
    Forall2 (fun rr br => agrees_on (cols e) ds ([], br) (snd rr)) ctxR ctxB ->
    (forall x, In x (gcols e) -> get (snd curR) x = evd ds ([], curB) x) ->
    eval ctxR curR e = eval ctxB curB (subst ds e))).
  - intros x _ ds ctxR ctxB curR curB D F A. simpl. rewrite (A x (or_introl eq_refl)).
    apply (evd_ctx_irrelevant ds [] ctxB curB x D).
  - reflexivity.
  - intros e t IH E ds ctxR ctxB curR curB D F A. simpl in *. rewrite (IH E ds ctxR ctxB curR curB D F A). reflexivity.
  - intros cs d IHcs IHd E ds ctxR ctxB curR curB D F A. cbn [subst]. rewrite !eval_case.
    simpl in E. apply andb_prop in E. destruct E as [Ecs Ed].
    induction cs as [|[c v] cs IH]; simpl.
    + destruct d as [x|]; [|reflexivity]. apply IHd; [assumption|assumption| |]; simpl in F, A; assumption.
    + inversion IHcs as [|? ? [Hc Hv] Hrest]; subst. simpl in Ecs.
      apply andb_prop in Ecs. destruct Ecs as [Ecv Ecs]. apply andb_prop in Ecv. destruct Ecv as [Ec Ev].
      simpl in Hc, Hv.
      rewrite (Hc Ec ds ctxR ctxB curR curB D).
      * rewrite (Hv Ev ds ctxR ctxB curR curB D).
        -- rewrite (IH Hrest Ecs); [reflexivity| |].
           ++ eapply Forall2_impl'; [|exact F]. intros a b Hab. eapply agrees_on_incl; [|exact Hab].
              intros x Hx. apply cols_case_rest. exact Hx.
           ++ intros x Hx. apply A. apply gcols_case_rest. exact Hx.
        -- eapply Forall2_impl'; [|exact F]. intros a b Hab. eapply agrees_on_incl; [|exact Hab].
           intros x Hx. apply cols_case_v. exact Hx.
        -- intros x Hx. apply A. apply gcols_case_v. exact Hx.
      * eapply Forall2_impl'; [|exact F]. intros a b Hab. eapply agrees_on_incl; [|exact Hab].
        intros x Hx. apply cols_case_c. exact Hx.
      * intros x Hx. apply A. apply gcols_case_c. exact Hx.
  - intros o args hp part arr IHa _ _ E ds ctxR ctxB curR curB D F A. simpl in E. cbn [subst]. cbn [gcols] in A.
    destruct (op_kind o) eqn:K; try discriminate E.
    + (* element-wise over group-level arguments *)
      rewrite !eval_elem_fn by exact K. f_equal. rewrite map_map.
      assert (F' : Forall2 (fun rr br => agrees_on (flat_map cols args) ds ([], br) (snd rr)) ctxR ctxB).
      { eapply Forall2_impl'; [|exact F]. intros a b Hab. eapply agrees_on_incl; [|exact Hab].
        intros x Hx. apply cols_fn_args. exact Hx. }
      clear F. induction args as [|a args IH]; [reflexivity|]. simpl in *.
      apply andb_prop in E. destruct E as [Ea Eargs]. inversion IHa as [|? ? Ha Hrest]; subst.
      rewrite (Ha Ea ds ctxR ctxB curR curB D).
      * rewrite (IH Hrest Eargs); [reflexivity| |].
        -- intros z Hz. apply A. apply in_or_app. right. exact Hz.
        -- eapply Forall2_impl'; [|exact F']. intros x y Hxy. eapply agrees_on_incl; [|exact Hxy].
           intros z Hz. apply in_or_app. right. exact Hz.
      * eapply Forall2_impl'; [|exact F']. intros x y Hxy. eapply agrees_on_incl; [|exact Hxy].
        intros z Hz. apply in_or_app. left. exact Hz.
      * intros z Hz. apply A. apply in_or_app. left. exact Hz.
    + (* an aggregate of element-wise arguments over the group *)
      apply andb_prop in E. destruct E as [E Eargs]. apply andb_prop in E. destruct E as [Ehp Earr].
      destruct hp; [discriminate Ehp|]. destruct arr as [|ka arr]; [|discriminate Earr].
      cbn [map]. rewrite !eval_agg_fn by exact K.
      assert (L : List.length ctxR = List.length ctxB) by (apply (Forall2_length' _ _ _ F)). rewrite L.
      destruct args as [|a rest]; [reflexivity|]. cbn [map]. f_equal.
      apply (Forall2_map_eq _ _ _ _ _ F). intros [i r] br Hab. simpl in Eargs.
      apply andb_prop in Eargs. destruct Eargs as [Ea _].
      change (eval ctxB br (subst ds a)) with (ev ds (ctxB, br) a).
      apply subst_elem; [exact Ea|].
      apply (agrees_on_ctx _ ds [] ctxB br r D).
      eapply agrees_on_incl; [|exact Hab]. intros x Hx. apply cols_fn_args. simpl.
      apply in_or_app. left. exact Hx.
Qed.
