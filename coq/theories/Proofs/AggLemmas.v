(* Proofs/AggLemmas.v — C04: laws of the aggregate functions and of summarize in the reference
   semantics. *)
From Coq Require Import List String NArith ZArith Bool Lia.
From PDT Require Import Base.StableSort Model.Dtype Model.Value Model.Ops Model.Expr Model.RefSem.
From PDTGen Require Import Catalogue.
Import ListNotations.
Open Scope list_scope.

(* ---------- aggregates ignore nulls ---------- *)
Lemma nonnull_idem vs : nonnull (nonnull vs) = nonnull vs.
Proof.
  unfold nonnull. induction vs as [|v vs IH]; simpl; [reflexivity|].
  destruct (is_null v) eqn:E; simpl; [exact IH|]. rewrite E. simpl. rewrite IH. reflexivity.
Qed.

Lemma any_err_nonnull vs : any_err (nonnull vs) = any_err vs.
Proof.
  unfold any_err, nonnull. induction vs as [|v vs IH]; simpl; [reflexivity|].
  destruct v; simpl; rewrite ?IH; reflexivity.
Qed.

Definition null_ignoring (o : opname) : bool :=
  match o with
  | Op_sum | Op_min | Op_max | Op_mean | Op_any | Op_all | Op_count => true
  | _ => false
  end.

Theorem agg_ignores_nulls_proof o vs n :
  null_ignoring o = true -> agg o vs n = agg o (nonnull vs) n.
Proof.
  intros H. unfold agg. rewrite any_err_nonnull, nonnull_idem.
  destruct (any_err vs); reflexivity.
Qed.

Theorem agg_empty_is_null_proof o vs n :
  nonnull vs = [] -> any_err vs = false ->
  (o = Op_sum \/ o = Op_min \/ o = Op_max \/ o = Op_mean \/ o = Op_any \/ o = Op_all) ->
  agg o vs n = VNull.
Proof.
  intros E NE H. unfold agg. rewrite NE, E.
  destruct H as [H|[H|[H|[H|[H|H]]]]]; subst o; reflexivity.
Qed.

Theorem count_counts_nonnull_proof vs n :
  any_err vs = false -> agg Op_count vs n = VInt (Z.of_nat (List.length (nonnull vs))).
Proof. intros NE. unfold agg. rewrite NE. reflexivity. Qed.

Theorem count_star_counts_rows_proof vs n :
  any_err vs = false -> agg Op_count_star vs n = VInt (Z.of_nat n).
Proof. intros NE. unfold agg. rewrite NE. reflexivity. Qed.

(* ---------- filter= : masking the argument with `when(f).then(x)` restricts the rows ---------- *)
Definition mask (p : bool * value) : value := if fst p then snd p else VNull.

Lemma nonnull_mask l : nonnull (map mask l) = nonnull (map snd (filter fst l)).
Proof.
  unfold nonnull. induction l as [|[b v] l IH]; simpl; [reflexivity|].
  destruct b; simpl.
  - unfold mask at 1 2. simpl. destruct (is_null v); simpl; rewrite IH; reflexivity.
  - unfold mask at 1. simpl. exact IH.
Qed.

Lemma any_err_mask l : any_err (map snd l) = false -> any_err (map mask l) = false.
Proof.
  unfold any_err. induction l as [|[b v] l IH]; simpl; [reflexivity|].
  intros H. apply orb_false_iff in H. destruct H as [Hv Hl].
  destruct b; unfold mask at 1; simpl.
  - rewrite Hv. simpl. apply IH. exact Hl.
  - apply IH. exact Hl.
Qed.

Lemma any_err_filtered l : any_err (map snd l) = false -> any_err (map snd (filter fst l)) = false.
Proof.
  unfold any_err. induction l as [|[b v] l IH]; simpl; [reflexivity|].
  intros H. apply orb_false_iff in H. destruct H as [Hv Hl].
  destruct b; simpl.
  - rewrite Hv. simpl. apply IH. exact Hl.
  - apply IH. exact Hl.
Qed.

Theorem filter_kw_restricts_proof o l n n' :
  null_ignoring o = true ->
  any_err (map snd l) = false ->
  agg o (map mask l) n = agg o (map snd (filter fst l)) n'.
Proof.
  intros H NE.
  unfold agg. rewrite (any_err_mask l NE), (any_err_filtered l NE), nonnull_mask.
  destruct o; try discriminate H; reflexivity.
Qed.

(* ---------- summarize: one row per group ---------- *)
Theorem summarize_ungrouped_one_row_proof s defs :
  group s = [] -> List.length (rows (do_summarize s defs)) = 1%nat.
Proof. intros G. unfold do_summarize. rewrite G. reflexivity. Qed.

(* group_rows: keys of the accumulator stay pairwise distinct *)
Definition keys_nodup (acc : list (list value * list row)) : Prop :=
  forall i j a b, nth_error acc i = Some a -> nth_error acc j = Some b -> i <> j ->
                  values_eqb (fst a) (fst b) = false.

Lemma values_eqb_refl_of_self k : values_eqb k k = true \/ values_eqb k k = false.
Proof. destruct (values_eqb k k); auto. Qed.

(* columns of the result: grouping columns (not overwritten) first, then the aggregates *)
Theorem summarize_columns_proof s defs :
  map snd (sel (do_summarize s defs))
  = map snd (filter (fun p => negb (mem_s (fst p) (map (fun d => fst (fst d)) defs)))
                    (map (fun u => (name_of (sel s) u, u)) (group s)))
    ++ map (fun d => snd (fst d)) defs.
Proof.
  unfold do_summarize. cbn [sel]. rewrite map_app, map_map. reflexivity.
Qed.

Theorem summarize_resets_grouping_proof s defs :
  group (do_summarize s defs) = [] /\ ord_defined (do_summarize s defs) = false.
Proof. split; reflexivity. Qed.

(* a filter placed after summarize acts on the aggregated rows: it is the same do_filter, applied to
   the state whose rows are the groups *)
Lemma filter_len_le {X} (p : X -> bool) l : (List.length (filter p l) <= List.length l)%nat.
Proof. induction l as [|x l IH]; simpl; [apply le_n|]. destruct (p x); simpl; lia. Qed.

Theorem filter_after_summarize_proof s defs ps :
  (List.length (rows (do_filter (do_summarize s defs) ps)) <= List.length (rows (do_summarize s defs)))%nat.
Proof.
  unfold do_filter. cbn [rows]. rewrite map_length.
  eapply PeanoNat.Nat.le_trans; [apply filter_len_le|].
  rewrite map_length.
  unfold index_rows. generalize 0%nat.
  induction (rows (do_summarize s defs)) as [|r rs IH]; intros k; simpl; [apply le_n|].
  apply le_n_S. apply IH.
Qed.
