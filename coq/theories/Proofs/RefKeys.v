(* Proofs/RefKeys.v — the keys (column identities) of the rows of the reference semantics, its visible
   columns and its grouping columns are among the uids the pipeline mentions (Model/SqlCompile.ast_uids).
   Used where two operands are combined: rows of operands that share no uid do not shadow each other. *)
From Coq Require Import List String NArith ZArith Bool Lia.
From PDT Require Import Base.StableSort Model.Dtype Model.Value Model.Ops Model.Expr Model.RefSem Model.SqlCompile
     Proofs.SortLemmas Proofs.RefLemmas.
Import ListNotations.
Open Scope list_scope.

Definition keys_in (U : list uid) (rs : list row) : Prop := forall r x, In r rs -> In x (map fst r) -> In x U.

Lemma keys_in_incl U U' rs : (forall x, In x U -> In x U') -> keys_in U rs -> keys_in U' rs.
Proof. intros H K r x Hr Hx. apply H. apply (K r x Hr Hx). Qed.

Lemma keys_in_subset U rs rs' : (forall r, In r rs' -> In r rs) -> keys_in U rs -> keys_in U rs'.
Proof. intros H K r x Hr Hx. apply (K r x (H r Hr) Hx). Qed.

Lemma zip_row_keys us : forall vs x, In x (map fst (zip_row us vs)) -> In x us.
Proof.
  induction us as [|u us IH]; intros [|v vs] x H; simpl in H; try contradiction.
  destruct H as [H|H]; [left; exact H|right; apply (IH vs x H)].
Qed.

Lemma fold_upd_keys {D} (uid_of : D -> uid) (val : row -> D -> value) : forall (defs : list D) r0 x,
  In x (map fst (fold_left (fun r d => upd r (uid_of d) (val r d)) defs r0)) ->
  In x (map uid_of defs) \/ In x (map fst r0).
Proof.
  induction defs as [|d defs IH]; intros r0 x H; simpl in H; [right; exact H|].
  apply IH in H. destruct H as [H|H]; [left; right; exact H|].
  unfold upd in H. simpl in H. destruct H as [H|H]; [left; left; exact H|right; exact H].
Qed.

Lemma firstn_In_ {A} n : forall (l : list A) x, In x (firstn n l) -> In x l.
Proof. induction n as [|n IH]; intros [|y l] x H; simpl in H; try contradiction. destruct H as [H|H]; [left; exact H|right; apply IH; exact H]. Qed.
Lemma skipn_In_ {A} n : forall (l : list A) x, In x (skipn n l) -> In x l.
Proof. induction n as [|n IH]; intros [|y l] x H; simpl in H; try contradiction; try exact H. right. apply IH. exact H. Qed.

Record RK (U : list uid) (s : rstate) : Prop := {
  rk_rows : keys_in U (rows s);
  rk_sel : forall p, In p (sel s) -> In (snd p) U;
  rk_group : forall u, In u (group s) -> In u U
}.

Lemma In_app_l {A} (x : A) l l' : In x l -> In x (l ++ l'). Proof. intros; apply in_or_app; left; assumption. Qed.
Lemma In_app_r {A} (x : A) l l' : In x l' -> In x (l ++ l'). Proof. intros; apply in_or_app; right; assumption. Qed.

Lemma RK_incl U U' s : (forall x, In x U -> In x U') -> RK U s -> RK U' s.
Proof. intros H [A B C]. constructor; [eapply keys_in_incl; eauto|intros p Hp; apply H; apply B; exact Hp|intros u Hu; apply H; apply C; exact Hu]. Qed.

Theorem ref_keys d : forall a, RK (ast_uids a) (sem_ref d a).
Proof.
  induction a as [t cols|a IH us|a IH m|a IH defs|a IH ps|a IH os|a IH n k|a IH us add|a IH|a IH defs|a IH m|a IH|l IHl r IHr on how|l IHl r IHr dis];
    cbn [sem_ref ast_uids].
  - constructor; simpl.
    + intros r x Hr Hx. apply in_map_iff in Hr. destruct Hr as [vs [<- _]]. apply (zip_row_keys _ _ _ Hx).
    + intros p Hp. apply in_map. exact Hp.
    + intros u Hu. destruct Hu.
  - destruct IH as [A B C]. constructor; simpl.
    + eapply keys_in_incl; [|exact A]. intros; apply In_app_l; assumption.
    + intros p Hp. apply in_map_iff in Hp. destruct Hp as [u [<- Hu]]. apply In_app_r. exact Hu.
    + intros u Hu. apply In_app_l. apply C. exact Hu.
  - destruct IH as [A B C]. constructor; simpl; [exact A| |exact C].
    intros p Hp. apply in_map_iff in Hp. destruct Hp as [q [<- Hq]]. simpl. apply B. exact Hq.
  - (* mutate *) destruct IH as [A B C]. constructor.
    + intros r x Hr Hx. rewrite do_mutate_rows in Hr. apply in_map_iff in Hr. destruct Hr as [ir [<- Hir]].
      unfold apply_defs in Hx.
      apply (fold_upd_keys (fun dd : def => snd (fst dd)) (fun _ dd => eval (index_rows (rows (sem_ref d a))) ir (snd dd))) in Hx.
      destruct Hx as [Hx|Hx]; [apply In_app_r; exact Hx|apply In_app_l].
      apply (A (snd ir) x); [|exact Hx]. rewrite <- (map_snd_index_rows (rows (sem_ref d a))). apply in_map. exact Hir.
    + intros p Hp. cbn [sel do_mutate] in Hp. apply in_app_or in Hp. destruct Hp as [Hp|Hp].
      * apply filter_In in Hp. apply In_app_l. apply B. tauto.
      * apply in_map_iff in Hp. destruct Hp as [dd [<- Hdd]]. simpl. apply In_app_r. unfold def_uids. apply (in_map (fun d0 : def => snd (fst d0))). exact Hdd.
    + intros u Hu. apply In_app_l. apply C. exact Hu.
  - (* filter *) destruct IH as [A B C]. constructor; [|exact B|exact C].
    eapply keys_in_subset; [|exact A]. intros r Hr. rewrite filter_keeps_exactly_true in Hr.
    apply in_map_iff in Hr. destruct Hr as [ir [<- Hir]]. apply filter_In in Hir. destruct Hir as [Hir _].
    rewrite <- (map_snd_index_rows (rows (sem_ref d a))). apply in_map. exact Hir.
  - (* arrange *) destruct IH as [A B C]. constructor; [|exact B|exact C].
    eapply keys_in_subset; [|exact A]. intros r Hr.
    apply (Permutation.Permutation_in r (Permutation.Permutation_sym (arrange_is_permutation (sem_ref d a) os))). exact Hr.
  - (* slice *) destruct IH as [A B C]. constructor; [|exact B|exact C].
    eapply keys_in_subset; [|exact A]. intros r Hr. cbn [rows do_slice] in Hr.
    apply firstn_In_ in Hr. apply skipn_In_ in Hr. exact Hr.
  - (* group_by *) destruct IH as [A B C]. constructor; simpl.
    + eapply keys_in_incl; [|exact A]. intros; apply In_app_l; assumption.
    + intros p Hp. apply In_app_l. apply B. exact Hp.
    + intros u Hu. destruct add; [apply in_app_or in Hu; destruct Hu as [Hu|Hu]; [apply In_app_l; apply C; exact Hu|apply In_app_r; exact Hu]|apply In_app_r; exact Hu].
  - (* ungroup *) destruct IH as [A B C]. constructor; simpl; [exact A|exact B|intros u Hu; destruct Hu].
  - (* summarize *) destruct IH as [A B C]. constructor.
    + intros r x Hr Hx. cbn [rows do_summarize] in Hr. apply in_map_iff in Hr. destruct Hr as [kg [<- _]].
      apply (fold_upd_keys (fun dd : def => snd (fst dd))
               (fun _ dd => eval (index_rows (snd kg)) match index_rows (snd kg) with ir :: _ => ir | [] => (0%nat, []) end (snd dd))) in Hx.
      destruct Hx as [Hx|Hx]; [apply In_app_r; exact Hx|apply In_app_l]. apply zip_row_keys in Hx. apply C. exact Hx.
    + intros p Hp. cbn [sel do_summarize] in Hp. apply in_app_or in Hp. destruct Hp as [Hp|Hp].
      * apply filter_In in Hp. destruct Hp as [Hp _]. apply in_map_iff in Hp. destruct Hp as [u [<- Hu]]. simpl.
        apply In_app_l. apply C. exact Hu.
      * apply in_map_iff in Hp. destruct Hp as [dd [<- Hdd]]. simpl. apply In_app_r. unfold def_uids. apply (in_map (fun d0 : def => snd (fst d0))). exact Hdd.
    + intros u Hu. destruct Hu.
  - (* alias *) destruct IH as [A B C]. destruct m as [m|]; cbn [do_alias]; [|constructor; assumption].
    assert (Hre : forall u, In u (ast_uids a) -> In (remap_uid m u) (ast_uids a ++ map snd m)).
    { intros u Hu. unfold remap_uid. destruct (assoc_u u m) as [u'|] eqn:E; [|apply In_app_l; exact Hu].
      apply In_app_r. clear -E. induction m as [|[k v] m IH]; simpl in E; [discriminate|].
      destruct (N.eqb u k); [inversion E; subst; left; reflexivity|right; apply IH; exact E]. }
    constructor; simpl.
    + intros r x Hr Hx. apply in_map_iff in Hr. destruct Hr as [r0 [<- Hr0]]. rewrite map_map in Hx. simpl in Hx.
      apply in_map_iff in Hx. destruct Hx as [kv [<- Hkv]]. apply Hre. apply (A r0 (fst kv) Hr0). apply in_map. exact Hkv.
    + intros p Hp. apply in_map_iff in Hp. destruct Hp as [q [<- Hq]]. simpl. apply Hre. apply B. exact Hq.
    + intros u Hu. apply in_map_iff in Hu. destruct Hu as [v [<- Hv]]. apply Hre. apply C. exact Hv.
  - (* marker *) destruct IH as [A B C]. constructor; simpl; assumption.
  - (* join *) destruct IHl as [Al Bl Cl]. destruct IHr as [Ar Br Cr]. constructor.
    + intros r0 x Hr Hx. cbn [rows do_join] in Hr. apply in_app_or in Hr. destruct Hr as [Hr|Hr].
      * apply in_flat_map in Hr. destruct Hr as [lr [Hlr Hr]]. unfold join_branch in Hr.
        assert (Hm : In r0 (map (fun rr => lr ++ rr) (filter (on_true on lr) (rows (sem_ref d r)))) \/ r0 = lr).
        { destruct (filter (on_true on lr) (rows (sem_ref d r))) as [|m ms]; destruct how; simpl in Hr |- *;
            first [contradiction | right; destruct Hr as [Hr|[]]; symmetry; exact Hr | left; exact Hr]. }
        destruct Hm as [Hm | ->].
        -- apply in_map_iff in Hm. destruct Hm as [rr [<- Hrr]]. apply filter_In in Hrr. destruct Hrr as [Hrr _].
           rewrite map_app in Hx. apply in_app_or in Hx. destruct Hx as [Hx|Hx];
             [apply In_app_l; apply (Al lr x Hlr Hx)|apply In_app_r; apply (Ar rr x Hrr Hx)].
        -- apply In_app_l. apply (Al lr x Hlr Hx).
      * destruct how; try (destruct Hr). apply filter_In in Hr. destruct Hr as [Hr _]. apply In_app_r. apply (Ar r0 x Hr Hx).
    + intros p Hp. cbn [sel do_join] in Hp. apply in_app_or in Hp.
      destruct Hp as [Hp|Hp]; [apply In_app_l; apply Bl; exact Hp|apply In_app_r; apply Br; exact Hp].
    + intros u Hu. destruct Hu.
  - (* union *) destruct IHl as [Al Bl Cl]. destruct IHr as [Ar Br Cr]. constructor.
    + intros r0 x Hr Hx. cbn [rows do_union] in Hr.
      assert (Hall : In r0 (rows (sem_ref d l) ++ map (fun rr : row => map (fun p : string * uid => (snd p, match assoc_s (fst p) (sel (sem_ref d r)) with Some ur => get rr ur | None => VErr end)) (sel (sem_ref d l))) (rows (sem_ref d r)))).
      { destruct dis; [|exact Hr]. clear -Hr. revert Hr. generalize (@nil (list value)).
        match goal with |- forall l0, In _ (dedup_rows l0 ?v ?LL) -> _ => generalize LL end.
        intros L. induction L as [|y L IH]; intros seen H; simpl in H; [destruct H|].
        destruct (existsb _ seen); [right; apply (IH _ H)|]. destruct H as [H|H]; [left; exact H|right; apply (IH _ H)]. }
      apply in_app_or in Hall. destruct Hall as [Hall|Hall]; [apply In_app_l; apply (Al r0 x Hall Hx)|].
      apply in_map_iff in Hall. destruct Hall as [rr [<- _]]. rewrite map_map in Hx. simpl in Hx.
      apply in_map_iff in Hx. destruct Hx as [p [<- Hp]]. apply In_app_l. apply Bl. exact Hp.
    + intros p Hp. apply In_app_l. apply Bl. exact Hp.
    + intros u Hu. destruct Hu.
Qed.
