(* Proofs/Greatest.v — C03: SQLite's GREATEST / LEAST emulation (backend/sqlite.py _greatest,
   _least: divide and conquer with COALESCE around the NULL-propagating scalar MAX / MIN) is the
   null-skipping horizontal max / min FOR EVERY ARITY.  The recursive construction is written as a
   Gallina function; the trees that the real implementation builds for arities 2..6
   (generated/OpImpls.v) are shown to be exactly this function's output. *)
From Coq Require Import List String NArith ZArith Bool Lia Arith.
From PDT Require Import Model.Dtype Model.Value Model.Ops Model.ImplExpr Proofs.OpCorrect.
From PDTGen Require Import Catalogue OpImpls.
Import ListNotations.
Open Scope Z_scope.

Section DnC.
Variable fn : sqlfn.                       (* SfMax or SfMin *)
Variable zf : Z -> Z -> Z.                 (* Z.max or Z.min *)
Variable vf : value -> value -> value.     (* v_max2 or v_min2 *)
Hypothesis vf_int : forall a b, vf (VInt a) (VInt b) = VInt (zf a b).
Hypothesis fn_is : forall vs, sq_fn fn vs = strict_fold vf vs.
Hypothesis zf_assoc : forall a b c, zf a (zf b c) = zf (zf a b) c.

(* the Python recursion, with explicit fuel *)
Fixpoint dnc (fuel : nat) (xs : list sql_expr) : sql_expr :=
  match fuel with
  | O => SLit VErr
  | S f =>
      match xs with
      | [] => SLit VErr
      | [x] => x
      | _ =>
          let mid := Nat.div (List.length xs + 1) 2 in
          let l := dnc f (firstn mid xs) in
          let r := dnc f (skipn mid xs) in
          SFn SfCoalesce [SFn fn [l; r]; l; r]
      end
  end.

(* null-skipping combination of two values *)
Definition nsm (a b : value) : value :=
  match a, b with
  | VNull, v => v
  | v, VNull => v
  | VInt x, VInt y => VInt (zf x y)
  | _, _ => VErr
  end.

Lemma nsm_ion a b : ion a -> ion b -> ion (nsm a b).
Proof. intros [|x] [|y]; simpl; constructor. Qed.

Lemma node_ok a b : ion a -> ion b ->
  sq_fn SfCoalesce [sq_fn fn [a; b]; a; b] = nsm a b.
Proof.
  intros [|x] [|y]; rewrite fn_is; unfold strict_fold; cbn [existsb is_err is_null orb fold1 fold_left sq_fn];
    rewrite ?vf_int; reflexivity.
Qed.

Lemma nsm_assoc a b c : ion a -> ion b -> ion c -> nsm a (nsm b c) = nsm (nsm a b) c.
Proof. intros [|x] [|y] [|z]; simpl; try reflexivity. rewrite zf_assoc. reflexivity. Qed.

Lemma nsm_null_l a : nsm VNull a = a. Proof. reflexivity. Qed.
Lemma nsm_null_r a : ion a -> nsm a VNull = a. Proof. intros [|x]; reflexivity. Qed.

(* the documented meaning: fold from null *)
Definition spec (vs : list value) : value := fold_left nsm vs VNull.

Lemma fold_nsm_ion vs acc : ion acc -> Forall ion vs -> ion (fold_left nsm vs acc).
Proof.
  revert acc. induction vs as [|v vs IH]; intros acc Ha Hv; simpl; [exact Ha|].
  inversion Hv; subst. apply IH; [apply nsm_ion; assumption|assumption].
Qed.

Lemma fold_nsm_acc vs acc : ion acc -> Forall ion vs ->
  fold_left nsm vs acc = nsm acc (fold_left nsm vs VNull).
Proof.
  revert acc. induction vs as [|v vs IH]; intros acc Ha Hv; simpl.
  - symmetry. apply nsm_null_r. exact Ha.
  - inversion Hv; subst.
    rewrite IH by (try apply nsm_ion; assumption).
    rewrite (IH v) by assumption.
    symmetry. apply nsm_assoc; try assumption. apply fold_nsm_ion; [constructor|assumption].
Qed.

Lemma spec_app l r : Forall ion l -> Forall ion r -> spec (l ++ r) = nsm (spec l) (spec r).
Proof.
  intros Hl Hr. unfold spec. rewrite fold_left_app.
  apply fold_nsm_acc; [apply fold_nsm_ion; [constructor|assumption]|assumption].
Qed.

Lemma spec_single v : spec [v] = v. Proof. reflexivity. Qed.

Lemma Forall_firstn {A} (P : A -> Prop) n l : Forall P l -> Forall P (firstn n l).
Proof. revert l; induction n; intros [|x l] H; simpl; try constructor; inversion H; subst; auto. Qed.
Lemma Forall_skipn {A} (P : A -> Prop) n l : Forall P l -> Forall P (skipn n l).
Proof. revert l; induction n; intros [|x l] H; simpl; auto. inversion H; subst; auto. Qed.

Theorem dnc_ok env : forall fuel xs,
  (List.length xs <= fuel)%nat -> xs <> [] ->
  Forall ion (map (sql_eval env) xs) ->
  sql_eval env (dnc fuel xs) = spec (map (sql_eval env) xs) /\ ion (sql_eval env (dnc fuel xs)).
Proof.
  induction fuel as [|f IH]; intros xs Hlen Hne Hion.
  - destruct xs; [contradiction|simpl in Hlen; lia].
  - destruct xs as [|x [|y rest]]; [contradiction| |].
    + simpl. split; [reflexivity|]. inversion Hion; subst. assumption.
    + set (l0 := x :: y :: rest) in *.
      assert (Hl2 : (2 <= List.length l0)%nat) by (unfold l0; simpl; lia).
      set (mid := Nat.div (List.length l0 + 1) 2).
      assert (Hmid1 : (1 <= mid)%nat).
      { unfold mid. apply Nat.div_le_lower_bound; lia. }
      assert (Hmid2 : (mid < List.length l0)%nat).
      { unfold mid. apply Nat.div_lt_upper_bound; lia. }
      assert (E : dnc (S f) l0 =
                  SFn SfCoalesce [SFn fn [dnc f (firstn mid l0); dnc f (skipn mid l0)];
                                  dnc f (firstn mid l0); dnc f (skipn mid l0)]) by reflexivity.
      rewrite E. clear E. clearbody mid.
      assert (Lf : List.length (firstn mid l0) = mid) by (apply firstn_length_le; lia).
      assert (Ls : List.length (skipn mid l0) = (List.length l0 - mid)%nat) by apply skipn_length.
      destruct (IH (firstn mid l0)) as [E1 I1].
      { rewrite Lf. lia. }
      { intros C. rewrite C in Lf. simpl in Lf. rewrite <- Lf in Hmid1. inversion Hmid1. }
      { rewrite <- firstn_map. apply Forall_firstn. exact Hion. }
      destruct (IH (skipn mid l0)) as [E2 I2].
      { rewrite Ls. lia. }
      { intros C. rewrite C in Ls. change (@Datatypes.length sql_expr []) with 0%nat in Ls. lia. }
      { rewrite <- skipn_map. apply Forall_skipn. exact Hion. }
      cbn [sql_eval].
      rewrite node_ok by assumption. rewrite E1, E2.
      split.
      * rewrite <- spec_app.
        -- rewrite <- map_app, firstn_skipn. reflexivity.
        -- rewrite <- firstn_map. apply Forall_firstn. exact Hion.
        -- rewrite <- skipn_map. apply Forall_skipn. exact Hion.
      * rewrite <- E1, <- E2. apply nsm_ion; assumption.
Qed.
End DnC.

(* ---------- instances ---------- *)
Lemma fn_max vs : sq_fn SfMax vs = strict_fold v_max2 vs. Proof. reflexivity. Qed.
Lemma fn_min vs : sq_fn SfMin vs = strict_fold v_min2 vs. Proof. reflexivity. Qed.

Lemma any_err_ion vs : Forall ion vs -> any_err vs = false.
Proof. induction 1 as [|v vs Hv _ IH]; [reflexivity|]. unfold any_err in *. simpl. rewrite IH. destruct Hv; reflexivity. Qed.

Lemma skipnull_fold_spec zf vf :
  (forall a b, vf (VInt a) (VInt b) = VInt (zf a b)) ->
  forall vs acc, ion acc -> Forall ion vs ->
  fold_left (fun acc v => match acc, v with
                          | VErr, _ | _, VErr => VErr
                          | VNull, _ => v
                          | _, VNull => acc
                          | _, _ => vf acc v
                          end) vs acc
  = fold_left (nsm zf) vs acc.
Proof.
  intros Hvf. induction vs as [|v vs IH]; intros acc Ha Hv; [reflexivity|].
  inversion Hv; subst. simpl.
  assert (E : match acc, v with
              | VErr, _ | _, VErr => VErr
              | VNull, _ => v
              | _, VNull => acc
              | _, _ => vf acc v
              end = nsm zf acc v).
  { destruct Ha, H1; simpl; rewrite ?Hvf; reflexivity. }
  rewrite E. apply IH; [apply nsm_ion; assumption|assumption].
Qed.

Theorem hmax_spec vs : Forall ion vs -> ewise Op_horizontal_max vs = spec Z.max vs.
Proof.
  intros H. unfold ewise. rewrite any_err_ion by exact H. unfold skipnull_fold, spec.
  apply (skipnull_fold_spec Z.max v_max2 vmax_int); [constructor|exact H].
Qed.
Theorem hmin_spec vs : Forall ion vs -> ewise Op_horizontal_min vs = spec Z.min vs.
Proof.
  intros H. unfold ewise. rewrite any_err_ion by exact H. unfold skipnull_fold, spec.
  apply (skipnull_fold_spec Z.min v_min2 vmin_int); [constructor|exact H].
Qed.

(* SQLite GREATEST / LEAST for EVERY arity >= 1 and all operand values *)
Theorem sqlite_greatest_any_arity_proof env fuel xs :
  (List.length xs <= fuel)%nat -> xs <> [] -> Forall ion (map (sql_eval env) xs) ->
  sql_eval env (dnc SfMax fuel xs) = ewise Op_horizontal_max (map (sql_eval env) xs).
Proof.
  intros H1 H2 H3. rewrite hmax_spec by exact H3.
  apply (dnc_ok SfMax Z.max v_max2 vmax_int fn_max Z.max_assoc env fuel xs H1 H2 H3).
Qed.
Theorem sqlite_least_any_arity_proof env fuel xs :
  (List.length xs <= fuel)%nat -> xs <> [] -> Forall ion (map (sql_eval env) xs) ->
  sql_eval env (dnc SfMin fuel xs) = ewise Op_horizontal_min (map (sql_eval env) xs).
Proof.
  intros H1 H2 H3. rewrite hmin_spec by exact H3.
  apply (dnc_ok SfMin Z.min v_min2 vmin_int fn_min Z.min_assoc env fuel xs H1 H2 H3).
Qed.

(* the trees the real implementation builds ARE this recursion (arities 2..6, re-read from /repo) *)
Definition argcols (n : nat) : list sql_expr :=
  firstn n [SCol "x"; SCol "y"; SCol "z"; SCol "w"; SCol "v"; SCol "u"]%string.
Theorem generated_trees_are_the_recursion_proof :
  sqlite_hmax2 = dnc SfMax 6 (argcols 2) /\ sqlite_hmax3 = dnc SfMax 6 (argcols 3)
  /\ sqlite_hmax4 = dnc SfMax 6 (argcols 4) /\ sqlite_hmax5 = dnc SfMax 6 (argcols 5)
  /\ sqlite_hmax6 = dnc SfMax 6 (argcols 6)
  /\ sqlite_hmin2 = dnc SfMin 6 (argcols 2) /\ sqlite_hmin3 = dnc SfMin 6 (argcols 3)
  /\ sqlite_hmin4 = dnc SfMin 6 (argcols 4) /\ sqlite_hmin5 = dnc SfMin 6 (argcols 5)
  /\ sqlite_hmin6 = dnc SfMin 6 (argcols 6).
Proof. vm_compute. repeat split; reflexivity. Qed.
