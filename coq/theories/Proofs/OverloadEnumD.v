(* Proofs/OverloadEnumD.v — C13 statement decided inside the kernel over the enumeration of
   Model/Enum.v against the catalogue and conversion table regenerated from /repo. *)
From Coq Require Import List String NArith Bool.
From PDT Require Import Model.Dtype Model.Universe Model.Signature Model.Resolve Model.Enum
     Model.OverloadChecks.
From PDTGen Require Import Catalogue.
Import ListNotations.

(* the one known exception to "const parameters reject columns": finding #17, shift's fill_value *)
Definition exc_shift_fill (o : opname) (i : nat) : bool :=
  opname_eqb o Op_shift && Nat.eqb i 2.

Lemma constparam_enum : forall_enum (constparam_ok exc_shift_fill) = true.
Proof. vm_compute. reflexivity. Qed.

Lemma constparam_refuted_witness :
  const_position Op_shift 2 = true /\
  accepted Op_shift [TS SInt64; TConst (TS SInt64); TS SInt64] = Some (TS SInt64).
Proof. vm_compute. split; reflexivity. Qed.

(* non-vacuity: the enumeration is large and contains accepted tuples of every kind *)
Lemma enum_nontrivial :
  N.ltb 40000 (N.of_nat (List.length (enum_args Op_horizontal_max))) = true /\
  accepted Op_add [TS SInt8; TConst (TS SFloat32)] = Some (TS SFloat) /\
  op_outcome Op_add [TConst (TS SInt64); TConst (TS SInt64)] = OType (TConst (TS SInt)).
Proof. vm_compute. repeat split; reflexivity. Qed.
