(* Proofs/ImplLemmas.v — C19: the outcome of the implementation lookup (TableImpl.get_impl: own
   store, then the parent backend's, NotSupportedError at the root) for every backend, operator and
   declared overload, as re-read from /repo into generated/ImplReg.v. *)
From Coq Require Import List String NArith Bool.
From PDT Require Import Model.Dtype Model.Signature Model.Resolve.
From PDTGen Require Import Catalogue ImplReg.
Import ListNotations.

Definition outcome_ok (o : impl_outcome) : bool :=
  match o with HasImpl | NotSupported => true | InternalError _ => false end.

Definition backend_eqb (a b : backend) : bool :=
  match a, b with
  | Polars, Polars | Sqlite, Sqlite | Postgres, Postgres | Mssql, Mssql => true
  | _, _ => false end.
Lemma backend_eqb_eq a b : backend_eqb a b = true -> a = b.
Proof. destruct a, b; intros H; try reflexivity; discriminate H. Qed.
Definition all_backends := [Polars; Sqlite; Postgres; Mssql].

Definition entry := (backend * opname * list dtype * impl_outcome)%type.
Definition e_backend (e : entry) := fst (fst (fst e)).
Definition e_op (e : entry) := snd (fst (fst e)).
Definition e_sig (e : entry) := snd (fst e).
Definition e_out (e : entry) := snd e.

Definition accepted (o : opname) (args : list dtype) : bool :=
  match resolve o args with Unique _ _ => true | _ => false end.

Scheme Equality for opname.     (* opname_beq and internal_opname_dec_bl : opname_beq x y = true -> x = y *)

Definition covered (b : backend) (o : opname) : bool :=
  existsb (fun e => backend_eqb (e_backend e) b && opname_beq (e_op e) o) impl_table.

Lemma all_ok : forallb (fun e => outcome_ok (e_out e)) impl_table = true.
Proof. vm_compute. reflexivity. Qed.

Lemma all_accepted : forallb (fun e => accepted (e_op e) (e_sig e)) impl_table = true.
Proof. vm_compute. reflexivity. Qed.

Lemma all_covered : forallb (fun b => forallb (covered b) all_ops) all_backends = true.
Proof. vm_compute. reflexivity. Qed.

Lemma all_ops_complete : forall o, In o all_ops.
Proof. intros o; destruct o; unfold all_ops; repeat (first [left; reflexivity | right]). Qed.

Lemma no_internal_error_proof : forall b o sig out,
  In (b, o, sig, out) impl_table -> out = HasImpl \/ out = NotSupported.
Proof.
  intros b o sig out H. pose proof (proj1 (forallb_forall _ _) all_ok _ H) as K.
  unfold e_out in K. simpl in K. destruct out; [left|right|discriminate]; reflexivity.
Qed.

Lemma entries_are_accepted_proof : forall b o sig out,
  In (b, o, sig, out) impl_table -> exists m r, resolve o sig = Unique m r.
Proof.
  intros b o sig out H. pose proof (proj1 (forallb_forall _ _) all_accepted _ H) as K.
  unfold accepted, e_op, e_sig in K. simpl in K.
  destruct (resolve o sig) as [| m r | |]; try discriminate. exists m, r. reflexivity.
Qed.

Lemma every_operator_covered_proof : forall b o,
  exists sig out, In (b, o, sig, out) impl_table.
Proof.
  intros b o.
  assert (Hb : In b all_backends) by (destruct b; simpl; tauto).
  pose proof (proj1 (forallb_forall _ _) all_covered _ Hb) as K.
  pose proof (proj1 (forallb_forall _ _) K _ (all_ops_complete o)) as K2.
  unfold covered in K2. apply existsb_exists in K2. destruct K2 as [[[[b' o'] sig] out] [Hin Heq]].
  apply andb_prop in Heq. destruct Heq as [E1 E2]. unfold e_backend, e_op in E1, E2. simpl in E1, E2.
  assert (b' = b) by (apply backend_eqb_eq; exact E1).
  assert (o' = o) by (apply internal_opname_dec_bl; exact E2).
  subst. exists sig, out. exact Hin.
Qed.
