(* Proofs/TypeReimport.v — C20: column types after export and re-import. *)
From Coq Require Import List String NArith Bool.
From PDT Require Import Model.Dtype.
From PDTGen Require Import PolarsTypes.
Import ListNotations.

Definition odtype_eqb (a b : option dtype) : bool :=
  match a, b with Some x, Some y => dtype_eqb x y | None, None => true | _, _ => false end.

Lemma simple_eqb_eq a b : simple_eqb a b = true -> a = b.
Proof. destruct a, b; simpl; intros H; try reflexivity; discriminate H. Qed.

Lemma strs_eqb_eq : forall a b, strs_eqb a b = true -> a = b.
Proof.
  induction a as [|x a IH]; destruct b as [|y b]; simpl; intros H; try reflexivity; try discriminate H.
  apply andb_prop in H. destruct H as [H1 H2]. apply String.eqb_eq in H1. rewrite (IH _ H2), H1. reflexivity.
Qed.

Lemma dtype_eqb_eq : forall a b, dtype_eqb a b = true -> a = b.
Proof.
  induction a as [s|p s|ml|cats|t IH|t IH|n]; destruct b; simpl; intros H; try discriminate H.
  - f_equal. apply simple_eqb_eq. exact H.
  - apply andb_prop in H. destruct H as [H1 H2]. apply N.eqb_eq in H1, H2. subst. reflexivity.
  - destruct ml as [x|], ml0 as [y|]; simpl in H; try discriminate H; [apply N.eqb_eq in H; subst|]; reflexivity.
  - f_equal. apply strs_eqb_eq. exact H.
  - f_equal. apply IH. exact H.
  - f_equal. apply IH. exact H.
  - apply String.eqb_eq in H. subst. reflexivity.
Qed.

Lemma reimport_ok :
  forallb (fun e => odtype_eqb (snd e) (Some (storage_type (fst e)))) polars_reimport = true.
Proof. vm_compute. reflexivity. Qed.

Lemma reimport_is_storage_proof : forall t back,
  In (t, back) polars_reimport -> back = Some (storage_type t).
Proof.
  intros t back H. pose proof (proj1 (forallb_forall _ _) reimport_ok _ H) as K. simpl in K.
  destruct back as [b|]; simpl in K; [|discriminate K]. f_equal. apply dtype_eqb_eq. exact K.
Qed.

Lemma storage_idempotent_proof : forall t, storage_type (storage_type t) = storage_type t.
Proof.
  induction t as [s|p s|ml|cats|t IH|t IH|n]; simpl; try reflexivity.
  - destruct s; reflexivity.
  - rewrite IH. reflexivity.
  - exact IH.
Qed.
