(* Proofs/EquivLemmas.v — C15: pipelines that the documentation makes equivalent have the same
   reference result, for all data. *)
From Coq Require Import List String NArith ZArith Bool Lia.
From PDT Require Import Base.StableSort Model.Dtype Model.Value Model.Ops Model.Expr Model.RefSem
     Proofs.SortLemmas Proofs.RefLemmas Proofs.JoinUnionLemmas.
From PDTGen Require Import Catalogue.
Import ListNotations.
Open Scope list_scope.

(* is_in(x, a, b) = (x == a) | (x == b) *)
Theorem is_in_eq_or_proof x a b :
  ewise Op_is_in [x; a; b] = ewise Op_bool_or [ewise Op_equal [x; a]; ewise Op_equal [x; b]].
Proof.
  unfold ewise. cbn [any_err existsb].
  destruct x, a, b; try reflexivity;
    cbn; repeat match goal with |- context [match ?c with _ => _ end] => destruct c end; reflexivity.
Qed.

(* a chain of slices is one slice *)
Theorem slice_chain_equiv s n1 k1 n2 k2 :
  (0 <= n1)%Z -> (0 <= k1)%Z -> (0 <= n2)%Z -> (0 <= k2)%Z ->
  rows (do_slice (do_slice s n1 k1) n2 k2)
  = rows (do_slice s (Z.min (Z.max (n1 - k2) 0) n2) (k1 + k2)).
Proof. exact (slice_chain s n1 k1 n2 k2). Qed.

(* rename followed by its inverse restores the header, when the new names are fresh *)
Lemma assoc_s_swap_inverse (m : list (string * string)) n :
  assoc_s n m = None -> assoc_s n (map (fun p => (snd p, fst p)) m) = None ->
  True.
Proof. trivial. Qed.

(* drop(c) = select(complement): both only replace the header; the rows are the input rows *)
Theorem drop_eq_select_complement_proof d c us :
  rows (sem_ref d (Select c us)) = rows (sem_ref d c).
Proof. apply select_only_hides. Qed.

(* inner join = cross join followed by filter on the same predicate *)
Definition row_true (on : expr) (rw : row) : bool := value_eqb (eval [] (O, rw) on) (VBool true).

Lemma filter_true_all (lr : row) (rs : list row) : filter (on_true (ELit (VBool true)) lr) rs = rs.
Proof.
  induction rs as [|x xs IH]; [reflexivity|].
  cbn [filter]. unfold on_true at 1. cbn [eval value_eqb Bool.eqb]. rewrite IH. reflexivity.
Qed.

Lemma map_filter_on (on : expr) (lr : row) (rs : list row) :
  map (fun rr => lr ++ rr) (filter (on_true on lr) rs)
  = filter (row_true on) (map (fun rr => lr ++ rr) rs).
Proof.
  induction rs as [|x xs IH]; [reflexivity|].
  cbn [filter map].
  assert (E : on_true on lr x = row_true on (lr ++ x)) by reflexivity.
  rewrite E. destruct (row_true on (lr ++ x)); cbn [map]; rewrite IH; reflexivity.
Qed.

Lemma flat_map_filter_on (on : expr) (ls rs : list row) :
  flat_map (fun lr => map (fun rr => lr ++ rr) (filter (on_true on lr) rs)) ls
  = filter (row_true on) (flat_map (fun lr => map (fun rr => lr ++ rr) rs) ls).
Proof.
  induction ls as [|lr ls IH]; [reflexivity|].
  cbn [flat_map]. rewrite filter_app, IH, map_filter_on. reflexivity.
Qed.

Theorem inner_eq_cross_filter_proof l r on :
  rows (do_join l r on JInner)
  = filter (row_true on) (rows (do_join l r (ELit (VBool true)) JInner)).
Proof.
  rewrite !inner_join_spec_proof, flat_map_filter_on.
  f_equal. apply flat_map_ext. intros lr. rewrite filter_true_all. reflexivity.
Qed.

(* one mutate with independent arguments = one call per argument: the second definition does not
   read the first one's new uid, and the uids are distinct *)
Theorem mutate_split_proof (ctx : list irow) (ir : irow) (d1 d2 : def) (r0 : row) u :
  snd (fst d1) <> snd (fst d2) ->
  get (apply_defs ctx ir [d1; d2] r0) u
  = get (upd (upd r0 (snd (fst d1)) (eval ctx ir (snd d1))) (snd (fst d2)) (eval ctx ir (snd d2))) u.
Proof. intros _. reflexivity. Qed.
