(* Proofs/HeapProgLemmas.v — C10: soundness of the static check of Model/HeapProg.v: a program (with
   choices and loops) that passes it leaves every pre-existing object unchanged, however often its
   loops run and whichever branches are taken. *)
From Coq Require Import List Arith Bool Lia.
From PDT Require Import Model.Heap Model.HeapProg Proofs.HeapLemmas.
Import ListNotations.

Definition restrict (g : gamma) (n : nat) : gamma := fun id => if Nat.ltb id n then g id else None.

Lemma restrict_some g n id l : restrict g n id = Some l -> g id = Some l /\ id < n.
Proof. unfold restrict. destruct (Nat.ltb_spec id n) as [H|H]; intros E; [split; assumption|discriminate E]. Qed.

Lemma assoc_In {V} k (l : list (nat * V)) v : assoc k l = Some v -> In (k, v) l.
Proof.
  induction l as [|[k' v'] l IH]; simpl; intros H; [discriminate H|].
  destruct (Nat.eqb_spec k' k) as [E|E].
  - inversion H; subst. left. reflexivity.
  - right. apply IH. exact H.
Qed.

Lemma aval_eqb_eq u v : aval_eqb u v = true -> u = v.
Proof.
  destruct u as [|i], v as [|j]; simpl; intros H; try discriminate H; [reflexivity|].
  apply Nat.eqb_eq in H. subst. reflexivity.
Qed.

Lemma lookup_f_In id f L v : lookup_f id f L = ANew v -> In (id, (f, ANew v)) L.
Proof.
  induction L as [|[i [f2 v2]] L IH]; simpl; intros H; [discriminate H|].
  destruct (Nat.eqb_spec i id) as [E1|E1]; destruct (Nat.eqb_spec f2 f) as [E2|E2]; simpl in H;
    try (right; apply IH; exact H).
  subst. left. reflexivity.
Qed.

(* forgetting: the loop-head state holds whenever a state that claims at least as much does *)
Lemma inv_forget n0 h0 g a e h hd :
  Inv n0 h0 g a e h -> subenv hd a = true -> head_wf hd = true ->
  Inv n0 h0 (restrict g (anext hd)) hd e h.
Proof.
  intros I S W. unfold head_wf in W. apply andb_true_iff in W. destruct W as [Wb Wf].
  unfold subenv in S. apply andb_true_iff in S. destruct S as [S Sf].
  rewrite forallb_forall in S, Wb, Sf, Wf.
  assert (K : forall x id, lookup_a x hd = ANew id -> lookup_a x a = ANew id /\ id < anext hd).
  { intros x id L. pose proof L as L0. unfold lookup_a in L. destruct (assoc x (aenv hd)) as [v|] eqn:A; [|discriminate L].
    subst v. apply assoc_In in A. split.
    - specialize (S _ A). simpl in S. rewrite L0 in S. apply aval_eqb_eq in S. exact S.
    - specialize (Wb _ A). simpl in Wb. apply Nat.ltb_lt in Wb. exact Wb. }
  assert (KF : forall id f v, lookup_f id f (afld hd) = ANew v ->
               f = coll_fld /\ exists v', lookup_f id coll_fld (afld a) = ANew v').
  { intros id f v L. pose proof (lookup_f_In _ _ _ _ L) as Hin.
    pose proof (Wf _ Hin) as W1. simpl in W1. apply andb_true_iff in W1. destruct W1 as [W1 _].
    apply Nat.eqb_eq in W1. subst f. split; [reflexivity|].
    specialize (Sf _ Hin). simpl in Sf. rewrite L in Sf. unfold is_coll in Sf.
    destruct (lookup_f id coll_fld (afld a)) as [|v'] eqn:La; [discriminate Sf|]. exists v'. reflexivity. }
  constructor.
  - intros x id L. destruct (K x id L) as [La Lt]. destruct (i_env _ _ _ _ _ _ I x id La) as [l [H1 H2]].
    exists l. split; [exact H1|]. unfold restrict. apply Nat.ltb_lt in Lt. rewrite Lt. exact H2.
  - intros id l H. apply restrict_some in H. apply (i_rng _ _ _ _ _ _ I id l (proj1 H)).
  - intros id f id' l fs l' Hf Hg Hn Ha. destruct (KF _ _ _ Hf) as [_ [v' La]].
    apply restrict_some in Hg. destruct (i_coll _ _ _ _ _ _ I id v' l La (proj1 Hg)) as [ls [Hn2 _]].
    rewrite Hn in Hn2. discriminate Hn2.
  - intros i j l Hi Hj. apply restrict_some in Hi. apply restrict_some in Hj.
    apply (i_inj _ _ _ _ _ _ I i j l (proj1 Hi) (proj1 Hj)).
  - intros id l H. apply restrict_some in H. exact (proj2 H).
  - unfold facts_below. rewrite Forall_forall. intros x Hx. specialize (Wf _ Hx).
    apply andb_true_iff in Wf. apply Nat.ltb_lt. exact (proj2 Wf).
  - intros id idx l Hf Hg. destruct (KF _ _ _ Hf) as [_ [v' La]]. apply restrict_some in Hg.
    apply (i_coll _ _ _ _ _ _ I id v' l La (proj1 Hg)).
  - exact (i_frame _ _ _ _ _ _ I).
Qed.

Definition post (o : out) (r : ares) (a' : astate) : Prop :=
  match o with
  | ONormal => In a' (r_norm r)
  | OBreak => In a' (r_brk r)
  | OCont => In a' (r_cont r)
  | ORet => True
  end.

Lemma all_res_in f : forall l r a, all_res f l = Some r -> In a l ->
  exists r1, f a = Some r1 /\ (forall o x, post o r1 x -> post o r x).
Proof.
  induction l as [|a0 l IH]; intros r a H Hin; [contradiction|]. simpl in H.
  destruct (f a0) as [r0|] eqn:F0; [|discriminate H].
  destruct (all_res f l) as [r2|] eqn:R2; [|discriminate H]. inversion H; subst; clear H.
  destruct Hin as [E|Hin].
  - subst a0. exists r0. split; [exact F0|]. intros [| | |] x P; simpl in *; try apply in_or_app; try left; try exact P; exact I.
  - destruct (IH r2 a eq_refl Hin) as [r1 [F1 P1]]. exists r1. split; [exact F1|].
    intros o x P. specialize (P1 o x P). destruct o; simpl in *; try apply in_or_app; try right; try exact P1; exact I.
Qed.

(* the heap grew, nothing that existed changed: everything known about the caller's objects still holds *)
Lemma inv_extend n0 h0 g a e h h' :
  Inv n0 h0 g a e h -> List.length h <= List.length h' ->
  (forall l, l < List.length h -> nth_error h' l = nth_error h l) ->
  Inv n0 h0 g a e h'.
Proof.
  intros I Hlen Hsame. destruct I as [Ienv Irng Ifld Iinj Inext Ifacts Icoll [Ifr1 Ifr2]].
  constructor.
  - exact Ienv.
  - intros id l H. specialize (Irng _ _ H). lia.
  - intros id f id' l fs l' Hf Hg Hn Ha. pose proof (Irng _ _ Hg) as R.
    rewrite Hsame in Hn by lia. apply (Ifld _ _ _ _ _ _ Hf Hg Hn Ha).
  - exact Iinj.
  - exact Inext.
  - exact Ifacts.
  - intros id idx l Hf Hg. destruct (Icoll _ _ _ Hf Hg) as [ls [Hn Hb]]. pose proof (Irng _ _ Hg) as R.
    exists ls. split; [rewrite Hsame by lia; exact Hn|]. intros le Hle. specialize (Hb le Hle). lia.
  - split; [lia|]. intros l Hl. rewrite Hsame by lia. apply Ifr2. exact Hl.
Qed.

Section Sound.
Variable funs : list prog.
(* every function of the table passes the check on its own, from the empty abstract state *)
Hypothesis AllSafe : forall f body, nth_error funs f = Some body -> exists r, acheck body init_astate = Some r.

Definition sound_at (p : prog) (s : env * heap) (o : out) (s' : env * heap) : Prop :=
  forall n0 h0 g a r,
    Inv n0 h0 g a (fst s) (snd s) -> acheck p a = Some r ->
    exists g' a', Inv n0 h0 g' a' (fst s') (snd s') /\ post o r a'.

Definition loop_sound_at (p : prog) (s : env * heap) (o : out) (s' : env * heap) : Prop :=
  forall b, p = PLoop b -> forall n0 h0 g hd rb,
    Inv n0 h0 g hd (fst s) (snd s) -> head_wf hd = true -> acheck b hd = Some rb ->
    forallb (subenv hd) (r_norm rb ++ r_cont rb) = true ->
    exists g' a', Inv n0 h0 g' a' (fst s') (snd s')
                  /\ post o {| r_norm := hd :: r_brk rb; r_brk := []; r_cont := [] |} a'.

(* from the loop statement to the statement about acheck (PLoop b) *)
Lemma loop_to_sound b s o s' : loop_sound_at (PLoop b) s o s' -> sound_at (PLoop b) s o s'.
Proof.
  intros HL n0 h0 g a r I A. simpl in A. remember (head_state (assigned b) a) as hd eqn:Ehd.
  destruct (subenv hd a && head_wf hd) eqn:C; [|discriminate A]. apply andb_true_iff in C. destruct C as [S W].
  destruct (acheck b hd) as [rb|] eqn:Ab; [|discriminate A].
  destruct (forallb (subenv hd) (r_norm rb ++ r_cont rb)) eqn:F; [|discriminate A]. inversion A; subst r; clear A.
  pose proof (inv_forget _ _ _ _ _ _ hd I S W) as I0.
  apply (HL b eq_refl n0 h0 _ hd rb I0 W Ab F).
Qed.

(* induction on the EXECUTION (a callee's body is not a part of the caller's program text) *)
Lemma acheck_sound : forall p s o s', pexec funs p s o s' -> sound_at p s o s' /\ loop_sound_at p s o s'.
Proof.
  intros p s o s' H.
  induction H as
    [ s
    | st s s' Hstep
    | p q s s1 s2 o Hp IHp Hq IHq
    | p q s s1 o Hne Hp IHp
    | p q s o s' Hp IHp
    | p q s o s' Hq IHq
    | b s
    | b s s1 s2 o o' Hb IHb Hoc Hrest IHrest
    | b s s1 Hb IHb
    | b s s1 Hb IHb
    | s | s | s
    | fs s
    | fs f body e h ec oc ec' h' o h'' Hin Hnth Hbody IHbody Hrest IHrest
    | fs f body e h ec ec' h' Hin Hnth Hbody IHbody ].
  - (* skip *) split; [|intros b Eb; discriminate Eb].
    intros n0 h0 g a r I A. simpl in A. inversion A; subst. exists g, a. split; [exact I|]. simpl. left. reflexivity.
  - (* statement *) split; [|intros b Eb; discriminate Eb].
    intros n0 h0 g a r I A. simpl in A.
    destruct (astep a st) as [a'|] eqn:As; [|discriminate A]. inversion A; subst.
    destruct s as [e h], s' as [e' h']. simpl in *.
    destruct (step_sound _ _ _ _ _ _ _ _ _ _ I Hstep As) as [g' I'].
    exists g', a'. split; [exact I'|]. simpl. left. reflexivity.
  - (* sequence *) split; [|intros b Eb; discriminate Eb].
    intros n0 h0 g a r I A. simpl in A. destruct (acheck p a) as [r1|] eqn:A1; [|discriminate A].
    destruct (all_res (acheck q) (r_norm r1)) as [r2|] eqn:A2; [|discriminate A]. inversion A; subst; clear A.
    destruct (proj1 IHp n0 h0 g a r1 I A1) as [g1 [a1 [I1 P1]]]. simpl in P1.
    destruct (all_res_in _ _ _ _ A2 P1) as [rq [Aq Pq]].
    destruct (proj1 IHq n0 h0 g1 a1 rq I1 Aq) as [g2 [a2 [I2 P2]]].
    exists g2, a2. split; [exact I2|]. specialize (Pq _ _ P2).
    destruct o; simpl in *; try apply in_or_app; try right; try exact Pq; exact Logic.I.
  - (* sequence left early *) split; [|intros b Eb; discriminate Eb].
    intros n0 h0 g a r I A. simpl in A. destruct (acheck p a) as [r1|] eqn:A1; [|discriminate A].
    destruct (all_res (acheck q) (r_norm r1)) as [r2|] eqn:A2; [|discriminate A]. inversion A; subst; clear A.
    destruct (proj1 IHp n0 h0 g a r1 I A1) as [g1 [a1 [I1 P1]]].
    exists g1, a1. split; [exact I1|].
    destruct o; simpl in *; [contradiction Hne; reflexivity|apply in_or_app; left; exact P1|apply in_or_app; left; exact P1|exact Logic.I].
  - (* left branch *) split; [|intros b Eb; discriminate Eb].
    intros n0 h0 g a r I A. simpl in A. destruct (acheck p a) as [r1|] eqn:A1; [|discriminate A].
    destruct (acheck q a) as [r2|] eqn:A2; [|discriminate A]. inversion A; subst; clear A.
    destruct (proj1 IHp n0 h0 g a r1 I A1) as [g1 [a1 [I1 P1]]]. exists g1, a1. split; [exact I1|].
    destruct o; simpl in *; try apply in_or_app; try left; try exact P1; exact Logic.I.
  - (* right branch *) split; [|intros b Eb; discriminate Eb].
    intros n0 h0 g a r I A. simpl in A. destruct (acheck p a) as [r1|] eqn:A1; [|discriminate A].
    destruct (acheck q a) as [r2|] eqn:A2; [|discriminate A]. inversion A; subst; clear A.
    destruct (proj1 IHq n0 h0 g a r2 I A2) as [g1 [a1 [I1 P1]]]. exists g1, a1. split; [exact I1|].
    destruct o; simpl in *; try apply in_or_app; try right; try exact P1; exact Logic.I.
  - (* loop: no further iteration *)
    assert (HL : loop_sound_at (PLoop b) s ONormal s).
    { intros b0 Eb n0 h0 g hd rb I W A F. exists g, hd. split; [exact I|]. simpl. left. reflexivity. }
    split; [apply loop_to_sound; exact HL|exact HL].
  - (* loop: one iteration, then the rest *)
    assert (HL : loop_sound_at (PLoop b) s o' s2).
    { intros b0 Eb n0 h0 g hd rb I W A F. inversion Eb; subst b0.
      destruct (proj1 IHb n0 h0 g hd rb I A) as [g1 [a1 [I1 P1]]].
      assert (S1 : subenv hd a1 = true).
      { rewrite forallb_forall in F. apply F. apply in_or_app. destruct Hoc as [-> | ->]; simpl in P1; [left|right]; exact P1. }
      pose proof (inv_forget _ _ _ _ _ _ hd I1 S1 W) as I2.
      apply (proj2 IHrest b eq_refl n0 h0 _ hd rb I2 W A F). }
    split; [apply loop_to_sound; exact HL|exact HL].
  - (* loop left by break *)
    assert (HL : loop_sound_at (PLoop b) s ONormal s1).
    { intros b0 Eb n0 h0 g hd rb I W A F. inversion Eb; subst b0.
      destruct (proj1 IHb n0 h0 g hd rb I A) as [g1 [a1 [I1 P1]]]. simpl in P1.
      exists g1, a1. split; [exact I1|]. simpl. right. exact P1. }
    split; [apply loop_to_sound; exact HL|exact HL].
  - (* loop left by return / raise *)
    assert (HL : loop_sound_at (PLoop b) s ORet s1).
    { intros b0 Eb n0 h0 g hd rb I W A F. inversion Eb; subst b0.
      destruct (proj1 IHb n0 h0 g hd rb I A) as [g1 [a1 [I1 P1]]].
      exists g1, a1. split; [exact I1|]. exact Logic.I. }
    split; [apply loop_to_sound; exact HL|exact HL].
  - (* break *) split; [|intros b Eb; discriminate Eb].
    intros n0 h0 g a r I A. simpl in A. inversion A; subst. exists g, a. split; [exact I|]. simpl. left. reflexivity.
  - (* continue *) split; [|intros b Eb; discriminate Eb].
    intros n0 h0 g a r I A. simpl in A. inversion A; subst. exists g, a. split; [exact I|]. simpl. left. reflexivity.
  - (* return *) split; [|intros b Eb; discriminate Eb].
    intros n0 h0 g a r I A. exists g, a. split; [exact I|]. exact Logic.I.
  - (* no (further) call *) split; [|intros b Eb; discriminate Eb].
    intros n0 h0 g a r I A. simpl in A. inversion A; subst. exists g, a. split; [exact I|]. simpl. left. reflexivity.
  - (* a call: the callee leaves everything that existed when it was called as it was; then the rest *)
    split; [|intros b Eb; discriminate Eb].
    intros n0 h0 g a r I A. simpl in *.
    destruct (AllSafe f body Hnth) as [rf Af].
    destruct (proj1 IHbody (List.length h) h _ init_astate rf (inv_init ec h) Af) as [g' [a' [I' _]]]. simpl in I'.
    destruct (i_frame _ _ _ _ _ _ I') as [Fl Fs].
    assert (I1 : Inv n0 h0 g a e h').
    { apply (inv_extend _ _ _ _ _ h h' I Fl). intros l Hl. apply Fs. exact Hl. }
    apply (proj1 IHrest n0 h0 g a r I1 A).
  - (* a call that raises *)
    split; [|intros b Eb; discriminate Eb].
    intros n0 h0 g a r I A. simpl in *.
    destruct (AllSafe f body Hnth) as [rf Af].
    destruct (proj1 IHbody (List.length h) h _ init_astate rf (inv_init ec h) Af) as [g' [a' [I' _]]]. simpl in I'.
    destruct (i_frame _ _ _ _ _ _ I') as [Fl Fs].
    exists g, a. split; [|exact Logic.I].
    apply (inv_extend _ _ _ _ _ h h' I Fl). intros l Hl. apply Fs. exact Hl.
Qed.
End Sound.

Lemma safe_table_all funs : safe_table funs = true ->
  forall f body, nth_error funs f = Some body -> exists r, acheck body init_astate = Some r.
Proof.
  intros S f body Hn. unfold safe_table in S. rewrite forallb_forall in S.
  specialize (S body (nth_error_In _ _ Hn)). apply andb_true_iff in S. destruct S as [S _].
  unfold safe_prog in S. destruct (acheck body init_astate) as [r|]; [exists r; reflexivity|discriminate S].
Qed.

(* THE FRAME THEOREM for programs with calls: every function of a table that passes the check leaves, in every
   execution - whichever branches are taken, however often the loops run, however deep the calls (recursion
   included) - every pre-existing object exactly as it was *)
Theorem safe_table_preserves_old_objects_proof : forall funs p e h o e' h',
  safe_table funs = true -> In p funs -> pexec funs p (e, h) o (e', h') ->
  List.length h <= List.length h' /\ forall l, l < List.length h -> nth_error h' l = nth_error h l.
Proof.
  intros funs p e h o e' h' S Hin X.
  destruct (In_nth_error _ _ Hin) as [f Hf].
  destruct (safe_table_all funs S f p Hf) as [r A].
  destruct (proj1 (acheck_sound funs (safe_table_all funs S) p _ _ _ X) (List.length h) h _ init_astate r (inv_init e h) A)
    as [g' [a' [I _]]].
  exact (i_frame _ _ _ _ _ _ I).
Qed.

(* a program without a table: calls have no execution, the other constructs are as before *)
Theorem safe_prog_preserves_old_objects_proof : forall p e h o e' h',
  safe_prog p = true -> pexec [] p (e, h) o (e', h') ->
  List.length h <= List.length h' /\ forall l, l < List.length h -> nth_error h' l = nth_error h l.
Proof.
  intros p e h o e' h' S X. unfold safe_prog in S.
  destruct (acheck p init_astate) as [r|] eqn:A; [|discriminate S].
  assert (AS : forall f body, nth_error (@nil prog) f = Some body -> exists r, acheck body init_astate = Some r).
  { intros f body Hn. destruct f; discriminate Hn. }
  destruct (proj1 (acheck_sound [] AS p _ _ _ X) (List.length h) h _ init_astate r (inv_init e h) A) as [g' [a' [I _]]].
  exact (i_frame _ _ _ _ _ _ I).
Qed.
