(* Proofs/GroupLemmas.v — grouping (RefSem.group_rows) applied to two pointwise-related row lists
   with equal keys gives pointwise-related groups; every group is non-empty and its key is the key
   of its first row. *)
From Coq Require Import List String NArith ZArith Bool Lia.
From PDT Require Import Model.Value Model.Ops Model.Expr Model.RefSem.
Import ListNotations.
Open Scope list_scope.

Definition groups (A : Type) := list (list value * list A).

Fixpoint add_to {A} (k : list value) (r : A) (a : groups A) : option (groups A) :=
  match a with
  | [] => None
  | (k', g) :: a' =>
      if values_eqb k k' then Some ((k', r :: g) :: a')
      else match add_to k r a' with Some a'' => Some ((k', g) :: a'') | None => None end
  end.

Definition finish {A} (acc : groups A) : groups A := map (fun g => (fst g, rev (snd g))) (rev acc).

Lemma group_rows_nil {A} (key : A -> list value) acc : group_rows key [] acc = finish acc.
Proof. reflexivity. Qed.

Lemma group_rows_cons {A} (key : A -> list value) r rs acc :
  group_rows key (r :: rs) acc =
  match add_to (key r) r acc with
  | Some acc' => group_rows key rs acc'
  | None => group_rows key rs ((key r, [r]) :: acc)
  end.
Proof.
  cbn [group_rows].
  match goal with |- match ?F acc with _ => _ end = _ => assert (E : forall a, F a = add_to (key r) r a) end.
  { induction a as [|[k' g] a IH]; [reflexivity|]. cbn [add_to]. rewrite <- IH. reflexivity. }
  rewrite E. reflexivity.
Qed.

Section Rel.
Context {A B : Type}.
Variable RR : A -> B -> Prop.
Definition RG (x : list value * list A) (y : list value * list B) : Prop := fst x = fst y /\ Forall2 RR (snd x) (snd y).

Lemma add_to_rel k r b acc acc' : RR r b -> Forall2 RG acc acc' ->
  match add_to k r acc, add_to k b acc' with
  | Some a, Some a' => Forall2 RG a a'
  | None, None => True
  | _, _ => False
  end.
Proof.
  intros Hrb H. induction H as [|[k1 g1] [k2 g2] acc acc' [Ek Hg] Hacc IH]; [exact I|].
  simpl in Ek. subst k2. cbn [add_to]. destruct (values_eqb k k1).
  - constructor; [|assumption]. split; [reflexivity|]. simpl. constructor; assumption.
  - destruct (add_to k r acc), (add_to k b acc'); try contradiction; [|exact I].
    constructor; [split; [reflexivity|exact Hg]|exact IH].
Qed.

Lemma Forall2_rev {X Y} (R : X -> Y -> Prop) l l' : Forall2 R l l' -> Forall2 R (rev l) (rev l').
Proof.
  induction 1 as [|a b l l' Hab _ IH]; simpl; [constructor|]. apply Forall2_app; [exact IH|]. constructor; [exact Hab|constructor].
Qed.

Lemma finish_rel acc acc' : Forall2 RG acc acc' -> Forall2 RG (finish acc) (finish acc').
Proof.
  intros H. unfold finish. apply Forall2_rev in H.
  induction H as [|[k1 g1] [k2 g2] l l' [Ek Hg] _ IH]; simpl; [constructor|].
  constructor; [|exact IH]. split; [exact Ek|]. simpl. apply Forall2_rev. exact Hg.
Qed.

Lemma group_rows_rel key key' : (forall r b, RR r b -> key r = key' b) ->
  forall l l', Forall2 RR l l' -> forall acc acc', Forall2 RG acc acc' ->
  Forall2 RG (group_rows key l acc) (group_rows key' l' acc').
Proof.
  intros Hk l l' H. induction H as [|r b l l' Hrb _ IH]; intros acc acc' Hacc.
  - rewrite !group_rows_nil. apply finish_rel. exact Hacc.
  - rewrite !group_rows_cons. rewrite <- (Hk r b Hrb).
    pose proof (add_to_rel (key r) r b acc acc' Hrb Hacc) as Ha.
    destruct (add_to (key r) r acc), (add_to (key r) b acc'); try contradiction.
    + apply IH. exact Ha.
    + apply IH. constructor; [|exact Hacc]. split; [reflexivity|]. simpl. constructor; [exact Hrb|constructor].
Qed.
End Rel.

(* every group is non-empty and carries the key of its first row *)
Definition good_acc {A} (key : A -> list value) (acc : groups A) : Prop :=
  forall k g, In (k, g) acc -> exists r0 rest, rev g = r0 :: rest /\ k = key r0.

Lemma add_to_good {A} (key : A -> list value) k r acc acc' : good_acc key acc -> add_to k r acc = Some acc' -> good_acc key acc'.
Proof.
  revert acc'. induction acc as [|[k1 g1] acc IH]; intros acc' G H; [discriminate H|].
  cbn [add_to] in H. destruct (values_eqb k k1).
  - inversion H; subst. intros k0 g0 [E|Hin].
    + inversion E; subst. destruct (G k0 g1 (or_introl eq_refl)) as [r0 [rest [E1 E2]]].
      exists r0, (rest ++ [r]). split; [simpl; rewrite E1; reflexivity|exact E2].
    + apply G. right. exact Hin.
  - destruct (add_to k r acc) as [a''|] eqn:E; [|discriminate H]. inversion H; subst.
    intros k0 g0 [E0|Hin].
    + inversion E0; subst. apply G. left. reflexivity.
    + apply (IH a''); [|reflexivity|exact Hin]. intros k2 g2 H2. apply G. right. exact H2.
Qed.

Lemma group_rows_good {A} (key : A -> list value) : forall l acc, good_acc key acc ->
  forall k g, In (k, g) (group_rows key l acc) -> exists r0 rest, g = r0 :: rest /\ k = key r0.
Proof.
  induction l as [|r l IH]; intros acc G k g Hin.
  - rewrite group_rows_nil in Hin. unfold finish in Hin. apply in_map_iff in Hin.
    destruct Hin as [[k1 g1] [E Hin]]. simpl in E. inversion E; subst. apply in_rev in Hin. apply (G k g1 Hin).
  - rewrite group_rows_cons in Hin. destruct (add_to (key r) r acc) as [acc'|] eqn:E.
    + apply (IH acc'); [|exact Hin]. apply (add_to_good key (key r) r acc acc' G E).
    + apply (IH ((key r, [r]) :: acc)); [|exact Hin]. intros k0 g0 [E0|H0].
      * inversion E0; subst. exists r, []. split; reflexivity.
      * apply G. exact H0.
Qed.

Lemma get_zip_row_map (f : uid -> value) g x : In x g -> get (zip_row g (map f g)) x = f x.
Proof.
  induction g as [|y g IH]; intros H; [destruct H|]. simpl.
  destruct (N.eqb_spec y x) as [E|E]; [subst; reflexivity|].
  destruct H as [H|H]; [contradiction|]. apply IH. exact H.
Qed.

Lemma get_zip_row_other (vs : list value) g x : ~ In x g -> get (zip_row g vs) x = VNull.
Proof.
  revert vs. induction g as [|y g IH]; intros vs H; [reflexivity|]. destruct vs as [|v vs]; [reflexivity|]. simpl.
  destruct (N.eqb_spec y x) as [E|E]; [subst; exfalso; apply H; left; reflexivity|].
  apply IH. intros C. apply H. right. exact C.
Qed.
