(* Proofs/TypeFamEnum.v — C12, the catalogue half, decided inside the kernel over the regenerated catalogue: for
   every modelled element-wise operator and every accepted overload in the enumeration of Model/Enum.v the declared
   return type lies in the family that the documented meaning gives for arguments of the argument types' families. *)
From Coq Require Import List String NArith Bool.
From PDT Require Import Model.Dtype Model.Universe Model.Signature Model.Resolve Model.Enum Model.OverloadChecks
     Model.Value Model.Ops Model.Expr Model.Typing Model.TypeFam Proofs.TypeFamLemmas Proofs.TypeLemmas Proofs.TypeReimport
     Proofs.EvalLemmas Proofs.ImplLemmas.
From PDTGen Require Import Catalogue.
Import ListNotations.

Lemma ret_fam_enum : forallb (fun o => forallb (ret_fam_ok o) (enum_args o)) modelled_ewise = true.
Proof. vm_compute. reflexivity. Qed.

Theorem declared_return_family_proof o args :
  In o modelled_ewise -> In args (enum_args o) -> ret_fam_ok o args = true.
Proof.
  intros Ho Ha. pose proof ret_fam_enum as H. rewrite forallb_forall in H. specialize (H o Ho).
  rewrite forallb_forall in H. exact (H args Ha).
Qed.

(* both halves together: a value of the static type's family *)
Theorem typed_application_proof o args r f vs :
  In o modelled_ewise -> In args (enum_args o) -> OverloadChecks.accepted o args = Some r ->
  ret_fam o (map fam_of args) = Some f ->
  vs_in vs (map fam_of args) -> in_fam (ewise o vs) (fam_of r) = true.
Proof.
  intros Ho Ha Hacc Hf Hv. pose proof (declared_return_family_proof o args Ho Ha) as H.
  unfold ret_fam_ok in H. rewrite Hacc, Hf in H.
  assert (E : f = fam_of r) by (destruct f, (fam_of r); simpl in H; try discriminate; reflexivity).
  rewrite <- E. apply (ewise_fam o vs (map fam_of args) f Hf Hv).
Qed.

(* the statement is not vacuous: number of accepted overloads for which a family is claimed *)
Definition claim_count : N :=
  fold_left (fun n o => fold_left (fun m a => if ret_fam_claims o a then N.succ m else m) (enum_args o) n) modelled_ewise 0%N.
Lemma claims_exist : N.ltb 20000 claim_count = true.
Proof. vm_compute. reflexivity. Qed.

(* the same over every operator of the catalogue that has a class (robust against changes of modelled_ewise) *)
Lemma ret_fam_enum_all :
  forallb (fun o => match classify o with None => true | Some _ => forallb (ret_fam_ok o) (enum_args o) end) all_ops = true.
Proof. vm_compute. reflexivity. Qed.

Lemma declared_return_family_all o args c :
  classify o = Some c -> In args (enum_args o) -> ret_fam_ok o args = true.
Proof.
  intros Hc Ha. pose proof ret_fam_enum_all as H. rewrite forallb_forall in H. specialize (H o (all_ops_complete o)).
  rewrite Hc in H. rewrite forallb_forall in H. exact (H args Ha).
Qed.

Lemma dtypes_eqb_eq : forall a b, dtypes_eqb a b = true -> a = b.
Proof.
  induction a as [|x a IH]; destruct b as [|y b]; simpl; intros H; try reflexivity; try discriminate H.
  apply andb_prop in H. destruct H as [H1 H2]. rewrite (dtype_eqb_eq _ _ H1), (IH _ H2). reflexivity.
Qed.

Lemma has_type_in_fam v t : has_type v t = true -> in_fam v (fam_of t) = true.
Proof.
  unfold has_type. destruct v; try reflexivity; intros H.
  - induction t; simpl in *; try discriminate; auto. destruct s; simpl in *; try discriminate; reflexivity.
  - induction t; simpl in *; try discriminate; auto. destruct s; simpl in *; try discriminate; reflexivity.
  - induction t; simpl in *; try discriminate; auto.
  - induction t; simpl in *; try discriminate; auto. destruct s; simpl in *; try discriminate; reflexivity.
  - induction t; simpl in *; try discriminate; auto. destruct s; simpl in *; try discriminate; reflexivity.
  - induction t; simpl in *; try discriminate; auto. destruct s; simpl in *; try discriminate; reflexivity.
Qed.

Lemma fam_with_const t : fam_of (with_const t) = fam_of t.
Proof. destruct t; reflexivity. Qed.

Lemma tys_of_spec env : forall args ats, tys_of env args = Some ats -> Forall2 (fun a t => dtype_of env a = TOk t) args ats.
Proof.
  unfold tys_of. induction args as [|a args IH]; intros ats H.
  - inversion H. constructor.
  - destruct (dtype_of env a) as [t|] eqn:E; [|discriminate].
    match type of H with context [match ?g with _ => _ end] => destruct g as [ts|] eqn:E2; [|discriminate] end.
    inversion H; subst. constructor; [exact E|apply IH; reflexivity].
Qed.

(* the inner list function of dtype_of agrees with tys_of *)
Lemma dtype_of_args env (args : list expr) :
  (fix go (l : list expr) : tres (list dtype) :=
     match l with
     | [] => TOk []
     | a :: l' => tbind (dtype_of env a) (fun t => tbind (go l') (fun ts => TOk (t :: ts)))
     end) args
  = match tys_of env args with Some ats => TOk ats | None =>
      (fix go (l : list expr) : tres (list dtype) :=
     match l with
     | [] => TOk []
     | a :: l' => tbind (dtype_of env a) (fun t => tbind (go l') (fun ts => TOk (t :: ts)))
     end) args end.
Proof.
  unfold tys_of. induction args as [|a args IH]; [reflexivity|]. simpl.
  destruct (dtype_of env a) as [t|e]; simpl; [|reflexivity].
  rewrite IH. match goal with |- context [match ?g with Some _ => _ | None => _ end] => destruct g end; reflexivity.
Qed.

(* EXPRESSION LEVEL: an element-wise expression over columns, literals, casts and modelled operators, every
   application lying in the enumeration with a family claim, evaluates into the family of its static type *)
Theorem expr_family_soundness_proof : forall e env t ctx i r,
  tsound env e = true -> dtype_of env e = TOk t ->
  (forall u ci, env_get env u = Some ci -> in_fam (get r u) (fam_of (c_dtype ci)) = true) ->
  in_fam (eval ctx (i, r) e) (fam_of t) = true.
Proof.
  apply (expr_ind2 (fun e => forall env t ctx i r,
    tsound env e = true -> dtype_of env e = TOk t ->
    (forall u ci, env_get env u = Some ci -> in_fam (get r u) (fam_of (c_dtype ci)) = true) ->
    in_fam (eval ctx (i, r) e) (fam_of t) = true)).
  - intros u env t ctx i r _ Ht Henv. cbn [dtype_of] in Ht. destruct (env_get env u) as [ci|] eqn:E; [|discriminate].
    inversion Ht; subst. simpl. apply (Henv u ci E).
  - intros v env t ctx i r _ Ht _. cbn [dtype_of] in Ht. inversion Ht; subst. simpl. destruct v; reflexivity.
  - intros e t' IH env t ctx i r Hs Ht Henv. cbn [tsound] in Hs. cbn [dtype_of] in Ht.
    destruct (dtype_of env e) as [s|] eqn:E; [|discriminate]. simpl in Ht.
    destruct (converts_to s t' || is_valid_cast s t'); [|discriminate]. inversion Ht; subst.
    assert (Hf : fam_of (if is_const s then with_const t' else t') = fam_of t').
    { destruct (is_const s); [apply fam_with_const|reflexivity]. }
    rewrite Hf. cbn [eval]. apply has_type_in_fam. apply cast_has_target_type_proof.
  - intros cs d _ _ env t ctx i r Hs _ _. discriminate Hs.
  - intros o args hp part arr IHa _ _ env t ctx i r Hs Ht Henv. cbn [tsound] in Hs.
    repeat (apply andb_prop in Hs; let H := fresh "S" in destruct Hs as [Hs H]).
    apply negb_true_iff in Hs. subst hp. destruct part; [|discriminate]. destruct arr; [|discriminate].
    destruct (op_kind o) eqn:K; try discriminate.
    destruct (classify o) as [c|] eqn:C; [|discriminate].
    destruct (tys_of env args) as [ats|] eqn:Ta; [|discriminate].
    apply andb_prop in S. destruct S as [Sen Scl].
    destruct (ret_fam o (map fam_of ats)) as [f|] eqn:Rf; [|discriminate].
    apply existsb_exists in Sen. destruct Sen as [x [Hx Ex]]. apply dtypes_eqb_eq in Ex. subst x.
    (* the static type *)
    cbn [dtype_of] in Ht. rewrite (dtype_of_args env args), Ta in Ht. cbn [tbind] in Ht.
    destruct (resolve o ats) as [| sg ret | |] eqn:R; try discriminate.
    assert (Hacc : OverloadChecks.accepted o ats = Some ret) by (unfold OverloadChecks.accepted; rewrite R; reflexivity).
    assert (Hfam : fam_of t = fam_of ret).
    { destruct (ftype_eqb (op_ftype o) ElementWise && forallb is_const (ats ++ [] ++ [])); [|inversion Ht; reflexivity].
      destruct (is_const ret); [discriminate|]. inversion Ht. reflexivity. }
    rewrite Hfam. rewrite (eval_elem_fn ctx (i, r) o args false [] [] K).
    pose proof (declared_return_family_all o ats c C Hx) as Hok. unfold ret_fam_ok in Hok. rewrite Hacc, Rf in Hok.
    assert (E : f = fam_of ret) by (destruct f, (fam_of ret); simpl in Hok; try discriminate; reflexivity).
    rewrite <- E. apply (ewise_fam o _ (map fam_of ats) f Rf).
    (* the arguments *)
    pose proof (tys_of_spec env args ats Ta) as Hty. clear -IHa S0 Hty Henv.
    unfold vs_in. revert S0. induction Hty as [|a t0 args ats Ha _ IH]; intros S0; [constructor|].
    inversion IHa as [|? ? Ia Irest]; subst. simpl in S0. apply andb_prop in S0. destruct S0 as [Sa Srest].
    simpl. constructor; [apply (Ia env t0 ctx i r Sa Ha Henv)|apply (IH Irest Srest)].
Qed.
