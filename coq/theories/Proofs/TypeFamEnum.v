(* Proofs/TypeFamEnum.v — C12, the catalogue half, decided inside the kernel over the regenerated catalogue: for
   every modelled element-wise operator and every accepted overload in the enumeration of Model/Enum.v the declared
   return type lies in the family that the documented meaning gives for arguments of the argument types' families. *)
From Coq Require Import List String NArith Bool.
From PDT Require Import Model.Dtype Model.Universe Model.Signature Model.Resolve Model.Enum Model.OverloadChecks
     Model.Value Model.Ops Model.TypeFam Proofs.TypeFamLemmas.
From PDTGen Require Import Catalogue.
Import ListNotations.

Lemma ret_fam_enum : forallb (fun o => forallb (ret_fam_ok o) (enum_args o)) modelled_ewise = true.
Proof. vm_compute. reflexivity. Qed.

Theorem declared_return_family_proof o args :
  In o modelled_ewise -> In args (enum_args o) -> ret_fam_ok o args = true.
Proof.
  intros Ho Ha. pose proof ret_fam_enum as H. rewrite forallb_forall in H. specialize (H o Ho).
  rewrite forallb_forall in H. exact (H args Ha).
Qed.

(* both halves together: a value of the static type's family *)
Theorem typed_application_proof o args r f vs :
  In o modelled_ewise -> In args (enum_args o) -> accepted o args = Some r ->
  ret_fam o (map fam_of args) = Some f ->
  vs_in vs (map fam_of args) -> in_fam (ewise o vs) (fam_of r) = true.
Proof.
  intros Ho Ha Hacc Hf Hv. pose proof (declared_return_family_proof o args Ho Ha) as H.
  unfold ret_fam_ok in H. rewrite Hacc, Hf in H.
  assert (E : f = fam_of r) by (destruct f, (fam_of r); simpl in H; try discriminate; reflexivity).
  rewrite <- E. apply (ewise_fam o vs (map fam_of args) f Hf Hv).
Qed.

(* the statement is not vacuous: number of accepted overloads for which a family is claimed *)
Definition claim_count : N :=
  fold_left (fun n o => fold_left (fun m a => if ret_fam_claims o a then N.succ m else m) (enum_args o) n) modelled_ewise 0%N.
Lemma claims_exist : N.ltb 20000 claim_count = true.
Proof. vm_compute. reflexivity. Qed.
