(* Proofs/SubqueryLemmas.v — C08: facts about the subquery catalogue (Model/Cache.requires_subquery,
   tied to the real Cache.requires_subquery decision by decision through the L2 correspondence). *)
From Coq Require Import List String NArith ZArith Bool Lia.
From PDT Require Import Model.Dtype Model.Conv Model.Signature Model.Resolve Model.Value Model.Ops
     Model.Expr Model.RefSem Model.Typing Model.Cache.
Import ListNotations.
Open Scope list_scope.

(* Polars-backed tables never need a subquery *)
Theorem polars_never_proof c v r : requires_subquery true c v r = None.
Proof. reflexivity. Qed.

(* ---- after a subquery marker every column is an element-wise, non-constant column ---- *)
Lemma marker_cols_ewise c u f :
  col_ftype (upd_marker c) u = Some f -> f = ElementWise.
Proof.
  unfold col_ftype, upd_marker. cbn [cols].
  induction (cols c) as [|[k ci] l IH]; simpl; [discriminate|].
  destruct (N.eqb k u); simpl; [intros H; inversion H; reflexivity|exact IH].
Qed.

Lemma marker_col_is c fts u :
  existsb (ftype_eqb ElementWise) fts = false -> col_is (upd_marker c) fts u = false.
Proof.
  intros H. unfold col_is. destruct (col_ftype (upd_marker c) u) as [f|] eqn:E; [|reflexivity].
  apply marker_cols_ewise in E. subst f. exact H.
Qed.

Lemma marker_not_const c u : col_is_const (upd_marker c) u = false.
Proof.
  unfold col_is_const, upd_marker. cbn [cols].
  induction (cols c) as [|[k ci] l IH]; simpl; [reflexivity|].
  destruct (N.eqb k u); simpl; [|exact IH].
  induction (c_dtype ci); try reflexivity. simpl. assumption.
Qed.

Lemma existsb_false {A} (p : A -> bool) l : (forall x, p x = false) -> existsb p l = false.
Proof. intros H. induction l as [|x l IH]; simpl; [reflexivity|]. rewrite H, IH. reflexivity. Qed.

Lemma marker_no_window_col c :
  existsb (fun p => ftype_eqb (c_ftype (snd p)) Window) (cols (upd_marker c)) = false.
Proof.
  unfold upd_marker. cbn [cols]. induction (cols c) as [|[k ci] l IH]; simpl; [reflexivity|exact IH].
Qed.

(* "Inserting alias() directly before a verb that raised SubqueryError makes it accepted": on the
   re-rooted table (cache after the marker) NO verb needs a subquery, whatever it contains. *)
Theorem alias_unblocks_proof c v r : requires_subquery false (upd_marker c) v r = None.
Proof.
  unfold requires_subquery.
  assert (L : limit (upd_marker c) = 0%Z) by reflexivity.
  assert (G : group_by (upd_marker c) = []) by reflexivity.
  assert (F : is_filtered (upd_marker c) = false) by reflexivity.
  rewrite L, G, F. cbn [Z.eqb negb andb].
  rewrite !andb_false_r. cbn [andb].
  assert (W : forall us, existsb (col_is (upd_marker c) [Window; Aggregate]) us = false).
  { intros us. apply existsb_false. intros u. apply marker_col_is. reflexivity. }
  assert (W1 : forall us, existsb (col_is (upd_marker c) [Window]) us = false).
  { intros us. apply existsb_false. intros u. apply marker_col_is. reflexivity. }
  assert (W2 : forall us, existsb (col_is_const (upd_marker c)) us = false).
  { intros us. apply existsb_false. intros u. apply marker_not_const. }
  rewrite (existsb_false _ _ (fun us => W us)).
  rewrite W1, marker_no_window_col. rewrite !andb_false_r.
  destruct v; try reflexivity.
  - (* Summarize *) rewrite W, W1. reflexivity.
  - (* Join *) rewrite W2, W1, W. rewrite andb_false_r. reflexivity.
  - (* Union *) rewrite W1. reflexivity.
Qed.

(* select, rename, slice_head, ungroup and alias never need a subquery *)
Theorem projection_verbs_never_need_proof c (v : ast) r :
  match v with
  | Select _ _ | Rename _ _ | SliceHead _ _ _ | Ungroup _ | Alias _ _ | SubqueryMarker _ | Source _ _ => True
  | _ => False
  end -> requires_subquery false c v r = None.
Proof.
  destruct v; intros H; try destruct H; unfold requires_subquery; cbn [andb verb_exprs];
    rewrite ?andb_false_l; reflexivity.
Qed.

(* after slice_head, the verbs that would change which rows the LIMIT sees need a subquery *)
Theorem after_slice_needs_proof c (v : ast) r :
  limit c <> 0%Z ->
  match v with
  | Filter _ _ | Summarize _ _ | Arrange _ _ | GroupBy _ _ _ | Join _ _ _ _ | Union _ _ _ => True
  | _ => False
  end -> requires_subquery false c v r = Some RAfterSlice.
Proof.
  intros L H. unfold requires_subquery.
  assert (E : Z.eqb (limit c) 0 = false) by (apply Z.eqb_neq; exact L).
  rewrite E. destruct v; try destruct H; reflexivity.
Qed.

(* the "simple" region: with no limit set and no window column in scope, element-wise mutate /
   filter, arrange and group_by never need a subquery; an (un)grouped summarize over element-wise
   columns does not either *)
Definition no_window_cols (c : cache) : Prop :=
  forall u, col_is c [Window] u = false.
Definition no_aggwin_cols (c : cache) : Prop :=
  forall u, col_is c [Window; Aggregate] u = false.

Theorem simple_step_never_needs_proof c (v : ast) r :
  limit c = 0%Z ->
  existsb (fun p => ftype_eqb (c_ftype (snd p)) Window) (cols c) = false ->
  no_window_cols c ->
  match v with
  | Mutate _ defs => forallb (fun d => negb (has_aggwin_fn (snd d))) defs = true
  | Filter _ _ | Arrange _ _ | GroupBy _ _ _ => True
  | Summarize _ _ => group_by c = [] /\ no_aggwin_cols c
  | _ => False
  end -> requires_subquery false c v r = None.
Proof.
  intros L NW NWC H. unfold requires_subquery. rewrite L. cbn [Z.eqb negb].
  rewrite !andb_false_r.
  assert (W1 : forall us, existsb (col_is c [Window]) us = false).
  { intros us. apply existsb_false. exact NWC. }
  destruct v; try contradiction; cbn [andb verb_exprs].
  - (* Mutate: no aggregate / window function in the expressions *)
    assert (E1 : flat_map aggwin_fn_cols (map snd defs) = []).
    { induction defs as [|d ds IH]; [reflexivity|].
      simpl in H. apply andb_true_iff in H. destruct H as [H1 H2].
      simpl. rewrite IH by exact H2. rewrite app_nil_r.
      apply negb_true_iff in H1. clear -H1. 
      (* no aggregate / window ColFn in the tree => no such sub-tree column sets *)
      revert H1. generalize (snd d). clear d.
      fix REC 1. intros e. destruct e as [u|v|o args hp part arr|cases dflt|e' t]; simpl; intros H.
      - reflexivity.
      - reflexivity.
      - apply orb_false_iff in H. destruct H as [H Harr].
        apply orb_false_iff in H. destruct H as [H Hpart].
        apply orb_false_iff in H. destruct H as [Ho Hargs].
        apply negb_false_iff in Ho. rewrite Ho. simpl.
        assert (A1 : (fix go (l : list expr) : list (list uid) :=
                        match l with [] => [] | a :: l' => aggwin_fn_cols a ++ go l' end) args = []).
        { clear -REC Hargs. induction args as [|a l IHl]; [reflexivity|].
          simpl in Hargs. apply orb_false_iff in Hargs. destruct Hargs as [Ha Hl].
          rewrite (REC a Ha), IHl by exact Hl. reflexivity. }
        assert (A2 : (fix go (l : list expr) : list (list uid) :=
                        match l with [] => [] | a :: l' => aggwin_fn_cols a ++ go l' end) part = []).
        { clear -REC Hpart. induction part as [|a l IHl]; [reflexivity|].
          simpl in Hpart. apply orb_false_iff in Hpart. destruct Hpart as [Ha Hl].
          rewrite (REC a Ha), IHl by exact Hl. reflexivity. }
        assert (A3 : (fix go (l : list (expr * omark)) : list (list uid) :=
                        match l with [] => [] | (a, _) :: l' => aggwin_fn_cols a ++ go l' end) arr = []).
        { clear -REC Harr. induction arr as [|[a m] l IHl]; [reflexivity|].
          simpl in Harr. apply orb_false_iff in Harr. destruct Harr as [Ha Hl].
          rewrite (REC a Ha), IHl by exact Hl. reflexivity. }
        rewrite A1, A2, A3. reflexivity.
      - apply orb_false_iff in H. destruct H as [Hc Hd].
        assert (A1 : (fix go (cs : list (expr * expr)) : list (list uid) :=
                        match cs with [] => [] | (c, v) :: cs' => aggwin_fn_cols c ++ aggwin_fn_cols v ++ go cs' end)
                       cases = []).
        { clear -REC Hc. induction cases as [|[c v] l IHl]; [reflexivity|].
          simpl in Hc. apply orb_false_iff in Hc. destruct Hc as [Hcv Hl].
          apply orb_false_iff in Hcv. destruct Hcv as [Hc1 Hv1].
          rewrite (REC c Hc1), (REC v Hv1), IHl by exact Hl. reflexivity. }
        rewrite A1. destruct dflt as [d0|]; [rewrite (REC d0 Hd)|]; reflexivity.
      - apply REC. exact H. }
    rewrite E1. cbn [existsb]. reflexivity.
  - (* Filter *) rewrite W1, NW. reflexivity.
  - (* Arrange *) reflexivity.
  - (* GroupBy *) reflexivity.
  - (* Summarize *) destruct H as [G NA]. rewrite G. cbn [negb andb].
    rewrite (existsb_false _ _ NA), W1. reflexivity.
Qed.
