(* Proofs/CompareLemmas.v — soundness of the decidable comparisons that the correspondence cases
   evaluate inside Coq: a VOk verdict really means equal names and equal rows (as a sequence, or
   as a multiset when the pipeline does not fix the order). *)
From Coq Require Import List String NArith ZArith Bool Permutation.
From PDT Require Import Base.StableSort Model.Dtype Model.Value Model.Ops Model.Expr Model.RefSem
     Proofs.SortLemmas.
Import ListNotations.
Open Scope list_scope.

Lemma names_eqb_eq a b : names_eqb a b = true -> a = b.
Proof.
  revert b; induction a as [|x a IH]; intros [|y b]; simpl; try discriminate; [reflexivity|].
  rewrite andb_true_iff. intros [E1 E2]. apply String.eqb_eq in E1. f_equal; auto.
Qed.

(* value_eqb is equality up to the identification -0.0 = 0.0 of IEEE comparison *)
Definition value_eq (a b : value) : Prop := value_eqb a b = true.

Lemma values_eqb_Forall2 a b : values_eqb a b = true -> Forall2 value_eq a b.
Proof.
  revert b; induction a as [|x a IH]; intros [|y b]; simpl; try discriminate; [constructor|].
  rewrite andb_true_iff. intros [E1 E2]. constructor; [exact E1|apply IH; exact E2].
Qed.

Lemma rows_eqb_Forall2 a b : rows_eqb a b = true -> Forall2 (Forall2 value_eq) a b.
Proof.
  revert b; induction a as [|x a IH]; intros [|y b]; simpl; try discriminate; [constructor|].
  rewrite andb_true_iff. intros [E1 E2]. constructor; [apply values_eqb_Forall2; exact E1|apply IH; exact E2].
Qed.

Definition rows_equiv (a b : list (list value)) : Prop := Forall2 (Forall2 value_eq) a b.

(* equal as multisets of rows: some reordering of one equals (cell by cell) some reordering of the other *)
Definition rows_equiv_multiset (a b : list (list value)) : Prop :=
  exists a' b', Permutation a a' /\ Permutation b b' /\ rows_equiv a' b'.

Theorem verdict_ok_sound ordered e o :
  frame_verdict ordered e o = VOk ->
  f_names e = f_names o /\
  (if ordered then rows_equiv (f_rows e) (f_rows o) else rows_equiv_multiset (f_rows e) (f_rows o)).
Proof.
  unfold frame_verdict.
  destruct (names_eqb (f_names e) (f_names o)) eqn:N; simpl; [|discriminate].
  destruct ordered.
  - destruct (rows_eqb (f_rows e) (f_rows o)) eqn:R; [|discriminate]. intros _.
    split; [apply names_eqb_eq; exact N|apply rows_eqb_Forall2; exact R].
  - destruct (rows_eqb (sort_rows (f_rows e)) (sort_rows (f_rows o))) eqn:R; [|discriminate]. intros _.
    split; [apply names_eqb_eq; exact N|].
    exists (sort_rows (f_rows e)), (sort_rows (f_rows o)).
    repeat split; try apply ssort_perm. apply rows_eqb_Forall2. exact R.
Qed.

Theorem check_case_ok_sound d a force obs :
  check_case d a force obs = VOk ->
  bad (sem_ref d a) = false /\
  f_names (export_ref (sem_ref d a)) = f_names obs /\
  (if ord_defined (sem_ref d a) && negb force
   then rows_equiv (f_rows (export_ref (sem_ref d a))) (f_rows obs)
   else rows_equiv_multiset (f_rows (export_ref (sem_ref d a))) (f_rows obs)).
Proof.
  unfold check_case. destruct (bad (sem_ref d a)); [discriminate|]. intros H.
  split; [reflexivity|]. apply verdict_ok_sound in H. exact H.
Qed.
