(* Proofs/EvalRel.v — congruence of Model/Expr.eval: an expression - element-wise, aggregate or window, with
   partition_by and arrange= - has the same value in two contexts whose rows, taken position by
   position, carry the same index and agree on the columns the expression mentions. *)
From Coq Require Import List String NArith ZArith Bool Lia Arith.
From PDT Require Import Base.StableSort Model.Dtype Model.Value Model.Ops Model.Expr Model.RefSem Model.SqlCompile
     Proofs.EvalLemmas Proofs.ListRel.
From PDTGen Require Import Catalogue.
Import ListNotations.
Open Scope nat_scope.
Open Scope list_scope.

Definition irel (X : list uid) (a b : irow) : Prop :=
  fst a = fst b /\ forall x, In x X -> get (snd a) x = get (snd b) x.

Lemma irel_incl X Y a b : (forall x, In x Y -> In x X) -> irel X a b -> irel Y a b.
Proof. intros H [E G]. split; [exact E|]. intros x Hx. apply G. apply H. exact Hx. Qed.

Lemma Forall2_irel_incl X Y l l' : (forall x, In x Y -> In x X) -> Forall2 (irel X) l l' -> Forall2 (irel Y) l l'.
Proof. intros H. apply Forall2_impl'. intros a b. apply irel_incl. exact H. Qed.

Lemma keys_map ctx r (l : list (expr * omark)) :
  (fix go (l : list (expr * omark)) : list value := match l with [] => [] | (a, _) :: l' => eval ctx r a :: go l' end) l
  = map (fun ka => eval ctx r (fst ka)) l.
Proof. induction l as [|[a m] l IH]; [reflexivity|]. simpl. rewrite IH. reflexivity. Qed.

Lemma Forall2_nth_error {A B} (R : A -> B -> Prop) l l' n :
  Forall2 R l l' ->
  match nth_error l n, nth_error l' n with
  | Some a, Some b => R a b
  | None, None => True
  | _, _ => False
  end.
Proof.
  intros H. revert n. induction H as [|a b l l' Hab _ IH]; intros [|n]; simpl; try exact I; try exact Hab. apply IH.
Qed.

Lemma index_of_rel (l l' : list keyed) i : forall p,
  Forall2 (fun a b => fst (snd a) = fst (snd b)) l l' -> index_of i l p = index_of i l' p.
Proof.
  intros p H. revert p. induction H as [|[ka [ia ra]] [kb [ib rb]] l l' Hab _ IH]; intros p; [reflexivity|].
  cbn [index_of fst snd] in *. subst ib. destruct (Nat.eqb ia i); [reflexivity|apply IH].
Qed.

(* the window / aggregate branch of eval as a function of its ingredients: how rows are keyed, how an
   argument is evaluated at a row, the current row and its partition *)
Definition win_core (o : opname) (args : list expr) (ms : list omark)
           (keys : irow -> list value) (ev : irow -> expr -> value) (cur : irow) (P : list irow) : value :=
  let SP := ssort (le_keyed ms) (map (fun r => (keys r, r)) P) in
  match op_kind o with
  | KElem => VErr
  | KAgg =>
      match args with
      | [] => agg o [] (List.length P)
      | a :: _ => agg o (map (fun kr => ev (snd kr) a) SP) (List.length P)
      end
  | KWin =>
      if (match o with Op_row_number | Op_shift | Op_cum_sum => true | _ => false end)
         && has_ties ms (map fst SP) then VErr else
      match o with
      | Op_row_number =>
          match index_of (fst cur) SP 0 with Some p => VInt (Z.of_nat (S p)) | None => VErr end
      | Op_rank =>
          let kc := keys cur in
          VInt (1 + Z.of_nat (List.length
                  (filter (fun kr => match cmp_keys ms (fst kr) kc with Lt => true | _ => false end) SP)))
      | Op_dense_rank =>
          let kc := keys cur in
          VInt (1 + Z.of_nat (List.length
                  (filter (fun k' => match cmp_keys ms k' kc with Lt => true | _ => false end)
                          (dedup_keys ms (map fst SP)))))
      | Op_shift =>
          match args with
          | x :: n :: rest =>
              let fill := match rest with f :: _ => ev cur f | [] => VNull end in
              match lit_int (ev cur n), index_of (fst cur) SP 0 with
              | Some nz, Some p =>
                  let q := (Z.of_nat p - nz)%Z in
                  if Z.ltb q 0 then fill else
                  match nth_error SP (Z.to_nat q) with
                  | Some kr => ev (snd kr) x
                  | None => fill
                  end
              | _, _ => VErr
              end
          | _ => VErr
          end
      | Op_cum_sum =>
          match args, index_of (fst cur) SP 0 with
          | x :: _, Some p =>
              nth p (cum_sums VNull (map (fun kr => ev (snd kr) x) SP)) VErr
          | _, _ => VErr
          end
      | _ => VErr
      end
  end.

Definition evs_fix (ctx : list irow) (r : irow) :=
  fix go (l : list expr) : list value := match l with [] => [] | a :: l' => eval ctx r a :: go l' end.
Definition keys_fix (ctx : list irow) (arr : list (expr * omark)) (r : irow) : list value :=
  (fix go (l : list (expr * omark)) : list value := match l with [] => [] | (a, _) :: l' => eval ctx r a :: go l' end) arr.

Lemma eval_win_fn ctx cur o args hp part arr :
  op_kind o <> KElem ->
  eval ctx cur (EFn o args hp part arr) =
  win_core o args (map snd arr) (keys_fix ctx arr) (eval ctx) cur
    (if hp then filter (fun r => values_eqb (evs_fix ctx r part) (evs_fix ctx cur part)) ctx else ctx).
Proof.
  intros K. cbn [eval]. unfold win_core. destruct (op_kind o) eqn:Ko; [contradiction|reflexivity|reflexivity].
Qed.

(* congruence of the core *)
Lemma win_core_rel o args ms keys keys' (ev ev' : irow -> expr -> value) cur cur' P P' (Rr : irow -> irow -> Prop) :
  (forall r r', Rr r r' -> fst r = fst r') ->
  (forall r r', Rr r r' -> keys r = keys' r') ->
  (forall r r' a, Rr r r' -> In a args -> ev r a = ev' r' a) ->
  Rr cur cur' -> Forall2 Rr P P' ->
  win_core o args ms keys ev cur P = win_core o args ms keys' ev' cur' P'.
Proof.
  intros Hidx Hk He Hc HP. unfold win_core.
  set (SP := ssort (le_keyed ms) (map (fun r => (keys r, r)) P)).
  set (SP' := ssort (le_keyed ms) (map (fun r => (keys' r, r)) P')).
  assert (HS : Forall2 (fun (x y : list value * irow) => fst x = fst y /\ Rr (snd x) (snd y)) SP SP').
  { unfold SP, SP'. apply (Forall2_ssort (fun a b => match cmp_keys ms a b with Gt => false | _ => true end) Rr).
    apply Forall2_map_l. apply Forall2_map_r. eapply Forall2_impl'; [|exact HP].
    intros r r' Hr. simpl. split; [apply Hk; exact Hr|exact Hr]. }
  assert (Hfst : map fst SP = map fst SP').
  { apply (Forall2_map_eq _ _ _ _ _ HS). intros x y [E _]. exact E. }
  assert (Hlen : List.length P = List.length P') by (apply (Forall2_length' _ _ _ HP)).
  assert (Hio : forall p, index_of (fst cur) SP p = index_of (fst cur') SP' p).
  { intros p. rewrite <- (Hidx _ _ Hc). apply index_of_rel. eapply Forall2_impl'; [|exact HS].
    intros x y [_ Hr]. apply Hidx. exact Hr. }
  assert (Hmap : forall a, In a args -> map (fun kr => ev (snd kr) a) SP = map (fun kr => ev' (snd kr) a) SP').
  { intros a Ha. apply (Forall2_map_eq _ _ _ _ _ HS). intros x y [_ Hr]. apply He; assumption. }
  destruct (op_kind o).
  - reflexivity.
  - rewrite Hlen. destruct args as [|a rest]; [reflexivity|]. rewrite (Hmap a (or_introl eq_refl)). reflexivity.
  - rewrite Hfst. destruct (_ && _); [reflexivity|].
    destruct o; try reflexivity.
    + (* shift *)
      destruct args as [|x [|n rest]]; try reflexivity.
      assert (Efill : match rest with f :: _ => ev cur f | [] => VNull end = match rest with f :: _ => ev' cur' f | [] => VNull end).
      { destruct rest as [|f rest]; [reflexivity|]. apply He; [exact Hc|]. right. right. left. reflexivity. }
      cbv zeta. rewrite Efill. rewrite (He cur cur' n Hc) by (right; left; reflexivity). rewrite (Hio 0).
      destruct (lit_int (ev' cur' n)) as [nz|]; [|reflexivity]. destruct (index_of (fst cur') SP' 0) as [p|]; [|reflexivity].
      destruct (Z.ltb _ _); [reflexivity|].
      pose proof (Forall2_nth_error _ _ _ (Z.to_nat (Z.of_nat p - nz)) HS) as Hn.
      unfold keyed in *. revert Hn. destruct (nth_error SP _) as [kr|], (nth_error SP' _) as [kr'|]; intros Hn; try contradiction; [|reflexivity].
      destruct Hn as [_ Hr]. apply He; [exact Hr|left; reflexivity].
    + (* row_number *) rewrite (Hio 0). reflexivity.
    + (* rank *)
      cbv zeta. rewrite (Hk _ _ Hc). f_equal. f_equal. f_equal.
      apply (Forall2_length' (fun x y : list value * irow => fst x = fst y /\ Rr (snd x) (snd y))).
      apply Forall2_filter; [exact HS|]. intros x y [E _]. rewrite E. reflexivity.
    + (* dense_rank *) cbv zeta. rewrite (Hk _ _ Hc). reflexivity.
    + (* cum_sum *)
      destruct args as [|x rest]; [reflexivity|]. rewrite (Hio 0). rewrite (Hmap x (or_introl eq_refl)). reflexivity.
Qed.

Lemma cols_fn_part o args hp part arr x : In x (flat_map cols part) -> In x (cols (EFn o args hp part arr)).
Proof. intros H. simpl. apply in_or_app. right. apply in_or_app. left. exact H. Qed.
Lemma cols_fn_arr o args hp part arr x : In x (flat_map (fun ka => cols (fst ka)) arr) -> In x (cols (EFn o args hp part arr)).
Proof. intros H. simpl. apply in_or_app. right. apply in_or_app. right. exact H. Qed.
Lemma in_flat_map_cols (l : list expr) a x : In a l -> In x (cols a) -> In x (flat_map cols l).
Proof. intros Ha Hx. apply in_flat_map. exists a. split; assumption. Qed.

(* THE CONGRUENCE *)
Theorem eval_rel : forall e ctx ctx' cur cur',
  Forall2 (irel (cols e)) ctx ctx' -> irel (cols e) cur cur' -> eval ctx cur e = eval ctx' cur' e.
Proof.
  apply (expr_ind2 (fun e => forall ctx ctx' cur cur',
    Forall2 (irel (cols e)) ctx ctx' -> irel (cols e) cur cur' -> eval ctx cur e = eval ctx' cur' e)).
  - intros u ctx ctx' cur cur' _ [_ H]. simpl. apply H. left. reflexivity.
  - reflexivity.
  - intros e t IH ctx ctx' cur cur' F C. simpl in *. rewrite (IH ctx ctx' cur cur' F C). reflexivity.
  - intros cs d IHcs IHd ctx ctx' cur cur' F C. rewrite !eval_case.
    induction cs as [|[c v] cs IH]; simpl.
    + destruct d as [x|]; [|reflexivity]. apply IHd; simpl in F, C; assumption.
    + inversion IHcs as [|? ? [Hc Hv] Hrest]; subst. simpl in Hc, Hv.
      rewrite (Hc ctx ctx' cur cur')
        by (first [eapply Forall2_irel_incl; [|exact F]; intros x Hx; apply cols_case_c; exact Hx
                  |eapply irel_incl; [|exact C]; intros x Hx; apply cols_case_c; exact Hx]).
      rewrite (Hv ctx ctx' cur cur')
        by (first [eapply Forall2_irel_incl; [|exact F]; intros x Hx; apply cols_case_v; exact Hx
                  |eapply irel_incl; [|exact C]; intros x Hx; apply cols_case_v; exact Hx]).
      rewrite (IH Hrest); [reflexivity| |].
      * eapply Forall2_irel_incl; [|exact F]. intros x Hx. apply cols_case_rest. exact Hx.
      * eapply irel_incl; [|exact C]. intros x Hx. apply cols_case_rest. exact Hx.
  - intros o args hp part arr IHa IHp IHr ctx ctx' cur cur' F C.
    set (X := cols (EFn o args hp part arr)) in *.
    (* arguments, partition columns and keys evaluate equally at related rows *)
    assert (Eargs : forall r r' a, irel X r r' -> In a args -> eval ctx r a = eval ctx' r' a).
    { intros r r' a Hr Ha. rewrite Forall_forall in IHa. apply (IHa a Ha).
      - eapply Forall2_irel_incl; [|exact F]. intros x Hx. apply cols_fn_args. apply (in_flat_map_cols args a x Ha Hx).
      - eapply irel_incl; [|exact Hr]. intros x Hx. apply cols_fn_args. apply (in_flat_map_cols args a x Ha Hx). }
    assert (Epart : forall r r', irel X r r' -> evs_fix ctx r part = evs_fix ctx' r' part).
    { intros r r' Hr. unfold evs_fix. rewrite !evs_map. apply map_ext_in. intros a Ha. rewrite Forall_forall in IHp. apply (IHp a Ha).
      - eapply Forall2_irel_incl; [|exact F]. intros x Hx. apply cols_fn_part. apply (in_flat_map_cols part a x Ha Hx).
      - eapply irel_incl; [|exact Hr]. intros x Hx. apply cols_fn_part. apply (in_flat_map_cols part a x Ha Hx). }
    assert (Ekeys : forall r r', irel X r r' -> keys_fix ctx arr r = keys_fix ctx' arr r').
    { intros r r' Hr. unfold keys_fix. rewrite !keys_map. apply map_ext_in. intros [a m] Ha. simpl.
      rewrite Forall_forall in IHr. apply (IHr (a, m) Ha).
      - eapply Forall2_irel_incl; [|exact F]. intros x Hx. apply cols_fn_arr. apply in_flat_map. exists (a, m). split; [exact Ha|exact Hx].
      - eapply irel_incl; [|exact Hr]. intros x Hx. apply cols_fn_arr. apply in_flat_map. exists (a, m). split; [exact Ha|exact Hx]. }
    destruct (op_kind o) eqn:K.
    + rewrite !eval_elem_fn by exact K. f_equal. apply map_ext_in. intros a Ha. apply Eargs; assumption.
    + rewrite !eval_win_fn by (rewrite K; discriminate).
      apply (win_core_rel o args (map snd arr) _ _ _ _ cur cur' _ _ (irel X)); try assumption.
      * intros r r' [E _]. exact E.
      * destruct hp; [|exact F]. apply Forall2_filter; [exact F|]. intros r r' Hr.
        rewrite (Epart r r' Hr), (Epart cur cur' C). reflexivity.
    + rewrite !eval_win_fn by (rewrite K; discriminate).
      apply (win_core_rel o args (map snd arr) _ _ _ _ cur cur' _ _ (irel X)); try assumption.
      * intros r r' [E _]. exact E.
      * destruct hp; [|exact F]. apply Forall2_filter; [exact F|]. intros r r' Hr.
        rewrite (Epart r r' Hr), (Epart cur cur' C). reflexivity.
Qed.

(* ---------- inlining of definitions (what compile_col_expr does with sqa_expr) ----------
   [b] is a FROM row, [r] the reference row at the same position; every column the expression mentions
   has, as the value of its inlined definition at [b] (evaluated in the FROM context), the value the
   reference row holds.  Then the inlined expression in the FROM context has the value of the original
   expression in the reference context - for EVERY expression form, window functions included. *)
Definition srel (ds : sdefs) (ctxB : list irow) (X : list uid) (b r : irow) : Prop :=
  fst b = fst r /\ forall x, In x X -> eval ctxB b (def_of ds x) = get (snd r) x.

Lemma srel_incl ds ctxB X Y b r : (forall x, In x Y -> In x X) -> srel ds ctxB X b r -> srel ds ctxB Y b r.
Proof. intros H [E G]. split; [exact E|]. intros x Hx. apply G. apply H. exact Hx. Qed.
Lemma Forall2_srel_incl ds ctxB X Y l l' :
  (forall x, In x Y -> In x X) -> Forall2 (srel ds ctxB X) l l' -> Forall2 (srel ds ctxB Y) l l'.
Proof. intros H. apply Forall2_impl'. intros a b. apply srel_incl. exact H. Qed.

Lemma win_core_map_args (f : expr -> expr) o args ms keys (ev : irow -> expr -> value) cur P :
  win_core o (map f args) ms keys ev cur P = win_core o args ms keys (fun r a => ev r (f a)) cur P.
Proof.
  unfold win_core. destruct (op_kind o); [reflexivity| |].
  - destruct args; reflexivity.
  - destruct (_ && _); [reflexivity|]. destruct o; try reflexivity.
    + destruct args as [|x [|n [|fl rest]]]; reflexivity.
    + destruct args; reflexivity.
Qed.

Theorem subst_rel : forall e ds ctxB ctxR curB curR,
  Forall2 (srel ds ctxB (cols e)) ctxB ctxR -> srel ds ctxB (cols e) curB curR ->
  eval ctxB curB (subst ds e) = eval ctxR curR e.
Proof.
  apply (expr_ind2 (fun e => forall ds ctxB ctxR curB curR,
    Forall2 (srel ds ctxB (cols e)) ctxB ctxR -> srel ds ctxB (cols e) curB curR ->
    eval ctxB curB (subst ds e) = eval ctxR curR e)).
  - intros u ds ctxB ctxR curB curR _ [_ H]. cbn [subst]. simpl. apply H. left. reflexivity.
  - reflexivity.
  - intros e t IH ds ctxB ctxR curB curR F C. cbn [subst]. simpl in *. rewrite (IH ds ctxB ctxR curB curR F C). reflexivity.
  - intros cs d IHcs IHd ds ctxB ctxR curB curR F C. cbn [subst]. rewrite !eval_case.
    induction cs as [|[c v] cs IH]; simpl.
    + destruct d as [x|]; [|reflexivity]. apply IHd; simpl in F, C; assumption.
    + inversion IHcs as [|? ? [Hc Hv] Hrest]; subst. simpl in Hc, Hv.
      rewrite (Hc ds ctxB ctxR curB curR)
        by (first [eapply Forall2_srel_incl; [|exact F]; intros x Hx; apply cols_case_c; exact Hx
                  |eapply srel_incl; [|exact C]; intros x Hx; apply cols_case_c; exact Hx]).
      rewrite (Hv ds ctxB ctxR curB curR)
        by (first [eapply Forall2_srel_incl; [|exact F]; intros x Hx; apply cols_case_v; exact Hx
                  |eapply srel_incl; [|exact C]; intros x Hx; apply cols_case_v; exact Hx]).
      rewrite (IH Hrest); [reflexivity| |].
      * eapply Forall2_srel_incl; [|exact F]. intros x Hx. apply cols_case_rest. exact Hx.
      * eapply srel_incl; [|exact C]. intros x Hx. apply cols_case_rest. exact Hx.
  - intros o args hp part arr IHa IHp IHr ds ctxB ctxR curB curR F C.
    set (X := cols (EFn o args hp part arr)) in *.
    assert (Eargs : forall b r a, srel ds ctxB X b r -> In a args -> eval ctxB b (subst ds a) = eval ctxR r a).
    { intros b r a Hr Ha. rewrite Forall_forall in IHa. apply (IHa a Ha).
      - eapply Forall2_srel_incl; [|exact F]. intros x Hx. apply cols_fn_args. apply (in_flat_map_cols args a x Ha Hx).
      - eapply srel_incl; [|exact Hr]. intros x Hx. apply cols_fn_args. apply (in_flat_map_cols args a x Ha Hx). }
    assert (Epart : forall b r, srel ds ctxB X b r -> evs_fix ctxB b (map (subst ds) part) = evs_fix ctxR r part).
    { intros b r Hr. unfold evs_fix. rewrite !evs_map, map_map. apply map_ext_in. intros a Ha.
      rewrite Forall_forall in IHp. apply (IHp a Ha).
      - eapply Forall2_srel_incl; [|exact F]. intros x Hx. apply cols_fn_part. apply (in_flat_map_cols part a x Ha Hx).
      - eapply srel_incl; [|exact Hr]. intros x Hx. apply cols_fn_part. apply (in_flat_map_cols part a x Ha Hx). }
    assert (Ekeys : forall b r, srel ds ctxB X b r ->
                    keys_fix ctxB (map (fun ka => (subst ds (fst ka), snd ka)) arr) b = keys_fix ctxR arr r).
    { intros b r Hr. unfold keys_fix. rewrite !keys_map, map_map. apply map_ext_in. intros [a m] Ha. simpl.
      rewrite Forall_forall in IHr. apply (IHr (a, m) Ha).
      - eapply Forall2_srel_incl; [|exact F]. intros x Hx. apply cols_fn_arr. apply in_flat_map. exists (a, m). split; [exact Ha|exact Hx].
      - eapply srel_incl; [|exact Hr]. intros x Hx. apply cols_fn_arr. apply in_flat_map. exists (a, m). split; [exact Ha|exact Hx]. }
    cbn [subst].
    destruct (op_kind o) eqn:K.
    + rewrite !eval_elem_fn by exact K. f_equal. rewrite map_map. apply map_ext_in. intros a Ha. apply Eargs; assumption.
    + rewrite !eval_win_fn by (rewrite K; discriminate). rewrite win_core_map_args, map_map. cbn [snd].
      apply (win_core_rel o args (map snd arr) _ _ _ _ curB curR _ _ (srel ds ctxB X)); try assumption.
      * intros r r' [E _]. exact E.
      * destruct hp; [|exact F]. apply Forall2_filter; [exact F|]. intros r r' Hr.
        rewrite (Epart r r' Hr), (Epart curB curR C). reflexivity.
    + rewrite !eval_win_fn by (rewrite K; discriminate). rewrite win_core_map_args, map_map. cbn [snd].
      apply (win_core_rel o args (map snd arr) _ _ _ _ curB curR _ _ (srel ds ctxB X)); try assumption.
      * intros r r' [E _]. exact E.
      * destruct hp; [|exact F]. apply Forall2_filter; [exact F|]. intros r r' Hr.
        rewrite (Epart r r' Hr), (Epart curB curR C). reflexivity.
Qed.
