(* Proofs/LcaLemmas.v — lca_type with List types (Model/Lca.v): the List rule for any arity and nesting depth, and
   order independence / absence of internal errors over the finite universe LU (pairs) and LU3 (triples), decided
   in the kernel on the conversion table generated from /repo. *)
From Coq Require Import List String NArith ZArith Bool.
From PDT Require Import Model.Dtype Model.Conv Model.Typing Model.Universe Model.Lca.
Import ListNotations.
Open Scope list_scope.

Lemma nonnull_lists ts :
  filter (fun t => negb (is_nulltype t)) (map without_const (map TList ts)) = map TList ts.
Proof. induction ts as [|t ts IH]; [reflexivity|]. cbn. f_equal. exact IH. Qed.

Lemma forallb_is_list ts : forallb is_list (map TList ts) = true.
Proof. induction ts as [|t ts IH]; [reflexivity|exact IH]. Qed.

Lemma inner_lists ts : map list_inner (map TList ts) = ts.
Proof. induction ts as [|t ts IH]; [reflexivity|]. cbn. f_equal. exact IH. Qed.

(* the List rule, any number of arguments, any element types: the least common ancestor of List types is the
   List of the element types' least common ancestor; an error of the elements is the error of the lists *)
Theorem lca_of_lists_proof f t ts :
  lca_l (S f) (map TList (t :: ts)) = tbind (lca_l f (t :: ts)) (fun x => TOk (TList x)).
Proof.
  cbn [lca_l]. rewrite nonnull_lists. rewrite forallb_is_list, inner_lists.
  reflexivity.
Qed.

(* a List type together with a non-null non-List type is refused with DataTypeError, in either order *)
Theorem lca_list_with_scalar_proof f a b :
  is_list (without_const b) = false -> is_nulltype (without_const b) = false ->
  lca_l f [TList a; b] = TErr EDataType /\ lca_l f [b; TList a] = TErr EDataType.
Proof.
  intros L N. split; destruct f; cbn; rewrite N; cbn; rewrite L; reflexivity.
Qed.

Definition LU3 : list dtype :=
  [TS SUInt8; TS SInt16; TS SInt64; TS SInt; TS SFloat32; TS SFloat; TDec 10 2; TStr None; TStr (Some 5%N);
   TEnum ["a"%string; "bcd"%string]; TS SBool; TS SNull;
   TList (TS SUInt8); TList (TS SInt16); TList (TS SFloat64); TList (TStr (Some 5%N)); TList (TS SNull);
   TList (TList (TS SUInt8)); TList (TList (TS SInt16)); TList (TList (TStr (Some 20%N)));
   TConst (TList (TS SInt64))].

Definition pairs_ok : bool :=
  forallb (fun a => forallb (fun b =>
     tres_dtype_eqb (lca_l 3 [a; b]) (lca_l 3 [b; a]) && not_internal (lca_l 3 [a; b])) LU) LU.
Definition triples_ok : bool :=
  forallb (fun a => forallb (fun b => forallb (fun c =>
     tres_dtype_eqb (lca_l 3 [a; b; c]) (lca_l 3 [b; a; c])
     && tres_dtype_eqb (lca_l 3 [a; b; c]) (lca_l 3 [c; a; b])
     && not_internal (lca_l 3 [a; b; c])) LU3) LU3) LU3.

Lemma pairs_ok_true : pairs_ok = true.  Proof. vm_compute. reflexivity. Qed.
Lemma triples_ok_true : triples_ok = true.  Proof. vm_compute. reflexivity. Qed.

Theorem lca_pairs_proof a b : In a LU -> In b LU ->
  tres_dtype_eqb (lca_l 3 [a; b]) (lca_l 3 [b; a]) = true /\ not_internal (lca_l 3 [a; b]) = true.
Proof.
  intros Ha Hb. pose proof pairs_ok_true as H. unfold pairs_ok in H.
  rewrite forallb_forall in H. specialize (H a Ha). rewrite forallb_forall in H. specialize (H b Hb).
  apply andb_true_iff in H. exact H.
Qed.

Theorem lca_triples_proof a b c : In a LU3 -> In b LU3 -> In c LU3 ->
  tres_dtype_eqb (lca_l 3 [a; b; c]) (lca_l 3 [b; a; c]) = true
  /\ tres_dtype_eqb (lca_l 3 [a; b; c]) (lca_l 3 [c; a; b]) = true
  /\ not_internal (lca_l 3 [a; b; c]) = true.
Proof.
  intros Ha Hb Hc. pose proof triples_ok_true as H. unfold triples_ok in H.
  rewrite forallb_forall in H. specialize (H a Ha). rewrite forallb_forall in H. specialize (H b Hb).
  rewrite forallb_forall in H. specialize (H c Hc).
  apply andb_true_iff in H. destruct H as [H H3]. apply andb_true_iff in H. destruct H as [H1 H2].
  auto.
Qed.
