(* Proofs/Overload.v — C13: overload resolution does not depend on the order in which the
   signatures of an operator are declared / stored (unbounded: any signature list, any argument
   tuple, any conversion table). *)
From Coq Require Import List String NArith ZArith Bool Lia Permutation.
From PDT Require Import Model.Dtype Model.Conv Model.Signature.
Import ListNotations.

(* ---- costs form a strict total order ---- *)

Lemma cost_lt_irrefl a : cost_lt a a = false.
Proof.
  unfold cost_lt. rewrite N.ltb_irrefl, N.eqb_refl. simpl. apply N.ltb_irrefl.
Qed.

Lemma cost_lt_spec a b :
  cost_lt a b = true <->
  (fst a < fst b \/ (fst a = fst b /\ snd a < snd b))%N.
Proof.
  unfold cost_lt. rewrite orb_true_iff, andb_true_iff, !N.ltb_lt, N.eqb_eq. tauto.
Qed.

Lemma cost_eqb_spec a b : cost_eqb a b = true <-> a = b.
Proof.
  unfold cost_eqb. rewrite andb_true_iff, !N.eqb_eq. destruct a, b; simpl.
  split; [intros [-> ->]; reflexivity | intros H; inversion H; auto].
Qed.

Lemma cost_lt_trans a b c : cost_lt a b = true -> cost_lt b c = true -> cost_lt a c = true.
Proof. rewrite !cost_lt_spec. lia. Qed.

Lemma cost_not_lt_antisym a b : cost_lt a b = false -> cost_lt b a = false -> a = b.
Proof.
  intros H1 H2.
  assert (N1 : ~ (fst a < fst b \/ (fst a = fst b /\ snd a < snd b))%N)
    by (rewrite <- cost_lt_spec; congruence).
  assert (N2 : ~ (fst b < fst a \/ (fst b = fst a /\ snd b < snd a))%N)
    by (rewrite <- cost_lt_spec; congruence).
  destruct a, b; simpl in *. f_equal; lia.
Qed.

Lemma cost_not_lt_trans a b c : cost_lt b a = false -> cost_lt c b = false -> cost_lt c a = false.
Proof.
  intros H1 H2.
  destruct (cost_lt c a) eqn:E; [|reflexivity].
  assert (N1 : ~ (fst b < fst a \/ (fst b = fst a /\ snd b < snd a))%N)
    by (rewrite <- cost_lt_spec; congruence).
  assert (N2 : ~ (fst c < fst b \/ (fst c = fst b /\ snd c < snd b))%N)
    by (rewrite <- cost_lt_spec; congruence).
  apply cost_lt_spec in E. lia.
Qed.

(* ---- the choice among matches depends only on the multiset of matches ---- *)

Section Choice.
Variable M : Type.
Variable d : M -> cost.

Definition pick (m0 : M) (rest : list M) : M :=
  fold_left (fun b m => if cost_lt (d m) (d b) then m else b) rest m0.

Definition is_min (b : M) (l : list M) : Prop :=
  In b l /\ forall m, In m l -> cost_lt (d m) (d b) = false.

Lemma pick_min : forall rest m0, is_min (pick m0 rest) (m0 :: rest).
Proof.
  induction rest as [|x rest IH]; intros m0.
  - split; [left; reflexivity|]. intros m [<-|[]]. apply cost_lt_irrefl.
  - unfold pick. cbn [fold_left]. fold (pick (if cost_lt (d x) (d m0) then x else m0) rest).
    destruct (cost_lt (d x) (d m0)) eqn:E.
    + destruct (IH x) as [Hin Hmin]. split.
      * destruct Hin as [<-|Hin]; [right; left; reflexivity | right; right; exact Hin].
      * intros m [<-|[<-|Hm]].
        -- (* m0: d x < d m0, and pick is <= x *)
           apply cost_not_lt_trans with (b := d x).
           ++ apply Hmin. left; reflexivity.
           ++ destruct (cost_lt (d m0) (d x)) eqn:E2; [|reflexivity].
              pose proof (cost_lt_trans _ _ _ E E2) as C. rewrite cost_lt_irrefl in C. discriminate.
        -- apply Hmin. left; reflexivity.
        -- apply Hmin. right; exact Hm.
    + destruct (IH m0) as [Hin Hmin]. split.
      * destruct Hin as [<-|Hin]; [left; reflexivity | right; right; exact Hin].
      * intros m [<-|[<-|Hm]].
        -- apply Hmin. left; reflexivity.
        -- apply cost_not_lt_trans with (b := d m0).
           ++ apply Hmin. left; reflexivity.
           ++ exact E.
        -- apply Hmin. right; exact Hm.
Qed.

Lemma is_min_perm b l l' : Permutation l l' -> is_min b l -> is_min b l'.
Proof.
  intros P [Hin Hmin]. split.
  - eapply Permutation_in; eauto.
  - intros m Hm. apply Hmin. eapply Permutation_in; [apply Permutation_sym; exact P | exact Hm].
Qed.

Lemma is_min_same_cost b b' l : is_min b l -> is_min b' l -> d b = d b'.
Proof.
  intros [Hin Hmin] [Hin' Hmin']. apply cost_not_lt_antisym; auto.
Qed.

Definition ties (b : M) (l : list M) : nat :=
  List.length (filter (fun m => cost_eqb (d b) (d m)) l).

Lemma filter_perm_length (p : M -> bool) l l' :
  Permutation l l' -> List.length (filter p l) = List.length (filter p l').
Proof.
  induction 1 as [|x l l' P IH|x y l|l l' l'' P1 IH1 P2 IH2]; simpl.
  - reflexivity.
  - destruct (p x); simpl; congruence.
  - destruct (p x), (p y); reflexivity.
  - congruence.
Qed.

Lemma ties_perm b b' l l' : Permutation l l' -> d b = d b' -> ties b l = ties b' l'.
Proof.
  intros P E. unfold ties. rewrite E. apply filter_perm_length. exact P.
Qed.

Lemma singleton_filter_unique (p : M -> bool) l x y :
  List.length (filter p l) = 1 -> In x l -> p x = true -> In y l -> p y = true -> x = y.
Proof.
  intros L Hx Px Hy Py.
  assert (Fx : In x (filter p l)) by (apply filter_In; auto).
  assert (Fy : In y (filter p l)) by (apply filter_In; auto).
  destruct (filter p l) as [|a [|b t]]; simpl in L; try discriminate.
  destruct Fx as [<-|[]], Fy as [<-|[]]. reflexivity.
Qed.

Lemma unique_min_same b b' l :
  is_min b l -> is_min b' l -> ties b l = 1 -> b = b'.
Proof.
  intros Hb Hb' T.
  pose proof (is_min_same_cost _ _ _ Hb Hb') as E.
  unfold ties in T.
  eapply singleton_filter_unique; eauto.
  - apply Hb.
  - apply cost_eqb_spec. reflexivity.
  - apply Hb'.
  - apply cost_eqb_spec. exact E.
Qed.

End Choice.

(* ---- forallb is invariant under permutation ---- *)
Lemma forallb_perm {A} (p : A -> bool) l l' : Permutation l l' -> forallb p l = forallb p l'.
Proof.
  induction 1 as [|x l l' P IH|x y l|l l' l'' P1 IH1 P2 IH2]; simpl.
  - reflexivity.
  - rewrite IH. reflexivity.
  - destruct (p x), (p y); reflexivity.
  - congruence.
Qed.

Section Resolution.
Variable tbl : conv_table_t.
Variable fs : list dtype.

Definition choose (args : list dtype) (ms : list (list dtype * option dtype)) : resolution :=
  match ms with
  | [] => NoMatch
  | m0 :: rest =>
      if negb (forallb (dist_defined tbl args) ms) then Internal else
      let best := pick_best tbl args m0 rest in
      if Nat.eqb (count_ties tbl args best ms) 1
      then match snd best with Some r => Unique (fst best) r | None => Internal end
      else Ambiguous
  end.

Lemma best_match_choose sigs args :
  best_match tbl fs sigs args = choose args (all_matches tbl fs sigs args).
Proof. reflexivity. Qed.

Lemma choose_perm args ms ms' : Permutation ms ms' -> choose args ms = choose args ms'.
Proof.
  intros P.
  destruct ms as [|m0 rest].
  - apply Permutation_nil in P. subst. reflexivity.
  - destruct ms' as [|m0' rest'].
    + apply Permutation_sym, Permutation_nil in P. discriminate.
    + unfold choose.
      rewrite (forallb_perm _ _ _ P).
      destruct (negb (forallb (dist_defined tbl args) (m0' :: rest'))); [reflexivity|].
      set (dd := dist tbl args).
      pose proof (pick_min _ dd rest m0) as Hb.
      pose proof (pick_min _ dd rest' m0') as Hb'.
      change (pick _ dd m0 rest) with (pick_best tbl args m0 rest) in Hb.
      change (pick _ dd m0' rest') with (pick_best tbl args m0' rest') in Hb'.
      set (b := pick_best tbl args m0 rest) in *.
      set (b' := pick_best tbl args m0' rest') in *.
      pose proof (is_min_perm _ dd _ _ _ P Hb) as Hb2.
      pose proof (is_min_same_cost _ dd _ _ _ Hb2 Hb') as E.
      assert (T : count_ties tbl args b (m0 :: rest) = count_ties tbl args b' (m0' :: rest')).
      { apply (ties_perm _ dd); assumption. }
      rewrite T.
      destruct (Nat.eqb (count_ties tbl args b' (m0' :: rest')) 1) eqn:C; [|reflexivity].
      apply PeanoNat.Nat.eqb_eq in C.
      assert (b = b').
      { apply (unique_min_same _ dd b b' (m0' :: rest')); auto.
        rewrite <- C. apply (ties_perm _ dd); [apply Permutation_refl|]. exact E. }
      subst b'. rewrite <- H. reflexivity.
Qed.

Lemma all_matches_perm sigs sigs' args :
  Permutation sigs sigs' ->
  Permutation (all_matches tbl fs sigs args) (all_matches tbl fs sigs' args).
Proof. intros P. unfold all_matches. apply Permutation_flat_map. exact P. Qed.

(* C13: declaration order / hash order of the overloads is irrelevant. *)
Theorem resolution_perm_proof sigs sigs' args :
  Permutation sigs sigs' -> best_match tbl fs sigs args = best_match tbl fs sigs' args.
Proof.
  intros P. rewrite !best_match_choose. apply choose_perm. apply all_matches_perm. exact P.
Qed.

(* A resolution that is Unique picked a candidate produced by one of the signatures, and every
   other candidate is strictly worse: "exactly one overload". *)
Lemma unique_is_strict_min sigs args ps r :
  best_match tbl fs sigs args = Unique ps r ->
  In (ps, Some r) (all_matches tbl fs sigs args) /\
  forall m, In m (all_matches tbl fs sigs args) -> m <> (ps, Some r) ->
            cost_lt (dist tbl args (ps, Some r)) (dist tbl args m) = true.
Proof.
  rewrite best_match_choose. unfold choose.
  destruct (all_matches tbl fs sigs args) as [|m0 rest] eqn:EM; [discriminate|].
  destruct (negb (forallb (dist_defined tbl args) (m0 :: rest))); [discriminate|].
  set (dd := dist tbl args).
  pose proof (pick_min _ dd rest m0) as Hb.
  change (pick _ dd m0 rest) with (pick_best tbl args m0 rest) in Hb.
  set (b := pick_best tbl args m0 rest) in *.
  destruct (Nat.eqb (count_ties tbl args b (m0 :: rest)) 1) eqn:C; [|discriminate].
  destruct (snd b) as [r'|] eqn:Sb; [|discriminate].
  intros H. inversion H; subst ps r'. clear H.
  assert (Eb : b = (fst b, Some r)) by (destruct b; simpl in *; congruence).
  rewrite <- Eb. split; [apply Hb|].
  intros m Hm Hne.
  destruct (cost_lt (dd b) (dd m)) eqn:L; [reflexivity|exfalso].
  destruct Hb as [Hin Hmin].
  assert (E : dd b = dd m) by (apply cost_not_lt_antisym; auto).
  apply PeanoNat.Nat.eqb_eq in C.
  apply Hne. symmetry.
  eapply singleton_filter_unique with (p := fun m => cost_eqb (dd b) (dd m)); eauto.
  - apply cost_eqb_spec. reflexivity.
  - apply cost_eqb_spec. exact E.
Qed.

End Resolution.
