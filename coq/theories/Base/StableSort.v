(* Base/StableSort.v — insertion sort as the executable meaning of "stable sort"; the lemmas every
   order-related theorem uses live in Proofs/SortLemmas.v. *)
From Coq Require Import List Bool.
Import ListNotations.

Section Sort.
Context {A : Type}.
Variable le : A -> A -> bool.       (* total preorder: le x y = true iff x sorts no later than y *)

(* insert x after all elements that are <= x ... no: stable insertion into a sorted list puts x
   BEFORE the first element strictly greater than x, i.e. after every y with le y x. *)
Fixpoint ins (x : A) (l : list A) : list A :=
  match l with
  | [] => [x]
  | y :: l' => if le x y then x :: y :: l' else y :: ins x l'
  end.

(* ssort processes from the right so that equal elements keep their input order:
   ssort (x :: l) = ins x (ssort l), and ins places x before every y with le x y. *)
Fixpoint ssort (l : list A) : list A :=
  match l with
  | [] => []
  | x :: l' => ins x (ssort l')
  end.

Fixpoint sorted (l : list A) : Prop :=
  match l with
  | [] => True
  | x :: l' => (forall y, In y l' -> le x y = true) /\ sorted l'
  end.
End Sort.

Definition le_of_cmp {A} (cmp : A -> A -> comparison) (x y : A) : bool :=
  match cmp x y with Gt => false | _ => true end.
