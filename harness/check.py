"""./check Cxx --tier quick|thorough [--replay path]   |   ./check --setup   |   ./check --audit

Protocol (DESIGN 2.3): regenerate coq/generated from /repo, rebuild the dependency cone of
Properties/Cxx.v, run corpus + correspondence + property oracle through the property's driver,
turn a broken proof / correspondence into a search for a failing input, filter known findings,
write evidence/Cxx.json, print VIOLATION / KNOWN-FINDING lines, exit 0/1."""
from __future__ import annotations

import argparse
import importlib
import json
import os
import re
import sys
import time
import traceback

sys.path.insert(0, os.path.dirname(os.path.abspath(__file__)))

import common  # noqa: E402
import translate  # noqa: E402
from common import COQ, VERIF, log  # noqa: E402

PROPS = [f"C{i:02d}" for i in range(1, 21)]

TRUSTED_BASE_COMMON = [
    "Coq 8.16.1 kernel incl. vm_compute (no native_compute)",
    "harness/translate.py (reads the running package, fail-closed) and harness/ser.py (Gallina printer)",
    "no axioms declared by the development; no extraction",
]


class Ctx:
    def __init__(self, prop, tier, seed, replay):
        self.prop, self.tier, self.seed, self.replay = prop, tier, seed, replay
        self.t0 = time.time()
        self.build_ok = True
        self.build_msg = ""
        self.failed_file = None
        self.gen_status = {}
        self.theorems = []
        self.assumptions = {"closed": 0, "axioms": []}


class Result:
    """What a driver returns."""

    def __init__(self):
        self.violations = []   # list of dict(payload=..., found_input=bool, what=str)
        self.known = []        # list of str (KNOWN-FINDING lines, one per listed finding hit)
        self.coverage = {}     # measured coverage keys for the evidence
        self.assumptions = []  # extra assumptions strings
        self.traces = 0        # traces validated against impl


def theorem_names(prop):
    p = COQ / "theories" / "Properties" / f"{prop}.v"
    if not p.exists():
        return []
    return re.findall(r"^(?:Theorem|Corollary)\s+(\S+)", p.read_text(), flags=re.M)


def print_assumptions(prop, names):
    """Re-ask the kernel for the assumptions of every property theorem (works on a warm build)."""
    if not names:
        return {"closed": 0, "axioms": [], "raw": ""}
    d = common.CASES
    d.mkdir(parents=True, exist_ok=True)
    f = d / f"assumptions_{prop}.v"
    f.write_text(f"From PDT Require Import Properties.{prop}.\n" +
                 "".join(f"Print Assumptions {n}.\n" for n in names))
    p = common.coqc_file(f, timeout=600)
    out = p.stdout + p.stderr
    res = common.parse_assumptions(out)
    res["raw"] = out[-2000:] if p.returncode != 0 else ""
    res["ok"] = p.returncode == 0
    return res


def clean_cases(prop):
    """remove the correspondence case files of earlier runs of this property (they are rewritten by every run)"""
    import glob as _g
    pre = prop.lower()
    for f in _g.glob(str(common.CASES / f"{pre}_*")) + _g.glob(str(common.CASES / f"{pre}.*")) \
            + _g.glob(str(common.CASES / f"assumptions_{prop}.*")) + _g.glob(str(common.CASES / "*.glob")):
        try:
            os.remove(f)
        except OSError:
            pass


def needed_generated(targets):
    """the generated files in the import cone of the given .vo targets (a translator that fails on a file no theorem
    of this property depends on does not break this property's tie), plus Catalogue.v, which the case files import"""
    need, seen = {"Catalogue.v"}, set()
    todo = [COQ / t[:-1] for t in targets]           # x.vo -> x.v
    while todo:
        f = todo.pop()
        if f in seen or not f.exists():
            continue
        seen.add(f)
        txt = re.sub(r"\(\*.*?\*\)", "", f.read_text(), flags=re.S)
        for m in re.finditer(r"From\s+(PDT|PDTGen)\s+Require\s+(?:Import|Export)\s+(.*?)\.\s", txt, flags=re.S):
            for mod in m.group(2).split():
                if m.group(1) == "PDTGen":
                    need.add(mod + ".v")
                    todo.append(COQ / "generated" / (mod + ".v"))
                else:
                    todo.append(COQ / "theories" / (mod.replace(".", "/") + ".v"))
    return need


def build(ctx, targets):
    with common.build_lock():
        ctx.gen_status = translate.regenerate()
        need = needed_generated(targets)
        bad = {k: v for k, v in ctx.gen_status.items() if v not in ("ok", "changed") and k in need}
        if bad:
            ctx.build_ok = False
            ctx.build_msg = "translator failed: " + json.dumps(bad)
            ctx.failed_file = "generated/" + next(iter(bad))
            return
        r = common.coq_make(targets)
        ctx.build_ok = r.ok
        ctx.build_msg = r.out[-4000:] if not r.ok else ""
        ctx.failed_file = r.failed_file
        ctx.build_wall = r.wall
        # the correspondence case files import Model/*.vo (definitions only), also modules outside the cone of
        # this property's theorems: after a change of /repo that alters a generated file they must be rebuilt as
        # well, or coqc rejects the cases with "inconsistent assumptions" (a stale .vo, not a property failure)
        import glob
        support = sorted(x[len(str(common.COQ)) + 1:-2] + ".vo" for x in glob.glob(str(common.COQ / "theories" / "Model" / "*.v")))
        support += ["theories/Proofs/CacheLemmas.vo"]
        common.coq_make(support)


def setup():
    t0 = time.time()
    with common.build_lock():
        st = translate.regenerate()
        log("generated:", st)
        bad = {k: v for k, v in st.items() if v not in ("ok", "changed")}
        if bad:
            print("setup: translator failed", bad)
            return 1
        r = common.coq_make([])
        if not r.ok:
            print(r.out[-6000:])
            print("setup: make failed")
            return 1
    print(f"setup ok in {time.time() - t0:.0f}s")
    return 0


def audit():
    """Mechanical rules of the development (DESIGN 2.1)."""
    bad = []
    pat = re.compile(r"\b(Admitted|admit|Axiom|Parameter|Conjecture|Unset Guard|bypass_check|"
                     r"Admit Obligations|type-in-type|impredicative-set)\b")
    for p in sorted((COQ / "theories").rglob("*.v")):
        txt = re.sub(r"\(\*.*?\*\)", "", p.read_text(), flags=re.S)
        for i, line in enumerate(txt.splitlines(), 1):
            if pat.search(line):
                bad.append(f"{p.relative_to(COQ)}:{i}: {line.strip()}")
        if p.parent.name == "Model" and re.search(r"^\s*(Lemma|Theorem|Proof)\b", txt, flags=re.M):
            # Model files may contain the tiny spec lemmas of boolean checkers only
            if p.name not in ("OverloadChecks.v",):
                bad.append(f"{p.relative_to(COQ)}: proofs in a Model file")
    for b in bad:
        print("AUDIT:", b)
    print("audit:", "FAILED" if bad else "ok")
    return 1 if bad else 0


def main():
    ap = argparse.ArgumentParser()
    ap.add_argument("prop", nargs="?")
    ap.add_argument("--tier", default=os.environ.get("VERIF_TIER", "quick"), choices=["quick", "thorough"])
    ap.add_argument("--replay")
    ap.add_argument("--setup", action="store_true")
    ap.add_argument("--audit", action="store_true")
    a = ap.parse_args()
    if a.setup:
        return setup()
    if a.audit:
        return audit()
    if a.prop not in PROPS:
        print("usage: ./check Cxx --tier quick|thorough [--replay path]")
        return 2
    prop = a.prop
    ctx = Ctx(prop, a.tier, common.seed(), a.replay)
    try:
        drv = importlib.import_module(f"props.{prop.lower()}")
    except ModuleNotFoundError:
        print(f"{prop}: no driver (property not claimed)")
        return 2

    # 1. regenerate + rebuild the cone of the property's theorems
    clean_cases(prop)
    build(ctx, [f"theories/Properties/{prop}.vo"] + [f"theories/{t}.vo" for t in getattr(drv, "EXTRA_TARGETS", [])])
    ctx.theorems = theorem_names(prop)
    if ctx.build_ok:
        ctx.assumptions = print_assumptions(prop, ctx.theorems)
        if not ctx.assumptions.get("ok", True):
            ctx.build_ok = False
            ctx.build_msg = "Print Assumptions failed:\n" + ctx.assumptions.get("raw", "")

    # 2-5. driver: corpus, correspondence, oracle, search
    res = Result()
    try:
        drv.run(ctx, res)
    except Exception:  # the harness itself broke: report as a broken tie, never silently pass
        tb = traceback.format_exc()
        log(tb)
        res.violations.append({"what": "harness/driver exception (tie to the code broken)",
                               "found_input": False, "payload": {"traceback": tb}})

    if not ctx.build_ok:
        # a broken proof obligation / translator: a violation unless the driver found concrete
        # failing inputs already (then those are the replays); otherwise no-failing-input-found
        if not any(v["found_input"] for v in res.violations):
            res.violations.append({
                "what": f"proof obligation no longer checks: {ctx.failed_file or 'build'}",
                "found_input": False,
                "payload": {"broken": ctx.failed_file, "build_output": ctx.build_msg,
                            "generated": ctx.gen_status, "theorems": ctx.theorems},
            })

    # 6. evidence
    wall = time.time() - ctx.t0
    n_obl = len(ctx.theorems)
    cov = {
        "obligations": max(n_obl, 1),
        "discharged": n_obl if ctx.build_ok else 0,
        "checker_cmd": f"cd /verif/coq && make theories/Properties/{prop}.vo  (coqc 8.16.1, full .vo); "
                       f"Print Assumptions re-run on every check",
        "trusted_base": TRUSTED_BASE_COMMON + list(getattr(drv, "TRUSTED_BASE", [])),
        "theorems": ctx.theorems,
        "print_assumptions": {"closed_under_global_context": ctx.assumptions.get("closed", 0),
                              "axioms": ctx.assumptions.get("axioms", []),
                              "kernel_primitives_used": ctx.assumptions.get("kernel_primitives", [])},
        "generated_files": ctx.gen_status,
        "traces_validated_against_impl": res.traces,
    }
    cov.update(res.coverage)
    if not ctx.build_ok:
        cov["discharged"] = 0 if n_obl == 0 else 0
    ev = {
        "property_id": prop, "tier": ctx.tier, "seed": ctx.seed, "level": "proof",
        "coverage": cov,
        "assumptions": list(getattr(drv, "ASSUMPTIONS", [])) + res.assumptions,
        "wall_s": round(wall, 2),
        "violations": len(res.violations),
    }
    if not ctx.build_ok:
        # schema wants discharged >= 1 for a proof-level file; an honest broken run falls back
        # to the generic keys
        cov.pop("obligations", None)
        cov.pop("discharged", None)
        cov.setdefault("evaluations", max(1, int(cov.get("evaluations", 1))))
        cov.setdefault("distinct_nontrivial", max(2, int(cov.get("distinct_nontrivial", 2))))
        cov["proof_broken"] = True
    common.write_evidence(prop, ev)

    for k in res.known:
        print(f"KNOWN-FINDING: property={prop} {k}")
    rc = 0
    for v in res.violations[:5]:
        path = common.write_replay(prop, {"property": prop, "what": v["what"], "seed": ctx.seed,
                                          "tier": ctx.tier, **v["payload"]})
        tail = "" if v["found_input"] else " no-failing-input-found"
        log(f"  {v['what']}")
        print(f"VIOLATION property={prop} replay={path}{tail}")
        rc = 1
    if rc == 0:
        print(f"{prop}: ok ({ctx.tier}, {wall:.0f}s, {len(ctx.theorems)} theorems, "
              f"{res.traces} traces validated)")
    return rc


if __name__ == "__main__":
    sys.exit(main())
