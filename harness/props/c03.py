"""C03 — Element-wise operators follow the documented null-aware semantics.
Theorems over the implementation trees re-read from the running backends (generated/OpImpls.v).
Correspondence: the operand grid — every modelled operator applied on Polars and SQLite to all
combinations of the grid values (nulls, zero, signs, equal operands, 2..5 arguments, column-column,
column-literal, literal-column and nested forms), compared with Model/Ops.ewise evaluated in Coq."""
import itertools
import random

import pipeprop

TRUSTED_BASE = [
    "translator gen_opimpls (Polars JSON / SQLAlchemy tree -> pl_expr / sql_expr), fail-closed on unknown nodes",
    "Model/ImplExpr.v: primitive semantics of the engines (Polars //, %, Kleene &|, max_horizontal ...; SQLite scalar MAX/MIN, /, %, COALESCE, IN) - validated by the operand grid, not proved",
]
ASSUMPTIONS = ["operand values of the grid (DESIGN 5.3); overflow / division by zero excluded (section 4)"]

G = [None, 0, 1, -1, 2, -2, 7, -7, 65, -65, 2 ** 31]
B3 = [None, True, False]
SG = ["a", "b", "ab", "", "a b", "ba", None, "b%", "a_"]
FG = [None, 0.0, 0.5, -0.5, 1.5, -2.25, 3.0, 0.125, -7.0]


def col(n):
    return ["col", "P@0", n]


def fn(o, *a):
    return ["fn", o, list(a)]


def table(cols, rows):
    rows = [[i + 1] + list(r) for i, r in enumerate(rows)]
    return {"t": {"cols": [["id", "Int64"]] + cols, "rows": rows, "shape": "grid"}}


def case(tables, defs):
    return {"tables": tables, "pipe": {"id": "P", "src": "t", "steps": [
        ["mutate", [[f"r{i}", e] for i, e in enumerate(defs)]],
        ["arrange", [["ord", col("id"), False, None]]]]}}


def grid_cases(seed, thorough):
    r = random.Random(seed)
    out = []
    x, y, z, w, v = (col(n) for n in "xyzwv")
    I = [["x", "Int64"], ["y", "Int64"]]
    xy = list(itertools.product(G, G))
    xy_nz = [(a, b) for a, b in xy if b != 0]
    # --- binary integer operators: column-column
    out.append(case(table(I, xy), [fn(o, x, y) for o in
        ("add", "sub", "mul", "equal", "not_equal", "less_than", "less_equal", "greater_than", "greater_equal")]))
    out.append(case(table(I, xy), [fn("horizontal_max", x, y), fn("horizontal_min", x, y), fn("horizontal_sum", x, y),
                                  fn("coalesce", x, y), fn("fill_null", x, y), fn("is_in", x, y), fn("is_in", x, y, x),
                                  fn("abs", x), fn("neg", x), fn("is_null", x), fn("is_not_null", y)]))
    out.append(case(table(I, xy_nz), [fn("floordiv", x, y), fn("mod", x, y)]))
    # --- column-literal / literal-column / nested
    for lit in (0, 1, -1, 7, -7, 2, -65):
        defs = [fn("add", x, ["lit", lit]), fn("sub", ["lit", lit], x), fn("mul", x, ["lit", lit]),
                fn("less_than", x, ["lit", lit]), fn("greater_equal", ["lit", lit], y), fn("equal", x, ["lit", lit]),
                fn("horizontal_max", x, ["lit", lit], y), fn("horizontal_min", ["lit", lit], x),
                fn("is_in", x, ["lit", lit], y), fn("fill_null", x, ["lit", lit]), fn("coalesce", x, y, ["lit", lit]),
                fn("add", fn("mul", x, ["lit", lit]), y), fn("horizontal_min", fn("add", x, y), ["lit", lit])]
        if lit != 0:
            defs += [fn("floordiv", x, ["lit", lit]), fn("mod", x, ["lit", lit]),
                     fn("floordiv", fn("add", x, y), ["lit", lit]), fn("mod", fn("sub", x, y), ["lit", lit])]
        if lit not in (0,):
            defs += [fn("clip", x, ["lit", min(lit, 2)], ["lit", max(lit, 2)])]
        out.append(case(table(I, xy), defs))
    for lit in (1, 7, -7, 65):
        out.append(case(table(I, xy_nz), [fn("floordiv", ["lit", lit], y), fn("mod", ["lit", lit], y),
                                         fn("floordiv", fn("mul", x, ["lit", lit]), y)]))
    # --- 3..5 arguments
    n5 = 700 if thorough else 220
    rows5 = [tuple(r.choice(G[:10]) if r.random() > 0.25 else None for _ in range(5)) for _ in range(n5)]
    rows5 += [(None,) * 5, (1, 1, 1, 1, 1), (5, 6, 1, 2, 3), (1, 2, 3, 4, 5), (5, 4, 3, 2, 1), (None, None, 3, None, 2)]
    I5 = [[n, "Int64"] for n in "xyzwv"]
    defs5 = []
    for o in ("horizontal_max", "horizontal_min", "horizontal_sum", "coalesce", "is_in"):
        defs5 += [fn(o, x, y, z), fn(o, x, y, z, w), fn(o, x, y, z, w, v), fn(o, v, w, x, y)]
    out.append(case(table(I5, rows5), defs5))
    out.append(case(table(I5, rows5), [fn("horizontal_max", fn("horizontal_min", x, y, z, w), v),
                                      fn("horizontal_min", x, fn("horizontal_max", y, z), w, v),
                                      fn("clip", fn("horizontal_sum", x, y), ["lit", -3], ["lit", 9])]))
    # --- booleans: three-valued logic
    Bc = [[n, "Bool"] for n in "pqr"]
    p, q, rr = (col(n) for n in "pqr")
    out.append(case(table(Bc, list(itertools.product(B3, B3, B3))),
                    [fn("bool_and", p, q), fn("bool_or", p, q), fn("bool_xor", p, q), fn("bool_invert", p),
                     fn("horizontal_any", p, q, rr), fn("horizontal_all", p, q, rr), fn("equal", p, q),
                     fn("bool_and", p, ["lit", True]), fn("bool_or", ["lit", False], q), fn("bool_xor", p, ["lit", True]),
                     fn("bool_or", fn("bool_and", p, q), fn("bool_invert", rr)), fn("is_null", p),
                     fn("coalesce", p, q, rr), fn("fill_null", p, ["lit", False]),
                     ["cast", p, "Int64"]]))
    # --- case expressions: first true branch, null without a match, null conditions
    out.append(case(table(Bc + I, [(a, b, c, d, e) for (a, b, c) in itertools.product(B3, B3, B3)
                                   for (d, e) in [(1, None), (None, 2), (3, 4)]]),
                    [["case", [[p, x]], None], ["case", [[p, x], [q, y]], None], ["case", [[p, x], [q, y]], ["lit", 0]],
                     ["case", [[fn("bool_and", p, q), ["lit", 1]], [rr, x]], y],
                     ["map", x, [[[["lit", 1]], ["lit", 10]], [[["lit", 3], ["lit", 7]], ["lit", 30]]], None],
                     ["map", x, [[[["lit", 1]], ["lit", "one"]]], ["lit", "other"]]]))
    # --- strings
    Sc = [["s", "String"], ["u", "String"]]
    s, u = col("s"), col("u")
    out.append(case(table(Sc, list(itertools.product(SG, SG))),
                    [fn("equal", s, u), fn("not_equal", s, u), fn("less_than", s, u), fn("greater_equal", s, u),
                     fn("add", s, u), fn("horizontal_max", s, u), fn("horizontal_min", s, u), fn("coalesce", s, u),
                     fn("str_len", s), fn("str_upper", s), fn("str_lower", u), fn("str_strip", s),
                     fn("is_in", s, ["lit", "a"], u), fn("fill_null", s, ["lit", "z"]),
                     fn("str_replace_all", s, ["lit", "a"], ["lit", "xx"]),
                     fn("str_starts_with", s, ["lit", "a"]), fn("str_ends_with", s, ["lit", "b"]),
                     fn("str_contains", s, ["lit", " "], ["lit", False], ["lit", False])]))
    # --- floats (exactly representable grid) and int/float mixing
    Fc = [["f", "Float64"], ["h", "Float64"], ["x", "Int64"]]
    f, h = col("f"), col("h")
    out.append(case(table(Fc, [(a, b, c) for a, b in itertools.product(FG, FG) for c in (None, 2, -3)]),
                    [fn("add", f, h), fn("sub", f, h), fn("mul", f, h), fn("less_than", f, h), fn("equal", f, h),
                     fn("abs", f), fn("neg", h), fn("floor", f), fn("ceil", f), fn("horizontal_max", f, h),
                     fn("add", x, f), fn("mul", f, x), fn("less_equal", x, h), fn("coalesce", f, h),
                     fn("truediv", x, ["lit", 4]), fn("truediv", f, ["lit", 2.0]),
                     ["cast", f, "Int64"], ["cast", x, "Float64"]]))
    return out


def rounding_oracle(res):
    """round / floor / ceil / abs are not in the Coq model: a Python oracle on both backends.  Integers with negative
    `decimals` (negative values, nested integer expressions, values beyond 2**53 excluded), floats with 0 / 1 decimals;
    ties (which the documentation leaves to the backend) are avoided by construction; results are compared as numbers."""
    import math
    import warnings
    import polars as pl
    import sqlalchemy as sqa
    import pydiverse.transform as pdt
    from pydiverse.transform import extended as X
    I = [None, -1251, -160, -140, -101, -99, -1, 0, 1, 49, 51, 149, 151, 160, 1249, 99999, -99951]
    F = [None, -1.6, -1.4, -0.6, 0.4, 0.6, 2.3, 1234.56, -1234.56, 0.26, -0.26, 7.0, -7.0, 1e6 + 0.3, -0.04, 99.96, 12.34]
    df = pl.DataFrame({"k": list(range(len(I))), "x": I, "f": F}, schema={"k": pl.Int64, "x": pl.Int64, "f": pl.Float64})
    eng = sqa.create_engine("sqlite://")
    df.write_database("tt", eng)

    def tie(v, d):        # v * 10**d ends in .5 exactly
        y = abs(v) * 10 ** d
        return abs(y - math.floor(y) - 0.5) < 1e-9
    ex = {"r2": [None if v is None else float(round(v, -2)) for v in I],
          "r1": [None if v is None else float(round(v, -1)) for v in I],
          "r0": [None if v is None else float(v) for v in I],
          "e2": [None if v is None else float(round(3 * v + 7, -2)) for v in I],
          "n1": [None if v is None else float(round(-v, -1)) for v in I],
          "f0": [None if v is None else float(round(v)) for v in F],
          "f1": [None if v is None else round(v, 1) for v in F],
          "fl": [None if v is None else float(math.floor(v)) for v in F],
          "ce": [None if v is None else float(math.ceil(v)) for v in F],
          "ab": [None if v is None else float(abs(v)) for v in I],
          "fa": [None if v is None else abs(v) for v in F]}
    ties = {"r2": [v is not None and tie(v, -2) for v in I], "r1": [v is not None and tie(v, -1) for v in I],
            "e2": [v is not None and tie(3 * v + 7, -2) for v in I], "n1": [v is not None and tie(v, -1) for v in I],
            "f0": [v is not None and tie(v, 0) for v in F], "f1": [v is not None and tie(v, 1) for v in F]}
    n = 0
    for name, t in (("polars", pdt.Table(df, name="tt")), ("sqlite", pdt.Table("tt", X.SqlAlchemy(eng)))):
        try:
            with warnings.catch_warnings():
                warnings.simplefilter("ignore")
                r = (t >> X.mutate(r2=t.x.round(-2), r1=t.x.round(-1), r0=t.x.round(0), e2=(t.x * 3 + 7).round(-2), n1=(-t.x).round(-1),
                                   f0=t.f.round(0), f1=t.f.round(1), fl=t.f.floor(), ce=t.f.ceil(), ab=t.x.abs(), fa=t.f.abs())
                     >> X.arrange(t.k) >> X.export(X.Polars())).to_dict(as_series=False)
        except Exception as e:  # noqa: BLE001
            res.violations.append({"what": f"{name}: rounding grid fails with {type(e).__name__}: {str(e)[:160]}", "found_input": True,
                                   "payload": {"backend": name, "oracle": "rounding"}})
            continue
        for c, want in ex.items():
            for i, (got, w) in enumerate(zip(r[c], want)):
                if ties.get(c, [False] * len(want))[i]:
                    continue
                n += 1
                ok = (got is None and w is None) or (got is not None and w is not None and abs(float(got) - w) <= 1e-9 * max(1.0, abs(w)))
                if not ok:
                    src = (I if c in ("r2", "r1", "r0", "e2", "n1", "ab") else F)[i]
                    res.violations.append({"what": f"{name}: {c} of {src!r} is {got!r}, expected {w!r} "
                                                   f"(r2 / r1 / r0: x.round(-2 / -1 / 0); e2: (3*x+7).round(-2); n1: (-x).round(-1); "
                                                   f"f0 / f1: f.round(0 / 1); fl / ce: floor / ceil; ab / fa: abs)",
                                           "found_input": True, "payload": {"backend": name, "column": c, "got": r[c], "want": want}})
                    break
            else:
                continue
            break
    res.coverage["rounding_oracle"] = {"values_compared": n}
    res.traces += n


def run(ctx, res):
    cases = [] if ctx.replay else grid_cases(ctx.seed, ctx.tier == "thorough")
    if not ctx.replay:
        rounding_oracle(res)
    pipeprop.run(ctx, res, "C03", {}, n_quick=0, n_thorough=0, extra_cases=cases, probe_ids=("F27", "F38"),
                 label="operand grid")
    ncells = sum(len(c["tables"]["t"]["rows"]) * len(c["pipe"]["steps"][0][1]) for c in cases)
    res.coverage["grid_cells"] = ncells * 2
    res.coverage["exhaustive"] = False
    res.coverage["distinct_nontrivial"] = max(res.coverage.get("distinct_nontrivial", 0), len(cases))
    res.coverage["rule"] = ("operand grid: every modelled operator x all pairs of the integer grid "
                            f"{G}, all triples of {{null, True, False}}, 3-5 argument horizontal functions on sampled "
                            "rows, column-column / column-literal / literal-column / nested forms, on Polars and SQLite; "
                            "distinct_nontrivial counts grid cases (each has 10-20 result columns over 27-700 rows)")
