"""C17 — Casts follow the documented conversion table.
Acceptance: the model equals the running code on the whole universe (in-kernel, over the regenerated
CastTable.v) and equals the documented table + implicit conversions.  Values: cast grids on both
backends vs the Coq reference (L1); acceptance is decided when the expression is built."""
import itertools
import uuid

import pipeprop
from props.c03 import case, col, table

TRUSTED_BASE = ["translator gen_casttable (constructs Cast(col, t) for every pair of the universe)",
                "Model/Expr.cast_value is the specification of the values (float->string and string->float are not modelled: partial)"]
ASSUMPTIONS = ["strict casts only; narrowing overflow, non-finite floats and non-numerals excluded (DESIGN 4.8)"]

FV = [None, 0.0, 0.5, -0.5, 2.5, -2.5, 3.75, -434.25, 1e15, -0.125, 7.0]
IV = [None, 0, 1, -1, 7, -120, 1005, 2 ** 40, -(2 ** 52)]
SV = [None, "0", "12", "-7", "007", "+3", "123456789"]
BV = [None, True, False]


def value_cases():
    f, x, s, p = col("f"), col("x"), col("s"), col("p")
    out = [
        case(table([["f", "Float64"]], [(v,) for v in FV]),
             [["cast", f, "Int64"], ["cast", ["fn", "horizontal_min", [f, ["lit", 1000.0]]], "Int32"], ["cast", f, "Float64"],
              ["cast", ["fn", "mul", [f, ["lit", 2.0]]], "Int64"], ["cast", ["fn", "truediv", [["cast", f, "Int64"], ["lit", 2]]], "Int64"]]),
        case(table([["x", "Int64"]], [(v,) for v in IV]),
             [["cast", x, "Float64"], ["cast", x, ["str", None]], ["cast", x, "Int64"],
              ["cast", ["fn", "add", [x, ["lit", 1]]], ["str", None]], ["cast", ["fn", "neg", [x]], "Float64"]]),
        case(table([["s", "String"]], [(v,) for v in SV]), [["cast", s, "Int64"], ["cast", s, "Int32"]]),
        case(table([["p", "Bool"]], [(v,) for v in BV]),
             [["cast", p, "Int64"], ["cast", p, "Int8"], ["cast", p, "Float64"],
              ["cast", ["fn", "bool_and", [p, ["lit", True]]], "Int64"]]),
        case(table([["x", "Int64"]], [(v,) for v in IV[:6]]),
             [["cast", ["lit", 3.5], "Int64"], ["cast", ["lit", -3.5], "Int64"], ["cast", ["lit", True], "Int64"],
              ["cast", ["lit", 12], ["str", None]], ["cast", ["lit", None], "Int64"]]),
    ]
    import datetime as dt
    from common import enc_value as E
    d, t = col("d"), col("t")
    D = [None, dt.date(2024, 5, 17), dt.date(1999, 12, 31), dt.date(2000, 2, 29)]
    Ts = [None, dt.datetime(2024, 5, 17, 13, 45, 1, 5), dt.datetime(1999, 12, 31, 23, 59, 59), dt.datetime(2000, 2, 29, 0, 0, 0)]
    litd, litt = ["litc", E(dt.date(2024, 5, 17))], ["litc", E(dt.datetime(2024, 5, 17, 13, 45, 1, 5))]
    out.append(case(table([["d", "Date"], ["t", "Datetime"]], [(E(a), E(b)) for a, b in zip(D, Ts)]),
                    [["cast", d, "Datetime"], ["cast", t, "Date"], ["cast", ["cast", d, "Datetime"], "Date"],
                     # constants: the same conversions on literal operands, used as values and inside comparisons
                     ["cast", litt, "Date"], ["cast", litd, "Datetime"],
                     ["fn", "equal", [d, ["cast", litt, "Date"]]], ["fn", "equal", [t, ["cast", litd, "Datetime"]]],
                     ["fn", "less_than", [["cast", t, "Date"], ["cast", litt, "Date"]]],
                     # the converted value used further: compared with a stored datetime (midnight included), converted back
                     ["fn", "equal", [t, ["cast", d, "Datetime"]]], ["fn", "less_equal", [t, ["cast", d, "Datetime"]]],
                     ["fn", "greater_than", [["cast", d, "Datetime"], t]],
                     ["fn", "equal", [["cast", ["cast", t, "Date"], "Datetime"], t]]]))
    return out


def temporal_text(res):
    """date / datetime -> string is not in the Coq model: a Python oracle.  The documented canonical text is
    `YYYY-MM-DD` and `YYYY-MM-DD HH:MM:SS.ffffff` (six digits always), on both backends, also after date -> datetime."""
    import datetime as dt
    import warnings
    import polars as pl
    import sqlalchemy as sqa
    import pydiverse.transform as pdt
    from pydiverse.transform import extended as X
    Ts = [None, dt.datetime(2024, 5, 17, 13, 45, 1, 5), dt.datetime(1999, 12, 31, 23, 59, 59), dt.datetime(2000, 2, 29, 0, 0, 0),
          dt.datetime(2021, 3, 4, 3, 4, 5, 678901), dt.datetime(1970, 1, 1, 0, 0, 1, 1), dt.datetime(2038, 1, 19, 3, 14, 7, 999999),
          dt.datetime(2010, 10, 10, 10, 10, 54, 12345), dt.datetime(1987, 6, 5, 4, 3, 2, 100000)]
    D = [None, dt.date(2024, 5, 17), dt.date(1999, 12, 31), dt.date(2000, 2, 29), dt.date(2021, 3, 4), dt.date(1970, 1, 1),
         dt.date(2038, 1, 19), dt.date(1900, 3, 1), dt.date(2099, 12, 31)]
    df = pl.DataFrame({"k": list(range(len(Ts))), "t": Ts, "d": D})
    eng = sqa.create_engine("sqlite://")
    df.write_database("tt", eng)
    exp = {"ts": [None if v is None else v.strftime("%Y-%m-%d %H:%M:%S.%f") for v in Ts],
           "ds": [None if v is None else v.strftime("%Y-%m-%d") for v in D],
           "dts": [None if v is None else v.strftime("%Y-%m-%d") + " 00:00:00.000000" for v in D],
           "tds": [None if v is None else v.strftime("%Y-%m-%d") for v in Ts],
           "ls": ["2021-03-04 03:04:05.678901"] * len(Ts)}
    n = 0
    for name, t in (("polars", pdt.Table(df, name="tt")), ("sqlite", pdt.Table("tt", X.SqlAlchemy(eng)))):
        try:
            with warnings.catch_warnings():
                warnings.simplefilter("ignore")
                r = (t >> X.mutate(ts=t.t.cast(pdt.String()), ds=t.d.cast(pdt.String()),
                                   dts=t.d.cast(pdt.Datetime()).cast(pdt.String()), tds=t.t.cast(pdt.Date()).cast(pdt.String()),
                                   ls=pdt.lit(dt.datetime(2021, 3, 4, 3, 4, 5, 678901)).cast(pdt.String()))
                     >> X.arrange(t.k) >> X.export(X.Polars())).to_dict(as_series=False)
        except Exception as ex:  # noqa: BLE001
            res.violations.append({"what": f"{name}: temporal -> string casts fail with {type(ex).__name__}: {str(ex)[:160]}",
                                   "found_input": True, "payload": {"backend": name, "oracle": "temporal_text"}})
            continue
        for col_, want in exp.items():
            n += len(want)
            if r[col_] != want:
                i = next(j for j, (a, b) in enumerate(zip(r[col_], want)) if a != b)
                res.violations.append({"what": f"{name}: cast to String ({col_}) of {Ts[i] if col_ in ('ts', 'tds') else D[i]!r}: "
                                               f"{r[col_][i]!r} instead of the documented text {want[i]!r}",
                                       "found_input": True, "payload": {"backend": name, "column": col_, "got": r[col_], "want": want}})
                break
    res.coverage["temporal_text_oracle"] = {"values_compared": n}
    res.traces += n


def run(ctx, res):
    cases = [] if ctx.replay else value_cases()
    pipeprop.run(ctx, res, "C17", {}, n_quick=0, n_thorough=0, extra_cases=cases, label="cast value grids")
    if not ctx.replay:
        temporal_text(res)
    # acceptance is decided at build time: a rejected cast raises DataTypeError from the constructor,
    # an accepted one never raises DataTypeError at export (checked on the grids above by L1);
    # the table itself is re-read by the translator and compared in-kernel (Properties/C17.v)
    import universe
    from translate import json_to_dtype
    from pydiverse.transform._internal.errors import DataTypeError
    from pydiverse.transform._internal.ops.op import Ftype
    from pydiverse.transform._internal.tree.col_expr import Col
    from pydiverse.transform._internal.tree import types as T
    import pydiverse.common as C

    def doc_table(s, t):
        """the property's documented table (mirror of Proofs/CastLemmas.doc_table)"""
        s = T.without_const(s)
        sized_int = t in T.INT_SUBTYPES
        sized_float = t in T.FLOAT_SUBTYPES
        is_int, is_float = s.is_int(), s.is_float()
        strlike = isinstance(s, C.String)
        return ((is_float and sized_int) or (s == C.Bool() and (sized_int or sized_float))
                or (is_int and (sized_float or sized_int)) or (is_float and sized_float)
                or ((is_int or is_float or s in (C.Date(), C.Datetime())) and t == C.String())
                or (strlike and (sized_int or sized_float))
                or (s == C.Datetime() and t == C.Date()) or (s == C.Date() and t == C.Datetime()))

    n = acc = other = 0
    bad = []
    table_viol = []
    for sj, tj in itertools.product(universe.U, universe.U_BASE):
        sd, td = json_to_dtype(sj), json_to_dtype(tj)
        c = Col("x", None, uuid.uuid1(), sd, Ftype.ELEMENT_WISE)
        n += 1
        ok = None
        try:
            c.cast(td)
            acc += 1
            ok = True
        except DataTypeError:
            ok = False
        if ok is False and doc_table(sd, td):
            table_viol.append([sj, tj, "documented cast is rejected with DataTypeError"])
        if ok is True and not (doc_table(sd, td) or T.converts_to(sd, td)
                               or (isinstance(T.without_const(sd), C.String) and isinstance(td, C.Enum))):
            table_viol.append([sj, tj, "a conversion outside the documented table is accepted"])
        continue
    for sj, tj, what in table_viol[:3]:
        res.violations.append({"what": f"cast {sj} -> {tj}: {what}", "found_input": True,
                               "payload": {"source": sj, "target": tj, "what": what}})
    for sj, tj in []:
        try:
            pass
        except Exception as ex:  # noqa: BLE001
            other += 1
            bad.append([sj, tj, type(ex).__name__])
    for sj, tj, exn in bad[:3]:
        res.violations.append({"what": f"cast {sj} -> {tj} fails with {exn} instead of DataTypeError / acceptance",
                               "found_input": True, "payload": {"source": sj, "target": tj, "exception": exn}})
    res.coverage["acceptance_pairs"] = {"pairs": n, "accepted": acc, "other_exceptions": other}
    res.coverage["exhaustive"] = True
    res.coverage["partial"] = ["float -> string and string -> float values are not modelled",
                               "date / datetime -> string formatting is not in the Coq model: decided by the Python oracle temporal_text"]
