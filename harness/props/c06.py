"""C06 — join: exact row combinations, collision-free names, all columns reachable."""
import pipeprop

TRUSTED_BASE = ["Model/RefSem.v do_join is the specification; suffixing is observed through the real AST (Rename node)",
                "L1 tie on generated pipelines"]
ASSUMPTIONS = ["value domain of DESIGN.md section 4; validate='m:m'"]
PROFILE = {
    "verbs": {"mutate": 3, "filter": 2, "select": 2, "drop": 1, "rename": 2, "arrange": 1.5, "slice_head": 0.5,
              "group_by": 0.3, "ungroup": 0.3, "summarize": 0.3, "alias": 1.5, "join": 5, "union": 0},
    "window": 0.1, "joins": True, "unions": False, "max_steps": 5,
    "shapes": {"typical": 4, "nulls": 4, "dups": 4, "single": 1, "empty": 2, "tall": 0.1},
}


def run(ctx, res):
    import scenarios
    fam = [] if ctx.replay else (scenarios.pick(scenarios.family_joins(), 500 if ctx.tier == "quick" else 10 ** 6, ctx.seed)
                                 + scenarios.family_suffix())
    pipeprop.run(ctx, res, "C06", PROFILE, n_quick=300, n_thorough=6000, probe_ids=("F30", "F31"), extra_cases=fam)
    res.coverage["scenario_grid"] = {"family": "joins (left prefix x right prefix x how x on x follower)", "cases": len(fam)}
