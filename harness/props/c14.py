"""C14 — Ill-formed pipelines are rejected when built, with the documented error.
Planted-defect stream: every rejection rule x every syntactic position (top level, nested in
arithmetic, inside a case branch, in partition_by= / arrange= / filter=, via C.name or a table
reference) x preceding histories, on both backends: the offending verb call must raise the documented
exception class, identically on both backends, and leave the input table usable.  The converse
(accepted => exports on Polars without an internal error) is part of every pipeline check."""
import copy
import random

import gen
import pipecheck
import pipeprop

TRUSTED_BASE = ["Model/Typing.v transcribes ColFn/CaseExpr/Cast typing; verb-level rules are checked on the implementation only"]
ASSUMPTIONS = ["planted defects are one per case; the preceding history is a valid generated pipeline"]
PROFILE = {"max_steps": 4, "window": 0.15, "joins": False, "unions": False,
           "verbs": {"mutate": 4, "filter": 2, "select": 2, "drop": 1, "rename": 2, "arrange": 1, "slice_head": 0.3,
                     "group_by": 0.6, "ungroup": 0.6, "summarize": 0.3, "alias": 1, "join": 0, "union": 0},
           "shapes": {"typical": 4, "nulls": 2, "dups": 1, "single": 1, "empty": 1, "tall": 0}}


def planted(seed, n):
    r = random.Random(seed * 31 + 14)
    g = gen.Gen(seed + 1414, PROFILE)
    out = []
    while len(out) < n:
        c = g.case()
        p = c["pipe"]
        pid = p["id"]
        steps = p["steps"]
        if any(st[0] in ("summarize", "alias", "select", "drop", "rename") for st in steps):
            # keep the source columns a/b/s/p referenceable by name
            continue
        if any(st[0] == "mutate" and any(n_ in ("id", "a", "b", "g", "s", "p", "f") for n_, _ in st[1]) for st in steps):
            # ... and of their source types (a history that overwrites `b` with a Bool would add a second,
            # type-level defect to the planted one: false alarm of check run 1, seed 1)
            continue
        grouped = False
        for st in steps:
            grouped = st[0] == "group_by" or (grouped and st[0] != "ungroup")
        if grouped:
            steps.append(["ungroup"])
        k = len(steps)
        a, s, pb, idc = (["col", f"{pid}@0", n_] for n_ in ("a", "s", "p", "id"))
        ca = ["c", "b"]
        num = r.choice([a, ca])

        def pos(e, where, ty="int"):
            """embed expression e (of type ty) at a syntactic position"""
            if where == "top":
                return e
            if where == "arith":
                return ["fn", "add", [e, ["lit", 1]]] if ty == "int" else ["fn", "bool_and", [e, ["lit", True]]]
            if where == "case":
                return ["case", [[pb, e]], None]
            if where == "cast":
                return ["cast", e, "Float64"] if ty == "int" else ["cast", e, "Int64"]
            raise ValueError(where)

        rule = r.choice(["type", "type_in_kw", "filter_nonbool", "window_in_filter", "window_in_summarize",
                         "nested", "nested_part", "nested_arrange", "nested_filter_kw", "nested_case",
                         "not_aggregated", "unknown_c", "unknown_tbl", "reselect_hidden", "rename_dup", "rename_dup2",
                         "slice_grouped", "marker_outside", "marker_nested", "join_grouped", "join_same_origin",
                         "join_suffix_dup", "join_suffix_dup_renamed", "join_nonbool_on", "join_window_on", "union_names", "union_grouped",
                         "group_hidden", "case_cond_nonbool", "filter_kw_nonbool"])
        where = r.choice(["top", "arith", "case", "cast"])
        exp = None
        st = None
        if rule == "type":
            bad = r.choice([["fn", "add", [s, ["lit", 1]]], ["fn", "bool_and", [a, pb]], ["fn", "str_len", [a]],
                            ["fn", "less_than", [s, a]], ["fn", "sum", [s]]])
            st = r.choice([["mutate", [["z_", pos(bad, where)]]], ["filter", [["fn", "is_null", [pos(bad, where)]]]],
                           ["arrange", [["ord", pos(bad, where), False, None]]]])
            exp = "DataTypeError"
        elif rule == "type_in_kw":
            bad = ["fn", "add", [s, ["lit", 1]]]
            st = ["mutate", [["z_", ["fn", "sum", [a], {r.choice(["partition_by", "filter"]): [pos(bad, where) if True else bad]}]]]]
            exp = "DataTypeError"
        elif rule == "case_cond_nonbool":
            # a non-boolean `when` condition, reached by table reference, by C.<name> or inside arithmetic, with branch values
            # that are literals, table references or C.<name> in every combination (the types of the branches may be
            # known before the condition's is)
            cond = r.choice([a, ca, ["fn", "add", [ca, ["lit", 1]]], ["fn", "add", [a, ["lit", 1]]]])
            val = r.choice([["lit", 1], a, ca])
            dflt = r.choice([None, ["lit", 0], a, ca])
            e = ["case", [[cond, val]], dflt]
            st = r.choice([["mutate", [["z_", pos(e, r.choice(["top", "arith", "cast"]))]]],
                           ["filter", [["fn", "is_null", [e]]]],
                           ["summarize", [["z_", ["fn", "sum", [e]]]]]])
            where = "case"
            exp = "DataTypeError"
        elif rule == "filter_kw_nonbool":
            cond = r.choice([a, ca, ["fn", "add", [ca, ["lit", 1]]]])
            agg = ["fn", r.choice(["sum", "max", "count"]), [r.choice([a, ca])], {"filter": [cond]}]
            st = r.choice([["mutate", [["z_", agg]]], ["summarize", [["z_", agg]]]])
            where = "top"
            exp = "DataTypeError"
        elif rule == "filter_nonbool":
            st = ["filter", [pos(num, where)]]
            exp = "DataTypeError"
        elif rule == "window_in_filter":
            w = r.choice([["fn", "rank", [], {"arrange": [["ord", a, False, None]]}], ["fn", "sum", [a]],
                          ["fn", "shift", [a, ["lit", 1], ["lit", None]], {"arrange": [["ord", idc, False, None]]}]])
            st = ["filter", [["fn", "greater_than", [pos(w, where), ["lit", 0]]]]]
            exp = "FunctionTypeError"
        elif rule == "window_in_summarize":
            w = ["fn", "rank", [], {"arrange": [["ord", a, False, None]]}]
            st = ["summarize", [["z_", ["fn", "add", [["fn", "sum", [a]], pos(w, where)]]]]]
            exp = "FunctionTypeError"
        elif rule == "nested":
            inner = r.choice([["fn", "max", [a]], ["fn", "rank", [], {"arrange": [["ord", a, False, None]]}]])
            st = ["mutate", [["z_", ["fn", r.choice(["sum", "min"]), [pos(inner, where)]]]]]
            exp = "FunctionTypeError"
        elif rule == "nested_part":
            inner = ["fn", "rank", [], {"arrange": [["ord", a, False, None]]}]
            st = ["mutate", [["z_", ["fn", "sum", [a], {"partition_by": [pos(inner, where)]}]]]]
            exp = "FunctionTypeError"
        elif rule == "nested_arrange":
            inner = r.choice([["fn", "rank", [], {"arrange": [["ord", a, False, None]]}], ["fn", "max", [a]]])
            st = ["mutate", [["z_", ["fn", "shift", [a, ["lit", 1], ["lit", None]],
                                       {"arrange": [["ord", pos(inner, where), False, None], ["ord", idc, False, None]]}]]]]
            exp = "FunctionTypeError"
        elif rule == "nested_filter_kw":
            inner = ["fn", "max", [a]]
            st = ["mutate", [["z_", ["fn", "sum", [a], {"filter": [["fn", "greater_than", [pos(inner, where), ["lit", 0]]]]}]]]]
            exp = "FunctionTypeError"
        elif rule == "nested_case":
            inner = ["fn", "max", [a]]
            st = ["mutate", [["z_", ["fn", "sum", [["case", [[pb, a]], inner]]]]]]
            exp = "FunctionTypeError"
        elif rule == "not_aggregated":
            st = ["summarize", [["z_", ["fn", "add", [["fn", "sum", [a]], pos(num, where)]]]]]
            exp = "FunctionTypeError"
        elif rule == "unknown_c":
            st = r.choice([["mutate", [["z_", pos(["c", "no_such_col"], where)]]], ["select", [["c", "no_such_col"]]],
                           ["filter", [["fn", "is_null", [["c", "no_such_col"]]]]], ["group_by", [["c", "no_such_col"]], False]])
            exp = "ColumnNotFoundError"
        elif rule == "unknown_tbl":
            g2 = gen.Gen(seed + len(out) + 77, {"joins": False, "unions": False})
            c2 = g2.case(max_steps=1)
            tname = "x_" + c2["pipe"]["src"]
            c["tables"][tname] = c2["tables"][c2["pipe"]["src"]]
            c["extra_pipes"] = [{"id": "X0", "src": tname, "steps": []}]
            st = r.choice([["mutate", [["z_", pos(["col", "X0@0", "a"], where)]]], ["select", [["col", "X0@0", "a"]]],
                           ["arrange", [["ord", ["col", "X0@0", "a"], False, None]]]])
            exp = "ColumnNotFoundError"
        elif rule == "reselect_hidden":
            steps.append(["drop", [a]])
            k += 1
            st = ["select", [a]]
            exp = "ColumnNotFoundError"
        elif rule == "rename_dup":
            st = ["rename", [["a", "b"]]]
            exp = "ValueError"
        elif rule == "rename_dup2":
            st = ["rename", [["a", "q_"], ["b", "q_"]]]
            exp = "ValueError"
        elif rule == "slice_grouped":
            steps.append(["group_by", [["c", "id"]], False])
            k += 1
            st = ["slice_head", 2, 0]
            exp = "ValueError"
        elif rule == "marker_outside":
            st = r.choice([["mutate", [["z_", ["ord", a, True, None]]]], ["filter", [["fn", "is_null", [["ord", a, False, True]]]]],
                           ["group_by", [["ord", a, True, None]], False]])
            exp = "TypeError"
        elif rule == "marker_nested":
            st = ["arrange", [["ord", ["fn", "add", [["ord", a, True, None], ["lit", 1]]], False, None]]]
            exp = "TypeError"
        elif rule in ("join_grouped", "join_same_origin", "join_suffix_dup", "join_suffix_dup_renamed", "join_nonbool_on", "join_window_on",
                      "union_names", "union_grouped"):
            right = {"id": "R0", "src": p["src"], "steps": [["alias", False]]}
            ra, rid = ["col", "R0@1", "a"], ["col", "R0@1", "id"]
            on = [["fn", "equal", [idc, rid]]]
            if rule == "join_grouped":
                if r.random() < 0.5:
                    steps.append(["group_by", [["c", "id"]], False]); k += 1
                else:
                    right["steps"].append(["group_by", [["col", "R0@1", "g"]], False])
                st = ["join", right, on, r.choice(["inner", "left"]), None]
                exp = "ValueError"
            elif rule == "join_same_origin":
                j = r.randint(0, k)       # a table derived from the same origin (any earlier point)
                st = ["join", {"ref": f"{pid}@{j}"}, [["fn", "equal", [idc, idc]]], "inner", "_so"]
                exp = "ValueError"
            elif rule == "join_suffix_dup":
                steps.append(["mutate", [["a_x", ["lit", 1]]]]); k += 1
                st = ["join", right, on, "inner", "_x"]
                exp = "ValueError"
            elif rule == "join_suffix_dup_renamed":
                # the suffixed right name collides with a left column although the plain name does not exist on the left
                steps.append(["rename", [["a", "a_x"]]]); k += 1
                st = ["join", right, on, r.choice(["inner", "left", "full"]), "_x"]
                exp = "ValueError"
            elif rule == "join_nonbool_on":
                st = ["join", right, [pos(["fn", "add", [idc, rid]], where)], "inner", None]
                exp = "DataTypeError"
            elif rule == "join_window_on":
                st = ["join", right, [["fn", "equal", [idc, pos(["fn", "max", [ra]], where)]]], "inner", None]
                exp = "FunctionTypeError"
            elif rule == "union_names":
                right["steps"].append(["rename", [["a", "a_other"]]])
                st = ["union", right, False]
                exp = "ValueError"
            else:
                right["steps"].append(["group_by", [["col", "R0@1", "g"]], False])
                st = ["union", right, False]
                exp = "ValueError"
        elif rule == "group_hidden":
            steps.append(["drop", [a]]); k += 1
            st = ["group_by", [a], False]
            exp = "ValueError"
        steps.append(st)
        out.append((c, exp, rule, where, len(steps)))
    return out


def run(ctx, res):
    pipeprop.run(ctx, res, "C14", PROFILE, n_quick=150, n_thorough=2500, probe_ids=("F19", "F29", "F33", "F41", "F45"),
                 label="converse: accepted pipelines export")
    if ctx.replay:
        return
    n = 420 if ctx.tier == "quick" else 6000
    bad = 0
    stats = {}
    for c, exp, rule, where, last in planted(ctx.seed, n):
        key = f"{rule}@{where}"
        stats[key] = stats.get(key, 0) + 1
        got = {}
        for b in ("polars", "sqlite"):
            o = pipecheck.observe(c, b)
            got[b] = (o.exc, o.exc_at)
        pid = c["pipe"]["id"]
        ok = all((g[0] == exp and g[1] == [pid, last]) or (b == "sqlite" and g[0] == "SubqueryError")
                 for b, g in got.items())
        if not ok and bad < 4:
            bad += 1
            res.violations.append({
                "what": f"rule `{rule}` planted at position `{where}`: expected {exp} from the verb call on both backends, got {got}",
                "found_input": True,
                "payload": {"case": c, "backend": "both", "failure": {"kind": "rejection", "rule": rule, "position": where},
                            "expected": exp, "got": {b: list(map(str, g)) for b, g in got.items()}}})
        # the input table stays usable: the same pipeline without the offending verb exports
    res.coverage["planted_defects"] = {"cases": n, "rule_x_position_histogram": stats}
    res.coverage["evaluations"] = res.coverage.get("evaluations", 0) + 2 * n
    res.coverage["distinct_nontrivial"] = res.coverage.get("distinct_nontrivial", 0) + len(stats)
