"""C15 — Equivalent pipelines give identical results.
Metamorphic oracle on both backends: each documented equivalence is instantiated on generated
prefixes; the two sides must export the same table (up to row order where no arrange fixes it, and
up to column order for the union swap).  Each side is also compared with the Coq reference (L1)."""
import copy
import json

import gen
import pipecheck
import pipeprop
from gen import BOOL, FLT, INT, STR

TRUSTED_BASE = ["the equivalences are theorems about Model/RefSem.v; both sides are run on the real backends"]
ASSUMPTIONS = ["value domain of DESIGN.md section 4"]
PREFIX_PROFILE = {
    "verbs": {"mutate": 4, "filter": 2, "select": 1.5, "drop": 1, "rename": 1.5, "arrange": 1, "slice_head": 0,
              "group_by": 0, "ungroup": 0, "summarize": 0, "alias": 0.5, "join": 0, "union": 0},
    "window": 0.0, "joins": False, "unions": False, "max_steps": 3, "cref": 0.0,
    "shapes": {"typical": 5, "nulls": 3, "dups": 3, "single": 1, "empty": 1, "tall": 0.1},
}


def canon(o, ignore_col_order=False):
    if o.exc or o.export_exc or o.names is None:
        return ("exc", o.exc or o.export_exc)
    names, rows = o.names, o.rows
    if ignore_col_order:
        idx = sorted(range(len(names)), key=lambda i: names[i])
        names = [names[i] for i in idx]
        rows = [[r[i] for i in idx] for r in rows]
    # floats are compared as the model compares them (Model/Value.feqb, IEEE equality): -0.0 is 0.0
    rows = [[0.0 if isinstance(v, float) and v == 0 else v for v in r] for r in rows]
    return ("ok", tuple(names), tuple(sorted(json.dumps(r, default=str) for r in rows)))


def make_pairs(seed, n):
    g = gen.Gen(seed + 15, PREFIX_PROFILE)
    r = g.r
    out = []
    kinds = ["mutate_split", "filter_split", "drop_select", "rename_inverse", "slice_chain", "inner_cross_filter",
             "is_in_or", "union_swap", "group_window", "map_when"]
    tries = 0
    while len(out) < n and tries < n * 20:
        tries += 1
        kind = kinds[len(out) % len(kinds)]
        g.npipes = 0
        g.tables = {}
        pipe, st = g.gen_pipe(0, None, None, ban=("arrange",) if kind in ("union_swap",) else ())
        base = {"tables": g.tables, "pipe": pipe}
        A, B = copy.deepcopy(base), copy.deepcopy(base)
        sa, sb = A["pipe"]["steps"], B["pipe"]["steps"]
        pt = f"{pipe['id']}@{len(pipe['steps'])}"
        ints = [c for c in st.vis if c.ty == INT and c.kind == "e"]
        strs = [c for c in st.vis if c.ty == STR and c.kind == "e"]
        flags = {}
        if kind == "mutate_split":
            e1, e2 = g.expr(st, INT, 2, ("e",)), g.expr(st, r.choice([INT, BOOL, STR]), 2, ("e",))
            sa.append(["mutate", [["m1_", e1], ["m2_", e2]]])
            sb.append(["mutate", [["m1_", e1]]])
            sb.append(["mutate", [["m2_", e2]]])
        elif kind == "filter_split":
            p1, p2 = g.expr(st, BOOL, 2, ("e",)), g.expr(st, BOOL, 2, ("e",))
            sa.append(["filter", [p1, p2]])
            sb.append(["filter", [p1]])
            sb.append(["filter", [p2]])
        elif kind == "drop_select":
            if len(st.vis) < 2:
                continue
            gone = r.sample(st.vis, r.randint(1, len(st.vis) - 1))
            sa.append(["drop", [c.ref for c in gone]])
            sb.append(["select", [c.ref for c in st.vis if c not in gone]])
        elif kind == "rename_inverse":
            cs = r.sample(st.vis, min(len(st.vis), 2))
            m = [[c.name, c.name + "_tmp"] for c in cs]
            sa.append(["rename", m])
            sa.append(["rename", [[b, a] for a, b in m]])
        elif kind == "slice_chain":
            if st.uniq is None:
                continue
            keys = g.total_order(st, 1)
            if not keys:
                continue
            # chains of two or three slices, limits of 0 and windows that become empty included (an accumulated limit of
            # 0 is a state of its own in the SQL compiler); the pair ends with the slices, so F16 (a verb AFTER
            # slice_head(0)) is not met
            links = [(r.choice([0, 1, 2, 3, 5, 8]), r.choice([0, 1, 2, 3])) for _ in range(r.choice([2, 2, 3]))]
            sa.append(["arrange", keys]); sb.append(["arrange", keys])
            nn, kk = links[0]
            sa.append(["slice_head", nn, kk])
            for n2, k2 in links[1:]:
                sa.append(["slice_head", n2, k2])
                nn, kk = min(max(nn - k2, 0), n2), kk + k2
            sb.append(["slice_head", nn, kk])
            flags["ordered"] = True
        elif kind == "inner_cross_filter":
            if not ints:
                continue
            right, rst = g.gen_pipe(depth=1, max_steps=1, ban=("summarize", "mutate", "arrange", "slice_head", "group_by"))
            ri = [c for c in rst.vis if c.ty == INT]
            if not ri:
                continue
            a, b = r.choice(ints), r.choice(ri)
            on = ["fn", r.choice(["equal", "less_than"]), [a.ref, b.ref]]
            A["tables"] = B["tables"] = g.tables
            sa.append(["join", right, [on], "inner", "_q"])
            sb.append(["join", copy.deepcopy(right), "cross", "inner", "_q"])
            sb.append(["filter", [on]])
        elif kind == "is_in_or":
            if not ints:
                continue
            x = r.choice(ints).ref
            a, b = g.lit(INT), (g.lit(INT) if r.random() < 0.7 else r.choice(ints).ref)
            sa.append(["mutate", [["q_", ["fn", "is_in", [x, a, b]]]]])
            sb.append(["mutate", [["q_", ["fn", "bool_or", [["fn", "equal", [x, a]], ["fn", "equal", [x, b]]]]]]])
        elif kind == "union_swap":
            if st.arranged or st.group or getattr(st, "vis_unknown", False):
                continue
            u = g.gen_union(st)
            if u is None:
                continue
            A["tables"] = B["tables"] = g.tables
            left_steps = copy.deepcopy(pipe["steps"])
            sa.append(u)
            # B: right >> union(left)
            rp = copy.deepcopy(u[1])
            B["pipe"] = {"id": rp["id"], "src": rp["src"],
                         "steps": rp["steps"] + [["union", {"id": pipe["id"], "src": pipe["src"], "steps": left_steps}, u[2]]]}
            flags["ignore_col_order"] = True
        elif kind == "group_window":
            if not ints or st.uniq is None:
                continue
            gcol = r.choice([c for c in st.vis if c.kind == "e" and c.ty in (INT, STR, BOOL)])
            keys = g.total_order(st, 1)
            if not keys:
                continue
            x = r.choice(ints).ref
            fn = r.choice(["shift", "cum_sum", "row_number", "sum", "rank"])
            args = {"shift": [x, ["lit", 1], ["lit", None]], "cum_sum": [x], "row_number": [], "sum": [x], "rank": []}[fn]
            sa.append(["group_by", [gcol.ref], False])
            sa.append(["arrange", keys])
            sa.append(["mutate", [["w_", ["fn", fn, args, ({} if fn in ("shift", "cum_sum", "row_number", "sum") else {"arrange": keys})]]]])
            sa.append(["ungroup"])
            ctx = {"partition_by": [gcol.ref]}
            if fn != "sum":
                ctx["arrange"] = keys
            sb.append(["arrange", keys])
            sb.append(["mutate", [["w_", ["fn", fn, args, ctx]]]])
            flags["polars_only"] = fn in ("shift", "cum_sum", "row_number")     # SQL: findings F06 / F40
            if flags["polars_only"]:
                A["only"] = ["polars"]
        elif kind == "map_when":
            if not ints:
                continue
            x = r.choice(ints).ref
            ks = r.sample([0, 1, 2, -1, 3], 2)
            if r.random() < 0.5:        # with a default: any value type
                vs = [g.lit(STR), g.lit(STR)]
                dflt = g.lit(STR)
                dflt_b = dflt
            else:                       # without: non-matching rows keep the input value
                vs = [g.lit(INT), g.lit(INT)]
                dflt, dflt_b = None, x
            sa.append(["mutate", [["q_", ["map", x, [[[["lit", ks[0]]], vs[0]], [[["lit", ks[1]], ["lit", 7]], vs[1]]], dflt]]]])
            sb.append(["mutate", [["q_", ["case", [[["fn", "equal", [x, ["lit", ks[0]]]], vs[0]],
                                                    [["fn", "bool_or", [["fn", "equal", [x, ["lit", ks[1]]]],
                                                                          ["fn", "equal", [x, ["lit", 7]]]]], vs[1]]], dflt_b]]]])
        out.append((kind, A, B, flags))
    return out


def run(ctx, res):
    n = 300 if ctx.tier == "quick" else 4000
    if ctx.replay:
        rp = json.loads(open(ctx.replay).read())
        pairs = [(rp.get("kind", "replay"), rp["case"], rp["case_b"], rp.get("flags", {}))] if "case_b" in rp else []
    else:
        pairs = make_pairs(ctx.seed, n)
    # L1 for both sides of every pair
    flat = [p[1] for p in pairs] + [p[2] for p in pairs]
    pipeprop.run(ctx, res, "C15", PREFIX_PROFILE, n_quick=0, n_thorough=0, extra_cases=flat, label="both sides vs reference")
    bad, stats = 0, {}
    listed = pipeprop.listed_findings()
    known_hit = {}
    for kind, A, B, flags in pairs:
        for b in ("polars", "sqlite"):
            if flags.get("polars_only") and b == "sqlite":
                continue
            oa, ob = pipecheck.observe(A, b), pipecheck.observe(B, b)
            ca, cb = canon(oa, flags.get("ignore_col_order")), canon(ob, flags.get("ignore_col_order"))
            stats[kind] = stats.get(kind, 0) + 1
            if ca[0] == "exc" or cb[0] == "exc":
                # a refusal on one side is a difference unless both sides are refused / it is a SQL refusal
                if ca == cb or "SubqueryError" in (ca[1], cb[1]):
                    continue
            equal = ca == cb
            if equal and flags.get("ordered") and oa.rows != ob.rows:
                equal = False
            if not equal:
                # a listed finding that explains a value difference of one of the two sides explains the difference of the pair
                import findings
                fl = {"kind": "rows", "exc": None, "msg": ""}
                fid = findings.match(A, b, fl, listed) or findings.match(B, b, fl, listed)
                if fid is not None:
                    known_hit[fid] = known_hit.get(fid, 0) + 1
                    continue
            if not equal and bad < 3:
                bad += 1
                res.violations.append({
                    "what": f"equivalent pipelines ({kind}) export different tables on {b}",
                    "found_input": True,
                    "payload": {"kind": kind, "case": A, "case_b": B, "flags": flags, "backend": b,
                                "failure": {"kind": "equivalence"},
                                "observed": {"A": oa.to_json(), "B": ob.to_json()}}})
    for fid, k in sorted(known_hit.items()):
        line = f"{fid} {listed[fid]['what'][:200]}"
        if not any(x.startswith(fid + " ") for x in res.known):
            res.known.append(f"{line} ({k} pairs)")
    res.coverage["equivalence_pairs"] = stats
    res.coverage["evaluations"] = res.coverage.get("evaluations", 0) + 2 * sum(stats.values())
