"""C13 — Overload resolution is total, deterministic and uniform.

Theorems: Properties/C13.v (permutation invariance, unique = strictly best, in-kernel totality /
uniformity / const rules over the enumeration).  Tie: generated Catalogue.v + ConvTable.v
(translator) and the outcome-by-outcome correspondence of the hand-written resolution model with
the real `ColFn(op, *args).dtype()` on the whole enumeration, under several PYTHONHASHSEEDs."""
from __future__ import annotations

import json
import os
import subprocess
import tempfile
import time
from concurrent.futures import ThreadPoolExecutor
from pathlib import Path

import common
import translate
from common import CASES, PY, VERIF, log

TRUSTED_BASE = [
    "Model/Signature.v replaces the trie by the signature list; translate.check_trie_shape checks the two side conditions on the running catalogue",
    "the model of Dtype equality is structural (DESIGN 3.8)",
]
ASSUMPTIONS = [
    "argument-type tuples range over the representative universe of Model/Universe.v and Model/Enum.v (U^k for k<=2, U3^3, U4^k for k>=4)",
]


def run_impl(seed: int, out: Path):
    env = dict(os.environ, PYTHONHASHSEED=str(seed))
    p = subprocess.run([PY, "-W", "ignore", str(VERIF / "harness" / "impl_c13.py"), str(out), "full"],
                       env=env, capture_output=True, text=True, timeout=1500)
    if p.returncode != 0:
        raise RuntimeError("impl_c13 failed:\n" + p.stderr[-3000:])
    return json.loads(out.read_text())


def outcome_to_coq(o) -> str:
    if o[0] == "T":
        return f"(OType {translate.json_to_coq(o[1])})"
    if o[0] == "DataTypeError":
        return "ODataTypeError"
    if o[0] == "AssertionError":
        return "OAssertion"
    return "OInternal"


CASE_HEADER = """From Coq Require Import List String NArith Bool.
From PDT Require Import Model.Dtype Model.Universe Model.Signature Model.Resolve Model.Enum.
From PDTGen Require Import Catalogue.
Import ListNotations.
Open Scope N_scope.
Definition otab : list outcome := [%s].
Fixpoint cmp (i : nat) (ms : list outcome) (cs : list N) : list nat :=
  match ms, cs with
  | [], [] => []
  | m :: ms', c :: cs' =>
      if outcome_eqb m (nth (N.to_nat c) otab OInternal) then cmp (S i) ms' cs'
      else i :: cmp (S i) ms' cs'
  | _, _ => [i; i]      (* length mismatch: reported as a doubled index *)
  end.
Definition chk (opi : nat) (o : opname) (k : nat) (cs : list N) : list (nat * nat * nat) :=
  map (fun i => (opi, k, i)) (cmp 0 (map (op_outcome o) (enum_k k)) cs).
"""


def universe_check_v() -> str:
    import universe
    from impl_c13 import U4

    def lst(x):
        return "[" + "; ".join(translate.json_to_coq(t) for t in x) + "]"
    return ("Eval vm_compute in (dtypes_eqb U %s && dtypes_eqb U3 %s && dtypes_eqb U4 %s).\n"
            % (lst(universe.U), lst(universe.U3), lst(U4)))


def correspondence(data, opvars):
    """Write sharded case files, run coqc in parallel, return (mismatches, n_cases)."""
    otab = data["otab"]
    ops = [(i, v) for i, v in enumerate(opvars)]
    # balance shards by number of tuples
    sizes = {v: sum(len(c) for _, c in data["ops"][v]["blocks"]) for v in opvars}
    shards = [[] for _ in range(common.NPROC)]
    load = [0] * common.NPROC
    for i, v in sorted(ops, key=lambda x: -sizes[x[1]]):
        j = load.index(min(load))
        shards[j].append((i, v))
        load[j] += sizes[v]
    CASES.mkdir(parents=True, exist_ok=True)
    files = []
    for j, sh in enumerate(shards):
        if not sh:
            continue
        txt = CASE_HEADER % "; ".join(outcome_to_coq(o) for o in otab)
        if j == 0:
            txt += universe_check_v()
        for i, v in sh:
            for k, codes in data["ops"][v]["blocks"]:
                txt += (f"Eval vm_compute in (chk {i}%nat Op_{translate.coq_ident(v)} {k}%nat "
                        f"[{'; '.join(map(str, codes))}]).\n")
        f = CASES / f"c13_{j}.v"
        f.write_text(txt)
        files.append(f)

    def go(f):
        return subprocess.run(["bash", "-c", f"ulimit -s unlimited; timeout 900 coqc {' '.join(common.COQ_ARGS)} {f}"],
                              capture_output=True, text=True, cwd=common.COQ)
    import re
    mism, errors = [], []
    with ThreadPoolExecutor(common.NPROC) as ex:
        for f, p in zip(files, ex.map(go, files)):
            out = p.stdout
            if p.returncode != 0:
                errors.append(f"{f.name}: {p.stderr[-1500:]}")
                continue
            if f.name == "c13_0.v" and not re.search(r"=\s*true\s*:\s*bool", out):
                errors.append("universe mismatch between harness/universe.py and Model/Universe.v")
            for m in re.finditer(r"\((\d+),\s*(\d+),\s*(\d+)\)", out):
                mism.append(tuple(int(x) for x in m.groups()))
    return mism, errors, sum(sizes.values())


def run_lca(seed: int, out: Path):
    env = dict(os.environ, PYTHONHASHSEED=str(seed))
    p = subprocess.run([PY, "-W", "ignore", str(VERIF / "harness" / "impl_lca.py"), str(out)],
                       env=env, capture_output=True, text=True, timeout=900)
    if p.returncode != 0:
        raise RuntimeError("impl_lca failed:\n" + p.stderr[-3000:])
    return json.loads(out.read_text())


def lca_outcome_to_coq(o) -> str:
    if o[0] == "T":
        return f"(TOk {translate.json_to_coq(o[1])})"
    return "(TErr EDataType)" if o[0] == "DataTypeError" else "(TErr EInternalT)"


LCA_HEADER = """From Coq Require Import List String NArith Bool.
From PDT Require Import Model.Dtype Model.Universe Model.Typing Model.Lca Proofs.LcaLemmas.
Import ListNotations.
Open Scope N_scope.
Fixpoint cmpl (i : nat) (ms cs : list (tres dtype)) : list nat :=
  match ms, cs with
  | [], [] => []
  | m :: ms', c :: cs' => if tres_dtype_eqb m c then cmpl (S i) ms' cs' else i :: cmpl (S i) ms' cs'
  | _, _ => [i; i]
  end.
"""


def lca_check(ctx, seeds, viol):
    """lca_type incl. List types: oracle on the implementation (never an internal error, result independent of the
    argument order and of PYTHONHASHSEED) + outcome-by-outcome correspondence with Model/Lca.lca_l."""
    import itertools
    import impl_lca
    tmp = Path(tempfile.mkdtemp(prefix="c13l_", dir=str(CASES.parent)))
    try:
        datas = [run_lca(s, tmp / f"l{s}.json") for s in seeds[:2]]
    finally:
        for f in tmp.glob("*"):
            f.unlink()
        tmp.rmdir()
    d0 = datas[0]
    doms = {"pairs": list(itertools.product(impl_lca.LU, impl_lca.LU)),
            "triples": list(itertools.product(impl_lca.LU3, impl_lca.LU3, impl_lca.LU3))}
    n = 0
    for kind, tuples in doms.items():
        outs = d0[kind]
        n += len(outs)
        index = {json.dumps(list(t)): o for t, o in zip(tuples, outs)}
        bad_int, bad_ord, bad_seed = 0, 0, 0
        for t, o, o1 in zip(tuples, outs, datas[-1][kind]):
            if o[0] == "Other" and bad_int < 3:
                bad_int += 1
                viol.append({"what": f"lca_type({json.dumps(list(t))}) fails with the internal error {o[1]}",
                             "found_input": True, "payload": {"function": "types.lca_type", "args": list(t), "outcome": o,
                                                               "expected": "a type or DataTypeError"}})
            if o != o1 and bad_seed < 3:
                bad_seed += 1
                viol.append({"what": "lca_type depends on PYTHONHASHSEED", "found_input": True,
                             "payload": {"function": "types.lca_type", "args": list(t), "outcome_a": o, "outcome_b": o1,
                                         "seeds": seeds[:2]}})
            if bad_ord < 3:
                for perm in itertools.permutations(t):
                    o2 = index[json.dumps(list(perm))]
                    if o2 != o:
                        bad_ord += 1
                        viol.append({"what": f"lca_type depends on the argument order: {json.dumps(list(t))} -> {o}, "
                                             f"{json.dumps(list(perm))} -> {o2}",
                                     "found_input": True,
                                     "payload": {"function": "types.lca_type", "args": list(t), "outcome": o,
                                                 "permuted_args": list(perm), "permuted_outcome": o2}})
                        break
    mism = 0
    if ctx.build_ok:
        def lst(x):
            return "[" + "; ".join(translate.json_to_coq(t) for t in x) + "]"
        txt = LCA_HEADER
        txt += f"Eval vm_compute in (dtypes_eqb LU {lst(impl_lca.LU)} && dtypes_eqb LU3 {lst(impl_lca.LU3)}).\n"
        txt += ("Eval vm_compute in (cmpl 0 (map (fun p => lca_l 3 [fst p; snd p]) (list_prod LU LU)) [%s]).\n"
                % "; ".join(lca_outcome_to_coq(o) for o in d0["pairs"]))
        txt += ("Eval vm_compute in (cmpl 0 (flat_map (fun a => flat_map (fun b => map (fun c => lca_l 3 [a; b; c]) LU3) LU3) LU3) [%s]).\n"
                % "; ".join(lca_outcome_to_coq(o) for o in d0["triples"]))
        f = CASES / "c13_lca.v"
        CASES.mkdir(parents=True, exist_ok=True)
        f.write_text(txt)
        p = subprocess.run(["bash", "-c", f"ulimit -s unlimited; timeout 600 coqc {' '.join(common.COQ_ARGS)} {f}"],
                           capture_output=True, text=True, cwd=common.COQ)
        import re
        blocks = re.split(r"\n\s*=\s", "\n" + p.stdout)
        if p.returncode != 0 or len(blocks) != 4:
            viol.append({"what": "correspondence cases did not evaluate", "found_input": False,
                         "payload": {"correspondence": "C13 lca_type (Model/Lca.lca_l vs types.lca_type)",
                                     "error": (p.stderr or p.stdout)[-1500:]}})
            return n, -1
        if not blocks[1].strip().startswith("true"):
            viol.append({"what": "correspondence cases did not evaluate", "found_input": False,
                         "payload": {"correspondence": "C13 lca_type", "error": "harness/impl_lca.py LU/LU3 differ from Model/Lca.LU / LcaLemmas.LU3"}})
            return n, -1
        for kind, blk in (("pairs", blocks[2]), ("triples", blocks[3])):
            idxs = [int(x) for x in re.findall(r"\d+", blk.split(":")[0])]
            mism += len(idxs)
            for i in idxs[:3]:
                t = doms[kind][i] if i < len(doms[kind]) else None
                viol.append({"what": f"model/implementation disagree on lca_type({json.dumps(list(t)) if t else i})",
                             "found_input": False,
                             "payload": {"correspondence": "C13 lca_type (Model/Lca.lca_l vs types.lca_type)",
                                         "args": list(t) if t else None,
                                         "impl_outcome": d0[kind][i] if t else None}})
    return n, mism


def run(ctx, res):
    import itertools
    from impl_c13 import domains

    seeds = [0, 1] if ctx.tier == "quick" else [0, 1, 7]
    tmp = Path(tempfile.mkdtemp(prefix="c13_", dir=str(CASES.parent)))
    try:
        with ThreadPoolExecutor(len(seeds)) as ex:
            datas = list(ex.map(lambda s: run_impl(s, tmp / f"o{s}.json"), seeds))
    finally:
        for f in tmp.glob("*"):
            f.unlink()
        tmp.rmdir()
    d0 = datas[0]
    opvars = list(d0["ops"].keys())

    def tuple_at(v, k, idx):
        return list(next(itertools.islice(itertools.product(*domains(k)), idx, None)))

    def decoded(d):
        return {v: [[d["otab"][c] for c in codes] for _, codes in d["ops"][v]["blocks"]] for v in d["ops"]}

    # --- property oracle on the implementation -------------------------------------------------
    known = {f["id"]: f for f in common.known_findings() if f["property"] == "C13"}
    known_amb = {}
    if "F10" in known:
        known_amb = json.loads((VERIF / known["F10"]["match"]["tuples_file"]).read_text())
    amb_set = {(op, json.dumps(t)) for op, ts in known_amb.items() for t in ts}
    hit = set()
    viol = []
    # (b) hash-seed independence
    dec0 = decoded(d0)
    for s, d in zip(seeds[1:], datas[1:]):
        dec = decoded(d)
        for v in opvars:
            if dec.get(v) != dec0[v]:
                for bi, (b0, b1) in enumerate(zip(dec0[v], dec.get(v, []))):
                    for idx, (x, y) in enumerate(zip(b0, b1)):
                        if x != y:
                            k = d0["ops"][v]["blocks"][bi][0]
                            viol.append({"what": f"resolution of ops.{v} depends on PYTHONHASHSEED",
                                         "found_input": True,
                                         "payload": {"op": v, "args": tuple_at(v, k, idx),
                                                     "seed_a": seeds[0], "outcome_a": x,
                                                     "seed_b": s, "outcome_b": y}})
                            break
                    else:
                        continue
                    break
    # (a) totality, (c) uniformity, (d) const, (e) const parameters
    of = d0["oracle_fail"]
    for op, tup, o in of["internal"]:
        if (op, json.dumps(tup)) in amb_set and o == ["AssertionError"]:
            hit.add("F10")
        else:
            viol.append({"what": f"ops.{op}{tuple(map(json.dumps, tup))}: type checking fails with {o}",
                         "found_input": True, "payload": {"op": op, "args": tup, "outcome": o,
                                                           "expected": "a type or DataTypeError"}})
    for op, tup, i, v, o, o2 in of["uniform"]:
        viol.append({"what": f"ops.{op}: sized type {v} at position {i} not accepted like the generic one",
                     "found_input": True, "payload": {"op": op, "args": tup, "position": i, "variant": v,
                                                       "generic_outcome": o, "variant_outcome": o2}})
    for op, tup, i, o, o2 in of["const"]:
        viol.append({"what": f"ops.{op}: constant argument at position {i} rejected where a column is accepted",
                     "found_input": True, "payload": {"op": op, "args": tup, "position": i,
                                                       "column_outcome": o, "const_outcome": o2}})
    f17 = known.get("F17", {}).get("match", {})
    for op, tup, i, o in of["constparam"]:
        if op == f17.get("op") and i == f17.get("position"):
            hit.add("F17")
        else:
            viol.append({"what": f"ops.{op}: parameter {i} is declared const but accepts a column",
                         "found_input": True, "payload": {"op": op, "args": tup, "position": i, "outcome": o}})

    # --- correspondence model <-> implementation -----------------------------------------------
    n_cases = sum(len(c) for v in opvars for _, c in d0["ops"][v]["blocks"])
    mism, errors = [], []
    if ctx.build_ok:
        mism, errors, n_cases = correspondence(d0, opvars)
        for (opi, k, idx) in mism[:20]:
            v = opvars[opi]
            viol.append({"what": f"model/implementation disagree on ops.{v} with {k} args (case {idx})",
                         "found_input": False,
                         "payload": {"correspondence": "C13 outcome-by-outcome (Model/Resolve.op_outcome vs ColFn.dtype)",
                                     "op": v, "args": tuple_at(v, k, idx) if idx < 10**7 else None,
                                     "impl_outcome": dec0[v][[b[0] for b in d0["ops"][v]["blocks"]].index(k)][idx]
                                     if idx < len(dec0[v][[b[0] for b in d0["ops"][v]["blocks"]].index(k)]) else None}})
        for e in errors:
            viol.append({"what": "correspondence cases did not evaluate", "found_input": False,
                         "payload": {"correspondence": "C13", "error": e}})

    lca_n, lca_mism = lca_check(ctx, seeds, viol)

    # de-duplicate violations by operator (keep the first few per kind)
    seen, out = {}, []
    for v in viol:
        key = (v["what"].split(":")[0][:60])
        seen[key] = seen.get(key, 0) + 1
        if seen[key] <= 3:
            out.append(v)
    res.violations.extend(out)
    for fid in sorted(hit):
        res.known.append(f"{fid} {known[fid]['what']}")
    res.traces = (n_cases + lca_n) if ctx.build_ok and not errors and lca_mism >= 0 else 0

    accepted = sum(1 for v in opvars for b in dec0[v] for o in b if o[0] == "T")
    sample_ops = ["add", "horizontal_max", "shift", "str_contains"]
    samples = []
    for v in sample_ops:
        if v in d0["ops"]:
            k, codes = d0["ops"][v]["blocks"][-1]
            for idx in (0, len(codes) // 3, len(codes) - 1):
                samples.append({"op": v, "args": tuple_at(v, k, idx), "impl_outcome": d0["otab"][codes[idx]]})
    res.coverage.update({
        "evaluations": n_cases * len(seeds),
        "distinct_nontrivial": accepted,
        "rule": "every operator of the running catalogue x every argument-type tuple of Model/Enum.v; "
                "distinct_nontrivial counts the tuples the type checker accepts (a signature was selected)",
        "exhaustive": True,
        "hash_seeds": seeds,
        "operators": len(opvars),
        "outcome_histogram": {k: sum(1 for v in opvars for b in dec0[v] for o in b if o[0] == k)
                              for k in ("T", "DataTypeError", "AssertionError", "Other")},
        "correspondence_mismatches": len(mism),
        "lca_type_cases": lca_n, "lca_type_correspondence_mismatches": lca_mism,
        "samples": samples,
        "partial": ["resolution_total_U holds only modulo NullType arguments (finding F10)",
                    "const_param_rejects_column holds modulo shift's fill_value (finding F17)"],
    })
