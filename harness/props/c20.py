"""C20 — all export targets describe the same table.
Theorems: Properties/C20.v (Model/Targets.v: DictOfLists / ListOfDicts / Dict / Scalar as encoders of the
frame of export(Polars()), for every frame; storage types are fixed points of export + re-import,
generated/PolarsTypes.v).
Tie (correspondence, every run): generated pipelines and hand-made edge tables (empty result, single
cell, null-only columns, permuting select, ...) on the Polars and the SQLite backend:
  * Coq evaluates Model/Targets.v on the real Polars() frame and compares with the real DictOfLists,
    ListOfDicts, Dict (or TypeError) and Scalar (or TypeError)  [Model/TargetCheck.check_targets];
  * Python oracles for the targets that have code paths of their own: Polars(lazy=True) collected, Pandas
    (names, order, values, nulls), ColExpr.export of every visible column and of one computed
    expression (Polars and Pandas), Table(<exported frame>) (data and schema), Table(<DictOfLists>)."""
import collections
import json
import math
import re
import subprocess
import warnings
from pathlib import Path

import common
import findings
import gen
import pipecheck
import pipeprop
import ser

TRUSTED_BASE = [
    "polars' own to_list / to_dict / to_dicts / to_pandas and pandas' tolist are third-party: Model/Targets.v is tied to them "
    "by evaluation on every case, not proved",
    "harness/translate.py gen_polarstypes (PolarsTypes.v)",
]
ASSUMPTIONS = ["SQL backends implement the Polars target only (Pandas raises NotImplementedError there: not applicable)",
               "rows are compared in order; when no arrange fixes the order and two executions differ, as multisets"]

HEADER = """From Coq Require Import List String ZArith NArith Bool PrimFloat.
From PDT Require Import Model.Value Model.Targets Model.TargetCheck.
Import ListNotations.
Open Scope string_scope.
"""


def canon(v):
    if isinstance(v, float) and math.isnan(v):
        return "<nan>"
    return v


def cols_of(df):
    return [[c, [canon(v) for v in df.get_column(c).to_list()]] for c in df.columns]


def frame_coq(cols):
    return "[" + "; ".join(f"({ser.str_to_coq(n)}, [{'; '.join(val(v) for v in c)}])" for n, c in cols) + "]"


def val(v):
    if v == "<nan>":
        return "VErr"
    return ser.value_to_coq(v)


def pyrow_coq(d):
    return "[" + "; ".join(f"({ser.str_to_coq(k)}, {val(canon(v))})" for k, v in d.items()) + "]"


def ordered(case, backend="polars"):
    """is the row order of the result the same in every execution?  SQLite: yes (one engine, one plan);
    Polars: unless a group_by aggregation, a join or a union (unique) is involved (no maintain_order)"""
    if backend == "sqlite":
        return True
    return not any(st[0] in ("summarize", "join", "union") for p in findings.walk_pipes(case["pipe"]) for st in p["steps"])


def same_rows(cols_a, cols_b, exact):
    if [n for n, _ in cols_a] != [n for n, _ in cols_b]:
        return False
    ra = list(zip(*[c for _, c in cols_a])) if cols_a else []
    rb = list(zip(*[c for _, c in cols_b])) if cols_b else []
    if ra == rb:
        return True
    if exact:
        return False
    return sorted(map(repr, ra)) == sorted(map(repr, rb))


def observe(case, backend):
    """dict with the frame, the four derived targets and the failures of the Python oracles"""
    import pandas as pd
    import polars as pl
    import pydiverse.transform as pdt
    from pipes import Instantiator
    from pydiverse.transform import extended as X
    o = {"fail": [], "skip": None}
    out = Instantiator(case, backend, {}).run()
    if out.exc is not None:
        o["skip"] = f"rejected:{out.exc}"
        return o
    tbl = out.table
    exact = ordered(case, backend)
    o["exact"] = exact
    with warnings.catch_warnings():
        warnings.simplefilter("ignore")
        try:
            df = tbl >> X.export(pdt.Polars())
        except BaseException as ex:  # noqa: BLE001
            o["skip"] = f"export:{type(ex).__name__}"
            return o
        F = cols_of(df)
        o["frame"] = F
        o["schema"] = [str(t) for t in df.dtypes]
        try:
            frame_coq(F)
        except ser.SerError as ex:
            o["skip"] = f"value outside the model: {ex}"
            return o

        def attempt(name, f):
            try:
                return f()
            except BaseException as ex:  # noqa: BLE001
                if isinstance(ex, (KeyboardInterrupt, SystemExit)):
                    raise
                o["fail"].append(f"{name}: raised {type(ex).__name__}: {str(ex)[:150]}")
                return None
        # --- lazy
        lz = attempt("Polars(lazy=True)", lambda: tbl >> X.export(pdt.Polars(lazy=True)))
        if lz is not None:
            if backend == "polars" and not isinstance(lz, pl.LazyFrame):
                o["fail"].append("Polars(lazy=True) did not return a LazyFrame")
            ld = lz.collect() if isinstance(lz, pl.LazyFrame) else lz
            if not same_rows(F, cols_of(ld), exact) or [str(t) for t in ld.dtypes] != o["schema"]:
                o["fail"].append(f"Polars(lazy=True) collected differs from Polars(): {cols_of(ld)!r:.300} vs {F!r:.300}")
        # --- second eager export (determinism of the comparison base)
        df2 = attempt("Polars() again", lambda: tbl >> X.export(pdt.Polars()))
        if df2 is not None and not same_rows(F, cols_of(df2), exact):
            o["fail"].append("a second export(Polars()) differs")
        stable = df2 is not None and cols_of(df2) == F
        o["stable"] = stable
        # --- pandas
        if backend == "polars":
            pdf = attempt("Pandas", lambda: tbl >> X.export(pdt.Pandas()))
            if pdf is not None:
                pc = [[str(c), [None if v is pd.NA else canon(v) for v in pdf[c].tolist()]] for c in pdf.columns]
                if not same_rows(F, pc, exact):
                    o["fail"].append(f"Pandas differs from Polars(): columns {[n for n, _ in pc]} vs {[n for n, _ in F]}; "
                                     f"{pc!r:.300} vs {F!r:.300}")
                if len(pdf) != df.height:
                    o["fail"].append("Pandas has another number of rows")
                back = attempt("Table(<pandas frame>)", lambda: pdt.Table(pdf) >> X.export(pdt.Polars()))
                if back is not None and (not same_rows(F, cols_of(back), exact)):
                    o["fail"].append("Table(<exported pandas frame>) does not reproduce the data")
        # --- derived targets, raw (compared in Coq)
        for key, tgt in (("dol", pdt.DictOfLists()), ("lod", pdt.ListOfDicts()), ("dict", pdt.Dict()), ("scalar", pdt.Scalar())):
            try:
                o[key] = ("val", tbl >> X.export(tgt))
            except TypeError as ex:
                o[key] = ("typeerror", str(ex)[:100])
            except BaseException as ex:  # noqa: BLE001
                o[key] = ("exc", f"{type(ex).__name__}: {str(ex)[:150]}")
                o["fail"].append(f"{key}: raised {type(ex).__name__}: {str(ex)[:150]}")
        for key in ("dol", "lod"):
            if o[key][0] == "typeerror":
                o["fail"].append(f"{key}: raised TypeError {o[key][1]}")
        # --- ColExpr.export of every visible column.  An expression is exported relative to the table its
        # columns were defined in, so the columns are taken from an alias of the final table (same data,
        # every column defined there)
        try:
            tbl2 = tbl >> X.alias()
        except BaseException:  # noqa: BLE001
            tbl2 = []
        exact_full = exact
        exact = exact and backend == "polars"       # on SQL another statement (subquery of the alias) may return another order
        for c in list(tbl2)[:6]:
            s = attempt(f"ColExpr.export({c.name})", lambda c=c: c.export(pdt.Polars()))
            if s is None:
                continue
            want = dict((n, v) for n, v in F)[c.name]
            got = [canon(v) for v in s.to_list()]
            if s.name != c.name or not (got == want or (not exact and sorted(map(repr, got)) == sorted(map(repr, want)))):
                o["fail"].append(f"ColExpr.export of column {c.name!r}: {s.name!r} {got!r:.200} vs {want!r:.200}")
            if backend == "polars":
                ps = attempt(f"ColExpr.export({c.name}, Pandas)", lambda c=c: c.export(pdt.Pandas()))
                if ps is not None:
                    gotp = [None if v is pd.NA else canon(v) for v in ps.tolist()]
                    if not (gotp == want or (not exact and sorted(map(repr, gotp)) == sorted(map(repr, want)))):
                        o["fail"].append(f"ColExpr.export(Pandas) of column {c.name!r}: {gotp!r:.200} vs {want!r:.200}")
        # --- a computed expression: is_null of the first column (defined for every type)
        cols = list(tbl2)
        if cols:
            c0 = cols[0]
            s = attempt("ColExpr.export(<expr>)", lambda: c0.is_null().export(pdt.Polars()))
            ref = attempt("mutate+select", lambda: tbl2 >> X.mutate(zz9=c0.is_null()) >> X.select(pdt.C.zz9) >> X.export(pdt.Polars()))
            if s is not None and ref is not None:
                a, b = s.to_list(), ref.get_column("zz9").to_list()
                if not (a == b or (not exact and sorted(map(repr, a)) == sorted(map(repr, b)))):
                    o["fail"].append(f"ColExpr.export of `{c0.name}.is_null()` differs from mutate+select+export: {a!r:.200} vs {b!r:.200}")
        # --- an aggregate that relies on the grouping of the table the column comes from
        if cols:
            tg = attempt("group_by", lambda: tbl2 >> X.group_by(cols[-1]))
            if tg is not None:
                cg = list(tg)[0]
                s = attempt("ColExpr.export(<grouped aggregate>)", lambda: cg.count().export(pdt.Polars()))
                ref = attempt("grouped mutate+select", lambda: tg >> X.mutate(zz8=cg.count()) >> X.select(pdt.C.zz8) >> X.export(pdt.Polars()))
                if s is not None and ref is not None:
                    a, b = s.to_list(), ref.get_column("zz8").to_list()
                    if sorted(map(repr, a)) != sorted(map(repr, b)):
                        o["fail"].append(f"ColExpr.export of `{cg.name}.count()` on a table grouped by `{cols[-1].name}` differs from "
                                         f"mutate+select+export of the same table: {a!r:.200} vs {b!r:.200}")
        exact = exact_full
        # --- Table(<exported frame>) reproduces data and types
        back = attempt("Table(<frame>)", lambda: pdt.Table(df) >> X.export(pdt.Polars()))
        if back is not None:
            if cols_of(back) != F:
                o["fail"].append("Table(<exported frame>) >> export does not reproduce the data")
            if [str(t) for t in back.dtypes] != o["schema"]:
                o["fail"].append(f"Table(<exported frame>) changes the column types: {back.dtypes} vs {df.dtypes}")
            t2 = attempt("Table(<frame>) types", lambda: pdt.Table(df))
            if t2 is not None:
                import pydiverse.common as C
                from pydiverse.transform._internal.tree import types as T
                from translate import dtype_to_json
                a = [dtype_to_json(T.without_const(c.dtype())) for c in t2]
                b = [dtype_to_json(C.Dtype.from_polars(t)) for t in df.dtypes]
                if a != b:
                    o["fail"].append(f"Table(<exported frame>) column types {a} are not the types {b} of the frame")
                # the static types of the exported table, where the frame is typed (C12 covers the rest)
                st = [dtype_to_json(storage(T.without_const(c.dtype()))) for c in tbl]
                if backend == "polars" and any(x != y for x, y, t in zip(a, st, df.dtypes) if str(t) != "Null"):
                    o["fail"].append(f"Table(<exported frame>) column types {a} are not the storage types {st} of the exported table")
    return o


def storage(t):
    import pydiverse.common as C
    if type(t) is C.Int:
        return C.Int64()
    if type(t) is C.Float:
        return C.Float64()
    if isinstance(t, C.String):
        return C.String()
    if isinstance(t, C.Decimal):
        return t
    return t


def obs_coq(kind_val, conv):
    k, v = kind_val
    if k == "val":
        return f"(OVal {conv(v)})"
    return "OTypeError"


def evaluate(name, items):
    """items: list of (index, observation).  Returns {index: [codes]}, {index: wf}, errors"""
    pipecheck.CASES.mkdir(parents=True, exist_ok=True)
    files = []
    shard = 120
    for s0 in range(0, len(items), shard):
        txt = [HEADER]
        ents = []
        for idx, o in items[s0:s0 + shard]:
            try:
                f = frame_coq(o["frame"])
                dol = "[" + "; ".join(f"({ser.str_to_coq(k)}, [{'; '.join(val(canon(x)) for x in v)}])"
                                      for k, v in o["dol"][1].items()) + "]" if o["dol"][0] == "val" else "[]"
                lod = "[" + "; ".join(pyrow_coq(r) for r in o["lod"][1]) + "]" if o["lod"][0] == "val" else "[]"
                d = obs_coq(o["dict"], pyrow_coq)
                s = obs_coq(o["scalar"], lambda v: val(canon(v)))
            except ser.SerError:
                continue
            txt.append(f"Definition f{idx} : frame value := {f}.")
            fn = "check_targets" if o["exact"] else "check_targets_unordered"
            ents.append(f"({idx}, {fn} f{idx} {dol} {lod} {d} {s}, (if wf_b f{idx} then 1 else 0))")
        if not ents:
            continue
        txt.append("Eval vm_compute in [" + ";\n ".join(ents) + "]%nat.\n")
        p = pipecheck.CASES / f"{name}_{s0 // shard}.v"
        p.write_text("\n".join(txt))
        files.append(p)
    res, wf, errors = {}, {}, []
    from concurrent.futures import ThreadPoolExecutor

    def go(f):
        return subprocess.run(["bash", "-c", f"ulimit -s unlimited; timeout 900 coqc {' '.join(common.COQ_ARGS)} {f}"],
                              capture_output=True, text=True, cwd=common.COQ)
    with ThreadPoolExecutor(common.NPROC) as ex:
        for f, p in zip(files, ex.map(go, files)):
            if p.returncode != 0:
                errors.append(f"{f.name}: {(p.stderr or p.stdout)[-1200:]}")
                continue
            flat = re.sub(r"%nat|\s", "", p.stdout)
            for m in re.finditer(r"\((\d+),\[([\d;]*)\],(\d)\)", flat):
                res[int(m.group(1))] = [int(x) for x in m.group(2).split(";") if x]
                wf[int(m.group(1))] = int(m.group(3))
    return res, wf, errors


def T(cols, rows):
    return {"t": {"cols": cols, "rows": rows}}


def col(n):
    return ["col", "P@0", n]


def edge_cases():
    base = [["a", "Int64"], ["b", "Float64"], ["s", "String"], ["p", "Bool"]]
    rows = [[1, 1.5, "x", True], [2, None, None, False], [None, -2.25, "it's", None], [4, 0.0, "", True]]

    def P(steps, cols=base, r=rows):
        return {"tables": T(cols, r), "pipe": {"id": "P", "src": "t", "steps": steps}}
    gt = ["fn", "greater_than", [col("a"), ["lit", 100]]]
    eq1 = ["fn", "equal", [col("a"), ["lit", 1]]]
    out = [
        P([]),
        P([["filter", [gt]]]),                                             # empty result
        P([["filter", [eq1]]]),                                            # one row
        P([["filter", [eq1]], ["select", [col("s")]]]),                    # single cell
        P([["filter", [eq1]], ["select", [col("b")]]]),
        P([["select", [col("a")]]]),                                       # one column, several rows
        P([["filter", [gt]], ["select", [col("a")]]]),                     # one column, no row
        P([["select", [col("p"), col("s"), col("b"), col("a")]]]),         # permuting select, nothing hidden
        P([["select", [col("s"), col("a")]]]),
        P([["mutate", [["d", ["fn", "add", [col("a"), ["lit", 1]]]]]], ["select", [["c", "d"], col("b"), col("a"), col("s"), col("p")]]]),
        P([["mutate", [["a", ["fn", "add", [col("a"), ["lit", 1]]]]]]]),   # overwrite: physical order differs
        P([["rename", [["a", "z"], ["s", "a"]]]]),
        P([["arrange", [["ord", col("a"), True, True]]]]),
        P([["group_by", [col("p")], False], ["summarize", [["n", ["fn", "count", [col("a")]]]]], ["arrange", [["ord", ["c", "p"], False, True]]]]),
        P([["summarize", [["m", ["fn", "max", [col("a")]]]]]]),            # 1 x 1 aggregate
        P([["summarize", [["m", ["fn", "max", [col("a")]]], ["k", ["fn", "min", [col("s")]]]]]]),
        P([], [["n1", "Int64"], ["n2", "String"]], [[None, None], [None, None]]),      # null-only columns
        P([["filter", [["fn", "is_null", [col("n1")]]]], ["slice_head", 1, 0]], [["n1", "Int64"], ["n2", "String"]], [[None, None], [None, None]]),
        P([], [["only", "Bool"]], [[None]]),                               # single null cell
        P([], [["only", "Float64"]], [[2.5]]),
        P([], [["x", "Int64"]], []),                                      # empty source
        P([["slice_head", 0, 0]]),
        P([["slice_head", 1, 2]]),
    ]
    return out


def run(ctx, res):
    listed = pipeprop.listed_findings()
    n = 160 if ctx.tier == "quick" else 2500
    cases, origin = [], []
    if ctx.replay:
        rp = json.loads(Path(ctx.replay).read_text())
        if "case" in rp:
            cases.append(rp["case"])
            origin.append("replay")
        n = 0
    else:
        for i, c in enumerate(edge_cases()):
            cases.append(c)
            origin.append(f"edge:{i}")
    g = gen.Gen(ctx.seed + 2000, {"shapes": {"typical": 4, "empty": 2, "single": 3, "nulls": 3, "tall": 0.5}})
    g2 = gen.Gen(ctx.seed + 2001, {"max_steps": 3, "verbs": {"select": 5, "rename": 2, "mutate": 3, "filter": 2, "slice_head": 2,
                                                              "summarize": 2, "arrange": 2}})
    for i in range(n):
        cases.append((g if i % 2 == 0 else g2).case())
        origin.append(f"gen:{ctx.seed + 2000 + i % 2}:{i // 2}")
    items = []
    stats = collections.Counter()
    oracle_fail = []
    for i, c in enumerate(cases):
        for b in ("polars", "sqlite"):
            if c.get("only") and b not in c["only"]:
                continue
            try:
                o = observe(c, b)
            except Exception as ex:  # noqa: BLE001
                o = {"skip": f"harness:{type(ex).__name__}", "fail": []}
            if o["skip"]:
                stats[f"{b}:skipped:{o['skip'].split(':')[0]}"] += 1
                continue
            stats[f"{b}:observed"] += 1
            h = len(o["frame"][0][1]) if o["frame"] else 0
            stats[f"shape:{'empty' if h == 0 else 'one-row' if h == 1 else 'rows'}"
                  f"{'/single-col' if len(o['frame']) == 1 else ''}"] += 1
            if any(all(v is None for v in colv) and colv for _, colv in o["frame"]):
                stats["shape:has null-only column"] += 1
            items.append((i * 2 + (b == "sqlite"), o))
            for f in o["fail"]:
                oracle_fail.append((i, b, f))
    codes, wf, errors = evaluate("c20", items)
    for e in errors:
        res.violations.append({"what": "C20 correspondence cases did not evaluate in Coq", "found_input": False,
                               "payload": {"correspondence": "Model/Targets.v vs export targets", "error": e}})
    names = {1: "DictOfLists", 2: "ListOfDicts", 3: "Dict", 4: "Scalar", 5: "ListOfDicts does not decode to the frame"}
    reported = 0
    seen = set()
    hit = collections.Counter()
    byidx = dict(items)
    for idx, cs in sorted(codes.items()):
        for cde in cs:
            i, b = idx // 2, ("sqlite" if idx % 2 else "polars")
            stats[f"{b}:target differs:{names[cde]}"] += 1
            if (b, cde) in seen or reported >= 4:
                continue
            seen.add((b, cde))
            reported += 1
            o = byidx[idx]
            res.violations.append({
                "what": f"{b}: {names[cde]} differs from the model's encoding of the export(Polars()) frame [{origin[i]}]",
                "found_input": True,
                "payload": {"case": cases[i], "backend": b, "origin": origin[i], "frame": o["frame"],
                            "observed": {k: repr(o.get(k))[:600] for k in ("dol", "lod", "dict", "scalar")}}})
    for i, b, f in oracle_fail:
        key = (b, f.split(":")[0].split("(")[0])
        stats[f"{b}:oracle:{key[1]}"] += 1
        m = re.search(r"raised (\w+): (.*)", f, re.S)
        fdict = {"kind": "export_exc", "exc": m.group(1), "msg": m.group(2)} if m else {"kind": "rows", "exc": "", "msg": f}
        fid = findings.match(cases[i], b, fdict, listed)
        if fid is not None:
            hit[fid] += 1
        if fid is not None or key in seen or reported >= 4:
            continue
        seen.add(key)
        reported += 1
        res.violations.append({"what": f"{b}: {f[:200]} [{origin[i]}]", "found_input": True,
                               "payload": {"case": cases[i], "backend": b, "origin": origin[i], "detail": f}})
    for fid, k in sorted(hit.items()):
        res.known.append(f"{fid} {listed[fid]['what'][:200]} ({k} oracle comparisons)")
    ok = sum(1 for cs in codes.values() if not cs)
    res.traces += ok
    cov = res.coverage
    cov["evaluations"] = len(items)
    cov["distinct_nontrivial"] = len({pipeprop.case_key(cases[idx // 2]) for idx, _ in items})
    cov["cases_satisfying_wf_hypothesis"] = sum(wf.values())
    cov["targets_equal_to_model"] = ok
    cov["distribution"] = dict(stats)
    cov["partial"] = ["Polars(lazy=True), Pandas, ColExpr.export and Table(<frame>) are compared by Python oracles, not through the model",
                      "SQL backends: Polars target only"]
