"""C01 — Polars and SQL backends return the same table for the same pipeline.
Both backends are compared with the Coq reference on the real resolved AST (L1), over the broad
generator profile (all verbs incl. joins and unions, windows, aggregates, all data shapes)."""
import pipeprop

TRUSTED_BASE = [
    "Model/RefSem.v + Model/Ops.v are the specification; harness/ser.py prints the real AST of each backend",
    "SQLite is the executable SQL representative; its result is read through export(Polars())",
]
ASSUMPTIONS = ["value domain of DESIGN.md section 4 (cases outside are discarded and counted)",
               "known findings (known_findings.json) are avoided by generator preconditions and re-demonstrated by probes"]
PROFILE = {}


def run(ctx, res):
    pipeprop.run(ctx, res, "C01", PROFILE, n_quick=450, n_thorough=8000, probe_ids=("F07",), label="broad")
    if ctx.tier == "thorough" and not ctx.replay:
        pipeprop.run(ctx, res, "C01", {"shapes": {"tall": 3, "empty": 2, "single": 2, "nulls": 3}, "max_steps": 5},
                     n_quick=0, n_thorough=600, label="tall/empty/single shapes")
